/-
C13 model: pkg/eval/vals/index_list.go, index_string.go, assoc.go
(list/string parts), function by function.

* `adjustAndCheckIndex` is NOT written here: it is regenerated from the Go
  source by tools/go2lean (`Gen.C13Index.adjustAndCheckIndex`); `adjust` only
  re-attaches the error payload the translator abstracts to a constructor name.
* `atoi` = elvish's wrapper over `strconv.Atoi`; `strconv.Atoi` is modelled by
  its slow path `ParseInt(s, 10, 0)` / `ParseUint(s, 10, 64)` on a 64-bit
  platform (the fast path for < 19 bytes computes the same function).
* Go `int` is `Int`; the single place the code can overflow for inputs in
  range (`j++` after `atoi` returned MaxInt64 in the `..=` form) is an
  explicit `wrap64`.  Everything else is guarded by hypotheses of the
  theorems (`n` is a length, typed ints are int64s).
* A persistent vector is a Lean `List` (its own correctness is C06); the
  three vector methods used here are modelled with their own bound checks
  (`SubVector`/`Assoc` return a nil Vector, `Index` returns `ok = false`).
* index_string.go is modelled AFTER fixes/C13-fffd-boundary.patch: the
  boundary tests look at the decoded width (`r == RuneError && size == 1`),
  not only at the rune value.
-/
import ElvModel.Go.Basic
import ElvModel.Go.Utf8
import ElvModel.Generated.C13Index
import ElvModel.C13.Spec   -- only for the data type `Raw`
namespace C13
open Go

/-! ### integers -/

/-- Go `int` (64-bit) wrap-around of a mathematical integer. -/
def wrap64 (x : Int) : Int := (x + 9223372036854775808) % 18446744073709551616 - 9223372036854775808

def maxInt64 : Int := 9223372036854775807
def minInt64 : Int := -9223372036854775808
def maxUint64 : Nat := 18446744073709551615

/-- `strconv.Itoa` -/
def itoa (i : Int) : String := toString i

/-! ### errors -/

/-- The error causes the modelled functions produce. -/
inductive Err where
  | mustBeInteger                                     -- errIndexMustBeInteger
  | outOfRange (what lo hi : String) (actual : Bytes) -- errs.OutOfRange{What, ValidLow, ValidHigh, Actual}
  | notAtRuneBoundary                                 -- errIndexNotAtRuneBoundary
  | assocWithSlice                                    -- errAssocWithSlice
  | replacementMustBeString                           -- errReplacementMustBeString
  deriving Repr, DecidableEq

/-- Canonical text of an error (the harness prints the Go error the same way). -/
def Err.render : Err → String
  | .mustBeInteger => "must-be-integer"
  | .outOfRange what lo hi actual => s!"oor|{what}|{lo}|{hi}|{hexEnc actual}"
  | .notAtRuneBoundary => "not-at-rune-boundary"
  | .assocWithSlice => "assoc-with-slice"
  | .replacementMustBeString => "replacement-must-be-string"

def throw {α} (e : Err) : Res α := .exc e.render

/-- `posIndexOutOfRange(index, n)` -/
def posIndexOutOfRange (index : Bytes) (n : Int) : Err :=
  .outOfRange "index" "0" (itoa (n - 1)) index

/-- `negIndexOutOfRange(index, n)` -/
def negIndexOutOfRange (index : Bytes) (n : Int) : Err :=
  .outOfRange "negative index" (itoa (-n)) "-1" index

/-! ### strconv.Atoi -/

def isDigit (c : UInt8) : Bool := 48 ≤ c && c ≤ 57

/-- Outcome of `ParseUint(s, 10, 64)`. -/
inductive UintRes where
  | ok (n : Nat)
  | syntaxErr
  | rangeErr
  deriving Repr, DecidableEq

/-- The digit loop of `ParseUint` in base 10: a non-digit is a syntax error,
unless an earlier digit already overflowed uint64 (then the range error was
returned before the bad byte was looked at). -/
def parseUintLoop : Bytes → Nat → UintRes
  | [], n => .ok n
  | c :: t, n =>
    if isDigit c then
      let n1 := n * 10 + (c.toNat - 48)
      if n1 > maxUint64 then .rangeErr else parseUintLoop t n1
    else .syntaxErr

def parseUint (s : Bytes) : UintRes :=
  if s.isEmpty then .syntaxErr else parseUintLoop s 0

/-- Outcome of `strconv.Atoi` as far as elvish's `atoi` looks at it:
the value, a syntax error, or a range error together with the sign of the
clamped value it returns. -/
inductive AtoiRes where
  | ok (v : Int)
  | syntaxErr
  | rangeErr (neg : Bool)
  deriving Repr, DecidableEq

/-- `strconv.Atoi(s)` (= `ParseInt(s, 10, 0)` on a 64-bit platform). -/
def strconvAtoi (s : Bytes) : AtoiRes :=
  match s with
  | [] => .syntaxErr
  | c :: t =>
    let neg := c == 45
    let body := if c == 43 || c == 45 then t else s
    match parseUint body with
    | .syntaxErr => .syntaxErr
    | .rangeErr => .rangeErr neg          -- un = MaxUint64 is beyond either cutoff
    | .ok un =>
      if !neg && un ≥ 9223372036854775808 then .rangeErr false
      else if neg && un > 9223372036854775808 then .rangeErr true
      else .ok (if neg then -(un : Int) else un)

/-- elvish `atoi(a, n)`. -/
def atoi (a : Bytes) (n : Int) : Res Int :=
  match strconvAtoi a with
  | .ok v => .ok v
  | .rangeErr true => throw (negIndexOutOfRange a n)
  | .rangeErr false => throw (posIndexOutOfRange a n)
  | .syntaxErr => throw .mustBeInteger

/-! ### splitIndexString / parseIndexString -/

/-- `strings.Index(s, pat)` (`none` = -1). -/
def indexOf (pat : Bytes) : Bytes → Option Nat
  | [] => if pat.isEmpty then some 0 else none
  | c :: t =>
    if pat.isPrefixOf (c :: t) then some 0
    else match indexOf pat t with
      | some i => some (i + 1)
      | none => none

def dotdot : Bytes := [46, 46]
def dotdoteq : Bytes := [46, 46, 61]

inductive Sep where
  | none | dd | dde
  deriving Repr, DecidableEq

/-- `splitIndexString(s)`; the slice expressions are Go slices (partial). -/
def splitIndexString (s : Bytes) : Res (Bytes × Sep × Bytes) :=
  match indexOf dotdoteq s with
  | some i => do
    let low ← slice s 0 i
    let high ← slice s ((i : Int) + 3) s.length
    pure (low, .dde, high)
  | none =>
    match indexOf dotdot s with
    | some i => do
      let low ← slice s 0 i
      let high ← slice s ((i : Int) + 2) s.length
      pure (low, .dd, high)
    | none => pure (s, .none, [])

/-- `parseIndexString(s, n)` → `(slice, i, j)`. -/
def parseIndexString (s : Bytes) (n : Int) : Res (Bool × Int × Int) := do
  let (low, sep, high) ← splitIndexString s
  if sep = .none then
    let i ← atoi s n
    pure (false, i, 0)
  else
    let i ← if low.isEmpty then pure 0 else atoi low (n + 1)
    let j ← if high.isEmpty then pure n else do
      let j ← atoi high (n + 1)
      if sep = .dde then
        if j = -1 then pure n else pure (wrap64 (j + 1))   -- `j++` (TODO in the source: MaxInt)
      else pure j
    pure (true, i, j)

/-! ### adjustAndCheckIndex (generated) and ConvertListIndex -/

/-- The generated `adjustAndCheckIndex` with the error payload re-attached:
`negIndexOutOfRange(strconv.Itoa(i), n)`, `posIndexOutOfRange(strconv.Itoa(i), n+1)`
when `includeN`, else `posIndexOutOfRange(strconv.Itoa(i), n)`. -/
def adjust (i n : Int) (includeN : Bool) : Res Int :=
  match Gen.C13Index.adjustAndCheckIndex i n includeN with
  | (v, none) => .ok v
  | (_, some tag) =>
    if tag = "negIndexOutOfRange" then throw (negIndexOutOfRange (strBytes (itoa i)) n)
    else throw (posIndexOutOfRange (strBytes (itoa i)) (if includeN then n + 1 else n))

/-- `ListIndex` -/
structure ListIndex where
  slice : Bool
  lower : Int
  upper : Int
  deriving Repr, DecidableEq

/-- `ConvertListIndex(rawIndex, n)` -/
def convertListIndex (raw : Raw) (n : Int) : Res ListIndex :=
  match raw with
  | .int i => do
    let index ← adjust i n false
    pure ⟨false, index, 0⟩
  | .str s => do
    let (slice, i, j) ← parseIndexString s n
    if !slice then
      let i ← adjust i n false
      pure ⟨slice, i, j⟩
    else
      let i ← adjust i n true
      let j0 := j
      let j ← adjust j n true
      if j < i then
        if j0 < 0 then
          throw (.outOfRange "negative slice upper index" (itoa (i - n)) "-1" (strBytes (itoa j0)))
        else
          throw (.outOfRange "slice upper index" (itoa i) (itoa n) (strBytes (itoa j0)))
      else pure ⟨slice, i, j⟩
  | .other => throw .mustBeInteger

/-! ### lists -/

/-- `vector.Index(i)`: `(value, ok)`. -/
def vecIndex {α} (l : List α) (i : Int) : Option α :=
  if i < 0 ∨ i ≥ l.length then none else l[i.toNat]?

/-- `vector.SubVector(begin, end)`: `none` = the nil Vector. -/
def vecSubVector {α} (l : List α) (b e : Int) : Option (List α) :=
  if b < 0 ∨ b > e ∨ e > l.length then none
  else some ((l.drop b.toNat).take (e.toNat - b.toNat))

/-- `vector.Assoc(i, val)`: `none` = the nil Vector; `i == count` appends. -/
def vecAssoc {α} (l : List α) (i : Int) (v : α) : Option (List α) :=
  if i < 0 ∨ i > l.length then none
  else if i = l.length then some (l ++ [v])
  else some (l.set i.toNat v)

/-- Result of indexing a list. -/
inductive Out (α : Type) where
  | elem (v : α)
  | list (l : List α)
  | nil            -- Go `nil` (ignored `ok == false`, or a nil Vector)
  deriving Repr, DecidableEq

/-- `indexList(l, rawIndex)` -/
def indexList {α} (l : List α) (raw : Raw) : Res (Out α) := do
  let index ← convertListIndex raw l.length
  if index.slice then
    match vecSubVector l index.lower index.upper with
    | some r => pure (.list r)
    | none => pure .nil
  else
    match vecIndex l index.lower with
    | some v => pure (.elem v)
    | none => pure .nil

/-- `assocList(l, k, v)`; `none` = nil Vector. -/
def assocList {α} (l : List α) (k : Raw) (v : α) : Res (Option (List α)) := do
  let index ← convertListIndex k l.length
  if index.slice then throw .assocWithSlice
  else pure (vecAssoc l index.lower v)

/-! ### strings (index_string.go with fixes/C13-fffd-boundary.patch) -/

/-- the error test on a decoded rune: `r == utf8.RuneError && size == 1` -/
def isDecodeError (d : Rune × Nat) : Bool := d.1 == RuneError && d.2 == 1

/-- `startsWithRuneBoundary(s)` -/
def startsWithRuneBoundary (s : Bytes) : Bool :=
  if s.isEmpty then true else !(isDecodeError (decodeRune s))

/-- `endsWithRuneBoundary(s)` -/
def endsWithRuneBoundary (s : Bytes) : Bool :=
  if s.isEmpty then true else !(isDecodeError (decodeLastRune s))

/-- `convertStringIndex(rawIndex, s)` → `(i, j)`.  `&&` short-circuits: the
second slice expression is only evaluated when the first test holds. -/
def convertStringIndex (raw : Raw) (s : Bytes) : Res (Int × Int) := do
  let index ← convertListIndex raw s.length
  if index.slice then
    let tail ← slice s index.lower s.length
    if startsWithRuneBoundary tail then
      let head ← slice s 0 index.upper
      if endsWithRuneBoundary head then pure (index.lower, index.upper)
      else throw .notAtRuneBoundary
    else throw .notAtRuneBoundary
  else
    let tail ← slice s index.lower s.length
    let d := decodeRune tail
    if isDecodeError d then throw .notAtRuneBoundary
    else pure (index.lower, index.lower + d.2)

/-- `indexString(s, index)` -/
def indexString (s : Bytes) (raw : Raw) : Res Bytes := do
  let (i, j) ← convertStringIndex raw s
  slice s i j

/-- `assocString(s, k, v)`; `v = none` is a replacement that is not a string. -/
def assocString (s : Bytes) (k : Raw) (v : Option Bytes) : Res Bytes := do
  let (i, j) ← convertStringIndex k s
  match v with
  | none => throw .replacementMustBeString
  | some repl =>
    let a ← slice s 0 i
    let b ← slice s j s.length
    pure (a ++ repl ++ b)

end C13
