import ElvModel.Go.Driver
import ElvModel.C13.Model
namespace C13
open Go

/-- raw index field: `i:<decimal>` typed int, `s:<hex>` string, `o:<kind>` any other type. -/
def decodeRaw (f : String) : Option Raw :=
  match f.toList with
  | 'i' :: ':' :: r => (String.ofList r).toInt?.map Raw.int
  | 's' :: ':' :: r => (hexDecode (String.ofList r)).map Raw.str
  | 'o' :: ':' :: _ => some Raw.other
  | _ => none

def showNats (l : List Nat) : String :=
  if l.isEmpty then "-" else ",".intercalate (l.map toString)

def showRes {α} (r : Res α) (f : α → String) : String :=
  match r with
  | .ok a => f a
  | .exc e => s!"exc {e}"
  | .panic _ => "PANIC"

/-- ops (the `e…` forms are the same operation run through elvish source code):
* `cvt <n> <raw>`            → `ok <0|1> <lower> <upper>`
* `li|eli <n> <raw>`         → index of the list `[0 1 … n-1]`: `elem k` | `list k,…` | `nil`
* `la|ela <n> <raw>`         → assoc of value `999`: `list k,…` | `nil`
* `si|esi <hex s> <raw>`     → `str <hex>`
* `sa|esa <hex s> <raw> <hex repl | ~>` → `str <hex>`  (`~` = replacement is not a string) -/
def stepLine : List String → String
  | ["cvt", sn, sraw] =>
    match sn.toInt?, decodeRaw sraw with
    | some n, some raw =>
      showRes (convertListIndex raw n) fun ix => s!"ok {if ix.slice then 1 else 0} {ix.lower} {ix.upper}"
    | _, _ => "bad-op"
  | [op, sn, sraw] =>
    if op = "li" ∨ op = "eli" then
      match sn.toNat?, decodeRaw sraw with
      | some n, some raw =>
        showRes (indexList (List.range n) raw) fun
          | .elem k => s!"elem {k}"
          | .list l => s!"list {showNats l}"
          | .nil => "nil"
      | _, _ => "bad-op"
    else if op = "la" ∨ op = "ela" then
      match sn.toNat?, decodeRaw sraw with
      | some n, some raw =>
        showRes (assocList (List.range n) raw 999) fun
          | some l => s!"list {showNats l}"
          | none => "nil"
      | _, _ => "bad-op"
    else if op = "si" ∨ op = "esi" then
      match hexDecode sn, decodeRaw sraw with
      | some s, some raw => showRes (indexString s raw) fun b => s!"str {hexEnc b}"
      | _, _ => "bad-op"
    else "bad-op"
  | [op, hs, sraw, hv] =>
    if op = "sa" ∨ op = "esa" then
      let v : Option (Option Bytes) := if hv = "~" then some none else (hexDecode hv).map some
      match hexDecode hs, decodeRaw sraw, v with
      | some s, some raw, some v => showRes (assocString s raw v) fun b => s!"str {hexEnc b}"
      | _, _, _ => "bad-op"
    else "bad-op"
  | _ => "bad-op"

def driver : Driver := Driver.pure stepLine
end C13
