/-
C13 specification `RefIndex`, written from website/ref/language.md (sections
"List" and "String") and the documentation of `assoc`, independently of the
Go code and of Model.lean.

  * An index is an integer (decimal, optional sign); a slice is `a..b` or
    `a..=b` where either integer may be omitted.  ("number-like string" is
    read as: decimal integer literal.  The reference gives no other syntax
    for integers inside an index; `0x10`, `1_000`, `1e3`, `1.0` are ruled out.)
  * A non-negative integer counts from the front, a negative one from the
    back (`pos`).
  * Element index `i` selects position `pos n i` and is valid iff
    `0 ≤ pos n i < n`.
  * `a..b` selects positions `[pos a, pos b)`, `a` defaulting to 0 and `b` to
    `n`; `a..=b` also includes position `pos b`, i.e. selects
    `[pos a, pos b + 1)` — so `..=-1` reaches the end.  A slice is valid iff
    `0 ≤ lo ≤ hi ≤ n`.
  * A typed integer means the same as its decimal string; any other value is
    not an index.  Everything not valid is an exception.
  * Strings: the same with `n` = number of bytes; an element index must be a
    byte offset where a code point starts and selects that code point, a slice
    must begin and end at code point boundaries (`Boundary`).  Unspecified for
    strings that are not valid UTF-8.
  * `assoc` on a list replaces exactly the addressed element; a slice is not
    supported.
-/
import ElvModel.Go.Basic
import ElvModel.Go.Utf8
namespace C13
open Go

/-- A raw index value: Go `int`, Go `string`, or any other dynamic type
(`float64`, `*big.Int`, `*big.Rat`, lists, …). -/
inductive Raw where
  | int (i : Int)
  | str (s : Bytes)
  | other
  deriving Repr, DecidableEq

namespace Ref

def digit (c : UInt8) : Bool := 48 ≤ c && c ≤ 57

/-- value of a string of decimal digits -/
def natVal (ds : Bytes) : Nat := ds.foldl (fun a c => a * 10 + (c.toNat - 48)) 0

/-- `IsInt s v`: `s` is a decimal integer literal (optional sign, at least one
digit) whose value is `v` — of any magnitude. -/
inductive IsInt : Bytes → Int → Prop where
  | plain (ds : Bytes) : ds ≠ [] → ds.all digit = true → IsInt ds (natVal ds)
  | plus (ds : Bytes) : ds ≠ [] → ds.all digit = true → IsInt (43 :: ds) (natVal ds)
  | minus (ds : Bytes) : ds ≠ [] → ds.all digit = true → IsInt (45 :: ds) (-(natVal ds : Int))

/-- an integer that may be omitted -/
inductive IsOptInt : Bytes → Option Int → Prop where
  | omitted : IsOptInt [] none
  | given {s v} : IsInt s v → IsOptInt s (some v)

/-- An index as the reference describes it. -/
inductive Idx where
  | elem (i : Int)
  | slice (a b : Option Int) (inclusive : Bool)
  deriving Repr, DecidableEq

/-- The grammar: `Index = Int | [Int] '..' [Int] | [Int] '..=' [Int]`. -/
inductive Parses : Bytes → Idx → Prop where
  | elem {s i} : IsInt s i → Parses s (.elem i)
  | excl {lo hi a b} : IsOptInt lo a → IsOptInt hi b → Parses (lo ++ [46, 46] ++ hi) (.slice a b false)
  | incl {lo hi a b} : IsOptInt lo a → IsOptInt hi b → Parses (lo ++ [46, 46, 61] ++ hi) (.slice a b true)

/-- position denoted by integer `i` in a sequence of length `n` -/
def pos (n : Nat) (i : Int) : Int := if 0 ≤ i then i else n + i

/-- What an index selects: one position, or the positions `[lo, hi)`. -/
inductive Sel where
  | elem (k : Nat)
  | range (lo hi : Nat)
  deriving Repr, DecidableEq

/-- The selection an index makes in a sequence of length `n`; `none` = ruled out. -/
def select (n : Nat) : Idx → Option Sel
  | .elem i =>
    let p := pos n i
    if 0 ≤ p ∧ p < n then some (.elem p.toNat) else none
  | .slice a b inclusive =>
    let lo : Int := match a with
      | none => 0
      | some a => pos n a
    let hi : Int := match b with
      | none => n
      | some b => if inclusive then pos n b + 1 else pos n b
    if 0 ≤ lo ∧ lo ≤ hi ∧ hi ≤ n then some (.range lo.toNat hi.toNat) else none

/-- `RefIndex n raw r`: by the reference, index value `raw` applied to a
sequence of length `n` selects `r` (`none`: must raise an exception). -/
def RefIndex (n : Nat) (raw : Raw) (r : Option Sel) : Prop :=
  match raw with
  | .int i => r = select n (.elem i)
  | .str s => (∃ idx, Parses s idx ∧ r = select n idx) ∨ ((¬ ∃ idx, Parses s idx) ∧ r = none)
  | .other => r = none

/-- A valid UTF-8 string is the encoding of a list of Unicode scalar values. -/
def ValidRunes (cs : List Rune) : Prop := ∀ c ∈ cs, validRune c = true

/-- Byte offset `i` of `encodeRunes cs` is a code point boundary: it is the
length of the encoding of some prefix of `cs` (0 and the total length included). -/
def Boundary (cs : List Rune) (i : Nat) : Prop :=
  ∃ k, k ≤ cs.length ∧ i = (encodeRunes (cs.take k)).length

/-- Byte offset `i` is where code point number `k` of `cs` starts. -/
def StartsAt (cs : List Rune) (i k : Nat) : Prop :=
  k < cs.length ∧ i = (encodeRunes (cs.take k)).length

end Ref
end C13
