import ElvModel.C37.Driver
def main : IO Unit := C37.driver.main
