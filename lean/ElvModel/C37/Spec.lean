/-
C37 specification vocabulary: what "line k starts at byte offset o", "number
of newlines", "end of the line containing offset p" and "the range with one
trailing newline not counted" mean.  Everything here is defined by structural
recursion on the byte list, independently of the model (`C37.lastLine`,
`C37.countNL`, `C37.firstLine` are NOT used), so that the theorems in
`ElvProofs/C37.lean` compare the model with a second, separately written
reading of the property.
-/
import ElvModel.Go.Basic
namespace C37.Spec
open Go

/-- Number of `'\n'` bytes (byte value 10) in `s`. -/
def newlines : Bytes → Nat
  | [] => 0
  | b :: s => if b = 10 then newlines s + 1 else newlines s

/-- Byte offset just after the `n`-th `'\n'` of `s` (`0` for `n = 0`).  If `s`
has fewer than `n` newlines the scan runs off the end (value `|s|`, no such
line exists). -/
def afterNL : Bytes → Nat → Nat
  | _, 0 => 0
  | [], _ + 1 => 0
  | b :: s, n + 1 => if b = 10 then afterNL s n + 1 else afterNL s (n + 1) + 1

/-- Byte offset of the first byte of the `k`-th line (1-based): line 1 starts
at offset 0, line `k+1` starts just after the `k`-th `'\n'`. -/
def lineStart (s : Bytes) (k : Nat) : Nat := afterNL s (k - 1)

/-- Offset of the first `'\n'` at an offset `≥ p`, or `|s|` if there is none:
the (exclusive) end of the text of the line containing offset `p`. -/
def lineEnd : Bytes → Nat → Nat
  | [], _ => 0
  | b :: s, 0 => if b = 10 then 0 else lineEnd s 0 + 1
  | _ :: s, p + 1 => lineEnd s p + 1

/-- `s[i:j]` as a total function (only used for `i ≤ j ≤ |s|`). -/
def sub (s : Bytes) (i j : Nat) : Bytes := (s.drop i).take (j - i)

/-- Does the range `[f, t)` of `s` end in a `'\n'`? -/
def endsInNL (s : Bytes) (f t : Nat) : Bool := decide (f < t) && s[t - 1]? == some 10

/-- The end of the range with one trailing newline not counted (`to′`). -/
def adjTo (s : Bytes) (f t : Nat) : Nat := if endsInNL s f t then t - 1 else t

end C37.Spec
