import ElvModel.Go.Driver
import ElvModel.C37.Model
namespace C37
open Go

/-- op: `ctx <hex src> <from> <to>` → `sl sc el ec <hex body> <hex head> <hex tail> <range>` | `PANIC` -/
def stepLine : List String → String
  | ["ctx", hsrc, sf, st] =>
    match hexDecode hsrc, sf.toInt?, st.toInt? with
    | some src, some f, some t =>
      match getContextDetails src f t with
      | .ok d => s!"{d.startLine} {d.startCol} {d.endLine} {d.endCol} {hexEnc d.body} {hexEnc d.head} {hexEnc d.tail} {describeRange d}"
      | .exc e => s!"EXC {e}"
      | .panic _ => "PANIC"
    | _, _, _ => "bad-op"
  | _ => "bad-op"

def driver : Driver := Driver.pure stepLine
end C37
