import ElvModel.Go.Driver
import ElvModel.C37.Model
namespace C37
open Go

def ctxLine (hsrc sf st : String) : String :=
    match hexDecode hsrc, sf.toInt?, st.toInt? with
    | some src, some f, some t =>
      match getContextDetails src f t with
      | .ok d => s!"{d.startLine} {d.startCol} {d.endLine} {d.endCol} {hexEnc d.body} {hexEnc d.head} {hexEnc d.tail} {describeRange d}"
      | .exc e => s!"EXC {e}"
      | .panic _ => "PANIC"
    | _, _, _ => "bad-op"

/-- op: `ctx <hex src> <from> <to>` → `sl sc el ec <hex body> <hex head> <hex tail> <range>` | `PANIC`;
op `e2e <hex src> <from> <to> <kind>`: the same computation (the implementation side
takes the Context from a real parse error / compilation error / traceback). -/
def stepLine : List String → String
  | ["ctx", hsrc, sf, st] => ctxLine hsrc sf st
  | ["e2e", hsrc, sf, st, _kind] => ctxLine hsrc sf st
  | _ => "bad-op"

def driver : Driver := Driver.pure stepLine
end C37
