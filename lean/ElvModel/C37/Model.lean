/-
C37 model: pkg/diag/context.go — getContextDetails, lastLine, firstLine,
describeRange, over byte strings.  Follows the Go code statement by statement;
slice expressions are partial (`Go.slice`).
-/
import ElvModel.Go.Basic
namespace C37
open Go

def NL : UInt8 := 10

/-- `strings.Count(s, "\n")` -/
def countNL (s : Bytes) : Nat := s.count NL

/-- `lastLine`: `s[strings.LastIndexByte(s, '\n')+1:]` -/
def lastLine (s : Bytes) : Bytes := (s.reverse.takeWhile (· != NL)).reverse

/-- `firstLine`: up to the first `'\n'`, or all of `s`. -/
def firstLine (s : Bytes) : Bytes := s.takeWhile (· != NL)

/-- `strings.HasSuffix(body, "\n")` -/
def endsNL (s : Bytes) : Bool := s.getLast? == some NL

structure Details where
  startLine : Int
  startCol : Int
  endLine : Int
  endCol : Int
  body : Bytes
  head : Bytes
  tail : Bytes
  deriving Repr, DecidableEq

/-- `getContextDetails(source, Ranging{from, to})` -/
def getContextDetails (source : Bytes) (frm to : Int) : Res Details := do
  let before ← slice source 0 frm
  let body ← slice source frm to
  let after ← slice source to source.length
  let head := lastLine before
  let (body, tail) :=
    if endsNL body then (body.dropLast, ([] : Bytes)) else (body, firstLine after)
  let startLine : Int := countNL before + 1
  let startCol : Int := 1 + head.length
  let endLine : Int := startLine + countNL body
  let endCol : Int :=
    if startLine = endLine then startCol + body.length - 1 else (lastLine body).length
  pure { startLine, startCol, endLine, endCol, body, head, tail }

/-- `(*Context).describeRange` without the name prefix: which of the three
formats is used and with which numbers. -/
def describeRange (d : Details) : String :=
  if d.startLine = d.endLine then
    if d.endCol < d.startCol then s!"{d.startLine}:{d.startCol}"
    else s!"{d.startLine}:{d.startCol}-{d.endCol}"
  else s!"{d.startLine}:{d.startCol}-{d.endLine}:{d.endCol}"

end C37
