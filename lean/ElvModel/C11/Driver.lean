import ElvModel.Go.Driver
import ElvModel.C11.Model
/-
C11 driver.  Op line:  cmd <TAB> step|"-" <TAB> arg…      (args: i:<int> b:<int> r:<n>/<d> f:<16 hex>)
Output:  space-joined outputs (same syntax, every float printed `f:?`), `-` for
no output, `EXC <class>`, `PANIC`.

C11 is about exact results: the only thing the model ever asks of a float
argument is `isInf` (exact-zero rule of `*`).  Floats are therefore carried as
their bit pattern with dummy arithmetic, and every float result prints `f:?`
(the harness prints the same).  Bit-exact float results are C12's business.
-/
namespace C11
open Go

def bitsOps : F64Ops UInt64 where
  add _ _ := 0
  sub _ _ := 0
  mul _ _ := 0
  div _ _ := 0
  neg _ := 0
  abs _ := 0
  floor _ := 0
  ceil _ := 0
  round _ := 0
  roundEven _ := 0
  trunc _ := 0
  max _ _ := 0
  min _ _ := 0
  pow _ _ := 0
  isInf b := (b &&& 0x7fffffffffffffff) == 0x7ff0000000000000
  ofInt64 _ := 0
  ofRat _ := 0
  inf _ := 0x7ff0000000000000
  toRat _ := none

def parseHex64 (s : String) : Option UInt64 :=
  if s.length != 16 then none else
  s.toList.foldlM (fun (acc : UInt64) c => (hexVal c).map fun v => acc * 16 + v.toUInt64) 0

def drop2 (s : String) : String := String.ofList (s.toList.drop 2)

def parseNumWith {F} (pf : String → Option F) (s : String) : Option (Num F) :=
  if s.startsWith "i:" then (drop2 s).toInt?.map .int
  else if s.startsWith "b:" then (drop2 s).toInt?.map .big
  else if s.startsWith "r:" then
    match (drop2 s).splitOn "/" with
    | [n, d] =>
      match String.toInt? n, String.toNat? d with
      | some n, some d => if d = 0 then none else some (.rat (mkRat n d))
      | _, _ => none
    | _ => none
  else if s.startsWith "f:" then (pf (drop2 s)).map .flt
  else none

def showNumWith {F} (sf : F → String) : Num F → String
  | .int n => s!"i:{n}"
  | .big n => s!"b:{n}"
  | .rat q => s!"r:{q.num}/{q.den}"
  | .flt f => "f:" ++ sf f

def showRes {F} (sf : F → String) : Res (List (Num F)) → String
  | .ok [] => "-"
  | .ok l => " ".intercalate (l.map (showNumWith sf))
  | .exc "FUEL" => "FUEL"
  | .exc e => "EXC " ++ e
  | .panic _ => "PANIC"

def stepWith {F} (ops : F64Ops F) (pf : String → Option F) (sf : F → String)
    (extra : String → List (Num F) → Option (Res (List (Num F)))) : List String → String
  | cmd :: st :: args =>
    match args.mapM (parseNumWith pf) with
    | none => "bad-op"
    | some nums =>
      let step? : Option (Option (Num F)) :=
        if st = "-" then some none else (parseNumWith pf st).map some
      match step? with
      | none => "bad-op"
      | some step =>
        match extra cmd nums with
        | some r => showRes sf r
        | none => showRes sf (run ops cmd nums step)
  | _ => "bad-op"

def stepLine : List String → String :=
  stepWith bitsOps parseHex64 (fun _ => "?") (fun _ _ => none)

def driver : Driver := Driver.pure stepLine
end C11
