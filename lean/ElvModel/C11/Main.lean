import ElvModel.C11.Driver
def main : IO Unit := C11.driver.main
