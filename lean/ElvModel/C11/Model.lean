/-
C11 (and the float branches used by C12): executable model of elvish's numeric
builtins.

  pkg/eval/vals/num.go         UnifyNums, PromoteTo*, ConvertToFloat64, Normalize*
  pkg/eval/vals/conversion.go  FromGo (canonicalisation of every builtin's output)
  pkg/eval/builtin_fn_num.go   add sub mul slash/div rem rangeFn
  pkg/mods/math/math.go        abs ceil floor round roundToEven trunc max min pow
                               (pow as FIXED by fixes/C11-pow-zero-neg.patch)

Numbers are the four Go representations.  `*big.Int` is `Int`, `*big.Rat` is
core `Rat` (always in lowest terms with positive denominator, as math/big
guarantees).  Go `int` is `Int` with explicit `wrap64` exactly where the Go
code can overflow.  `float64` is an abstract type `F` with a record of
operations `F64Ops F`; nothing here looks inside a float.  Partial operations
of math/big (`Rat.Inv`, `Rat.Quo`, `Rat.SetFrac`, `Int.Rem` on zero) and
failed type assertions are explicit `Res.panic` outcomes.
-/
import ElvModel.Go.Basic
namespace C11
open Go

/-! ### Numbers -/

/-- `vals.Num`: `int`, `*big.Int`, `*big.Rat` or `float64`. -/
inductive Num (F : Type) where
  | int (n : Int)   -- Go `int` (64 bit); well-formed when `fitsInt n`
  | big (n : Int)   -- `*big.Int`
  | rat (q : Rat)   -- `*big.Rat`
  | flt (f : F)     -- `float64`
  deriving Repr

def minInt : Int := -9223372036854775808
def maxInt : Int := 9223372036854775807

/-- `z.IsInt64()` (and `int` is 64 bit on the supported platforms). -/
def fitsInt (z : Int) : Bool := decide (minInt ≤ z) && decide (z ≤ maxInt)

/-- Two's-complement wrap of a 64-bit machine addition. -/
def wrap64 (z : Int) : Int :=
  (z + 9223372036854775808) % 18446744073709551616 - 9223372036854775808

/-- The operations on `float64` the numeric builtins use.  C11 never looks
inside; C12 instantiates it with hardware doubles. -/
structure F64Ops (F : Type) where
  add : F → F → F
  sub : F → F → F
  mul : F → F → F
  div : F → F → F
  neg : F → F
  abs : F → F
  floor : F → F
  ceil : F → F
  round : F → F
  roundEven : F → F
  trunc : F → F
  max : F → F → F
  min : F → F → F
  pow : F → F → F
  /-- `math.IsInf(f, 0)` -/
  isInf : F → Bool
  /-- `float64(i)` for a machine `int` -/
  ofInt64 : Int → F
  /-- `(*big.Rat).Float64` -/
  ofRat : Rat → F
  /-- `math.Inf(sign)`: `+Inf` if `sign ≥ 0`, else `-Inf` -/
  inf : Int → F
  /-- `(*big.Rat).SetFloat64`: `none` for ±Inf and NaN -/
  toRat : F → Option Rat

variable {F : Type}

/-! ### vals/num.go -/

inductive NumType where
  | int | bigInt | bigRat | float64
  deriving DecidableEq, Repr

def NumType.rank : NumType → Nat
  | .int => 0 | .bigInt => 1 | .bigRat => 2 | .float64 => 3

def getNumType : Num F → NumType
  | .int _ => .int | .big _ => .bigInt | .rat _ => .bigRat | .flt _ => .float64

def maxType (typ t : NumType) : NumType := if typ.rank < t.rank then t else typ

def normalizeBigInt (z : Int) : Num F := if fitsInt z then .int z else .big z

def normalizeBigRat (q : Rat) : Num F :=
  if q.den = 1 then normalizeBigInt q.num else .rat q

/-- `vals.FromGo` restricted to numbers: every value a Go builtin outputs goes
through it (`go_fn.go`, `slash`, `rangeFn`). -/
def fromGo : Num F → Num F
  | .big z => normalizeBigInt z
  | .rat q => normalizeBigRat q
  | n => n

def promoteToBigInt : Num F → Res Int
  | .int n => .ok n
  | .big n => .ok n
  | _ => .panic "invalid num type"

def promoteToBigRat : Num F → Res Rat
  | .int n => .ok (n : Rat)
  | .big n => .ok (n : Rat)
  | .rat q => .ok q
  | .flt _ => .panic "invalid num type"

def convertToFloat64 (ops : F64Ops F) : Num F → F
  | .int n => ops.ofInt64 n
  | .big n => if fitsInt n then ops.ofInt64 n else ops.inf n.sign
  | .rat q => ops.ofRat q
  | .flt f => f

/-- `num.(int)` -/
def asInt : Num F → Res Int
  | .int n => .ok n
  | _ => .panic "interface conversion"

def mapRes {α β} (f : α → Res β) : List α → Res (List β)
  | [] => .ok []
  | a :: l =>
    match f a with
    | .ok b =>
      match mapRes f l with
      | .ok bs => .ok (b :: bs)
      | .exc e => .exc e
      | .panic w => .panic w
    | .exc e => .exc e
    | .panic w => .panic w

def foldlRes {α β} (f : β → α → Res β) : β → List α → Res β
  | b, [] => .ok b
  | b, a :: l =>
    match f b a with
    | .ok b' => foldlRes f b' l
    | .exc e => .exc e
    | .panic w => .panic w

def resMap {α β} (f : α → β) : Res α → Res β
  | .ok a => .ok (f a)
  | .exc e => .exc e
  | .panic w => .panic w

/-- `vals.NumSlice` -/
inductive NumSlice (F : Type) where
  | ints (l : List Int)
  | bigs (l : List Int)
  | rats (l : List Rat)
  | flts (l : List F)

def unifyType (nums : List (Num F)) (typ : NumType) : NumType :=
  nums.foldl (fun t n => maxType t (getNumType n)) typ

def unifyNums (ops : F64Ops F) (nums : List (Num F)) (typ : NumType) : Res (NumSlice F) :=
  match unifyType nums typ with
  | .int => resMap .ints (mapRes asInt nums)
  | .bigInt => resMap .bigs (mapRes promoteToBigInt nums)
  | .bigRat => resMap .rats (mapRes promoteToBigRat nums)
  | .float64 => .ok (.flts (nums.map (convertToFloat64 ops)))

/-! ### builtin_fn_num.go -/

/-- `num == 0` on an interface value: true only for the machine int 0. -/
def isExactZero : Num F → Bool
  | .int n => n == 0
  | _ => false

def isInfNum (ops : F64Ops F) : Num F → Bool
  | .flt f => ops.isInf f
  | _ => false

def isExact : Num F → Bool
  | .flt _ => false
  | _ => true

def isExactInt : Num F → Bool
  | .int _ => true
  | .big _ => true
  | _ => false

def add (ops : F64Ops F) (raw : List (Num F)) : Res (Num F) :=
  match unifyNums ops raw .bigInt with
  | .ok (.bigs l) => .ok (normalizeBigInt (l.foldl (· + ·) 0))
  | .ok (.rats l) => .ok (normalizeBigRat (l.foldl (· + ·) 0))
  | .ok (.flts l) => .ok (.flt (l.foldl ops.add (ops.ofInt64 0)))
  | .ok (.ints _) => .panic "unreachable"
  | .exc e => .exc e
  | .panic w => .panic w

def sub (ops : F64Ops F) (raw : List (Num F)) : Res (Num F) :=
  if raw.isEmpty then .exc "arity" else
  match unifyNums ops raw .bigInt with
  | .ok (.bigs []) => .panic "index out of range"
  | .ok (.bigs [x]) => .ok (.big (-x))
  | .ok (.bigs (x :: rest)) => .ok (.big (rest.foldl (· - ·) x))
  | .ok (.rats []) => .panic "index out of range"
  | .ok (.rats [x]) => .ok (.rat (-x))
  | .ok (.rats (x :: rest)) => .ok (.rat (rest.foldl (· - ·) x))
  | .ok (.flts []) => .panic "index out of range"
  | .ok (.flts [x]) => .ok (.flt (ops.neg x))
  | .ok (.flts (x :: rest)) => .ok (.flt (rest.foldl ops.sub x))
  | .ok (.ints _) => .panic "unreachable"
  | .exc e => .exc e
  | .panic w => .panic w

/-- The scanning loop at the head of `mul`: `(hasExact0, hasInf)`; it breaks at
the first infinity. -/
def mulScan (ops : F64Ops F) : List (Num F) → Bool → Bool × Bool
  | [], z => (z, false)
  | n :: rest, z =>
    let z := z || isExactZero n
    if isInfNum ops n then (z, true) else mulScan ops rest z

def mul (ops : F64Ops F) (raw : List (Num F)) : Res (Num F) :=
  let (hasExact0, hasInf) := mulScan ops raw false
  if hasExact0 && !hasInf then .ok (.int 0) else
  match unifyNums ops raw .bigInt with
  | .ok (.bigs l) => .ok (normalizeBigInt (l.foldl (· * ·) 1))
  | .ok (.rats l) => .ok (normalizeBigRat (l.foldl (· * ·) 1))
  | .ok (.flts l) => .ok (.flt (l.foldl ops.mul (ops.ofInt64 1)))
  | .ok (.ints _) => .panic "unreachable"
  | .exc e => .exc e
  | .panic w => .panic w

/-- `(*big.Rat).Quo`: panics on a zero divisor. -/
def ratQuo (a b : Rat) : Res Rat :=
  if b = 0 then .panic "division by zero" else .ok (a / b)

/-- `(*big.Rat).Inv`: panics on zero. -/
def ratInv (a : Rat) : Res Rat :=
  if a = 0 then .panic "division by zero" else .ok a⁻¹

def div (ops : F64Ops F) (raw : List (Num F)) : Res (Num F) :=
  match raw with
  | [] => .panic "slice bounds out of range"
  | x :: rest =>
    if rest.any isExactZero then .exc "div0"
    else if isExactZero x then
      -- `rest.isEmpty` branch: fixes/C11-div-recip-zero.patch (the unpatched
      -- tree answered exact 0 for the reciprocal of exact 0)
      if rest.isEmpty then .exc "div0" else .ok (.int 0)
    else
      match unifyNums ops raw .bigRat with
      | .ok (.rats []) => .panic "index out of range"
      | .ok (.rats [a]) => resMap .rat (ratInv a)
      | .ok (.rats (a :: rs)) => resMap .rat (foldlRes ratQuo a rs)
      | .ok (.flts []) => .panic "index out of range"
      | .ok (.flts [a]) => .ok (.flt (ops.div (ops.ofInt64 1) a))
      | .ok (.flts (a :: rs)) => .ok (.flt (rs.foldl ops.div a))
      | .ok (.ints _) => .panic "unreachable"
      | .ok (.bigs _) => .panic "unreachable"
      | .exc e => .exc e
      | .panic w => .panic w

/-- `slash`; the zero-argument form is the deprecated implicit `cd /`, which
is not arithmetic: it is reported as the pseudo exception `implicit-cd`. -/
def slash (ops : F64Ops F) (args : List (Num F)) : Res (Num F) :=
  if args.isEmpty then .exc "implicit-cd" else resMap fromGo (div ops args)

/-- `rem`.  On two machine ints Go's `a % b` is the truncated remainder; its
magnitude is below `|b|` so it cannot overflow (`minInt % -1 = 0` in Go). -/
def rem (a b : Num F) : Res (Num F) :=
  if !isExactInt a then .exc "exact-int"
  else if !isExactInt b then .exc "exact-int"
  else if isExactZero b then .exc "div0"
  else
    match a, b with
    | .int x, .int y => .ok (.int (Int.tmod x y))
    | _, _ =>
      match promoteToBigInt a, promoteToBigInt b with
      | .ok x, .ok y =>
        if y = 0 then .panic "division by zero" else .ok (.big (Int.tmod x y))
      | .panic w, _ => .panic w
      | _, .panic w => .panic w
      | .exc e, _ => .exc e
      | _, .exc e => .exc e

/-! #### range -/

/-- The ascending loop of `rangeBuiltinNum[int]`:
`for cur := start; cur < end; cur += step { put cur; if cur+step <= cur { break } }`
with `cur+step` a wrapping machine addition. -/
def rangeIntUp (end_ step : Int) : Nat → Int → Res (List Int)
  | 0, _ => .exc "FUEL"
  | fuel + 1, cur =>
    if cur < end_ then
      let next := wrap64 (cur + step)
      if next ≤ cur then .ok [cur]
      else resMap (cur :: ·) (rangeIntUp end_ step fuel next)
    else .ok []

def rangeIntDown (end_ step : Int) : Nat → Int → Res (List Int)
  | 0, _ => .exc "FUEL"
  | fuel + 1, cur =>
    if cur > end_ then
      let next := wrap64 (cur + step)
      if next ≥ cur then .ok [cur]
      else resMap (cur :: ·) (rangeIntDown end_ step fuel next)
    else .ok []

def rangeBuiltinInt (nums : List Int) : Res (List Int) :=
  match nums with
  | start :: end_ :: tl =>
    if start ≤ end_ then
      match tl with
      | [] => rangeIntUp end_ 1 ((end_ - start).toNat + 1) start
      | [step] =>
        if step ≤ 0 then .exc "step-positive"
        else rangeIntUp end_ step ((end_ - start).toNat + 1) start
      | _ => .panic "unreachable"
    else
      match tl with
      | [] => rangeIntDown end_ (-1) ((start - end_).toNat + 1) start
      | [step] =>
        if step ≥ 0 then .exc "step-negative"
        else rangeIntDown end_ step ((start - end_).toNat + 1) start
      | _ => .panic "unreachable"
  | _ => .panic "index out of range"

/-- The loops of `rangeBigNum[T]` for `T = *big.Int` / `*big.Rat`. -/
def rangeBigUp {T} [Add T] [LT T] [DecidableLT T] (end_ step : T) : Nat → T → Res (List T)
  | 0, _ => .exc "FUEL"
  | fuel + 1, cur =>
    if cur < end_ then resMap (cur :: ·) (rangeBigUp end_ step fuel (cur + step))
    else .ok []

def rangeBigDown {T} [Add T] [LT T] [DecidableLT T] (end_ step : T) : Nat → T → Res (List T)
  | 0, _ => .exc "FUEL"
  | fuel + 1, cur =>
    if end_ < cur then resMap (cur :: ·) (rangeBigDown end_ step fuel (cur + step))
    else .ok []

def rangeBigNum {T} [Add T] [LT T] [DecidableLT T] [LE T] [DecidableLE T]
    (zero one negOne : T) (fuelOf : T → T → T → Nat) (nums : List T) : Res (List T) :=
  match nums with
  | start :: end_ :: tl =>
    if start ≤ end_ then
      match tl with
      | [] => rangeBigUp end_ one (fuelOf start end_ one) start
      | [step] =>
        if step ≤ zero then .exc "step-positive"
        else rangeBigUp end_ step (fuelOf start end_ step) start
      | _ => .panic "unreachable"
    else
      match tl with
      | [] => rangeBigDown end_ negOne (fuelOf start end_ negOne) start
      | [step] =>
        if zero ≤ step then .exc "step-negative"
        else rangeBigDown end_ step (fuelOf start end_ step) start
      | _ => .panic "unreachable"
  | _ => .panic "index out of range"

/-- Enough fuel for the big-int loops: `|end - start| + 1` (the step is a
non-zero integer). -/
def fuelInt (start end_ _step : Int) : Nat := (end_ - start).natAbs + 1

/-- Enough fuel for the rational loops: `⌈(end - start) / step⌉ + 1`. -/
def fuelRat (start end_ step : Rat) : Nat := ((end_ - start) / step).ceil.toNat + 1

def rangeFn (ops : F64Ops F) (args : List (Num F)) (step : Option (Num F)) : Res (List (Num F)) :=
  let raw? : Option (List (Num F)) :=
    match args with
    | [e] => some [.int 0, e]
    | [s, e] => some [s, e]
    | _ => none
  match raw? with
  | none => .exc "arity"
  | some raw =>
    let raw := match step with
      | some s => raw ++ [s]
      | none => raw
    match unifyNums ops raw .int with
    | .ok (.ints l) => resMap (·.map fun n => fromGo (.int n)) (rangeBuiltinInt l)
    | .ok (.bigs l) => resMap (·.map fun n => fromGo (.big n)) (rangeBigNum 0 1 (-1) fuelInt l)
    | .ok (.rats l) => resMap (·.map fun q => fromGo (.rat q)) (rangeBigNum 0 1 (-1) fuelRat l)
    | .ok (.flts _) => .exc "unmodelled-range-float"
    | .exc e => .exc e
    | .panic w => .panic w

/-! ### pkg/mods/math -/

def mathAbs (ops : F64Ops F) : Num F → Num F
  | .int n =>
    if n < 0 then
      if n = minInt then .big 9223372036854775808 else .int (-n)
    else .int n
  | .big n => if n < 0 then .big (n.natAbs : Int) else .big n
  | .rat q => if q < 0 then .rat (-q) else .rat q
  | .flt f => .flt (ops.abs f)

def integerize (n : Num F) (fnFloat : F → F) (fnRat : Rat → Int) : Num F :=
  match n with
  | .int n => .int n
  | .big n => .big n
  | .rat q => if q.den = 1 then .big q.num else .big (fnRat q)
  | .flt f => .flt (fnFloat f)

/-- `big.Int.Div` is Euclidean division (the denominator is positive). -/
def floorRat (q : Rat) : Int := Int.ediv q.num q.den
def ceilRat (q : Rat) : Int := Int.ediv q.num q.den + 1
/-- `big.Int.Quo` is truncated division. -/
def truncRat (q : Rat) : Int := Int.tdiv q.num q.den

def roundRat (q : Rat) : Int :=
  let qq := Int.tdiv q.num q.den
  let m := Int.tmod q.num q.den * 2
  if m.natAbs < q.den then qq
  else if q.num < 0 then qq - 1
  else qq + 1

def roundEvenRat (q : Rat) : Int :=
  let qq := Int.tdiv q.num q.den
  let m := Int.tmod q.num q.den * 2
  if m.natAbs < q.den || (m.natAbs == q.den && qq % 2 == 0) then qq
  else if q.num < 0 then qq - 1
  else qq + 1

def mathCeil (ops : F64Ops F) (n : Num F) : Num F := integerize n ops.ceil ceilRat
def mathFloor (ops : F64Ops F) (n : Num F) : Num F := integerize n ops.floor floorRat
def mathRound (ops : F64Ops F) (n : Num F) : Num F := integerize n ops.round roundRat
def mathRoundEven (ops : F64Ops F) (n : Num F) : Num F := integerize n ops.roundEven roundEvenRat
def mathTrunc (ops : F64Ops F) (n : Num F) : Num F := integerize n ops.trunc truncRat

def pickMax {α} [LT α] [DecidableLT α] (n x : α) : α := if n < x then x else n
def pickMin {α} [LT α] [DecidableLT α] (n x : α) : α := if x < n then x else n

def mathMax (ops : F64Ops F) (raw : List (Num F)) : Res (Num F) :=
  if raw.isEmpty then .exc "arity" else
  match unifyNums ops raw .int with
  | .ok (.ints (n :: rest)) => .ok (.int (rest.foldl pickMax n))
  | .ok (.bigs (n :: rest)) => .ok (.big (rest.foldl pickMax n))
  | .ok (.rats (n :: rest)) => .ok (.rat (rest.foldl pickMax n))
  | .ok (.flts (n :: rest)) => .ok (.flt (rest.foldl ops.max n))
  | .ok _ => .panic "index out of range"
  | .exc e => .exc e
  | .panic w => .panic w

def mathMin (ops : F64Ops F) (raw : List (Num F)) : Res (Num F) :=
  if raw.isEmpty then .exc "arity" else
  match unifyNums ops raw .int with
  | .ok (.ints (n :: rest)) => .ok (.int (rest.foldl pickMin n))
  | .ok (.bigs (n :: rest)) => .ok (.big (rest.foldl pickMin n))
  | .ok (.rats (n :: rest)) => .ok (.rat (rest.foldl pickMin n))
  | .ok (.flts (n :: rest)) => .ok (.flt (rest.foldl ops.min n))
  | .ok _ => .panic "index out of range"
  | .exc e => .exc e
  | .panic w => .panic w

/-- `new(big.Int).Exp(x, y, nil)` for `y ≥ 0`, with math/big's shortcuts for
`|x| ≤ 1` (which make huge exponents of 0 and ±1 terminate at once). -/
def bigExp (x : Int) (y : Nat) : Int :=
  if y = 0 then 1
  else if x = 0 then 0
  else if x = 1 then 1
  else if x = -1 then (if y % 2 = 0 then 1 else -1)
  else x ^ y

/-- The `switch exp { case 0, 1, -1 }` of `pow` compares an interface with
untyped constants: only a machine int matches. -/
def smallExp : Num F → Option Int
  | .int n => some n
  | _ => none

/-- `math:pow` as fixed by `fixes/C11-pow-zero-neg.patch` (the guard on an
exact zero base with a negative exponent is the patch; on the unpatched tree
that case reached `big.Rat.Inv` of zero, a Go panic). -/
def mathPow (ops : F64Ops F) (base exp : Num F) : Res (Num F) :=
  if isExact base && isExactInt exp then
    match promoteToBigInt exp with
    | .ok e =>
      if isExactZero base && e < 0 then .exc "div0"
      else if smallExp exp = some 0 then .ok (.int 1)
      else if smallExp exp = some 1 then .ok base
      else if smallExp exp = some (-1) then
        match promoteToBigRat base with
        | .ok b => resMap .rat (ratInv b)
        | .exc x => .exc x
        | .panic w => .panic w
      else if isExactInt base && 0 < e then
        match promoteToBigInt base with
        | .ok b => .ok (.big (bigExp b e.toNat))
        | .exc x => .exc x
        | .panic w => .panic w
      else
        match promoteToBigRat base with
        | .ok b =>
          let be : Res (Rat × Int) :=
            if e < 0 then resMap (fun b' => (b', -e)) (ratInv b) else .ok (b, e)
          match be with
          | .ok (b, e) =>
            -- SetFrac(num^e, den^e): panics on a zero denominator
            let d := bigExp b.den e.toNat
            if d = 0 then .panic "division by zero"
            else .ok (.rat (Rat.divInt (bigExp b.num e.toNat) d))
          | .exc x => .exc x
          | .panic w => .panic w
        | .exc x => .exc x
        | .panic w => .panic w
    | .exc x => .exc x
    | .panic w => .panic w
  else
    .ok (.flt (ops.pow (convertToFloat64 ops base) (convertToFloat64 ops exp)))

/-! ### The commands as seen from elvish (argument binding of `go_fn.go` +
`FromGo` on every output) -/

def one1 (f : Num F → Num F) (args : List (Num F)) : Res (List (Num F)) :=
  match args with
  | [a] => .ok [fromGo (f a)]
  | _ => .exc "arity"

def outs (r : Res (Num F)) : Res (List (Num F)) := resMap (fun v => [fromGo v]) r

/-- `run cmd args step`: outputs of the elvish command `cmd` applied to typed
numbers `args` (and `&step=` for `range`). -/
def run (ops : F64Ops F) (cmd : String) (args : List (Num F)) (step : Option (Num F)) :
    Res (List (Num F)) :=
  match cmd with
  | "+" => outs (add ops args)
  | "-" => outs (sub ops args)
  | "*" => outs (mul ops args)
  | "/" => resMap (fun v => [v]) (slash ops args)
  | "%" =>
    match args with
    | [a, b] => outs (rem a b)
    | _ => .exc "arity"
  | "range" => rangeFn ops args step
  | "abs" => one1 (mathAbs ops) args
  | "ceil" => one1 (mathCeil ops) args
  | "floor" => one1 (mathFloor ops) args
  | "round" => one1 (mathRound ops) args
  | "round-to-even" => one1 (mathRoundEven ops) args
  | "trunc" => one1 (mathTrunc ops) args
  | "max" => outs (mathMax ops args)
  | "min" => outs (mathMin ops args)
  | "pow" =>
    match args with
    | [b, e] => outs (mathPow ops b e)
    | _ => .exc "arity"
  | _ => .exc "unknown-command"

end C11
