/-
C27 — trace acceptor: is a log recorded from REAL processes (elvish built with
`-tags verif`, hooks/C27-daemon-pause.patch) an execution of the model?

Every instrumented process stops at each pause point, reports to the
controller (the harness) and waits to be released.  The controller appends to
ONE log, in this order of events as it sees them:

  x <action>       it is about to start a shell / close a shell's stdin /
                   SIGKILL a process / SIGTERM a daemon;
  r <p>            it is about to release process p from its pause point;
  a <p> <point> …  process p reported that it reached <point> (and is held);
  dead <p>         p's control connection reached EOF / the shell was reaped;
  res <k> …        shell k's `Activate` has returned with this outcome;
  sock <o>         the controller stat'ed the socket path.

The steps a process performs between two of its pause points are not logged;
they happen somewhere between its `r` entry and its next `a`/`res`/`dead`
entry, and an environment action takes effect somewhere after its `x` entry.
The acceptor is tolerant in exactly this respect: it tracks the set of model
states reachable by placing those silent steps anywhere in their windows
(subset construction), filters the set at every observation and rejects when
it becomes empty.  Candidates are produced by `step` only, hence every
candidate is a `Reachable` model state (`C27_acceptor_sound`).
-/
import Std.Data.HashSet
import ElvModel.C27.Spec
namespace C27

inductive PId
  | sh (k : Nat)
  | dm (k : Nat)
  deriving DecidableEq, Repr, Hashable

/-- Environment actions issued by the controller and not yet effective. -/
inductive Tok
  | start (k : Nat)
  | close (k : Nat)
  | kill (p : PId)
  | term (k : Nat)
  deriving DecidableEq, Repr, Hashable

/-- What distinguishes candidates, for shells/daemons `< n`. -/
abbrev Key := Option Nat × Option Nat × List SPc × List Daemon × Bool × Bool

def State.key (n : Nat) (s : State) : Key :=
  (s.sock, s.db, (List.range n).map s.sh, (List.range n).map s.dm, s.foreign, s.liveRm)

structure Cand where
  s : State
  /-- processes released from a pause point and not yet at their next one -/
  run : List PId
  toks : List Tok
  /-- cache of `s.key n` (only used to recognise duplicates) -/
  key : Key

/-- The same state with its process tables stored in arrays: states are built
by long chains of updates of the functions `sh`/`dm`; this keeps a lookup
cheap.  Extensionally nothing changes (`State.rebuild_eq`). -/
def State.rebuild (n : Nat) (s : State) : State :=
  let shs := (Array.range n).map s.sh
  let dms := (Array.range n).map s.dm
  { s with
    sh := fun j => match shs[j]? with | some x => x | none => s.sh j
    dm := fun j => match dms[j]? with | some x => x | none => s.dm j }

def Cand.make (n : Nat) (s : State) (run : List PId) (toks : List Tok) : Cand :=
  let s' := s.rebuild n
  { s := s', run := run, toks := toks, key := s'.key n }

/-- Is the process at a point where the real process is held (or finished)? -/
def atPause (s : State) : PId → Bool
  | .sh k =>
    match s.sh k with
    | .entry | .detected .. | .remove | .spawn | .done _ | .gone => true
    | _ => false
  | .dm k =>
    match (s.dm k).pc with
    | .start | .failed | .listened | .opened | .exiting | .closing | .dead _ => true
    | _ => false

def pcChanged (s s' : State) : PId → Bool
  | .sh k => decide (s.sh k ≠ s'.sh k)
  | .dm k => decide ((s.dm k).pc ≠ (s'.dm k).pc)

/-- The labels a running process may take next (its own silent steps). -/
def labelsOf (s : State) : PId → List Label
  | .sh k =>
    match s.sh k with
    | .entry => [.sh k .begin]
    | .lstat _ => [.sh k .lstat]
    | .dial _ => [.sh k .dial]
    | .await .. => [.sh k .awaitFail]
    | .detected .. => [.sh k .branch]
    | .remove => [.sh k .remove]
    | .spawn => [.sh k .spawn]
    | .pollTop => [.sh k .poll, .sh k .timeout]
    | _ => []
  | .dm k =>
    match (s.dm k).pc with
    | .start => [.dm k .bind]
    | .failed => [.dm k .abort]
    | .bound => [.dm k .listen]
    | .listened => [.dm k .openOk, .dm k .openFail]
    | .opened => [.dm k .enter]
    | .serving => (s.dm k).pending.map (fun j => .dm k (.accept j)) ++ (s.dm k).conns.map (fun j => .dm k (.connDone j))
    | .exiting => [.dm k .removeSock]
    | .removed => [.dm k .closeStore]
    | .closing => [.dm k .closeListener]
    | _ => []

def tokLabel : Tok → Label
  | .start k => .sh k .start
  | .close k => .sh k .exit
  | .kill (.sh k) => .sh k .crash
  | .kill (.dm k) => .dm k .crash
  | .term k => .dm k .signal

/-- One model step of the candidate; processes that thereby reach a pause
point stop running. -/
def Cand.stepBy (n : Nat) (c : Cand) (l : Label) : Option Cand :=
  match step c.s l with
  | some s' => some (Cand.make n s' (c.run.filter fun q => !(pcChanged c.s s' q && atPause s' q)) c.toks)
  | none => none

def Cand.fire (n : Nat) (c : Cand) (t : Tok) : Option Cand :=
  match c.stepBy n (tokLabel t) with
  | some c' =>
    some { c' with toks := c'.toks.erase t }
  | none => none

def Cand.succs (n : Nat) (c : Cand) : List Cand :=
  (c.run.flatMap fun p => (labelsOf c.s p).filterMap (c.stepBy n)) ++ c.toks.filterMap (c.fire n)

/-- Identity of a candidate for duplicate detection. -/
abbrev CKey := Key × List PId × List Tok

def Cand.ckey (c : Cand) : CKey := (c.key, c.run, c.toks)

/-- Add the not yet seen candidates of the last argument to `acc`; also return them. -/
def addNew (seen : Std.HashSet CKey) (acc fresh : List Cand) :
    List Cand → Std.HashSet CKey × List Cand × List Cand
  | [] => (seen, acc, fresh)
  | c :: rest =>
    if seen.contains c.ckey then addNew seen acc fresh rest
    else addNew (seen.insert c.ckey) (c :: acc) (c :: fresh) rest

/-- Closure under silent steps (fuel = rounds). -/
def closure (n : Nat) : Nat → Std.HashSet CKey → List Cand → List Cand → List Cand
  | 0, _, _, acc => acc
  | fuel + 1, seen, frontier, acc =>
    let r := addNew seen acc [] (frontier.flatMap (Cand.succs n))
    match r.2.2 with
    | [] => r.2.1
    | fresh => closure n fuel r.1 fresh r.2.1

def closeAll (n : Nat) (cs : List Cand) : List Cand :=
  closure n 4096 (cs.foldl (fun h c => h.insert c.ckey) {}) cs cs

inductive Entry
  | env (t : Tok)
  | rel (p : PId)
  | arrive (p : PId) (point : String) (st : Option Status) (arg : Nat)
  | dead (p : PId)
  | res (k : Nat) (r : Res) (db : Bool)
  | sock (o : Option Nat)

/-- Does the candidate show process `p` held at pause point `point`? -/
def atPoint (s : State) (p : PId) (point : String) (st : Option Status) (arg : Nat) : Bool :=
  match p with
  | .sh k =>
    match s.sh k with
    | .entry => point == "a-start"
    | .detected poll st' _ => (point == (if poll then "a-poll" else "a-detect")) && decide (st = some st')
    | .remove => point == "a-remove"
    | .spawn => point == "a-spawn"
    | _ => false
  | .dm k =>
    match (s.dm k).pc with
    | .start => point == "d-start"
    | .failed => point == "d-listen-err"
    | .listened => point == "d-listen"
    | .opened => point == "d-open" && decide ((s.dm k).hasDB = (arg == 1))
    | .exiting => point == "d-remove" && decide ((s.dm k).conns.length = arg)
    | .closing => point == "d-close"
    | _ => false

def check (c : Cand) : Entry → Bool
  | .arrive p point st arg => !c.run.contains p && atPoint c.s p point st arg
  | .dead (.sh k) => decide (c.s.sh k = .gone)
  | .dead (.dm k) => (c.s.dm k).pc.isDead
  | .res k r db =>
    decide (c.s.sh k = .done r) &&
      (match r with
       | .ok d => decide ((c.s.dm d).hasDB = db) || !decide ((c.s.dm d).pc = .serving)
       | _ => true)
  | .sock o => decide (c.s.sock = o)
  | _ => true

def process (n : Nat) (cs : List Cand) : Entry → List Cand
  | .env t => cs.map fun c => { c with toks := c.toks ++ [t] }
  | .rel p => cs.map fun c => { c with run := if c.run.contains p then c.run else c.run ++ [p] }
  | e => (closeAll n cs).filter fun c => check c e

def Cand.init (n : Nat) : Cand := Cand.make n C27.init [] []

end C27
