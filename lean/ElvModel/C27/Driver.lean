import ElvModel.Go.Driver
import ElvModel.C27.Accept
namespace C27
open Go

/-- Driver state: `none` = dead (an earlier entry of this run was rejected). -/
structure DState where
  n : Nat
  cands : Option (List Cand)
  count : Nat

def parsePId : String → String → Option PId
  | "s", k => k.toNat?.map .sh
  | "d", k => k.toNat?.map .dm
  | _, _ => none

def parseStatus : String → Option Status
  | "ok" => some .ok
  | "missing" => some .missing
  | "refused" => some .refused
  | "other" => some .other
  | _ => none

def parseEntry : List String → Option Entry
  | ["x", "start", k] => k.toNat?.map fun k => .env (.start k)
  | ["x", "close", k] => k.toNat?.map fun k => .env (.close k)
  | ["x", "kill", w, k] => (parsePId w k).map fun p => .env (.kill p)
  | ["x", "term", k] => k.toNat?.map fun k => .env (.term k)
  | ["r", w, k] => (parsePId w k).map .rel
  | ["a", w, k, point, arg] =>
    match parsePId w k with
    | none => none
    | some p =>
      if point == "a-detect" || point == "a-poll" then
        (parseStatus arg).map fun st => .arrive p point (some st) 0
      else arg.toNat?.map fun a => .arrive p point none a
  | ["dead", w, k] => (parsePId w k).map .dead
  | ["res", k, "ok", d, db] =>
    match k.toNat?, d.toNat?, db.toNat? with
    | some k, some d, some db => some (.res k (.ok d) (db == 1))
    | _, _, _ => none
  | ["res", k, "rpc"] => k.toNat?.map fun k => .res k .rpc false
  | ["res", k, "remove"] => k.toNat?.map fun k => .res k .remove false
  | ["res", k, "timeout"] => k.toNat?.map fun k => .res k .timeout false
  | ["sock", "none"] => some (.sock none)
  | ["sock", k] => k.toNat?.map fun k => .sock (some k)
  | _ => none

def describe (n : Nat) (c : Cand) : String :=
  let sh := (List.range n).map fun k => s!"s{k}={repr (c.s.sh k)}"
  let dm := (List.range n).map fun k => s!"d{k}={repr (c.s.dm k).pc}"
  s!"sock={repr c.s.sock} db={repr c.s.db} {" ".intercalate sh} {" ".intercalate dm} run={repr c.run} toks={repr c.toks}"

def inter (a b : List String) : List String := a.filter b.contains

/-- Violated parts of the property that hold in EVERY remaining candidate. -/
def commonViols (n : Nat) : List Cand → List String
  | [] => []
  | c :: cs => cs.foldl (fun acc c' => inter acc (viols n c'.s)) (viols n c.s)

def joinOr (l : List String) : String :=
  match l with
  | [] => "-"
  | _ => ",".intercalate l

/-- ops:
  `reset <n> <description…>`  → `ok`
  one log entry (see Accept.lean)  → `ok` | `reject …`
  `o …` (harness-side note, not a model step) → `ok`
  `q x`        → `viol=<violated parts of the property now>` (quiescent point of a scripted run)
  `end quiet`  → `end viol=<violated parts of the property in the final state>`
                 (the run ended quiescent: the harness reports the same from its own observations)
  `end race`   → `end ok`
  `hang …`     → `reject hang` -/
def stepLine (st : DState) : List String → DState × String
  | "reset" :: n :: _ =>
    match n.toNat? with
    | some n => ({ n := n, cands := some [Cand.init n], count := 0 }, "ok")
    | none => ({ st with cands := none }, "bad-op")
  | "o" :: _ => (st, "ok")
  | "dbg" :: _ => (st, s!"cands={(st.cands.map List.length)} closed={(st.cands.map fun cs => (closeAll st.n cs).length)}")
  | "hang" :: _ => ({ st with cands := none }, "reject hang")
  | "q" :: _ =>
    match st.cands with
    | some (c :: cs) => (st, s!"viol={joinOr (commonViols st.n (closeAll st.n (c :: cs)))}")
    | _ => (st, "reject dead")
  | "end" :: kind :: _ =>
    match st.cands with
    | some (c :: cs) =>
      if kind == "quiet" then
        let all := closeAll st.n (c :: cs)
        -- a quiescent end: nothing in flight can move any more
        (st, s!"end viol={joinOr (commonViols st.n all)}")
      else (st, "end ok")
    | _ => (st, "reject dead")
  | fields =>
    match st.cands with
    | none => (st, "reject dead")
    | some cs =>
      match parseEntry fields with
      | none => ({ st with cands := none }, "reject bad-entry")
      | some e =>
        match process st.n cs e with
        | [] =>
          let why := match closeAll st.n cs with
            | c :: more => s!"{describe st.n c} (+{more.length} more)"
            | [] => "no candidate"
          ({ st with cands := none }, s!"reject entry#{st.count} not a model step; candidates: {why}")
        | cs' => ({ st with cands := some cs', count := st.count + 1 }, "ok")

def driver : Driver := { σ := DState, init := { n := 0, cands := none, count := 0 }, step := stepLine }
end C27
