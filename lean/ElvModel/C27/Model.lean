/-
C27 — daemon activation yields one live daemon per socket.

Protocol model of `pkg/daemon/activate.go` (`Activate`, `detectDaemon`, spawn,
poll loop) and `pkg/daemon/server.go` (`Serve`) at the granularity of the
system calls that touch shared state:

  shared state   the socket path (`sock`: which daemon created the file that is
                 currently there, if any) and the bbolt file lock (`db`);
  shell k        runs `Activate` once: Lstat, Dial+Version request, wait for the
                 reply, branch on the status, `os.Remove` BY PATH when the
                 connection was refused, spawn daemon k, poll loop with timeout;
                 afterwards it keeps its connection until it exits or is killed;
  daemon k       (spawned by shell k) bind, listen, open the database (flock
                 with a 1 s timeout, *serving anyway* on failure), accept loop,
                 exit when the last connection ends or on a signal,
                 `os.Remove(sockpath)` BY PATH, close the store, close the
                 listener; SIGKILL at any point leaves the socket file behind.

Interleaving semantics: `step s l` executes one atomic action of one process.
The model is of the tree WITH `fixes/C27-no-unlink-on-close.patch` (the
listener's `Close` no longer unlinks the path a second time).

Modelled, not verified: process scheduling, unix-socket semantics (connect
succeeds iff the file at the path belongs to a socket that is listening; a
connection waits in the backlog until accepted; it breaks when the listening
process dies), `flock` (released at process death).  All daemons run the same
`api.Version` (status `daemonOutdated` cannot arise); the filesystem is healthy
(`sockfileOtherError` cannot arise); `spawn` itself succeeds.
Timing: `openFail` (the 1 s bbolt lock timeout elapsing) is enabled whenever the
lock is held by a daemon that is not between its `os.Remove` and its
`st.Close()` (those two calls are adjacent; the store is closed at once).
-/
namespace C27

/-- `daemonStatus` (pkg/daemon/activate.go) as far as it is reachable here. -/
inductive Status
  | ok | missing | refused | other
  deriving DecidableEq, Repr, Hashable

/-- Result of `Activate`. -/
inductive Res
  | ok (d : Nat)   -- nil error; the client is connected to daemon `d`
  | rpc            -- "unexpected RPC error on socket …"
  | remove         -- "failed to remove socket file"
  | timeout        -- "daemon did not come up within …"
  deriving DecidableEq, Repr, Hashable

/-- Program counter of a shell (one `Activate` call, then the session). -/
inductive SPc
  | idle                                        -- process not started
  | entry                                       -- Activate entered, nothing done yet [pause a-start]
  | lstat (poll : Bool)                         -- detectDaemon: about to `os.Lstat`
  | dial (poll : Bool)                          -- the file exists; about to Dial + send Version
  | await (poll : Bool) (d : Nat)               -- connected to daemon d's listener, waiting for the reply
  | detected (poll : Bool) (st : Status) (d : Nat)  -- detectDaemon returned  [pause a-detect / a-poll]
  | remove                                      -- connectionRefused: about to `os.Remove(sockpath)` [pause a-remove]
  | spawn                                       -- about to `spawn` [pause a-spawn]
  | pollTop                                     -- top of the wait loop (timeout check)
  | done (r : Res)                              -- Activate returned
  | gone                                        -- the shell exited or was killed
  deriving DecidableEq, Repr, Hashable

inductive Exit
  | code0 | code2 | crashed
  deriving DecidableEq, Repr, Hashable

/-- Program counter of a daemon (`Serve`). -/
inductive DPc
  | unborn
  | start        -- before net.Listen                               [pause d-start]
  | failed       -- Listen failed (address in use)                  [pause d-listen-err]
  | bound        -- inside net.Listen: bind(2) done, listen(2) not yet
  | listened     -- Listen returned                                 [pause d-listen]
  | opened       -- store.NewStore returned                         [pause d-open]
  | serving      -- in the select loop
  | exiting      -- left the loop, before os.Remove(sockpath)       [pause d-remove]
  | removed      -- socket path unlinked, before st.Close()
  | closing      -- store closed, before listener.Close()           [pause d-close]
  | dead (e : Exit)
  deriving DecidableEq, Repr, Hashable

structure Daemon where
  pc : DPc := .unborn
  /-- `st != nil`: this daemon holds the database lock. -/
  hasDB : Bool := false
  /-- connections established by a client but not yet taken by the main loop -/
  pending : List Nat := []
  /-- the main loop's `conns` (by shell) -/
  conns : List Nat := []
  /-- ghost: received SIGINT/SIGTERM in the loop, or was killed -/
  killed : Bool := false
  deriving DecidableEq, Repr, Hashable

structure State where
  /-- creator of the file currently at the socket path -/
  sock : Option Nat
  /-- holder of the database file lock -/
  db : Option Nat
  sh : Nat → SPc
  dm : Nat → Daemon
  /-- ghost: some daemon's exit removed a socket file it had not created -/
  foreign : Bool
  /-- ghost: some shell removed a socket file whose creator was alive -/
  liveRm : Bool

def init : State :=
  { sock := none, db := none, sh := fun _ => .idle, dm := fun _ => {}, foreign := false, liveRm := false }

def State.setSh (s : State) (k : Nat) (pc : SPc) : State :=
  { s with sh := fun j => if j = k then pc else s.sh j }

def State.setDm (s : State) (k : Nat) (d : Daemon) : State :=
  { s with dm := fun j => if j = k then d else s.dm j }

/-- The daemon's listening socket exists (connect to its file succeeds). -/
def DPc.listenerOpen : DPc → Bool
  | .listened | .opened | .serving | .exiting | .removed | .closing => true
  | _ => false

def DPc.isDead : DPc → Bool
  | .dead _ => true
  | _ => false

def DPc.isAlive : DPc → Bool
  | .unborn | .dead _ => false
  | _ => true

inductive SAct
  | start | begin | lstat | dial | awaitFail | branch | remove | spawn | poll | timeout | exit | crash
  deriving DecidableEq, Repr, Hashable

inductive DAct
  | bind | listen | openOk | openFail | enter
  | accept (j : Nat) | connDone (j : Nat) | signal
  | removeSock | closeStore | closeListener | abort | crash
  deriving DecidableEq, Repr, Hashable

inductive Label
  | sh (k : Nat) (a : SAct)
  | dm (k : Nat) (a : DAct)
  deriving DecidableEq, Repr, Hashable

def stepSh (s : State) (k : Nat) : SAct → Option State
  | .start =>
    match s.sh k with
    | .idle => some (s.setSh k .entry)
    | _ => none
  | .begin =>
    match s.sh k with
    | .entry => some (s.setSh k (.lstat false))
    | _ => none
  | .lstat =>
    match s.sh k with
    | .lstat p => some (s.setSh k (if s.sock.isSome then .dial p else .detected p .missing 0))
    | _ => none
  | .dial =>
    match s.sh k with
    | .dial p =>
      match s.sock with
      | none => some (s.setSh k (.detected p .other 0))          -- ENOENT from connect
      | some d =>
        if (s.dm d).pc.listenerOpen then
          some ((s.setDm d { s.dm d with pending := k :: (s.dm d).pending }).setSh k (.await p d))
        else some (s.setSh k (.detected p .refused 0))            -- ECONNREFUSED
    | _ => none
  | .awaitFail =>                                                   -- the peer died: io.ErrUnexpectedEOF
    match s.sh k with
    | .await p d => if (s.dm d).pc.isDead then some (s.setSh k (.detected p .other 0)) else none
    | _ => none
  | .branch =>
    match s.sh k with
    | .detected _ .ok d => some (s.setSh k (.done (.ok d)))
    | .detected _ .other _ => some (s.setSh k (.done .rpc))
    | .detected false .missing _ => some (s.setSh k .spawn)
    | .detected false .refused _ => some (s.setSh k .remove)
    | .detected true _ _ => some (s.setSh k .pollTop)               -- sleep, next iteration
    | _ => none
  | .remove =>                                                      -- os.Remove(sockpath): by PATH
    match s.sh k with
    | .remove =>
      match s.sock with
      | none => some (s.setSh k (.done .remove))
      | some d => some ({ s with sock := none, liveRm := s.liveRm || (s.dm d).pc.isAlive }.setSh k .spawn)
    | _ => none
  | .spawn =>
    match s.sh k with
    | .spawn =>
      match (s.dm k).pc with
      | .unborn => some ((s.setDm k { pc := .start }).setSh k .pollTop)
      | _ => none
    | _ => none
  | .poll =>
    match s.sh k with
    | .pollTop => some (s.setSh k (.lstat true))
    | _ => none
  | .timeout =>
    match s.sh k with
    | .pollTop => some (s.setSh k (.done .timeout))
    | _ => none
  | .exit =>
    match s.sh k with
    | .done _ => some (s.setSh k .gone)
    | _ => none
  | .crash =>
    match s.sh k with
    | .idle | .gone => none
    | _ => some (s.setSh k .gone)

def stepDm (s : State) (k : Nat) : DAct → Option State
  | .bind =>
    match (s.dm k).pc with
    | .start =>
      match s.sock with
      | none => some ({ s with sock := some k }.setDm k { s.dm k with pc := .bound })
      | some _ => some (s.setDm k { s.dm k with pc := .failed })    -- EADDRINUSE
    | _ => none
  | .listen =>
    match (s.dm k).pc with
    | .bound => some (s.setDm k { s.dm k with pc := .listened })
    | _ => none
  | .openOk =>
    match (s.dm k).pc with
    | .listened =>
      match s.db with
      | none => some ({ s with db := some k }.setDm k { s.dm k with pc := .opened, hasDB := true })
      | some _ => none
    | _ => none
  | .openFail =>                                                    -- lock timeout; "serving anyway"
    match (s.dm k).pc with
    | .listened =>
      match s.db with
      | some o => if (s.dm o).pc = .removed then none else some (s.setDm k { s.dm k with pc := .opened })
      | none => none
    | _ => none
  | .enter =>
    match (s.dm k).pc with
    | .opened => some (s.setDm k { s.dm k with pc := .serving })
    | _ => none
  | .accept j =>                                                    -- conn := <-connCh; ServeConn answers
    match (s.dm k).pc with
    | .serving =>
      if j ∈ (s.dm k).pending then
        let s1 := s.setDm k { s.dm k with pending := (s.dm k).pending.erase j, conns := j :: (s.dm k).conns }
        match s.sh j with
        | .await p d => if d = k then some (s1.setSh j (.detected p .ok k)) else some s1
        | _ => some s1
      else none
    | _ => none
  | .connDone j =>                                                  -- conn := <-connDoneCh
    match (s.dm k).pc with
    | .serving =>
      if j ∈ (s.dm k).conns ∧ s.sh j = .gone then
        let cs := (s.dm k).conns.erase j
        some (s.setDm k { s.dm k with conns := cs, pc := if cs.isEmpty then .exiting else .serving })
      else none
    | _ => none
  | .signal =>
    match (s.dm k).pc with
    | .serving => some (s.setDm k { s.dm k with pc := .exiting, killed := true })
    | _ => none
  | .removeSock =>                                                  -- os.Remove(sockpath): by PATH
    match (s.dm k).pc with
    | .exiting =>
      some ({ s with sock := none,
                     foreign := s.foreign || (match s.sock with | some o => decide (o ≠ k) | none => false) }.setDm k
              { s.dm k with pc := .removed })
    | _ => none
  | .closeStore =>
    match (s.dm k).pc with
    | .removed =>
      some ({ s with db := if (s.dm k).hasDB then none else s.db }.setDm k
              { s.dm k with pc := .closing, hasDB := false })
    | _ => none
  | .closeListener =>
    match (s.dm k).pc with
    | .closing => some (s.setDm k { s.dm k with pc := .dead .code0 })
    | _ => none
  | .abort =>
    match (s.dm k).pc with
    | .failed => some (s.setDm k { s.dm k with pc := .dead .code2 })
    | _ => none
  | .crash =>                                                       -- SIGKILL (or a signal before signal.Notify)
    if (s.dm k).pc.isAlive then
      some ({ s with db := if (s.dm k).hasDB then none else s.db }.setDm k
              { s.dm k with pc := .dead .crashed, hasDB := false, killed := true })
    else none

def step (s : State) : Label → Option State
  | .sh k a => stepSh s k a
  | .dm k a => stepDm s k a

/-- Every state of every interleaving, any number of shells. -/
inductive Reachable : State → Prop
  | init : Reachable init
  | step {s s' : State} {l : Label} : Reachable s → step s l = some s' → Reachable s'

/-- Reachability when every step additionally satisfies a side condition `G`
(a hypothesis about the schedule). -/
inductive ReachableG (G : State → Label → Prop) : State → Prop
  | init : ReachableG G init
  | step {s s' : State} {l : Label} : ReachableG G s → G s l → step s l = some s' → ReachableG G s'

theorem ReachableG.reachable {G : State → Label → Prop} {s : State} (h : ReachableG G s) : Reachable s := by
  induction h with
  | init => exact .init
  | step _ _ hs ih => exact .step ih hs

def run (s : State) : List Label → Option State
  | [] => some s
  | l :: ls => match step s l with
    | some s' => run s' ls
    | none => none

theorem reachable_run {s s' : State} {ls : List Label} (h : Reachable s) (hr : run s ls = some s') :
    Reachable s' := by
  induction ls generalizing s with
  | nil => simp [run] at hr; exact hr ▸ h
  | cons l ls ih =>
    simp only [run] at hr
    cases hs : step s l with
    | none => simp [hs] at hr
    | some s1 => simp [hs] at hr; exact ih (.step h hs) hr

end C27
