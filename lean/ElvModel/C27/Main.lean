import ElvModel.C27.Driver
def main : IO Unit := C27.driver.main
