/-
C27 — the property, as predicates on model states.

  I1  at most one daemon serves the socket path at a time (a daemon "owns the
      path" from its bind until its own `os.Remove`), and — the stronger form
      `I1own` — the file at the path is the one that daemon created (no daemon
      is orphaned on an unlinked socket);
  I2  at most one daemon holds the database, and (`I2s`) every daemon that
      answers requests holds it ("serves the database");
  I3  a daemon that left its loop without a signal had no connection left;
  I4  no exiting daemon removed a socket file it had not created (ghost flag);
  L   a shell whose `Activate` returned nil (or whose detectDaemon said OK) is
      connected to a daemon that is serving, counts the shell among its
      connections (so by I3 it stays) and holds the database — unless that
      daemon was signalled/killed.  Every other outcome of `Activate` is an error.
-/
import ElvModel.C27.Model
namespace C27

/-- From bind(2) until the daemon's own `os.Remove(sockpath)`. -/
def DPc.ownsPath : DPc → Bool
  | .bound | .listened | .opened | .serving | .exiting => true
  | _ => false

/-- Answers (or is about to answer) requests. -/
def DPc.answers : DPc → Bool
  | .opened | .serving => true
  | _ => false

/-- Left the select loop. -/
def DPc.leftLoop : DPc → Bool
  | .exiting | .removed | .closing | .dead .code0 => true
  | _ => false

def I1 (s : State) : Prop := ∀ d d', (s.dm d).pc.ownsPath = true → (s.dm d').pc.ownsPath = true → d = d'
def I1own (s : State) : Prop := ∀ d, (s.dm d).pc.ownsPath = true → s.sock = some d
def I2 (s : State) : Prop := ∀ d d', (s.dm d).hasDB = true → (s.dm d').hasDB = true → d = d'
def I2s (s : State) : Prop := ∀ d, (s.dm d).pc.answers = true → (s.dm d).hasDB = true
def I3 (s : State) : Prop := ∀ d, (s.dm d).killed = false → (s.dm d).pc.leftLoop = true → (s.dm d).conns = []
def I4 (s : State) : Prop := s.foreign = false

/-- Shell `k` holds a client that `Activate`/`detectDaemon` reported as good, to daemon `d`. -/
def connectedTo (s : State) (k d : Nat) : Prop := s.sh k = .done (.ok d) ∨ ∃ p, s.sh k = .detected p .ok d

def goodDaemon (s : State) (k d : Nat) : Prop :=
  (s.dm d).killed = true ∨ ((s.dm d).pc = .serving ∧ k ∈ (s.dm d).conns ∧ (s.dm d).hasDB = true)

def L (s : State) : Prop := ∀ k d, connectedTo s k d → goodDaemon s k d

/-- The whole property at one state. -/
def Safe (s : State) : Prop := I1 s ∧ I1own s ∧ I2 s ∧ I2s s ∧ I3 s ∧ I4 s ∧ L s

/-! Executable versions over shells/daemons `< n` (used by the driver to report
which parts fail in a state of an accepted real trace). -/

def viols (n : Nat) (s : State) : List String :=
  let ids := List.range n
  let own := ids.filter fun d => (s.dm d).pc.ownsPath
  (if own.length > 1 then ["I1"] else []) ++
  (if own.any (fun d => s.sock != some d) then ["I1own"] else []) ++
  (if (ids.filter fun d => (s.dm d).hasDB).length > 1 then ["I2"] else []) ++
  (if ids.any (fun d => (s.dm d).pc.answers && !(s.dm d).hasDB) then ["I2s"] else []) ++
  (if ids.any (fun d => !(s.dm d).killed && (s.dm d).pc.leftLoop && !(s.dm d).conns.isEmpty) then ["I3"] else []) ++
  (if s.foreign then ["I4"] else []) ++
  (if ids.any (fun k =>
      let bad (d : Nat) : Bool :=
        !((s.dm d).killed || (decide ((s.dm d).pc = .serving) && (s.dm d).conns.contains k && (s.dm d).hasDB))
      match s.sh k with
      | .done (.ok d) => bad d
      | .detected _ .ok d => bad d
      | _ => false) then ["L"] else [])

end C27
