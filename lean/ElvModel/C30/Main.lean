import ElvModel.C30.Driver
def main : IO Unit := C30.driver.main
