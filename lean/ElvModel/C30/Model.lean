/-
C30 — Syntax highlighting never changes the text and is never stale.

Model of pkg/edit/highlight:

* regions.go `fixRegions` — `sort.Slice` by the comparator `less` (modelled by
  its contract: the result is SOME permutation of the input that is sorted
  with respect to `less`; `sort.Slice` is not stable, so ties may come out in
  any order) followed by the overlap filter (`filterOverlap`);
* highlight.go `highlight` — the segment assembly loop (`assembleFrom`: text
  between regions, one segment per region, the tail), the bookkeeping of
  command regions (`cmdRegion{seg, cmd}`) and the late restyling performed by
  the goroutine (`restyle`: `text.Clone()`, then `newText[seg] =
  StyleSegment(newText[seg], good|bad)`);
* theme.go `stylingFor` (hand-copied table; the correspondence run enumerates
  every key of the real table);
* highlighter.go `Highlighter.Get`, the late callback `lateCb` and
  `InvalidateCache` as a labelled transition system over the cache mutex,
  the cache `{code, styledCode}` and the set of late results still in flight.

Region SOURCES (the parser, `emitRegions`, parse errors, `cfg.Check`) are not
modelled: the region list is an input.  Every slice expression is the checked
`Go.slice`, so a region list that is out of bounds makes the model panic
exactly where the Go code does.

Core Lean only.
-/
import ElvModel.Go.Basic
namespace C30
open Go

/-! ## Regions -/

/-- `regionKind`: `lexicalRegion = 0`, `semanticRegion = 1`. -/
inductive Kind
  | lexical
  | semantic
  deriving DecidableEq, Repr

/-- `region{Begin, End, Kind, Type}`; `Type` as bytes (it can be arbitrary
source text for `Sep` nodes). -/
structure Region where
  b : Int
  e : Int
  kind : Kind
  typ : Bytes
  deriving DecidableEq, Repr

/-- The `less` closure passed to `sort.Slice` in `fixRegions`. -/
def less (x y : Region) : Bool :=
  if x.b < y.b then true
  else if x.b = y.b then x.kind = .semantic && y.kind = .lexical
  else false

/-- The loop of `fixRegions` after the sort: keep a region iff it does not
begin before the end of the last region kept. -/
def filterOverlap : List Region → Int → List Region
  | [], _ => []
  | r :: rs, lastEnd =>
    if r.b < lastEnd then filterOverlap rs lastEnd
    else r :: filterOverlap rs r.e

/-- `fixRegions` given what `sort.Slice` left in the slice. -/
def fixRegionsSorted (sorted : List Region) : List Region := filterOverlap sorted 0

/-- The contract of `sort.Slice(regions, less)`: `sorted` is sorted w.r.t. `less`
(no later element is `less` than an earlier one). -/
def isSorted : List Region → Bool
  | [] => true
  | x :: rest => rest.all (fun y => !less y x) && isSorted rest

/-- Remove the first occurrence. -/
def eraseFirst (x : Region) : List Region → Option (List Region)
  | [] => none
  | y :: ys => if x = y then some ys else (eraseFirst x ys).map (y :: ·)

/-- `a` is a permutation of `b` (executable). -/
def isPerm : List Region → List Region → Bool
  | [], b => b.isEmpty
  | x :: a, b =>
    match eraseFirst x b with
    | some b' => isPerm a b'
    | none => false

/-- What `sort.Slice` may leave: a sorted permutation of the input. -/
def sortContract (input sorted : List Region) : Bool := isPerm sorted input && isSorted sorted

/-- One admissible result of the sort (insertion sort; stable).  Only used to
show that the contract is satisfiable and by tests. -/
def insertSorted (x : Region) : List Region → List Region
  | [] => [x]
  | y :: ys => if less x y then x :: y :: ys else y :: insertSorted x ys

def sortRegions : List Region → List Region
  | [] => []
  | x :: xs => insertSorted x (sortRegions xs)

/-! ## Styles (pkg/ui, only what the theme uses) -/

/-- The `ui.Color`s the theme uses; `dflt` is the nil Color. -/
inductive Color
  | dflt | red | green | yellow | magenta | cyan | brightWhite
  deriving DecidableEq, Repr

/-- `Color.String()` (`""` for nil). -/
def Color.name : Color → String
  | .dflt => ""
  | .red => "red"
  | .green => "green"
  | .yellow => "yellow"
  | .magenta => "magenta"
  | .cyan => "cyan"
  | .brightWhite => "bright-white"

/-- `ui.Style` (the fields the theme can set). -/
structure Style where
  fg : Color := .dflt
  bg : Color := .dflt
  bold : Bool := false
  deriving DecidableEq, Repr

/-- The `ui.Styling` values the theme uses. -/
inductive StyleAtom
  | fg (c : Color)
  | bg (c : Color)
  | bold
  deriving DecidableEq, Repr

/-- A `ui.Styling`; `[]` is the nil Styling (nothing applied). -/
abbrev Styling := List StyleAtom

def StyleAtom.apply (s : Style) : StyleAtom → Style
  | .fg c => { s with fg := c }
  | .bg c => { s with bg := c }
  | .bold => { s with bold := true }

/-- `ui.ApplyStyling`. -/
def applyStyling (s : Style) (t : Styling) : Style := t.foldl StyleAtom.apply s

/-- theme.go `stylingFor`, keys as UTF-8 bytes (literal byte lists so that the
kernel can evaluate examples; the correspondence run enumerates every key of
the real table and compares). -/
def themeTable : List (Bytes × Styling) :=
  [
    ([98, 97, 114, 101, 119, 111, 114, 100], []),  -- "bareword"
    ([115, 105, 110, 103, 108, 101, 45, 113, 117, 111, 116, 101, 100], [.fg .yellow]),  -- "single-quoted"
    ([100, 111, 117, 98, 108, 101, 45, 113, 117, 111, 116, 101, 100], [.fg .yellow]),  -- "double-quoted"
    ([118, 97, 114, 105, 97, 98, 108, 101], [.fg .magenta]),  -- "variable"
    ([119, 105, 108, 100, 99, 97, 114, 100], []),  -- "wildcard"
    ([116, 105, 108, 100, 101], []),  -- "tilde"
    ([99, 111, 109, 109, 101, 110, 116], [.fg .cyan]),  -- "comment"
    ([62], [.fg .green]),  -- ">"
    ([62, 62], [.fg .green]),  -- ">>"
    ([60], [.fg .green]),  -- "<"
    ([63, 62], [.fg .green]),  -- "?>"
    ([124], [.fg .green]),  -- "|"
    ([63, 40], [.bold]),  -- "?("
    ([40], [.bold]),  -- "("
    ([41], [.bold]),  -- ")"
    ([91], [.bold]),  -- "["
    ([93], [.bold]),  -- "]"
    ([123], [.bold]),  -- "{"
    ([125], [.bold]),  -- "}"
    ([38], [.bold]),  -- "&"
    ([99, 111, 109, 109, 97, 110, 100], [.fg .green]),  -- "command"
    ([107, 101, 121, 119, 111, 114, 100], [.fg .yellow]),  -- "keyword"
    ([101, 114, 114, 111, 114], [.fg .brightWhite, .bg .red])  -- "error"
  ]

def lookupTheme (typ : Bytes) : List (Bytes × Styling) → Styling
  | [] => []
  | (k, v) :: rest => if typ = k then v else lookupTheme typ rest

/-- `stylingFor[typ]` (a missing key gives the nil Styling). -/
def stylingFor (typ : Bytes) : Styling := lookupTheme typ themeTable

def stylingForGoodCommand : Styling := [.fg .green]
def stylingForBadCommand : Styling := [.fg .red]

/-- `commandRegion = "command"` as bytes. -/
def commandRegion : Bytes := [99, 111, 109, 109, 97, 110, 100]

/-! ## Text -/

/-- `ui.Segment`. -/
structure Seg where
  style : Style
  text : Bytes
  deriving DecidableEq, Repr

/-- `ui.Text`. -/
abbrev Text := List Seg

/-- The plain text of a `ui.Text`: the concatenation of the segments' text. -/
def plain (t : Text) : Bytes := (t.map (·.text)).flatten

/-- `ui.StyleSegment`. -/
def styleSegment (s : Seg) (t : Styling) : Seg := { s with style := applyStyling s.style t }

/-- `cmdRegion{seg, cmd}`. -/
structure CmdRegion where
  seg : Nat
  cmd : Bytes
  deriving DecidableEq, Repr

/-! ## Segment assembly (the loop of `highlight`) -/

/-- The segment made for region `r` and whether it is recorded as a command
region (`hasCmd` = `cfg.HasCommand != nil`). -/
def regionSeg (hasCmd : Bool) (r : Region) (regionCode : Bytes) : Seg × Bool :=
  if r.typ = commandRegion then
    if hasCmd then ({ style := {}, text := regionCode }, true)
    else (styleSegment { style := {}, text := regionCode } stylingForGoodCommand, false)
  else (styleSegment { style := {}, text := regionCode } (stylingFor r.typ), false)

/-- The loop `for _, r := range regions { … }` followed by the tail, for the
regions still to go; `lastEnd` and `n = len(text)` are the loop variables.
Returns the segments appended from here on and the command regions recorded
from here on. -/
def assembleFrom (code : Bytes) (hasCmd : Bool) : List Region → Int → Nat → Res (Text × List CmdRegion)
  | [], lastEnd, _ =>
    if (code.length : Int) > lastEnd then do
      let tail ← slice code lastEnd code.length
      pure ([{ style := {}, text := tail }], [])
    else pure ([], [])
  | r :: rs, lastEnd, n => do
    let gap : Text ← if r.b > lastEnd then do
        let g ← slice code lastEnd r.b
        pure [{ style := {}, text := g }]
      else pure []
    let regionCode ← slice code r.b r.e
    let (seg, isCmd) := regionSeg hasCmd r regionCode
    let n' := n + gap.length
    let cmds : List CmdRegion := if isCmd then [{ seg := n', cmd := regionCode }] else []
    let (rest, restCmds) ← assembleFrom code hasCmd rs r.e (n' + 1)
    pure (gap ++ seg :: rest, cmds ++ restCmds)

/-- Everything `highlight` does with the (already fixed) regions. -/
def assemble (code : Bytes) (hasCmd : Bool) (regions : List Region) : Res (Text × List CmdRegion) :=
  assembleFrom code hasCmd regions 0 0

/-- `highlight` from the point where `sort.Slice` has returned `sorted`:
overlap filter, then assembly. -/
def highlight (code : Bytes) (hasCmd : Bool) (sorted : List Region) : Res (Text × List CmdRegion) :=
  assemble code hasCmd (fixRegionsSorted sorted)

/-! ## Late restyling -/

/-- `seg := &newText[i]; *seg = ui.StyleSegment(*seg, styling)`. -/
def restyleAt : Text → Nat → Styling → Res Text
  | [], _, _ => .panic "index out of range"
  | s :: rest, 0, st => .ok (styleSegment s st :: rest)
  | s :: rest, i + 1, st => do
    let rest' ← restyleAt rest i st
    pure (s :: rest')

/-- The goroutine of `highlight`: for every recorded command region, restyle
its segment according to the answer `HasCommand` gave for it (the answers in
query order).  The text of every segment is untouched. -/
def restyle : Text → List CmdRegion → List Bool → Res Text
  | t, [], _ => .ok t
  | t, _ :: _, [] => .ok t
  | t, c :: cs, a :: as => do
    let t' ← restyleAt t c.seg (if a then stylingForGoodCommand else stylingForBadCommand)
    restyle t' cs as

/-! ## Highlighter.Get / lateCb / InvalidateCache as a transition system -/

/-- A late result in flight: the goroutine started by a `highlight` call whose
`select` timed out.  `code` is the variable captured by the `lateCb` closure;
`imm`/`cmds` are what the goroutine works on (`text.Clone()`, `cmdRegions`). -/
structure Pending where
  code : Bytes
  imm : Text
  cmds : List CmdRegion
  deriving DecidableEq, Repr

/-- Who holds `cacheMutex`. -/
inductive Holder
  | get (code : Bytes)
  | late (p : Pending)
  deriving DecidableEq, Repr

/-- Ghost observations (newest first). -/
inductive Obs
  /-- `Get(asked)` returned `text`; `origin` is the argument of the `highlight`
  call that computed `text`. -/
  | shown (asked : Bytes) (text : Text) (origin : Bytes)
  /-- a late result computed by `highlight(origin)` was stored while the cache held `cached` -/
  | lateStored (origin : Bytes) (cached : Bytes) (text : Text)
  | lateDropped (origin : Bytes) (cached : Bytes)
  deriving DecidableEq, Repr

structure State where
  mu : Option Holder
  /-- `cache.code` -/
  code : Bytes
  /-- `cache.styledCode` -/
  styled : Text
  /-- ghost: the argument of the `highlight` call that computed `styled` -/
  origin : Bytes
  pending : List Pending
  log : List Obs
  deriving DecidableEq, Repr

/-- A fresh `NewHighlighter`: zero cache. -/
def init : State := { mu := none, code := [], styled := [], origin := [], pending := [], log := [] }

/-- What the environment decides during one `highlight` call. -/
structure Env where
  /-- `cfg.HasCommand != nil` -/
  hasCmd : Bool
  /-- what `sort.Slice` left (a sorted permutation of the regions of the code) -/
  sorted : List Region
  /-- `some answers`: the late text arrived within `maxBlockForLate` and is
  returned directly, `answers` are HasCommand's answers in query order;
  `none`: the timer fired first. -/
  fast : Option (List Bool)
  deriving Repr

inductive Label
  /-- a `Get(code)` call acquires `cacheMutex` -/
  | getLock (code : Bytes)
  /-- `code == hl.cache.code`: return the cached text, unlock -/
  | getHit
  /-- otherwise: `highlight`, store `cache{code, styledCode}`, unlock, return -/
  | getMiss (env : Env)
  /-- `highlight` panics (region out of bounds): deferred unlock, cache untouched -/
  | getPanic (env : Env)
  /-- the goroutine `lateCb(<-lateCh)` of pending result `i` acquires `cacheMutex` -/
  | lateLock (i : Nat)
  /-- `hl.cache.code == code`: store the late text (HasCommand answered `answers`), unlock -/
  | lateStore (answers : List Bool)
  /-- `hl.cache.code != code`: unlock and return -/
  | lateDrop
  /-- `InvalidateCache` (lock; `cache = cache{}`; unlock) -/
  | inval
  deriving Repr

/-- Remove the `i`-th element. -/
def removeAt : List Pending → Nat → Option (Pending × List Pending)
  | [], _ => none
  | p :: ps, 0 => some (p, ps)
  | p :: ps, i + 1 => (removeAt ps i).map fun (q, qs) => (q, p :: qs)

/-- The result of one `highlight(code, cfg, lateCb)` call under `env`:
returned text and the late result left in flight, if any. -/
def runHighlight (code : Bytes) (env : Env) : Res (Text × Option Pending) :=
  match highlight code env.hasCmd env.sorted with
  | .ok (imm, cmds) =>
    if env.hasCmd && !cmds.isEmpty then
      match env.fast with
      | some answers =>
        if answers.length = cmds.length then
          match restyle imm cmds answers with
          | .ok late => .ok (late, none)
          | .exc e => .exc e
          | .panic w => .panic w
        else .exc "answers"
      | none => .ok (imm, some { code := code, imm := imm, cmds := cmds })
    else
      match env.fast with
      | some _ => .exc "no late result"
      | none => .ok (imm, none)
  | .exc e => .exc e
  | .panic w => .panic w

def step (s : State) : Label → Option State
  | .getLock code =>
    match s.mu with
    | none => some { s with mu := some (.get code) }
    | some _ => none
  | .getHit =>
    match s.mu with
    | some (.get code) =>
      if code = s.code then
        some { s with mu := none, log := .shown code s.styled s.origin :: s.log }
      else none
    | _ => none
  | .getMiss env =>
    match s.mu with
    | some (.get code) =>
      if code = s.code then none
      else
        match runHighlight code env with
        | .ok (text, pend) =>
          some { s with mu := none, code := code, styled := text, origin := code,
                        pending := s.pending ++ pend.toList,
                        log := .shown code text code :: s.log }
        | _ => none
    | _ => none
  | .getPanic env =>
    match s.mu with
    | some (.get code) =>
      if code = s.code then none
      else
        match runHighlight code env with
        | .panic _ => some { s with mu := none }
        | _ => none
    | _ => none
  | .lateLock i =>
    match s.mu with
    | none =>
      match removeAt s.pending i with
      | some (p, rest) => some { s with mu := some (.late p), pending := rest }
      | none => none
    | some _ => none
  | .lateStore answers =>
    match s.mu with
    | some (.late p) =>
      if s.code = p.code ∧ answers.length = p.cmds.length then
        match restyle p.imm p.cmds answers with
        | .ok late =>
          some { s with mu := none, styled := late, origin := p.code,
                        log := .lateStored p.code s.code late :: s.log }
        | _ => none
      else none
    | _ => none
  | .lateDrop =>
    match s.mu with
    | some (.late p) =>
      if s.code = p.code then none
      else some { s with mu := none, log := .lateDropped p.code s.code :: s.log }
    | _ => none
  | .inval =>
    match s.mu with
    | none => some { s with code := [], styled := [], origin := [] }
    | some _ => none

/-- States reachable from a fresh highlighter by any interleaving of any
number of `Get` calls, late deliveries and invalidations. -/
inductive Reachable : State → Prop
  | init : Reachable init
  | step {s s' : State} (l : Label) : Reachable s → step s l = some s' → Reachable s'

end C30
