import ElvModel.Go.Driver
import ElvModel.C30.Accept
namespace C30
open Go

/-! ### Line-protocol codecs

regions: `b:e:k:<hex typ>` joined by `,` (`-` = empty list), `k` = 0 lexical | 1 semantic
text:    `<hex text>:<fg>/<bg>/<flags>` joined by `,` (`-` = empty text) -/

def fmtStyle (s : Style) : String :=
  s!"{s.fg.name}/{s.bg.name}/{if s.bold then "b" else ""}"

def fmtSeg (s : Seg) : String := s!"{hexEnc s.text}:{fmtStyle s.style}"

def fmtText (t : Text) : String :=
  match t with
  | [] => "-"
  | _ => ",".intercalate (t.map fmtSeg)

def fmtRegion (r : Region) : String :=
  s!"{r.b}:{r.e}:{match r.kind with | .lexical => 0 | .semantic => 1}:{hexEnc r.typ}"

def fmtRegions (rs : List Region) : String :=
  match rs with
  | [] => "-"
  | _ => ",".intercalate (rs.map fmtRegion)

def parseRegion (s : String) : Option Region :=
  match s.splitOn ":" with
  | [b, e, k, t] => do
    let b ← b.toInt?
    let e ← e.toInt?
    let k ← match k with | "0" => some Kind.lexical | "1" => some Kind.semantic | _ => none
    let t ← hexDecode t
    pure { b := b, e := e, kind := k, typ := t }
  | _ => none

def parseRegions (s : String) : Option (List Region) :=
  if s = "-" then some [] else (s.splitOn ",").mapM parseRegion

def parseColor (s : String) : Option Color :=
  [Color.dflt, .red, .green, .yellow, .magenta, .cyan, .brightWhite].find? (·.name = s)

def parseStyle (s : String) : Option Style :=
  match s.splitOn "/" with
  | [fg, bg, fl] => do
    let fg ← parseColor fg
    let bg ← parseColor bg
    let bold ← match fl with | "" => some false | "b" => some true | _ => none
    pure { fg := fg, bg := bg, bold := bold }
  | _ => none

def parseSeg (s : String) : Option Seg :=
  match s.splitOn ":" with
  | [t, st] => do
    let t ← hexDecode t
    let st ← parseStyle st
    pure { style := st, text := t }
  | _ => none

def parseText (s : String) : Option Text :=
  if s = "-" then some [] else (s.splitOn ",").mapM parseSeg

/-- The harness' deterministic HasCommand for the pure ops: `mod:k` answers
`(Σ bytes + len) % k = 0`. -/
def hasMod (k : Nat) (name : Bytes) : Bool :=
  (name.foldl (fun a b => a + b.toNat) name.length) % k == 0

/-- `nil` | `mod:<k>` -/
def parseHc (s : String) : Option (Option Nat) :=
  if s = "nil" then some none
  else match s.splitOn ":" with
    | ["mod", k] => k.toNat?.bind fun k => if k = 0 then none else some (some k)
    | _ => none

/-- `hl` op: whole `highlight` given the observed regions and sort result. -/
def hlLine (hcode hc speed pre sorted : String) : String :=
  match hexDecode hcode, parseHc hc, parseRegions pre, parseRegions sorted with
  | some code, some hc, some pre, some sorted =>
    if !sortContract pre sorted then "reject sort-contract" else
    let hasCmd := hc.isSome
    match highlight code hasCmd sorted with
    | .ok (imm, cmds) =>
      let fixed := fmtRegions (fixRegionsSorted sorted)
      match hc with
      | some k =>
        if cmds.isEmpty then s!"ok F={fixed} I={fmtText imm} L=-" else
        match restyle imm cmds (cmds.map fun c => hasMod k c.cmd) with
        | .ok late =>
          if speed = "fast" then s!"ok F={fixed} I={fmtText late} L=-"
          else s!"ok F={fixed} I={fmtText imm} L={fmtText late}"
        | _ => "PANIC"
      | none => s!"ok F={fixed} I={fmtText imm} L=-"
    | _ => "PANIC"
  | _, _, _, _ => "bad-op"

/-- Driver state for the trace ops: `none` = dead (an earlier entry of this run
was rejected or no run is open). -/
structure DState where
  cands : Option (List Cand)
  hasCmd : Bool
  n : Nat

def parseEntry : List String → Option Entry
  | [lab, a, b] =>
    match lab with
    | "GL" => (hexDecode a).map .GL
    | "RP" => do let c ← hexDecode a; let r ← parseRegions b; pure (.RP c r)
    | "RS" => (parseRegions a).map .RS
    | "RF" => (parseRegions a).map .RF
    | "HN" => some .HN
    | "HF" => some .HF
    | "HI" => some .HI
    | "GM" => do let c ← hexDecode a; let t ← parseText b; pure (.GM c t)
    | "GH" => do let c ← hexDecode a; let t ← parseText b; pure (.GH c t)
    | "LL" => (hexDecode a).map .LL
    | "LS" => do let c ← hexDecode a; let t ← parseText b; pure (.LS c t)
    | "LD" => do let c ← hexDecode a; let d ← hexDecode b; pure (.LD c d)
    | "IV" => some .IV
    | _ => none
  | _ => none

def describe (c : Cand) : String :=
  let mu := match c.s.mu with
    | none => "free"
    | some (.get code) => s!"get({hexEnc code})"
    | some (.late p) => s!"late({hexEnc p.code})"
  s!"mu={mu} cache.code={hexEnc c.s.code} cache.styled={fmtText c.s.styled} pending={c.s.pending.length} sorted?={c.sorted.isSome} path={repr c.path}"

def countShown (l : List Obs) : Nat := (l.filter fun o => match o with | .shown .. => true | _ => false).length
def countStored (l : List Obs) : Nat := (l.filter fun o => match o with | .lateStored .. => true | _ => false).length

/-- Ghost-log check at `end`: every text ever returned by `Get` or stored late
has the plain text of the code it is shown for, and was computed for it. -/
def logOK : List Obs → Bool
  | [] => true
  | .shown asked text origin :: rest => decide (plain text = asked) && decide (origin = asked) && logOK rest
  | .lateStored origin cached text :: rest => decide (origin = cached) && decide (plain text = cached) && logOK rest
  | .lateDropped origin cached :: rest => decide (origin ≠ cached) && logOK rest

/-- ops:
  `theme <hex typ>`                       → style of a non-command region of that type
  `theme-cmd good|bad`                    → the two command stylings
  `fix <regions> <sorted>`                → `ok <fixed>` | `reject sort-contract`
  `hl <hex code> <cfg> <nil|mod:k> <fast|slow> <regions> <sorted>`
                                          → `ok F=<fixed> I=<returned text> L=<late text|->` | `PANIC`
  `reset <0|1 hasCommand> <desc>`         → `ok`
  `t <label> <a> <b>`                     → `ok` | `reject …`
  `o …` (harness-side observation)        → `ok`
  `end …`                                 → `end gets=<n> stores=<n>` from the ghost log -/
def stepLine (st : DState) : List String → DState × String
  | ["theme", t] =>
    match hexDecode t with
    | some t => (st, fmtStyle (applyStyling {} (stylingFor t)))
    | none => (st, "bad-op")
  | ["theme-cmd", w] =>
    (st, fmtStyle (applyStyling {} (if w = "good" then stylingForGoodCommand else stylingForBadCommand)))
  | ["fix", rs, sorted] =>
    match parseRegions rs, parseRegions sorted with
    | some rs, some sorted =>
      if sortContract rs sorted then (st, s!"ok {fmtRegions (fixRegionsSorted sorted)}")
      else (st, "reject sort-contract")
    | _, _ => (st, "bad-op")
  | ["hl", code, _cfg, hc, speed, pre, sorted] => (st, hlLine code hc speed pre sorted)
  | "reset" :: hc :: _ =>
    if hc = "pure" then ({ cands := none, hasCmd := false, n := 0 }, "ok")
    else ({ cands := some [Cand.init], hasCmd := hc = "1", n := 0 }, "ok")
  | "t" :: rest =>
    match st.cands with
    | none => (st, "reject dead")
    | some cs =>
      match parseEntry rest with
      | none => ({ st with cands := none }, "reject bad-entry")
      | some e =>
        match accept st.hasCmd cs e with
        | [] =>
          let why := match cs with
            | c :: more => s!"{describe c} (+{more.length} more)"
            | [] => "no candidate"
          ({ st with cands := none }, s!"reject entry#{st.n} not enabled; candidates: {why}")
        | cs' => ({ st with cands := some cs', n := st.n + 1 }, "ok")
  | "o" :: _ => (st, "ok")
  | "end" :: _ =>
    match st.cands with
    | some cs =>
      match finish st.hasCmd cs with
      | c :: _ =>
        if logOK c.s.log then
          ({ st with cands := none }, s!"end gets={countShown c.s.log} stores={countStored c.s.log}")
        else ({ st with cands := none }, "reject ghost log violates the invariant")
      | [] => ({ st with cands := none }, "reject end inside a critical section")
    | none => (st, "reject dead")
  | _ => (st, "bad-op")

def driver : Driver := { σ := DState, init := { cands := none, hasCmd := false, n := 0 }, step := stepLine }
end C30
