/-
C30 — trace acceptor: does a trace recorded from the instrumented
`Highlighter` (hooks/C30-highlight-export.patch, build tag `verif`) correspond
to an execution of the model (`C30.step`)?

Every entry of `Highlighter.Get`, `lateCb` and `InvalidateCache` is written
while `cacheMutex` is held (right after `Lock`, right before the `Unlock`), and
the entries of `highlight`/`fixRegions` are written by the goroutine that
holds it, so the recorded order IS the order of the critical sections: the
acceptor is an exact replay, one model step per `GL GH GM LL LS LD IV` entry.
Two places need a choice, both resolved by tracking a set of candidates:

  * `LL code` does not say which of several late results for `code` got the
    mutex (they may differ if the regions of `code` differed between calls);
  * a `Get` that panicked inside `highlight` leaves no closing entry: it is
    recognised when the next critical section begins while the model still
    has the mutex held by a `Get` (silent `getPanic` step).

Entries of one `highlight` call: `RP code regions` (regions before
`fixRegions`), `RS sorted` (after `sort.Slice`, checked against the sort
contract), `RF fixed` (result of `fixRegions`, must equal `filterOverlap`),
then `HN` (no late computation), `HF` (late text arrived within
`maxBlockForLate` and is returned) or `HI` (timer first: late result in
flight).  HasCommand's answers are read off the late text itself
(`inferAnswers`); the step then recomputes the text from them and the result
must be identical to the recorded one.
-/
import ElvModel.C30.Model
namespace C30
open Go

/-- The answers HasCommand must have given for `late` to be the restyling. -/
def inferAnswers (late : Text) (cmds : List CmdRegion) : List Bool :=
  cmds.map fun c =>
    match late[c.seg]? with
    | some s => decide (s.style = applyStyling {} stylingForGoodCommand)
    | none => false

/-- Which return path `highlight` took. -/
inductive Path
  | none_   -- HN
  | fast    -- HF
  | inflight -- HI
  deriving DecidableEq, Repr

/-- A candidate: model state + what is known about the `highlight` call running
inside the current `Get`. -/
structure Cand where
  s : State
  pre : Option (List Region)
  sorted : Option (List Region)
  path : Option Path
  deriving DecidableEq, Repr

def Cand.init : Cand := { s := C30.init, pre := none, sorted := none, path := none }

def Cand.same (a b : Cand) : Bool :=
  decide ({ a.s with log := [] } = { b.s with log := [] }) &&
  decide (a.pre = b.pre) && decide (a.sorted = b.sorted) && decide (a.path = b.path)

inductive Entry
  | GL (code : Bytes)
  | RP (code : Bytes) (regions : List Region)
  | RS (sorted : List Region)
  | RF (fixed : List Region)
  | HN | HF | HI
  | GM (code : Bytes) (text : Text)
  | GH (code : Bytes) (text : Text)
  | LL (code : Bytes)
  | LS (code : Bytes) (text : Text)
  | LD (code cached : Bytes)
  | IV
  deriving Repr

def clearScratch (s : State) : Cand := { s := s, pre := none, sorted := none, path := none }

/-- If a `Get` still holds the mutex when another critical section begins, it
must have panicked inside `highlight`: take the `getPanic` step (needs the
sorted regions it had reached). -/
def resolvePanic (hasCmd : Bool) (c : Cand) : Option Cand :=
  match c.s.mu with
  | some (.get _) =>
    match c.sorted with
    | some sorted =>
      (step c.s (.getPanic { hasCmd := hasCmd, sorted := sorted, fast := none })).map clearScratch
    | none => none
  | _ => some c

def indices (n : Nat) : List Nat := List.range n

/-- All successors of a candidate for one entry (`[]` = not accepted). -/
def applyEntry (hasCmd : Bool) (c0 : Cand) (e : Entry) : List Cand :=
  match e with
  | .GL code =>
    match resolvePanic hasCmd c0 with
    | some c => ((step c.s (.getLock code)).map clearScratch).toList
    | none => []
  | .RP code regions =>
    match c0.s.mu, c0.pre with
    | some (.get code'), none => if code = code' then [{ c0 with pre := some regions }] else []
    | _, _ => []
  | .RS sorted =>
    match c0.pre, c0.sorted with
    | some pre, none => if sortContract pre sorted then [{ c0 with sorted := some sorted }] else []
    | _, _ => []
  | .RF fixed =>
    match c0.sorted, c0.path with
    | some sorted, none => if fixRegionsSorted sorted = fixed then [c0] else []
    | _, _ => []
  | .HN => match c0.sorted, c0.path with | some _, none => [{ c0 with path := some .none_ }] | _, _ => []
  | .HF => match c0.sorted, c0.path with | some _, none => [{ c0 with path := some .fast }] | _, _ => []
  | .HI => match c0.sorted, c0.path with | some _, none => [{ c0 with path := some .inflight }] | _, _ => []
  | .GM code text =>
    match c0.s.mu, c0.sorted, c0.path with
    | some (.get code'), some sorted, some path =>
      if code ≠ code' then [] else
      let fast : Option (List Bool) :=
        match path with
        | .fast =>
          match highlight code hasCmd sorted with
          | .ok (_, cmds) => some (inferAnswers text cmds)
          | _ => some []
        | _ => none
      match step c0.s (.getMiss { hasCmd := hasCmd, sorted := sorted, fast := fast }) with
      | some s' =>
        let grew := s'.pending.length = c0.s.pending.length + 1
        if s'.styled = text ∧ s'.code = code ∧ (grew ↔ path = .inflight) then [clearScratch s'] else []
      | none => []
    | _, _, _ => []
  | .GH code text =>
    match c0.s.mu, c0.pre with
    | some (.get code'), none =>
      if code ≠ code' then [] else
      match step c0.s .getHit with
      | some s' => if s'.styled = text then [clearScratch s'] else []
      | none => []
    | _, _ => []
  | .LL code =>
    match resolvePanic hasCmd c0 with
    | some c =>
      (indices c.s.pending.length).filterMap fun i =>
        match step c.s (.lateLock i) with
        | some s' =>
          match s'.mu with
          | some (.late p) => if p.code = code then some (clearScratch s') else none
          | _ => none
        | none => none
    | none => []
  | .LS code text =>
    match c0.s.mu with
    | some (.late p) =>
      if p.code ≠ code then [] else
      match step c0.s (.lateStore (inferAnswers text p.cmds)) with
      | some s' => if s'.styled = text then [clearScratch s'] else []
      | none => []
    | _ => []
  | .LD code cached =>
    match c0.s.mu with
    | some (.late p) =>
      if p.code ≠ code ∨ c0.s.code ≠ cached then [] else
      ((step c0.s .lateDrop).map clearScratch).toList
    | _ => []
  | .IV =>
    match resolvePanic hasCmd c0 with
    | some c => ((step c.s .inval).map clearScratch).toList
    | none => []

def insertNew (acc : List Cand) (c : Cand) : List Cand :=
  if acc.any (·.same c) then acc else acc ++ [c]

/-- Process one entry on every candidate. Empty = reject. -/
def accept (hasCmd : Bool) (cs : List Cand) (e : Entry) : List Cand :=
  cs.foldl (fun acc c => (applyEntry hasCmd c e).foldl insertNew acc) []

/-- At the end of a run no critical section is open (a `Get` that panicked
last is resolved first). -/
def finish (hasCmd : Bool) (cs : List Cand) : List Cand :=
  cs.filterMap fun c =>
    match resolvePanic hasCmd c with
    | some c' => if c'.s.mu = none then some c' else none
    | none => none

end C30
