import ElvModel.C07.Driver
def main : IO Unit := C07.driver.main
