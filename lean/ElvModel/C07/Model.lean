/-
C07 model: pkg/persistent/hashmap/hashmap.go — the persistent hash array
mapped trie (`hashMap`, `bitmapNode`, `arrayNode`, `collisionNode`, their
`assoc / without / find / iterator`, `unpack / pack / createNode /
withoutEntry / replaceEntry`), function by function.

* `eq : K → K → Bool` and `hashf : K → UInt32` are parameters (Go: `Equal`,
  `Hash`); nothing is assumed about them here.
* The bit arithmetic (`chunk`, `bitpos`, `index`, `popCount`, `chunkBits`,
  `nodeCap`) is NOT written here: it is `Gen.C07Bits`, regenerated from the Go
  source by tools/go2lean on every check.
* A `mapEntry{key, value}` of a bitmap node is `Entry.kv k v` when `key != nil`
  and `Entry.sub child` when `key == nil` (the Go code "abuses" the nil key for
  children; `hashMap.Assoc/Dissoc/Index` never pass a nil key down).
* Partial Go operations (slice/index out of range, `make` with negative length,
  nil dereference) are `Res.panic`.  Two explicit out-of-model outcomes exist,
  both `Res.exc`: `FUEL` (recursion budget of `assoc` exhausted — Go would
  recurse further) and `OUTSIDE-MODEL …` (a Go state the datatype cannot
  represent: an `arrayNode` whose child list is not 32 long, a zero-valued
  `mapEntry` left by `pack`, `Elem` on a child entry).  ElvProofs/C07 proves
  neither occurs on maps built by the API from lawful `eq`/`hashf`.
* Pointer identity matters in `without` (`newChild == child`,
  `newChild == emptyBitmapNode`): the result of `without` is a `WRes`
  (`same` = the receiver pointer, `emptyPtr` = the global `emptyBitmapNode`,
  `fresh n` = a newly allocated node).
-/
import ElvModel.Go.Basic
import ElvModel.Generated.C07Bits
namespace C07
open Go Gen.C07Bits

mutual
/-- `node` (interface) with its three implementations. -/
inductive Node (K V : Type) where
  /-- `bitmapNode{bitmap, entries}` -/
  | bitmap (bm : UInt32) (entries : List (Entry K V))
  /-- `arrayNode{nChildren, children [32]node}`; `none` = nil child -/
  | array (nChildren : Int) (children : List (Option (Node K V)))
  /-- `collisionNode{hash, entries}` -/
  | collision (hash : UInt32) (entries : List (K × V))
/-- `mapEntry` inside a bitmap node. -/
inductive Entry (K V : Type) where
  | kv (k : K) (v : V)
  | sub (n : Node K V)
end

variable {K V : Type}

instance : Inhabited (Node K V) := ⟨.bitmap 0 []⟩

/-- `var emptyBitmapNode = &bitmapNode{}` -/
def emptyBitmapNode : Node K V := .bitmap 0 []

def outOfFuel {α} : Res α := .exc "FUEL"
def outside {α} (why : String) : Res α := .exc ("OUTSIDE-MODEL " ++ why)

/-- `shift + chunkBits` (uint32 arithmetic) -/
def nextShift (shift : UInt32) : UInt32 := shift + UInt32.ofNat chunkBits

/-! ### slice helpers -/

/-- `withoutEntry(entries, idx)`: `make(len-1)`, `copy(new[:idx], old[:idx])`,
`copy(new[idx:], old[idx+1:])`; panics unless `idx < len`. -/
def withoutEntry {α} (entries : List α) (idx : Nat) : Res (List α) :=
  if idx < entries.length then .ok (entries.eraseIdx idx)
  else .panic "slice bounds out of range"

/-- `replaceEntry(entries, i, k, v)`: copy, then `new[i] = …`. -/
def replaceEntry {α} (entries : List α) (i : Nat) (e : α) : Res (List α) :=
  if i < entries.length then .ok (entries.set i e)
  else .panic "index out of range"

/-- the insertion in `bitmapNode.assoc`: `make(len+1)`, `copy(new[:idx], old[:idx])`,
`new[idx] = e`, `copy(new[idx+1:], old[idx:])`; panics unless `idx ≤ len`. -/
def insertEntry {α} (entries : List α) (idx : Nat) (e : α) : Res (List α) :=
  if idx ≤ entries.length then .ok (entries.take idx ++ e :: entries.drop idx)
  else .panic "slice bounds out of range"

/-- `collisionNode.findIndex`: first `i` with `eq(k, entries[i].key)`. -/
def findIndex (eq : K → K → Bool) (k : K) (entries : List (K × V)) : Option Nat :=
  entries.findIdx? (fun e => eq k e.1)

/-! ### assoc -/

/-- The type of `node.assoc(shift, hash, k, v, h, eq)` with `h`, `eq` fixed. -/
abbrev AssocFn (K V : Type) := Node K V → UInt32 → UInt32 → K → V → Res (Node K V × Bool)

/-- `createNode(shift, k1, v1, h2, k2, v2, h, eq)`; `assocF` is `node.assoc`. -/
def createNode (assocF : AssocFn K V) (hashf : K → UInt32) (shift : UInt32)
    (k1 : K) (v1 : V) (h2 : UInt32) (k2 : K) (v2 : V) : Res (Node K V) :=
  let h1 := hashf k1
  if h1 == h2 then .ok (.collision h1 [(k1, v1), (k2, v2)])
  else do
    let (n, _) ← assocF emptyBitmapNode shift h1 k1 v1
    let (n, _) ← assocF n shift h2 k2 v2
    pure n

/-- The loop of `bitmapNode.unpack`: `for i := 0; i < nodeCap; i++`, with the
running entry index `j`.  `rem` counts the iterations left. -/
def unpackLoop (assocF : AssocFn K V) (hashf : K → UInt32) (bm : UInt32)
    (entries : List (Entry K V)) (shift : UInt32) :
    (rem i j : Nat) → List (Option (Node K V)) → Res (List (Option (Node K V)))
  | 0, _, _, children => .ok children
  | rem + 1, i, j, children =>
    if (bm >>> UInt32.ofNat i) &&& 1 != 0 then
      match entries[j]? with
      | none => .panic "index out of range"
      | some (.sub child) =>
        unpackLoop assocF hashf bm entries shift rem (i + 1) (j + 1) (children.set i (some child))
      | some (.kv k v) => do
        let (c, _) ← assocF emptyBitmapNode (nextShift shift) (hashf k) k v
        unpackLoop assocF hashf bm entries shift rem (i + 1) (j + 1) (children.set i (some c))
    else unpackLoop assocF hashf bm entries shift rem (i + 1) j children

/-- `(*bitmapNode).unpack(shift, idx, newChild, h, eq)` -/
def unpack (assocF : AssocFn K V) (hashf : K → UInt32) (bm : UInt32)
    (entries : List (Entry K V)) (shift idx : UInt32) (newChild : Node K V) : Res (Node K V) := do
  let children := (List.replicate nodeCap (none : Option (Node K V))).set idx.toNat (some newChild)
  let children ← unpackLoop assocF hashf bm entries shift nodeCap 0 0 children
  pure (.array ((entries.length : Int) + 1) children)

/-- `node.assoc`.  Go recurses without a static bound (a collision node whose
hash differs from the new key's wraps itself into a bitmap node and retries
one level down), so the model takes fuel; `FUEL` is an explicit outcome. -/
def assoc (eq : K → K → Bool) (hashf : K → UInt32) : Nat → AssocFn K V
  | 0, _, _, _, _, _ => outOfFuel
  | fuel + 1, .bitmap bm entries, shift, hash, k, v =>
    let bit := bitpos shift hash
    let idx := (index bm bit).toNat
    if bm &&& bit == 0 then
      -- Entry does not exist yet
      if entries.length ≥ nodeCap / 2 then do
        -- Unpack into an arrayNode
        let (newNode, _) ← assoc eq hashf fuel emptyBitmapNode (nextShift shift) hash k v
        let a ← unpack (assoc eq hashf fuel) hashf bm entries shift (chunk shift hash) newNode
        pure (a, true)
      else do
        let newEntries ← insertEntry entries idx (.kv k v)
        pure (.bitmap (bm ||| bit) newEntries, true)
    else
      -- Entry exists
      match entries[idx]? with
      | none => .panic "index out of range"
      | some (.sub child) => do
        let (newChild, added) ← assoc eq hashf fuel child (nextShift shift) hash k v
        let es ← replaceEntry entries idx (.sub newChild)
        pure (.bitmap bm es, added)
      | some (.kv k0 v0) =>
        if eq k k0 then do
          let es ← replaceEntry entries idx (.kv k v)
          pure (.bitmap bm es, false)
        else do
          let newNode ← createNode (assoc eq hashf fuel) hashf (nextShift shift) k0 v0 hash k v
          let es ← replaceEntry entries idx (.sub newNode)
          pure (.bitmap bm es, true)
  | fuel + 1, .array nChildren children, shift, hash, k, v =>
    let idx := (chunk shift hash).toNat
    match children[idx]? with
    | none => outside "arrayNode.children shorter than 32"
    | some none => do
      let (newChild, _) ← assoc eq hashf fuel emptyBitmapNode (nextShift shift) hash k v
      pure (.array (nChildren + 1) (children.set idx (some newChild)), true)
    | some (some child) => do
      let (newChild, added) ← assoc eq hashf fuel child (nextShift shift) hash k v
      pure (.array (nChildren + 0) (children.set idx (some newChild)), added)
  | fuel + 1, .collision h entries, shift, hash, k, v =>
    if hash == h then
      match findIndex eq k entries with
      | some i => do
        let es ← replaceEntry entries i (k, v)
        pure (.collision h es, false)
      | none => .ok (.collision h (entries ++ [(k, v)]), true)
    else
      -- Wrap in a bitmapNode and add the entry
      assoc eq hashf fuel (.bitmap (bitpos shift h) [.sub (.collision h entries)]) shift hash k v

/-! ### find -/

mutual
/-- `node.find(shift, hash, k, eq)`; `none` = `(nil, false)`. -/
def Node.find (eq : K → K → Bool) : Node K V → UInt32 → UInt32 → K → Res (Option V)
  | .bitmap bm entries, shift, hash, k =>
    let bit := bitpos shift hash
    if bm &&& bit == 0 then .ok none
    else findAt eq entries (index bm bit).toNat shift hash k
  | .array _ children, shift, hash, k =>
    findChild eq children (chunk shift hash).toNat shift hash k
  | .collision _ entries, _, _, k =>
    match findIndex eq k entries with
    | none => .ok none
    | some i =>
      match entries[i]? with
      | some e => .ok (some e.2)
      | none => .panic "index out of range"
/-- `entry := n.entries[idx]` followed by the branch on the entry (bitmap node). -/
def findAt (eq : K → K → Bool) : List (Entry K V) → Nat → UInt32 → UInt32 → K → Res (Option V)
  | [], _, _, _, _ => .panic "index out of range"
  | .kv k0 v0 :: _, 0, _, _, k => if eq k0 k then .ok (some v0) else .ok none
  | .sub child :: _, 0, shift, hash, k => child.find eq (nextShift shift) hash k
  | _ :: es, i + 1, shift, hash, k => findAt eq es i shift hash k
/-- `child := n.children[idx]` followed by the nil test (array node). -/
def findChild (eq : K → K → Bool) : List (Option (Node K V)) → Nat → UInt32 → UInt32 → K → Res (Option V)
  | [], _, _, _, _ => outside "arrayNode.children shorter than 32"
  | none :: _, 0, _, _, _ => .ok none
  | some child :: _, 0, shift, hash, k => child.find eq (nextShift shift) hash k
  | _ :: cs, i + 1, shift, hash, k => findChild eq cs i shift hash k
end

/-! ### without -/

/-- The node pointer returned by `without`, relative to the receiver. -/
inductive WRes (K V : Type) where
  | same                     -- `return n, false`
  | emptyPtr                 -- the global `emptyBitmapNode`
  | fresh (n : Node K V)     -- a newly allocated node

/-- What a bitmap/array node does with the slot after looking at it. -/
inductive Step (K V : Type) where
  | keep                                 -- `return n, false`
  | drop                                 -- remove the slot
  | replace (n : Node K V) (deleted : Bool)

/-- `(*bitmapNode).withoutEntry(bit, idx)` -/
def bitmapWithoutEntry (bm : UInt32) (entries : List (Entry K V)) (bit : UInt32) (idx : Nat) :
    Res (WRes K V) :=
  if bm == bit then .ok .emptyPtr
  else do
    let es ← withoutEntry entries idx
    pure (.fresh (.bitmap (bm ^^^ bit) es))

/-- The loop of `(*arrayNode).pack(skip)`: bitmap and entries of the children
other than `skip`. -/
def packLoop (skip : Nat) : List (Option (Node K V)) → Nat → UInt32 × List (Entry K V)
  | [], _ => (0, [])
  | c :: cs, i =>
    let (bm, es) := packLoop skip cs (i + 1)
    match c with
    | some child => if i != skip then (bm ||| ((1 : UInt32) <<< UInt32.ofNat i), .sub child :: es) else (bm, es)
    | none => (bm, es)

/-- `(*arrayNode).pack(skip)`: `make([]mapEntry, nChildren-1)` then the loop. -/
def pack (nChildren : Int) (children : List (Option (Node K V))) (skip : Nat) : Res (Node K V) :=
  if children.length != nodeCap then outside "arrayNode.children not 32 long"
  else if nChildren - 1 < 0 then .panic "makeslice: len out of range"
  else
    let (bm, es) := packLoop skip children 0
    if (es.length : Int) > nChildren - 1 then .panic "index out of range"
    else if (es.length : Int) < nChildren - 1 then outside "pack leaves zero-valued mapEntry"
    else .ok (.bitmap bm es)

mutual
/-- `node.without(shift, hash, k, eq)` -/
def Node.without (eq : K → K → Bool) : Node K V → UInt32 → UInt32 → K → Res (WRes K V × Bool)
  | .bitmap bm entries, shift, hash, k =>
    let bit := bitpos shift hash
    if bm &&& bit == 0 then .ok (.same, false)
    else
      let idx := (index bm bit).toNat
      match withoutAt eq entries idx shift hash k with
      | .ok .keep => .ok (.same, false)
      | .ok .drop => do
        let r ← bitmapWithoutEntry bm entries bit idx
        pure (r, true)
      | .ok (.replace newChild deleted) => do
        let es ← replaceEntry entries idx (.sub newChild)
        pure (.fresh (.bitmap bm es), deleted)
      | .exc e => .exc e
      | .panic w => .panic w
  | .array nChildren children, shift, hash, k =>
    let idx := (chunk shift hash).toNat
    match withoutChild eq children idx shift hash k with
    | .ok .keep => .ok (.same, false)
    | .ok .drop =>
      if nChildren ≤ ((nodeCap / 4 : Nat) : Int) then do
        -- less than 1/4 full; shrink
        let p ← pack nChildren children idx
        pure (.fresh p, true)
      else .ok (.fresh (.array (nChildren + -1) (children.set idx none)), true)
    | .ok (.replace newChild _) =>
      .ok (.fresh (.array (nChildren + 0) (children.set idx (some newChild))), true)
    | .exc e => .exc e
    | .panic w => .panic w
  | .collision h entries, _, _, k =>
    match findIndex eq k entries with
    | none => .ok (.same, false)
    | some idx =>
      if entries.length == 1 then .ok (.emptyPtr, true)
      else do
        let es ← withoutEntry entries idx
        pure (.fresh (.collision h es), true)
/-- bitmap node: `entry := n.entries[idx]` and the branch on the entry. -/
def withoutAt (eq : K → K → Bool) : List (Entry K V) → Nat → UInt32 → UInt32 → K → Res (Step K V)
  | [], _, _, _, _ => .panic "index out of range"
  | .kv k0 _ :: _, 0, _, _, k => if eq k0 k then .ok .drop else .ok .keep
  | .sub child :: _, 0, shift, hash, k =>
    match child.without eq (nextShift shift) hash k with
    | .ok (.same, _) => .ok .keep                      -- `newChild == child`
    | .ok (.emptyPtr, _) => .ok .drop                  -- `newChild == emptyBitmapNode`
    | .ok (.fresh newChild, deleted) => .ok (.replace newChild deleted)
    | .exc e => .exc e
    | .panic w => .panic w
  | _ :: es, i + 1, shift, hash, k => withoutAt eq es i shift hash k
/-- array node: `child := n.children[idx]` and the branch on it. -/
def withoutChild (eq : K → K → Bool) : List (Option (Node K V)) → Nat → UInt32 → UInt32 → K → Res (Step K V)
  | [], _, _, _, _ => outside "arrayNode.children shorter than 32"
  | none :: _, 0, _, _, _ => .ok .keep
  | some child :: _, 0, shift, hash, k =>
    match child.without eq (nextShift shift) hash k with
    | .ok (.same, _) => .ok .keep
    | .ok (.emptyPtr, _) => .ok .drop
    | .ok (.fresh newChild, deleted) => .ok (.replace newChild deleted)
    | .exc e => .exc e
    | .panic w => .panic w
  | _ :: cs, i + 1, shift, hash, k => withoutChild eq cs i shift hash k
end

/-! ### contents (the abstraction used by the theorems) -/

mutual
/-- All key/value pairs of a node in iteration order. -/
def Node.toAList : Node K V → List (K × V)
  | .bitmap _ entries => entriesToAList entries
  | .array _ children => childrenToAList children
  | .collision _ entries => entries
def entriesToAList : List (Entry K V) → List (K × V)
  | [] => []
  | .kv k v :: es => (k, v) :: entriesToAList es
  | .sub n :: es => n.toAList ++ entriesToAList es
def childrenToAList : List (Option (Node K V)) → List (K × V)
  | [] => []
  | none :: cs => childrenToAList cs
  | some n :: cs => n.toAList ++ childrenToAList cs
end

/-! ### iterators (the `HasElem / Elem / Next` protocol as a state machine) -/

/-- `bitmapNodeIterator{n, index, current}`, `arrayNodeIterator{n, index, current}`,
`collisionNodeIterator{n, index}`; only the fields of `n` the iterator reads. -/
inductive Iter (K V : Type) where
  | bitmapIt (entries : List (Entry K V)) (index : Nat) (current : Option (Iter K V))
  | arrayIt (children : List (Option (Node K V))) (index : Nat) (current : Option (Iter K V))
  | collIt (entries : List (K × V)) (index : Nat)

mutual
/-- `node.iterator()` -/
def Node.iterator : Node K V → Iter K V
  | .bitmap _ entries => .bitmapIt entries 0 (fixB entries 0)
  | .array _ children =>
    let (i, cur) := fixA children 0 0
    .arrayIt children i cur
  | .collision _ entries => .collIt entries 0
/-- `(*bitmapNodeIterator).fixCurrent` for `index = i`: the new `current`. -/
def fixB : List (Entry K V) → Nat → Option (Iter K V)
  | [], _ => none
  | .kv _ _ :: _, 0 => none
  | .sub child :: _, 0 => some child.iterator
  | _ :: es, i + 1 => fixB es i
/-- `(*arrayNodeIterator).fixCurrent`: drop `skip` children, then skip nil
children; returns the new `index` (`pos` counts positions passed) and `current`.
The end of the list is `index == nodeCap`. -/
def fixA : List (Option (Node K V)) → (skip pos : Nat) → Nat × Option (Iter K V)
  | [], _, pos => (pos, none)
  | _ :: cs, skip + 1, pos => fixA cs skip (pos + 1)
  | none :: cs, 0, pos => fixA cs 0 (pos + 1)
  | some child :: _, 0, pos => (pos, some child.iterator)
end

/-- `it.HasElem()` -/
def Iter.hasElem : Iter K V → Bool
  | .bitmapIt entries ix _ => ix < entries.length
  | .arrayIt _ _ current => current.isSome
  | .collIt entries ix => ix < entries.length

/-- `it.Elem()` -/
def Iter.elem : Iter K V → Res (K × V)
  | .bitmapIt entries ix current =>
    match current with
    | some c => c.elem
    | none =>
      match entries[ix]? with
      | none => .panic "ix out of range"
      | some (.kv k v) => .ok (k, v)
      | some (.sub _) => outside "Elem on a child entry"
  | .arrayIt _ _ current =>
    match current with
    | some c => c.elem
    | none => .panic "nil pointer dereference"
  | .collIt entries ix =>
    match entries[ix]? with
    | none => .panic "ix out of range"
    | some e => .ok e

/-- `it.Next()` -/
def Iter.next : Iter K V → Res (Iter K V)
  | .bitmapIt entries ix current =>
    match current with
    | some c =>
      match c.next with
      | .ok c' =>
        if !c'.hasElem then .ok (.bitmapIt entries (ix + 1) (fixB entries (ix + 1)))
        else .ok (.bitmapIt entries ix (some c'))
      | .exc e => .exc e
      | .panic w => .panic w
    | none => .ok (.bitmapIt entries (ix + 1) (fixB entries (ix + 1)))
  | .arrayIt children ix current =>
    match current with
    | some c =>
      match c.next with
      | .ok c' =>
        if !c'.hasElem then
          let (i, cur) := fixA children (ix + 1) 0
          .ok (.arrayIt children i cur)
        else .ok (.arrayIt children ix (some c'))
      | .exc e => .exc e
      | .panic w => .panic w
    | none => .panic "nil pointer dereference"
  | .collIt entries ix => .ok (.collIt entries (ix + 1))

/-- `for it := …; it.HasElem(); it.Next() { … it.Elem() … }` with a step budget. -/
def drain : Nat → Iter K V → Res (List (K × V))
  | 0, it => if it.hasElem then outOfFuel else .ok []
  | fuel + 1, it =>
    if it.hasElem then do
      let e ← it.elem
      let it' ← it.next
      let rest ← drain fuel it'
      pure (e :: rest)
    else .ok []

/-! ### hashMap -/

/-- `hashMap{count, root, nilV, equal, hash}` (the two functions are parameters). -/
structure HashMap (K V : Type) where
  count : Int
  root : Node K V
  nilV : Option V

/-- `New(e, h)` -/
def HashMap.new : HashMap K V := ⟨0, emptyBitmapNode, none⟩

/-- `Len` -/
def HashMap.len (m : HashMap K V) : Int := m.count

/-- `Index(k)`; the key `none` is Go's nil key. -/
def HashMap.index (eq : K → K → Bool) (hashf : K → UInt32) (m : HashMap K V) : Option K → Res (Option V)
  | none => .ok m.nilV
  | some k => m.root.find eq 0 (hashf k) k

/-- `Assoc(k, v)` -/
def HashMap.assoc (eq : K → K → Bool) (hashf : K → UInt32) (fuel : Nat) (m : HashMap K V) :
    Option K → V → Res (HashMap K V)
  | none, v => .ok ⟨if m.nilV.isNone then m.count + 1 else m.count, m.root, some v⟩
  | some k, v => do
    let (newRoot, added) ← C07.assoc eq hashf fuel m.root 0 (hashf k) k v
    pure ⟨if added then m.count + 1 else m.count, newRoot, m.nilV⟩

/-- `Dissoc(k)` -/
def HashMap.dissoc (eq : K → K → Bool) (hashf : K → UInt32) (m : HashMap K V) :
    Option K → Res (HashMap K V)
  | none => .ok ⟨if m.nilV.isSome then m.count - 1 else m.count, m.root, none⟩
  | some k => do
    let (r, deleted) ← m.root.without eq 0 (hashf k) k
    let newRoot := match r with
      | .same => m.root
      | .emptyPtr => emptyBitmapNode
      | .fresh n => n
    pure ⟨if deleted then m.count - 1 else m.count, newRoot, m.nilV⟩

/-- The sequence produced by `for it := m.Iterator(); it.HasElem(); it.Next()`:
`nilVIterator` yields the nil key first, then the root's iterator. -/
def HashMap.iterate (fuel : Nat) (m : HashMap K V) : Res (List (Option K × V)) := do
  let tail ← drain fuel m.root.iterator
  let tail := tail.map fun (k, v) => (some k, v)
  match m.nilV with
  | some v => pure ((none, v) :: tail)
  | none => pure tail

/-- Contents of the map (abstraction used by the theorems). -/
def HashMap.toAList (m : HashMap K V) : List (Option K × V) :=
  (match m.nilV with | some v => [(none, v)] | none => []) ++
    m.root.toAList.map fun (k, v) => (some k, v)

end C07
