import ElvModel.Go.Driver
import ElvModel.C07.Model
/-!
C07 driver.  Keys are `(id, class, hash)`; `Equal` compares classes, `Hash`
returns the `hash` field (the harness's Go `Equal`/`Hash` do the same).  Values
are natural numbers.

ops (tab separated):
  reset <mode> <k1,k2,…|->        → ok                 (version 0 := New(eq, hash); universe := keys)
  assoc <ver> <key|nil> <val>     → v<n> <map>         (new version n := versions[ver].Assoc)
  dissoc <ver> <key|nil>          → v<n> <map>
  index <ver> <key|nil>           → some <v> | none
  observe <ver>                   → <map> idx=<v|->,…  (Index of every universe key, then of nil)
  recheck                         → ok <number of versions>   (Go side: oracle re-observes every version)
<map> = len=<count> nil=<v|-> root=<shape> iter=<k=v,…|->
-/
namespace C07
open Go

structure Key where
  id : Nat
  cls : Nat
  h : UInt32

def keyEq (a b : Key) : Bool := a.cls == b.cls
def keyHash (a : Key) : UInt32 := a.h

def hex8 (u : UInt32) : String :=
  String.ofList ((List.range 8).map fun i => hexDigit ((u.toNat >>> (4 * (7 - i))) % 16))

def parseHex (s : String) : Option Nat :=
  s.toList.foldlM (fun acc c => (hexVal c).map (acc * 16 + ·)) 0

def Key.show (k : Key) : String := s!"{k.id}.{k.cls}.{hex8 k.h}"

def parseKey (s : String) : Option Key :=
  match s.splitOn "." with
  | [a, b, c] =>
    match a.toNat?, b.toNat?, parseHex c with
    | some id, some cls, some h => some ⟨id, cls, UInt32.ofNat h⟩
    | _, _, _ => none
  | _ => none

/-- `nil` or a key -/
def parseOptKey (s : String) : Option (Option Key) :=
  if s == "nil" then some none else (parseKey s).map some

def sepBy (sep : String) (l : List String) : String := sep.intercalate l

mutual
def Node.shape : Node Key Nat → String
  | .bitmap bm es => "B" ++ hex8 bm ++ "(" ++ sepBy " " (shapeEntries es) ++ ")"
  | .array n cs => "A" ++ toString n ++ "(" ++ sepBy " " (shapeChildren cs) ++ ")"
  | .collision h kvs => "C" ++ hex8 h ++ "(" ++ sepBy " " (kvs.map fun (k, v) => s!"{k.show}={v}") ++ ")"
def shapeEntries : List (Entry Key Nat) → List String
  | [] => []
  | .kv k v :: es => s!"{k.show}={v}" :: shapeEntries es
  | .sub n :: es => n.shape :: shapeEntries es
def shapeChildren : List (Option (Node Key Nat)) → List String
  | [] => []
  | none :: cs => "_" :: shapeChildren cs
  | some n :: cs => n.shape :: shapeChildren cs
end

def optKeyShow : Option Key → String
  | none => "nil"
  | some k => k.show

def fuelAssoc : Nat := 64
def fuelIter : Nat := 100000

def showOptV : Option Nat → String
  | none => "-"
  | some v => toString v

def showMap (m : HashMap Key Nat) (withIter : Bool) : String :=
  if !withIter then s!"len={m.len} nil={showOptV m.nilV} root={m.root.shape}" else
  let r : Res (List (Option Key × Nat)) := HashMap.iterate fuelIter m
  let it : String :=
    match r with
    | .ok l =>
      let body := if l.isEmpty then "-" else sepBy "," (l.map fun p => s!"{optKeyShow p.1}={p.2}")
      -- the abstraction the theorems speak about must be what the iterator yields
      if l.map (fun p => (optKeyShow p.1, p.2)) == m.toAList.map (fun p => (optKeyShow p.1, p.2)) then body
      else body ++ "!TOALIST-MISMATCH"
    | .exc e => e
    | .panic _ => "PANIC"
  s!"len={m.len} nil={showOptV m.nilV} root={m.root.shape} iter={it}"

structure St where
  versions : Array (HashMap Key Nat) := #[]
  univ : List Key := []

def showRes (r : Res (Option Nat)) : String :=
  match r with
  | .ok (some v) => s!"some {v}"
  | .ok none => "none"
  | .exc e => e
  | .panic _ => "PANIC"

def push (s : St) (src : HashMap Key Nat) (r : Res (HashMap Key Nat)) : St × String :=
  match r with
  | .ok m => ({ s with versions := s.versions.push m }, s!"v{s.versions.size} {showMap m false}")
  | .exc e => ({ s with versions := s.versions.push src }, e)
  | .panic _ => ({ s with versions := s.versions.push src }, "PANIC")

def step (s : St) : List String → St × String
  | ["reset", _, ks] =>
    let keys := if ks == "-" then some [] else (ks.splitOn ",").mapM parseKey
    match keys with
    | some u => ({ versions := #[HashMap.new], univ := u }, "ok")
    | none => (s, "bad-op")
  | ["assoc", sv, sk, sval] =>
    match sv.toNat?, parseOptKey sk, sval.toNat? with
    | some ver, some k, some val =>
      match s.versions[ver]? with
      | some m => push s m (m.assoc keyEq keyHash fuelAssoc k val)
      | none => (s, "bad-version")
    | _, _, _ => (s, "bad-op")
  | ["dissoc", sv, sk] =>
    match sv.toNat?, parseOptKey sk with
    | some ver, some k =>
      match s.versions[ver]? with
      | some m => push s m (m.dissoc keyEq keyHash k)
      | none => (s, "bad-version")
    | _, _ => (s, "bad-op")
  | ["index", sv, sk] =>
    match sv.toNat?, parseOptKey sk with
    | some ver, some k =>
      match s.versions[ver]? with
      | some m => (s, showRes (m.index keyEq keyHash k))
      | none => (s, "bad-version")
    | _, _ => (s, "bad-op")
  | ["recheck"] => (s, s!"ok {s.versions.size}")
  | ["observe", sv] =>
    match sv.toNat? with
    | some ver =>
      match s.versions[ver]? with
      | some m =>
        let idx := (s.univ.map some ++ [none]).map fun k =>
          match m.index keyEq keyHash k with
          | .ok (some v) => toString v
          | .ok none => "-"
          | .exc e => e
          | .panic _ => "PANIC"
        (s, s!"{showMap m true} idx={sepBy "," idx}")
      | none => (s, "bad-version")
    | none => (s, "bad-op")
  | _ => (s, "bad-op")

def driver : Driver := { σ := St, init := {}, step := step }
end C07
