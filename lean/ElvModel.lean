import ElvModel.C00.Driver
import ElvModel.C37.Driver
import ElvModel.C37.Model
import ElvModel.Go.Basic
import ElvModel.Go.Driver
import ElvModel.Go.Utf8
