import ElvModel.C37.Driver
import ElvModel.C37.Model
import ElvModel.Go.Basic
import ElvModel.Go.Driver
