#!/bin/bash
# tools/runall.sh [tier] — run every claimed check, one line of summary each.
cd "$(dirname "$0")/.."
TIER=${1:-quick}
for p in $(jq -r '.checks[].property_id' MANIFEST.json); do
  s=$(date +%s)
  out=$(./check $p --tier $TIER 2>&1); rc=$?
  echo "$p exit=$rc $(( $(date +%s) - s ))s :: $(echo "$out" | grep -E "^C[0-9]+:" | head -1)"
  if [ $rc != 0 ]; then echo "$out" | grep -E "BROKEN|failing input|VIOLATION" | cut -c1-400 | head -5; fi
  echo "$out" | grep "^KNOWN-FINDING" | cut -c1-160
done
