#!/bin/bash
# tools/applypatch.sh <patch> "<commit message>"  — apply a delivered patch to /repo as one commit,
# after checking the tree builds (tag on and off) and the full baseline suite passes (tag off).
# Packages that fail are re-run alone up to 3 times: pkg/edit, pkg/daemon, e2e have timing-
# sensitive TTY tests that flake when the machine is loaded.
P=$(readlink -f "$1"); MSG="$2"
export GOFLAGS=-mod=mod GOPROXY=off GOSUMDB=off GOTOOLCHAIN=local
cd /repo
git apply --check "$P" || exit 1
git apply "$P"
if ! go build ./... || ! go build -tags verif ./...; then echo "BUILD FAILS with $P"; git checkout -- .; git clean -fdq; exit 1; fi
go test -vet=off -count=1 ./... > /tmp/applypatch-test.log 2>&1
FAILED=$(grep -E "^FAIL\s+src.elv.sh" /tmp/applypatch-test.log | awk '{print $2}' | sort -u)
for pkg in $FAILED; do
  ok=0
  for i in 1 2 3; do
    if ELVISH_TEST_TIME_SCALE=$((10*i)) go test -vet=off -count=1 "$pkg" > /tmp/applypatch-retest.log 2>&1; then ok=1; break; fi
  done
  if [ $ok = 0 ]; then
    echo "BASELINE TESTS FAIL (3 retries) in $pkg with $P"; grep -E "^(FAIL|---)" /tmp/applypatch-retest.log | head -20
    git checkout -- . ; git clean -fdq; exit 1
  fi
  echo "note: $pkg failed in the loaded full run, passed when re-run alone"
done
git add -A && git commit -qm "$MSG" && git log --oneline | head -1
