#!/bin/bash
# tools/applypatch.sh <patch> "<commit message>"  — apply a delivered patch to /repo as one commit,
# after checking the tree builds and the full baseline suite passes (tag off).
set -e
P=$(readlink -f "$1"); MSG="$2"
export GOFLAGS=-mod=mod GOPROXY=off GOSUMDB=off GOTOOLCHAIN=local
cd /repo
git apply --check "$P"
git apply "$P"
go build ./... && go vet -tags verif ./pkg/... >/dev/null 2>&1 || true
go build -tags verif ./... 
if ! go test -vet=off -count=1 ./... > /tmp/applypatch-test.log 2>&1; then
  echo "BASELINE TESTS FAIL with $P"; grep -E "^(FAIL|---)" /tmp/applypatch-test.log | head -20
  git checkout -- . ; git clean -fdq; exit 1
fi
git add -A && git commit -qm "$MSG" && git log --oneline | head -1
