#!/usr/bin/env python3
"""Print a Markdown status table from evidence/*.json, props/*.json, known-findings.txt."""
import json, os, re, glob
ROOT = os.path.dirname(os.path.dirname(os.path.abspath(__file__)))
kf = open(os.path.join(ROOT, 'known-findings.txt')).read().splitlines()
rows = []
for l in open(os.path.join(ROOT, 'properties.jsonl')):
    if not l.strip():
        continue
    p = json.loads(l)
    pid = p['id']
    ev = os.path.join(ROOT, 'evidence', pid + '.json')
    if not os.path.exists(ev):
        rows.append(f'| {pid} | {p["title"]} | — | — | — | not built yet |')
        continue
    e = json.load(open(ev))
    c = e['coverage']
    fixed = sum(1 for x in kf if x.startswith('fixed: property=' + pid + ' '))
    find = [re.match(r'finding: property=\S+ class=(\S+)', x).group(1) for x in kf if x.startswith('finding: property=' + pid + ' ')]
    rows.append(f'| {pid} | {p["title"]} | {len(c.get("theorems", []))} | {c["discharged"]}/{c["obligations"]} | {c["evaluations"]} | fixed: {fixed}; findings: {", ".join(find) or "none"} |')
print('| id | property | theorems | obligations (quick) | ops (quick) | defects |')
print('|---|---|---|---|---|---|')
print('\n'.join(rows))
