#!/bin/bash
# tools/seedconf.sh <Cxx> <pkg> <demo-file-glob> <run-regex> "<test pkgs>" [go test tags] [extra check ids]
# Uses the adversary's own scratch worktree /tmp/adv-Cxx/repo: demo on clean tree, demo with the
# change, package tests with the change; then applies the change to /repo, runs ./check, undoes it.
P=$1; PKG=$2; DEMO=$3; RX=$4; TESTS=$5; TAGS=$6; EXTRA=$7
ADV=${ADVDIR:-/tmp/adv-$P}; R=$ADV/repo
export GOFLAGS=-mod=mod GOPROXY=off GOSUMDB=off GOTOOLCHAIN=local
echo "######## $P"
cp $ADV/demo/$DEMO $R/$PKG/
cd $R
echo "clean:"; go test $TAGS -count=1 -run "$RX" ./$PKG/ 2>&1 | tail -1
git apply $ADV/patch.diff; go build ./... && echo build-ok
echo "changed:"; go test $TAGS -count=1 -run "$RX" ./$PKG/ 2>&1 | grep -v "^FAIL$" | tail -3
(cd $ADV/demo && for f in $DEMO; do rm -f $R/$PKG/$f; done)
echo "tests:"; ELVISH_TEST_TIME_SCALE=10 go test -vet=off -count=1 $TESTS 2>&1 | grep -v "no test files" | tail -4
git checkout -- .
T=${TARGET:-/repo}; git -C $T apply $ADV/patch.diff
cd /verif
for q in $P $EXTRA; do VERIF_REPO=$T ./check $q 2>&1 | grep -E "^C[0-9]+:|failing input|VIOLATION|BROKEN" | cut -c1-420; done
git -C $T checkout -- .; git -C $T status --short | head -3
