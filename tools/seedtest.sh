#!/bin/bash
# tools/seedtest.sh <Cxx> <advdir> <pkg-for-demo> <demo-test-file> <run-regex> "<test pkgs>"
# Confirms a seeded change in a scratch worktree (demo passes clean, fails with the patch; the
# named package tests pass with the patch), then applies it to /repo, runs ./check Cxx, undoes it.
P=$1; ADV=$2; PKG=$3; DEMO=$4; RX=$5; TESTS=$6
export GOFLAGS=-mod=mod GOPROXY=off GOSUMDB=off GOTOOLCHAIN=local
SW=/tmp/sw-$P-$$
git -C /repo worktree add --detach $SW HEAD -q || exit 2
cd $SW
cp $ADV/demo/$DEMO $PKG/
echo "== demo on clean tree (expect PASS)"; go test -count=1 -run "$RX" ./$PKG/ 2>&1 | tail -3
git apply $ADV/patch.diff || { echo "patch does not apply"; }
echo "== build"; go build ./... && echo build-ok
echo "== demo with change (expect FAIL)"; go test -count=1 -run "$RX" ./$PKG/ 2>&1 | tail -6
rm -f $PKG/$DEMO
echo "== existing tests with change (expect PASS)"; go test -vet=off -count=1 $TESTS 2>&1 | grep -v "no test files" | tail -8
cd /; git -C /repo worktree remove --force $SW
echo "== check on /repo with change"
git -C /repo apply $ADV/patch.diff
cd /verif && ./check $P 2>&1 | grep -E "^C[0-9]+:|failing input|VIOLATION|BROKEN" | cut -c1-500
git -C /repo checkout -- .
git -C /repo status --short | head -3
