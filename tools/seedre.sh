#!/bin/bash
# tools/seedre.sh <seeded-name> [check ids…] — re-run checks against a saved seeded change
N=$1; shift; P=${N%%-*}
echo "######## re-test $N"
git -C /repo apply /verif/seeded/$N/patch.diff || exit 1
cd /verif
for q in ${@:-$P}; do ./check $q 2>&1 | grep -E "^C[0-9]+:|failing input|VIOLATION|BROKEN" | cut -c1-420; done
git -C /repo checkout -- .; git -C /repo status --short | head -3
