#!/usr/bin/env python3
"""Markdown table of seeded changes (seeded/*/meta.json) and which checks catch them."""
import json, os, glob
ROOT = os.path.dirname(os.path.dirname(os.path.abspath(__file__)))
print('| seeded change | breaks | needs, to manifest | verdict of the check(s) |')
print('|---|---|---|---|')
for d in sorted(glob.glob(os.path.join(ROOT, 'seeded', '*'))):
    m = json.load(open(os.path.join(d, 'meta.json')))
    c = m.get('confirmed_by_integrator', {})
    needs = (m.get('needs') or c.get('needs') or '').replace('|', '\\|').replace('\n', ' ')
    if len(needs) > 260:
        needs = needs[:257] + '…'
    chk = c.get('check', '').replace('|', '/')
    verdict = '**caught**' if c.get('caught') else '**MISSED**'
    print('| `%s` | %s | %s | %s: %s |' % (os.path.basename(d), m.get('property'), needs, verdict, chk))
