#!/bin/bash
# tools/seedconfm.sh <Cxx> "<test pkgs>" [extra check ids] — as seedconf.sh, for a demonstration that
# is its own Go module under $ADVDIR/demo (replace src.elv.sh => ../repo).
P=$1; TESTS=$2; EXTRA=$3
ADV=${ADVDIR:-/tmp/adv-$P}; R=$ADV/repo
export GOFLAGS=-mod=mod GOPROXY=off GOSUMDB=off GOTOOLCHAIN=local
echo "######## $P"
echo "clean:"; (cd $ADV/demo && go test -count=1 ./... 2>&1 | tail -1)
cd $R; git apply $ADV/patch.diff; go build ./... && echo build-ok
echo "changed:"; (cd $ADV/demo && go test -count=1 ./... 2>&1 | grep -v "^FAIL$" | tail -3)
echo "tests:"; ELVISH_TEST_TIME_SCALE=10 go test -vet=off -count=1 $TESTS 2>&1 | grep -v "no test files" | tail -4
git checkout -- .
T=${TARGET:-/repo}; git -C $T apply $ADV/patch.diff
cd /verif
for q in $P $EXTRA; do VERIF_REPO=$T ./check $q 2>&1 | grep -E "^C[0-9]+:|failing input|VIOLATION|BROKEN" | cut -c1-420; done
git -C $T checkout -- .; git -C $T status --short | head -3
