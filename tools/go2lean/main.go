// Command go2lean re-emits small pieces of Go source — integer constants,
// literal tables and straight-line leaf functions — as Lean 4 definitions,
// so that theorems are re-checked against what the code says *now*.
//
//	go2lean -repo /repo -spec specs/X.json -o X.lean
//
// It is purely syntactic (go/parser + go/ast) and deliberately tiny; anything
// outside its subset is a loud error (exit 1), never a silent default.
//
// Subset.  Types: int, int64, rune, byte, uint8 (→ Int, unbounded: overflow
// is NOT modelled; use only where values stay small or the consumer proves
// bounds), uint32 (→ UInt32, wrap-around exact), uint64 (→ UInt64), bool.
// Statements: return, if/else, switch (tag or tagless, no fallthrough),
// :=, =, op=, ++/--.  No loops.  Expressions: literals, identifiers, unary
// ! - ^, binary arithmetic/bitwise/comparison/logical, parens, conversions
// between the integer types, calls to functions of the same spec or to
// declared externs (which become leading function parameters).
package main

import (
	"encoding/json"
	"flag"
	"fmt"
	"go/ast"
	"go/parser"
	"go/token"
	"os"
	"path/filepath"
	"sort"
	"strconv"
	"strings"
)

type Item struct {
	Kind string `json:"kind"` // func | const | table | var
	File string `json:"file"`
	Name string `json:"name"`
	As   string `json:"as"`   // Lean name (default: Name)
	Type string `json:"type"` // const/var: Lean type override (Nat, Int, UInt32 …)
}

type Extern struct {
	Go   string `json:"go"`   // e.g. "unicode.IsPrint"
	Lean string `json:"lean"` // parameter name, e.g. "isPrint"
	Type string `json:"type"` // Lean type, e.g. "Int → Bool"
	Ret  string `json:"ret"`  // kind of result: int|bool|u32
}

type Spec struct {
	Module  string   `json:"module"`
	Doc     string   `json:"doc"`
	Externs []Extern `json:"externs"`
	Items   []Item   `json:"items"`
	// Types maps named Go types to a base type of the subset, e.g. {"ExprCtx": "int"}.
	Types map[string]string `json:"types"`
}

var typeAlias = map[string]string{}

var fset = token.NewFileSet()

func die(pos token.Pos, format string, a ...any) {
	p := ""
	if pos.IsValid() {
		p = fset.Position(pos).String() + ": "
	}
	fmt.Fprintf(os.Stderr, "go2lean: %s%s\n", p, fmt.Sprintf(format, a...))
	os.Exit(1)
}

type kind int

const (
	kInt kind = iota
	kU32
	kU64
	kBool
	kUntyped // untyped integer constant: adapts to context
	kErr     // Go error: `nil` ↦ none, anything else ↦ some "<constructor name>"
)

func (k kind) lean() string {
	switch k {
	case kU32:
		return "UInt32"
	case kU64:
		return "UInt64"
	case kBool:
		return "Bool"
	case kErr:
		return "Option String"
	}
	return "Int"
}

func typeKind(e ast.Expr) kind {
	id, ok := e.(*ast.Ident)
	if !ok {
		die(e.Pos(), "unsupported type expression")
	}
	name := id.Name
	if a, ok := typeAlias[name]; ok {
		name = a
	}
	switch name {
	case "int", "int64", "int32", "rune", "byte", "uint8", "int8", "int16", "uint16", "uint":
		return kInt
	case "error":
		return kErr
	case "uint32":
		return kU32
	case "uint64":
		return kU64
	case "bool":
		return kBool
	}
	die(e.Pos(), "unsupported type %s", id.Name)
	return kInt
}

type tr struct {
	spec       *Spec
	funcs      map[string]*ast.FuncDecl // translated functions by Go name
	fnKind     map[string]kind          // result kinds
	uses       map[string]map[string]bool
	consts     map[string]string // Go const name -> Lean name
	cKind      map[string]kind
	externs    map[string]Extern
	leanOf     map[string]string
	curResults []kind
	fnResults  map[string][]kind
}

type env map[string]kind

func (t *tr) externsUsed(fn string, seen map[string]bool) []string {
	if seen[fn] {
		return nil
	}
	seen[fn] = true
	set := map[string]bool{}
	for u := range t.uses[fn] {
		if _, ok := t.externs[u]; ok {
			set[u] = true
		} else if _, ok := t.funcs[u]; ok {
			for _, e := range t.externsUsed(u, seen) {
				set[e] = true
			}
		}
	}
	var out []string
	for _, e := range t.spec.Externs {
		if set[e.Go] {
			out = append(out, e.Go)
		}
	}
	return out
}

func callName(e ast.Expr) string {
	switch f := e.(type) {
	case *ast.Ident:
		return f.Name
	case *ast.SelectorExpr:
		if x, ok := f.X.(*ast.Ident); ok {
			return x.Name + "." + f.Sel.Name
		}
	}
	return ""
}

func charVal(lit *ast.BasicLit) int64 {
	s, err := strconv.Unquote(lit.Value)
	if err != nil {
		die(lit.Pos(), "bad char literal %s", lit.Value)
	}
	r := []rune(s)
	if len(r) != 1 {
		// a single invalid byte like '\xff' unquotes to one byte
		if len(s) == 1 {
			return int64(s[0])
		}
		die(lit.Pos(), "bad char literal %s", lit.Value)
	}
	return int64(r[0])
}

func intLit(lit *ast.BasicLit) string {
	switch lit.Kind {
	case token.INT:
		v, err := strconv.ParseInt(strings.ReplaceAll(lit.Value, "_", ""), 0, 64)
		if err != nil {
			u, err2 := strconv.ParseUint(strings.ReplaceAll(lit.Value, "_", ""), 0, 64)
			if err2 != nil {
				die(lit.Pos(), "bad int literal %s", lit.Value)
			}
			return strconv.FormatUint(u, 10)
		}
		return strconv.FormatInt(v, 10)
	case token.CHAR:
		return strconv.FormatInt(charVal(lit), 10)
	}
	die(lit.Pos(), "unsupported literal %s", lit.Value)
	return ""
}

// coerce renders an untyped literal at kind k.
func lit(s string, k kind) string {
	switch k {
	case kU32:
		return "(" + s + " : UInt32)"
	case kU64:
		return "(" + s + " : UInt64)"
	}
	return "(" + s + " : Int)"
}

// expr translates e; want is the kind expected by context (for untyped constants).
func (t *tr) expr(e ast.Expr, en env, want kind) (string, kind) {
	switch x := e.(type) {
	case *ast.ParenExpr:
		return t.expr(x.X, en, want)
	case *ast.BasicLit:
		if want == kBool {
			die(x.Pos(), "literal where bool expected")
		}
		k := want
		if k == kUntyped {
			k = kInt
		}
		return lit(intLit(x), k), k
	case *ast.Ident:
		switch x.Name {
		case "true":
			return "true", kBool
		case "false":
			return "false", kBool
		}
		if k, ok := en[x.Name]; ok {
			return x.Name, k
		}
		if ln, ok := t.consts[x.Name]; ok {
			k := t.cKind[x.Name]
			if k == kUntyped {
				// untyped constant: a Nat in Lean, cast to the context
				kk := want
				if kk == kUntyped || kk == kBool {
					kk = kInt
				}
				switch kk {
				case kU32:
					return "(UInt32.ofNat " + ln + ")", kU32
				case kU64:
					return "(UInt64.ofNat " + ln + ")", kU64
				}
				return "(" + ln + " : Int)", kInt
			}
			return ln, k
		}
		die(x.Pos(), "unknown identifier %s (add it to the spec)", x.Name)
	case *ast.UnaryExpr:
		switch x.Op {
		case token.NOT:
			s, _ := t.expr(x.X, en, kBool)
			return "(!" + s + ")", kBool
		case token.SUB:
			s, k := t.expr(x.X, en, want)
			return "(-" + s + ")", k
		case token.XOR:
			s, k := t.expr(x.X, en, want)
			if k == kInt {
				return "(-" + s + " - 1)", k
			}
			return "(~~~" + s + ")", k
		}
		die(x.Pos(), "unsupported unary operator %s", x.Op)
	case *ast.BinaryExpr:
		return t.binary(x, en, want)
	case *ast.CallExpr:
		name := callName(x.Fun)
		// conversions
		if id, ok := x.Fun.(*ast.Ident); ok && len(x.Args) == 1 {
			switch id.Name {
			case "int", "int64", "int32", "rune", "byte", "uint8", "uint32", "uint64", "uint":
				to := typeKind(id)
				s, from := t.expr(x.Args[0], en, kUntyped)
				if id.Name == "byte" || id.Name == "uint8" {
					if from != kInt {
						s = "(" + s + ".toNat : Int)"
					}
					return "(" + s + " % 256)", kInt
				}
				return convert(s, from, to), to
			}
		}
		if fd, ok := t.funcs[name]; ok {
			var args []string
			for _, ext := range t.externsUsed(name, map[string]bool{}) {
				args = append(args, t.externs[ext].Lean)
			}
			i := 0
			for _, fld := range fd.Type.Params.List {
				k := typeKind(fld.Type)
				for range fld.Names {
					s, ak := t.expr(x.Args[i], en, k)
					if ak != k {
						die(x.Args[i].Pos(), "argument kind mismatch in call to %s", name)
					}
					args = append(args, s)
					i++
				}
			}
			return "(" + t.leanOf[name] + " " + strings.Join(args, " ") + ")", t.fnKind[name]
		}
		if ext, ok := t.externs[name]; ok {
			var args []string
			for _, a := range x.Args {
				s, _ := t.expr(a, en, kInt)
				args = append(args, s)
			}
			rk := kBool
			switch ext.Ret {
			case "int":
				rk = kInt
			case "u32":
				rk = kU32
			}
			return "(" + ext.Lean + " " + strings.Join(args, " ") + ")", rk
		}
		die(x.Pos(), "call to %s: not in the spec and not a declared extern", name)
	}
	die(e.Pos(), "unsupported expression %T", e)
	return "", kInt
}

func convert(s string, from, to kind) string {
	if from == to {
		return s
	}
	switch {
	case to == kInt && (from == kU32 || from == kU64):
		return "(" + s + ".toNat : Int)"
	case to == kU32 && from == kInt:
		return "(UInt32.ofInt " + s + ")"
	case to == kU64 && from == kInt:
		return "(UInt64.ofInt " + s + ")"
	case to == kU32 && from == kU64:
		return "(" + s + ".toUInt32)"
	case to == kU64 && from == kU32:
		return "(" + s + ".toUInt64)"
	}
	fmt.Fprintf(os.Stderr, "go2lean: unsupported conversion %v -> %v\n", from, to)
	os.Exit(1)
	return ""
}

func isUntypedConstExpr(e ast.Expr, t *tr, en env) bool {
	switch x := e.(type) {
	case *ast.BasicLit:
		return true
	case *ast.ParenExpr:
		return isUntypedConstExpr(x.X, t, en)
	case *ast.Ident:
		if _, ok := en[x.Name]; ok {
			return false
		}
		_, ok := t.consts[x.Name]
		return ok && t.cKind[x.Name] == kUntyped
	case *ast.BinaryExpr:
		return isUntypedConstExpr(x.X, t, en) && isUntypedConstExpr(x.Y, t, en)
	case *ast.UnaryExpr:
		return isUntypedConstExpr(x.X, t, en)
	}
	return false
}

func (t *tr) binary(x *ast.BinaryExpr, en env, want kind) (string, kind) {
	switch x.Op {
	case token.LAND, token.LOR:
		a, _ := t.expr(x.X, en, kBool)
		b, _ := t.expr(x.Y, en, kBool)
		op := "&&"
		if x.Op == token.LOR {
			op = "||"
		}
		return "(" + a + " " + op + " " + b + ")", kBool
	}
	cmp := map[token.Token]string{token.EQL: "==", token.NEQ: "!=", token.LSS: "<", token.LEQ: "≤", token.GTR: ">", token.GEQ: "≥"}
	// operand kinds: decide from the typed side
	opWant := want
	if _, isCmp := cmp[x.Op]; isCmp {
		opWant = kUntyped
	}
	var a, b string
	var ka, kb kind
	if x.Op == token.SHL || x.Op == token.SHR {
		a, ka = t.expr(x.X, en, opWant)
		if bl, ok := x.Y.(*ast.BasicLit); ok && bl.Kind == token.INT {
			// literal shift count
			cnt, _ := strconv.Atoi(intLit(bl))
			op := "<<<"
			if x.Op == token.SHR {
				op = ">>>"
			}
			width := map[kind]int{kU32: 32, kU64: 64}[ka]
			switch {
			case ka == kInt:
				return "(" + a + " " + op + " " + strconv.Itoa(cnt) + ")", kInt
			case cnt < width:
				return "(" + a + " " + op + " " + strconv.Itoa(cnt) + ")", ka
			default:
				return "(0 : " + ka.lean() + ")", ka
			}
		}
		b, kb = t.expr(x.Y, en, kUntyped)
		var n string
		switch kb {
		case kInt:
			n = b + ".toNat"
		default:
			n = b + ".toNat"
		}
		op := "<<<"
		if x.Op == token.SHR {
			op = ">>>"
		}
		switch ka {
		case kInt:
			return "(" + a + " " + op + " " + n + ")", kInt
		case kU32:
			// Go: shift count ≥ 32 yields 0; Lean's UInt32 shift reduces mod 32
			return "(if " + n + " < 32 then " + a + " " + op + " (UInt32.ofNat " + n + ") else 0)", kU32
		case kU64:
			return "(if " + n + " < 64 then " + a + " " + op + " (UInt64.ofNat " + n + ") else 0)", kU64
		}
	}
	if isUntypedConstExpr(x.X, t, en) && !isUntypedConstExpr(x.Y, t, en) {
		b, kb = t.expr(x.Y, en, opWant)
		a, ka = t.expr(x.X, en, kb)
	} else {
		a, ka = t.expr(x.X, en, opWant)
		b, kb = t.expr(x.Y, en, ka)
	}
	if ka != kb {
		die(x.Pos(), "operand kinds differ (%v vs %v)", ka, kb)
	}
	if op, ok := cmp[x.Op]; ok {
		if op == "==" || op == "!=" {
			return "(" + a + " " + op + " " + b + ")", kBool
		}
		return "(decide (" + a + " " + op + " " + b + "))", kBool
	}
	var op string
	switch x.Op {
	case token.ADD:
		op = "+"
	case token.SUB:
		op = "-"
	case token.MUL:
		op = "*"
	case token.QUO:
		if ka == kInt {
			return "(Int.tdiv " + a + " " + b + ")", ka
		}
		op = "/"
	case token.REM:
		if ka == kInt {
			return "(Int.tmod " + a + " " + b + ")", ka
		}
		op = "%"
	case token.AND:
		op = "&&&"
	case token.OR:
		op = "|||"
	case token.XOR:
		op = "^^^"
	case token.AND_NOT:
		if ka == kInt {
			die(x.Pos(), "&^ on Int unsupported")
		}
		return "(" + a + " &&& ~~~" + b + ")", ka
	default:
		die(x.Pos(), "unsupported binary operator %s", x.Op)
	}
	if ka == kInt && (op == "&&&" || op == "|||" || op == "^^^") {
		// only for non-negative operands; emitted over Nat and cast back
		natop := map[string]string{"&&&": "Nat.land", "|||": "Nat.lor", "^^^": "Nat.xor"}[op]
		return "((" + natop + " " + a + ".toNat " + b + ".toNat : Nat) : Int)", kInt
	}
	return "(" + a + " " + op + " " + b + ")", ka
}

// block translates a statement list into one Lean expression of kind ret.
func (t *tr) block(stmts []ast.Stmt, en env, ret kind, ind string) string {
	if len(stmts) == 0 {
		die(token.NoPos, "function may fall off its end (missing return)")
	}
	s, rest := stmts[0], stmts[1:]
	copyEnv := func() env {
		c := env{}
		for k, v := range en {
			c[k] = v
		}
		return c
	}
	switch x := s.(type) {
	case *ast.ReturnStmt:
		if len(x.Results) != 1 {
			if len(x.Results) != len(t.curResults) {
				die(x.Pos(), "return arity mismatch")
			}
			var parts []string
			for i, r := range x.Results {
				k := t.curResults[i]
				if k == kErr {
					if id, ok := r.(*ast.Ident); ok && id.Name == "nil" {
						parts = append(parts, "none")
					} else if c, ok := r.(*ast.CallExpr); ok {
						parts = append(parts, "(some "+leanString(callName(c.Fun))+")")
					} else if nm := callName(r); nm != "" {
						parts = append(parts, "(some "+leanString(nm)+")")
					} else {
						die(r.Pos(), "unsupported error value")
					}
					continue
				}
				e, ek := t.expr(r, en, k)
				if ek != k {
					die(r.Pos(), "return kind mismatch")
				}
				parts = append(parts, e)
			}
			return "(" + strings.Join(parts, ", ") + ")"
		}
		e, k := t.expr(x.Results[0], en, ret)
		if k != ret {
			die(x.Pos(), "return kind mismatch")
		}
		return e
	case *ast.BlockStmt:
		return t.block(append(append([]ast.Stmt{}, x.List...), rest...), en, ret, ind)
	case *ast.IfStmt:
		if x.Init != nil {
			return t.block(append([]ast.Stmt{x.Init, &ast.IfStmt{Cond: x.Cond, Body: x.Body, Else: x.Else, If: x.If}}, rest...), en, ret, ind)
		}
		c, _ := t.expr(x.Cond, en, kBool)
		thenS := append(append([]ast.Stmt{}, x.Body.List...), rest...)
		var elseS []ast.Stmt
		if x.Else != nil {
			elseS = append([]ast.Stmt{x.Else}, rest...)
		} else {
			elseS = rest
		}
		if assigns(x.Body.List) || (x.Else != nil && assignsStmt(x.Else)) {
			// assignments inside branches flow into `rest` by duplication of rest (already done)
		}
		return "if " + c + " then\n" + ind + "  " + t.block(thenS, copyEnv(), ret, ind+"  ") +
			"\n" + ind + "else\n" + ind + "  " + t.block(elseS, copyEnv(), ret, ind+"  ")
	case *ast.SwitchStmt:
		if x.Init != nil {
			return t.block(append([]ast.Stmt{x.Init, &ast.SwitchStmt{Tag: x.Tag, Body: x.Body, Switch: x.Switch}}, rest...), en, ret, ind)
		}
		var tag string
		var tk kind
		if x.Tag != nil {
			tag, tk = t.expr(x.Tag, en, kUntyped)
		}
		var deflt []ast.Stmt
		hasDefault := false
		type arm struct {
			cond string
			body []ast.Stmt
		}
		var arms []arm
		for _, cc := range x.Body.List {
			cl := cc.(*ast.CaseClause)
			for _, st := range cl.Body {
				if br, ok := st.(*ast.BranchStmt); ok && br.Tok == token.FALLTHROUGH {
					die(br.Pos(), "fallthrough unsupported")
				}
			}
			if cl.List == nil {
				hasDefault = true
				deflt = cl.Body
				continue
			}
			var conds []string
			for _, ce := range cl.List {
				if x.Tag != nil {
					v, vk := t.expr(ce, en, tk)
					if vk != tk {
						die(ce.Pos(), "case kind mismatch")
					}
					conds = append(conds, "("+tag+" == "+v+")")
				} else {
					v, _ := t.expr(ce, en, kBool)
					conds = append(conds, v)
				}
			}
			arms = append(arms, arm{strings.Join(conds, " || "), cl.Body})
		}
		_ = hasDefault
		out := ""
		for _, a := range arms {
			body := append(append([]ast.Stmt{}, a.body...), rest...)
			out += "if " + a.cond + " then\n" + ind + "  " + t.block(body, copyEnv(), ret, ind+"  ") + "\n" + ind + "else "
		}
		out += "\n" + ind + "  " + t.block(append(append([]ast.Stmt{}, deflt...), rest...), copyEnv(), ret, ind+"  ")
		return out
	case *ast.AssignStmt:
		if len(x.Lhs) != 1 || len(x.Rhs) != 1 {
			die(x.Pos(), "only single assignments are supported")
		}
		id, ok := x.Lhs[0].(*ast.Ident)
		if !ok {
			die(x.Pos(), "assignment to non-identifier")
		}
		var rhs string
		var k kind
		switch x.Tok {
		case token.DEFINE:
			rhs, k = t.expr(x.Rhs[0], en, kUntyped)
		case token.ASSIGN:
			rhs, k = t.expr(x.Rhs[0], en, en[id.Name])
		default:
			opTok := map[token.Token]token.Token{token.ADD_ASSIGN: token.ADD, token.SUB_ASSIGN: token.SUB, token.MUL_ASSIGN: token.MUL,
				token.OR_ASSIGN: token.OR, token.AND_ASSIGN: token.AND, token.XOR_ASSIGN: token.XOR, token.SHL_ASSIGN: token.SHL, token.SHR_ASSIGN: token.SHR,
				token.QUO_ASSIGN: token.QUO, token.REM_ASSIGN: token.REM}[x.Tok]
			if opTok == 0 {
				die(x.Pos(), "unsupported assignment operator")
			}
			rhs, k = t.expr(&ast.BinaryExpr{X: id, Op: opTok, Y: x.Rhs[0], OpPos: x.Pos()}, en, en[id.Name])
		}
		ne := copyEnv()
		ne[id.Name] = k
		return "let " + id.Name + " : " + k.lean() + " := " + rhs + "\n" + ind + t.block(rest, ne, ret, ind)
	case *ast.IncDecStmt:
		id := x.X.(*ast.Ident)
		op := token.ADD
		if x.Tok == token.DEC {
			op = token.SUB
		}
		rhs, k := t.expr(&ast.BinaryExpr{X: id, Op: op, Y: &ast.BasicLit{Kind: token.INT, Value: "1"}}, en, en[id.Name])
		return "let " + id.Name + " : " + k.lean() + " := " + rhs + "\n" + ind + t.block(rest, en, ret, ind)
	case *ast.DeclStmt:
		gd := x.Decl.(*ast.GenDecl)
		if gd.Tok == token.VAR && len(gd.Specs) == 1 {
			vs := gd.Specs[0].(*ast.ValueSpec)
			if len(vs.Names) == 1 && vs.Type != nil && len(vs.Values) == 0 {
				k := typeKind(vs.Type)
				ne := copyEnv()
				ne[vs.Names[0].Name] = k
				zero := "0"
				if k == kBool {
					zero = "false"
				}
				return "let " + vs.Names[0].Name + " : " + k.lean() + " := " + zero + "\n" + ind + t.block(rest, ne, ret, ind)
			}
		}
		die(x.Pos(), "unsupported declaration")
	}
	die(s.Pos(), "unsupported statement %T (loops and side effects are outside the subset)", s)
	return ""
}

func assigns(l []ast.Stmt) bool {
	for _, s := range l {
		if assignsStmt(s) {
			return true
		}
	}
	return false
}
func assignsStmt(s ast.Stmt) bool {
	found := false
	ast.Inspect(s, func(n ast.Node) bool {
		switch n.(type) {
		case *ast.AssignStmt, *ast.IncDecStmt:
			found = true
		}
		return !found
	})
	return found
}

// ---- tables -----------------------------------------------------------------

func (t *tr) tableValue(e ast.Expr, typ ast.Expr) string {
	switch x := e.(type) {
	case *ast.BasicLit:
		if x.Kind == token.STRING {
			s, err := strconv.Unquote(x.Value)
			if err != nil {
				die(x.Pos(), "bad string literal")
			}
			return leanString(s)
		}
		return intLit(x)
	case *ast.UnaryExpr:
		if x.Op == token.SUB {
			return "(-" + t.tableValue(x.X, nil) + ")"
		}
	case *ast.Ident:
		if x.Name == "true" || x.Name == "false" {
			return x.Name
		}
		if ln, ok := t.consts[x.Name]; ok {
			return ln
		}
		return leanString(x.Name) // symbolic name (e.g. an enum constant): kept as a string
	case *ast.SelectorExpr:
		return leanString(callName(x))
	case *ast.CallExpr:
		// constructor-like call F(a, b) ⇒ ("F", a, b)
		parts := []string{leanString(callName(x.Fun))}
		for _, a := range x.Args {
			parts = append(parts, t.tableValue(a, nil))
		}
		return "(" + strings.Join(parts, ", ") + ")"
	case *ast.CompositeLit:
		ty := x.Type
		if ty == nil {
			ty = typ
		}
		var elt ast.Expr
		isList := false
		switch tt := ty.(type) {
		case *ast.ArrayType:
			isList, elt = true, tt.Elt
		case *ast.MapType:
			isList, elt = true, tt.Value
		}
		var parts []string
		for _, el := range x.Elts {
			if kv, ok := el.(*ast.KeyValueExpr); ok {
				if isList {
					parts = append(parts, "("+t.tableValue(kv.Key, nil)+", "+t.tableValue(kv.Value, elt)+")")
				} else { // struct field: value only, in source order
					parts = append(parts, t.tableValue(kv.Value, nil))
				}
			} else {
				parts = append(parts, t.tableValue(el, elt))
			}
		}
		if isList {
			return "[" + strings.Join(parts, ", ") + "]"
		}
		if len(parts) == 1 {
			return parts[0]
		}
		return "(" + strings.Join(parts, ", ") + ")"
	}
	die(e.Pos(), "unsupported table element %T", e)
	return ""
}

func leanString(s string) string {
	var sb strings.Builder
	sb.WriteByte('"')
	for _, b := range []byte(s) {
		switch {
		case b == '"':
			sb.WriteString("\\\"")
		case b == '\\':
			sb.WriteString("\\\\")
		case b >= 0x20 && b < 0x7f:
			sb.WriteByte(b)
		default:
			fmt.Fprintf(&sb, "\\x%02x", b)
		}
	}
	sb.WriteByte('"')
	return sb.String()
}

// constant expression evaluation (integers only)
func (t *tr) constVal(e ast.Expr, vals map[string]int64, iota int64) int64 {
	switch x := e.(type) {
	case *ast.BasicLit:
		v, err := strconv.ParseInt(intLit(x), 10, 64)
		if err != nil {
			die(x.Pos(), "constant too large")
		}
		return v
	case *ast.ParenExpr:
		return t.constVal(x.X, vals, iota)
	case *ast.Ident:
		if x.Name == "iota" {
			return iota
		}
		if v, ok := vals[x.Name]; ok {
			return v
		}
		die(x.Pos(), "constant %s not known (list it earlier in the spec)", x.Name)
	case *ast.UnaryExpr:
		v := t.constVal(x.X, vals, iota)
		switch x.Op {
		case token.SUB:
			return -v
		case token.XOR:
			return ^v
		}
	case *ast.BinaryExpr:
		a, b := t.constVal(x.X, vals, iota), t.constVal(x.Y, vals, iota)
		switch x.Op {
		case token.ADD:
			return a + b
		case token.SUB:
			return a - b
		case token.MUL:
			return a * b
		case token.QUO:
			return a / b
		case token.REM:
			return a % b
		case token.SHL:
			return a << uint(b)
		case token.SHR:
			return a >> uint(b)
		case token.AND:
			return a & b
		case token.OR:
			return a | b
		case token.XOR:
			return a ^ b
		}
	case *ast.CallExpr:
		if len(x.Args) == 1 {
			return t.constVal(x.Args[0], vals, iota)
		}
	}
	die(e.Pos(), "unsupported constant expression")
	return 0
}

func main() {
	repo := flag.String("repo", "/repo", "repository root")
	specPath := flag.String("spec", "", "spec json")
	out := flag.String("o", "", "output .lean")
	flag.Parse()
	data, err := os.ReadFile(*specPath)
	if err != nil {
		die(token.NoPos, "%v", err)
	}
	var spec Spec
	if err := json.Unmarshal(data, &spec); err != nil {
		die(token.NoPos, "spec: %v", err)
	}
	files := map[string]*ast.File{}
	parse := func(rel string) *ast.File {
		if f, ok := files[rel]; ok {
			return f
		}
		f, err := parser.ParseFile(fset, filepath.Join(*repo, rel), nil, parser.SkipObjectResolution)
		if err != nil {
			die(token.NoPos, "%v", err)
		}
		files[rel] = f
		return f
	}
	t := &tr{spec: &spec, funcs: map[string]*ast.FuncDecl{}, fnKind: map[string]kind{}, uses: map[string]map[string]bool{},
		fnResults: map[string][]kind{}, consts: map[string]string{}, cKind: map[string]kind{}, externs: map[string]Extern{}, leanOf: map[string]string{}}
	for _, e := range spec.Externs {
		t.externs[e.Go] = e
	}
	for k, v := range spec.Types {
		typeAlias[k] = v
	}
	constVals := map[string]int64{}
	var sb strings.Builder
	fmt.Fprintf(&sb, "/- GENERATED by tools/go2lean from the Go source; DO NOT EDIT.\n   %s\n   spec: %s -/\n", spec.Doc, filepath.Base(*specPath))
	fmt.Fprintf(&sb, "namespace Gen.%s\n\n", spec.Module)
	// first pass: locate functions
	for _, it := range spec.Items {
		if it.Kind != "func" {
			continue
		}
		f := parse(it.File)
		var found *ast.FuncDecl
		for _, d := range f.Decls {
			if fd, ok := d.(*ast.FuncDecl); ok && fd.Recv == nil && fd.Name.Name == it.Name {
				found = fd
			}
		}
		if found == nil {
			die(token.NoPos, "%s: function %s not found", it.File, it.Name)
		}
		if found.Type.Results == nil {
			die(found.Pos(), "%s must have a result", it.Name)
		}
		var rks []kind
		for _, r := range found.Type.Results.List {
			n := len(r.Names)
			if n == 0 {
				n = 1
			}
			for i := 0; i < n; i++ {
				rks = append(rks, typeKind(r.Type))
			}
		}
		t.funcs[it.Name] = found
		t.fnKind[it.Name] = rks[0]
		t.fnResults[it.Name] = rks
		ln := it.As
		if ln == "" {
			ln = it.Name
		}
		t.leanOf[it.Name] = ln
		u := map[string]bool{}
		ast.Inspect(found.Body, func(n ast.Node) bool {
			if c, ok := n.(*ast.CallExpr); ok {
				if nm := callName(c.Fun); nm != "" {
					u[nm] = true
				}
			}
			return true
		})
		t.uses[it.Name] = u
	}
	for _, it := range spec.Items {
		f := parse(it.File)
		ln := it.As
		if ln == "" {
			ln = it.Name
		}
		switch it.Kind {
		case "const":
			found := false
			for _, d := range f.Decls {
				gd, ok := d.(*ast.GenDecl)
				if !ok || gd.Tok != token.CONST {
					continue
				}
				var lastExpr ast.Expr
				var lastType ast.Expr
				for i, sp := range gd.Specs {
					vs := sp.(*ast.ValueSpec)
					if len(vs.Values) > 0 {
						lastExpr = vs.Values[0]
						lastType = vs.Type
					}
					for _, nm := range vs.Names {
						if lastExpr == nil {
							continue
						}
						// evaluate every constant of the group so later ones can refer to earlier ones
						func() {
							defer func() { recover() }()
							if _, isBasic := lastExpr.(*ast.BasicLit); isBasic && lastExpr.(*ast.BasicLit).Kind == token.STRING {
								return
							}
							if nm.Name != it.Name {
								// best effort, ignore failures for unrelated constants
								old := os.Stderr
								_ = old
							}
						}()
						if nm.Name == it.Name {
							found = true
							if bl, ok := lastExpr.(*ast.BasicLit); ok && bl.Kind == token.STRING {
								s, _ := strconv.Unquote(bl.Value)
								fmt.Fprintf(&sb, "/-- %s:%s -/\ndef %s : String := %s\n\n", it.File, it.Name, ln, leanString(s))
								continue
							}
							v := t.constVal(lastExpr, constVals, int64(i))
							constVals[it.Name] = v
							ty := it.Type
							k := kUntyped
							if lastType != nil {
								k = typeKind(lastType)
							}
							if ty == "" {
								switch k {
								case kUntyped:
									ty = "Nat"
									if v < 0 {
										ty, k = "Int", kInt
									}
								default:
									ty = k.lean()
								}
							} else if ty == "Int" {
								k = kInt
							}
							t.consts[it.Name] = ln
							t.cKind[it.Name] = k
							fmt.Fprintf(&sb, "/-- %s:%s -/\ndef %s : %s := %d\n\n", it.File, it.Name, ln, ty, v)
						}
					}
				}
			}
			if !found {
				die(token.NoPos, "%s: constant %s not found", it.File, it.Name)
			}
		case "table", "var":
			found := false
			for _, d := range f.Decls {
				gd, ok := d.(*ast.GenDecl)
				if !ok || gd.Tok != token.VAR {
					continue
				}
				for _, sp := range gd.Specs {
					vs := sp.(*ast.ValueSpec)
					for i, nm := range vs.Names {
						if nm.Name != it.Name || i >= len(vs.Values) {
							continue
						}
						found = true
						ty := it.Type
						val := t.tableValue(vs.Values[i], vs.Type)
						if ty == "" {
							die(vs.Pos(), "table %s needs a \"type\" (Lean type) in the spec", it.Name)
						}
						fmt.Fprintf(&sb, "/-- %s:%s -/\ndef %s : %s :=\n  %s\n\n", it.File, it.Name, ln, ty, wrap(val))
					}
				}
			}
			if !found {
				die(token.NoPos, "%s: variable %s not found", it.File, it.Name)
			}
		case "func":
			fd := t.funcs[it.Name]
			en := env{}
			var params []string
			for _, ext := range t.externsUsed(it.Name, map[string]bool{}) {
				e := t.externs[ext]
				params = append(params, "("+e.Lean+" : "+e.Type+")")
			}
			for _, fld := range fd.Type.Params.List {
				k := typeKind(fld.Type)
				for _, nm := range fld.Names {
					en[nm.Name] = k
					params = append(params, "("+nm.Name+" : "+k.lean()+")")
				}
			}
			ret := t.fnKind[it.Name]
			t.curResults = t.fnResults[it.Name]
			body := t.block(fd.Body.List, en, ret, "  ")
			var rts []string
			for _, k := range t.curResults {
				rts = append(rts, k.lean())
			}
			fmt.Fprintf(&sb, "/-- %s:%s -/\ndef %s %s : %s :=\n  %s\n\n", it.File, it.Name, ln, strings.Join(params, " "), strings.Join(rts, " × "), body)
		default:
			die(token.NoPos, "unknown item kind %q", it.Kind)
		}
	}
	_ = sort.Strings
	fmt.Fprintf(&sb, "end Gen.%s\n", spec.Module)
	if err := os.WriteFile(*out, []byte(sb.String()), 0o644); err != nil {
		die(token.NoPos, "%v", err)
	}
}

// wrap breaks long list literals over lines (long single lines slow Lean down).
func wrap(s string) string {
	if len(s) < 100 {
		return s
	}
	var sb strings.Builder
	col := 0
	depth := 0
	for i := 0; i < len(s); i++ {
		c := s[i]
		sb.WriteByte(c)
		col++
		switch c {
		case '(', '[':
			depth++
		case ')', ']':
			depth--
		case '"':
			// copy string literal verbatim
			i++
			for i < len(s) && s[i] != '"' {
				if s[i] == '\\' {
					sb.WriteByte(s[i])
					i++
				}
				sb.WriteByte(s[i])
				i++
			}
			sb.WriteByte('"')
		}
		if c == ',' && depth == 1 && col > 80 {
			sb.WriteString("\n   ")
			col = 0
		}
	}
	return sb.String()
}
