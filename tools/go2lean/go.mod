module go2lean

go 1.22
