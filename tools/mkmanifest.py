#!/usr/bin/env python3
"""Regenerate MANIFEST.json from props/*.json (claimed checks) and
props/not_applicable.json (reasons for properties not claimed)."""
import json, os, subprocess
ROOT = os.path.dirname(os.path.dirname(os.path.abspath(__file__)))
ids = [json.loads(l)['id'] for l in open(os.path.join(ROOT, 'properties.jsonl')) if l.strip()]
na = json.load(open(os.path.join(ROOT, 'props', 'not_applicable.json')))
hooks_commits = [l.strip() for l in open(os.path.join(ROOT, 'props', 'hook_commits.txt')) if l.strip()] \
    if os.path.exists(os.path.join(ROOT, 'props', 'hook_commits.txt')) else []
checks, not_app = [], []
for pid in ids:
    p = os.path.join(ROOT, 'props', pid + '.json')
    thm = os.path.join(ROOT, 'lean', 'ElvProofs', pid + '.lean')
    has_thm = os.path.exists(thm) and ('theorem ' + pid + '_') in open(thm).read()
    if os.path.exists(p) and json.load(open(p)).get('claimed', True) and has_thm:
        m = json.load(open(p))
        checks.append({
            'property_id': pid,
            'quick_cmd': f'./check {pid} --tier quick',
            'thorough_cmd': f'./check {pid} --tier thorough',
            'evidence_file': f'/verif/evidence/{pid}.json',
            'replay_cmd_template': f'./check {pid} --replay {{path}}',
            'engine': 'lean4-proof+correspondence',
            'level_claimed': {'category': m.get('level', 'proof') if m.get('level', 'proof') in ('exploration', 'fault_enumeration', 'model_checking', 'proof', 'translation_validation', 'other') else 'proof', 'text': m['level_text'],
                              'design_ref': f'DESIGN.md §8 {pid}'},
            'level_note': m['level_note'],
            'technique': m.get('technique', 'Lean 4 theorems over an executable model; model tied to the code by differential correspondence run'),
        })
    else:
        not_app.append({'property_id': pid, 'reason': na.get(pid, 'no check built yet: the Lean model and theorems for this property are not written (see DESIGN.md §8 for the plan); not claimed rather than decided by another technique')})
man = {
    'version': 1,
    'setup_cmd': './check --setup',
    'hooks': {'guard': 'verif', 'enable': 'go build -tags verif (the harness module replaces src.elv.sh by /repo)',
              'baseline_off_cmd': json.load(open('/root/.vp/BASELINE.json'))['cmd'] if os.path.exists('/root/.vp/BASELINE.json') else 'cd /repo && go test ./...',
              'source_commits': hooks_commits, 'add_only': True},
    'engines': [{'name': 'lean4-proof+correspondence', 'path': '/verif/check',
                 'serves_properties': [c['property_id'] for c in checks],
                 'kind_free_text': 'Lean 4 model + theorems (lake build, #print axioms audit, leanchecker) tied to /repo by a Go differential harness over a line protocol, with an implementation-side oracle used to search for a failing input'}],
    'checks': checks,
    'notes': 'See DESIGN.md. known-findings.txt lists recorded defects (never written at run time). Replays are written to /verif/replays/.',
    'not_applicable': not_app,
}
json.dump(man, open(os.path.join(ROOT, 'MANIFEST.json'), 'w'), indent=1, ensure_ascii=False)
print(f'{len(checks)} checks, {len(not_app)} not claimed')
