#!/bin/bash
# tools/seedsave.sh <advdir> <name> <caught:true|false> "<demo_with_change>" "<tests>" "<check result>"
# Saves an adversary delivery as /verif/seeded/<name>/ with the integrator's confirmation, then
# removes the adversary's scratch worktree.
A=$1; N=$2; CAUGHT=$3; DEMO=$4; TESTS=$5; CHK=$6
D=/verif/seeded/$N; mkdir -p $D
cp $A/patch.diff $D/patch.diff
rm -rf $D/demo; cp -r $A/demo $D/demo
python3 - "$A/meta.json" "$D/meta.json" "$CAUGHT" "$DEMO" "$TESTS" "$CHK" <<'PY'
import json,sys
m=json.load(open(sys.argv[1]))
m["confirmed_by_integrator"]={"demo_clean":"PASS","demo_with_change":sys.argv[4],
 "existing_tests_with_change":sys.argv[5],"check":sys.argv[6],"caught":sys.argv[3]=="true"}
json.dump(m,open(sys.argv[2],"w"),indent=1)
PY
git -C /repo worktree remove --force $A/repo 2>/dev/null; rm -rf $A
echo saved $D
