package c35

import (
	"strconv"
	"strings"

	"verifharness/common"
)

// Grammar-based generator of Markdown documents aimed at the declared subset:
// block structure (paragraphs, ATX headings, thematic breaks, fenced and
// indented code, block quotes, bullet and ordered lists, nesting, lazy
// continuation, sloppy indentation) and inline structure (emphasis runs with
// all flanking situations, code spans, links, images, autolinks, escapes,
// character references, hard and soft breaks).

type G struct{ r *common.Rand }

// NewG makes a generator drawing from r (also used by harness/c36).
func NewG(r *common.Rand) *G { return &G{r} }

// Mutate applies a few byte-level edits.
func (g *G) Mutate(s string) string { return g.mutate(s) }

var words = []string{"a", "b", "foo", "bar", "x1", "é", "世", "word", "I", "2", "z.", "q,", "(p)", "\"s\"", "£", "—", "α"}
var puncts = []string{".", ",", "!", "?", "(", ")", "\"", ":", ";", "-", "+", "=", "#", "$", "%", "~", "/", "@"}

func (g *G) word() string { return common.Pick(g.r, words) }

func (g *G) delim() string {
	c := "*"
	if g.r.Chance(1, 3) {
		c = "_"
	}
	return strings.Repeat(c, g.r.Range(1, 3))
}

func (g *G) entity() string {
	switch g.r.Intn(6) {
	case 0:
		return "&#" + strconv.Itoa(common.Pick(g.r, []int{32, 35, 42, 60, 65, 95, 233, 1234, 8364, 0x10FFFF, 0x110000, 55296, 9999999})) + ";"
	case 1:
		return "&#x" + common.Pick(g.r, []string{"20", "2A", "3c", "41", "e9", "20AC", "10FFFF", "D800", "1F600"}) + ";"
	case 2:
		return "&#X" + common.Pick(g.r, []string{"26", "5f"}) + ";"
	case 3:
		return common.Pick(g.r, []string{"&lt;", "&gt;", "&amp;", "&apos;", "&nbsp;", "&Tab;", "&NewLine;"})
	case 4:
		return common.Pick(g.r, []string{"&", "&#;", "&#x;", "&#12345678;", "&#xabcdef0;", "&lt", "&;", "& amp;", "&#12a;"})
	}
	return "&amp;"
}

func (g *G) dest() string {
	switch g.r.Intn(10) {
	case 0:
		return ""
	case 1:
		return "<" + common.Pick(g.r, []string{"", "1 2", "/u(", "#b)c", "1\\>y", "/a&amp;b", "/u"}) + ">"
	case 2:
		return common.Pick(g.r, []string{"u(v)", "u(v(w))", "(", "a)", "u\\(v", "u\\)"})
	case 3:
		return common.Pick(g.r, []string{"/url?a=1&b=2", "#frag", "a\\b", "a`b", "a[b]", "a\"b", "a*b*", "a_b_", "&amp;", "a&#32;b", "\\&x"})
	}
	return common.Pick(g.r, []string{"/url", "u", "http://e.x/p", "b.png", "/a/b"})
}

func (g *G) title() string {
	body := common.Pick(g.r, []string{"t", "a b", "t\\\"q", "it's", "(p)", "a&amp;b", "x\ny", "*e*", "\\)"})
	switch g.r.Intn(4) {
	case 0:
		return "\"" + strings.ReplaceAll(body, "\"", "") + "\""
	case 1:
		return "'" + strings.ReplaceAll(body, "'", "") + "'"
	case 2:
		return "(" + body + ")"
	}
	return "\"" + body + "\""
}

func (g *G) linkTail() string {
	var sb strings.Builder
	sb.WriteString("(")
	if g.r.Chance(1, 6) {
		sb.WriteString(common.Pick(g.r, []string{" ", "  ", "\n"}))
	}
	d := g.dest()
	sb.WriteString(d)
	if g.r.Chance(1, 3) {
		sep := common.Pick(g.r, []string{" ", "  ", "\n", " \n "})
		if g.r.Chance(1, 5) {
			sep = "" // title glued to the destination
		}
		sb.WriteString(sep + g.title())
	}
	if g.r.Chance(1, 8) {
		sb.WriteString(" ")
	}
	if !g.r.Chance(1, 15) {
		sb.WriteString(")")
	}
	return sb.String()
}

// inline produces inline content; depth bounds nesting.
func (g *G) inline(depth int, multiline bool) string {
	var sb strings.Builder
	n := g.r.Range(1, 6)
	for i := 0; i < n; i++ {
		if i > 0 {
			switch g.r.Intn(12) {
			case 0, 1, 2:
				// glued
			case 3:
				if multiline {
					sb.WriteString(common.Pick(g.r, []string{"\n", "  \n", "\\\n", " \n", "   \n", "\n  "}))
				} else {
					sb.WriteString(" ")
				}
			default:
				sb.WriteString(" ")
			}
		}
		switch k := g.r.Intn(24); {
		case k < 7:
			sb.WriteString(g.word())
		case k < 12 && depth > 0:
			// emphasis, well formed or not
			open, cl := g.delim(), ""
			switch g.r.Intn(5) {
			case 0:
				cl = g.delim()
			default:
				cl = open
			}
			in := g.inline(depth-1, multiline)
			if g.r.Chance(1, 8) {
				in = " " + in
			}
			if g.r.Chance(1, 8) {
				in += " "
			}
			sb.WriteString(open + in + cl)
		case k < 13:
			sb.WriteString(g.delim())
		case k < 15:
			// code span
			ticks := strings.Repeat("`", g.r.Range(1, 3))
			body := common.Pick(g.r, []string{"c", "a b", " c ", "`", "a`b", "``", "*x*", "<b>", "a\\", " ", "  ", "a\nb", "&amp;", "[l](u)"})
			if !multiline {
				body = strings.ReplaceAll(body, "\n", " ")
			}
			cl := ticks
			if g.r.Chance(1, 8) {
				cl = strings.Repeat("`", g.r.Range(1, 3))
			}
			sb.WriteString(ticks + body + cl)
		case k < 18 && depth > 0:
			pre := "["
			if g.r.Chance(1, 3) {
				pre = "!["
			}
			sb.WriteString(pre + g.inline(depth-1, multiline) + "]" + g.linkTail())
		case k < 19:
			sb.WriteString(common.Pick(g.r, []string{"<http://a.b/c?d=e&f>", "<a@b.c>", "<mailto:x@y.z>", "<x+y:z>", "<ab:>", "<a+b@c.d-e.f>",
				"<http://a b>", "<1@b.c>", "<a@b.c.>", "<a@-b.c>", "< http://a>", "<m:a&amp;b>", "<a@b_c>"}))
		case k < 20:
			sb.WriteString(g.entity())
		case k < 21:
			sb.WriteString("\\" + common.Pick(g.r, append(puncts, "*", "_", "`", "[", "]", "\\", "<", ">", "&", "a", " ", "é")))
		case k < 22:
			sb.WriteString(common.Pick(g.r, []string{"[", "]", "!", "![", "](", "()", "[]", "[a]", "[a][b]", "[a]()", "<", ">", "< b", "a<b", "1<2"}))
		default:
			sb.WriteString(common.Pick(g.r, puncts))
		}
	}
	return sb.String()
}

func indentLines(lines []string, first, rest string) []string {
	out := make([]string, len(lines))
	for i, l := range lines {
		p := rest
		if i == 0 {
			p = first
		}
		if l == "" {
			out[i] = strings.TrimRight(p, " ")
		} else {
			out[i] = p + l
		}
	}
	return out
}

// block returns the lines of one block.
func (g *G) block(depth int) []string {
	switch k := g.r.Intn(20); {
	case k < 6:
		return strings.Split(g.inline(2, true), "\n")
	case k < 8:
		h := strings.Repeat("#", g.r.Range(1, 7))
		c := g.inline(1, false)
		switch g.r.Intn(6) {
		case 0:
			return []string{h}
		case 1:
			return []string{h + " " + c + " " + strings.Repeat("#", g.r.Range(1, 3))}
		case 2:
			return []string{h + c}
		case 3:
			return []string{strings.Repeat(" ", g.r.Range(1, 4)) + h + "  " + c + "  "}
		}
		return []string{h + " " + c}
	case k < 9:
		c := common.Pick(g.r, []string{"*", "-", "_"})
		switch g.r.Intn(4) {
		case 0:
			return []string{strings.Repeat(c+" ", g.r.Range(2, 4)) + c}
		case 1:
			return []string{strings.Repeat(" ", g.r.Range(0, 4)) + strings.Repeat(c, g.r.Range(2, 5))}
		}
		return []string{strings.Repeat(c, g.r.Range(3, 5))}
	case k < 11:
		// fenced code
		c := "`"
		if g.r.Chance(1, 3) {
			c = "~"
		}
		n := g.r.Range(3, 5)
		ind := ""
		if g.r.Chance(1, 4) {
			ind = strings.Repeat(" ", g.r.Range(1, 3))
		}
		info := common.Pick(g.r, []string{"", "", "go", " elvish x", "a&amp;b", "a\\*b", "~x", "a b c "})
		out := []string{ind + strings.Repeat(c, n) + info}
		for i := g.r.Range(0, 3); i > 0; i-- {
			out = append(out, common.Pick(g.r, []string{"code", "  indented", "", "<b>&", "```", "~~~", "- x", "> q", " `` ", "    four", "*a*"}))
		}
		if !g.r.Chance(1, 6) {
			cl := n
			if g.r.Chance(1, 4) {
				cl = g.r.Range(2, 6)
			}
			out = append(out, strings.Repeat(" ", g.r.Intn(3))+strings.Repeat(c, cl)+common.Pick(g.r, []string{"", "", " ", " x"}))
		}
		return out
	case k < 12:
		out := []string{}
		for i := g.r.Range(1, 3); i > 0; i-- {
			out = append(out, strings.Repeat(" ", g.r.Range(4, 6))+common.Pick(g.r, []string{"code", "*a*", "- x", "> y", "<&>", "a  "}))
			if g.r.Chance(1, 4) && i > 1 {
				out = append(out, "")
			}
		}
		return out
	case k < 15 && depth > 0:
		// block quote
		inner := g.blocks(depth-1, g.r.Range(1, 2))
		out := make([]string, len(inner))
		for i, l := range inner {
			switch {
			case i > 0 && l != "" && g.r.Chance(1, 6):
				out[i] = l // lazy / dropped marker
			case l == "":
				out[i] = ">"
			case g.r.Chance(1, 6):
				out[i] = ">" + l
			case g.r.Chance(1, 8):
				out[i] = strings.Repeat(" ", g.r.Range(1, 3)) + "> " + l
			default:
				out[i] = "> " + l
			}
		}
		return out
	case k < 19 && depth > 0:
		// list
		ordered := g.r.Chance(1, 3)
		bullet := common.Pick(g.r, []string{"-", "*", "+"})
		num := common.Pick(g.r, []int{1, 1, 1, 2, 0, 7, 10, 123456789})
		dl := common.Pick(g.r, []string{".", ")"})
		var out []string
		items := g.r.Range(1, 3)
		loose := g.r.Chance(1, 3)
		for i := 0; i < items; i++ {
			marker := bullet
			if ordered {
				marker = strconv.Itoa(num+i) + dl
			}
			if g.r.Chance(1, 10) {
				marker = common.Pick(g.r, []string{"-", "*", "+", "1.", "2)"})
			}
			sp := g.r.Range(1, 3)
			if g.r.Chance(1, 12) {
				sp = g.r.Range(4, 6)
			}
			lead := strings.Repeat(" ", common.Pick(g.r, []int{0, 0, 0, 1, 2, 3}))
			first := lead + marker + strings.Repeat(" ", sp)
			w := len(first)
			if sp >= 5 {
				w = len(lead) + len(marker) + 1
			}
			cont := strings.Repeat(" ", w)
			if g.r.Chance(1, 8) {
				cont = strings.Repeat(" ", max(0, w+g.r.Range(-2, 1)))
			}
			var inner []string
			if g.r.Chance(1, 6) {
				inner = []string{""} // empty item / item starting with a blank line
				if g.r.Chance(1, 2) {
					// a second blank line closes the empty item (spec example 280);
					// inside a block quote the blank lines are written `>`
					inner = append(inner, "")
				}
				if g.r.Chance(2, 3) {
					inner = append(inner, g.block(depth-1)...)
				}
				first = lead + marker
			} else {
				inner = g.blocks(depth-1, common.Pick(g.r, []int{1, 1, 1, 2}))
			}
			out = append(out, indentLines(inner, first, cont)...)
			if loose && i < items-1 {
				out = append(out, "")
			}
		}
		return out
	}
	return strings.Split(g.inline(2, true), "\n")
}

// blocks returns n blocks, usually separated by blank lines.
func (g *G) blocks(depth, n int) []string {
	var out []string
	for i := 0; i < n; i++ {
		if i > 0 && !g.r.Chance(1, 4) {
			out = append(out, "")
			if g.r.Chance(1, 10) {
				out = append(out, "")
			}
		}
		out = append(out, g.block(depth)...)
	}
	return out
}

func (g *G) Doc() string {
	lines := g.blocks(g.r.Range(0, 3), g.r.Range(1, 4))
	doc := strings.Join(lines, "\n")
	if !g.r.Chance(1, 5) {
		doc += "\n"
	}
	return doc
}

const mdAlphabet = "ab *_`[]()<>!\\&#;-+>1.\n\n  \"'~=:"

// mutate applies a few byte-level edits.
func (g *G) mutate(s string) string {
	b := []byte(s)
	for k := g.r.Range(1, 3); k > 0; k-- {
		if len(b) == 0 {
			b = append(b, mdAlphabet[g.r.Intn(len(mdAlphabet))])
			continue
		}
		i := g.r.Intn(len(b))
		switch g.r.Intn(4) {
		case 0:
			b = append(b[:i], b[i+1:]...)
		case 1:
			b = append(b[:i], append([]byte{mdAlphabet[g.r.Intn(len(mdAlphabet))]}, b[i:]...)...)
		case 2:
			b[i] = mdAlphabet[g.r.Intn(len(mdAlphabet))]
		case 3:
			j := g.r.Intn(len(b))
			if i > j {
				i, j = j, i
			}
			if j-i > 12 {
				j = i + 12
			}
			b = append(b[:j], append(append([]byte{}, b[i:j]...), b[j:]...)...)
		}
	}
	return string(b)
}
