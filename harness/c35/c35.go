// Package c35: correspondence and oracle for C35 (Markdown rendering is total
// and agrees with CommonMark on the supported subset).
package c35

import (
	"encoding/json"
	"fmt"
	"html"
	"os"
	"path/filepath"
	"regexp"
	"strconv"
	"strings"
	"unicode/utf8"

	"src.elv.sh/pkg/md"
	"verifharness/common"
)

func init() { common.Register("C35", run) }

type specCase struct {
	Markdown string `json:"markdown"`
	HTML     string `json:"html"`
	Example  int    `json:"example"`
	Section  string `json:"section"`
}

func loadSpec() ([]specCase, error) {
	repo := os.Getenv("VERIF_REPO")
	if repo == "" {
		repo = "/repo"
	}
	data, err := os.ReadFile(filepath.Join(repo, "pkg", "md", "spec", "spec.json"))
	if err != nil {
		return nil, err
	}
	var cases []specCase
	err = json.Unmarshal(data, &cases)
	return cases, err
}

var specByExample = map[int]specCase{}

func run(c *common.Ctx) error {
	spec, err := loadSpec()
	if err != nil {
		return err
	}
	for _, tc := range spec {
		specByExample[tc.Example] = tc
	}
	s := &common.Std{
		Rule: "every spec.json example (reference renderer must reproduce the CommonMark reference HTML on each example in its declared subset); " +
			"grammar-generated documents (blocks × inlines, sloppy indentation, lazy continuation) and byte-mutated spec examples, rendered by " +
			"md.RenderString(HTMLCodec) and by the Lean reference (lists forced loose); single-line documents for the line classifier / container " +
			"openers model; emphasis-only texts for the delimiter-stack model; entity probes; arbitrary bytes for totality (HTML, Fmt, TTY, Text codecs); " +
			"non-trivial = in the declared subset (doc/spec) or any line/emph/ent op; distinct by op line",
		Gen:    func(c *common.Ctx, emit func(...string)) { gen(c, spec, emit) },
		Impl:   impl,
		Oracle: oracle,
		Tag:    tag,
	}
	return s.Run(c)
}

func gen(c *common.Ctx, spec []specCase, emit func(...string)) {
	g := &G{c.Rand}
	for _, tc := range spec {
		emit("spec", strconv.Itoa(tc.Example), common.Hex(tc.Markdown), common.Hex(tc.HTML))
	}
	// entity probes: the documented supported names, near misses, numeric references
	for _, e := range []string{"lt", "gt", "amp", "quot", "quote", "apos", "nbsp", "Tab", "NewLine",
		"#0", "#00", "#x0", "#1", "#9", "#32", "#34", "#38", "#60", "#65", "#127", "#233", "#8364", "#55295", "#55296", "#57343", "#57344",
		"#65533", "#1114111", "#1114112", "#9999999", "#x10FFFF", "#x110000", "#xD800", "#xDFFF", "#xFFFFFF", "#X41", "#x1F600"} {
		emit("ent", common.Hex(e))
	}
	// generated documents
	n := c.Scale(6000, 60000)
	for i := 0; i < n; i++ {
		doc := g.Doc()
		if !InSubset(doc) && !c.Rand.Chance(1, 10) {
			continue
		}
		emit("doc", common.Hex(doc))
	}
	// mutated spec examples / generated documents
	n = c.Scale(3000, 30000)
	for i := 0; i < n; i++ {
		var base string
		if c.Rand.Chance(2, 3) {
			base = common.Pick(c.Rand, spec).Markdown
		} else {
			base = g.Doc()
		}
		doc := g.mutate(base)
		if !InSubset(doc) {
			if c.Rand.Chance(1, 4) {
				emit("fuzz", common.Hex(doc))
			}
			continue
		}
		emit("doc", common.Hex(doc))
	}
	// metamorphic probes whose expected outcome follows from the spec text alone
	// (so the oracle can judge them without a CommonMark implementation):
	// pc: indentation of a paragraph continuation line is insignificant (spec §4.8);
	// ei: an empty list item cannot interrupt a paragraph (spec §5.2).
	n = c.Scale(600, 8000)
	for i := 0; i < n; i++ {
		l1 := g.word() + " " + strings.ReplaceAll(g.inline(2, false), "\n", " ")
		l2 := common.Pick(c.Rand, []string{"a", "b", "`c` ", "x ", "\"", "(", "[", "*x"}) + strings.ReplaceAll(g.inline(2, false), "\n", " ")
		emit("pc", common.Hex(l1), common.Hex(l2), strconv.Itoa(c.Rand.Range(1, 9)))
	}
	for _, m := range []string{"*", "+", "1.", "1)", "0.", "7)", "123456789."} {
		for sp := 0; sp <= 6; sp++ {
			emit("ei", common.Hex(m), strconv.Itoa(sp))
		}
	}
	// oi: an ordered item whose number is not 1 cannot interrupt a paragraph (spec §5.2)
	for _, m := range []string{"0.", "0)", "2.", "2)", "10.", "00.", "02.", "123456789."} {
		for _, content := range []string{"b", "- c", "> d", "1. e"} {
			emit("oi", common.Hex(m), common.Hex(content))
		}
	}
	// qi: inside a block quote opened on the same line any list item may start (nothing is interrupted)
	for _, m := range []string{"*", "+", "1.", "0.", "2)", "10."} {
		for _, content := range []string{"", " b"} {
			for _, q := range []string{">", "> ", " > "} {
				emit("qi", common.Hex(q), common.Hex(m+content))
			}
		}
	}
	// gl: a link title must be separated from the destination by whitespace (spec §6.3)
	for _, d := range []string{"", "1", "/u", "1 2", "#x"} {
		for _, t := range []string{`"t"`, `'t'`, `(t)`, `"a b"`} {
			emit("gl", common.Hex(d), common.Hex(t))
		}
	}
	genLines(c, emit)
	genEmph(c, emit)
	genBlk(c, g, emit)
	genEmptyItemDocs(c, emit)
	// arbitrary bytes
	n = c.Scale(3000, 40000)
	alpha := []string{"*", "_", "`", "[", "]", "(", ")", "<", ">", "!", "\\", "&", "#", ";", "-", "+", ">", "1.", "\n", "\n", " ", " ", "\t", "\r",
		"a", "b", "\xff", "\xc3", "é", "\x00", "~~~", "```", "<!--", "-->", "<?", "?>", "<![CDATA[", "]]>", "<a", "</a>", "<pre", "</pre>", "    ", "=", "{#x}", "\"", "'", "&#", "&#x", " ",
		// raw HTML the TTY codec interprets (an unbalanced </kbd> used to pop an empty styling stack)
		"<kbd>", "</kbd>", "</kbd>"}
	for i := 0; i < n; i++ {
		var sb strings.Builder
		if c.Rand.Chance(1, 3) {
			for k := c.Rand.Range(0, 40); k > 0; k-- {
				sb.WriteByte(byte(c.Rand.Intn(256)))
			}
		} else {
			for k := c.Rand.Range(0, 60); k > 0; k-- {
				sb.WriteString(common.Pick(c.Rand, alpha))
			}
		}
		emit("fuzz", common.Hex(sb.String()))
		emit("blk", common.Hex(sb.String()))
	}
	// pathological sizes: deep nesting and long delimiter runs must stay fast
	for _, s := range []string{
		strings.Repeat("> ", 2000) + "a", strings.Repeat("- ", 2000) + "a", strings.Repeat("*a ", 3000), strings.Repeat("*", 5000),
		strings.Repeat("[", 5000), strings.Repeat("[a](", 2000), strings.Repeat("_a*", 3000), strings.Repeat("`a``", 3000),
		strings.Repeat("<", 5000), strings.Repeat("![", 3000) + strings.Repeat("]()", 3000), strings.Repeat("a\n", 5000),
		strings.Repeat("**a* ", 3000), strings.Repeat("*a** ", 3000), strings.Repeat("&", 5000), strings.Repeat("\\", 5001)} {
		emit("fuzz", common.Hex(s))
	}
	for _, s := range []string{strings.Repeat("> ", 2000) + "a", strings.Repeat("- ", 2000) + "a\nb", strings.Repeat("a\n", 5000),
		strings.Repeat("1. ", 500) + "a\n\n" + strings.Repeat("   ", 500) + "b", strings.Repeat("```\n", 3001), strings.Repeat("- a\n\n", 2000)} {
		emit("blk", common.Hex(s))
	}
}

func renderHTML(doc string) string { return md.RenderString(doc, &md.HTMLCodec{}) }

func impl(_ any, f []string) string {
	switch f[0] {
	case "spec":
		mdText := common.Unhex(f[2])
		renderHTML(mdText) // totality on every example
		if !InSubset(mdText) {
			return "out"
		}
		return "in ok"
	case "doc":
		doc := common.Unhex(f[1])
		h := renderHTML(doc)
		if !InSubset(doc) {
			return "out"
		}
		return "H " + common.Hex(h)
	case "fuzz":
		doc := common.Unhex(f[1])
		renderHTML(doc)
		md.RenderString(doc, &md.FmtCodec{})
		md.RenderString(doc, &md.FmtCodec{Width: 20})
		md.RenderString(doc, &md.TTYCodec{Width: 30})
		var tc md.TextCodec
		md.Render(doc, &tc)
		return "done"
	case "ent":
		return "E " + common.Hex(renderHTML("x&"+common.Unhex(f[1])+";y"))
	case "pc":
		doc := pcDoc(f, true)
		h := renderHTML(doc)
		if !InSubset(doc) {
			return "out"
		}
		return "H " + common.Hex(h)
	case "ei":
		return "H " + common.Hex(renderHTML(eiDoc(f)))
	case "oi":
		return "H " + common.Hex(renderHTML(oiDoc(f)))
	case "qi":
		return "H " + common.Hex(renderHTML(qiDoc(f)))
	case "gl":
		doc := glDoc(f)
		h := renderHTML(doc)
		if !InSubset(doc) {
			return "out"
		}
		return "H " + common.Hex(h)
	case "line":
		return implLine(f[1] == "1", common.Unhex(f[2]))
	case "emph":
		return implEmph(common.Unhex(f[1]))
	case "blk":
		return implBlk(common.Unhex(f[1]))
	}
	return "bad-op"
}

func pcDoc(f []string, indented bool) string {
	k, _ := strconv.Atoi(f[3])
	if !indented {
		k = 0
	}
	return common.Unhex(f[1]) + "\n" + strings.Repeat(" ", k) + common.Unhex(f[2]) + "\n"
}

func oiDoc(f []string) string { return "a\n" + common.Unhex(f[1]) + " " + common.Unhex(f[2]) }

func qiDoc(f []string) string { return "a\n" + common.Unhex(f[1]) + common.Unhex(f[2]) }

func glDoc(f []string) string { return "[a](<" + common.Unhex(f[1]) + ">" + common.Unhex(f[2]) + ")" }

func eiDoc(f []string) string {
	k, _ := strconv.Atoi(f[2])
	return "a\n" + common.Unhex(f[1]) + strings.Repeat(" ", k)
}

var looseListItem = regexp.MustCompile(`<li>([^<]+)</li>`)

// loosifyLists is the repo's own normalisation (pkg/md/testutils_test.go).
func loosifyLists(h string) string {
	return strings.ReplaceAll(looseListItem.ReplaceAllString(h, "<li>\n<p>$1</p>\n</li>"), "<li></li>", "<li>\n</li>")
}

// skipReason is the repo's own list of unsupported spec examples.
func skipReason(tc specCase) string {
	switch tc.Section {
	case "Tabs", "Setext headings", "Link reference definitions":
		return "section not supported"
	}
	switch tc.Example {
	case 59, 115, 141, 300:
		return "setext heading not supported"
	case 23, 33, 317,
		527, 528, 529, 530, 531, 532, 533, 534, 535, 536, 537, 538, 539, 540, 541, 542, 543, 544, 545, 549, 550, 553, 554, 555, 556, 557, 558, 559, 560, 561, 562, 563, 564, 565, 566, 567, 568, 569, 570, 571, 573, 576, 577,
		582, 583, 584, 585, 586, 587, 588, 589, 591, 592, 593:
		return "link reference definitions not supported"
	case 294, 296, 307, 318, 319, 320, 321, 323:
		return "tight list not supported"
	}
	return ""
}

// expectedEntity is what CommonMark renders for the paragraph `x&E;y`, taken
// from Go's html package (the HTML5 entity table), independently of pkg/md.
func expectedEntity(e string) (string, bool) {
	ref := "&" + e + ";"
	if strings.HasPrefix(e, "#") {
		digits, base := e[1:], 10
		if strings.HasPrefix(digits, "x") || strings.HasPrefix(digits, "X") {
			digits, base = digits[1:], 16
		}
		if digits == "" || (base == 10 && len(digits) > 7) || (base == 16 && len(digits) > 6) {
			return ref, true
		}
		v, err := strconv.ParseInt(digits, base, 64)
		if err != nil {
			return ref, true
		}
		if v >= 0x80 && v <= 0x9f {
			return "", false // HTML5 remaps these; CommonMark does not say: not judged
		}
		if v == 0 || v > 0x10FFFF || (v >= 0xD800 && v <= 0xDFFF) {
			return "�", true
		}
		return string(rune(v)), true
	}
	u := html.UnescapeString(ref)
	if utf8.RuneCountInString(u) <= 2 && !strings.Contains(u, ";") && u != ref {
		return u, true
	}
	return ref, true // not an HTML5 entity: literal text
}

func oracle(_ any, f []string, out string) (string, string) {
	if out == "PANIC" {
		return "crash", f[0]
	}
	if out == "TIMEOUT" {
		return "hang", f[0]
	}
	switch f[0] {
	case "spec":
		n, _ := strconv.Atoi(f[1])
		tc := specByExample[n]
		if InSubset(tc.Markdown) && skipReason(tc) == "" {
			if got, want := renderHTML(tc.Markdown), loosifyLists(tc.HTML); got != want {
				return "spec-example-differs", fmt.Sprintf("example %d: got %q want %q", n, got, want)
			}
		}
	case "ent":
		e := common.Unhex(f[1])
		want, judged := expectedEntity(e)
		if !judged {
			return "", ""
		}
		wantHTML := "<p>x" + html.EscapeString(want) + "y</p>\n"
		wantHTML = strings.ReplaceAll(strings.ReplaceAll(wantHTML, "&#39;", "'"), "&#34;", "&quot;")
		if got := renderHTML("x&" + e + ";y"); got != wantHTML {
			cls := "entity-named"
			if strings.HasPrefix(e, "#") {
				cls = "entity-numeric"
			}
			return cls, fmt.Sprintf("&%s; renders as %q, CommonMark: %q", e, got, wantHTML)
		}
	case "pc":
		// only judged when the second line really is a paragraph continuation
		// line (it could start a fenced code block, a heading, …)
		if a, b := renderHTML(pcDoc(f, false)), renderHTML(pcDoc(f, true)); a != b &&
			strings.HasPrefix(a, "<p>") && strings.Count(a, "<p>") == 1 && strings.HasSuffix(a, "</p>\n") &&
			!strings.Contains(a, "<pre>") && !strings.Contains(a, "<h") && !strings.Contains(a, "<blockquote>") && !strings.Contains(a, "<ul>") && !strings.Contains(a, "<ol") {
			return "continuation-indent-significant", fmt.Sprintf("%q renders %q but with the second line indented %q", pcDoc(f, false), a, b)
		}
	case "ei":
		doc := eiDoc(f)
		if got, want := renderHTML(doc), "<p>a\n"+common.Unhex(f[1])+"</p>\n"; got != want {
			return "empty-item-interrupts-paragraph", fmt.Sprintf("%q renders %q, CommonMark: %q", doc, got, want)
		}
	case "oi":
		doc := oiDoc(f)
		if got := renderHTML(doc); strings.Contains(got, "<ol") {
			return "ordered-item-interrupts-paragraph", fmt.Sprintf("%q renders %q; an ordered item not numbered 1 cannot interrupt a paragraph", doc, got)
		}
	case "qi":
		doc := qiDoc(f)
		if got := renderHTML(doc); !strings.Contains(got, "<blockquote>\n<ul>") && !strings.Contains(got, "<blockquote>\n<ol") {
			return "list-item-in-new-blockquote", fmt.Sprintf("%q renders %q; the block quote interrupts the paragraph, the list item inside it interrupts nothing", doc, got)
		}
	case "gl":
		doc := glDoc(f)
		if got := renderHTML(doc); strings.Contains(got, "<a ") {
			return "title-without-separator", fmt.Sprintf("%q renders %q; a title must be separated from the destination by whitespace", doc, got)
		}
	case "blk":
		// the container ops handed to a codec are well nested, whatever the input
		// (C35_block_trace_balanced on the model)
		if msg := unbalancedTrace(out); msg != "" {
			return "block-trace-unbalanced", fmt.Sprintf("%q: %s", common.Unhex(f[1]), msg)
		}
	case "doc":
		doc := common.Unhex(f[1])
		if InSubset(doc) {
			if msg := malformedHTML(renderHTML(doc)); msg != "" {
				return "html-malformed", fmt.Sprintf("%q: %s", doc, msg)
			}
		}
	}
	return "", ""
}

var tagRe = regexp.MustCompile(`^<(/?)(p|h[1-6]|hr|pre|code|blockquote|ul|ol|li|em|strong|a|img|br)((?: [a-z]+="[^"<>]*")*)( /)?>`)
var entRe = regexp.MustCompile(`^&(amp|lt|gt|quot);`)

// malformedHTML checks that the output of a document without raw HTML is
// well nested and that every special character outside tags is escaped.
func malformedHTML(h string) string {
	var stack []string
	for i := 0; i < len(h); {
		switch h[i] {
		case '<':
			m := tagRe.FindStringSubmatch(h[i:])
			if m == nil {
				return fmt.Sprintf("unescaped < at %d", i)
			}
			name := m[2]
			switch {
			case m[4] != "": // void
			case m[1] == "":
				stack = append(stack, name)
			default:
				if len(stack) == 0 || stack[len(stack)-1] != name {
					return fmt.Sprintf("closing </%s> at %d does not match open %v", name, i, stack)
				}
				stack = stack[:len(stack)-1]
			}
			i += len(m[0])
		case '>', '"':
			return fmt.Sprintf("unescaped %c at %d", h[i], i)
		case '&':
			m := entRe.FindString(h[i:])
			if m == "" {
				return fmt.Sprintf("unescaped & at %d", i)
			}
			i += len(m)
		default:
			i++
		}
	}
	if len(stack) != 0 {
		return fmt.Sprintf("unclosed %v", stack)
	}
	return ""
}

// rarest first: the tag of a document is its rarest feature
var docFeatures = []struct {
	name string
	re   *regexp.Regexp
}{
	{"autolink", regexp.MustCompile(`<[a-zA-Z0-9]`)}, {"entity", regexp.MustCompile(`&[#a-zA-Z]`)}, {"escape", regexp.MustCompile(`\\`)},
	{"fence", regexp.MustCompile("(?m)^[ >]*(```|~~~)")}, {"quote", regexp.MustCompile(`(?m)^ {0,3}>`)}, {"link", regexp.MustCompile(`\]\(`)},
	{"codespan", regexp.MustCompile("`")}, {"list", regexp.MustCompile(`(?m)^[ >]*([-+*]|[0-9]+[.)])( |$)`)}, {"emphasis", regexp.MustCompile(`[*_]`)},
}

func tag(f []string, out string) string {
	switch f[0] {
	case "spec":
		if out == "out" {
			return ""
		}
		return "spec-in-subset"
	case "doc":
		if out == "out" {
			return ""
		}
		doc := common.Unhex(f[1])
		for _, p := range docFeatures {
			if p.re.MatchString(doc) {
				return "doc:" + p.name
			}
		}
		return "doc:plain"
	case "fuzz":
		return "fuzz"
	case "ent":
		return "ent"
	case "pc":
		if out == "out" {
			return ""
		}
		return "para-continuation"
	case "ei":
		return "empty-item"
	case "oi":
		return "ordered-item"
	case "qi":
		return "item-in-new-quote"
	case "gl":
		return "glued-title"
	case "line":
		// the kinds of ops, without payloads: e.g. line:BQ[.OL[.LI[.P
		var ks []string
		for _, o := range strings.Split(out, " ") {
			k := strings.SplitN(o, ":", 2)[0]
			k = strings.TrimRight(strings.TrimSuffix(k, "["), "0123456789")
			if strings.HasPrefix(k, "]") {
				continue
			}
			if len(ks) < 3 {
				ks = append(ks, k)
			}
		}
		return "line" + f[1] + ":" + strings.Join(ks, ".")
	case "emph":
		return tagEmph(out)
	case "blk":
		return tagBlk(out)
	}
	return ""
}
