package c35

import (
	"regexp"
	"strings"
	"unicode/utf8"
)

// Mirror of lean/ElvModel/C35/RefHtml.lean `inSubset` (purely syntactic).  The
// correspondence run diffs the two classifiers on every op.

var zsSpaces = []rune{0xA0, 0x1680, 0x2000, 0x2001, 0x2002, 0x2003, 0x2004, 0x2005, 0x2006, 0x2007, 0x2008,
	0x2009, 0x200A, 0x202F, 0x205F, 0x3000}
var tblPunct = []rune{0xA1, 0xA3, 0xA7, 0xAB, 0xBB, 0xBF, 0x2014, 0x2018, 0x2019, 0x201C, 0x201D, 0x2026,
	0x20AC, 0x1F600}
var tblOther = []rune{0xE4, 0xE9, 0xF6, 0xFC, 0xDF, 0x3B1, 0x3B3, 0x3C9, 0x3BB, 0x42D, 0x445, 0x44F, 0x4E16, 0x754C}

func inRunes(rs []rune, r rune) bool {
	for _, x := range rs {
		if x == r {
			return true
		}
	}
	return false
}

func knownRune(r rune) bool {
	return r < 0x80 || inRunes(zsSpaces, r) || inRunes(tblPunct, r) || inRunes(tblOther, r)
}

var (
	uriAutolinkRe   = regexp.MustCompile(`^[a-zA-Z][a-zA-Z0-9+.-]{1,31}:[^\x00-\x20\x7f<>]*>`)
	emailAutolinkRe = regexp.MustCompile("^[a-zA-Z0-9.!#$%&'*+/=?^_`{|}~-]+@[a-zA-Z0-9](?:[a-zA-Z0-9-]{0,61}[a-zA-Z0-9])?(?:\\.[a-zA-Z0-9](?:[a-zA-Z0-9-]{0,61}[a-zA-Z0-9])?)*>")
	namedRefRe      = regexp.MustCompile(`^[a-zA-Z0-9]+;`)
	numRefRe        = regexp.MustCompile(`^#(?:[xX][0-9a-fA-F]{1,6}|[0-9]{1,7});`)
)

var knownNames = map[string]bool{"lt": true, "gt": true, "amp": true, "quot": true, "apos": true,
	"nbsp": true, "Tab": true, "NewLine": true, "quote": true /* known NOT to be an entity */}

func badURLByte(b byte) bool {
	return b == '^' || b == '{' || b == '}' || b == '|' || b >= 0x80
}

func anyBad(s string, stop func(byte) bool) bool {
	for i := 0; i < len(s) && !stop(s[i]); i++ {
		if badURLByte(s[i]) {
			return true
		}
	}
	return false
}

func hazards(doc string) bool {
	for i := 0; i < len(doc); i++ {
		t := doc[i+1:]
		switch doc[i] {
		case '<':
			if len(t) > 0 {
				c := t[0]
				if c == '!' || c == '?' || c == '/' {
					return true
				}
				if (c >= 'a' && c <= 'z') || (c >= 'A' && c <= 'Z') {
					if !uriAutolinkRe.MatchString(t) && !emailAutolinkRe.MatchString(t) {
						return true
					}
				}
			}
			if anyBad(t, func(b byte) bool { return b == '>' || b == '\n' }) {
				return true
			}
		case '&':
			if !numRefRe.MatchString(t) {
				if m := namedRefRe.FindString(t); m != "" && !knownNames[m[:len(m)-1]] {
					return true
				}
			}
		case ']':
			if strings.HasPrefix(t, ":") {
				return true
			}
			if strings.HasPrefix(t, "(") && anyBad(strings.TrimLeft(t[1:], " \n"), func(b byte) bool { return b == ' ' || b == '\n' }) {
				return true
			}
		}
	}
	return false
}

func stripQuoteIndent(l string) string { return strings.TrimLeft(l, " >") }

func isSetextLike(l string) bool {
	s := strings.TrimRight(stripQuoteIndent(l), " ")
	return s != "" && (strings.Trim(s, "=") == "" || strings.Trim(s, "-") == "")
}

func docLines(doc string) []string {
	if doc == "" {
		return nil
	}
	ls := strings.Split(doc, "\n")
	if strings.HasSuffix(doc, "\n") {
		ls = ls[:len(ls)-1]
	}
	return ls
}

// whitespaceOnly: the line is whitespace-only, possibly after block-quote
// markers (`^ {0,3}> ?`, repeatedly) — mirrors C35.whitespaceOnly.
func whitespaceOnly(l string) bool {
	for {
		n := 0
		for n < len(l) && l[n] == ' ' {
			n++
		}
		if n <= 3 && n < len(l) && l[n] == '>' {
			l = l[n+1:]
			if strings.HasPrefix(l, " ") {
				l = l[1:]
			}
			continue
		}
		break
	}
	return l != "" && strings.Trim(l, " ") == ""
}

func lineHazards(doc string) bool {
	ls := docLines(doc)
	for i, l := range ls {
		if whitespaceOnly(l) {
			return true
		}
		if isSetextLike(l) && i > 0 && stripQuoteIndent(ls[i-1]) != "" {
			return true
		}
		if strings.Contains(l, " {") && strings.HasSuffix(strings.TrimRight(l, " "), "}") {
			return true
		}
		// whether a character reference for a space or tab at the edge of an
		// info string is trimmed is not settled by the spec
		if (strings.Contains(l, "```") || strings.Contains(l, "~~~")) &&
			(strings.Contains(l, "&#") || strings.Contains(l, "&Tab;") || strings.Contains(l, "&NewLine;")) {
			return true
		}
	}
	return false
}

// InSubset decides whether a document lies in the declared subset of the
// Lean reference renderer.
func InSubset(doc string) bool {
	for i := 0; i < len(doc); i++ {
		if b := doc[i]; !(b == '\n' || (b >= 0x20 && b != 0x7f)) {
			return false
		}
	}
	if !utf8.ValidString(doc) {
		return false
	}
	for _, r := range doc {
		if !knownRune(r) {
			return false
		}
	}
	return !hazards(doc) && !lineHazards(doc)
}
