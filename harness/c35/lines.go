package c35

import (
	"fmt"
	"strings"

	"src.elv.sh/pkg/md"
	"verifharness/common"
)

// ---- line classifier / container openers (md.go) through TraceCodec ----

var lineAtoms = []string{"a", "b", "1", "2", "0", "9", " ", " ", " ", "  ", "    ", "#", "##", "-", "+", "*", "_", ".", ")", ">", "~", "~~~", "=", "\t",
	"{#i}", " {x}", "---", "***", "___", "- ", "* ", "+ ", "1. ", "2) ", "10. ", "0. ", "0) ", "01. ", "> ", "# ", "```", "``", "1234567890. ", "123456789. "}

func genLines(c *common.Ctx, emit func(...string)) {
	// exhaustive over short atom sequences, then random longer ones
	small := []string{"a", " ", "#", "-", "*", "_", ">", "1", ".", ")", "+", "~", "`", "\t"}
	var rec func(prefix string, n int)
	rec = func(prefix string, n int) {
		if okLine(prefix) {
			emit("line", "0", common.Hex(prefix))
			emit("line", "1", common.Hex(prefix))
		}
		if n == 0 {
			return
		}
		for _, s := range small {
			rec(prefix+s, n-1)
		}
	}
	rec("", c.Scale(3, 4))
	n := c.Scale(4000, 40000)
	for i := 0; i < n; i++ {
		var sb strings.Builder
		for k := c.Rand.Range(1, 8); k > 0; k-- {
			sb.WriteString(common.Pick(c.Rand, lineAtoms))
		}
		if l := sb.String(); okLine(l) {
			emit("line", common.Pick(c.Rand, []string{"0", "1"}), common.Hex(l))
		}
	}
}

// okLine: backticks only as one run at the start of the content (after
// container markers) — so that no code span can form and inline parsing
// leaves the text alone apart from emphasis markers, which both sides strip.
func okLine(l string) bool {
	if l == "" {
		return false
	}
	i := strings.IndexByte(l, '`')
	if i < 0 {
		return true
	}
	j := i
	for j < len(l) && l[j] == '`' {
		j++
	}
	return !strings.Contains(l[j:], "`") && strings.Trim(l[:i], " >-+*0123456789.)") == ""
}

func stripMarks(s string) string {
	return strings.NewReplacer("*", "", "_", "", "`", "").Replace(s)
}

func inlineText(ops []md.InlineOp) string {
	var sb strings.Builder
	for _, op := range ops {
		sb.WriteString(op.String())
	}
	return stripMarks(sb.String())
}

func implLine(two bool, line string) string {
	if strings.ContainsAny(line, "<\n\\&[]!") {
		return "unsupported"
	}
	var tc md.TraceCodec
	if two {
		line = "a\n" + line
	}
	md.Render(line, &tc)
	var out []string
	for _, op := range tc.Ops() {
		switch op.Type {
		case md.OpThematicBreak:
			out = append(out, "HR")
		case md.OpHeading:
			out = append(out, fmt.Sprintf("H%d:%s:%s", op.Number, common.Hex(inlineText(op.Content)), common.Hex(op.Info)))
		case md.OpCodeBlock:
			out = append(out, fmt.Sprintf("CB:%s:%s", common.Hex(op.Info), common.Hex(strings.Join(op.Lines, "\n"))))
		case md.OpHTMLBlock:
			out = append(out, "HTML")
		case md.OpParagraph:
			out = append(out, "P:"+common.Hex(inlineText(op.Content)))
		case md.OpBlockquoteStart:
			out = append(out, "BQ[")
		case md.OpBlockquoteEnd:
			out = append(out, "]BQ")
		case md.OpListItemStart:
			out = append(out, "LI[")
		case md.OpListItemEnd:
			out = append(out, "]LI")
		case md.OpBulletListStart:
			out = append(out, "UL[")
		case md.OpBulletListEnd:
			out = append(out, "]UL")
		case md.OpOrderedListStart:
			out = append(out, fmt.Sprintf("OL%d[", op.Number))
		case md.OpOrderedListEnd:
			out = append(out, "]OL")
		}
	}
	if len(out) == 0 {
		return "EMPTY"
	}
	return strings.Join(out, " ")
}

// ---- delimiter stack (inline.go processEmphasis) through TraceCodec ----

var emphAtoms = []string{"a", "b", " ", "*", "*", "**", "***", "_", "__", "___", ".", "(", ")", "é", "£", " ", "\"", "****", "*_", "_*"}

func genEmph(c *common.Ctx, emit func(...string)) {
	small := []string{"a", " ", "*", "_", "."}
	var rec func(prefix string, n int)
	rec = func(prefix string, n int) {
		if prefix != "" {
			emit("emph", common.Hex(prefix))
		}
		if n == 0 {
			return
		}
		for _, s := range small {
			rec(prefix+s, n-1)
		}
	}
	rec("", c.Scale(5, 6))
	n := c.Scale(5000, 60000)
	for i := 0; i < n; i++ {
		var sb strings.Builder
		for k := c.Rand.Range(2, 14); k > 0; k-- {
			sb.WriteString(common.Pick(c.Rand, emphAtoms))
		}
		emit("emph", common.Hex(sb.String()))
		// the same text as a paragraph, rendered by elvish and by the
		// spec-derived reference (the emph op above only compares with the
		// model of elvish's own delimiter stack)
		emit("doc", common.Hex("p "+sb.String()))
	}
}

func implEmph(text string) string {
	var tc md.TraceCodec
	md.Render("# "+text, &tc)
	ops := tc.Ops()
	if len(ops) != 1 || ops[0].Type != md.OpHeading {
		return "NOT-A-HEADING"
	}
	var out []string
	for _, op := range ops[0].Content {
		switch op.Type {
		case md.OpText:
			out = append(out, "T:"+common.Hex(op.Text))
		case md.OpEmphasisStart:
			out = append(out, "E[")
		case md.OpEmphasisEnd:
			out = append(out, "]E")
		case md.OpStrongEmphasisStart:
			out = append(out, "S[")
		case md.OpStrongEmphasisEnd:
			out = append(out, "]S")
		default:
			out = append(out, "?"+op.Type.String())
		}
	}
	if len(out) == 0 {
		return "EMPTY"
	}
	return strings.Join(out, " ")
}

func tagEmph(out string) string {
	e, s := strings.Contains(out, "E["), strings.Contains(out, "S[")
	switch {
	case e && s:
		return "emph:em+strong"
	case e:
		return "emph:em"
	case s:
		return "emph:strong"
	}
	return "emph:none"
}
