package c35

import (
	"fmt"
	"strings"

	"src.elv.sh/pkg/md"
	"verifharness/common"
)

// ---- the whole block phase of md.go through TraceCodec (op `blk`) ----
//
// The Lean side is lean/ElvModel/C35/Block.lean (renderBlocks): a fold over
// the lines with the container stack, the open paragraph and the open leaf
// block as state.  Both sides print every md.Op: type, LineNo, Number, Info,
// Lines; for paragraphs and headings the text handed to renderInline, observed
// through the inline ops modulo emphasis/code-span delimiters and whitespace —
// only when the document has none of \ & < [ ] ! (otherwise inline parsing is
// not transparent and the text is printed as "?").

// line-level atoms for the exhaustive part (documents of up to 3 (4) lines)
var blkSmall = []string{"", "a", "  b", "    c", "- a", "-", "  - b", "1. a", "2. b", "> a", ">", "> - a", "```", "<div>", "<!--", "-->",
	"# h", "***", "  ", "- > a", "   c", "1.", "~~~~", "* a", "-   ", ">     x"}

var blkPrefix = []string{"> ", ">", "- ", "  ", "    ", "1. ", "   ", "10) ", "* ", "+ ", " ", "2. ", "-     ", "1.  ", ">  ", "  > ", "   - ", "    - ", "      "}

var blkContent = []string{"a", "b c", "", "", "```", "```go", "~~~", "````", "~~~ x ~", "``` a`b", "# h #", "## h {#id}", "###", "####### x", "#x", "# a \\#", "---", "***", "* * *", "--", "- - -",
	"_ _ _", "<div>", "</div>", "<DIV class=\"x\">", "<pre>", "</pre>", "a </PRE> b", "<!-- c", "-->", "<!-- c -->", "<?p", "?>", "<!D", ">", "<![CDATA[", "]]>",
	"<a href=\"x\">", "<a b='c' d=e/>", "<a b = c >", "<a b=>", "<a b c=\"d\"e>", "</a >", "</a b>", "<a/>", "<a /", "<x-y z_1:w.v=1/>  ", "<script>", "</SCRIPT>", "<ſcript", "<linK>", "</ſtyle>", "<hr/>", "<hr/ >", "<h1", "<h7>", "<p>", "<pa>", "<td >",
	"    code", "  ", "\t", " \t ", "1.", "-", "+", "2. x", "01. y", "1) z", "123456789. n", "1234567890. n", "=", "&amp;", "~~~ a&#32;\\*", "``` &Tab;x", "~~~ &#0;&quote;&nbsp;\\a\\", "a  ", "*a*", "`c`", "a\tb", "é", "\xff", "\r", "> q", "- i", "    ", "     x"}

func genBlk(c *common.Ctx, g *G, emit func(...string)) {
	var rec func(prefix string, n int)
	rec = func(prefix string, n int) {
		if n == 0 {
			return
		}
		for _, s := range blkSmall[:c.Scale(20, 16)] {
			doc := prefix + s + "\n"
			emit("blk", common.Hex(doc))
			rec(doc, n-1)
		}
	}
	rec("", c.Scale(3, 4))
	// random structured documents: container prefixes × leaf content
	n := c.Scale(6000, 60000)
	for i := 0; i < n; i++ {
		var sb strings.Builder
		for k := c.Rand.Range(1, 10); k > 0; k-- {
			for p := c.Rand.Intn(4); p > 0; p-- {
				sb.WriteString(common.Pick(c.Rand, blkPrefix))
			}
			sb.WriteString(common.Pick(c.Rand, blkContent))
			if k > 1 || c.Rand.Chance(2, 3) {
				sb.WriteByte('\n')
			}
		}
		emit("blk", common.Hex(sb.String()))
	}
	// the grammar's documents and their mutations
	n = c.Scale(2000, 20000)
	for i := 0; i < n; i++ {
		doc := g.Doc()
		if c.Rand.Chance(1, 2) {
			doc = g.mutate(doc)
		}
		emit("blk", common.Hex(doc))
	}
}

// ---- items that start with a blank line, inside containers (ops `doc` + `blk`) ----
//
// An item whose marker is followed by nothing can start with at most one blank
// line (spec §5.2, example 280): a second blank line closes it.  Inside a
// block quote (or another item) the "blank" lines carry the continuation
// markers of the enclosing containers (`>`, `> `, `>>`), so the look-ahead
// has to strip them before it decides that the next line is blank.
type eiCtx struct {
	first  string   // prefix of the line with the bare marker
	blanks []string // ways to write a blank line inside the container
	cont   string   // prefix of a content line inside the container
}

var eiCtxs = []eiCtx{
	{"", []string{""}, ""},
	{"> ", []string{">", "> "}, "> "},
	{">", []string{">", "> "}, ">"},
	{" > ", []string{">", "  >"}, "> "},
	{">> ", []string{">>", "> >", ">> "}, ">> "},
	{"> > ", []string{">>", "> > "}, "> > "},
	{"- ", []string{""}, "  "},
	{"1. ", []string{""}, "   "},
	{"> - ", []string{">", "> "}, ">   "},
	{"- > ", []string{"  >", "  > "}, "  > "},
	{"> 1) ", []string{">"}, ">    "},
}

var eiMarkers = []string{"-", "*", "1.", "1)", "-  ", "+", "2.", "10)"}

var eiContents = []string{"foo", "  foo", "   foo", "     foo", "- b", "# h", " foo", "    foo", "  - b", "   ```"}

func genEmptyItemDocs(c *common.Ctx, emit func(...string)) {
	for _, cx := range eiCtxs {
		for _, m := range eiMarkers[:c.Scale(5, len(eiMarkers))] {
			for nb := 0; nb <= 2; nb++ {
				for bi, b := range cx.blanks {
					if nb == 0 && bi > 0 {
						continue
					}
					for _, content := range eiContents[:c.Scale(6, len(eiContents))] {
						doc := cx.first + m + "\n" + strings.Repeat(b+"\n", nb) + cx.cont + content + "\n"
						emit("doc", common.Hex(doc))
						emit("blk", common.Hex(doc))
						if nb == 2 && len(cx.blanks) > 1 {
							// two different spellings of the blank line
							doc = cx.first + m + "\n" + b + "\n" + cx.blanks[(bi+1)%len(cx.blanks)] + "\n" + cx.cont + content + "\n"
							emit("doc", common.Hex(doc))
							emit("blk", common.Hex(doc))
						}
					}
				}
			}
		}
	}
}

func normText(s string) string {
	return strings.NewReplacer("*", "", "_", "", "`", "", " ", "", "\t", "", "\n", "").Replace(s)
}

func blkLines(ls []string) string {
	return fmt.Sprintf("%d:%s", len(ls), common.Hex(strings.Join(ls, "\n")))
}

func implBlk(doc string) string {
	var tc md.TraceCodec
	md.Render(doc, &tc)
	hard := strings.ContainsAny(doc, "\\&<[]!")
	text := func(ops []md.InlineOp) string {
		if hard {
			return "?"
		}
		var sb strings.Builder
		for _, op := range ops {
			sb.WriteString(op.String())
		}
		return common.Hex(normText(sb.String()))
	}
	var out []string
	for _, op := range tc.Ops() {
		switch op.Type {
		case md.OpThematicBreak:
			out = append(out, fmt.Sprintf("HR@%d", op.LineNo))
		case md.OpHeading:
			out = append(out, fmt.Sprintf("H%d@%d:%s:%s", op.Number, op.LineNo, text(op.Content), common.Hex(op.Info)))
		case md.OpCodeBlock:
			out = append(out, fmt.Sprintf("CB@%d:%s:%s", op.LineNo, common.Hex(op.Info), blkLines(op.Lines)))
		case md.OpHTMLBlock:
			out = append(out, fmt.Sprintf("HT@%d:%s", op.LineNo, blkLines(op.Lines)))
		case md.OpParagraph:
			out = append(out, fmt.Sprintf("P@%d:%s", op.LineNo, text(op.Content)))
		case md.OpBlockquoteStart:
			out = append(out, fmt.Sprintf("BQ[@%d", op.LineNo))
		case md.OpBlockquoteEnd:
			out = append(out, fmt.Sprintf("]BQ@%d", op.LineNo))
		case md.OpListItemStart:
			out = append(out, fmt.Sprintf("LI[@%d", op.LineNo))
		case md.OpListItemEnd:
			out = append(out, fmt.Sprintf("]LI@%d", op.LineNo))
		case md.OpBulletListStart:
			out = append(out, fmt.Sprintf("UL[@%d", op.LineNo))
		case md.OpBulletListEnd:
			out = append(out, fmt.Sprintf("]UL@%d", op.LineNo))
		case md.OpOrderedListStart:
			out = append(out, fmt.Sprintf("OL%d[@%d", op.Number, op.LineNo))
		case md.OpOrderedListEnd:
			out = append(out, fmt.Sprintf("]OL@%d", op.LineNo))
		}
	}
	if len(out) == 0 {
		return "EMPTY"
	}
	return strings.Join(out, " ")
}

// tagBlk: the kinds of the first few ops and whether a leaf block spans
// several lines / containers nest
func tagBlk(out string) string {
	var ks []string
	depth, maxDepth := 0, 0
	for _, o := range strings.Split(out, " ") {
		k := o
		if i := strings.IndexAny(k, "@:"); i >= 0 {
			k = k[:i]
		}
		if strings.HasSuffix(k, "[") {
			depth++
			if depth > maxDepth {
				maxDepth = depth
			}
		}
		if strings.HasPrefix(k, "]") {
			depth--
			continue
		}
		k = strings.TrimRight(strings.TrimSuffix(k, "["), "0123456789")
		if len(ks) < 2 && (len(ks) == 0 || ks[len(ks)-1] != k) {
			ks = append(ks, k)
		}
	}
	if maxDepth > 4 {
		maxDepth = 4
	}
	return fmt.Sprintf("blk:%s/d%d", strings.Join(ks, "."), maxDepth)
}

// unbalancedTrace checks the printed trace of a `blk` op: every container End
// must close the innermost open container of the same kind, and nothing may
// stay open.
func unbalancedTrace(out string) string {
	if out == "EMPTY" {
		return ""
	}
	var stack []string
	for _, o := range strings.Split(out, " ") {
		k := o
		if i := strings.IndexAny(k, "@:"); i >= 0 {
			k = k[:i]
		}
		switch {
		case strings.HasSuffix(k, "["):
			stack = append(stack, strings.TrimRight(strings.TrimSuffix(k, "["), "0123456789"))
		case strings.HasPrefix(k, "]"):
			name := k[1:]
			if len(stack) == 0 || stack[len(stack)-1] != name {
				return fmt.Sprintf("%s closes %v", o, stack)
			}
			stack = stack[:len(stack)-1]
		}
	}
	if len(stack) != 0 {
		return fmt.Sprintf("left open: %v", stack)
	}
	return ""
}
