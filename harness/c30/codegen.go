package c30

// Generator of elvish code for the highlighter: mostly valid programs built
// from a small grammar (every region type of regions.go is reachable: the
// special forms var/set/tmp/del/if/for/try, commands, quotes, variables,
// wildcards, tilde, comments, every Sep the theme knows), then damaged copies
// (deleted/inserted punctuation, truncation), copies with invalid UTF-8, and
// plain random bytes.

import (
	"strings"

	"verifharness/common"
)

var (
	cmdNames = []string{"echo", "put", "ls", "nosuchcmd", "e:cat", "str:join", "a/b", "x", "each", "fail", "é", "if2"}
	varNames = []string{"x", "y", "pwd", "@rest", "nosuchvar", "e:PATH", "a:b", "_", "true", "nil"}
	words    = []string{"a", "foo", "b1", "1", "0x10", "1.5", "--long", "-s", "a=b", "世界", "é", "=", "elif", "else", "except", "catch", "finally"}
	squoted  = []string{"'a b'", "''", "'it''s'", "'é'", "'\n'"}
	dquoted  = []string{`"c d"`, `""`, `"\n\t"`, `"\x41"`, `"é"`, `"世"`}
	wild     = []string{"*", "**", "?", "*.go", "a*b", "**[type:dir]", "?[set:ab]"}
	tildes   = []string{"~", "~/x", "~root/y"}
	puncts   = []string{"(", ")", "[", "]", "{", "}", "'", "\"", "$", "|", "&", ";", "<", ">", ">>", "?>", "?(", "\\", " ", "\n", "\t", "#", "=", ",", "~", "*", "@", ":", "^", "\r"}
	badUTF8  = []string{"\xff", "\xc3", "\xe4\xb8", "\xf0\x9f", "\x80", "\xc0\xaf", "\xed\xa0\x80", "\xfe\xfe"}
)

type codeGen struct{ r *common.Rand }

func (g *codeGen) pick(xs []string) string { return common.Pick(g.r, xs) }

func (g *codeGen) primary(depth int) string {
	n := 12
	if depth <= 0 {
		n = 7
	}
	switch g.r.Intn(n) {
	case 0, 1:
		return g.pick(words)
	case 2:
		return "$" + g.pick(varNames)
	case 3:
		return g.pick(squoted)
	case 4:
		return g.pick(dquoted)
	case 5:
		return g.pick(wild)
	case 6:
		return g.pick(tildes)
	case 7:
		return "(" + g.pipeline(depth-1) + ")"
	case 8:
		return "?(" + g.pipeline(depth-1) + ")"
	case 9:
		var parts []string
		for i := g.r.Intn(3); i > 0; i-- {
			parts = append(parts, g.compound(depth-1))
		}
		return "[" + strings.Join(parts, " ") + "]"
	case 10:
		if g.r.Bool() {
			return "[&" + g.pick(words) + "=" + g.compound(depth-1) + "]"
		}
		return "{" + g.pick(words) + "," + g.compound(depth-1) + "}"
	default:
		return g.lambda(depth - 1)
	}
}

func (g *codeGen) lambda(depth int) string {
	args := ""
	if g.r.Chance(1, 3) {
		args = "|" + g.pick(varNames[:3]) + "| "
	}
	return "{" + args + " " + g.chunk(depth, 1) + " }"
}

func (g *codeGen) compound(depth int) string {
	s := g.primary(depth)
	if g.r.Chance(1, 6) {
		s += g.primary(depth)
	}
	if g.r.Chance(1, 8) {
		s += "[" + g.pick(words) + "]"
	}
	return s
}

func (g *codeGen) block(depth int) string { return "{ " + g.chunk(depth-1, 1) + " }" }

func (g *codeGen) form(depth int) string {
	if depth > 0 && g.r.Chance(2, 5) {
		switch g.r.Intn(9) {
		case 0:
			return g.pick([]string{"var", "set", "tmp"}) + " " + g.pick(varNames[:4]) + " " + g.pick(varNames[:3]) + " = " + g.compound(depth-1)
		case 1:
			return "var " + g.pick([]string{"a[0]", "$x", "'q'", "x[", "@r"}) + " = 1"
		case 2:
			return "del " + g.pick(varNames) + " " + g.pick([]string{"y", "m[k]", "$z"})
		case 3:
			s := "if " + g.compound(0) + " " + g.block(depth)
			for i := g.r.Intn(3); i > 0; i-- {
				s += " elif " + g.compound(0) + " " + g.block(depth)
			}
			if g.r.Bool() {
				s += " else " + g.block(depth)
			}
			return s
		case 4:
			s := "for " + g.pick(varNames[:3]) + " " + g.compound(depth-1) + " " + g.block(depth)
			if g.r.Chance(1, 3) {
				s += " else " + g.block(depth)
			}
			return s
		case 5:
			s := "try " + g.block(depth)
			if g.r.Bool() {
				s += " " + g.pick([]string{"catch", "except"}) + " "
				if g.r.Chance(2, 3) {
					s += g.pick([]string{"e", "'e'", "$e"}) + " "
				}
				s += g.block(depth)
			}
			if g.r.Chance(1, 3) {
				s += " else " + g.block(depth)
			}
			if g.r.Chance(1, 3) {
				s += " finally " + g.block(depth)
			}
			return s
		case 6:
			return "while " + g.compound(0) + " " + g.block(depth)
		case 7:
			return "fn " + g.pick(cmdNames[:4]) + " " + g.lambda(depth-1)
		default:
			return "use " + g.pick([]string{"str", "math", "./m", "nosuchmod"})
		}
	}
	var sb strings.Builder
	switch g.r.Intn(8) {
	case 0:
		sb.WriteString(g.compound(depth)) // any compound as head
	case 1:
		sb.WriteString(g.pick(squoted))
	default:
		sb.WriteString(g.pick(cmdNames))
	}
	for i := g.r.Intn(4); i > 0; i-- {
		sb.WriteString(g.pick([]string{" ", " ", "  ", " ^\n", "\t"}))
		switch g.r.Intn(10) {
		case 0:
			sb.WriteString("&" + g.pick(words) + "=" + g.compound(depth-1))
		case 1:
			sb.WriteString(g.pick([]string{">", ">>", "<", "?>", "2>", "<>"}) + g.pick([]string{"", " "}) + g.pick([]string{"f", "&1", "&-", "$x", "'q'"}))
		default:
			sb.WriteString(g.compound(depth - 1))
		}
	}
	return sb.String()
}

func (g *codeGen) pipeline(depth int) string {
	s := g.form(depth)
	for i := 0; i < 3 && g.r.Chance(1, 4); i++ {
		s += g.pick([]string{" | ", "|", " |\n"}) + g.form(depth)
	}
	if g.r.Chance(1, 12) {
		s += " &"
	}
	return s
}

func (g *codeGen) chunk(depth, maxPipes int) string {
	var sb strings.Builder
	if g.r.Chance(1, 8) {
		sb.WriteString(g.pick([]string{" ", "\n", "# lead\n", "\t"}))
	}
	n := 1 + g.r.Intn(maxPipes)
	for i := 0; i < n; i++ {
		if i > 0 {
			sb.WriteString(g.pick([]string{"; ", "\n", " ;", "\n\n", " # c é\n", ";"}))
		}
		sb.WriteString(g.pipeline(depth))
	}
	if g.r.Chance(1, 6) {
		sb.WriteString(g.pick([]string{" ", "\n", " # tail", "#", ";"}))
	}
	return sb.String()
}

// valid returns a (mostly) valid program.
func (g *codeGen) valid() string { return g.chunk(g.r.Range(0, 3), 3) }

// damage returns s with a few random edits (the result is usually invalid).
func (g *codeGen) damage(s string) string {
	b := []byte(s)
	for k := g.r.Range(1, 3); k > 0; k-- {
		switch g.r.Intn(4) {
		case 0: // delete a byte
			if len(b) > 0 {
				i := g.r.Intn(len(b))
				b = append(b[:i:i], b[i+1:]...)
			}
		case 1, 2: // insert punctuation
			i := g.r.Intn(len(b) + 1)
			p := g.pick(puncts)
			b = append(b[:i:i], append([]byte(p), b[i:]...)...)
		default: // truncate
			if len(b) > 0 {
				b = b[:g.r.Intn(len(b))]
			}
		}
	}
	return string(b)
}

// invalidUTF8 returns s with invalid UTF-8 spliced in.
func (g *codeGen) invalidUTF8(s string) string {
	b := []byte(s)
	for k := g.r.Range(1, 3); k > 0; k-- {
		i := g.r.Intn(len(b) + 1)
		p := g.pick(badUTF8)
		b = append(b[:i:i], append([]byte(p), b[i:]...)...)
	}
	return string(b)
}

func (g *codeGen) randomBytes() string {
	n := g.r.Range(0, 24)
	b := make([]byte, n)
	alphabet := "ab $'\"()[]{}|&;<>#\n\\~*?=,\x00\x7f\xff\xc3\xa9\xe4"
	for i := range b {
		if g.r.Chance(1, 6) {
			b[i] = byte(g.r.Intn(256))
		} else {
			b[i] = alphabet[g.r.Intn(len(alphabet))]
		}
	}
	return string(b)
}

// anyCode returns a program of a random class and the class name.
func (g *codeGen) anyCode() (string, string) {
	switch x := g.r.Intn(20); {
	case x < 9:
		return g.valid(), "valid"
	case x < 14:
		return g.damage(g.valid()), "damaged"
	case x < 18:
		if g.r.Bool() {
			return g.invalidUTF8(g.valid()), "invalid-utf8"
		}
		return g.invalidUTF8(g.damage(g.valid())), "invalid-utf8"
	default:
		return g.randomBytes(), "random-bytes"
	}
}

// fixedCodes are always included: the snippets of the package's own tests plus
// boundary cases.
var fixedCodes = []string{
	"", " ", "\n", "ls", " ls\n", "ls $x 'y'", "'ls'", "a$x", "ls ]", "ls $? ]", "ls $", "ls [",
	"nosuchcmd a | ls", "var a[0] = 1", "set x = 1; tmp y = 2; del z", "if a { } elif b { } else { }",
	"for x [a] { } else { }", "try { } catch e { } else { } finally { }", "try { } except e { }",
	"echo # comment", "#", "echo > f 2>&1 < g >> h ?> i", "echo ?(fail x) (put y) [a] [&k=v] {a,b} { put x }",
	"echo ~ ~/x * ? a*b", "e:ls &k=v", "\xff", "ls \xff\xfe", "echo 'unterminated", "echo \"unterminated", "echo (",
	"a\x00b", "ls;ls;ls", "ls\r\nls", "$", "$x[", "{", "}", ")", "|", "&", "a |", "a &",
}
