// Package c30: correspondence, trace refinement and oracle for C30
// (pkg/edit/highlight: fixRegions, highlight, Highlighter.Get / late updates).
//
// Op lines (see lean/ElvModel/C30/Driver.lean for the model side):
//
//	theme <hex type>                 style the theme gives a region type
//	theme-cmd good|bad               the two command stylings
//	fix <regions> <sorted>           fixRegions on a random region list; <sorted> is what
//	                                 sort.Slice left in the slice on the real run
//	hl <hex code> <check> <hc> <fast|slow> <regions> <sorted>
//	                                 the whole of highlight(); <regions>/<sorted> are the
//	                                 region list before fixRegions and after the sort as the
//	                                 hook recorded them on the real run
//	reset <hc 0|1|pure> <check> <desc>
//	t <label> <a> <b>                one entry written by the hook inside the package
//	o <what> …                       one observation made by the harness itself
//	end x | hang <why>
//
// The highlighter's state is in `t`/`o` histories: Gen runs the REAL
// Highlighter (built with -tags verif) under several goroutines and emits one
// op per recorded entry; the Lean driver replays the `t` entries through the
// model's `step` and must accept every one.
package c30

import (
	"fmt"
	"sort"
	"strconv"
	"strings"
	"sync"
	"time"

	"src.elv.sh/pkg/diag"
	"src.elv.sh/pkg/edit/highlight"
	"src.elv.sh/pkg/eval"
	"src.elv.sh/pkg/parse"
	"src.elv.sh/pkg/ui"
	"verifharness/common"
)

func init() { common.Register("C30", run) }

// ---------------------------------------------------------------- codecs

func fmtStyle(s ui.Style) string {
	c := func(c ui.Color) string {
		if c == nil {
			return ""
		}
		return c.String()
	}
	fl := ""
	for _, x := range []struct {
		on bool
		ch string
	}{{s.Bold, "b"}, {s.Dim, "d"}, {s.Italic, "i"}, {s.Underlined, "u"}, {s.Blink, "k"}, {s.Inverse, "v"}} {
		if x.on {
			fl += x.ch
		}
	}
	return c(s.Fg) + "/" + c(s.Bg) + "/" + fl
}

func fmtText(t ui.Text) string {
	if len(t) == 0 {
		return "-"
	}
	parts := make([]string, len(t))
	for i, seg := range t {
		parts[i] = common.Hex(seg.Text) + ":" + fmtStyle(seg.Style)
	}
	return strings.Join(parts, ",")
}

type seg struct{ text, style string }

func parseText(s string) []seg {
	if s == "-" {
		return nil
	}
	var out []seg
	for _, p := range strings.Split(s, ",") {
		i := strings.IndexByte(p, ':')
		out = append(out, seg{common.Unhex(p[:i]), p[i+1:]})
	}
	return out
}

func plainOf(segs []seg) string {
	var sb strings.Builder
	for _, s := range segs {
		sb.WriteString(s.text)
	}
	return sb.String()
}

func fmtRegions(rs []highlight.VerifRegion) string {
	if len(rs) == 0 {
		return "-"
	}
	parts := make([]string, len(rs))
	for i, r := range rs {
		parts[i] = fmt.Sprintf("%d:%d:%d:%s", r.Begin, r.End, r.Kind, common.Hex(r.Type))
	}
	return strings.Join(parts, ",")
}

func parseRegions(s string) []highlight.VerifRegion {
	if s == "-" {
		return nil
	}
	var out []highlight.VerifRegion
	for _, p := range strings.Split(s, ",") {
		f := strings.Split(p, ":")
		b, _ := strconv.Atoi(f[0])
		e, _ := strconv.Atoi(f[1])
		k, _ := strconv.Atoi(f[2])
		out = append(out, highlight.VerifRegion{Begin: b, End: e, Kind: k, Type: common.Unhex(f[3])})
	}
	return out
}

// ---------------------------------------------------------------- configs

var (
	evOnce sync.Once
	evaler *eval.Evaler
)

func realCheck(t parse.Tree) (string, []*eval.CompilationError) {
	evOnce.Do(func() { evaler = eval.NewEvaler() })
	autofixes, err := evaler.CheckTree(t, nil)
	return strings.Join(autofixes, "; "), eval.UnpackCompilationErrors(err)
}

func fakeErr(b, e int, partial bool) *eval.CompilationError {
	return &eval.CompilationError{Message: "injected", Partial: partial,
		Context: diag.Context{Name: "[interactive]", Ranging: diag.Ranging{From: b, To: e}}}
}

// checkFor builds cfg.Check from its description:
//
//	nocheck | real | inj:<b>.<e>.<partial>;… | oobmark
//
// oobmark (concurrent runs): a pure function of the code — an out-of-range
// error when the code contains "OOB" (highlight then panics), otherwise an
// in-range one over the first byte.
func checkFor(desc string) func(parse.Tree) (string, []*eval.CompilationError) {
	switch {
	case desc == "nocheck":
		return nil
	case desc == "real":
		return realCheck
	case desc == "oobmark":
		return func(t parse.Tree) (string, []*eval.CompilationError) {
			code := t.Source.Code
			if strings.Contains(code, "OOB") {
				return "", []*eval.CompilationError{fakeErr(len(code)+1, len(code)+3, false)}
			}
			if len(code) == 0 {
				return "", nil
			}
			return "", []*eval.CompilationError{fakeErr(0, 1, false)}
		}
	case strings.HasPrefix(desc, "inj:"):
		var errs []*eval.CompilationError
		for _, p := range strings.Split(desc[4:], ";") {
			f := strings.Split(p, ".")
			b, _ := strconv.Atoi(f[0])
			e, _ := strconv.Atoi(f[1])
			errs = append(errs, fakeErr(b, e, f[2] == "1"))
		}
		return func(parse.Tree) (string, []*eval.CompilationError) { return "", errs }
	}
	panic("bad check description " + desc)
}

// hasMod is the deterministic HasCommand of the pure ops (`mod:k`).
func hasMod(k int, name string) bool {
	n := len(name)
	for i := 0; i < len(name); i++ {
		n += int(name[i])
	}
	return n%k == 0
}

// ---------------------------------------------------------------- pure runs

// hook capture for one highlight call
type capture struct {
	pre, sorted, fixed []highlight.VerifRegion
	havePre, haveSort  bool
	path               string
}

func (c *capture) fn(label string, args ...interface{}) {
	switch label {
	case "RP":
		c.pre, c.havePre = args[1].([]highlight.VerifRegion), true
	case "RS":
		c.sorted, c.haveSort = args[0].([]highlight.VerifRegion), true
	case "RF":
		c.fixed = args[0].([]highlight.VerifRegion)
	case "HN", "HF", "HI":
		c.path = label
	}
}

type hlResult struct {
	cap      capture
	text     ui.Text
	late     ui.Text
	haveLate bool
	panicked bool
	hung     bool
}

var pureMu sync.Mutex // the trace consumer and maxBlockForLate are package globals

// runHighlight executes the real highlight() once. hc = 0 means
// cfg.HasCommand == nil. fast: HasCommand answers at once and highlight waits
// for the late text; slow: HasCommand is held back until highlight has
// returned, the late text then arrives through lateCb.
func runHighlight(code, check string, hc int, fast bool) (res hlResult) {
	pureMu.Lock()
	defer pureMu.Unlock()
	cfg := highlight.Config{Check: checkFor(check)}
	release := make(chan struct{})
	if hc > 0 {
		cfg.HasCommand = func(name string) bool {
			if !fast {
				<-release
			}
			return hasMod(hc, name)
		}
	}
	block := 100 * time.Microsecond
	if fast {
		block = 20 * time.Second
	}
	old := highlight.VerifSetMaxBlockForLate(block)
	defer highlight.VerifSetMaxBlockForLate(old)
	highlight.VerifSetTrace(res.cap.fn)
	defer highlight.VerifSetTrace(nil)
	lateCh := make(chan ui.Text, 1)
	func() {
		defer func() {
			if r := recover(); r != nil {
				res.panicked = true
			}
		}()
		res.text, _ = highlight.VerifHighlight(code, cfg, func(t ui.Text) { lateCh <- t })
	}()
	close(release)
	if res.cap.path == "HI" {
		select {
		case res.late = <-lateCh:
			res.haveLate = true
		case <-time.After(10 * time.Second):
			res.hung = true
		}
	}
	return
}

func parseHc(s string) int {
	if s == "nil" {
		return 0
	}
	k, _ := strconv.Atoi(strings.TrimPrefix(s, "mod:"))
	return k
}

func implHl(f []string) string {
	code, check, hc, speed := common.Unhex(f[1]), f[2], parseHc(f[3]), f[4]
	res := runHighlight(code, check, hc, speed == "fast")
	if fmtRegions(res.cap.pre) != f[5] || fmtRegions(res.cap.sorted) != f[6] {
		return "NONDET regions=" + fmtRegions(res.cap.pre) + " sorted=" + fmtRegions(res.cap.sorted)
	}
	if res.panicked {
		return "PANIC"
	}
	if res.hung {
		return "TIMEOUT late text never delivered"
	}
	late := "-"
	if res.haveLate {
		late = fmtText(res.late)
	}
	return fmt.Sprintf("ok F=%s I=%s L=%s", fmtRegions(res.cap.fixed), fmtText(res.text), late)
}

func implFix(f []string) string {
	sorted, fixed := highlight.VerifFixRegions(parseRegions(f[1]))
	if fmtRegions(sorted) != f[2] {
		return "NONDET sorted=" + fmtRegions(sorted)
	}
	return "ok " + fmtRegions(fixed)
}

func implTheme(f []string) string {
	table, good, bad := highlight.VerifStylingFor()
	switch f[0] {
	case "theme":
		return fmtStyle(ui.ApplyStyling(ui.Style{}, table[common.Unhex(f[1])]))
	default:
		if f[1] == "good" {
			return fmtStyle(ui.ApplyStyling(ui.Style{}, good))
		}
		return fmtStyle(ui.ApplyStyling(ui.Style{}, bad))
	}
}

// inBounds: 0 ≤ Begin ≤ End ≤ n for every region.
func inBounds(rs []highlight.VerifRegion, n int) (bool, string) {
	for _, r := range rs {
		if r.Begin < 0 || r.End < r.Begin || r.End > n {
			return false, fmt.Sprintf("region [%d,%d) kind %d type %q outside [0,%d]", r.Begin, r.End, r.Kind, r.Type, n)
		}
	}
	return true, ""
}

// splitOK parses "ok F=… I=… L=…".
func splitOK(out string) (fixed, imm, late string, ok bool) {
	p := strings.Split(out, " ")
	if len(p) != 4 || p[0] != "ok" {
		return
	}
	return strings.TrimPrefix(p[1], "F="), strings.TrimPrefix(p[2], "I="), strings.TrimPrefix(p[3], "L="), true
}

func oracleHl(f []string, out string) (string, string) {
	code, check := common.Unhex(f[1]), f[2]
	pre := parseRegions(f[5])
	ok, why := inBounds(pre, len(code))
	if !ok {
		if check == "nocheck" || check == "real" {
			// the parser / the real compiler produced a range outside the code
			return "region-out-of-bounds", why + fmt.Sprintf(" for code %q", code)
		}
		return "", "" // injected on purpose: outside the property's quantifier
	}
	if strings.HasPrefix(out, "PANIC") || strings.HasPrefix(out, "TIMEOUT") {
		return "highlight-crash", out + fmt.Sprintf(" for code %q", code)
	}
	fixed, imm, late, isOK := splitOK(out)
	if !isOK {
		return "", "" // NONDET etc.: a correspondence matter
	}
	// the regions kept are ordered and do not overlap
	fr := parseRegions(fixed)
	for i := 1; i < len(fr); i++ {
		if fr[i].Begin < fr[i-1].End {
			return "fix-overlap", fmt.Sprintf("kept regions [%d,%d) and [%d,%d) overlap for code %q", fr[i-1].Begin, fr[i-1].End, fr[i].Begin, fr[i].End, code)
		}
	}
	is := parseText(imm)
	if p := plainOf(is); p != code {
		return "text-changed", fmt.Sprintf("highlight(%q) returned text %q", code, p)
	}
	if late != "-" {
		ls := parseText(late)
		if p := plainOf(ls); p != code {
			return "late-text-changed", fmt.Sprintf("late result for %q has text %q", code, p)
		}
		if len(ls) != len(is) {
			return "late-resegmented", fmt.Sprintf("late result for %q has %d segments, immediate %d", code, len(ls), len(is))
		}
		for i := range ls {
			if ls[i].text != is[i].text {
				return "late-resegmented", fmt.Sprintf("late result for %q: segment %d is %q, was %q", code, i, ls[i].text, is[i].text)
			}
		}
	}
	return "", ""
}

func oracleFix(f []string, out string) (string, string) {
	if !strings.HasPrefix(out, "ok ") {
		return "", ""
	}
	in := parseRegions(f[1])
	for _, r := range in {
		if r.End < r.Begin {
			return "", "" // outside the quantifier
		}
	}
	fr := parseRegions(out[3:])
	cnt := map[highlight.VerifRegion]int{}
	for _, r := range in {
		cnt[r]++
	}
	for i, r := range fr {
		if cnt[r] == 0 {
			return "fix-invented", fmt.Sprintf("fixRegions returned [%d,%d) which was not in its input", r.Begin, r.End)
		}
		cnt[r]--
		if i > 0 && r.Begin < fr[i-1].End {
			return "fix-overlap", fmt.Sprintf("kept regions [%d,%d) and [%d,%d) overlap (input %s)", fr[i-1].Begin, fr[i-1].End, r.Begin, r.End, f[1])
		}
	}
	return "", ""
}

// ---------------------------------------------------------------- generation of pure ops

func genRegions(r *common.Rand, n int) []highlight.VerifRegion {
	types := []string{"bareword", "variable", "command", "keyword", "error", "(", "|", "comment", "zz", ""}
	k := r.Intn(9)
	if r.Chance(1, 10) {
		k = r.Range(9, 30)
	}
	rs := make([]highlight.VerifRegion, 0, k)
	for i := 0; i < k; i++ {
		b := r.Range(0, n)
		var e int
		switch r.Intn(6) {
		case 0:
			e = b // empty
		case 1:
			e = n // to the end (nesting)
		default:
			e = r.Range(b, n)
			if r.Bool() && e > b+3 {
				e = b + r.Range(1, 3)
			}
		}
		reg := highlight.VerifRegion{Begin: b, End: e, Kind: r.Intn(2), Type: common.Pick(r, types)}
		if len(rs) > 0 && r.Chance(1, 4) { // share the begin (and sometimes everything) with an earlier region
			o := rs[r.Intn(len(rs))]
			reg.Begin = o.Begin
			if reg.End < reg.Begin {
				reg.End = o.End
			}
			if r.Chance(1, 4) {
				reg = o
			}
		}
		if r.Chance(1, 40) { // outside the quantifier: inverted or negative
			reg.Begin, reg.End = reg.End+1, reg.Begin
		}
		rs = append(rs, reg)
	}
	return rs
}

func genPure(c *common.Ctx, emit func(...string)) {
	r := c.Rand
	since := 0
	sep := func() {
		if since%40 == 0 {
			emit("reset", "pure", "-", "pure-ops")
		}
		since++
	}
	// the theme: every key of the real table plus keys it does not have
	table, _, _ := highlight.VerifStylingFor()
	var keys []string
	for k := range table {
		keys = append(keys, k)
	}
	sort.Strings(keys)
	keys = append(keys, "", "nosuchtype", ";", "\n", "<>", "commands", "Error", "\xff")
	for _, k := range keys {
		sep()
		emit("theme", common.Hex(k))
	}
	emit("theme-cmd", "good")
	emit("theme-cmd", "bad")
	// fixRegions on random lists
	nFix := c.Scale(1500, 60000)
	for i := 0; i < nFix; i++ {
		rs := genRegions(r, r.Range(0, 12))
		sorted, _ := highlight.VerifFixRegions(rs)
		sep()
		emit("fix", fmtRegions(rs), fmtRegions(sorted))
	}
	// highlight on fixed and generated code
	g := &codeGen{r}
	emitHl := func(code, check string, hc int, fast bool) {
		res := runHighlight(code, check, hc, fast)
		hcs, sp := "nil", "slow"
		if hc > 0 {
			hcs = "mod:" + strconv.Itoa(hc)
		}
		if fast {
			sp = "fast"
		}
		sep()
		emit("hl", common.Hex(code), check, hcs, sp, fmtRegions(res.cap.pre), fmtRegions(res.cap.sorted))
	}
	for _, code := range fixedCodes {
		for _, check := range []string{"nocheck", "real"} {
			emitHl(code, check, 0, false)
			emitHl(code, check, 2, true)
			emitHl(code, check, 3, false)
		}
	}
	nHl := c.Scale(1400, 60000)
	for i := 0; i < nHl; i++ {
		code, _ := g.anyCode()
		check := "nocheck"
		switch r.Intn(10) {
		case 0, 1, 2, 3:
			check = "real"
		case 4, 5, 6:
			// injected error ranges: mostly in range, overlapping the parser's regions
			var parts []string
			for k := r.Range(1, 3); k > 0; k-- {
				b := r.Range(0, len(code))
				e := r.Range(b, len(code))
				if r.Chance(1, 25) {
					e = len(code) + r.Range(1, 2) // out of range
				}
				if r.Chance(1, 40) {
					b, e = e, b-1
				}
				p := 0
				if r.Chance(1, 8) {
					p = 1
				}
				parts = append(parts, fmt.Sprintf("%d.%d.%d", b, e, p))
			}
			check = "inj:" + strings.Join(parts, ";")
		}
		hc := 0
		if r.Chance(3, 4) {
			hc = r.Range(1, 4)
		}
		emitHl(code, check, hc, r.Bool())
	}
}

// ---------------------------------------------------------------- harness

func run(c *common.Ctx) error {
	s := &common.Std{
		Rule: "pure ops: the theme table (every key), fixRegions on random region lists (overlapping, nested, empty, shared begins, duplicates, out of order, a few inverted), " +
			"highlight() on fixed snippets and generated elvish code (valid / damaged / invalid UTF-8 / random bytes) without Check, with the real compiler's Check and with injected error ranges " +
			"(in range, out of range, partial), HasCommand nil / answering at once (late text returned) / held back (late text through lateCb); " +
			"trace ops: each history is one run of the real Highlighter (go build -tags verif) under 1..4 goroutines calling Get on a small pool of codes (so that c → c′ → c happens), " +
			"an editor goroutine that calls Get for the current code on every LateUpdates notification, InvalidateCache calls, HasCommand sleeping a seeded delay around maxBlockForLate, " +
			"GOMAXPROCS drawn from {1,2,4,8}; one op per recorded entry; non-trivial = any op but `o call`; distinct by op line",
		ExhaustiveNote: "schedules are sampled, not enumerated (the enumeration over all interleavings is the Lean proof)",
		Gen:            gen,
		NewState:       func(*common.Ctx) any { return &runState{} },
		Impl:           impl,
		Oracle:         oracle,
		Tag:            tag,
		Timeout:        60 * time.Second,
	}
	return s.Run(c)
}

func gen(c *common.Ctx, emit func(...string)) {
	genPure(c, emit)
	genConc(c, emit)
}

type runState struct {
	lines [][]string // op lines since the last reset
	desc  string
	check string
	hc    string
}

func impl(st any, f []string) string {
	rs := st.(*runState)
	switch f[0] {
	case "theme", "theme-cmd":
		return implTheme(f)
	case "fix":
		return implFix(f)
	case "hl":
		return implHl(f)
	case "reset":
		rs.lines = rs.lines[:0]
		rs.hc, rs.check, rs.desc = f[1], f[2], f[len(f)-1]
		return "ok"
	case "t", "o":
		rs.lines = append(rs.lines, f)
		return "ok"
	case "hang":
		rs.lines = append(rs.lines, f)
		return "HANG " + f[1]
	case "end":
		gets, stores := 0, 0
		for _, l := range rs.lines {
			if l[0] == "o" && l[1] == "ret" {
				gets++
			}
			if l[0] == "o" && l[1] == "late" {
				stores++
			}
		}
		return fmt.Sprintf("end gets=%d stores=%d", gets, stores)
	}
	return "bad-op"
}

func oracle(st any, f []string, out string) (string, string) {
	switch f[0] {
	case "fix":
		return oracleFix(f, out)
	case "hl":
		return oracleHl(f, out)
	case "t", "o", "hang":
		return oracleConc(st.(*runState), f)
	}
	return "", ""
}
