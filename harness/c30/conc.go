package c30

// Concurrent runs of the real Highlighter and their oracle.

import (
	"fmt"
	"runtime"
	"strconv"
	"strings"
	"sync"
	"sync/atomic"
	"time"

	"src.elv.sh/pkg/edit/highlight"
	"src.elv.sh/pkg/ui"
	"verifharness/common"
)

type action struct {
	kind  byte // 'G' Get(pool[code]) | 'V' InvalidateCache | 'E' bump the command epoch
	code  int
	pause int // 0 none, 1 Gosched, >1 sleep (pause-1)*10 µs
}

type scenario struct {
	kind       string // seq | race | aba | oob | epoch
	seed       uint64
	gomaxprocs int
	pool       []string
	check      string // nocheck | real | oobmark
	hc         bool   // cfg.HasCommand != nil
	epochs     bool   // HasCommand's answer also depends on a counter the actors bump
	block      time.Duration
	delayMax   int // HasCommand sleeps up to this many µs (seeded per call)
	actors     [][]action
}

func (s *scenario) describe() string {
	n := 0
	for _, a := range s.actors {
		n += len(a)
	}
	return fmt.Sprintf("%s/seed=%d/procs=%d/pool=%d/actors=%d/actions=%d/block=%s/delay=%d", s.kind, s.seed, s.gomaxprocs, len(s.pool), len(s.actors), n, s.block, s.delayMax)
}

func genPause(r *common.Rand) int {
	switch r.Intn(8) {
	case 0, 1:
		return 1
	case 2:
		return 2 + r.Intn(60)
	}
	return 0
}

func doPause(p int) {
	switch {
	case p == 1:
		runtime.Gosched()
	case p > 1:
		time.Sleep(time.Duration(p-1) * 10 * time.Microsecond)
	}
}

func genScenario(r *common.Rand, kind string, seed uint64) *scenario {
	s := &scenario{kind: kind, seed: seed, hc: true, check: "nocheck"}
	s.gomaxprocs = common.Pick(r, []int{1, 2, 2, 4, 8})
	s.block = common.Pick(r, []time.Duration{20 * time.Microsecond, 100 * time.Microsecond, 400 * time.Microsecond, 2 * time.Millisecond})
	s.delayMax = common.Pick(r, []int{0, 50, 300, 1000, 3000})
	g := &codeGen{r}
	np := r.Range(2, 5)
	withCmd := []string{"ls", "echo a | nosuchcmd", "put x; ls y", "if a { ls } else { x }", "e:cat f", "é 1"}
	for i := 0; i < np; i++ {
		switch r.Intn(4) {
		case 0:
			code, _ := g.anyCode()
			s.pool = append(s.pool, code)
		case 1:
			s.pool = append(s.pool, common.Pick(r, fixedCodes))
		default:
			s.pool = append(s.pool, common.Pick(r, withCmd)+strings.Repeat(" ", r.Intn(3)))
		}
	}
	if r.Chance(1, 2) {
		// a sibling of the same length (and the same first byte): only a full
		// comparison of the code tells them apart
		base := s.pool[r.Intn(len(s.pool))]
		if len(base) > 1 {
			b := []byte(base)
			if b[len(b)-1] == 'z' {
				b[len(b)-1] = 'y'
			} else {
				b[len(b)-1] = 'z'
			}
			s.pool = append(s.pool, string(b))
		}
	}
	if r.Chance(1, 3) {
		// the empty code is what an invalidated cache entry holds: a late result
		// stored after InvalidateCache would be served for Get("")
		s.pool = append(s.pool, "")
	}
	nActors := r.Range(1, 4)
	mk := func(n int, wGet, wInv, wEpoch int) []action {
		var as []action
		for i := 0; i < n; i++ {
			a := action{pause: genPause(r), code: r.Intn(len(s.pool))}
			x := r.Intn(wGet + wInv + wEpoch)
			switch {
			case x < wGet:
				a.kind = 'G'
			case x < wGet+wInv:
				a.kind = 'V'
			default:
				a.kind = 'E'
			}
			as = append(as, a)
		}
		return as
	}
	switch kind {
	case "seq": // the editor's own pattern: one goroutine changes the code
		nActors = 1
		s.actors = [][]action{mk(r.Range(3, 25), 12, 1, 0)}
		if r.Chance(1, 3) {
			s.check = "real"
		}
		if r.Chance(1, 5) {
			s.hc = false
		}
	case "race":
		for i := 0; i < nActors; i++ {
			s.actors = append(s.actors, mk(r.Range(2, 14), 12, 1, 0))
		}
		if r.Chance(1, 3) {
			s.check = "real"
		}
	case "aba": // c, c′, c with the lookup for c slower than the switches
		s.pool = []string{common.Pick(r, withCmd), common.Pick(r, withCmd) + " ", "'no command'"}
		s.delayMax = common.Pick(r, []int{300, 1000, 3000})
		s.block = common.Pick(r, []time.Duration{20 * time.Microsecond, 100 * time.Microsecond})
		var as []action
		for i := r.Range(1, 4); i > 0; i-- {
			as = append(as, action{kind: 'G', code: 0}, action{kind: 'G', code: r.Range(1, 2), pause: genPause(r)},
				action{kind: 'G', code: 0, pause: genPause(r)})
			if r.Chance(1, 3) {
				as = append(as, action{kind: 'G', code: 1, pause: 2 + r.Intn(120)})
			}
		}
		s.actors = [][]action{as}
		if r.Chance(1, 3) {
			s.actors = append(s.actors, mk(r.Range(1, 6), 6, 1, 0))
		}
	case "inv": // Get(c) with a slow lookup, InvalidateCache while it is in flight, then Get("")
		s.pool = []string{common.Pick(r, withCmd), "", common.Pick(r, withCmd) + " "}
		s.delayMax = common.Pick(r, []int{300, 1000, 3000})
		s.block = common.Pick(r, []time.Duration{20 * time.Microsecond, 100 * time.Microsecond})
		var as []action
		for i := r.Range(1, 3); i > 0; i-- {
			as = append(as, action{kind: 'G', code: 0}, action{kind: 'V', pause: genPause(r)},
				action{kind: 'G', code: 1, pause: 40 + r.Intn(400)}, action{kind: 'G', code: 1, pause: genPause(r)})
			if r.Chance(1, 3) {
				as = append(as, action{kind: 'G', code: 2, pause: genPause(r)})
			}
		}
		s.actors = [][]action{as}
	case "oob": // some codes make Check report a range outside the code: Get panics
		s.check = "oobmark"
		s.pool = append(s.pool, "ls OOB", "OOB", "echo 'OOB' | x")
		for i := 0; i < nActors; i++ {
			s.actors = append(s.actors, mk(r.Range(2, 12), 12, 1, 0))
		}
	case "epoch": // command existence changes while lookups are in flight
		s.epochs = true
		for i := 0; i < nActors; i++ {
			s.actors = append(s.actors, mk(r.Range(2, 14), 10, 1, 3))
		}
	}
	return s
}

type entry struct{ f []string }

// runScenario executes one scenario on a fresh real Highlighter and returns the
// unified trace (hook entries and harness observations in one order).
func runScenario(s *scenario) (trace []entry, hang string) {
	pureMu.Lock()
	defer pureMu.Unlock()
	oldProcs := runtime.GOMAXPROCS(s.gomaxprocs)
	defer runtime.GOMAXPROCS(oldProcs)
	oldBlock := highlight.VerifSetMaxBlockForLate(s.block)
	defer highlight.VerifSetMaxBlockForLate(oldBlock)

	var mu sync.Mutex
	on := true
	add := func(f ...string) {
		mu.Lock()
		if on {
			trace = append(trace, entry{f})
		}
		mu.Unlock()
	}
	var nHI, nResolved, nLS, nLate atomic.Int64
	highlight.VerifSetTrace(func(label string, args ...interface{}) {
		f := []string{"t", label, "-", "-"}
		for i, a := range args {
			if i >= 2 {
				break
			}
			switch v := a.(type) {
			case string:
				f[2+i] = common.Hex(v)
			case []highlight.VerifRegion:
				f[2+i] = fmtRegions(v)
			case ui.Text:
				f[2+i] = fmtText(v)
			default:
				f[2+i] = fmt.Sprint(v)
			}
		}
		add(f...)
		switch label {
		case "HI":
			nHI.Add(1)
		case "LS":
			nLS.Add(1)
			nResolved.Add(1)
		case "LD":
			nResolved.Add(1)
		}
	})
	defer highlight.VerifSetTrace(nil)

	var epoch, hcCalls atomic.Int64
	delayRand := common.NewRand(s.seed ^ 0x5bd1e995)
	var delayMu sync.Mutex
	cfg := highlight.Config{Check: checkFor(s.check)}
	if s.hc {
		cfg.HasCommand = func(name string) bool {
			hcCalls.Add(1)
			d := 0
			if s.delayMax > 0 {
				delayMu.Lock()
				switch delayRand.Intn(4) {
				case 0:
					d = 0
				case 1:
					d = -1
				default:
					d = delayRand.Range(1, s.delayMax)
				}
				delayMu.Unlock()
			}
			switch {
			case d < 0:
				runtime.Gosched()
			case d > 0:
				time.Sleep(time.Duration(d) * time.Microsecond)
			}
			e := 0
			if s.epochs {
				e = int(epoch.Load())
			}
			return hasMod(2, name+strconv.Itoa(e))
		}
	}
	hl := highlight.NewHighlighter(cfg)

	var callID atomic.Int64
	var cur atomic.Value // the code the "editor" currently shows
	cur.Store(s.pool[0])
	get := func(who int, code string) {
		id := callID.Add(1)
		add("o", "call", strconv.Itoa(who), strconv.FormatInt(id, 10), common.Hex(code))
		var text ui.Text
		panicked := true
		func() {
			defer func() { recover() }()
			text, _ = hl.Get(code)
			panicked = false
		}()
		if panicked {
			add("o", "panic", strconv.FormatInt(id, 10), common.Hex(code))
		} else {
			add("o", "ret", strconv.FormatInt(id, 10), common.Hex(code), fmtText(text))
		}
	}

	// the editor: every late update triggers a redraw, which asks for the
	// highlighting of the current code again
	stop := make(chan struct{})
	var edWG sync.WaitGroup
	edWG.Add(1)
	go func() {
		defer edWG.Done()
		for {
			select {
			case <-hl.LateUpdates():
				n := nLate.Add(1)
				add("o", "late", strconv.FormatInt(n, 10))
				get(0, cur.Load().(string))
			case <-stop:
				return
			}
		}
	}()

	var wg sync.WaitGroup
	for p, as := range s.actors {
		wg.Add(1)
		go func(p int, as []action) {
			defer wg.Done()
			for _, a := range as {
				doPause(a.pause)
				switch a.kind {
				case 'G':
					code := s.pool[a.code]
					cur.Store(code)
					get(p+1, code)
				case 'V':
					add("o", "inval", strconv.Itoa(p+1))
					hl.InvalidateCache()
				case 'E':
					epoch.Add(1)
				}
			}
		}(p, as)
	}
	done := make(chan struct{})
	go func() { wg.Wait(); close(done) }()
	select {
	case <-done:
	case <-time.After(20 * time.Second):
		hang = "actors-blocked"
	}
	if hang == "" {
		// quiescence: every late result in flight has been stored or dropped and
		// every notification has been received (and answered by a Get)
		deadline := time.Now().Add(20 * time.Second)
		for nHI.Load() != nResolved.Load() || nLS.Load() != nLate.Load() {
			if time.Now().After(deadline) {
				hang = fmt.Sprintf("late-results-outstanding started=%d resolved=%d stored=%d notified=%d", nHI.Load(), nResolved.Load(), nLS.Load(), nLate.Load())
				break
			}
			time.Sleep(50 * time.Microsecond)
		}
	}
	close(stop)
	if hang == "" {
		edWG.Wait()
		// settle: wait until nothing is in flight, receiving the notifications
		// ourselves now that the editor goroutine has stopped
		settle := func() {
			deadline := time.Now().Add(20 * time.Second)
			for nHI.Load() != nResolved.Load() || nLS.Load() != nLate.Load() {
				select {
				case <-hl.LateUpdates():
					add("o", "late", strconv.FormatInt(nLate.Add(1), 10))
				case <-time.After(50 * time.Microsecond):
				}
				if time.Now().After(deadline) {
					hang = "final-late-result-outstanding"
					return
				}
			}
		}
		settle() // the editor's last Get may have started a late result
		if hang == "" {
			// the last word: what the editor shows for the current code, now …
			get(0, cur.Load().(string))
			settle()
		}
		if hang == "" {
			// … and after everything has settled (a cache hit)
			get(0, cur.Load().(string))
		}
	}
	mu.Lock()
	on = false
	mu.Unlock()
	return
}

func genConc(c *common.Ctx, emit func(...string)) {
	n := c.Scale(220, 6000)
	kinds := []string{"seq", "race", "aba", "race", "epoch", "seq", "aba", "oob", "inv"}
	failures := 0
	for i := 0; i < n && failures < 3; i++ {
		kind := kinds[i%len(kinds)]
		seed := c.Rand.U64()
		sc := genScenario(common.NewRand(seed), kind, seed)
		trace, hang := runScenario(sc)
		hc := "0"
		if sc.hc {
			hc = "1"
		}
		emit("reset", hc, sc.check, sc.describe())
		for _, e := range trace {
			emit(e.f...)
		}
		if hang != "" {
			emit("hang", hang)
			failures++
		} else {
			emit("end", "x")
		}
	}
}

// ---------------------------------------------------------------- oracle

// refCache: the reference highlighting of a code under a Check description,
// computed by the real highlight() with HasCommand == nil (all commands styled
// as good commands) — what a returned text may differ from only in the style
// of its command segments.
var refCache = map[string]refEntry{}

type refEntry struct {
	ref    []seg
	cmdSeg map[int]bool
	ok     bool
}

func reference(code, check string) ([]seg, map[int]bool, bool) {
	key := check + "\x00" + code
	if e, ok := refCache[key]; ok {
		return e.ref, e.cmdSeg, e.ok
	}
	ref, cmdSeg, ok := reference1(code, check)
	if len(refCache) > 4096 {
		refCache = map[string]refEntry{}
	}
	refCache[key] = refEntry{ref, cmdSeg, ok}
	return ref, cmdSeg, ok
}

func reference1(code, check string) ([]seg, map[int]bool, bool) {
	res := runHighlight(code, check, 0, true)
	if res.panicked {
		return nil, nil, false
	}
	ref := parseText(fmtText(res.text))
	cmdSeg := map[int]bool{}
	// segments of command regions: recomputed from the kept regions
	pos, idx := 0, 0
	for _, r := range res.cap.fixed {
		if r.Begin > pos {
			idx++
		}
		if r.Type == highlight.VerifCommandRegion {
			cmdSeg[idx] = true
		}
		idx++
		pos = r.End
	}
	return ref, cmdSeg, true
}

// oracleConc evaluates C30 on the harness-side observations: every text a Get
// call returned — the immediate result, a cache hit after a late update, the
// final state — consists of exactly the code it was asked for, and is a
// highlighting computed for that code (the reference segmentation and styles,
// command segments either all unstyled or each good/bad).
func oracleConc(rs *runState, f []string) (string, string) {
	if f[0] == "hang" {
		return "highlighter-hang", f[1] + " in " + rs.desc
	}
	if f[0] != "o" || f[1] != "ret" {
		return "", ""
	}
	code := common.Unhex(f[3])
	got := parseText(f[4])
	if p := plainOf(got); p != code {
		return "text-changed", fmt.Sprintf("Get(%q) returned a text reading %q (%s)", code, p, rs.desc)
	}
	ref, cmdSeg, ok := reference(code, rs.check)
	if !ok {
		return "", ""
	}
	if len(ref) != len(got) {
		return "not-computed-for-code", fmt.Sprintf("Get(%q) returned %d segments, highlight gives %d", code, len(got), len(ref))
	}
	unstyled, styled := 0, 0
	for i := range ref {
		if ref[i].text != got[i].text {
			return "not-computed-for-code", fmt.Sprintf("Get(%q): segment %d is %q, highlight gives %q", code, i, got[i].text, ref[i].text)
		}
		if cmdSeg[i] && rs.hc == "1" {
			switch got[i].style {
			case "//":
				unstyled++
			case "green//", "red//":
				styled++
			default:
				return "not-computed-for-code", fmt.Sprintf("Get(%q): command segment %d has style %s", code, i, got[i].style)
			}
		} else if ref[i].style != got[i].style {
			return "not-computed-for-code", fmt.Sprintf("Get(%q): segment %d %q has style %s, highlight gives %s", code, i, got[i].text, got[i].style, ref[i].style)
		}
	}
	if unstyled > 0 && styled > 0 {
		return "not-computed-for-code", fmt.Sprintf("Get(%q): command segments partly restyled", code)
	}
	return "", ""
}

// ---------------------------------------------------------------- tags

var tagState struct {
	changes int              // GM + IV so far
	started map[string][]int // per code: value of `changes` when each in-flight late result started
	lastGM  string
	gmCode  string
	path    string
}

func tag(f []string, out string) string {
	switch f[0] {
	case "theme", "theme-cmd":
		return "theme"
	case "fix":
		if strings.HasPrefix(out, "ok") {
			in, kept := parseRegions(f[1]), parseRegions(out[3:])
			tie := false
			for i := range in {
				for j := range in {
					if i != j && in[i].Begin == in[j].Begin && in[i].Kind == in[j].Kind && in[i] != in[j] {
						tie = true
					}
				}
			}
			switch {
			case len(in) == 0:
				return "fix:empty"
			case tie:
				return "fix:sort-tie"
			case len(kept) < len(in):
				return "fix:dropped-overlap"
			}
			return "fix:all-kept"
		}
		return "fix:" + strings.SplitN(out, " ", 2)[0]
	case "hl":
		if !strings.HasPrefix(out, "ok") {
			return "hl:" + strings.SplitN(out, " ", 2)[0] + ":" + strings.SplitN(f[2], ":", 2)[0]
		}
		_, imm, late, _ := splitOK(out)
		t := "hl:" + strings.SplitN(f[2], ":", 2)[0]
		switch {
		case late != "-":
			t += ":late-via-callback"
		case f[3] != "nil" && f[4] == "fast" && (strings.Contains(imm, ":green//") || strings.Contains(imm, ":red//")):
			t += ":late-returned"
		case f[3] == "nil":
			t += ":no-lookup"
		default:
			t += ":no-command"
		}
		if strings.Contains(f[5], ":"+common.Hex("error")) {
			t += ":error-region"
		}
		code := common.Unhex(f[1])
		if !validUTF8(code) {
			t += ":invalid-utf8"
		}
		return t
	case "reset":
		tagState.changes, tagState.started = 0, map[string][]int{}
		if f[1] == "pure" {
			return ""
		}
		return "run:" + strings.SplitN(f[len(f)-1], "/", 2)[0]
	case "t":
		switch f[1] {
		case "GL":
			tagState.gmCode, tagState.path = f[2], ""
		case "HI", "HF", "HN":
			tagState.path = f[1]
		case "GM":
			tagState.changes++
			if tagState.path == "HI" {
				tagState.started[f[2]] = append(tagState.started[f[2]], tagState.changes)
			}
			return "GM:" + tagState.path
		case "IV":
			tagState.changes++
		case "LS", "LD":
			st := tagState.started[f[2]]
			aba := false
			if len(st) > 0 {
				aba = tagState.changes > st[0]
				tagState.started[f[2]] = st[1:]
			}
			if f[1] == "LS" && aba {
				return "LS:after-c-c'-c"
			}
			if f[1] == "LD" {
				return "LD:stale-result-dropped"
			}
		case "RP", "RS", "RF":
			return "regions"
		}
		return f[1]
	case "o":
		switch f[1] {
		case "call":
			return ""
		case "panic":
			return "o:get-panicked"
		}
		return "o:" + f[1]
	case "end":
		return "end"
	case "hang":
		return "hang"
	}
	return ""
}

func validUTF8(s string) bool {
	for _, r := range s {
		if r == 0xFFFD {
			// either a real U+FFFD or a decoding error; good enough for a tag
			return strings.ToValidUTF8(s, "") == s
		}
	}
	return true
}
