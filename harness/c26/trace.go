package c26

// Trace refinement (round 2): the protocol trace recorded by the hook of
// hooks/C26-daemon-trace.patch (pkg/rpc/trace_verif.go) in a traced run is
// turned into `tr` op lines, one per entry, followed by `trend <n>`; the Lean
// driver feeds them to the acceptor C26.acceptAll (proved sound:
// C26_acceptor_sound), which must answer `trace-ok <n>`.
//
// Requests and replies are the REAL structs the code passed around (the
// entries hold the pointers); they are rendered here with the same field
// syntax as the `inv` / `res` lines.  pkg/daemon/internal/api cannot be
// imported from outside, hence reflection on field names.

import (
	"fmt"
	"reflect"
	"sort"
	"strconv"
	"strings"

	"src.elv.sh/pkg/rpc"
	"src.elv.sh/pkg/store/storedefs"
	"verifharness/common"
)

func methodName(m string) string {
	if i := strings.LastIndex(m, "."); i >= 0 {
		return m[i+1:]
	}
	return m
}

func structOf(x any) reflect.Value {
	v := reflect.ValueOf(x)
	for v.IsValid() && (v.Kind() == reflect.Ptr || v.Kind() == reflect.Interface) {
		v = v.Elem()
	}
	return v
}

func fInt(v reflect.Value, name string) string {
	return strconv.FormatInt(v.FieldByName(name).Int(), 10)
}
func fStr(v reflect.Value, name string) string    { return v.FieldByName(name).String() }
func fFloat(v reflect.Value, name string) float64 { return v.FieldByName(name).Float() }

// opOfRequest renders a request struct as op fields.
func opOfRequest(method string, req any) (f []string, err error) {
	defer func() {
		if r := recover(); r != nil {
			f, err = nil, fmt.Errorf("request of %s: %v", method, r)
		}
	}()
	v := structOf(req)
	switch methodName(method) {
	case "Version":
		return []string{"version"}, nil
	case "AddCmd":
		return []string{"add", common.Hex(fStr(v, "Text"))}, nil
	case "DelCmd":
		return []string{"del", fInt(v, "Seq")}, nil
	case "Cmd":
		return []string{"get", fInt(v, "Seq")}, nil
	case "CmdsWithSeq":
		return []string{"list", fInt(v, "From"), fInt(v, "Upto")}, nil
	case "NextCmd":
		return []string{"next", fInt(v, "From"), common.Hex(fStr(v, "Prefix"))}, nil
	case "PrevCmd":
		return []string{"prev", fInt(v, "Upto"), common.Hex(fStr(v, "Prefix"))}, nil
	case "NextCmdSeq":
		return []string{"nseq"}, nil
	case "AddDir":
		return []string{"adddir", common.Hex(fStr(v, "Dir")), bits(fFloat(v, "IncFactor"))}, nil
	case "DelDir":
		return []string{"deldir", common.Hex(fStr(v, "Dir"))}, nil
	case "Dirs":
		var ks []string
		bl := v.FieldByName("Blacklist")
		for _, k := range bl.MapKeys() {
			ks = append(ks, common.Hex(k.String()))
		}
		sort.Strings(ks)
		if len(ks) == 0 {
			return []string{"dirs", "-"}, nil
		}
		return []string{"dirs", strings.Join(ks, ",")}, nil
	}
	return nil, fmt.Errorf("unknown method %q", method)
}

// outOfReply renders a reply struct (or the error the method returned) as result fields.
func outOfReply(method string, reply any, errmsg string) (f []string, err error) {
	defer func() {
		if r := recover(); r != nil {
			f, err = nil, fmt.Errorf("reply of %s: %v", method, r)
		}
	}()
	if errmsg != "" {
		return errFields(rpc.ServerError(errmsg)), nil
	}
	v := structOf(reply)
	switch methodName(method) {
	case "Version":
		return []string{"version"}, nil
	case "AddCmd":
		return []string{"seq", fInt(v, "Seq")}, nil
	case "DelCmd":
		return []string{"unit"}, nil
	case "Cmd":
		return []string{"text", common.Hex(fStr(v, "Text"))}, nil
	case "CmdsWithSeq":
		cs, _ := v.FieldByName("Cmds").Interface().([]storedefs.Cmd)
		parts := make([]string, len(cs))
		for i, c := range cs {
			parts[i] = showCmd(c.Seq, c.Text)
		}
		if len(parts) == 0 {
			return []string{"cmds", "-"}, nil
		}
		return []string{"cmds", strings.Join(parts, ",")}, nil
	case "NextCmd", "PrevCmd":
		return []string{"cmd", showCmd(int(v.FieldByName("Seq").Int()), fStr(v, "Text"))}, nil
	case "NextCmdSeq":
		return []string{"nseq", fInt(v, "Seq")}, nil
	case "AddDir", "DelDir":
		return []string{"ok"}, nil
	case "Dirs":
		ds, _ := v.FieldByName("Dirs").Interface().([]storedefs.Dir)
		return []string{"dirs", canonDirs(ds)}, nil
	}
	return nil, fmt.Errorf("unknown method %q", method)
}

// traceLines renders the recorded entries as `tr` lines (without the leading "tr").
func traceLines(entries []rpc.VerifEntry) [][]string {
	var out [][]string
	callMethod := map[int]string{}
	itoa := strconv.Itoa
	for _, e := range entries {
		seq := strconv.FormatUint(e.Seq, 10)
		switch e.Kind {
		case "new":
			out = append(out, []string{"new", itoa(e.A)})
		case "invoke":
			callMethod[e.A] = e.Method
			op, err := opOfRequest(e.Method, e.Args)
			if err != nil {
				op = []string{"unrenderable", common.Hex(err.Error())}
			}
			out = append(out, append([]string{"invoke", itoa(e.A), itoa(e.B)}, op...))
		case "dial":
			out = append(out, []string{"dial", itoa(e.A), itoa(e.B)})
		case "send":
			out = append(out, []string{"send", itoa(e.A), itoa(e.B), seq})
		case "sendsd", "giveup", "reterr", "dialfail":
			out = append(out, []string{e.Kind, itoa(e.A)})
		case "read":
			op, err := opOfRequest(e.Method, e.Args)
			if err != nil {
				op = []string{"unrenderable", common.Hex(err.Error())}
			}
			out = append(out, append([]string{"read", itoa(e.B), seq}, op...))
		case "commit":
			res, err := outOfReply(e.Method, e.Reply, e.Err)
			if err != nil {
				res = []string{"unrenderable", common.Hex(err.Error())}
			}
			out = append(out, append([]string{"commit", itoa(e.B), seq}, res...))
		case "lock", "whdr", "wbody", "recv":
			out = append(out, []string{e.Kind, itoa(e.B), seq})
		case "ret":
			res, err := outOfReply(callMethod[e.A], e.Reply, e.Err)
			if err != nil {
				res = []string{"unrenderable", common.Hex(err.Error())}
			}
			out = append(out, append([]string{"ret", itoa(e.A)}, res...))
		case "ieof", "ierr":
			out = append(out, []string{e.Kind, itoa(e.B)})
		default:
			out = append(out, []string{"unknown-entry", e.Kind})
		}
	}
	return out
}
