package c26

import (
	"bufio"
	"fmt"
	"os"
	"strings"
	"testing"
	"time"
	"verifharness/common"
)

// TestSearchOnRecorded re-runs the witness search on the histories of a
// recorded ops file (C26_OPS=path go test -run TestSearchOnRecorded).
func TestSearchOnRecorded(t *testing.T) {
	path := os.Getenv("C26_OPS")
	if path == "" {
		t.Skip("C26_OPS not set")
	}
	f, err := os.Open(path)
	if err != nil {
		t.Fatal(err)
	}
	defer f.Close()
	sc := bufio.NewScanner(f)
	sc.Buffer(make([]byte, 1<<20), 1<<26)
	st := &runState{}
	st.reset("none")
	flush := func() {
		if len(st.order) == 0 {
			return
		}
		var ops []*opRec
		for _, id := range st.order {
			ops = append(ops, st.ops[id])
		}
		var parts [2][]*opRec
		pendMut := [2]int{}
		prepare(ops)
		for _, o := range ops {
			if o.skip {
				continue
			}
			k := 0
			if isDirOp(o) {
				k = 1
			}
			parts[k] = append(parts[k], o)
			if !o.done {
				pendMut[k]++
			}
		}
		if os.Getenv("C26_VERBOSE") != "" {
			for _, o := range ops {
				if !o.done && !o.skip {
					fmt.Printf("  pending id=%d client=%d inv=%d %v expect=%q free=%v\n", o.id, o.client, o.inv, o.op, o.expect, o.free)
				}
			}
		}
		for k, p := range parts {
			t0 := time.Now()
			r := searchObject(p, 1_000_000, -1, nil)
			if !r.found {
				rng := common.NewRand(1)
				for k := 0; k < 16 && !r.found; k++ {
					r = searchObject(p, 100_000, -1, rng)
					fmt.Printf("   restart %d: found=%v steps=%d\n", k, r.found, r.steps)
				}
			}
			if !r.found || r.steps > 100000 {
				fmt.Printf("obj%d %-5v steps=%-8d back=%-8d ops=%-4d pend=%-3d %6.2fs %s\n   stuck: %s\n", k, r.found, r.steps, r.backtracks, len(p), pendMut[k], time.Since(t0).Seconds(), st.desc, r.stuck)
			}
		}
	}
	for sc.Scan() {
		fl := strings.Split(sc.Text(), "\t")
		if fl[0] == "reset" {
			flush()
		}
		impl(st, fl)
	}
	flush()
}
