package c26

// UNTRUSTED witness search: a Go reference model of the sequential store and a
// Wing–Gong/Lowe style depth-first search (with memoisation of failed
// configurations) for an order of the operations of a recorded history that
// respects real time and replays on the reference model.  Whatever it finds is
// VALIDATED by the Lean function C26.isLinearization (the proved part); a bug
// here can only produce a rejected witness or a missed one, both visible.

import (
	"fmt"
	"math"
	"sort"
	"strconv"
	"strings"

	"src.elv.sh/pkg/store"
	"src.elv.sh/pkg/store/storedefs"
	"verifharness/common"
)

const pendingRes = int64(math.MaxInt64)

// opRec is one operation of a recorded history.
type opRec struct {
	id     int
	client int
	op     []string // op fields as on the `inv` line: name, args…
	inv    int64
	res    int64 // pendingRes: no response (RPC-level error, hang)
	done   bool
	out    []string // result fields as on the `res` line
	fail   string   // class of the RPC-level error when !done
	outKey string
	expect string       // result the operation must have in a witness (completed: what the client saw; pending add seen in a later read: its number)
	skip   bool         // pending and provably without observable effect: left out of the witness
	failAt int64        // pending: stamp at which the caller got its error (0 = unknown, e.g. in a replay)
	free   map[int]bool // pending AddCmd never seen again: if it took effect it got one of these numbers
}

// ---------------------------------------------------------- reference model

type refEntry struct {
	seq  uint64
	text string
}

type refState struct {
	entries []refEntry // ascending seq
	counter uint64
	dirs    map[string]float64
	ehash   uint64 // xor of entry hashes
}

func newRefState() *refState { return &refState{dirs: map[string]float64{}} }

func fnv(s string, seed uint64) uint64 {
	h := uint64(14695981039346656037) ^ seed*0x9E3779B97F4A7C15
	for i := 0; i < len(s); i++ {
		h ^= uint64(s[i])
		h *= 1099511628211
	}
	h ^= h >> 29
	h *= 0xBF58476D1CE4E5B9
	h ^= h >> 32
	return h
}

func entryHash(e refEntry) uint64 { return fnv(e.text, e.seq+1) }

func (s *refState) hash() uint64 {
	h := s.ehash ^ (s.counter+1)*0x94D049BB133111EB
	if len(s.dirs) > 0 {
		keys := make([]string, 0, len(s.dirs))
		for k := range s.dirs {
			keys = append(keys, k)
		}
		sort.Strings(keys)
		for _, k := range keys {
			h = h*31 + fnv(k, math.Float64bits(s.dirs[k]))
		}
	}
	return h
}

func showCmd(seq int, text string) string { return strconv.Itoa(seq) + ":" + common.Hex(text) }

func bits(f float64) string { return strconv.FormatUint(math.Float64bits(f), 10) }

func roundScore(f float64) float64 {
	g, _ := strconv.ParseFloat(strconv.FormatFloat(f, 'E', store.DirScorePrecision, 64), 64)
	return g
}

func atoi(s string) int {
	n, err := strconv.Atoi(s)
	if err != nil {
		panic("bad int field " + s)
	}
	return n
}

func fbits(s string) float64 {
	n, err := strconv.ParseUint(s, 10, 64)
	if err != nil {
		panic("bad bits field " + s)
	}
	return math.Float64frombits(n)
}

func parseHexList(s string) []string {
	if s == "-" {
		return nil
	}
	var l []string
	for _, h := range strings.Split(s, ",") {
		l = append(l, common.Unhex(h))
	}
	return l
}

// canonDirs prints a listing with runs of equal scores ordered by path
// (sort.Sort is unstable: the order inside a run is unspecified; the Lean
// model keeps key order there).
func canonDirs(ds []storedefs.Dir) string {
	ds = append([]storedefs.Dir(nil), ds...)
	for i := 0; i < len(ds); {
		j := i
		for j < len(ds) && ds[j].Score == ds[i].Score {
			j++
		}
		sort.Slice(ds[i:j], func(a, b int) bool { return ds[i+a].Path < ds[i+b].Path })
		i = j
	}
	if len(ds) == 0 {
		return "-"
	}
	parts := make([]string, len(ds))
	for i, d := range ds {
		parts[i] = common.Hex(d.Path) + ":" + bits(d.Score)
	}
	return strings.Join(parts, ",")
}

// apply runs one operation on the reference state; it returns the result
// fields (joined by tabs) and a function that undoes the state change.
func (s *refState) apply(op []string) (string, func()) {
	nop := func() {}
	switch op[0] {
	case "add":
		s.counter++
		e := refEntry{s.counter, common.Unhex(op[1])}
		s.entries = append(s.entries, e)
		s.ehash ^= entryHash(e)
		return "seq\t" + strconv.Itoa(int(s.counter)), func() {
			s.entries = s.entries[:len(s.entries)-1]
			s.ehash ^= entryHash(e)
			s.counter--
		}
	case "del":
		n := uint64(atoi(op[1]))
		for i, e := range s.entries {
			if e.seq == n {
				old := s.entries
				s.entries = append(append([]refEntry(nil), old[:i]...), old[i+1:]...)
				s.ehash ^= entryHash(e)
				return "unit", func() { s.entries = old; s.ehash ^= entryHash(e) }
			}
		}
		return "unit", nop
	case "get":
		n := uint64(atoi(op[1]))
		for _, e := range s.entries {
			if e.seq == n {
				return "text\t" + common.Hex(e.text), nop
			}
		}
		return "err\tnomatch", nop
	case "list":
		from, upto := uint64(atoi(op[1])), uint64(atoi(op[2]))
		var parts []string
		for _, e := range s.entries {
			if e.seq >= from && e.seq < upto {
				parts = append(parts, showCmd(int(e.seq), e.text))
			}
		}
		if len(parts) == 0 {
			return "cmds\t-", nop
		}
		return "cmds\t" + strings.Join(parts, ","), nop
	case "next":
		from, p := uint64(atoi(op[1])), common.Unhex(op[2])
		for _, e := range s.entries {
			if e.seq >= from && strings.HasPrefix(e.text, p) {
				return "cmd\t" + showCmd(int(e.seq), e.text), nop
			}
		}
		return "err\tnomatch", nop
	case "prev":
		upto, p := uint64(atoi(op[1])), common.Unhex(op[2])
		for i := len(s.entries) - 1; i >= 0; i-- {
			e := s.entries[i]
			if e.seq < upto && strings.HasPrefix(e.text, p) {
				return "cmd\t" + showCmd(int(e.seq), e.text), nop
			}
		}
		return "err\tnomatch", nop
	case "nseq":
		return "nseq\t" + strconv.Itoa(int(s.counter+1)), nop
	case "adddir":
		d, f := common.Unhex(op[1]), fbits(op[2])
		if d == "" {
			return "err\tkeyrequired", nop
		}
		old := s.dirs
		nw := make(map[string]float64, len(old)+1)
		for k, v := range old {
			nw[k] = roundScore(v * store.DirScoreDecay)
		}
		nw[d] = roundScore(nw[d] + store.DirScoreIncrement*f)
		s.dirs = nw
		return "ok", func() { s.dirs = old }
	case "deldir":
		d := common.Unhex(op[1])
		if v, ok := s.dirs[d]; ok {
			delete(s.dirs, d)
			return "ok", func() { s.dirs[d] = v }
		}
		return "ok", nop
	case "dirs":
		bl := map[string]bool{}
		for _, b := range parseHexList(op[1]) {
			bl[b] = true
		}
		var ds []storedefs.Dir
		for k, v := range s.dirs {
			if !bl[k] {
				ds = append(ds, storedefs.Dir{Path: k, Score: v})
			}
		}
		sort.Slice(ds, func(a, b int) bool {
			if ds[a].Score != ds[b].Score {
				return ds[a].Score > ds[b].Score
			}
			return ds[a].Path < ds[b].Path
		})
		return "dirs\t" + canonDirs(ds), nop
	}
	panic("unknown op " + op[0])
}

// ------------------------------------------------------------------- search

type searchResult struct {
	order      []int // ids in witness order
	found      bool
	exhausted  bool // the whole space was searched (no witness exists for the reference model)
	steps      int
	backtracks int
	stuck      string // diagnostic: the deepest point reached and a reply that could not be explained there
}

// isDirOp: the directory history and the command history are independent
// objects (disjoint buckets); by the locality of linearizability the two
// sub-histories can be searched separately and their witnesses merged.
func isDirOp(o *opRec) bool {
	return o.op[0] == "adddir" || o.op[0] == "deldir" || o.op[0] == "dirs"
}

func isReadOnly(o *opRec) bool {
	switch o.op[0] {
	case "get", "list", "next", "prev", "nseq", "dirs":
		return true
	}
	return false
}

// search looks for a linearization of ops: an order of a subset containing
// every completed operation that respects real time and replays on the
// reference model.  Pending read-only operations are left out (always
// allowed); the two objects are searched separately and merged.
func search(ops []*opRec, budget int) searchResult {
	prepare(ops)
	var parts [2][]*opRec
	for _, o := range ops {
		if o.skip {
			continue
		}
		if isDirOp(o) {
			parts[1] = append(parts[1], o)
		} else {
			parts[0] = append(parts[0], o)
		}
	}
	total := searchResult{found: true, exhausted: true}
	var orders [2][]int
	for k, p := range parts {
		// Stages: a pending operation (its caller got a connection error) that took
		// effect did so, as a rule, close to the moment the error was seen.  The
		// first stages only try placements up to `slack` stamps after that moment
		// (a much smaller space); the last stage is unrestricted, and only its
		// failure means that no witness exists.
		var r searchResult
		type stage struct {
			slack  int64
			budget int
			random bool
		}
		stages := []stage{{0, budget / 8, false}, {8, budget / 8, false}, {64, budget / 8, false}, {-1, budget / 4, false}}
		for k := 0; k < 16; k++ { // randomised restarts against thrashing after an early wrong choice
			stages = append(stages, stage{-1, budget / 16, true})
		}
		stages = append(stages, stage{-1, budget, false})
		rng := common.NewRand(uint64(len(p))*7919 + uint64(k))
		for _, sg := range stages {
			var rr *common.Rand
			if sg.random {
				rr = rng
			}
			r = searchObject(p, sg.budget, sg.slack, rr)
			total.steps += r.steps
			total.backtracks += r.backtracks
			if r.found {
				break
			}
		}
		if !r.found {
			total.found = false
			total.exhausted = r.exhausted
			total.stuck = r.stuck
			return total
		}
		orders[k] = r.order
	}
	order, ok := merge(ops, orders[0], orders[1])
	if !ok {
		total.found, total.exhausted = false, false
		return total
	}
	total.order = order
	return total
}

// prepare sets expect/skip.  Reductions for pending operations (all
// equivalence preserving: a witness may always leave a pending operation out,
// and an effect nobody observed can be left out with it):
//   - pending read-only operations are left out;
//   - a pending AddCmd whose (unique) text shows up in some later read took
//     effect with the number seen there; one whose text never shows up, not
//     even in the closing complete listing, can only have received one of the
//     numbers ≤ the closing counter that are unaccounted for (and was deleted
//     again): if there is no such number it is left out, otherwise it may only
//     be placed where it receives such a number;
//   - a pending DelCmd whose target is still in the closing listing, or is a
//     number that never existed, is left out.
func prepare(ops []*opRec) {
	seen := map[string]int{} // text → number, from completed reads
	note := func(e string) {
		if i := strings.Index(e, ":"); i >= 0 {
			seen[common.Unhex(e[i+1:])] = atoi(e[:i])
		}
	}
	var fin *opRec
	finalCounter := -1
	for _, o := range ops {
		o.outKey = strings.Join(o.out, "\t")
		o.expect, o.skip, o.free = "", false, nil
		if !o.done {
			continue
		}
		o.expect = o.outKey
		switch o.out[0] {
		case "cmds":
			if o.out[1] != "-" {
				for _, e := range strings.Split(o.out[1], ",") {
					note(e)
				}
			}
			if o.client == 0 && o.op[1] == "0" && o.op[2] == "-1" {
				fin = o
			}
		case "cmd":
			note(o.out[1])
		case "text":
			if o.op[0] == "get" {
				seen[common.Unhex(o.out[1])] = atoi(o.op[1])
			}
		case "nseq":
			if o.client == 0 {
				finalCounter = atoi(o.out[1]) - 1
			}
		}
	}
	// is fin really a closing listing (invoked after every completed operation returned)?
	if fin != nil {
		for _, o := range ops {
			if o != fin && o.done && o.res > fin.inv && !isReadOnly(o) {
				fin = nil
				break
			}
		}
	}
	used := map[int]bool{}
	for _, o := range ops {
		if o.op[0] == "add" && o.done && o.out[0] == "seq" {
			used[atoi(o.out[1])] = true
		}
	}
	var unseen []*opRec
	for _, o := range ops {
		if o.done {
			continue
		}
		if isReadOnly(o) {
			o.skip = true
			continue
		}
		if o.op[0] == "add" {
			if n, ok := seen[common.Unhex(o.op[1])]; ok {
				o.expect = "seq\t" + strconv.Itoa(n)
				used[n] = true
			} else {
				unseen = append(unseen, o)
			}
		}
	}
	if fin == nil || finalCounter < 0 {
		return // no closing observations (the run hung): no further reduction
	}
	finalHas := map[int]bool{}
	if fin.out[1] != "-" {
		for _, e := range strings.Split(fin.out[1], ",") {
			finalHas[atoi(e[:strings.Index(e, ":")])] = true
		}
	}
	// Numbers 1..finalCounter were all issued.  Those not returned to anybody and
	// not seen under the text of a pending add went to pending adds that were
	// never seen again (so they were deleted before any read could show them):
	// exactly that many of the unseen pending adds took effect, with these numbers.
	freeSet := map[int]bool{}
	for n := 1; n <= finalCounter; n++ {
		if !used[n] {
			freeSet[n] = true
		}
	}
	free := func(n int) bool { return freeSet[n] }
	if len(freeSet) == 0 {
		for _, o := range unseen {
			o.skip = true
		}
		unseen = nil
	}
	for _, o := range unseen {
		o.free = freeSet
	}
	for _, o := range ops {
		if o.done || o.op[0] != "del" {
			continue
		}
		n := atoi(o.op[1])
		if finalHas[n] || !(used[n] || (len(unseen) > 0 && free(n))) {
			o.skip = true
		}
	}
}

// merge interleaves the witnesses of the two objects into one order that
// respects real time (a topological sort of: each witness order, and a → b
// whenever a returned before b was invoked; acyclic by the locality theorem).
func merge(ops []*opRec, a, b []int) ([]int, bool) {
	byID := map[int]*opRec{}
	for _, o := range ops {
		byID[o.id] = o
	}
	// repeatedly take the head of a or b that is not preceded (in real time)
	// by any operation still waiting in the other list
	minRes := func(l []int) int64 {
		m := pendingRes
		for _, id := range l {
			if r := byID[id].res; r < m {
				m = r
			}
		}
		return m
	}
	var out []int
	for len(a) > 0 || len(b) > 0 {
		switch {
		case len(a) > 0 && byID[a[0]].inv < minRes(b):
			out, a = append(out, a[0]), a[1:]
		case len(b) > 0 && byID[b[0]].inv < minRes(a):
			out, b = append(out, b[0]), b[1:]
		default:
			return nil, false
		}
	}
	return out, true
}

func searchObject(ops []*opRec, budget int, slack int64, rng *common.Rand) searchResult {
	n := len(ops)
	// latest point (as a bound on the invocation stamps of what precedes it in the
	// order) at which a pending operation may still be placed
	limit := make([]int64, n)
	for i, o := range ops {
		limit[i] = pendingRes
		if !o.done && slack >= 0 && o.failAt > 0 {
			limit[i] = o.failAt + slack
		}
	}
	var maxPlacedInv int64
	bestDepth := 0
	// candidates are tried in order of response (operations that returned
	// earlier tend to have taken effect earlier); pending ones — which may
	// also be left out — last, in invocation order
	idx := make([]int, n)
	for i := range idx {
		idx[i] = i
	}
	prio := make([]int64, n)
	for i, o := range ops {
		switch {
		case rng != nil:
			// a randomised restart: perturbed order, pending operations no longer last
			base := o.inv
			if o.done && rng.Bool() {
				base = o.res
			}
			prio[i] = base + int64(rng.Intn(24))
		case o.done:
			prio[i] = o.res
		default:
			prio[i] = pendingRes/2 + o.inv
		}
	}
	sort.Slice(idx, func(a, b int) bool { return prio[idx[a]] < prio[idx[b]] })
	// symmetry: among pending operations with identical fields only the one
	// invoked first may be placed next (the others have later invocations and
	// equally open ends, so swapping them in preserves any witness)
	byInv := make([]int, n)
	copy(byInv, idx)
	sort.Slice(byInv, func(a, b int) bool { return ops[byInv[a]].inv < ops[byInv[b]].inv })
	prevSame := make([]int, n)
	lastSame := map[string]int{}
	for _, i := range byInv {
		prevSame[i] = -1
		if o := ops[i]; !o.done {
			k := strings.Join(o.op, "\t") + "\x00" + o.expect
			if p, ok := lastSame[k]; ok {
				prevSame[i] = p
			}
			lastSame[k] = i
		}
	}
	// numbers returned by completed AddCmd calls: when the next number is none of
	// them, the next add to take effect is a pending one — try those first
	doneSeq := map[uint64]bool{}
	for _, o := range ops {
		if o.done && o.op[0] == "add" && len(o.out) == 2 && o.out[0] == "seq" {
			doneSeq[uint64(atoi(o.out[1]))] = true
		}
	}
	cand := make([]int, 0, n)
	st := newRefState()
	placed := make([]bool, n)
	words := (n + 63) / 64
	set := make([]uint64, words)
	remainingDone := 0
	for _, o := range ops {
		if o.done {
			remainingDone++
		}
	}
	failed := map[string]bool{}
	var order []int
	res := searchResult{}
	key := func() string {
		var sb strings.Builder
		for _, w := range set {
			sb.WriteString(strconv.FormatUint(w, 36))
			sb.WriteByte('.')
		}
		sb.WriteString(strconv.FormatUint(st.hash(), 36))
		return sb.String()
	}
	var dfs func() bool
	dfs = func() bool {
		if remainingDone == 0 {
			return true
		}
		if res.steps >= budget {
			return false
		}
		k := key()
		if failed[k] {
			return false
		}
		// the earliest response among the operations not yet placed
		minRes := pendingRes
		for i, o := range ops {
			if !placed[i] && o.res < minRes {
				minRes = o.res
			}
		}
		cand = cand[:0]
		if !doneSeq[st.counter+1] {
			for _, i := range idx {
				if o := ops[i]; !o.done && o.op[0] == "add" {
					cand = append(cand, i)
				}
			}
			for _, i := range idx {
				if o := ops[i]; o.done || o.op[0] != "add" {
					cand = append(cand, i)
				}
			}
		} else {
			cand = append(cand, idx...)
		}
		for _, i := range append([]int(nil), cand...) {
			o := ops[i]
			if placed[i] || o.inv > minRes {
				continue
			}
			if p := prevSame[i]; slack < 0 && p >= 0 && !placed[p] {
				continue // identical pending operations are placed in invocation order
			}
			if maxPlacedInv > limit[i] {
				continue // restricted stage: too late for this pending operation
			}
			res.steps++
			var before uint64
			if !o.done {
				before = st.hash()
			}
			out, undo := st.apply(o.op)
			if o.free != nil && !(strings.HasPrefix(out, "seq\t") && o.free[atoi(out[4:])]) {
				undo()
				continue // an unseen pending add can only have received an unaccounted number
			}
			if o.expect != "" && out != o.expect {
				undo()
				if len(order) >= bestDepth {
					bestDepth = len(order)
					res.stuck = fmt.Sprintf("after %d operations placed, operation %d (client %d: %s) returned [%s] but there the model gives [%s]",
						len(order), o.id, o.client, strings.Join(o.op, " "), strings.ReplaceAll(o.expect, "\t", " "), strings.ReplaceAll(out, "\t", " "))
				}
				continue
			}
			if !o.done && st.hash() == before {
				// a pending operation that would change nothing here: leaving it out
				// is equivalent, so this branch is redundant
				undo()
				continue
			}
			placed[i] = true
			savedMax := maxPlacedInv
			if o.inv > maxPlacedInv {
				maxPlacedInv = o.inv
			}
			set[i/64] |= 1 << (i % 64)
			if o.done {
				remainingDone--
			}
			order = append(order, o.id)
			if dfs() {
				return true
			}
			res.backtracks++
			order = order[:len(order)-1]
			if o.done {
				remainingDone++
			}
			set[i/64] &^= 1 << (i % 64)
			placed[i] = false
			maxPlacedInv = savedMax
			undo()
			if res.steps >= budget {
				return false
			}
		}
		failed[k] = true
		return false
	}
	if dfs() {
		res.found = true
		res.order = append([]int(nil), order...)
		return res
	}
	res.exhausted = res.steps < budget
	return res
}
