package c26

// The oracle evaluates C26's statement directly on the recorded history of the
// real daemon, independently of the Lean model: a linearization exists (the
// search's verdict), no added command is lost or duplicated, sequence numbers
// are unique across all clients (and follow real time), and — when no
// connection was severed — no call fails at the RPC level.

import (
	"fmt"
	"sort"
	"strings"

	"verifharness/common"
)

func oracle(stAny any, f []string, out string) (string, string) {
	st := stAny.(*runState)
	switch f[0] {
	case "setup-failed":
		return "daemon-setup-failed", common.Unhex(f[1]) + " in " + st.desc
	case "hang":
		return "client-hang", common.Unhex(f[1]) + " in " + st.desc
	case "nolin":
		if c, d := direct(st.kind, st.desc, st.opsInOrder()); c != "" {
			return c, d
		}
		return "not-linearizable", f[1] + " in " + st.desc
	case "lin":
		return direct(st.kind, st.desc, st.opsInOrder())
	case "attack-nolin":
		return "", "" // outside the quantifier: ResetConn is not a history operation (reported in the evidence)
	case "trend":
		// the trace the hook recorded inside client.call and the history stamped
		// around the client methods are two recordings of the same run: every
		// completed operation with its reply must appear in both
		var hist, tr []string
		for _, o := range st.ops {
			if o.done {
				hist = append(hist, normOp(o.op)+" => "+strings.Join(o.out, " "))
			}
		}
		for _, p := range st.trPairs {
			if !strings.HasPrefix(p, "version ") {
				tr = append(tr, p)
			}
		}
		sort.Strings(hist)
		sort.Strings(tr)
		if len(hist) != len(tr) {
			return "trace-history-mismatch", fmt.Sprintf("%d completed operations in the history, %d in the trace, in %s", len(hist), len(tr), st.desc)
		}
		for i := range hist {
			if hist[i] != tr[i] {
				return "trace-history-mismatch", fmt.Sprintf("history has %q where the trace has %q, in %s", hist[i], tr[i], st.desc)
			}
		}
	}
	return "", ""
}

type cmdEntry struct {
	seq  int
	text string
}

func parseCmds(s string) []cmdEntry {
	if s == "-" {
		return nil
	}
	var l []cmdEntry
	for _, p := range strings.Split(s, ",") {
		i := strings.Index(p, ":")
		l = append(l, cmdEntry{atoi(p[:i]), common.Unhex(p[i+1:])})
	}
	return l
}

func (st *runState) opsInOrder() []*opRec {
	var ops []*opRec
	for _, id := range st.order {
		ops = append(ops, st.ops[id])
	}
	return ops
}

// direct checks the parts of the statement that can be read off the history
// without a linearization.
func direct(kind, desc string, ops []*opRec) (string, string) {
	if kind == "reset" {
		return "", ""
	}
	// RPC-level failures: none without a severed connection; with one, only
	// transport errors (never a garbled stream or a crash)
	for _, o := range ops {
		if o.done {
			continue
		}
		switch {
		case kind != "cut":
			return "rpc-error", fmt.Sprintf("%s (client %d) failed at the RPC level (%s) although no connection was severed; %s", strings.Join(o.op, " "), o.client, o.fail, desc)
		case o.fail == "decode" || o.fail == "panic" || o.fail == "other" || o.fail == "unfinished":
			return "rpc-error", fmt.Sprintf("%s (client %d) failed with a non-transport error (%s); %s", strings.Join(o.op, " "), o.client, o.fail, desc)
		}
	}
	// sequence numbers: unique across clients, and in real-time order
	var adds []*opRec
	bySeq := map[int]*opRec{}
	for _, o := range ops {
		if o.op[0] == "add" && o.done && o.out[0] == "seq" {
			n := atoi(o.out[1])
			if p := bySeq[n]; p != nil {
				return "seq-duplicate", fmt.Sprintf("AddCmd of client %d and AddCmd of client %d both returned sequence number %d; %s", p.client, o.client, n, desc)
			}
			bySeq[n] = o
			adds = append(adds, o)
		}
	}
	sort.Slice(adds, func(a, b int) bool { return adds[a].res < adds[b].res })
	for i, a := range adds {
		for _, b := range adds[i+1:] {
			if a.res < b.inv && atoi(a.out[1]) >= atoi(b.out[1]) {
				return "seq-order", fmt.Sprintf("AddCmd returning %s had returned before the AddCmd returning %s was called; %s", a.out[1], b.out[1], desc)
			}
		}
	}
	// the closing listing: CmdsWithSeq(0,-1) invoked after everything else returned
	var fin *opRec
	for _, o := range ops {
		if o.client == 0 && o.done && len(o.op) == 3 && o.op[0] == "list" && o.op[1] == "0" && o.op[2] == "-1" && o.out[0] == "cmds" {
			fin = o
		}
	}
	if fin == nil {
		return "", ""
	}
	for _, o := range ops {
		if o != fin && o.done && o.res > fin.inv && o.op[0] != "dirs" && o.op[0] != "nseq" && o.op[0] != "list" {
			return "", "" // not a closing listing (replayed fragment)
		}
	}
	deleted := map[int]bool{}
	textOwner := map[string]*opRec{}
	for _, o := range ops {
		switch o.op[0] {
		case "del":
			deleted[atoi(o.op[1])] = true
		case "add":
			textOwner[common.Unhex(o.op[1])] = o
		}
	}
	final := parseCmds(fin.out[1])
	present := map[int]string{}
	seenText := map[string]int{}
	for _, e := range final {
		present[e.seq] = e.text
		if prev, dup := seenText[e.text]; dup {
			return "add-duplicated", fmt.Sprintf("the command %q, added by ONE AddCmd call, is stored twice (numbers %d and %d); %s", e.text, prev, e.seq, desc)
		}
		seenText[e.text] = e.seq
		o := textOwner[e.text]
		switch {
		case o == nil:
			return "entry-invented", fmt.Sprintf("stored command %d %q was never added; %s", e.seq, e.text, desc)
		case o.done && o.out[0] == "seq" && atoi(o.out[1]) != e.seq:
			return "add-duplicated", fmt.Sprintf("command %q is stored under number %d but its AddCmd returned %s; %s", e.text, e.seq, o.out[1], desc)
		}
	}
	for _, a := range adds {
		n := atoi(a.out[1])
		if deleted[n] {
			continue
		}
		if t, ok := present[n]; !ok || t != common.Unhex(a.op[1]) {
			return "add-lost", fmt.Sprintf("AddCmd(%q) of client %d returned %d and nobody deleted %d, but the closing listing has %q there (present=%v); %s",
				common.Unhex(a.op[1]), a.client, n, n, t, ok, desc)
		}
	}
	return "", ""
}
