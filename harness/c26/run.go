package c26

// Running the REAL daemon (daemon.Serve on a unix socket + bbolt file in a
// fresh directory) under 2..8 concurrent client goroutines and recording the
// history of invocations and responses with logical time stamps.

import (
	"errors"
	"fmt"
	"io"
	"net"
	"os"
	"path/filepath"
	"runtime"
	"strconv"
	"strings"
	"sync"
	"sync/atomic"
	"time"

	"src.elv.sh/pkg/daemon"
	"src.elv.sh/pkg/daemon/daemondefs"
	"src.elv.sh/pkg/rpc"
	"src.elv.sh/pkg/store/storedefs"
	"verifharness/common"
)

type scenario struct {
	kind    string // own | shared | mixed | cut | reset
	seed    uint64
	procs   int
	nOwn    int // goroutines with a client (connection) of their own
	nShared int // goroutines sharing one client after its first successful request
	opsPer  int
	profile int  // 0 mixed, 1 add-heavy, 2 delete-heavy, 3 dir-heavy, 4 read-heavy
	preload int  // sequential operations before the concurrent phase
	cuts    int  // connection cuts (kinds cut, reset)
	traced  bool // record the protocol trace with the hook and have the Lean acceptor validate it
}

func (s *scenario) describe() string {
	d := fmt.Sprintf("%s/seed=%d/procs=%d/own=%d/shared=%d/ops=%d/profile=%d/pre=%d/cuts=%d",
		s.kind, s.seed, s.procs, s.nOwn, s.nShared, s.opsPer, s.profile, s.preload, s.cuts)
	if s.traced {
		d += "/traced"
	}
	return d
}

func genScenario(r *common.Rand, kind string, seed uint64) *scenario {
	s := &scenario{kind: kind, seed: seed}
	s.procs = common.Pick(r, []int{1, 2, 2, 3, 4, 4, 8, 16})
	total := r.Range(2, 8)
	switch kind {
	case "own":
		s.nOwn = total
	case "shared":
		s.nShared = total
	case "mixed":
		s.nShared = r.Range(2, total)
		s.nOwn = total - s.nShared
		if s.nOwn == 0 && total < 8 {
			s.nOwn = 1
		}
	case "cut":
		s.nShared = r.Range(0, total)
		if s.nShared == 1 {
			s.nShared = 2
		}
		s.nOwn = total - s.nShared
		if s.nOwn < 0 {
			s.nOwn = 0
		}
		s.cuts = r.Range(1, 4)
	case "reset":
		s.nShared = r.Range(2, 4)
		s.cuts = r.Range(2, 6)
		s.procs = common.Pick(r, []int{1, 1, 2, 4})
	}
	s.opsPer = r.Range(3, 40)
	if r.Chance(1, 6) {
		s.opsPer = r.Range(1, 4)
	}
	s.profile = r.Intn(5)
	s.preload = r.Intn(8)
	return s
}

// ------------------------------------------------------------------ proxy

// proxy forwards unix-socket connections to the daemon and can cut all of
// them at once (both directions), which the client sees as EOF and the daemon
// as a vanished client.
type proxy struct {
	ln     net.Listener
	target string
	mu     sync.Mutex
	conns  []net.Conn
}

func newProxy(path, target string) (*proxy, error) {
	ln, err := net.Listen("unix", path)
	if err != nil {
		return nil, err
	}
	p := &proxy{ln: ln, target: target}
	go p.serve()
	return p, nil
}

func (p *proxy) serve() {
	for {
		c, err := p.ln.Accept()
		if err != nil {
			return
		}
		d, err := net.Dial("unix", p.target)
		if err != nil {
			c.Close()
			continue
		}
		p.mu.Lock()
		p.conns = append(p.conns, c, d)
		p.mu.Unlock()
		go func() { io.Copy(d, c); d.Close(); c.Close() }()
		go func() { io.Copy(c, d); c.Close(); d.Close() }()
	}
}

func (p *proxy) cut() {
	p.mu.Lock()
	cs := p.conns
	p.conns = nil
	p.mu.Unlock()
	for _, c := range cs {
		c.Close()
	}
}

func (p *proxy) close() { p.ln.Close(); p.cut() }

// -------------------------------------------------------------- environment

type env struct {
	sc      *scenario
	stamp   atomic.Int64
	nextID  atomic.Int64
	lastSeq atomic.Int64
}

type worker struct {
	n    int // client number in the history (0 = keeper)
	r    *common.Rand
	cl   daemondefs.Client
	recs []*opRec
	k    int
	mu   sync.Mutex
}

var textPrefixes = []string{"echo a", "echo b", "echo", "ls", "ls -l", "cd /tmp", "e", "é", "\x00\xff", ""}
var searchPrefixes = []string{"", "", "e", "ec", "echo", "echo ", "echo a", "l", "ls", "ls -", "c", "é", "\x00", "zz"}
var dirPaths = []string{"/", "/a", "/b", "/tmp", "é", "/usr/local/bin"}
var factors = []float64{1, 1, 1, 0.5, 2, 3.7}

func (e *env) randSeq(r *common.Rand) int {
	last := int(e.lastSeq.Load())
	switch r.Intn(12) {
	case 0:
		return 0
	case 1:
		return last + 1
	case 2:
		return last + 1 + r.Intn(4)
	case 3:
		return common.Pick(r, []int{-1, -2, -1 << 63, 1<<63 - 1, 1 << 62, 256})
	case 4:
		return -1
	case 5:
		return last
	}
	return r.Range(0, last+1)
}

// genOp picks the next operation of a worker (dynamic: sequence-number
// arguments follow what has been observed so far).
//
// Directory operations: AddDir calls on different paths (or with different
// factors) do not commute and return nothing, so the order of k overlapping
// ones is only revealed by later Dirs calls and the witness search is
// exponential in k.  With more than three concurrent goroutines, and in runs
// with severed connections (pending blind writes), the concurrent
// phase therefore uses one hot path and one factor for AddDir and DelDir only
// on other (preloaded) paths — blind writes that commute — while runs with few
// goroutines and all sequential phases use arbitrary paths and factors.
func (e *env) genOp(w *worker, sequential bool) []string {
	r := w.r
	commute := !sequential && (e.sc.nOwn+e.sc.nShared > 3 || e.sc.cuts > 0)
	// weights: add del get list next prev nseq adddir deldir dirs
	weights := [][10]int{
		{25, 8, 8, 10, 10, 10, 5, 10, 3, 6},
		{60, 4, 6, 8, 6, 6, 4, 3, 0, 3},
		{25, 30, 10, 10, 8, 8, 3, 3, 1, 2},
		{8, 2, 2, 4, 2, 2, 2, 45, 10, 23},
		{12, 4, 16, 20, 16, 16, 8, 3, 1, 4},
	}[e.sc.profile]
	tot := 0
	for _, x := range weights {
		tot += x
	}
	x := r.Intn(tot)
	k := 0
	for ; k < 10; k++ {
		if x < weights[k] {
			break
		}
		x -= weights[k]
	}
	switch k {
	case 0:
		w.k++
		return []string{"add", common.Hex(fmt.Sprintf("%s#%d.%d", common.Pick(r, textPrefixes), w.n, w.k))}
	case 1:
		return []string{"del", strconv.Itoa(e.randSeq(r))}
	case 2:
		return []string{"get", strconv.Itoa(e.randSeq(r))}
	case 3:
		a, b := e.randSeq(r), e.randSeq(r)
		if r.Chance(1, 2) && a > b {
			a, b = b, a
		}
		if r.Chance(1, 4) {
			a, b = 0, -1
		}
		return []string{"list", strconv.Itoa(a), strconv.Itoa(b)}
	case 4:
		return []string{"next", strconv.Itoa(e.randSeq(r)), common.Hex(common.Pick(r, searchPrefixes))}
	case 5:
		return []string{"prev", strconv.Itoa(e.randSeq(r)), common.Hex(common.Pick(r, searchPrefixes))}
	case 6:
		return []string{"nseq"}
	case 7:
		p, f := common.Pick(r, dirPaths), common.Pick(r, factors)
		if commute {
			p, f = "/hot", 1
		}
		if r.Chance(1, 25) {
			p = ""
		}
		return []string{"adddir", common.Hex(p), bits(f)}
	case 8:
		return []string{"deldir", common.Hex(common.Pick(r, dirPaths))}
	}
	bl := "-"
	if r.Chance(1, 3) {
		bl = common.Hex(common.Pick(r, dirPaths))
		if r.Chance(1, 3) {
			bl += "," + common.Hex(common.Pick(r, dirPaths))
		}
	}
	return []string{"dirs", bl}
}

func errFields(e rpc.ServerError) []string {
	switch string(e) {
	case storedefs.ErrNoMatchingCmd.Error():
		return []string{"err", "nomatch"}
	case "key required":
		return []string{"err", "keyrequired"}
	case "key too large":
		return []string{"err", "keytoolarge"}
	}
	return []string{"err", "other", common.Hex(string(e))}
}

// failClass names an RPC-level (not store-level) error.
func failClass(err error) string {
	var ne *net.OpError
	msg := err.Error()
	switch {
	case err == io.ErrUnexpectedEOF:
		return "eof"
	case err == io.EOF:
		return "eof"
	case err == daemon.ErrDaemonUnreachable:
		return "unreachable"
	case err == rpc.ErrShutdown:
		return "shutdown"
	case strings.Contains(msg, "use of closed network connection"):
		return "closed"
	case errors.As(err, &ne):
		return "net"
	case strings.HasPrefix(msg, "reading body"), strings.HasPrefix(msg, "reading error body"), strings.Contains(msg, "gob"):
		return "decode"
	}
	return "other"
}

// callOp performs one operation through the client and returns the canonical
// result fields, or the class of the RPC-level failure.
func callOp(cl daemondefs.Client, op []string) (out []string, fail string, detail string) {
	defer func() {
		if r := recover(); r != nil {
			out, fail, detail = nil, "panic", fmt.Sprint(r)
		}
	}()
	var err error
	switch op[0] {
	case "add":
		var n int
		n, err = cl.AddCmd(common.Unhex(op[1]))
		out = []string{"seq", strconv.Itoa(n)}
	case "del":
		err = cl.DelCmd(atoi(op[1]))
		out = []string{"unit"}
	case "get":
		var t string
		t, err = cl.Cmd(atoi(op[1]))
		out = []string{"text", common.Hex(t)}
	case "list":
		var cs []storedefs.Cmd
		cs, err = cl.CmdsWithSeq(atoi(op[1]), atoi(op[2]))
		parts := make([]string, len(cs))
		for i, c := range cs {
			parts[i] = showCmd(c.Seq, c.Text)
		}
		l := "-"
		if len(parts) > 0 {
			l = strings.Join(parts, ",")
		}
		out = []string{"cmds", l}
	case "next":
		var c storedefs.Cmd
		c, err = cl.NextCmd(atoi(op[1]), common.Unhex(op[2]))
		out = []string{"cmd", showCmd(c.Seq, c.Text)}
	case "prev":
		var c storedefs.Cmd
		c, err = cl.PrevCmd(atoi(op[1]), common.Unhex(op[2]))
		out = []string{"cmd", showCmd(c.Seq, c.Text)}
	case "nseq":
		var n int
		n, err = cl.NextCmdSeq()
		out = []string{"nseq", strconv.Itoa(n)}
	case "adddir":
		err = cl.AddDir(common.Unhex(op[1]), fbits(op[2]))
		out = []string{"ok"}
	case "deldir":
		err = cl.DelDir(common.Unhex(op[1]))
		out = []string{"ok"}
	case "dirs":
		bl := map[string]struct{}{}
		for _, b := range parseHexList(op[1]) {
			bl[b] = struct{}{}
		}
		var ds []storedefs.Dir
		ds, err = cl.Dirs(bl)
		out = []string{"dirs", canonDirs(ds)}
	default:
		panic("unknown op " + op[0])
	}
	if err == nil {
		return out, "", ""
	}
	if se, ok := err.(rpc.ServerError); ok {
		return errFields(se), "", ""
	}
	return nil, failClass(err), err.Error()
}

func (e *env) doOp(w *worker, op []string) *opRec {
	rec := &opRec{id: int(e.nextID.Add(1) - 1), client: w.n, op: op, res: pendingRes}
	w.mu.Lock()
	w.recs = append(w.recs, rec)
	w.mu.Unlock()
	rec.inv = e.stamp.Add(1)
	out, fail, detail := callOp(w.cl, op)
	r := e.stamp.Add(1)
	w.mu.Lock()
	defer w.mu.Unlock()
	if fail == "" {
		rec.out, rec.res, rec.done = out, r, true
		if out[0] == "seq" || out[0] == "nseq" {
			n := int64(atoi(out[1]))
			for {
				old := e.lastSeq.Load()
				if n <= old || e.lastSeq.CompareAndSwap(old, n) {
					break
				}
			}
		}
	} else {
		rec.fail = fail + ":" + detail
		rec.failAt = r
	}
	return rec
}

func pause(r *common.Rand) {
	switch r.Intn(10) {
	case 0, 1:
		runtime.Gosched()
	case 2:
		time.Sleep(time.Duration(1+r.Intn(60)) * time.Microsecond)
	}
}

// history is what one run recorded.
type history struct {
	desc     string
	kind     string
	ops      []*opRec
	hang     string
	setup    string // non-empty: the run could not be set up (harness problem, not a property failure)
	slowStop bool   // daemon.Serve had not returned 30 s after the stop signal
	traced   bool
	trace    []rpc.VerifEntry // traced runs: the protocol trace recorded by the hook
}

var runCounter atomic.Int64

// runScenario executes one scenario against a fresh real daemon.
func runScenario(root string, sc *scenario) *history {
	h := &history{desc: sc.describe(), kind: sc.kind}
	dir := filepath.Join(root, fmt.Sprintf("r%d", runCounter.Add(1)))
	if err := os.Mkdir(dir, 0o700); err != nil {
		h.setup = err.Error()
		return h
	}
	defer os.RemoveAll(dir)
	sock, db := filepath.Join(dir, "s"), filepath.Join(dir, "db")
	old := runtime.GOMAXPROCS(sc.procs)
	defer runtime.GOMAXPROCS(old)

	ready := make(chan struct{})
	sig := make(chan os.Signal)
	served := make(chan int, 1)
	go func() { served <- daemon.Serve(sock, db, daemon.ServeOpts{Ready: ready, Signals: sig}) }()
	select {
	case <-ready:
	case code := <-served:
		h.setup = fmt.Sprintf("daemon.Serve returned %d before being ready", code)
		return h
	case <-time.After(20 * time.Second):
		h.setup = "daemon not ready after 20s"
		return h
	}
	stopped := false
	stop := func() {
		if !stopped {
			stopped = true
			close(sig)
			select {
			case <-served:
			case <-time.After(30 * time.Second):
				// not part of C26's statement (daemon life cycle: C27); noted in the evidence
				h.slowStop = true
			}
		}
	}
	defer stop()
	if sc.traced {
		// before the first client exists: every connection is dialled inside the trace
		h.traced = true
		rpc.VerifTraceStart()
		defer rpc.VerifTraceStop()
	}

	e := &env{sc: sc}
	r := common.NewRand(sc.seed)
	// the keeper holds a direct connection for the whole run (the daemon exits
	// when its last client disconnects) and does the sequential parts
	keeper := &worker{n: 0, r: common.NewRand(sc.seed ^ 0xABCDEF), cl: daemon.NewClient(sock)}
	if _, err := keeper.cl.Version(); err != nil {
		h.setup = "keeper cannot reach the daemon: " + err.Error()
		return h
	}
	clientSock := sock
	var px *proxy
	if sc.kind == "cut" || sc.kind == "reset" {
		var err error
		px, err = newProxy(filepath.Join(dir, "p"), sock)
		if err != nil {
			h.setup = "proxy: " + err.Error()
			return h
		}
		defer px.close()
		clientSock = filepath.Join(dir, "p")
	}
	for i := 0; i < sc.preload; i++ {
		e.doOp(keeper, e.genOp(keeper, true))
	}
	var workers []*worker
	var closers []daemondefs.Client
	var shared daemondefs.Client
	if sc.nShared > 0 {
		shared = daemon.NewClient(clientSock)
		// "after its first successful request, as the shell does after activation"
		if _, err := shared.Version(); err != nil {
			h.setup = "shared client cannot reach the daemon: " + err.Error()
			return h
		}
		closers = append(closers, shared)
	}
	for i := 0; i < sc.nShared+sc.nOwn; i++ {
		w := &worker{n: i + 1, r: common.NewRand(sc.seed*1000003 + uint64(i)*7919 + 17)}
		if i < sc.nShared {
			w.cl = shared
		} else {
			w.cl = daemon.NewClient(clientSock) // connects lazily, inside its first (concurrent) request
			closers = append(closers, w.cl)
		}
		workers = append(workers, w)
	}
	var wg sync.WaitGroup
	start := make(chan struct{})
	for _, w := range workers {
		wg.Add(1)
		go func(w *worker) {
			defer wg.Done()
			<-start
			for i := 0; i < sc.opsPer; i++ {
				pause(w.r)
				e.doOp(w, e.genOp(w, false))
			}
		}(w)
	}
	ctlDone := make(chan struct{})
	allDone := make(chan struct{})
	go func() {
		defer close(ctlDone)
		if px == nil {
			return
		}
		<-start
		for i := 0; i < sc.cuts; i++ {
			select {
			case <-allDone:
				return
			case <-time.After(time.Duration(50+r.Intn(1500)) * time.Microsecond):
			}
			if sc.kind == "reset" && shared != nil {
				// the attack on the retry path: a connection dies with requests in
				// flight while another goroutine resets the shared client
				// (ResetConn is what sets rpc.Client.closing, the only way a call that
				// was already sent can fail with ErrShutdown and be re-sent)
				if r.Bool() {
					px.cut()
					func() { defer func() { recover() }(); shared.ResetConn() }()
				} else {
					func() { defer func() { recover() }(); shared.ResetConn() }()
					px.cut()
				}
			} else {
				px.cut()
			}
		}
	}()
	close(start)
	go func() { wg.Wait(); close(allDone) }()
	select {
	case <-allDone:
	case <-time.After(25 * time.Second):
		h.hang = "client goroutines still blocked 25s after the start"
	}
	<-ctlDone
	if h.hang == "" {
		// closing observations, after every other operation has returned
		e.doOp(keeper, []string{"nseq"})
		e.doOp(keeper, []string{"list", "0", "-1"})
		e.doOp(keeper, []string{"dirs", "-"})
		if sc.traced {
			// before the clients are closed (Close is ResetConn, outside the property's quantifier)
			h.trace = rpc.VerifTraceStop()
		}
		for _, c := range closers {
			c.Close()
		}
		keeper.cl.Close()
	} else {
		stop() // closes every connection, which unblocks what can be unblocked
	}
	for _, w := range append([]*worker{keeper}, workers...) {
		w.mu.Lock()
		for _, rec := range w.recs {
			cp := *rec
			h.ops = append(h.ops, &cp)
		}
		w.mu.Unlock()
	}
	return h
}
