// Package c26: validation and oracle for C26 (concurrent clients of the storage
// daemon see a linearizable history).
//
// Gen runs the REAL daemon (daemon.Serve, unix socket + bbolt file in a fresh
// directory under /dev/shm) with 2..8 concurrent client goroutines — clients
// with connections of their own and one client shared by several goroutines
// after its first successful request — under varied GOMAXPROCS, and turns each
// recorded run into a history of op lines:
//
//	reset <description>
//	inv <id> <client> <op> <args…>     invocation (global logical time order)
//	res <id> <result…>                 response
//	fail <id> <class> <detail>         the call returned an RPC-level error: no response event
//	hang <why>                         the run did not finish
//	lin <id,id,…>                      witness order found by the untrusted search (search.go)
//	nolin <why>                        no witness found
//	attack-nolin <class> <why>         no witness found in a `reset` run (outside the quantifier; echoed)
//	tr <kind> <fields…>                traced runs: one entry of the protocol trace recorded by the hook
//	                                   (hooks/C26-daemon-trace.patch), see trace.go
//	trend <n>                          end of the trace: the Lean acceptor (C26.acceptAll, proved sound:
//	                                   C26_acceptor_sound) must answer `trace-ok <n>`
//
// The Lean driver VALIDATES the witness with the proved checker
// C26.isLinearization against the sequential store model of C24 and must
// answer `ok`.  The oracle evaluates the property's own words on the recorded
// history: linearizable (a witness exists), no added command lost or
// duplicated, sequence numbers unique across clients.
package c26

import (
	"fmt"
	"os"
	"sort"
	"strconv"
	"strings"
	"time"

	"verifharness/common"
)

func init() { common.Register("C26", run) }

// runState accumulates the lines of the current history (also in replays).
type runState struct {
	desc    string
	kind    string
	ops     map[int]*opRec
	order   []int
	pos     int64
	tag     string
	trSeen  map[string]bool
	trOps   map[string]string // traced call id -> operation
	trPairs []string          // operation => reply of every `ret` entry
}

// normOp renders op fields for comparison (the blacklist of dirs as a sorted set).
func normOp(f []string) string {
	if len(f) == 2 && f[0] == "dirs" && f[1] != "-" {
		ks := strings.Split(f[1], ",")
		sort.Strings(ks)
		var u []string
		for i, k := range ks {
			if i == 0 || k != ks[i-1] {
				u = append(u, k)
			}
		}
		return "dirs " + strings.Join(u, ",")
	}
	return strings.Join(f, " ")
}

func (s *runState) reset(desc string) {
	s.desc = desc
	s.kind = strings.SplitN(desc, "/", 2)[0]
	s.ops = map[int]*opRec{}
	s.order = nil
	s.pos = 0
	s.trSeen = map[string]bool{}
	s.trOps = map[string]string{}
	s.trPairs = nil
}

func run(c *common.Ctx) error {
	base := ""
	if fi, err := os.Stat("/dev/shm"); err == nil && fi.IsDir() {
		base = "/dev/shm"
	}
	root, err := os.MkdirTemp(base, "vc26-")
	if err != nil {
		return err
	}
	defer os.RemoveAll(root)
	st := &runState{}
	st.reset("none")
	nRuns := c.Scale(260, 6000)
	stats := &genStats{dumpDir: c.Dir}
	s := &common.Std{
		Rule: fmt.Sprintf("%d runs of the real daemon (daemon.Serve on a unix socket, fresh bbolt file each) with 2..8 concurrent client goroutines "+
			"(kinds: own = one connection per goroutine connecting inside its first request, shared = one client used by all goroutines after its "+
			"first successful request, mixed, cut = connections severed by a proxy while requests are in flight, reset = cut + concurrent ResetConn "+
			"(the retry path, outside the property's quantifier, reported only)); GOMAXPROCS ∈ {1,2,3,4,8,16}; 3..40 random AddCmd/DelCmd/Cmd/"+
			"CmdsWithSeq/NextCmd/PrevCmd/NextCmdSeq/AddDir/DelDir/Dirs per goroutine with seeded yields/sleeps, a sequential preload and closing "+
			"NextCmdSeq/CmdsWithSeq(0,-1)/Dirs; invocation/response stamps from one atomic counter; witness order searched in Go (untrusted), "+
			"validated by the Lean checker; non-trivial = tagged line; distinct by op line", nRuns),
		NewState: func(c *common.Ctx) any { return st },
		Gen:      func(c *common.Ctx, emit func(...string)) { gen(c, emit, root, nRuns, stats) },
		Impl:     impl,
		Oracle:   oracle,
		Tag:      func(f []string, out string) string { return st.tag },
	}
	err = s.Run(c)
	return err
}

type genStats struct {
	histories, validated, maxOverlap, ops, pending, searchSteps, backtracks int
	attackNoWitness, attackDuplicates, bigSearches, broken, slowStops       int
	runTime, searchTime                                                     time.Duration
	hard                                                                    []string
	dumpDir                                                                 string
	maxSteps                                                                int
	traces, traceEntries                                                    int
}

func gen(c *common.Ctx, emit func(...string), root string, nRuns int, gs *genStats) {
	kinds := []string{"own", "own", "shared", "shared", "mixed", "mixed", "mixed", "cut", "cut", "reset"}
	for i := 0; i < nRuns; i++ {
		seed := c.Rand.U64() >> 1
		kind := kinds[i%len(kinds)]
		sc := genScenario(c.Rand, kind, seed)
		// every other run without severed connections also records the protocol
		// trace (the hook serialises dialling and the service methods while it does)
		sc.traced = (kind == "own" || kind == "shared" || kind == "mixed") && (i/len(kinds))%2 == 0
		t0 := time.Now()
		h := runScenario(root, sc)
		gs.runTime += time.Since(t0)
		if h.hang != "" || h.setup != "" {
			gs.broken++
		}
		if h.slowStop {
			gs.slowStops++
		}
		t0 = time.Now()
		emitHistory(h, emit, gs)
		gs.searchTime += time.Since(t0)
		if gs.broken >= 3 {
			break // the daemon hangs or cannot be set up: three reported failures are enough
		}
	}
	c.Extra["traces_validated_against_impl"] = gs.validated
	c.Extra["protocol_traces_validated_by_the_acceptor"] = gs.traces
	c.Extra["protocol_trace_entries"] = gs.traceEntries
	c.Extra["histories"] = gs.histories
	c.Extra["history_operations"] = gs.ops
	c.Extra["pending_operations"] = gs.pending
	c.Extra["max_overlapping_operations"] = gs.maxOverlap
	c.Extra["search_steps"] = gs.searchSteps
	c.Extra["search_backtracks"] = gs.backtracks
	c.Extra["reset_attack_histories_without_witness"] = gs.attackNoWitness
	c.Extra["reset_attack_histories_with_confirmed_duplicate_add"] = gs.attackDuplicates
	c.Extra["searches_needing_the_large_budget"] = gs.bigSearches
	c.Extra["daemon_serve_not_returned_30s_after_stop"] = gs.slowStops
	c.Extra["runs_needing_the_large_budget"] = gs.hard
	c.Extra["max_search_steps_for_one_history"] = gs.maxSteps
	c.Extra["seconds_running_the_daemon"] = int(gs.runTime.Seconds())
	c.Extra["seconds_searching_witnesses"] = int(gs.searchTime.Seconds())
}

// emitHistory emits the history lines and, for a traced run, the recorded protocol trace.
func emitHistory(h *history, emit func(...string), gs *genStats) {
	emitHistoryLines(h, emit, gs)
	if h.traced && h.setup == "" && h.hang == "" {
		ls := traceLines(h.trace)
		for _, l := range ls {
			emit(append([]string{"tr"}, l...)...)
		}
		emit("trend", strconv.Itoa(len(ls)))
		gs.traces++
		gs.traceEntries += len(ls)
	}
}

func emitHistoryLines(h *history, emit0 func(...string), gs *genStats) {
	var lines []string
	emit := func(f ...string) {
		lines = append(lines, strings.Join(f, "\t"))
		emit0(f...)
	}
	emit("reset", h.desc)
	if h.setup != "" {
		emit("setup-failed", common.Hex(h.setup))
		return
	}
	type ev struct {
		t int64
		f []string
	}
	var evs []ev
	for _, o := range h.ops {
		evs = append(evs, ev{o.inv, append([]string{"inv", strconv.Itoa(o.id), strconv.Itoa(o.client)}, o.op...)})
		if o.done {
			evs = append(evs, ev{o.res, append([]string{"res", strconv.Itoa(o.id)}, o.out...)})
		}
	}
	sort.Slice(evs, func(a, b int) bool { return evs[a].t < evs[b].t })
	for _, e := range evs {
		emit(e.f...)
	}
	for _, o := range h.ops {
		if !o.done {
			cls, detail := o.fail, "-"
			if i := strings.Index(o.fail, ":"); i >= 0 {
				cls, detail = o.fail[:i], common.Hex(o.fail[i+1:])
			}
			if cls == "" {
				cls = "unfinished"
			}
			emit("fail", strconv.Itoa(o.id), cls, detail)
			gs.pending++
		}
	}
	if h.hang != "" {
		emit("hang", common.Hex(h.hang))
	}
	gs.histories++
	gs.ops += len(h.ops)
	if ov := maxOverlap(h.ops); ov > gs.maxOverlap {
		gs.maxOverlap = ov
	}
	res := search(h.ops, 1_500_000)
	if !res.found && !res.exhausted && h.kind != "reset" {
		// The budget ran out.  Before calling the history not linearizable: if the
		// direct checks already fail there is nothing to add; otherwise spend a
		// much larger budget (at most twice per run of the harness).
		for _, o := range h.ops {
			if !o.done {
				if i := strings.Index(o.fail, ":"); i >= 0 {
					o.fail = o.fail[:i]
				}
			}
		}
		if c, _ := direct(h.kind, h.desc, h.ops); c == "" && gs.bigSearches < 2 {
			gs.bigSearches++
			gs.hard = append(gs.hard, h.desc)
			if gs.dumpDir != "" { // kept with `./check C26 --keep`: the history whose witness was hard to find
				os.WriteFile(fmt.Sprintf("%s/hard-search-%d.txt", gs.dumpDir, gs.bigSearches), []byte(strings.Join(lines, "\n")+"\n"), 0o644)
			}
			res = search(h.ops, 30_000_000)
		}
	}
	gs.searchSteps += res.steps
	gs.backtracks += res.backtracks
	if res.steps > gs.maxSteps {
		gs.maxSteps = res.steps
	}
	if res.found {
		gs.validated++
		parts := make([]string, len(res.order))
		for i, id := range res.order {
			parts[i] = strconv.Itoa(id)
		}
		o := "-"
		if len(parts) > 0 {
			o = strings.Join(parts, ",")
		}
		emit("lin", o)
		return
	}
	why := fmt.Sprintf("search-budget-exhausted-after-%d-steps", res.steps)
	if res.exhausted {
		why = fmt.Sprintf("no-order-exists-for-the-reference-model-(%d-steps)", res.steps)
	}
	if res.stuck != "" {
		why += "; deepest attempt: " + res.stuck
	}
	if h.kind == "reset" {
		// outside the property's quantifier: reported, not judged.  Say what the
		// direct checks (applied as for a `cut` run) see: a confirmed retry duplicate?
		for _, o := range h.ops {
			if !o.done {
				if i := strings.Index(o.fail, ":"); i >= 0 {
					o.fail = o.fail[:i]
				}
			}
		}
		cls, detail := direct("cut", h.desc, h.ops)
		if cls == "" {
			cls = "no-direct-evidence"
		}
		gs.attackNoWitness++
		if cls == "add-duplicated" {
			gs.attackDuplicates++
		}
		emit("attack-nolin", cls, why+"; "+detail)
		return
	}
	emit("nolin", why)
}

// maxOverlap is the largest number of operations in flight at one moment.
func maxOverlap(ops []*opRec) int {
	type pt struct {
		t int64
		d int
	}
	var pts []pt
	for _, o := range ops {
		pts = append(pts, pt{o.inv, 1})
		if o.done {
			pts = append(pts, pt{o.res, -1})
		}
	}
	sort.Slice(pts, func(a, b int) bool { return pts[a].t < pts[b].t })
	cur, best := 0, 0
	for _, p := range pts {
		cur += p.d
		if cur > best {
			best = cur
		}
	}
	return best
}

// ------------------------------------------------------------ impl / tags

// impl: the real daemon already ran inside Gen (or, in a replay, when the
// history was recorded); what the Lean side must reproduce is the verdict on
// each line: every event is well formed (`ok`) and the witness is validated.
func impl(stAny any, f []string) string {
	st := stAny.(*runState)
	st.tag = ""
	switch f[0] {
	case "reset":
		st.reset(f[1])
		st.tag = "run:" + st.kind
		return "ok"
	case "setup-failed":
		return "setup-failed"
	case "inv":
		id := atoi(f[1])
		st.pos++
		st.ops[id] = &opRec{id: id, client: atoi(f[2]), op: f[3:], inv: st.pos, res: pendingRes}
		st.order = append(st.order, id)
		return "ok"
	case "res":
		id := atoi(f[1])
		st.pos++
		if o := st.ops[id]; o != nil {
			o.done, o.res, o.out = true, st.pos, f[2:]
			st.tag = "res:" + o.op[0] + ":" + f[2]
			if f[2] == "err" {
				st.tag += ":" + f[3]
			}
			if (f[2] == "cmds" || f[2] == "dirs") && f[3] == "-" {
				st.tag += ":empty"
			}
		}
		return "ok"
	case "fail":
		if o := st.ops[atoi(f[1])]; o != nil {
			o.fail = f[2]
			st.tag = "fail:" + o.op[0] + ":" + f[2]
		}
		return "ok"
	case "hang":
		st.tag = "hang"
		return "hang"
	case "lin":
		st.tag = "lin:" + st.kind + linShape(st, f[1])
		return "ok"
	case "nolin":
		st.tag = "nolin"
		return "no-witness"
	case "attack-nolin":
		st.tag = "reset-attack:no-witness:" + f[1]
		return "attack-nolin"
	case "tr":
		// the entry was recorded from the real code; the model side parses it (`ok`)
		// and judges the whole trace at `trend`
		if len(f) > 1 && !st.trSeen[f[1]] {
			st.trSeen[f[1]] = true
			st.tag = "trace-entry:" + f[1]
		}
		if len(f) > 4 && f[1] == "invoke" {
			st.trOps[f[2]] = normOp(f[4:])
		}
		if len(f) > 3 && f[1] == "ret" {
			st.trPairs = append(st.trPairs, st.trOps[f[2]]+" => "+strings.Join(f[3:], " "))
		}
		return "ok"
	case "trend":
		st.tag = "trace:" + st.kind
		return "trace-ok " + f[1]
	}
	return "bad-op"
}

// linShape says whether the validated witness had to deviate from the order of
// invocation (operations of different clients really overlapped and took
// effect in another order than they were issued).
func linShape(st *runState, order string) string {
	if order == "-" {
		return ":empty"
	}
	prev := int64(-1)
	shape := ":in-invocation-order"
	for _, s := range strings.Split(order, ",") {
		o := st.ops[atoi(s)]
		if o == nil {
			return ":unknown-id"
		}
		if o.inv < prev {
			shape = ":reordered"
		}
		prev = o.inv
	}
	pend := 0
	for _, o := range st.ops {
		if !o.done {
			pend++
		}
	}
	if pend > 0 {
		shape += "+pending"
	}
	return shape
}
