package c16

import "strings"

// slugOf maps the message of a compilation error to the name of the model's
// error kind (lean/ElvModel/C16/Model.lean, EK.slug).  Anything else (parse
// error messages in the binary's JSON) is "unknown:<message>".
func slugOf(msg string) string {
	exact := map[string]string{
		"tmp may only be used inside a function":                   "tmp-outside-fn",
		"with requires at least two arguments":                     "with-needs-two-args",
		"last argument must be a lambda":                           "with-last-lambda",
		"argument must not be compound expressions":                "with-arg-compound",
		"argument must be a list":                                  "with-arg-list",
		"need = and right-hand-side":                               "need-eq-rhs",
		"arguments to del must be variable or variable elements":   "del-arg",
		"arguments to del must omit the dollar sign":               "del-dollar",
		"only variables in the local scope or E: can be deleted":   "del-scope",
		"try with an else block requires a catch block":            "try-else-needs-catch",
		"try must be followed by a catch block or a finally block": "try-needs-catch-or-finally",
		"must be literal =":                                        "must-be-literal-eq",
		"must be valid lvalue":                                     "must-be-valid-lvalue",
		"rest variable not allowed":                                "rest-not-allowed",
		"must be exactly one lvalue":                               "exactly-one-lvalue",
		"unknown command disallowed by current pragma":             "unknown-command",
		"bad redirection sign":                                     "bad-redir-sign",
		"lvalue may not be composite expressions":                  "lvalue-composite",
		"at most one rest variable is allowed":                     "at-most-one-rest",
		"lvalue must be valid literal variable names":              "lvalue-name",
		"variable name must not be empty":                          "var-name-empty",
		"compiler bug: Tilde not handled in .compound":             "tilde-bug",
		"bad PrimaryType; parser bug":                              "bad-primary",
		"argument name must be unqualified":                        "arg-qualified",
		"argument name must not be empty":                          "arg-empty",
		"only one argument may have @ prefix":                      "only-one-rest-arg",
		"option name must be unqualified":                          "opt-qualified",
		"option name must not be empty":                            "opt-empty",
		"option must have default value":                           "opt-needs-default",
		"superfluous arguments":                                    "superfluous-args",
	}
	if s, ok := exact[msg]; ok {
		return s
	}
	switch {
	case strings.HasPrefix(msg, "no variable $"):
		return "del-no-var"
	case strings.HasPrefix(msg, "invalid value for unknown-command: "):
		return "pragma-value"
	case strings.HasPrefix(msg, "unknown pragma "):
		return "unknown-pragma"
	case strings.HasPrefix(msg, "variable $") && strings.HasSuffix(msg, " is read-only"):
		return "read-only"
	case strings.HasPrefix(msg, "variable $") && strings.HasSuffix(msg, " not found"):
		return "var-not-found"
	case strings.HasPrefix(msg, "cannot find variable $"):
		return "cannot-find-var"
	case strings.HasPrefix(msg, "new variable $") && strings.HasSuffix(msg, " must not have indices"):
		return "new-var-indices"
	case strings.HasPrefix(msg, "cannot create variable $"):
		return "cannot-create"
	case strings.HasPrefix(msg, "bad wildcard: "):
		return "bad-wildcard"
	case strings.HasPrefix(msg, "duplicate argument name "):
		return "dup-arg"
	case strings.Contains(msg, " must be string literal, found "):
		return "must-be-string-literal"
	case strings.Contains(msg, " must be lambda, found "):
		return "must-be-lambda"
	case strings.HasSuffix(msg, " must not have arguments"):
		return "no-args-allowed"
	case strings.HasSuffix(msg, " must not have options"):
		return "no-opts-allowed"
	case strings.HasPrefix(msg, "need "):
		return "need-arg"
	}
	return "unknown:" + msg
}
