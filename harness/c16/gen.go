package c16

import (
	"fmt"
	"strings"

	"verifharness/common"
)

// pg generates programs for one history and tracks which global names the
// valid programs evaluated so far have declared (so that later programs can
// use them).  Programs with an injected static error declare nothing.
type pg struct {
	r      *common.Rand
	vars   []string // settable global variables
	fns    []string // functions defined by earlier programs
	useStr bool     // `use str` has been evaluated
	n      int      // counter for fresh names
	bin    bool     // program for the binary / a fresh evaler (self-contained, see prelude)
}

func newPG(r *common.Rand, bin bool) *pg {
	return &pg{r: r, vars: []string{"g0", "g1", "g2"}, bin: bin}
}

const binPrelude = "var g0 = 0; var g1 = 1; var g2 = 2; var lst = [a b]; var mp = [&k=v]; var outf = $E:C16_DIR/out; fn tick { }; var nsx: = (ns [&a=1])\n"

func (g *pg) fresh(p string) string { g.n++; return fmt.Sprintf("%s%d", p, g.n) }

func (g *pg) word() string {
	return common.Pick(g.r, []string{"a", "foo", "x1", "'a b'", "\"q\\n\"", "1", "é", "世"})
}

func (g *pg) val() string {
	switch g.r.Intn(12) {
	case 0:
		return "[a b]"
	case 1:
		return "[&k=v]"
	case 2:
		return "$" + common.Pick(g.r, g.vars)
	case 3:
		return "(put x)"
	case 4:
		return "$lst[0]"
	case 5:
		return "$nsx:a"
	case 6:
		return "{|x| put $x }"
	case 7:
		return "$true"
	case 8:
		return "a" + g.word()
	}
	return g.word()
}

// program-local declarations, committed to g when the program was valid
type decl struct {
	vars, fns, delVars []string
	useStr             bool
}

// validStmt returns one statement that compiles in the current context and has
// an observable effect when run.
func (g *pg) validStmt(d *decl) string {
	r := g.r
	vars := append(append([]string{}, g.vars...), d.vars...)
	v := common.Pick(r, vars)
	switch r.Intn(30) {
	case 0, 1:
		return "put " + g.val()
	case 2:
		return "echo " + g.word()
	case 3, 4:
		return "set " + v + " = " + g.val()
	case 5, 6:
		return "tick"
	case 7:
		return "echo " + g.word() + " > $outf"
	case 8:
		return "echo " + g.word() + " >> $outf"
	case 9, 10:
		n := g.fresh("v")
		d.vars = append(d.vars, n)
		return "var " + n + " = " + g.val()
	case 11:
		n := g.fresh("f")
		d.fns = append(d.fns, n)
		return "fn " + n + " {|a| put $a; tick }\n" + n + " " + g.word()
	case 12:
		return "if (eq 1 1) { tick } elif $false { put no } else { put no }"
	case 13:
		return "for x [a b] { put $x } else { tick }"
	case 14:
		return "try { fail x } catch e { tick } finally { put fin }"
	case 15:
		return common.Pick(r, []string{"and $true (tick)", "or $false (put x)", "coalesce $nil a"})
	case 16:
		if !g.useStr && !d.useStr {
			d.useStr = true
			return "use str\nput (str:to-upper ab)"
		}
		return "put (str:to-upper ab)"
	case 17:
		return "{|a &o=1| put $a $o } x"
	case 18:
		return "put a b | each {|x| tick }"
	case 19:
		return "set E:" + envVar + " = " + g.word()
	case 20:
		return common.Pick(r, []string{"with " + v + " = 3 { put $" + v + " }", "with [g0 = 1] [g1 = 2] { tick }"})
	case 21:
		n := g.fresh("t")
		d.fns = append(d.fns, n)
		return "fn " + n + " { tmp g0 = 5; put $g0 }\n" + n
	case 22:
		return "while $false { put no } else { tick }"
	case 23:
		if len(d.vars) > 0 {
			n := d.vars[len(d.vars)-1]
			d.vars = d.vars[:len(d.vars)-1]
			return "del " + n
		}
		if len(g.vars) > 3 {
			n := g.vars[len(g.vars)-1]
			d.delVars = append(d.delVars, n)
			g.vars = g.vars[:len(g.vars)-1] // not used again by this history
			return "del " + n
		}
		return "tick"
	case 24:
		a, b := g.fresh("v"), g.fresh("v")
		d.vars = append(d.vars, a, b)
		return "var " + a + " " + b + " = 1 2"
	case 25:
		return common.Pick(r, []string{"set @lst = a b", "set mp[k] = w", "set g0 g1 = x y", "var _ = 1"})
	case 26:
		return "pragma unknown-command = external\nput ?(fail x)"
	case 27:
		all := append(append([]string{}, g.fns...), d.fns...)
		if len(all) > 0 {
			return common.Pick(r, all) + " " + g.word()
		}
		return "put [(put a)]"
	case 28:
		n := g.fresh("v")
		d.vars = append(d.vars, n)
		return "var " + n + " = 1\nfn c" + n + " { put $" + n + "; set " + n + " = 2 }\nc" + n
	}
	return "echo a 2>&1 | put (all)"
}

type bad struct {
	code    string
	topOnly bool // an error only outside every function body
}

// staticErrors lists statements with a compilation error, one or more per
// error site of the compiler.
func (g *pg) staticErrors() []bad {
	ro := "ro"
	if g.bin {
		ro = "pid"
	}
	return []bad{
		// variable use
		{"put $nope", false}, {"put $nope:x", false}, {"put $@nope", false}, {"put $:x", false},
		{"echo $str:x $nope", false}, {"put [$nope]", false}, {"put [&k=$nope]", false}, {"put $lst[$nope]", false},
		// set / var / tmp
		{"set nope = 1", false}, {"set " + ro + " = 2", false}, {"set nope[0] = 1", false}, {"set nope:x = 1", false},
		{"var a:b = 1", false}, {"var x[0] = 1", false}, {"var '' = 1", false}, {"var @ = 1", false},
		{"set a$g0 = 1", false}, {"set {a} = 1", false}, {"set $g0 = 1", false}, {"set @a @b = 1 2", false},
		{"var @a @b = 1 2", false}, {"set g0", false}, {"tmp g0 = 1", true}, {"tmp g0", false}, {"var x = $x", false},
		{"set a/b = 1", false}, {"var a b:c d = 1 2 3", false},
		// del
		{"del nope", false}, {"del $g0", false}, {"del g0$g1", false}, {"del nsx:a", false}, {"del pid", false},
		{"del {a}", false}, {"del a/b", false}, {"del nope[0]", false}, {"del e:ls~", false}, {"del :x", false},
		// fn / use
		{"fn", false}, {"fn f", false}, {"fn f x", false}, {"fn f { } extra", false}, {"fn $g0 { }", false},
		{"fn f {a,b}", false}, {"fn f [a]", false}, {"fn a$g0 { }", false},
		{"use", false}, {"use $g0", false}, {"use a b c", false}, {"use a $g0", false},
		// if / while / for / try
		{"if", false}, {"if $true", false}, {"if $true x", false}, {"if $true {|a| }", false}, {"if $true {|&o=1| }", false},
		{"if $true { } else", false}, {"if $true { } elif", false}, {"if $true { } elif $true", false},
		{"if $true { } foo { }", false}, {"if $true { } else { } x", false}, {"if $true {a,b}", false},
		{"while", false}, {"while $true", false}, {"while $false { } else", false}, {"while $false x", false},
		{"for", false}, {"for x", false}, {"for x [a]", false}, {"for $g0 [a] { }", false}, {"for @x [a] { }", false},
		{"for x[0] [a] { }", false}, {"for a:b [a] { }", false}, {"for " + ro + " [a] { }", false}, {"for x$g0 [a] { }", false},
		{"for x [a] { } else", false}, {"for x [a] { } other { }", false}, {"for {a} [a] { }", false}, {"for x [a] {|y| }", false},
		{"try", false}, {"try { }", false}, {"try { } else { }", false}, {"try { } catch", false}, {"try { } catch e", false},
		{"try { } finally", false}, {"try { } catch { } finally", false}, {"try x", false}, {"try { } catch a:b { }", false},
		{"try { } catch @e { }", false}, {"try { } catch e { } else { } finally { } x", false}, {"try { } catch " + ro + " { }", false},
		{"try { } catch e {|x| }", false},
		// pragma
		{"pragma", false}, {"pragma foo = bar", false}, {"pragma unknown-command", false}, {"pragma unknown-command x disallow", false},
		{"pragma unknown-command = bad", false}, {"pragma unknown-command = $g0", false}, {"pragma $g0 = x", false},
		{"pragma unknown-command =", false}, {"pragma unknown-command = disallow x", false},
		{"pragma unknown-command = disallow\nnosuchcmd-c16 a", false},
		{"pragma unknown-command = disallow\nput { nosuchcmd-c16 }", false},
		{"pragma unknown-command = disallow\nnosuchmod:cmd", false},
		// lambda signatures
		{"put {|a a| }", false}, {"put {|a:b| }", false}, {"put {|@a @b| }", false}, {"put {|$g0| }", false}, {"put {|&o| }", false},
		{"put {|&a:b=1| }", false}, {"put {|''| }", false}, {"put {|&''=1| }", false}, {"put {|a[0]| }", false}, {"put {|&$g0=1| }", false},
		{"put {|@| }", false},
		// with
		{"with", false}, {"with a", false}, {"with g0 = 1 x", false}, {"with [g0 = 1] g1 { }", false}, {"with a$g0 = 1 { }", false},
		{"with [g0 = 1] a$g0 { }", false}, {"with [g0] { }", false}, {"with g0 { }", false}, {"with nope = 1 { }", false},
		{"with [nope = 1] { }", false},
		// others
		{"put ***", false}, {"put a***", false}, {"echo a <<b", false},
	}
}

var parseErrorTails = []string{"put 'abc", "put \"abc", "put [a", "put (echo", "echo }", "put $", "echo \"\\q\"", "put [&k=",
	"put {|a", "put a]", "put )", "echo a >", "echo a >&", "put [a &k=v]", "put $lst[", "echo a | ", "put ?(", "{", "put {a,"}

// wrap puts a statement into a context that is compiled but, mostly, never executed.
func (g *pg) wrap(b bad) string {
	if b.topOnly {
		return b.code
	}
	switch g.r.Intn(12) {
	case 0:
		return "if $true { " + b.code + " }"
	case 1:
		return "fn " + g.fresh("q") + " { " + b.code + " }"
	case 2:
		return "put { " + b.code + " }"
	case 3:
		return "try { " + b.code + " } catch { }"
	case 4:
		return "for x [a] { " + b.code + " }"
	case 5:
		return "put (" + b.code + ")"
	case 6:
		return "nop ?(" + b.code + ")"
	case 7:
		return "put {|a| put { " + b.code + " } }"
	}
	return b.code
}

// program returns a program and whether a static error was injected ("", "compile", "parse").
func (g *pg) program() (src string, injected string) {
	r := g.r
	d := &decl{}
	k := r.Range(1, 5)
	var stmts []string
	for i := 0; i < k; i++ {
		stmts = append(stmts, g.validStmt(d))
	}
	switch x := r.Intn(100); {
	case x < 55:
		injected = "compile"
		bs := g.staticErrors()
		pos := r.Range(0, len(stmts))
		if r.Chance(3, 4) && len(stmts) > 0 {
			pos = r.Range(1, len(stmts))
		}
		stmts = append(stmts[:pos], append([]string{g.wrap(common.Pick(r, bs))}, stmts[pos:]...)...)
	case x < 65:
		injected = "parse"
		pos := r.Range(1, len(stmts))
		stmts = append(stmts[:pos], append([]string{common.Pick(r, parseErrorTails)}, stmts[pos:]...)...)
	}
	sep := "\n"
	if r.Chance(1, 4) {
		sep = "; "
		for i := range stmts {
			stmts[i] = strings.ReplaceAll(stmts[i], "\n", "; ")
		}
	}
	src = strings.Join(stmts, sep)
	if g.bin {
		src = binPrelude + src
	}
	if injected == "" {
		g.vars = append(g.vars, d.vars...)
		g.fns = append(g.fns, d.fns...)
		g.useStr = g.useStr || d.useStr
	} else {
		// the names this program wanted to delete are still there, but this
		// history no longer uses them (keeps later programs valid either way)
		_ = d.delVars
	}
	return
}

var soupTokens = []string{"var", "set", "tmp", "del", "fn", "use", "if", "elif", "else", "while", "for", "try", "catch",
	"finally", "pragma", "with", "and", "or", "coalesce", "unknown-command", "disallow", "external", "=", "x", "$x", "$g0", "g0", "@r", "{", "}", "{ }",
	"[", "]", "(", ")", "|", "&k=v", "&k", ";", "\n", "put", "tick", "a:b", "$nope", "'q'", "~", "~a", "*", "***", "?", "<", ">",
	">>", "<>", "2>&1", "$false", "str:", "str:x", "e:nosuch-c16", "E:X", "ro", "@", "''", "$@lst", "a$g0", "x[0]", "lst[0]", "[g0 = 1]",
	"{|a|", "{|a a|", "{|&o|", "{|@a @b|", "nil", "_", "$", "f~", "?(", "é", "a/b", "..", "$e:x~", "$E:X", "&", "$nsx:a", "nsx:", ",", "{a,b}"}

func (g *pg) soup() string {
	n := g.r.Range(1, 9)
	var sb strings.Builder
	for i := 0; i < n; i++ {
		if i > 0 && g.r.Chance(5, 6) {
			sb.WriteByte(' ')
		}
		sb.WriteString(common.Pick(g.r, soupTokens))
	}
	return sb.String()
}

// mutated special forms: a valid special form with one argument dropped, doubled or replaced
var formSeeds = [][]string{
	{"if", "$true", "{ tick }", "elif", "$false", "{ }", "else", "{ }"},
	{"while", "$false", "{ }", "else", "{ }"},
	{"for", "x", "[a]", "{ }", "else", "{ }"},
	{"try", "{ }", "catch", "e", "{ }", "else", "{ }", "finally", "{ }"},
	{"try", "{ }", "catch", "{ }"},
	{"fn", "f", "{|a| }"},
	{"use", "str", "s"},
	{"pragma", "unknown-command", "=", "disallow"},
	{"with", "[g0 = 1]", "[g1 = 2]", "{ }"},
	{"with", "g0", "g1", "=", "1", "2", "{ }"},
	{"var", "a", "@b", "=", "1", "2"},
	{"set", "g0", "g1", "=", "1", "2"},
	{"del", "mp[k]", "lst[0]"},
	{"tmp", "g0", "=", "1"},
}
var formRepl = []string{"x", "$g0", "{ }", "{|a| }", "{|&o=1| }", "[a]", "else", "elif", "catch", "finally", "=", "'q'", "a$g0", "{a,b}", "$nope", "@r", "a:b", "e"}

func (g *pg) mutatedForm() string {
	f := append([]string{}, common.Pick(g.r, formSeeds)...)
	for k := g.r.Range(1, 2); k > 0; k-- {
		i := g.r.Range(1, len(f)) // position 1..len (len = append)
		switch g.r.Intn(4) {
		case 0:
			if i < len(f) {
				f = append(f[:i], f[i+1:]...)
			}
		case 1:
			if i < len(f) {
				f[i] = common.Pick(g.r, formRepl)
			}
		case 2:
			if i > len(f) {
				i = len(f)
			}
			f = append(f[:i], append([]string{common.Pick(g.r, formRepl)}, f[i:]...)...)
		case 3:
			if i < len(f) {
				f = f[:i]
			}
		}
	}
	s := strings.Join(f, " ")
	if g.r.Chance(1, 3) {
		s = "fn " + g.fresh("w") + " { " + s + " }"
	}
	return s
}

func gen(c *common.Ctx, emit func(...string)) {
	r := c.Rand
	reset := resetLine()
	op := func(kind, src string) { emit(kind, common.Hex(src), Printable(src)) }

	// 1. every listed static error once, alone and after a side effect, by Eval and by Check
	emit(reset...)
	g := newPG(r, false)
	for i, b := range g.staticErrors() {
		if i%25 == 24 {
			emit(reset...)
		}
		op("eval", "tick\nput before\necho x > $outf\nset g0 = changed\n"+b.code)
		op("check", b.code)
	}
	emit(reset...)
	for _, t := range parseErrorTails {
		op("eval", "tick\nput before\nset g0 = changed\n"+t)
		op("check", "tick\n"+t)
	}
	// 1b. witnesses for "compile works on a COPY of the global static namespace" (theorem
	// C16_compile_does_not_touch_global; seeded change C16-staticns-clone-shares-array, where
	// staticNs.clone returned a view of the same array): `del` or shadowing of an EXISTING global in
	// code that is only checked, or that fails to compile or to parse, must leave the variable usable.
	emit(reset...)
	for _, w := range []string{"del g0", "var g1", "var g2 = x", "fn tick { }", "del g0; put $nope",
		"var g1 = 1; put $nope", "del g2; del g2", "use str; del lst", "for g0 [a] { }; nope:x", "del mp '"} {
		op("check", w)
		op("eval", "put $g0 $g1 $g2 $lst $mp; tick")
	}
	for _, w := range []string{"del g0; put $nope", "var g1 = 1; put $nope", "fn tick { }; put $nope",
		"del g2 lst; var g2; put $nope", "del mp '", "var g0 g1 g2 = 1 2 3; del g0 g1 g2; )"} {
		op("eval", "tick\n"+w)
		op("eval", "put $g0 $g1 $g2 $lst $mp; tick")
	}
	// 1c. family "modns" (modns.go): references into the namespace of a module the evaler knows but the
	// code has not imported — the only sources on which the module names Check passes to compile matter
	// (theorem C16_compile_ignores_modules; seeded change C16-check-autofix-adds-namespace)
	{
		var cnt int64
		genModNs(c, emit, reset, probeModules(newEvaler(&cnt, "/nonexistent")))
	}
	// 1d. the builtin namespace grows between two checks of the same source (the editor installs edit:
	// this way): the verdict of Check must follow it, as Eval's does - Check keeps no memory of sources
	emit(reset...)
	for i := 0; i < c.Scale(12, 200); i++ {
		name := fmt.Sprintf("xb%d", i)
		src := common.Pick(r, []string{"put $" + name, "tick; echo $" + name + " | nop", "set " + name + " = 1", "var y = $" + name + "; put $nope",
			"{ put $" + name + " }", "put $" + name + " $" + name + "x"})
		op("check", src)
		if i%3 == 0 {
			op("check", src)
		}
		emit("extb", common.Hex(name))
		op("check", src)
		op("eval", src)
		op("check", src)
	}
	// the binary on each of them
	gb := newPG(r, true)
	for i, b := range gb.staticErrors() {
		if c.Thorough() || i%16 == int(c.Seed%16) {
			op("bin", binPrelude+"tick\n"+b.code)
		}
	}

	// 2. random histories
	nh := c.Scale(170, 6000)
	for h := 0; h < nh; h++ {
		emit(reset...)
		g := newPG(r, false)
		for k := r.Range(8, 22); k > 0; k-- {
			switch x := r.Intn(100); {
			case x < 62:
				src, _ := g.program()
				op("eval", src)
			case x < 72:
				// the static check of a program, then its evaluation
				src, _ := g.program()
				op("check", src)
				op("eval", src)
			case x < 82:
				s := g.soup()
				op("check", s)
				if r.Bool() {
					// guaranteed parse error (no token contains a lone quote): never runs
					op("eval", "tick\n"+s+" '")
				}
			case x < 92:
				s := g.mutatedForm()
				op("check", s)
				if !strings.Contains(s, "while") && r.Chance(2, 3) {
					op("eval", "tick; set g1 = m\n"+s)
				}
			default:
				// a statement list cut at a random byte: partial trees for Check
				src, _ := g.program()
				if len(src) > 1 {
					cut := src[:r.Range(1, len(src)-1)]
					op("check", cut)
					op("eval", cut+" '")
				}
			}
		}
	}

	// 3. the real binary on generated programs (self-contained: own prelude)
	nb := c.Scale(21, 800)
	for i := 0; i < nb; i++ {
		g := newPG(r, true)
		src, _ := g.program()
		if strings.ContainsRune(src, 0) {
			continue
		}
		op("bin", src)
	}
}
