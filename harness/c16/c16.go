// Package c16: correspondence and oracle for C16 (code with static errors never
// runs; the static check agrees with evaluation).
//
// One history = one real eval.Evaler (`reset`), then a sequence of
//
//	eval  <hex src> <printable>   Evaler.Eval with captured ports, after Evaler.Check on the same state
//	check <hex src> <printable>   Evaler.Check
//	bin   <hex src> <printable>   the real binary: elvish -compileonly -json -c src
//
// The model (lean/ElvModel/C16) predicts the class of the result, every
// compilation error (kind and range), the parse error ranges, the autofixes,
// the names of the global namespace after a successful compile, and "no effect"
// after a static error.  The oracle evaluates the property itself on the real
// code: outputs, the counting builtin, variable values (by repr), the names of
// the global namespace, the files of the history's directory and the
// environment variable before/after, and Check against Eval.
package c16

import (
	"bytes"
	"context"
	"encoding/json"
	"fmt"
	"os"
	"os/exec"
	"path/filepath"
	"sort"
	"strconv"
	"strings"
	"sync/atomic"
	"time"
	"unicode"
	"unicode/utf8"

	"src.elv.sh/pkg/eval"
	"src.elv.sh/pkg/eval/vals"
	"src.elv.sh/pkg/eval/vars"
	"src.elv.sh/pkg/parse"
	"verifharness/common"
	"verifharness/evalutil"
)

func init() { common.Register("C16", run) }

const envVar = "C16_X"

// observation of the last eval op, handed from Impl to Oracle
type obs struct {
	src                     string
	checkPanic, evalPanic   string
	chkParse, chkCompile    error
	chkPure                 bool
	chkDiff                 string
	err                     error
	parseErrs               int
	compileErrs             int
	values                  int
	outBytes, errBytes      int
	before, after           *snap
	binRC                   int
	binRan                  bool
	binOut                  string
	freshStatic, freshKnown bool
}

type state struct {
	base    string // scratch dir of the run
	dir     string // directory of the current history
	nhist   int
	ev      *eval.Evaler
	counter *int64
	last    *obs
	bin     string // path of the elvish binary built from the tree ("" = build failed)
	self    bool   // bin is the harness executable itself (see selfexec.go)
	binErr  string
	times   map[string]float64 // seconds spent per op kind (evidence)
	fam     map[string]int     // eval ops for which Check offered an autofix, by Eval's outcome (evidence)
}

type snap struct {
	names   []string
	vals    map[string]string
	files   map[string]string
	env     string
	envSet  bool
	counter int64
}

func (st *state) snapshot() *snap {
	s := &snap{vals: map[string]string{}, files: map[string]string{}}
	g := st.ev.Global()
	g.IterateKeysString(func(k string) { s.names = append(s.names, k) })
	sort.Strings(s.names)
	for _, k := range s.names {
		if v := g.IndexString(k); v != nil {
			s.vals[k] = vals.ReprPlain(v.Get())
		} else {
			s.vals[k] = "<nil var>"
		}
	}
	ents, _ := os.ReadDir(st.dir)
	for _, e := range ents {
		b, _ := os.ReadFile(filepath.Join(st.dir, e.Name()))
		s.files[e.Name()] = string(b)
	}
	s.env, s.envSet = os.LookupEnv(envVar)
	s.counter = atomic.LoadInt64(st.counter)
	return s
}

// diff describes the first difference between two snapshots, by kind.
func (a *snap) diff(b *snap) (kind, detail string) {
	if strings.Join(a.names, "\x00") != strings.Join(b.names, "\x00") {
		return "names", fmt.Sprintf("global names %q -> %q", a.names, b.names)
	}
	for _, k := range a.names {
		if a.vals[k] != b.vals[k] {
			return "value", fmt.Sprintf("$%s: %s -> %s", k, a.vals[k], b.vals[k])
		}
	}
	if a.counter != b.counter {
		return "builtin", fmt.Sprintf("counting builtin called %d time(s)", b.counter-a.counter)
	}
	if len(a.files) != len(b.files) {
		return "file", fmt.Sprintf("files %d -> %d", len(a.files), len(b.files))
	}
	for k, v := range a.files {
		if w, ok := b.files[k]; !ok || w != v {
			return "file", fmt.Sprintf("file %s: %q -> %q", k, v, w)
		}
	}
	if a.env != b.env || a.envSet != b.envSet {
		return "env", fmt.Sprintf("E:%s %q -> %q", envVar, a.env, b.env)
	}
	return "", ""
}

// the globals every history starts with
func (st *state) reset() {
	st.nhist++
	st.dir = filepath.Join(st.base, fmt.Sprintf("h%d", st.nhist))
	os.RemoveAll(st.dir)
	os.MkdirAll(st.dir, 0o755)
	os.WriteFile(filepath.Join(st.dir, "out"), []byte("initial\n"), 0o644)
	os.Unsetenv(envVar)
	os.Setenv("C16_DIR", st.dir)
	st.counter = new(int64)
	st.ev = newEvaler(st.counter, filepath.Join(st.dir, "out"))
	st.last = nil
}

func newEvaler(counter *int64, outf string) *eval.Evaler {
	ev := evalutil.NewEvaler()
	sub := eval.BuildNs().AddVar("a", vars.FromInit("1")).Ns()
	ev.ExtendGlobal(eval.BuildNs().
		AddVar("g0", vars.FromInit("0")).
		AddVar("g1", vars.FromInit("1")).
		AddVar("g2", vars.FromInit("2")).
		AddVar("lst", vars.FromInit(vals.MakeList("a", "b"))).
		AddVar("mp", vars.FromInit(vals.MakeMap("k", "v"))).
		AddVar("outf", vars.FromInit(outf)).
		AddVar("ro", vars.NewReadOnly("r")).
		AddNs("nsx", sub).
		AddGoFn("tick", func() { atomic.AddInt64(counter, 1) }))
	return ev
}

// candidate module names probed through Check's autofixes (ev.modules is unexported)
var moduleCandidates = []string{"builtin", "runtime", "math", "path", "platform", "re", "str", "file",
	"flag", "doc", "os", "md", "unix", "epm", "readline-binding", "edit", "store", "daemon", "nsx", "g0"}

func infosOf(ns *eval.Ns) string {
	var l []string
	ns.IterateKeysString(func(k string) {
		s := common.Hex(k)
		if vars.IsReadOnly(ns.IndexString(k)) {
			s += "!"
		}
		l = append(l, s)
	})
	sort.Strings(l)
	if len(l) == 0 {
		return "."
	}
	return strings.Join(l, ",")
}

// resetLine describes a fresh evaler to the model.
func resetLine() []string {
	var c int64
	ev := newEvaler(&c, "/nonexistent")
	var mods []string
	for _, m := range probeModules(ev) {
		mods = append(mods, common.Hex(m))
	}
	ms := "."
	if len(mods) > 0 {
		ms = strings.Join(mods, ",")
	}
	return []string{"reset", infosOf(ev.Builtin()), infosOf(ev.Global()), ms}
}

// Printable computes the <printable> field: the non-ASCII code points
// decodable at some byte offset of src for which unicode.IsPrint holds.
func Printable(src string) string {
	set := map[rune]bool{}
	for i := 0; i < len(src); i++ {
		r, _ := utf8.DecodeRuneInString(src[i:])
		if r >= 0x80 && unicode.IsPrint(r) {
			set[r] = true
		}
	}
	if len(set) == 0 {
		return "-"
	}
	var l []int
	for r := range set {
		l = append(l, int(r))
	}
	sort.Ints(l)
	ss := make([]string, len(l))
	for i, x := range l {
		ss[i] = strconv.Itoa(x)
	}
	return strings.Join(ss, ",")
}

func buildBinary(st *state) {
	repo := os.Getenv("VERIF_REPO")
	if repo == "" {
		repo = "/repo"
	}
	out := filepath.Join(st.base, "elvish-c16")
	cmd := exec.Command("go", "build", "-o", out, "./cmd/elvish")
	cmd.Dir = repo
	cmd.Env = append(os.Environ(), "GOFLAGS=-mod=mod", "GOPROXY=off", "GOSUMDB=off", "GOTOOLCHAIN=local", "CGO_ENABLED=0")
	b, err := cmd.CombinedOutput()
	if err != nil {
		st.binErr = strings.TrimSpace(string(b)) + " " + err.Error()
		return
	}
	st.bin = out
}

func run(c *common.Ctx) error {
	s := &common.Std{
		Rule: "histories on one real Evaler each (reset; then eval/check ops): generated programs with observable side effects " +
			"(value and byte output, set of pre-declared globals, file writes, a counting builtin, E: variable, new globals) with one " +
			"injected static error (every compiler error site reachable from source text, parse errors) at a random position, at top level " +
			"or nested in unexecuted lambdas, plus valid programs and token soup; family modns: references (command head, variable, lvalue) into the " +
			"namespace of a module the evaler knows but the code has not imported, followed by further references into it, in one form / one scope / nested scopes; `bin` ops run the real binary `elvish -compileonly -json -c`; " +
			"non-trivial = every op except reset; distinct by op line",
		Timeout: 60 * time.Second,
		NewState: func(c *common.Ctx) any {
			st := &state{base: filepath.Join(c.Dir, "c16-work"), times: map[string]float64{}, fam: map[string]int{}}
			os.MkdirAll(st.base, 0o755)
			t0 := time.Now()
			if c.Thorough() || os.Getenv("C16_REAL_BINARY") == "1" {
				buildBinary(st)
			} else if exe, err := os.Executable(); err == nil {
				st.bin, st.self = exe, true
			} else {
				st.binErr = err.Error()
			}
			c.Extra["compileonly_binary"] = map[bool]string{true: "harness executable re-executed as cmd/elvish (C16_AS_ELVISH=1)", false: "cmd/elvish built from the tree"}[st.self]
			st.times["build-binary"] = time.Since(t0).Seconds()
			c.Extra["seconds_by_op_kind"] = st.times
			c.Extra["eval_ops_where_check_offers_autofix"] = st.fam
			st.reset()
			return st
		},
		Gen:    gen,
		Impl:   impl,
		Oracle: oracle,
		Tag:    tag,
	}
	return s.Run(c)
}

func fmtRanges(prefix string, errs []rng) string {
	var sb strings.Builder
	for _, e := range errs {
		fmt.Fprintf(&sb, " %s%d%s%d", prefix, e.from, e.sep, e.to)
	}
	return sb.String()
}

type rng struct {
	from, to int
	sep      string
}

func parseErrRanges(err error) []rng {
	var l []rng
	for _, e := range parse.UnpackErrors(err) {
		l = append(l, rng{e.Context.From, e.Context.To, ":"})
	}
	return l
}

func compileErrList(err error) string {
	var sb strings.Builder
	for _, e := range eval.UnpackCompilationErrors(err) {
		fmt.Fprintf(&sb, " %s@%d-%d", slugOf(e.Message), e.Context.From, e.Context.To)
	}
	return sb.String()
}

// safeCheck runs Evaler.Check, turning a panic into a message.
func safeCheck(ev *eval.Evaler, src string) (parseErr error, fixes []string, compileErr error, panicMsg string) {
	defer func() {
		if r := recover(); r != nil {
			panicMsg = fmt.Sprint(r)
		}
	}()
	parseErr, fixes, compileErr = ev.Check(parse.Source{Name: "[c16]", Code: src}, nil)
	return
}

type evalResult struct {
	values   []any
	out, err []byte
	e        error
	panicMsg string
}

// safeEval runs Evaler.Eval with captured stdout (values and bytes) and stderr.
func safeEval(ev *eval.Evaler, src string) (res evalResult) {
	port1, collect1, err := eval.CapturePort()
	if err != nil {
		panic(err)
	}
	port2, collect2, err := eval.CapturePort()
	if err != nil {
		panic(err)
	}
	ctx, cancel := context.WithTimeout(context.Background(), 5*time.Second)
	defer cancel()
	func() {
		defer func() {
			if r := recover(); r != nil {
				res.panicMsg = fmt.Sprint(r)
			}
		}()
		res.e = ev.Eval(parse.Source{Name: "[c16]", Code: src},
			eval.EvalCfg{Ports: []*eval.Port{eval.DummyInputPort, port1, port2}, Interrupts: ctx})
	}()
	res.values, res.out = collect1()
	var ev2 []any
	ev2, res.err = collect2()
	res.values = append(res.values, ev2...)
	return
}

func impl(sti any, f []string) string {
	st := sti.(*state)
	t0 := time.Now()
	defer func() { st.times[f[0]] += time.Since(t0).Seconds() }()
	switch f[0] {
	case "reset":
		st.reset()
		return "ok"
	case "extb":
		st.ev.ExtendBuiltin(eval.BuildNs().AddVar(common.Unhex(f[1]), vars.FromInit("b")))
		return "ok"
	case "eval":
		src := common.Unhex(f[1])
		o := &obs{src: src}
		st.last = o
		// the static check first, on the same state
		s0 := st.snapshot()
		var chkFixes []string
		o.chkParse, chkFixes, o.chkCompile, o.checkPanic = safeCheck(st.ev, src)
		s1 := st.snapshot()
		k, d := s0.diff(s1)
		o.chkPure, o.chkDiff = k == "", d
		o.before = s1
		res := safeEval(st.ev, src)
		o.after = st.snapshot()
		o.evalPanic = res.panicMsg
		o.err = res.e
		o.values, o.outBytes, o.errBytes = len(res.values), len(res.out), len(res.err)
		if res.panicMsg != "" {
			return "EVAL-PANIC"
		}
		pes := parseErrRanges(res.e)
		ces := eval.UnpackCompilationErrors(res.e)
		o.parseErrs, o.compileErrs = len(pes), len(ces)
		if len(chkFixes) > 0 {
			// evidence that the inputs on which the module names given to compile matter are reached
			switch {
			case len(pes) > 0:
				st.fam["check-offers-autofix,eval-parse-error"]++
			case len(ces) > 0:
				st.fam["check-offers-autofix,eval-compile-error"]++
			default:
				st.fam["check-offers-autofix,eval-ran"]++
			}
		}
		if len(pes) == 0 && len(ces) == 0 {
			names := make([]string, len(o.after.names))
			for i, n := range o.after.names {
				names[i] = common.Hex(n)
			}
			if len(names) == 0 {
				return "RUN ."
			}
			return "RUN " + strings.Join(names, ",")
		}
		fx := o.values
		if o.outBytes > 0 {
			fx++
		}
		if o.errBytes > 0 {
			fx++
		}
		g := "same"
		if k, _ := o.before.diff(o.after); k != "" {
			g = "changed"
			if k != "names" {
				fx++
			}
		}
		tail := fmt.Sprintf(" | fx=%d g=%s", fx, g)
		if len(pes) > 0 {
			return "PARSE" + fmtRanges("", pes) + tail
		}
		return "COMPILE" + compileErrList(res.e) + tail
	case "check":
		src := common.Unhex(f[1])
		pe, fixes, ce, pm := safeCheck(st.ev, src)
		if pm != "" {
			return "PANIC"
		}
		var sb strings.Builder
		for _, x := range fixes {
			sb.WriteString(" " + common.Hex(x))
		}
		return "CHECK P" + fmtRanges("", parseErrRanges(pe)) + " C" + compileErrList(ce) + " F" + sb.String()
	case "bin":
		src := common.Unhex(f[1])
		o := &obs{src: src}
		st.last = o
		if st.bin == "" {
			return "BIN-BUILD-FAILED " + st.binErr
		}
		ctx, cancel := context.WithTimeout(context.Background(), 30*time.Second)
		defer cancel()
		cmd := exec.CommandContext(ctx, st.bin, "-compileonly", "-json", "-c", src)
		cmd.Dir = st.dir
		if st.self {
			cmd.Env = append(cmd.Env, "C16_AS_ELVISH=1")
		}
		cmd.Env = append(append(os.Environ(), cmd.Env...), "HOME="+st.dir, "XDG_CONFIG_HOME="+st.dir, "XDG_DATA_HOME="+st.dir, "XDG_STATE_HOME="+st.dir)
		var stdout, stderr bytes.Buffer
		cmd.Stdout, cmd.Stderr = &stdout, &stderr
		err := cmd.Run()
		rc := 0
		if err != nil {
			if ee, ok := err.(*exec.ExitError); ok {
				rc = ee.ExitCode()
			} else {
				return "BIN-EXEC-FAILED " + err.Error()
			}
		}
		o.binRan, o.binRC, o.binOut = true, rc, stdout.String()+stderr.String()
		var errs []struct {
			Start   int    `json:"start"`
			End     int    `json:"end"`
			Message string `json:"message"`
		}
		if e := json.Unmarshal(bytes.TrimSpace(stdout.Bytes()), &errs); e != nil {
			return fmt.Sprintf("BIN rc=%d BAD-JSON %s", rc, strings.TrimSpace(stdout.String()))
		}
		var sb strings.Builder
		for _, e := range errs {
			s := slugOf(e.Message)
			if strings.HasPrefix(s, "unknown:") {
				s = "P" // a parse error message
			}
			fmt.Fprintf(&sb, " %s@%d-%d", s, e.Start, e.End)
		}
		// what evaluation of the same code in the same (fresh) context reports
		fresh := evalutil.NewEvaler() // the binary's context: no pre-declared globals
		r := safeEval(fresh, src)
		if r.panicMsg == "" {
			o.freshKnown = true
			o.freshStatic = len(parse.UnpackErrors(r.e)) > 0 || len(eval.UnpackCompilationErrors(r.e)) > 0
		}
		return fmt.Sprintf("BIN rc=%d", rc) + sb.String()
	}
	return "bad-op"
}

// oracle: the property itself, on the real code.
func oracle(sti any, f []string, out string) (string, string) {
	st := sti.(*state)
	o := st.last
	switch f[0] {
	case "eval":
		if o == nil {
			return "", ""
		}
		if o.checkPanic != "" {
			return "check-crashed", fmt.Sprintf("Evaler.Check panicked on %q: %s", o.src, o.checkPanic)
		}
		if !o.chkPure {
			return "check-has-side-effects", fmt.Sprintf("Evaler.Check of %q: %s", o.src, o.chkDiff)
		}
		if o.evalPanic != "" || out == "TIMEOUT" || out == "PANIC" {
			return "", "" // a crash while running is C17's subject
		}
		static := o.parseErrs > 0 || o.compileErrs > 0
		chk := o.chkParse != nil || o.chkCompile != nil
		if chk != static {
			return "check-disagrees-with-eval", fmt.Sprintf("%q: Check reports parse=%v compile=%v, Eval reports %v",
				o.src, o.chkParse, o.chkCompile, o.err)
		}
		if o.parseErrs > 0 && o.chkParse == nil {
			return "check-disagrees-with-eval", fmt.Sprintf("%q: Eval reports a parse error, Check reports none", o.src)
		}
		if !static {
			return "", ""
		}
		what := "compilation"
		if o.parseErrs > 0 {
			what = "parse"
		}
		if o.values > 0 || o.outBytes > 0 {
			return "output-despite-static-error", fmt.Sprintf("%q has a %s error but produced %d value(s) and %d byte(s) of output",
				o.src, what, o.values, o.outBytes)
		}
		if o.errBytes > 0 {
			return "stderr-output-despite-static-error", fmt.Sprintf("%q has a %s error but wrote %d byte(s) to stderr", o.src, what, o.errBytes)
		}
		switch k, d := o.before.diff(o.after); k {
		case "names":
			return "global-namespace-changed-despite-static-error", fmt.Sprintf("%q has a %s error: %s", o.src, what, d)
		case "value":
			return "variable-changed-despite-static-error", fmt.Sprintf("%q has a %s error: %s", o.src, what, d)
		case "builtin":
			return "builtin-ran-despite-static-error", fmt.Sprintf("%q has a %s error: %s", o.src, what, d)
		case "file", "env":
			return "file-or-env-changed-despite-static-error", fmt.Sprintf("%q has a %s error: %s", o.src, what, d)
		}
	case "bin":
		if o == nil || !o.binRan || !o.freshKnown {
			return "", ""
		}
		if o.binRC != 0 && o.binRC != 2 {
			return "compileonly-crashed", fmt.Sprintf("elvish -compileonly -c %q exits %d: %s", o.src, o.binRC, o.binOut)
		}
		if (o.binRC != 0) != o.freshStatic {
			return "compileonly-disagrees-with-eval", fmt.Sprintf("elvish -compileonly -c %q exits %d, evaluation reports static error = %v",
				o.src, o.binRC, o.freshStatic)
		}
	case "check":
		if out == "PANIC" {
			return "check-crashed", fmt.Sprintf("Evaler.Check panicked on %q", common.Unhex(f[1]))
		}
	}
	return "", ""
}

func tag(f []string, out string) string {
	if f[0] == "reset" {
		return ""
	}
	w := strings.Fields(out)
	if len(w) == 0 {
		return f[0] + ":?"
	}
	switch w[0] {
	case "RUN":
		return "eval:ran"
	case "PARSE":
		return "eval:parse-error"
	case "COMPILE":
		if len(w) > 1 {
			return "eval:" + strings.SplitN(w[1], "@", 2)[0]
		}
	case "CHECK":
		// CHECK P … C … F …
		i := 0
		for i < len(w) && w[i] != "C" {
			i++
		}
		p := i > 2
		if i+1 < len(w) && w[i+1] != "F" {
			s := "check:" + strings.SplitN(w[i+1], "@", 2)[0]
			if p {
				s += "+parse"
			}
			return s
		}
		if p {
			return "check:parse-error"
		}
		if w[len(w)-1] != "F" {
			return "check:ok+autofix"
		}
		return "check:ok"
	case "BIN":
		if len(w) > 2 {
			return "bin:" + strings.SplitN(w[2], "@", 2)[0]
		}
		return "bin:ok"
	}
	return f[0] + ":" + w[0]
}
