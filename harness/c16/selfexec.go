package c16

import (
	"os"

	"src.elv.sh/pkg/buildinfo"
	"src.elv.sh/pkg/daemon"
	"src.elv.sh/pkg/lsp"
	"src.elv.sh/pkg/prog"
	"src.elv.sh/pkg/shell"
)

// When the harness executable is started with C16_AS_ELVISH=1 it IS elvish: the
// body of cmd/elvish/main.go, linked against the same tree.  The quick tier
// uses this for the `bin` ops (building cmd/elvish separately costs more than
// the rest of the check); the thorough tier builds and runs the real
// cmd/elvish.
func init() {
	if os.Getenv("C16_AS_ELVISH") != "1" {
		return
	}
	os.Unsetenv("C16_AS_ELVISH")
	os.Exit(prog.Run(
		[3]*os.File{os.Stdin, os.Stdout, os.Stderr}, os.Args,
		prog.Composite(
			&buildinfo.Program{}, &daemon.Program{}, &lsp.Program{},
			&shell.Program{ActivateDaemon: daemon.Activate})))
}
