package c16

import (
	"fmt"
	"strings"

	"src.elv.sh/pkg/eval"
	"src.elv.sh/pkg/parse"
	"verifharness/common"
)

// Generator family "modns" (round 3; seeded change C16-check-autofix-adds-namespace).
//
// The ONLY input of `compile` that differs between Evaler.Check / `elvish -compileonly` and
// Evaler.Eval is the list of module names (Check passes mapKeys(ev.modules), Eval passes nil), and
// the only code that reads it is `autofixUnresolvedVar`, reached from three places: an unresolved
// command head (which, under the default pragma, is NOT a static error), an unresolved variable use
// and an unresolved lvalue.  Theorem C16_compile_ignores_modules says the errors do not depend on
// that list.  A change that makes the autofix code touch the compiler's state (declare the module's
// namespace or the command name "so the autofix is not suggested twice", drop the error "because an
// autofix is offered", …) breaks exactly that theorem, and manifests only in sources that
//
//   - refer to the namespace of a module that the Evaler KNOWS but that is NOT imported
//     (the names come from probing Check's autofixes, see probeModules), and
//   - have, after that first reference, further references into the same namespace whose
//     resolution decides whether the source has a static error.
//
// The family is the product  namespace × first reference × follow-up reference × placement  with
// unknown namespaces, imported modules, a namespace variable of the global scope and e:/E: as controls.

// probeModules returns the candidate names for which Check suggests `use <name>`: the modules the
// evaler knows and whose namespace is not in scope (ev.modules is unexported).
func probeModules(ev *eval.Evaler) []string {
	var mods []string
	for _, m := range moduleCandidates {
		_, fixes, _ := ev.Check(parse.Source{Name: "[probe]", Code: "put $" + m + ":x"}, nil)
		for _, f := range fixes {
			if f == "use "+m {
				mods = append(mods, m)
				break
			}
		}
	}
	return mods
}

// a first reference to namespace M (the place where the static check may offer `use M`)
type mnFirst struct {
	code    string // %s = M
	cmdHead bool   // a command head: usable as the head of a form that carries the follow-up expression
}

var mnFirsts = []mnFirst{
	{"%s:foo", true},                     // command head, default pragma: external, NOT a static error
	{"%s:foo a &k=v", false},             //   … with arguments
	{"%s:to-upper a | %[1]s:bar", false}, //   … two heads in one pipeline
	{"put $%s:x", false},                 // variable use: a static error itself
	{"set %s:x = 1", false},              // lvalue: a static error itself
	{"$%s:foo~ a", false},                // head that is a variable
	{"nop", false},                       // control: no first reference
}

// follow-up references: `stmt` a whole statement, `expr` (optional) an expression that can be an
// argument of the first reference's own form (`str:foo $str:x`)
type mnNext struct{ stmt, expr string }

var mnNexts = []mnNext{
	{"put $%s:x", "$%s:x"},
	{"put $%s:f~", "$%s:f~"},
	{"put $%s:", "$%s:"},
	{"put [$%s:x]", "[&k=$%s:x]"},
	{"put $%s:x $%[1]s:y", "$%s:x $%[1]s:y"},
	{"echo a > $%s:x", "> $%s:x"},
	{"nop &o=$%s:x", "&o=$%s:x"},
	{"put { put $%s:x }", "{ put $%s:x }"},
	{"put (put $%s:x)", "(put $%s:x)"},
	{"fn " + "q { %s:bar $%[1]s:y }", "{|a| %s:bar $%[1]s:y }"},
	{"set %s:x = 1", ""},
	{"with %s:x = 1 { }", ""},
	{"del %s:", ""},
	{"del %s:x", ""},
	{"pragma unknown-command = disallow\n%s:bar", ""}, // a command of the namespace where unknown commands are errors
	{"put { pragma unknown-command = disallow; %s:bar }", "{ pragma unknown-command = disallow; %s:bar }"},
	{"%s:bar", "%s:bar"}, // control: again only a command head
	{"nop", ""},          // control: nothing follows
}

// placements of first reference F and follow-up R
var mnPlaces = []string{
	"F\nR", "F; R", "F | R",
	"put { F\nR }", "fn p { F; R }", "if $true { F; R }",
	"F\nput { R }", "F\nput {|a| put { R } }",
	"put { F }\nR", "put { F }\nput { R }", "if $true { F } else { R }", "try { F } catch e { R }",
	"put { F; put {|a| R } }",
	"R\nF", // control: the follow-up comes first
}

type mnNs struct {
	name string
	pre  string // statement that brings the namespace into scope ("" = none)
	kind string // known | imported | unknown | global | special
}

func sprintM(f, m string) string {
	if !strings.Contains(f, "%") {
		return f
	}
	return fmt.Sprintf(f, m)
}

// mnProgram builds one program; strict = the whole program is under `pragma unknown-command = disallow`.
func mnProgram(ns mnNs, f mnFirst, n mnNext, place string, strict bool) string {
	F, R := sprintM(f.code, ns.name), sprintM(n.stmt, ns.name)
	var body string
	if place == "FORM" {
		// the follow-up is an argument / option / redirection / next pipeline form of the first reference's own form
		body = F + " " + sprintM(n.expr, ns.name)
	} else {
		body = strings.Replace(strings.Replace(place, "F", F, 1), "R", R, 1)
	}
	var pre string
	if ns.pre != "" {
		pre = ns.pre + "\n"
	}
	if strict {
		pre += "pragma unknown-command = disallow\n"
	}
	return pre + body
}

// mnAll enumerates the family for one namespace.
func mnAll(ns mnNs) []string {
	var l []string
	seen := map[string]bool{}
	add := func(s string) {
		if !seen[s] {
			seen[s] = true
			l = append(l, s)
		}
	}
	for _, f := range mnFirsts {
		for _, n := range mnNexts {
			for _, strict := range []bool{false, true} {
				if f.cmdHead && n.expr != "" {
					add(mnProgram(ns, f, n, "FORM", strict))
				}
				for _, p := range mnPlaces {
					if p == "F | R" && strings.Contains(n.stmt, "\n") {
						continue
					}
					add(mnProgram(ns, f, n, p, strict))
				}
			}
		}
	}
	return l
}

// the fixed witnesses (always run, first): M = each of the first three known modules
func mnWitnesses(m string) []string {
	w := []string{
		"%s:foo $%[1]s:x",                       // the seeded change's demonstration
		"%s:foo\nput $%[1]s:x",                  // same scope, next statement
		"%s:foo; put { put $%[1]s:x }",          // nested scope (capture)
		"put { %s:foo; put $%[1]s:x }",          // both in a lambda
		"fn p { %s:foo a; %[1]s:bar $%[1]s:y }", // function body
		"%s:foo | put $%[1]s:x",                 // pipeline
		"%s:foo > $%[1]s:x",                     // redirection target
		"%s:foo &o=$%[1]s:x",                    // option value
		"%s:foo $%[1]s:",                        // the namespace variable itself
		"%s:foo\ndel %[1]s:",                    // … deleted
		"%s:foo\nset %[1]s:x = 1",               // lvalue
		"%s:foo\n$%[1]s:bar~ a",                 // variable head
		"put { %s:foo }\nput $%[1]s:x",          // control: first reference in an inner scope
		"put $%s:x\n%[1]s:foo",                  // control: variable first
		"put $%s:x",                             // a variable alone: Check offers the autofix AND reports the error
		"put $%s:x $%[1]s:y",                    // … two errors, two autofixes
		"set %s:x = 1",                          // lvalue alone
		"%s:foo",                                // command alone: no static error, runs
		// sibling: the autofix for an unresolved COMMAND must not declare the command either
		"pragma unknown-command = disallow\n%s:foo",
		"pragma unknown-command = disallow\n%s:foo\n%[1]s:foo",
		"%s:foo\npragma unknown-command = disallow\n%[1]s:foo",
		"%s:foo\nput { pragma unknown-command = disallow; %[1]s:foo }",
		"%s:foo\nput { pragma unknown-command = disallow; %[1]s:bar }",
		"%s:foo\nput $%[1]s:foo~",
		"pragma unknown-command = disallow\nput { %s:foo }; %[1]s:foo",
	}
	for i := range w {
		w[i] = fmt.Sprintf(w[i], m)
	}
	return w
}

const mnEffects = "tick\nput before\necho x > $outf\nset g0 = changed\n"

// genModNs emits the family.  known = the modules the evaler knows (probed).
func genModNs(c *common.Ctx, emit func(...string), reset []string, known []string) {
	r := c.Rand
	op := func(kind, src string) { emit(kind, common.Hex(src), Printable(src)) }
	stats := map[string]int{}
	c.Extra["modns_family"] = stats
	if len(known) == 0 {
		// the probe found nothing (the autofix code of the tree under test is broken): still generate
		stats["NO-KNOWN-MODULE-PROBED"] = 1
		known = []string{"str", "math", "re"}
	}
	wm := known
	if len(wm) > 3 && !c.Thorough() {
		// str, math, re when present, else the first three
		var pick []string
		for _, want := range []string{"str", "math", "re"} {
			for _, m := range known {
				if m == want {
					pick = append(pick, m)
				}
			}
		}
		if len(pick) == 3 {
			wm = pick
		} else {
			wm = known[:3]
		}
	}
	// 1. fixed witnesses: through Eval (which runs Check first) after side effects, and alone through Check
	for i, m := range wm {
		emit(reset...)
		for _, w := range mnWitnesses(m) {
			if i == 0 {
				op("eval", mnEffects+w)
				op("check", w)
			} else {
				op("eval", w)
			}
			stats["witness"]++
		}
	}
	// the same witnesses with an unknown namespace and with an imported module (controls)
	emit(reset...)
	for _, w := range mnWitnesses("nosuchmod") {
		op("eval", w)
	}
	emit(reset...)
	op("eval", "use "+wm[0])
	for _, w := range mnWitnesses(wm[0]) {
		op("eval", w)
	}
	// through the binary (self-contained, no prelude needed)
	// (`str:foo $str:x` and the strict-pragma sibling are in harness/corpus/C16.txt)
	binW := []string{"put { " + wm[len(wm)-1] + ":foo; put { put $" + wm[len(wm)-1] + ":x } }"}
	if c.Thorough() {
		for i, m := range known {
			if i < 3 {
				binW = append(binW, mnWitnesses(m)...)
			}
		}
	}
	for _, w := range binW {
		op("bin", w)
		stats["bin"]++
	}

	// 2. the product, sampled (quick) or enumerated (thorough)
	spaces := []mnNs{}
	for _, m := range known {
		spaces = append(spaces, mnNs{m, "", "known"})
	}
	ctrl := []mnNs{
		{"nosuchmod", "", "unknown"}, {"nsx", "", "global"}, {known[0], "use " + known[0], "imported"},
		{"m", "use " + known[len(known)-1] + " m", "imported"}, {"e", "", "special"},
	}
	var all []struct {
		src  string
		kind string
	}
	for _, ns := range append(spaces, ctrl...) {
		for _, s := range mnAll(ns) {
			all = append(all, struct{ src, kind string }{s, ns.kind})
		}
	}
	stats["product-size"] = len(all)
	n := c.Scale(420, 20000)
	if n > len(all) {
		n = len(all)
	}
	perm := make([]int, len(all))
	for i := range perm {
		perm[i] = i
	}
	shuffle := func(p []int) {
		for i := len(p) - 1; i > 0; i-- {
			j := r.Intn(i + 1)
			p[i], p[j] = p[j], p[i]
		}
	}
	shuffle(perm)
	if !c.Thorough() {
		// two thirds of the sample from the known-but-unimported modules
		var a, b []int
		for _, i := range perm {
			if all[i].kind == "known" {
				a = append(a, i)
			} else {
				b = append(b, i)
			}
		}
		ka := n * 2 / 3
		if ka > len(a) {
			ka = len(a)
		}
		kb := n - ka
		if kb > len(b) {
			kb = len(b)
		}
		perm = append(append([]int{}, a[:ka]...), b[:kb]...)
		shuffle(perm)
	}
	for k, i := range perm {
		if k%30 == 0 {
			emit(reset...)
			if r.Chance(1, 4) {
				// a module imported EARLIER in the history: its namespace is in the global scope
				op("eval", "use "+common.Pick(r, known))
			}
		}
		src := all[i].src
		switch x := r.Intn(10); {
		case x < 5:
			op("eval", src)
		case x < 8:
			op("eval", mnEffects+src)
		default:
			op("check", src)
			op("eval", "tick\n"+src)
		}
		stats["product:"+all[i].kind]++
	}
	// 3. a sample of the product through the binary
	nb := c.Scale(1, 150)
	for k := 0; k < nb; k++ {
		e := all[r.Intn(len(all))]
		if e.kind == "global" {
			continue
		}
		op("bin", e.src)
		stats["bin"]++
	}
}
