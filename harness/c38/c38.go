// Package c38: correspondence and oracle for C38 (pkg/getopt: Parse, Complete;
// flag:parse-getopt and edit:complete-getopt through an in-process Evaler).
//
// Ops (tab separated; byte strings hex, "-" = empty, "_" = empty list):
//
//	parse    <cfg> <specs> <args>   getopt.Parse
//	complete <cfg> <specs> <args>   getopt.Complete
//	fpg      <cfg> <specs> <args>   flag:parse-getopt (cfg ≤ 7)
//	ecg      <specs> <args>         edit:complete-getopt (always getopt.GNU)
//
// specs = short:longhex:arity,...   args = hex,...
package c38

import (
	"fmt"
	"os"
	"strconv"
	"strings"
	"unicode/utf8"

	"src.elv.sh/pkg/cli/clitest"
	"src.elv.sh/pkg/edit"
	"src.elv.sh/pkg/eval"
	"src.elv.sh/pkg/eval/vals"
	"src.elv.sh/pkg/getopt"
	"src.elv.sh/pkg/mods/flag"
	"src.elv.sh/pkg/parse"
	"verifharness/common"
)

func init() { common.Register("C38", run) }

// ---------------------------------------------------------------- encoding

func encSpecs(specs []*getopt.OptionSpec) string {
	if len(specs) == 0 {
		return "_"
	}
	var p []string
	for _, s := range specs {
		p = append(p, fmt.Sprintf("%d:%s:%d", s.Short, common.Hex(s.Long), s.Arity))
	}
	return strings.Join(p, ",")
}

func encArgs(args []string) string {
	if len(args) == 0 {
		return "_"
	}
	var p []string
	for _, a := range args {
		p = append(p, common.Hex(a))
	}
	return strings.Join(p, ",")
}

func decSpecs(s string) []*getopt.OptionSpec {
	var specs []*getopt.OptionSpec
	if s == "_" {
		return specs
	}
	for _, e := range strings.Split(s, ",") {
		f := strings.Split(e, ":")
		sh, _ := strconv.Atoi(f[0])
		ar, _ := strconv.Atoi(f[2])
		specs = append(specs, &getopt.OptionSpec{Short: rune(sh), Long: common.Unhex(f[1]), Arity: getopt.Arity(ar)})
	}
	return specs
}

func decArgs(s string) []string {
	var args []string
	if s == "_" {
		return args
	}
	for _, e := range strings.Split(s, ",") {
		args = append(args, common.Unhex(e))
	}
	return args
}

func refOf(sp *getopt.OptionSpec, specs []*getopt.OptionSpec) string {
	for i, s := range specs {
		if s == sp {
			return strconv.Itoa(i)
		}
	}
	return "x"
}

func b01(b bool) string {
	if b {
		return "1"
	}
	return "0"
}

func encOpt(o *getopt.Option, specs []*getopt.OptionSpec) string {
	return fmt.Sprintf("%s:%d:%s:%d:%s:%s:%s", refOf(o.Spec, specs), o.Spec.Short, common.Hex(o.Spec.Long),
		o.Spec.Arity, b01(o.Unknown), b01(o.Long), common.Hex(o.Argument))
}

func encOpts(opts []*getopt.Option, specs []*getopt.OptionSpec) string {
	if len(opts) == 0 {
		return "_"
	}
	var p []string
	for _, o := range opts {
		p = append(p, encOpt(o, specs))
	}
	return strings.Join(p, ",")
}

// ---------------------------------------------------------------- interpreter state

type state struct {
	ev        *eval.Evaler
	fpgSrc    parse.Source
	ecgSrc    parse.Source
	handlers  vals.List
	lastCands []any
}

func newState(*common.Ctx) any {
	ev := eval.NewEvaler()
	ev.ExtendGlobal(eval.BuildNs().AddNs("flag", flag.Ns))
	tty, _ := clitest.NewFakeTTY()
	ed := edit.NewEditor(tty, ev, nil)
	ev.ExtendBuiltin(eval.BuildNs().AddNs("edit", ed))
	st := &state{ev: ev}
	mustEval(ev, "var c38-args = []; var c38-specs = []; var c38-handlers = []; var c38-sadd = $true; var c38-sbnf = $false; var c38-lo = $false")
	st.fpgSrc = parse.Source{Name: "[c38]", Code: "flag:parse-getopt $c38-args $c38-specs &stop-after-double-dash=$c38-sadd &stop-before-non-flag=$c38-sbnf &long-only=$c38-lo"}
	st.ecgSrc = parse.Source{Name: "[c38]", Code: "edit:complete-getopt $c38-args $c38-specs $c38-handlers"}
	h := func(i int) eval.Callable {
		return eval.NewGoFn(fmt.Sprintf("h%d", i), func(fm *eval.Frame, t string) error {
			return fm.ValueOutput().Put(fmt.Sprintf("arg%d:%s", i, t))
		})
	}
	st.handlers = vals.MakeList(h(0), h(1), "...")
	return st
}

func mustEval(ev *eval.Evaler, code string) {
	if err := ev.Eval(parse.Source{Name: "[c38-init]", Code: code}, eval.EvalCfg{}); err != nil {
		panic(err)
	}
}

func (st *state) set(name string, v any) {
	if err := st.ev.Global().IndexString(name).Set(v); err != nil {
		panic(err)
	}
}

func strList(ss []string) vals.List {
	l := vals.EmptyList
	for _, s := range ss {
		l = l.Conj(s)
	}
	return l
}

// run evaluates src capturing value output; returns values and the reason of
// the exception (nil if none).
func (st *state) run(src parse.Source) ([]any, error) {
	port, collect, err := eval.ValueCapturePort()
	if err != nil {
		panic(err)
	}
	devnull, _ := os.Open(os.DevNull)
	defer devnull.Close()
	ports := []*eval.Port{eval.DummyInputPort, port, eval.DummyOutputPort}
	err = st.ev.Eval(src, eval.EvalCfg{Ports: ports})
	outs := collect()
	if err != nil {
		if exc, ok := err.(eval.Exception); ok {
			return outs, exc.Reason()
		}
		return outs, err
	}
	return outs, nil
}

// flagSpecMaps builds the spec maps of flag:parse-getopt; id = position.
func flagSpecMaps(specs []*getopt.OptionSpec, withCompleter bool) vals.List {
	l := vals.EmptyList
	for i, s := range specs {
		i := i
		m := vals.EmptyMap.Assoc("id", strconv.Itoa(i))
		if s.Short != 0 {
			m = m.Assoc("short", string(s.Short))
		}
		if s.Long != "" {
			m = m.Assoc("long", s.Long)
		}
		switch s.Arity {
		case getopt.RequiredArgument:
			m = m.Assoc("arg-required", true)
		case getopt.OptionalArgument:
			m = m.Assoc("arg-optional", true)
		}
		if withCompleter {
			m = m.Assoc("completer", eval.NewGoFn(fmt.Sprintf("c%d", i), func(fm *eval.Frame, t string) error {
				return fm.ValueOutput().Put(fmt.Sprintf("opt%d:%s", i, t))
			}))
		}
		l = l.Conj(m)
	}
	return l
}

// elvSpecOK: can this spec be written as a flag:parse-getopt / complete-getopt map?
func elvSpecOK(s *getopt.OptionSpec) bool {
	if s.Short == 0 && s.Long == "" {
		return false
	}
	if s.Short != 0 && (s.Short == utf8.RuneError || !utf8.ValidRune(s.Short)) {
		return false
	}
	return s.Arity <= 2
}

// ---------------------------------------------------------------- impl

func impl(sta any, f []string) string {
	st := sta.(*state)
	switch f[0] {
	case "parse":
		cfg, _ := strconv.Atoi(f[1])
		specs, args := decSpecs(f[2]), decArgs(f[3])
		opts, rest, err := getopt.Parse(args, specs, getopt.Config(cfg))
		e := "nil"
		if err != nil {
			e = common.Hex(err.Error())
		}
		return fmt.Sprintf("%s %s %s", encOpts(opts, specs), encArgs(rest), e)
	case "complete":
		cfg, _ := strconv.Atoi(f[1])
		specs, args := decSpecs(f[2]), decArgs(f[3])
		opts, rest, ctx := getopt.Complete(args, specs, getopt.Config(cfg))
		o := "nil"
		if ctx.Option != nil {
			o = encOpt(ctx.Option, specs)
		}
		return fmt.Sprintf("%s %s %d %s %s", encOpts(opts, specs), encArgs(rest), ctx.Type, o, common.Hex(ctx.Text))
	case "fpg":
		cfg, _ := strconv.Atoi(f[1])
		specs, args := decSpecs(f[2]), decArgs(f[3])
		st.set("c38-args", strList(args))
		st.set("c38-specs", flagSpecMaps(specs, false))
		st.set("c38-sadd", cfg&1 != 0)
		st.set("c38-sbnf", cfg&2 != 0)
		st.set("c38-lo", cfg&4 != 0)
		outs, err := st.run(st.fpgSrc)
		if err != nil {
			return "ERR " + common.Hex(err.Error())
		}
		if len(outs) != 2 {
			return fmt.Sprintf("BAD-OUTPUT %d values", len(outs))
		}
		var fl []string
		vals.Iterate(outs[0], func(v any) bool {
			spec, _ := vals.Index(v, "spec")
			id, _ := vals.Index(spec, "id")
			arg, _ := vals.Index(v, "arg")
			long, _ := vals.Index(v, "long")
			fl = append(fl, fmt.Sprintf("%s:%s:%s", id, b01(long.(bool)), common.Hex(arg.(string))))
			return true
		})
		var rest []string
		vals.Iterate(outs[1], func(v any) bool { rest = append(rest, v.(string)); return true })
		fls := "_"
		if len(fl) > 0 {
			fls = strings.Join(fl, ",")
		}
		return fmt.Sprintf("OK %s %s", fls, encArgs(rest))
	case "ecg":
		specs, args := decSpecs(f[1]), decArgs(f[2])
		st.set("c38-args", strList(args))
		st.set("c38-specs", flagSpecMaps(specs, true))
		st.set("c38-handlers", st.handlers)
		outs, err := st.run(st.ecgSrc)
		if err != nil {
			return "ERR " + common.Hex(err.Error())
		}
		var c []string
		for _, v := range outs {
			if s, ok := v.(string); ok {
				c = append(c, s)
			} else if stem, err := vals.Index(v, "stem"); err == nil {
				c = append(c, stem.(string))
			} else {
				c = append(c, "?"+vals.Kind(v))
			}
		}
		return encArgs(c)
	}
	return "bad-op"
}

// ---------------------------------------------------------------- reference reading of the conventions
//
// Written from the getopt_long(3) conventions as a C caller sees them: an
// index into argv, a word is either an operand or an option word, an option
// that requires an argument and has none attached TAKES THE NEXT WORD (look
// ahead, no pending state).  Unknown options follow the rule documented in
// getopt.go ("treat as taking an optional argument").

type refOpt struct {
	k       int // index into specs, -1 = unknown
	long    bool
	name    string // unknown: the name ("-x" → "x")
	arg     string
	missing bool // required argument absent (last word)
	badArg  bool // --name=value for an option that takes no argument
}

type refResult struct {
	opts     []refOpt
	operands []string
	missing  *refOpt
	stopped  bool
	badArg   bool
	unknown  bool
}

// lenientBadArg switches the reference to the reading of the code before
// fixes/C38-noarg-attached-arg.patch: --name=value for an option that takes no
// argument delivers the option with that argument and is no error.  It is only
// used to CLASSIFY a mismatch as the noarg-long-attached-arg defect.
var lenientBadArg = false

// legacyEmptyNames switches the reference to the reading in which an absent
// name (Long == "", Short == 0) can be matched by an option word; it is only
// used to CLASSIFY a mismatch as the empty-name-match defect.
var legacyEmptyNames = false

func refLookupLong(name string, specs []*getopt.OptionSpec) int {
	for i, s := range specs {
		if (s.Long != "" || legacyEmptyNames) && s.Long == name {
			return i
		}
	}
	return -1
}

func refLookupShort(c rune, specs []*getopt.OptionSpec) int {
	for i, s := range specs {
		if (s.Short != 0 || legacyEmptyNames) && s.Short == c {
			return i
		}
	}
	return -1
}

// refLongWord reads the body of a long option word (after the dashes);
// next is the following word if any.
func refLongWord(body string, specs []*getopt.OptionSpec, next *string) (o refOpt, usedNext bool) {
	name, val, hasVal := strings.Cut(body, "=")
	k := refLookupLong(name, specs)
	o = refOpt{k: k, long: true, name: name, arg: val}
	switch {
	case k < 0:
	case specs[k].Arity == getopt.NoArgument:
		o.badArg = hasVal
	case specs[k].Arity == getopt.RequiredArgument && !hasVal:
		if next != nil {
			o.arg, usedNext = *next, true
		} else {
			o.missing = true
		}
	}
	return
}

// refCluster reads a cluster of short options (after the dash).
func refCluster(rest string, specs []*getopt.OptionSpec, next *string) (os []refOpt, usedNext bool) {
	for rest != "" {
		c, w := utf8.DecodeRuneInString(rest)
		rest = rest[w:]
		k := refLookupShort(c, specs)
		if k < 0 {
			os = append(os, refOpt{k: -1, name: string(c), arg: rest})
			return
		}
		switch specs[k].Arity {
		case getopt.NoArgument:
			os = append(os, refOpt{k: k})
			continue
		case getopt.RequiredArgument:
			o := refOpt{k: k, arg: rest}
			if rest == "" {
				if next != nil {
					o.arg, usedNext = *next, true
				} else {
					o.missing = true
				}
			}
			os = append(os, o)
		default:
			os = append(os, refOpt{k: k, arg: rest})
		}
		return
	}
	return
}

func isOptionWord(a string) bool { return len(a) >= 2 && a[0] == '-' && a != "--" }

func refParse(args []string, specs []*getopt.OptionSpec, cfg int) refResult {
	var r refResult
	add := func(os []refOpt) {
		for _, o := range os {
			o := o
			if o.missing {
				r.missing = &o
				continue
			}
			if o.badArg && !lenientBadArg {
				// getopt_long: "option doesn't allow an argument"; no option is delivered
				r.badArg = true
				continue
			}
			r.unknown = r.unknown || o.k < 0
			r.opts = append(r.opts, o)
		}
	}
	for optind := 0; optind < len(args); optind++ {
		a := args[optind]
		switch {
		case r.stopped:
			r.operands = append(r.operands, a)
		case a == "--" && cfg&1 != 0:
			r.stopped = true
		case !isOptionWord(a):
			r.operands = append(r.operands, a)
			if cfg&2 != 0 {
				r.stopped = true
			}
		default:
			var next *string
			if optind+1 < len(args) {
				next = &args[optind+1]
			}
			var os []refOpt
			var used bool
			if a[1] == '-' {
				var o refOpt
				o, used = refLongWord(a[2:], specs, next)
				os = []refOpt{o}
			} else if cfg&4 != 0 {
				var o refOpt
				o, used = refLongWord(a[1:], specs, next)
				os = []refOpt{o}
			} else {
				os, used = refCluster(a[1:], specs, next)
			}
			add(os)
			if used {
				optind++
			}
		}
	}
	return r
}

// inConvention: is the spec list one the conventions speak about?
func inConvention(specs []*getopt.OptionSpec) bool {
	for _, s := range specs {
		if s.Arity > 2 || strings.Contains(s.Long, "=") || s.Short < 0 {
			return false
		}
	}
	return true
}

func sameOpt(o *getopt.Option, w refOpt, specs []*getopt.OptionSpec) bool {
	if o.Long != w.long || o.Argument != w.arg {
		return false
	}
	if w.k < 0 {
		if !o.Unknown || o.Spec.Arity != getopt.OptionalArgument {
			return false
		}
		if w.long {
			return o.Spec.Long == w.name && o.Spec.Short == 0
		}
		return string(o.Spec.Short) == w.name && o.Spec.Long == ""
	}
	return !o.Unknown && o.Spec == specs[w.k]
}

func emptyNameMatch(opts []*getopt.Option) bool {
	for _, o := range opts {
		if !o.Unknown && ((o.Long && o.Spec.Long == "") || (!o.Long && o.Spec.Short == 0)) {
			return true
		}
	}
	return false
}

func hasInvalidUTF8(args []string) bool {
	for _, a := range args {
		if !utf8.ValidString(a) {
			return true
		}
	}
	return false
}

func descOpts(opts []*getopt.Option, specs []*getopt.OptionSpec) string {
	var p []string
	for _, o := range opts {
		p = append(p, fmt.Sprintf("{spec#%s %q/%q unknown=%v long=%v arg=%q}", refOf(o.Spec, specs), string(o.Spec.Short), o.Spec.Long, o.Unknown, o.Long, o.Argument))
	}
	return "[" + strings.Join(p, " ") + "]"
}

func compareOpts(got []*getopt.Option, want []refOpt, specs []*getopt.OptionSpec) bool {
	if len(got) != len(want) {
		return false
	}
	for i := range got {
		if !sameOpt(got[i], want[i], specs) {
			return false
		}
	}
	return true
}

func sameStrings(a, b []string) bool {
	if len(a) != len(b) {
		return false
	}
	for i := range a {
		if a[i] != b[i] {
			return false
		}
	}
	return true
}

func crashClass(args []string, what string) (string, string) {
	if hasInvalidUTF8(args) {
		return "invalid-utf8-short-width", fmt.Sprintf("%s panics on args %q", what, args)
	}
	return "crash", fmt.Sprintf("%s panics on args %q", what, args)
}

// parseAgrees: does the real result agree with the reference reading?
func parseAgrees(want refResult, opts []*getopt.Option, rest []string, err error, specs []*getopt.OptionSpec) string {
	if !compareOpts(opts, want.opts, specs) {
		return "options-mismatch"
	}
	if !sameStrings(rest, want.operands) {
		return "operands-mismatch"
	}
	wantErr := want.missing != nil || want.unknown || want.badArg
	if (err != nil) != wantErr {
		return "error-mismatch"
	}
	if want.missing != nil {
		part := "-" + string(specs[want.missing.k].Short)
		if want.missing.long {
			part = "--" + specs[want.missing.k].Long
		}
		if !strings.Contains(err.Error(), "missing argument for "+part) {
			return "error-mismatch"
		}
	}
	return ""
}

// invalidUTF8Cluster: is some word a short-option cluster with an invalid byte?
func invalidUTF8Cluster(args []string, cfg int) bool {
	for _, a := range args {
		if isOptionWord(a) && a[1] != '-' && cfg&4 == 0 && !utf8.ValidString(a) {
			return true
		}
	}
	return false
}

// classify names the defect behind a mismatch, if it is one of the two known
// mechanisms; otherwise the generic class is kept.
func classify(generic string, args []string, specs []*getopt.OptionSpec, cfg int, agrees func(refResult) bool) string {
	legacyEmptyNames = true
	ok := agrees(refParse(args, specs, cfg))
	legacyEmptyNames = false
	if ok {
		return "empty-name-match"
	}
	lenientBadArg = true
	ok = agrees(refParse(args, specs, cfg))
	lenientBadArg = false
	if ok {
		return "noarg-long-attached-arg"
	}
	if invalidUTF8Cluster(args, cfg) {
		return "invalid-utf8-short-width"
	}
	return generic
}

// checkParse evaluates the first sentence of C38 on getopt.Parse.
func checkParse(args []string, specs []*getopt.OptionSpec, cfg int) (string, string) {
	want := refParse(args, specs, cfg)
	opts, rest, err := getopt.Parse(args, specs, getopt.Config(cfg))
	ctxt := fmt.Sprintf("cfg=%d specs=%s args=%q: got opts=%s operands=%q err=%v", cfg, descSpecs(specs), args, descOpts(opts, specs), rest, err)
	if m := parseAgrees(want, opts, rest, err, specs); m != "" {
		cls := classify(m, args, specs, cfg, func(w refResult) bool { return parseAgrees(w, opts, rest, err, specs) == "" })
		return cls, ctxt + fmt.Sprintf("; reference reading: opts=%+v operands=%q missing=%v", want.opts, want.operands, want.missing != nil)
	}
	if want.badArg && !strings.Contains(err.Error(), "doesn't take an argument") {
		return "error-mismatch", "no error names the option that got an argument it does not take; " + ctxt
	}
	return "", ""
}

func descSpecs(specs []*getopt.OptionSpec) string {
	var p []string
	for _, s := range specs {
		p = append(p, fmt.Sprintf("{%q %q %d}", string(s.Short), s.Long, s.Arity))
	}
	return "[" + strings.Join(p, " ") + "]"
}

// checkComplete evaluates the second sentence of C38: Complete(args) reads
// args[:n-1] exactly as Parse does, and classifies the last word.
func checkComplete(args []string, specs []*getopt.OptionSpec, cfg int) (string, string) {
	n := len(args)
	front, last := args[:n-1], args[n-1]
	popts, prest, _ := getopt.Parse(front, specs, getopt.Config(cfg))
	opts, rest, ctx := getopt.Complete(args, specs, getopt.Config(cfg))
	ctxt := fmt.Sprintf("cfg=%d specs=%s args=%q: Complete opts=%s operands=%q ctx={%d %v %q}; Parse(front) opts=%s operands=%q",
		cfg, descSpecs(specs), args, descOpts(opts, specs), rest, ctx.Type, ctx.Option, ctx.Text, descOpts(popts, specs), prest)
	if len(opts) < len(popts) {
		return "complete-prefix-mismatch", ctxt
	}
	for i := range popts {
		a, b := opts[i], popts[i]
		if a.Spec.Short != b.Spec.Short || a.Spec.Long != b.Spec.Long || a.Spec.Arity != b.Spec.Arity ||
			refOf(a.Spec, specs) != refOf(b.Spec, specs) || a.Unknown != b.Unknown || a.Long != b.Long || a.Argument != b.Argument {
			return "complete-prefix-mismatch", ctxt
		}
	}
	if !sameStrings(rest, prest) {
		return "complete-prefix-mismatch", ctxt
	}
	extra := opts[len(popts):]
	agrees := func() (bool, wantCtx) {
		w := wantContext(front, last, specs, cfg)
		if ctx.Type != w.typ || ctx.Text != w.text || (ctx.Option == nil) != (w.opt == nil) || !compareOpts(extra, w.extra, specs) {
			return false, w
		}
		if w.opt != nil && !sameOpt(ctx.Option, *w.opt, specs) {
			return false, w
		}
		return true, w
	}
	if ok, w := agrees(); !ok {
		cls := classify("complete-context-mismatch", args, specs, cfg, func(refResult) bool { ok, _ := agrees(); return ok })
		return cls, ctxt + fmt.Sprintf("; reference reading: {%d %+v %q} extra %+v", w.typ, w.opt, w.text, w.extra)
	}
	return "", ""
}

type wantCtx struct {
	typ   getopt.ContextType
	opt   *refOpt
	text  string
	extra []refOpt
}

// wantContext classifies the last word given the reading of the words before
// it, from the conventions.
func wantContext(front []string, last string, specs []*getopt.OptionSpec, cfg int) wantCtx {
	want := refParse(front, specs, cfg)
	switch {
	case want.missing != nil:
		m := *want.missing
		m.arg = last
		return wantCtx{typ: getopt.OptionArgument, opt: &m}
	case want.stopped:
		return wantCtx{typ: getopt.Argument, text: last}
	case last == "":
		return wantCtx{typ: getopt.OptionOrArgument}
	case last == "-":
		return wantCtx{typ: getopt.AnyOption}
	case strings.HasPrefix(last, "--") || (strings.HasPrefix(last, "-") && cfg&4 != 0):
		body := last[1:]
		if strings.HasPrefix(last, "--") {
			body = last[2:]
		}
		if !strings.Contains(last, "=") {
			return wantCtx{typ: getopt.LongOption, text: body}
		}
		o, _ := refLongWord(body, specs, nil)
		o.missing = false
		return wantCtx{typ: getopt.OptionArgument, opt: &o}
	case strings.HasPrefix(last, "-"):
		os, _ := refCluster(last[1:], specs, nil)
		l := os[len(os)-1]
		l.missing = false
		if l.k >= 0 && specs[l.k].Arity == getopt.NoArgument {
			return wantCtx{typ: getopt.ChainShortOption, extra: os}
		}
		return wantCtx{typ: getopt.OptionArgument, opt: &l, extra: os[:len(os)-1]}
	}
	return wantCtx{typ: getopt.Argument, text: last}
}

// oracle: detail strings must be valid UTF-8 for the check script.
func oracle(sta any, f []string, out string) (string, string) {
	class, detail := oracle1(sta, f, out)
	return class, strings.ToValidUTF8(detail, "\\x??")
}

func oracle1(sta any, f []string, out string) (string, string) {
	switch f[0] {
	case "parse":
		cfg, _ := strconv.Atoi(f[1])
		specs, args := decSpecs(f[2]), decArgs(f[3])
		if out == "PANIC" || out == "TIMEOUT" {
			return crashClass(args, "getopt.Parse")
		}
		if !inConvention(specs) {
			return "", ""
		}
		return checkParse(args, specs, cfg)
	case "complete":
		cfg, _ := strconv.Atoi(f[1])
		specs, args := decSpecs(f[2]), decArgs(f[3])
		if len(args) == 0 {
			if out == "PANIC" {
				return "complete-empty-args", "getopt.Complete panics on an empty argument list"
			}
			return "", ""
		}
		if out == "PANIC" || out == "TIMEOUT" {
			return crashClass(args, "getopt.Complete")
		}
		if !inConvention(specs) {
			return "", ""
		}
		if o, _ := common.Guard(5e9, func() string {
			getopt.Parse(args[:len(args)-1], specs, getopt.Config(cfg))
			return ""
		}); o != "" {
			return crashClass(args, "getopt.Parse(front)")
		}
		return checkComplete(args, specs, cfg)
	case "fpg":
		cfg, _ := strconv.Atoi(f[1])
		specs, args := decSpecs(f[2]), decArgs(f[3])
		if out == "PANIC" || out == "TIMEOUT" {
			return crashClass(args, "flag:parse-getopt")
		}
		if !inConvention(specs) {
			return "", ""
		}
		// through the interpreter: the same reading
		want := refParse(args, specs, cfg)
		wantErr := want.missing != nil || want.unknown || want.badArg
		agrees := func(want refResult) bool {
			wantErr := want.missing != nil || want.unknown || want.badArg
			if strings.HasPrefix(out, "ERR ") != wantErr {
				return false
			}
			if wantErr {
				return true
			}
			var fl []string
			for _, o := range want.opts {
				fl = append(fl, fmt.Sprintf("%d:%s:%s", o.k, b01(o.long), common.Hex(o.arg)))
			}
			fls := "_"
			if len(fl) > 0 {
				fls = strings.Join(fl, ",")
			}
			return fmt.Sprintf("OK %s %s", fls, encArgs(want.operands)) == out
		}
		if !agrees(want) {
			cls := classify("fpg-mismatch", args, specs, cfg, agrees)
			return cls, fmt.Sprintf("cfg=%d specs=%s args=%q: got %s; reference reading: opts=%+v operands=%q error=%v", cfg, descSpecs(specs), args, out, want.opts, want.operands, wantErr)
		}
		return "", ""
	case "ecg":
		args := decArgs(f[2])
		if len(args) == 0 && out == "PANIC" {
			return "complete-empty-args", "edit:complete-getopt [] … panics (getopt.Complete on an empty list)"
		}
		if out == "PANIC" || out == "TIMEOUT" {
			return crashClass(args, "edit:complete-getopt")
		}
		return "", ""
	}
	return "", ""
}

// ---------------------------------------------------------------- generation

var shortPool = []rune{'a', 'b', 'c', 'f', 'i', 'é', '世', 'a', 'b', 0, 0}
var longPool = []string{"all", "a", "ab", "file", "in-place", "é", "x", "", "", "all", "file"}
var wordPool = []string{"foo", "bar", "", "-", "--", "=", "a=b", "x", "世", "---", "--=", "--=x", "-=x", "-=", "\xff", "a\xffb", "-\xff", "-\xffab", "-\xe4\xb8", "-\x00", "-\x00x", "--\xff", "--\xff=x", "-z", "-zfoo", "--zzz", "--zzz=v", "--zzz=", "-\xef\xbf\xbd", "-😀x"}

func randSpec(c *common.Ctx) *getopt.OptionSpec {
	s := &getopt.OptionSpec{Short: common.Pick(c.Rand, shortPool), Long: common.Pick(c.Rand, longPool), Arity: getopt.Arity(c.Rand.Intn(3))}
	switch c.Rand.Intn(60) {
	case 0:
		s.Arity = 3
	case 1:
		s.Long = "a=b"
	case 2:
		s.Short = utf8.RuneError
	case 3:
		s.Short = '-'
	case 4:
		s.Short = '='
	case 5:
		s.Long = "-x"
	case 6:
		s.Short = 0xD800 // not a valid rune
	}
	return s
}

func randSpecs(c *common.Ctx) []*getopt.OptionSpec {
	var specs []*getopt.OptionSpec
	for n := c.Rand.Intn(6); n > 0; n-- {
		specs = append(specs, randSpec(c))
	}
	return specs
}

var argPool = []string{"", "v", "80", "-", "--", "-v", "=x", "a b", "\xff", "é"}

// randWord builds one argument word, mostly from the specs.
func randWord(c *common.Ctx, specs []*getopt.OptionSpec) string {
	if len(specs) == 0 || c.Rand.Chance(1, 4) {
		return common.Pick(c.Rand, wordPool)
	}
	s := common.Pick(c.Rand, specs)
	switch c.Rand.Intn(9) {
	case 0, 1: // cluster of shorts
		var sb strings.Builder
		sb.WriteString("-")
		for n := c.Rand.Range(1, 4); n > 0; n-- {
			t := common.Pick(c.Rand, specs)
			if t.Short != 0 && utf8.ValidRune(t.Short) {
				sb.WriteRune(t.Short)
			} else if c.Rand.Chance(1, 3) {
				sb.WriteString(common.Pick(c.Rand, []string{"z", "\xff", "=", "-"}))
			}
		}
		if c.Rand.Chance(1, 3) {
			sb.WriteString(common.Pick(c.Rand, argPool))
		}
		return sb.String()
	case 2:
		return "-" + string(s.Short)
	case 3:
		return "-" + string(s.Short) + common.Pick(c.Rand, argPool)
	case 4:
		return "--" + s.Long
	case 5:
		return "--" + s.Long + "=" + common.Pick(c.Rand, argPool)
	case 6:
		return "-" + s.Long
	case 7:
		return "-" + s.Long + "=" + common.Pick(c.Rand, argPool)
	default:
		// near miss: prefix / extension of a long name
		if len(s.Long) > 1 && c.Rand.Bool() {
			return "--" + s.Long[:len(s.Long)-1]
		}
		return "--" + s.Long + "x"
	}
}

func randArgs(c *common.Ctx, specs []*getopt.OptionSpec) []string {
	var args []string
	for n := c.Rand.Intn(6); n > 0; n-- {
		args = append(args, randWord(c, specs))
	}
	return args
}

// the fixed spec list of the exhaustive part: both forms × the three arities,
// a short-only and a long-only option
func exhaustiveSpecs() []*getopt.OptionSpec {
	return []*getopt.OptionSpec{
		{Short: 'v', Long: "verbose", Arity: getopt.NoArgument},
		{Short: 'f', Long: "file", Arity: getopt.RequiredArgument},
		{Short: 'i', Long: "in-place", Arity: getopt.OptionalArgument},
		{Short: 'n', Long: "", Arity: getopt.NoArgument},
		{Short: 0, Long: "f", Arity: getopt.RequiredArgument},
	}
}

var exhaustiveTokens = []string{"", "-", "--", "x", "-v", "-vf", "-fx", "-i", "--file", "--file=x", "--verbose=x", "-f", "-z", "--in-place", "-\xff", "--=x"}

// mixSeed: common.NewRand(seed) is a splitmix64 whose state advances by the
// same constant the seed is multiplied with, so the streams of seeds 1 and 7
// are the same stream shifted by six draws.  Hash the seed first so that
// different seeds give unrelated streams (reported to the integrator).
func mixSeed(z uint64) uint64 {
	z += 0x9E3779B97F4A7C15
	z = (z ^ (z >> 30)) * 0xBF58476D1CE4E5B9
	z = (z ^ (z >> 27)) * 0x94D049BB133111EB
	return z ^ (z >> 31)
}

func gen(c *common.Ctx, emit func(...string)) {
	c.Rand = common.NewRand(mixSeed(c.Seed))
	specs := exhaustiveSpecs()
	depth := c.Scale(2, 3)
	toks := exhaustiveTokens
	var rec func(args []string, n int)
	rec = func(args []string, n int) {
		for cfg := 0; cfg < 8; cfg++ {
			emit("parse", strconv.Itoa(cfg), encSpecs(specs), encArgs(args))
			emit("complete", strconv.Itoa(cfg), encSpecs(specs), encArgs(args))
		}
		if n == 0 {
			return
		}
		for _, t := range toks {
			rec(append(append([]string{}, args...), t), n-1)
		}
	}
	rec(nil, depth)
	// the interpreter commands on every list of ≤ 2 tokens
	var rec2 func(args []string, n int)
	rec2 = func(args []string, n int) {
		for cfg := 0; cfg < 8; cfg++ {
			emit("fpg", strconv.Itoa(cfg), encSpecs(specs), encArgs(args))
		}
		emit("ecg", encSpecs(specs), encArgs(args))
		if n == 0 {
			return
		}
		for _, t := range toks {
			rec2(append(append([]string{}, args...), t), n-1)
		}
	}
	rec2(nil, c.Scale(1, 2))
	// random specs × words built from them
	n := c.Scale(25000, 1500000)
	for i := 0; i < n; i++ {
		sp := randSpecs(c)
		args := randArgs(c, sp)
		cfg := c.Rand.Intn(8)
		if c.Rand.Chance(1, 50) {
			cfg += 8 * c.Rand.Range(1, 3) // unknown Config bits are ignored
		}
		switch c.Rand.Intn(10) {
		case 0, 1, 2, 3:
			emit("parse", strconv.Itoa(cfg), encSpecs(sp), encArgs(args))
		case 4, 5, 6, 7:
			emit("complete", strconv.Itoa(cfg), encSpecs(sp), encArgs(args))
		default:
			ok := true
			for _, s := range sp {
				ok = ok && elvSpecOK(s)
			}
			if !ok {
				emit("parse", strconv.Itoa(cfg), encSpecs(sp), encArgs(args))
			} else if c.Rand.Bool() {
				emit("fpg", strconv.Itoa(cfg%8), encSpecs(sp), encArgs(args))
			} else {
				emit("ecg", encSpecs(sp), encArgs(args))
			}
		}
	}
}

// ---------------------------------------------------------------- tags

func tag(f []string, out string) string {
	if out == "PANIC" {
		return "panic"
	}
	switch f[0] {
	case "parse", "fpg":
		cfg, _ := strconv.Atoi(f[1])
		specs, args := decSpecs(f[2]), decArgs(f[3])
		if len(args) == 0 {
			return ""
		}
		pre := f[0] + ":"
		if !inConvention(specs) {
			return pre + "outside-convention-specs"
		}
		r := refParse(args, specs, cfg)
		switch {
		case hasInvalidUTF8(args) && (len(r.opts) > 0 || r.missing != nil):
			return pre + "invalid-utf8-option-word"
		case r.badArg:
			return pre + "noarg-long-attached"
		case r.missing != nil && r.unknown:
			return pre + "multiple-errors"
		case r.missing != nil:
			return pre + "missing-argument"
		case r.unknown:
			return pre + "unknown-option"
		case r.stopped && cfg&2 != 0 && len(r.operands) > 1:
			return pre + "stop-at-first-operand"
		case r.stopped:
			return pre + "stop-after-double-dash"
		case cfg&4 != 0 && len(r.opts) > 0:
			return pre + "long-only"
		}
		detached, attached, chained, long := false, false, false, false
		nOptWords := 0
		for _, a := range args {
			if isOptionWord(a) {
				nOptWords++
			}
		}
		for _, o := range r.opts {
			long = long || o.long
			if o.k >= 0 && specs[o.k].Arity == getopt.RequiredArgument && o.arg != "" {
				attached = true
			}
		}
		detached = len(r.opts)+len(r.operands) < len(args) && nOptWords < len(args)
		chained = len(r.opts) > nOptWords
		switch {
		case chained:
			return pre + "chained-shorts"
		case detached:
			return pre + "detached-argument"
		case attached:
			return pre + "attached-argument"
		case long:
			return pre + "long-option"
		case len(r.opts) > 0:
			return pre + "short-option"
		}
		return pre + "operands-only"
	case "complete":
		if out == "PANIC" {
			return "panic"
		}
		p := strings.Split(out, " ")
		if len(p) >= 3 {
			args := decArgs(f[3])
			if len(args) == 0 {
				return "complete:empty-args"
			}
			return "complete:ctx-" + p[2] + map[bool]string{true: "+invalid-utf8", false: ""}[hasInvalidUTF8(args)]
		}
		return "complete:?"
	case "ecg":
		if strings.HasPrefix(out, "ERR") {
			return "ecg:error"
		}
		if out == "_" {
			return "ecg:no-candidates"
		}
		return "ecg:candidates"
	}
	return ""
}

func run(c *common.Ctx) error {
	s := &common.Std{
		Rule: fmt.Sprintf("exhaustive: 5 fixed specs (both forms × 3 arities, short-only, long-only) × every argument list of ≤%d words over %d tokens "+
			"× all 8 configs × {Parse, Complete}; flag:parse-getopt/edit:complete-getopt on every list of ≤%d tokens; plus random specs "+
			"(short only, long only, both; arities 0-2, rarely malformed) × lists of ≤5 words built from those options, unknown options, "+
			"'-', '--', plain words, empty strings, invalid UTF-8; non-trivial = non-empty argument list; distinct by op line",
			c.Scale(2, 3), len(exhaustiveTokens), c.Scale(1, 2)),
		ExhaustiveNote: fmt.Sprintf("fixed 5-spec list × all lists of ≤%d words over %d tokens × 8 configs", c.Scale(2, 3), len(exhaustiveTokens)),
		Gen:            gen,
		NewState:       newState,
		Impl:           impl,
		Oracle:         oracle,
		Tag:            tag,
	}
	return s.Run(c)
}
