package c04

import (
	"math"
	"math/big"

	"src.elv.sh/pkg/eval/vals"
	"verifharness/c08"
	"verifharness/common"
)

func pow2(k uint) *big.Int { return new(big.Int).Lsh(big.NewInt(1), k) }

var strAtoms = []string{
	"", "a", "abc", "~", "~a", "a~", "a b", " ", "a'b", "'", "''", "\"", "a\"b", "\\", "a\\b", "$nil", "nil", "true", "false", "$true",
	"(num 1)", "num", "put", "[a]", "[&]", "[&a=b]", "&", "&a", "=", "a=b", "a,b", ",", "#", "#a", "a#", "^", "a^", "1", "1.0", "-1", "0x10", "1/2", "NaN", "+Inf", "1e5",
	"é", "世界", "日本語 text", "\xff", "a\xffb", "\xc3", "\xe4\xb8", "\x00", "\n", "\t", "a\nb", "a\tb", "\r", "\x7f", "\x1b[0m", " ", "​", "�", "a�b",
	"\U0001F600", "é", "́", "*", "?", "a*", "a?b", "{a}", "{", "}", "a;b", ";", "a|b", "|", "<", ">", "a>b", "-", "--x", "+", "%", "@", "a@b", "a:b", ":", "/", ".", "..",
	"(", ")", "[", "]", "]a", "a]", "a)", "\\n", "\\x00", "a$b", "$", "`", "!", "a!", " ", "\U000E0001", "", "\U0010FFFF", "\xed\xa0\x80", "\xf4\x90\x80\x80",
	"\u00a0", "a\u00a0b", "\u200b", "\ufffd", "a\ufffdb", "\u2028", "\ufeff", "\u0301", "e\u0301", "\u00ad", "\u3000",
	"a very long bareword-with.many/allowed:chars_0123456789%+@", "line1\nline2\n  indented\n\ttabbed",
}

var strPieces = []string{"a", "b", "z", "0", "1", "-", ".", "/", "~", " ", "'", "\"", "\\", "$", "(", ")", "[", "]", "&", "=", ",", "#", "^", "*", "?", "{", "}", ";", "|", "<", ">",
	"\n", "\t", "\x00", "\x7f", "\xff", "\xc3", "é", "世", " ", "�", "\U0001F600", "́", "x"}

func randStr(r *common.Rand) string {
	if r.Chance(1, 3) {
		return common.Pick(r, strAtoms)
	}
	s := ""
	for k := r.Intn(6); k > 0; k-- {
		s += common.Pick(r, strPieces)
	}
	return s
}

func numAtoms() []*V {
	var out []*V
	for _, i := range []int64{0, 1, -1, 7, 42, -100, 1 << 31, 1 << 32, 1 << 53, 1<<53 + 1, math.MaxInt64, math.MinInt64, math.MaxInt64 - 1, math.MinInt64 + 1} {
		out = append(out, c08.Int(i))
	}
	ten30, _ := new(big.Int).SetString("1000000000000000000000000000000", 10)
	for _, b := range []*big.Int{pow2(63), new(big.Int).Neg(new(big.Int).Add(pow2(63), big.NewInt(1))), pow2(64), new(big.Int).Neg(pow2(64)), ten30, pow2(200), new(big.Int).Sub(pow2(1024), big.NewInt(1))} {
		out = append(out, c08.Big(b))
	}
	for _, s := range []string{"1/2", "-1/2", "1/3", "-22/7", "18014398509481985/2", "1/18446744073709551616", "-36893488147419103234/3",
		"1/9223372036854775808", "9223372036854775807/9223372036854775808", "1237940039285380274899124225/1237940039285380274899124224"} {
		out = append(out, c08.RatS(s))
	}
	for _, f := range []float64{0, math.Copysign(0, -1), 1, -1, 0.5, 1.5, 2, 100, 1e14, 1e15, 123456789012345, 1234567890123456, 12345678901234500, 100000000000000, 1e20, 1e21, 1e22,
		1 << 53, 1<<53 + 2, 1 << 63, 1 << 64, -(1 << 63), 0.1, 0.001, 0.0001, 0.00001, 0.00012, -0.00001, 1e-7, 1e-300, 1e300, -1e300, 3.141592653589793, 2.718281828459045e-5,
		math.Inf(1), math.Inf(-1), math.NaN(), math.Float64frombits(0xFFF8000000000000), math.Float64frombits(0x7FF0000000000001),
		math.SmallestNonzeroFloat64, -math.SmallestNonzeroFloat64, math.MaxFloat64, -math.MaxFloat64, 2.2250738585072014e-308, 2.225073858507201e-308, 9007199254740993, 5e-324, 1.7976931348623157e308} {
		out = append(out, c08.Float(f))
	}
	return out
}

func randNum(r *common.Rand) *V {
	switch r.Intn(8) {
	case 0:
		return common.Pick(r, numAtoms())
	case 1:
		return c08.Int(int64(r.Range(-3, 12)))
	case 2:
		return c08.Int(int64(r.U64()) >> uint(r.Intn(64)))
	case 3:
		// big int outside the int range
		b := new(big.Int).Lsh(big.NewInt(int64(r.U64()>>1)|1), uint(r.Range(1, 200)))
		b.Add(b, pow2(64))
		if r.Bool() {
			b.Neg(b)
		}
		return c08.Big(b)
	case 4:
		// non-integral rational
		d := new(big.Int).SetUint64(r.U64()>>uint(r.Intn(62)) | 2)
		if r.Chance(1, 4) {
			d.Lsh(d, uint(r.Range(1, 100)))
		}
		n := new(big.Int).SetInt64(int64(r.U64()) >> uint(r.Intn(64)))
		if r.Chance(1, 4) {
			n.Lsh(n, uint(r.Range(1, 100)))
			n.Add(n, big.NewInt(1))
		}
		q := new(big.Rat).SetFrac(n, d)
		if q.IsInt() {
			return c08.Num(q.Num())
		}
		return c08.RatV(q)
	case 5, 6:
		return c08.RandFloat(r)
	}
	// a float of moderate size: decimal / exponent boundary of formatFloat64
	m := float64(r.Range(1, 999999))
	e := r.Range(-12, 24)
	return c08.Float(m * math.Pow(10, float64(e)))
}

func randAtom(r *common.Rand) *V {
	switch r.Intn(10) {
	case 0:
		return common.Pick(r, []*V{c08.Nil(), c08.Bool(true), c08.Bool(false)})
	case 1, 2, 3:
		return randNum(r)
	}
	return c08.Str(randStr(r))
}

// twin returns a value that CmpTotal cannot tell from v although it is not
// eq to it (numbers change exactness, recursively in lists; maps: any other map).
func twin(v *V, r *common.Rand) *V {
	switch v.K {
	case 'i':
		if v.I.IsInt64() {
			f := float64(v.I.Int64())
			if new(big.Int).SetInt64(int64(f)).Cmp(v.I) == 0 && math.Abs(f) < 1<<62 {
				return c08.Float(f)
			}
		}
	case 'r':
		f, exact := new(big.Rat).SetFrac(v.I, v.D).Float64()
		if exact {
			return c08.Float(f)
		}
	case 'F':
		f := math.Float64frombits(v.Bits)
		if !math.IsNaN(f) && !math.IsInf(f, 0) {
			q := new(big.Rat).SetFloat64(f)
			if q.IsInt() {
				return c08.Num(q.Num())
			}
			return c08.RatV(q)
		}
	case 'L':
		w := c08.List()
		for _, e := range v.Elems {
			w.Elems = append(w.Elems, twin(e, r))
		}
		return w
	case 'M':
		w := c08.Map()
		for i := 0; i+1 < len(v.Elems); i += 2 {
			w.Elems = append(w.Elems, v.Elems[i], twin(v.Elems[i+1], r))
		}
		return w
	}
	return v
}

// addEntry appends (k, val) unless the map already has an eq key.
func addEntry(m *V, keys *[]any, k, val *V) {
	kg := k.Go()
	for _, o := range *keys {
		if vals.Equal(o, kg) || vals.Equal(kg, o) {
			return
		}
	}
	*keys = append(*keys, kg)
	m.Elems = append(m.Elems, k, val)
}

// budget bounds the number of nodes of one generated value (the model's parser
// is quadratic in the length of the text: it keeps the source as a list).
var budget int

func randValue(r *common.Rand, depth, width int) *V {
	budget--
	if depth <= 0 || budget <= 0 {
		return randAtom(r)
	}
	switch r.Intn(10) {
	case 0, 1, 2:
		return randAtom(r)
	case 3, 4, 5:
		l := c08.List()
		for k := r.Intn(width + 1); k > 0; k-- {
			l.Elems = append(l.Elems, randValue(r, depth-1, width))
		}
		return l
	}
	return randMap(r, depth, width, r.Intn(width+1))
}

func randKey(r *common.Rand, depth, width int) *V {
	switch r.Intn(10) {
	case 0, 1, 2, 3:
		return c08.Str(randStr(r))
	case 4, 5, 6:
		return randNum(r)
	case 7:
		return randAtom(r)
	}
	w := width
	if w > 3 {
		w = 3
	}
	return randValue(r, depth-1, w)
}

func randMap(r *common.Rand, depth, width, n int) *V {
	m := c08.Map()
	var keys []any
	for i := 0; i < n; i++ {
		k := randKey(r, depth, width)
		addEntry(m, &keys, k, randValue(r, depth-1, width))
		if r.Chance(1, 4) {
			// a key CmpTotal cannot tell from k
			addEntry(m, &keys, twin(k, r), randValue(r, depth-1, width))
		}
	}
	return m
}

// collidingMaps are non-eq maps with the same hash (hash of an entry =
// 33*(33*5381 + hash k) + hash v, small ints hash to themselves).
func collidingMaps() []*V {
	return []*V{
		c08.Map(c08.Int(0), c08.Int(33)), c08.Map(c08.Int(1), c08.Int(0)),
		c08.Map(c08.Int(0), c08.Int(66)), c08.Map(c08.Int(2), c08.Int(0)), c08.Map(c08.Int(1), c08.Int(33)),
		c08.Map(c08.Int(0), c08.Int(0)), c08.Map(c08.Float(0), c08.Int(0)), c08.Map(c08.Int(0), c08.Float(0)),
		c08.Map(c08.Str("k"), c08.Int(0)), c08.Map(c08.Str("k"), c08.Float(0)),
	}
}

func gen(c *common.Ctx, emit func(...string)) {
	r := c.Rand
	ranks := c08.RanksField()
	indents := []int{-1, 0, 1, 2, 7}
	one := func(v *V, ind int) {
		v = normalise(v)
		if wideWithTiedNaNKeys(v) {
			// sort.Slice is an insertion sort (stable, modelled) only up to 12
			// elements; above that the order of keys that tie completely
			// (NaN keys printing the same text) is pdqsort's business
			return
		}
		emit("repr", ranks, indentField(ind), v.Enc(), floatTable(v), printables(v))
	}
	modes := func(v *V) {
		one(v, -1)
		one(v, common.Pick(r, indents[1:]))
	}
	allModes := func(v *V) {
		for _, i := range indents {
			one(v, i)
		}
	}
	var atoms []*V
	atoms = append(atoms, c08.Nil(), c08.Bool(true), c08.Bool(false))
	atoms = append(atoms, numAtoms()...)
	for _, s := range strAtoms {
		atoms = append(atoms, c08.Str(s))
	}
	atoms = append(atoms, c08.List(), c08.Map(), c08.List(c08.List()), c08.List(c08.Map()), c08.Map(c08.Map(), c08.Map()), c08.List(c08.Int(0)), c08.List(c08.Float(0)),
		c08.List(c08.Str("a"), c08.Str("b")))
	atoms = append(atoms, collidingMaps()...)
	// every atom alone, in a list, as a key and as a value
	for _, a := range atoms {
		allModes(a)
		modes(c08.List(a))
		modes(c08.List(a, a))
		modes(c08.Map(a, c08.Str("v")))
		modes(c08.Map(c08.Str("k"), a))
		modes(c08.Map(a, a))
	}
	// all pairs of atoms as the two keys of a map (both insertion orders are
	// rebuilt by the oracle)
	step := c.Scale(5, 1)
	cnt := 0
	for i, a := range atoms {
		for j := i + 1; j < len(atoms); j++ {
			cnt++
			if cnt%step != 0 {
				continue
			}
			m := c08.Map()
			var keys []any
			addEntry(m, &keys, a, c08.Str("x"))
			addEntry(m, &keys, atoms[j], c08.Str("y"))
			one(m, common.Pick(r, indents))
		}
	}
	// tie families
	ties := [][]*V{
		{c08.Int(0), c08.Float(0)},
		{c08.Int(1), c08.Float(1)},
		{c08.Int(-1), c08.Float(-1)},
		{c08.RatS("1/2"), c08.Float(0.5)},
		{c08.Int(1 << 53), c08.Float(1 << 53)},
		{c08.Big(pow2(64)), c08.Float(1 << 64)},
		{c08.List(c08.Int(0)), c08.List(c08.Float(0))},
		{c08.List(c08.Int(0), c08.Str("a")), c08.List(c08.Float(0), c08.Str("a"))},
		{c08.List(c08.List(c08.Int(0))), c08.List(c08.List(c08.Float(0)))},
		{c08.Map(), c08.Map(c08.Str("a"), c08.Str("b")), c08.Map(c08.Str("a"), c08.Str("c"))},
		collidingMaps(),
		{c08.Int(0), c08.Float(0), c08.Int(1), c08.Float(1), c08.RatS("1/2"), c08.Float(0.5), c08.Str("0"), c08.Str("0.0")},
		{c08.Float(math.NaN()), c08.Float(math.Float64frombits(0xFFF8000000000000)), c08.Float(math.Float64frombits(0x7FF0000000000001))},
		{c08.List(c08.Float(math.NaN())), c08.List(c08.Float(math.NaN()))},
	}
	for _, fam := range ties {
		for rep := 0; rep < c.Scale(6, 24); rep++ {
			budget = 20
			m := c08.Map()
			var keys []any
			perm := make([]int, len(fam))
			for i := range perm {
				perm[i] = i
			}
			for i := len(perm) - 1; i > 0; i-- {
				j := r.Intn(i + 1)
				perm[i], perm[j] = perm[j], perm[i]
			}
			n := r.Range(2, len(fam))
			for _, p := range perm[:n] {
				k := fam[p]
				if k.ContainsNaN() {
					m.Elems = append(m.Elems, k, c08.Str(string(rune('a'+p)))) // NaN keys never collide with anything
					continue
				}
				addEntry(m, &keys, k, c08.Str(string(rune('a'+p))))
			}
			if r.Bool() {
				addEntry(m, &keys, c08.Str(randStr(r)), randAtom(r))
			}
			modes(m)
			modes(c08.List(m, m))
			modes(c08.Map(m, c08.Int(1)))
		}
	}
	// random nested values
	n := c.Scale(1500, 40000)
	for i := 0; i < n; i++ {
		depth := r.Range(1, 5)
		width := r.Range(1, 8)
		budget = r.Range(4, 40)
		if r.Chance(1, 50) {
			budget = c.Scale(150, 400)
		}
		modes(randValue(r, depth, width))
	}
	// wide maps (sort.Slice leaves insertion sort above 12 elements)
	for i := 0; i < c.Scale(40, 1500); i++ {
		budget = c.Scale(100, 200)
		modes(randMap(r, 2, 2, r.Range(13, 40)))
	}
	// numbers in a non-canonical Go representation (correspondence only)
	for _, v := range []*V{c08.Big(big.NewInt(5)), c08.RatS("4/2"), c08.List(c08.Big(big.NewInt(-1)))} {
		one(v, -1)
	}
}

func wideWithTiedNaNKeys(v *V) bool {
	found := false
	v.Walk(func(w *V) {
		if w.K == 'M' && len(w.Elems) > 24 && sameTextNaNKeys(&V{K: 'M', Elems: w.Elems}) {
			found = true
		}
	})
	return found
}
