// Package c04: correspondence and oracle for C04 (the text printed by repr
// evaluates back to an eq value; map entries print in an order that depends
// only on the contents of the map).
//
// One op = one value + one indent mode:
//
//	repr <type ranks> <indent | -> <value> <float table> <printable runes>
//
// The value travels in the codec of harness/c08, every map with its entries in
// the iteration order of the real hash map.  Impl prints
// hex(vals.Repr(v, indent)) and the value `put <text>` outputs in a real
// Evaler (canonical text; "none" when the evaluation fails).
package c04

import (
	"fmt"
	"math"
	"math/big"
	"sort"
	"strconv"
	"strings"
	"unicode"
	"unicode/utf8"

	"src.elv.sh/pkg/eval/vals"
	"verifharness/c08"
	"verifharness/common"
)

func init() { common.Register("C04", run) }

type V = c08.V

// ---- op encoding -------------------------------------------------------------

// normalise rebuilds v from the real Go value, so that the entries of every
// map are listed in the iteration order of the hash map.
func normalise(v *V) *V { return c08.FromGo(v.Go()) }

func floatTable(v *V) string {
	seen := map[uint64]bool{}
	var items []string
	v.Walk(func(w *V) {
		if w.K == 'F' && !seen[w.Bits] {
			seen[w.Bits] = true
			f := math.Float64frombits(w.Bits)
			items = append(items, fmt.Sprintf("%016x:%s:%s", w.Bits,
				common.Hex(strconv.FormatFloat(f, 'f', -1, 64)), common.Hex(strconv.FormatFloat(f, 'e', -1, 64))))
		}
	})
	if len(items) == 0 {
		return "-"
	}
	return strings.Join(items, ";")
}

// printables lists the non-ASCII printable code points decodable at any byte
// offset of any string inside v (what the model's IsPrint needs to know).
func printables(v *V) string {
	seen := map[rune]bool{}
	v.Walk(func(w *V) {
		if w.K != 's' {
			return
		}
		for i := 0; i < len(w.S); i++ {
			r, _ := utf8.DecodeRuneInString(w.S[i:])
			if r >= 128 && unicode.IsPrint(r) {
				seen[r] = true
			}
		}
	})
	if len(seen) == 0 {
		return "-"
	}
	var rs []int
	for r := range seen {
		rs = append(rs, int(r))
	}
	sort.Ints(rs)
	var s []string
	for _, r := range rs {
		s = append(s, strconv.Itoa(r))
	}
	return strings.Join(s, ",")
}

func indentField(ind int) string {
	if ind < 0 {
		return "-"
	}
	return strconv.Itoa(ind)
}

func parseIndent(s string) int {
	if s == "-" {
		return math.MinInt
	}
	n, err := strconv.Atoi(s)
	if err != nil {
		panic(err)
	}
	return n
}

// canonEnc is the canonical text of a value: the codec of c08 with the entries
// of every map sorted as strings "key,value".
func canonEnc(v *V) string {
	switch v.K {
	case 'L':
		parts := []string{"L" + strconv.Itoa(len(v.Elems))}
		for _, e := range v.Elems {
			parts = append(parts, canonEnc(e))
		}
		return strings.Join(parts, ",")
	case 'M':
		var es []string
		for i := 0; i+1 < len(v.Elems); i += 2 {
			es = append(es, canonEnc(v.Elems[i])+","+canonEnc(v.Elems[i+1]))
		}
		sort.Strings(es)
		return strings.Join(append([]string{"M" + strconv.Itoa(len(es))}, es...), ",")
	}
	return v.Enc()
}

// evalText runs `put <text>` in a real Evaler.
func evalText(text string) (any, bool) {
	out, err := c08.EvalCode("put " + text)
	if err != nil || len(out) != 1 {
		return nil, false
	}
	return out[0], true
}

func inFragment(x any) bool {
	switch x := x.(type) {
	case nil, bool, int, *big.Int, *big.Rat, float64, string:
		return true
	case vals.List:
		for it := x.Iterator(); it.HasElem(); it.Next() {
			if !inFragment(it.Elem()) {
				return false
			}
		}
		return true
	case vals.Map:
		for it := x.Iterator(); it.HasElem(); it.Next() {
			k, v := it.Elem()
			if !inFragment(k) || !inFragment(v) {
				return false
			}
		}
		return true
	}
	return false
}

func impl(_ any, f []string) string {
	if f[0] != "repr" || len(f) != 6 {
		return "bad-op"
	}
	v := c08.Parse(f[3])
	text := vals.Repr(v.Go(), parseIndent(f[2]))
	back := "none"
	if r, ok := evalText(text); ok && inFragment(r) {
		back = canonEnc(c08.FromGo(r))
	}
	// "h=ok": the model evaluates the strconv hypothesis of the round-trip
	// theorem on the two formats of every float of the op
	return common.Hex(text) + " " + back + " h=ok"
}

// ---- oracle -------------------------------------------------------------------

// normNaN: NaN payloads and the sign of zero do not matter for "reads back as
// NaN / as an eq value".
func normNaN(v *V) *V {
	w := *v
	if v.K == 'F' {
		f := math.Float64frombits(v.Bits)
		if math.IsNaN(f) {
			w.Bits = 0x7FF8000000000001
		} else if f == 0 {
			w.Bits = 0
		}
	}
	w.Elems = nil
	for _, e := range v.Elems {
		w.Elems = append(w.Elems, normNaN(e))
	}
	return &w
}

// reorder rebuilds every map inside v with its entries inserted in another order.
func reorder(v *V, r *common.Rand, mode int) *V {
	w := *v
	w.Elems = nil
	for _, e := range v.Elems {
		w.Elems = append(w.Elems, reorder(e, r, mode))
	}
	if v.K == 'M' {
		n := len(w.Elems) / 2
		perm := make([]int, n)
		for i := range perm {
			perm[i] = i
		}
		switch mode {
		case 0: // reversed
			for i := range perm {
				perm[i] = n - 1 - i
			}
		default:
			for i := n - 1; i > 0; i-- {
				j := r.Intn(i + 1)
				perm[i], perm[j] = perm[j], perm[i]
			}
		}
		var el []*V
		for _, p := range perm {
			el = append(el, w.Elems[2*p], w.Elems[2*p+1])
		}
		w.Elems = el
	}
	return &w
}

func opSeed(f []string) uint64 {
	h := uint64(1469598103934665603)
	for _, s := range f {
		for i := 0; i < len(s); i++ {
			h = (h ^ uint64(s[i])) * 1099511628211
		}
	}
	return h
}

func short(s string) string {
	if len(s) > 300 {
		return s[:300] + "…"
	}
	return s
}

// oracle evaluates C04's statement on the real code for one value and indent.
func oracle(_ any, f []string, _ string) (string, string) {
	if f[0] != "repr" || len(f) != 6 {
		return "", ""
	}
	v := c08.Parse(f[3])
	if !v.Canonical() {
		// a *big.Int inside the int range / an integral *big.Rat does not exist
		// inside the language (correspondence only)
		return "", ""
	}
	indent := parseIndent(f[2])
	g := v.Go()
	text := vals.Repr(g, indent)
	// (1) the text evaluates, to one value
	r, ok := evalText(text)
	if !ok {
		return "repr-text-does-not-evaluate", fmt.Sprintf("value %s indent %s text %q", f[3], f[2], short(text))
	}
	// (2) eq to the original (this also keeps every number's type: eq never
	// identifies an int with a float64, a *big.Int or a *big.Rat)
	if !v.ContainsNaN() {
		if !vals.Equal(g, r) || !vals.Equal(r, g) {
			return "reads-back-not-eq", fmt.Sprintf("value %s indent %s text %q reads back as %s", f[3], f[2], short(text), short(vals.ReprPlain(r)))
		}
	}
	// NaN positions: same value up to NaN payload / sign of zero
	if !inFragment(r) || canonEnc(normNaN(v)) != canonEnc(normNaN(c08.FromGo(r))) {
		cls := "reads-back-different"
		if v.ContainsNaN() {
			cls = "nan-reads-back-different"
		}
		return cls, fmt.Sprintf("value %s indent %s text %q reads back as %s", f[3], f[2], short(text), short(vals.ReprPlain(r)))
	}
	// (3) the printed order does not depend on the insertion order
	hasMap := false
	v.Walk(func(w *V) {
		if w.K == 'M' && len(w.Elems) > 2 {
			hasMap = true
		}
	})
	if hasMap && !sameTextNaNKeys(v) {
		rnd := common.NewRand(opSeed(f))
		for mode := 0; mode < 4; mode++ {
			w := reorder(v, rnd, mode)
			t2 := vals.Repr(w.Go(), indent)
			if t2 != text {
				return orderClass(v), fmt.Sprintf("value %s indent %s prints %q, the same entries inserted as %s print %q",
					f[3], f[2], short(text), w.Enc(), short(t2))
			}
		}
	}
	return "", ""
}

// sameTextNaNKeys: some map has two keys that hold a NaN and print the same
// text.  Such keys are never eq (not even to themselves), the map is not eq to
// itself, and nothing in its contents tells the two entries apart: the order
// claim does not speak about them (NaN positions are excepted).
func sameTextNaNKeys(v *V) bool {
	found := false
	v.Walk(func(w *V) {
		if w.K != 'M' {
			return
		}
		for i := 0; i+1 < len(w.Elems); i += 2 {
			for j := i + 2; j+1 < len(w.Elems); j += 2 {
				a, b := w.Elems[i], w.Elems[j]
				if a.ContainsNaN() && b.ContainsNaN() && vals.ReprPlain(a.Go()) == vals.ReprPlain(b.Go()) {
					found = true
				}
			}
		}
	})
	return found
}

// orderClass names the kind of map whose printed order depends on the
// insertion order: a map with two keys that CmpTotal calls equal although they
// are not eq.
func orderClass(v *V) string {
	cls := "repr-order-depends-on-insertion"
	v.Walk(func(w *V) {
		if w.K != 'M' {
			return
		}
		for i := 0; i+1 < len(w.Elems); i += 2 {
			for j := i + 2; j+1 < len(w.Elems); j += 2 {
				a, b := w.Elems[i].Go(), w.Elems[j].Go()
				if vals.CmpTotal(a, b) == vals.CmpEqual && !vals.Equal(a, b) {
					cls = "repr-order-keys-cmptotal-equal-not-eq"
				}
			}
		}
	})
	return cls
}

// ---- tags ---------------------------------------------------------------------

func tag(f []string, out string) string {
	if f[0] != "repr" || len(f) != 6 {
		return ""
	}
	v := c08.Parse(f[3])
	var t []string
	add := func(s string) {
		for _, x := range t {
			if x == s {
				return
			}
		}
		t = append(t, s)
	}
	if f[2] == "-" {
		add("plain")
	} else if f[2] == "0" {
		add("pretty0")
	} else {
		add("prettyN")
	}
	depth := 0
	var dep func(w *V, d int)
	dep = func(w *V, d int) {
		if d > depth {
			depth = d
		}
		for _, e := range w.Elems {
			dep(e, d+1)
		}
	}
	dep(v, 0)
	add(fmt.Sprintf("depth%d", depth))
	v.Walk(func(w *V) {
		switch w.K {
		case 'n':
			add("nil")
		case 't', 'f':
			add("bool")
		case 'i':
			add("int")
		case 'I':
			add("bigint")
		case 'r':
			add("rat")
		case 'F':
			fv := math.Float64frombits(w.Bits)
			s := strconv.FormatFloat(fv, 'f', -1, 64)
			switch {
			case math.IsNaN(fv):
				add("float-nan")
			case math.IsInf(fv, 0):
				add("float-inf")
			case fv == 0 && math.Signbit(fv):
				add("float-negzero")
			case fv == 0:
				add("float-zero")
			case strings.HasPrefix(s, "0.0000") || strings.HasPrefix(s, "-0.0000") && false:
				add("float-e-small")
			case !strings.Contains(s, ".") && len(s) > 14 && s[len(s)-1] == '0':
				add("float-e-large")
			case !strings.Contains(s, "."):
				add("float-dot0")
			default:
				add("float-frac")
			}
		case 's':
			q := vals.Repr(w.S, math.MinInt)
			switch {
			case w.S == "":
				add("str-empty")
			case q[0] == '\'':
				add("str-single")
			case q[0] == '"':
				add("str-double")
			default:
				add("str-bare")
			}
			if !utf8.ValidString(w.S) {
				add("str-invalid-utf8")
			}
		case 'L':
			if len(w.Elems) == 0 {
				add("list-empty")
			} else {
				add("list")
			}
		case 'M':
			n := len(w.Elems) / 2
			switch {
			case n == 0:
				add("map-empty")
			case n > 12:
				add("map-wide(pdqsort)")
			default:
				add("map")
			}
			types := map[byte]bool{}
			nan := 0
			for i := 0; i+1 < len(w.Elems); i += 2 {
				k := w.Elems[i]
				kk := k.K
				if kk == 'I' || kk == 'r' || kk == 'F' {
					kk = 'i'
				}
				if kk == 'f' {
					kk = 't'
				}
				types[kk] = true
				if k.K == 'L' {
					add("key-list")
				}
				if k.K == 'M' {
					add("key-map")
				}
				if k.K == 'F' && math.IsNaN(math.Float64frombits(k.Bits)) {
					nan++
				}
				for j := i + 2; j+1 < len(w.Elems); j += 2 {
					a, b := k.Go(), w.Elems[j].Go()
					if vals.CmpTotal(a, b) == vals.CmpEqual && !vals.Equal(a, b) && !k.ContainsNaN() {
						if vals.Hash(a) == vals.Hash(b) {
							add("keys-tie-and-hash-collide")
						} else {
							add("keys-tie")
						}
					}
				}
			}
			if len(types) > 1 {
				add("keys-mixed-types")
			}
			if nan > 1 {
				add("keys-several-nan")
			}
		}
	})
	if strings.Contains(out, " none ") {
		add("eval-none")
	}
	if !v.Canonical() {
		add("noncanonical-number")
	}
	for _, x := range t {
		features[x]++
	}
	// the histogram key: mode + the kind of the outermost value
	mode := t[0]
	return mode + ":" + v.KindName()
}

// features counts every feature reached (written to stats.json as feature_counts).
var features = map[string]int{}

func run(c *common.Ctx) error {
	s := &common.Std{
		Rule: "values of the fragment nil|bool|string|int|big int|rational|float64|list|map: every atom of a fixed adversarial list " +
			"(strings needing every quoting style, invalid UTF-8, unprintable and non-ASCII runes, text that looks like syntax; ±0.0, NaN, ±Inf, " +
			"2^53/2^63/2^64 boundaries, subnormals, big rationals) alone, in a list, as map key and as map value; all pairs of atoms as the two keys of a map; " +
			"tie families (0/0.0, n/n.0, 1/2 / 0.5, lists and maps of those, maps with colliding hashes) as keys; random nested values of depth ≤ 5, width ≤ 8 " +
			"(some maps up to 40 entries); each in plain mode and pretty mode with indent 0, 1, 2 or 7; the oracle rebuilds every map in 4 other insertion orders; " +
			"non-trivial = every op; distinct by op line",
		Gen:    gen,
		Impl:   impl,
		Oracle: oracle,
		Tag:    tag,
	}
	c.Extra = map[string]any{"feature_counts": features}
	return s.Run(c)
}
