package c44

// The position specification of C44, written directly (no walk with a running
// position): a line ends after each "\n" and after each "\r" that is not
// followed by "\n" (so CRLF is one line break, completed by its "\n"); the
// position of byte offset i is (number of line ends before i, UTF-16 code
// units of the characters between the last line end before i and i).  The
// "\r" of a CRLF pair is a one-unit character of its line, which gives the
// offset between "\r" and "\n" a position of its own.

import "unicode/utf8"

type pos struct{ line, char int }

func (p pos) less(q pos) bool { return p.line < q.line || (p.line == q.line && p.char < q.char) }

// boundaries lists the character-boundary offsets of s (Go's decomposition:
// an invalid byte is a character by itself), ending with len(s).
func boundaries(s string) []int {
	var bs []int
	for i := 0; i < len(s); {
		bs = append(bs, i)
		_, n := utf8.DecodeRuneInString(s[i:])
		i += n
	}
	return append(bs, len(s))
}

// endsLine: does the character starting at offset j end a line?
func endsLine(s string, j int) bool {
	return s[j] == '\n' || (s[j] == '\r' && !(j+1 < len(s) && s[j+1] == '\n'))
}

func units(r rune) int {
	if r >= 0x10000 {
		return 2
	}
	return 1
}

// specPos is the position of boundary offset i.
func specPos(s string, i int) pos {
	line, lastEnd := 0, 0 // lastEnd: offset just after the last line end before i
	for j := 0; j < i; j++ {
		if endsLine(s, j) {
			line++
			lastEnd = j + 1
		}
	}
	char := 0
	for j := lastEnd; j < i; {
		r, n := utf8.DecodeRuneInString(s[j:])
		char += units(r)
		j += n
	}
	return pos{line, char}
}

// specIdx is the boundary offset whose position is exactly p, if any.
func specIdx(s string, p pos) (int, bool) {
	for _, b := range boundaries(s) {
		if specPos(s, b) == p {
			return b, true
		}
	}
	return 0, false
}

func isBoundary(s string, i int) bool {
	for _, b := range boundaries(s) {
		if b == i {
			return true
		}
	}
	return false
}
