// Package c44: correspondence and oracle for C44 (the language server answers
// every request and maps positions exactly).
//
// Two op families share one stream:
//
//	reset-ptab <text> <maxL> <maxC>       position tables of the exported position functions
//	reset-pos  <text> <from> <to> <l> <c> one range conversion and one position lookup
//	reset <comp("")> <homes> <doc table>  start a fresh `elvish -lsp` process
//	open|change|hover|completion|raw …    one JSON-RPC message to that process
//
// A text travels as <hex text> <printable> <completer table>: the parser is the
// model's own (C01), its unicode.IsPrint parameter is the <printable> field (as
// in the C01 ops); complete.Complete stays a library parameter.  The reset line
// carries the other library parameters of hover: getHome for a few user names
// and the table of documented symbols (docsMap(): namespace, F|V, name, id of
// the text shown).
//
// Ops whose name starts with "reset" begin a new history (the position ops are
// stateless, so each is a history by itself).
package c44

import (
	"crypto/sha256"
	"encoding/json"
	"fmt"
	"os"
	"path/filepath"
	"sort"
	"strconv"
	"strings"
	"unicode"
	"unicode/utf8"

	golsp "pkg.nimblebun.works/go-lsp"
	"src.elv.sh/pkg/diag"
	elvpkg "src.elv.sh/pkg"
	"src.elv.sh/pkg/edit/complete"
	"src.elv.sh/pkg/elvdoc"
	"src.elv.sh/pkg/eval"
	"src.elv.sh/pkg/fsutil"
	"src.elv.sh/pkg/lsp"
	"src.elv.sh/pkg/mods/doc"
	"src.elv.sh/pkg/parse"
	"src.elv.sh/pkg/prog"
	"verifharness/common"
)

func init() {
	if os.Getenv("VERIF_C44_SERVER") == "1" {
		// The real server: what cmd/elvish does for `elvish -lsp`.
		os.Exit(prog.Run([3]*os.File{os.Stdin, os.Stdout, os.Stderr}, []string{"elvish", "-lsp"}, &lsp.Program{}))
	}
	common.Register("C44", run)
}

type state struct {
	cwd  string
	env  []string
	srv  *lspServer
	dead bool // the server of this history has crashed
	last obs
	// the oracle's own record of the history: the text each URI denotes
	docs map[string]string
}

var genEvaler *eval.Evaler
var theState *state

func run(c *common.Ctx) error {
	// A fixed working directory and environment for filename/command
	// completion, identical for the generator (which records what
	// complete.Complete returns, a library parameter of the model) and for the
	// server process.
	cwd := filepath.Join(c.Dir, "c44-cwd")
	if err := os.MkdirAll(filepath.Join(cwd, "adir"), 0o755); err != nil {
		return err
	}
	emptyPath := filepath.Join(c.Dir, "c44-path")
	os.MkdirAll(emptyPath, 0o755)
	for _, f := range []string{"a.elv", "ab.txt", "adir/x"} {
		os.WriteFile(filepath.Join(cwd, f), []byte("x"), 0o644)
	}
	if err := os.Chdir(cwd); err != nil {
		return err
	}
	os.Setenv("PATH", emptyPath)
	os.Setenv("HOME", cwd)
	env := []string{"PATH=" + emptyPath, "HOME=" + cwd}
	genEvaler = eval.NewEvaler()

	depth := c.Scale(6, 7)
	s := &common.Std{
		Rule: fmt.Sprintf("positions: every text of ≤%d symbols over {a, é, 😀, \\r, \\n} × every idx in -1…len+1 and every (line, char) in [-1,%d]×[-1,%d] "+
			"(one reset-ptab op per text), plus random longer texts incl. invalid UTF-8 and huge/negative arguments; "+
			"server: random histories of JSON-RPC messages to a real `elvish -lsp` process; non-trivial = tag non-empty; distinct by op line",
			depth, depth+1, 2*depth+1),
		ExhaustiveNote: fmt.Sprintf("texts ≤%d symbols over {a, é, 😀, \\r, \\n} × all offsets × a box of positions containing every position of the text and a margin", depth),
		Gen:            func(c *common.Ctx, emit func(...string)) { gen(c, depth, emit) },
		NewState: func(c *common.Ctx) any {
			theState = &state{cwd: cwd, env: env, docs: map[string]string{}}
			return theState
		},
		Impl:   impl,
		Oracle: oracle,
		Tag:    tag,
	}
	err := s.Run(c)
	if theState != nil {
		theState.srv.kill()
	}
	return err
}

// ---------------------------------------------------------------- generator

var symbols = []string{"a", "é", "😀", "\r", "\n"}

var tokens = []string{"echo", "put", "e", "$", "$paths", "$pa", "$!", " ", " ", "\n", "\n", "\r\n", "\r\n", "\r",
	// documented symbols in the forms hover resolves (namespaces, builtin: prefix, quoted and
	// concatenated heads, tilde) and near misses
	"str:join", "$builtin:paths", "builtin:echo", "$edit:prompt", "$str:join", "'ec'ho", "\"put\"", "~", "~/", "$@args", "$nil", "$e:echo", "nop:", "$value-out-indicator", "e:echo", "re:match", "$re:match", "$unknown:x", ":", "$:", "builtin:", "$builtin:",
	"é", "😀", "世", "[", "]", "{", "}", "(", ")", "'", "\"", "|", "var x = ", "fn f { }", "#c", ";", "~", "*", "a", "ad",
	"adir/", "&", ">", "if", "use ", "x", "\t", "\\", "^", "=", "nop ",
	// double-quoted strings with malformed escapes: several parse errors in one string, some
	// with the same start and different ends (incomplete \x or octal escape directly followed by
	// an out-of-range octal escape) — diagnostics must carry each error's own range
	"\"\\x\\400\"", "\"a\\4\\777 b\"", "\\x", "\\400", "\\4", "\\777", "\\u12", "\\c", "\"\\x4\\400\\c\""}

var uris = []string{"file:///a.elv", "file:///a.elv", "file:///b.elv", "", "untitled:Ü-1"}

var rawMethods = []string{"initialize", "initialized", "textDocument/didOpen", "textDocument/didChange",
	"textDocument/hover", "textDocument/completion", "textDocument/didClose", "workspace/didChangeWatchedFiles",
	"shutdown", "exit", "$/cancelRequest", "textDocument/definition", "foo", "$/setTrace"}

var pks = []string{"absent", "absent", "null", "obj", "num", "str", "arr"}

// printable computes the <printable> field of a text: the non-ASCII code
// points decodable at some byte offset for which unicode.IsPrint holds — the
// value of the parser model's IsPrint parameter on everything it can ask about
// (same field as in the C01 ops).
func printable(src string) string {
	set := map[rune]bool{}
	for i := 0; i < len(src); i++ {
		r, _ := utf8.DecodeRuneInString(src[i:])
		if r >= 0x80 && unicode.IsPrint(r) {
			set[r] = true
		}
	}
	if len(set) == 0 {
		return "-"
	}
	var l []int
	for r := range set {
		l = append(l, int(r))
	}
	sort.Ints(l)
	ss := make([]string, len(l))
	for i, r := range l {
		ss[i] = strconv.Itoa(r)
	}
	return strings.Join(ss, ",")
}

// msgID is the canonical form of a parse error message (as in the C01 ops).
func msgID(m string) string {
	const p = "unexpected rune "
	if strings.HasPrefix(m, p) {
		s, err := strconv.Unquote(m[len(p):])
		if err == nil {
			r, _ := utf8.DecodeRuneInString(s)
			return "U" + strconv.Itoa(int(r))
		}
	}
	return common.Hex(m)
}

func contentID(markdown string) string {
	h := sha256.Sum256([]byte(markdown))
	return fmt.Sprintf("%x", h[:5])
}

var homeNames = []string{"", "root", "a", "x", "e"}

// homesField: fsutil.GetHome for the user names the generated texts can ask
// about (any other name is an unknown user on both sides).
func homesField() string {
	var parts []string
	for _, u := range homeNames {
		h, err := fsutil.GetHome(u)
		if err != nil {
			parts = append(parts, common.Hex(u)+":!")
		} else {
			parts = append(parts, common.Hex(u)+":"+common.Hex(h))
		}
	}
	return strings.Join(parts, ",")
}

// docTableField: the documented symbols, extracted the way pkg/mods/doc does
// (elvdoc.ExtractAllFromFS(pkg.ElvFiles)), in the order doc.Source searches them.
func docTableField() (string, error) {
	m, err := elvdoc.ExtractAllFromFS(elvpkg.ElvFiles)
	if err != nil {
		return "", err
	}
	var nss []string
	for ns := range m {
		nss = append(nss, ns)
	}
	sort.Strings(nss)
	var parts []string
	for _, ns := range nss {
		for _, e := range m[ns].Fns {
			parts = append(parts, common.Hex(ns)+":F:"+common.Hex(e.Name)+":"+contentID(e.FullContent()))
		}
		for _, e := range m[ns].Vars {
			parts = append(parts, common.Hex(ns)+":V:"+common.Hex(e.Name)+":"+contentID(e.FullContent()))
		}
	}
	if len(parts) == 0 {
		return "-", nil
	}
	return strings.Join(parts, ","), nil
}

var compCache = map[string]string{}

// compField records complete.Complete(text, dot) for every boundary dot.
func compField(text string) string {
	if v, ok := compCache[text]; ok {
		return v
	}
	var parts []string
	for _, b := range boundaries(text) {
		res, err := complete.Complete(complete.CodeBuffer{Content: text, Dot: b}, genEvaler, complete.Config{})
		if err != nil {
			parts = append(parts, fmt.Sprintf("%d:E", b))
		} else {
			name := res.Name
			if name == "" || strings.ContainsAny(name, ":,\t\n ") {
				name = "other"
			}
			parts = append(parts, fmt.Sprintf("%d:%d:%s:%d:%d", b, len(res.Items), name, res.Replace.From, res.Replace.To))
		}
	}
	v := strings.Join(parts, ",")
	compCache[text] = v
	return v
}

type hop struct {
	kind   string // open | change | hover | completion | raw | burst
	id     bool
	uri    string
	texts  []string
	line   int
	char   int
	method string
	pk     string
}

func idField(b bool) string {
	if b {
		return "id"
	}
	return "-"
}

func randText(r *common.Rand, maxTok int) string {
	var sb strings.Builder
	for k := r.Range(0, maxTok); k > 0; k-- {
		sb.WriteString(common.Pick(r, tokens))
	}
	return sb.String()
}

var hoverWords = []string{"echo", "put", "str:join", "builtin:echo", "'ec'ho", "\"put\"", "e:echo", "nop", "x", "~", "~/x",
	"$paths", "$builtin:paths", "$edit:prompt", "$nil", "$x", "$@args", "re:match", "str:jo", "$str:join", "ech", "é"}

// randHoverText: a few commands whose words are documented symbols (and near
// misses) in head and argument position, so that hover has something to show —
// and something it must NOT show (a command name in argument position, a
// variable name without its $).
func randHoverText(r *common.Rand) string {
	var sb strings.Builder
	for k := r.Range(1, 4); k > 0; k-- {
		for w := r.Range(1, 3); w > 0; w-- {
			sb.WriteString(common.Pick(r, hoverWords))
			if w > 1 {
				sb.WriteString(common.Pick(r, []string{" ", " ", "  ", "\t"}))
			}
		}
		if k > 1 {
			sb.WriteString(common.Pick(r, []string{"\n", "\r\n", "; ", " | ", "\r"}))
		}
	}
	return sb.String()
}

// randPosition: mostly the exact position of a boundary of text, perturbed in
// the ways the property names.
func randPosition(r *common.Rand, text string) (int, int) {
	bs := boundaries(text)
	p := specPos(text, common.Pick(r, bs))
	switch r.Intn(12) {
	case 0:
		p.char++ // possibly between the halves of a surrogate pair / inside CRLF
	case 1:
		p.char += r.Range(1, 200) // past the end of the line
	case 2:
		p.line += r.Range(1, 50) // past the end of the file
	case 3:
		p.char = 0
	case 4:
		p.line, p.char = -r.Range(0, 3), -r.Range(0, 3)
	case 5:
		p.line, p.char = r.Range(0, 1<<40), r.Range(0, 1<<40)
	case 6:
		p.char--
	}
	return p.line, p.char
}

func gen(c *common.Ctx, depth int, emit func(...string)) {
	r := c.Rand
	// -- positions, exhaustive small
	var rec func(prefix string, n int)
	rec = func(prefix string, n int) {
		emit("reset-ptab", common.Hex(prefix), strconv.Itoa(depth+1), strconv.Itoa(2*depth+1))
		if n == 0 {
			return
		}
		for _, s := range symbols {
			rec(prefix+s, n-1)
		}
	}
	rec("", depth)
	// -- positions, random longer texts (valid and invalid UTF-8)
	alphabet := []string{"a", "b", " ", "é", "世", "😀", "𝄞", "\n", "\n", "\r\n", "\r\n", "\r", "\t", "\xff", "\xe2\x82", "\xf0\x9f", "\x80", "\xed\xa0\x80", "\x00"}
	n := c.Scale(1500, 60000)
	for i := 0; i < n; i++ {
		var sb strings.Builder
		for k := r.Range(0, 30); k > 0; k-- {
			sb.WriteString(common.Pick(r, alphabet))
		}
		src := sb.String()
		if i%3 == 0 {
			lines := strings.Count(src, "\n") + strings.Count(src, "\r")
			emit("reset-ptab", common.Hex(src), strconv.Itoa(lines+1), strconv.Itoa(r.Range(2, 12)))
			continue
		}
		big := func() int {
			switch r.Intn(6) {
			case 0:
				return -r.Range(1, 1<<40)
			case 1:
				return r.Range(0, 1<<50)
			}
			return r.Range(0, len(src)+2)
		}
		p := specPos(src, common.Pick(r, boundaries(src)))
		if r.Chance(1, 3) {
			p.line, p.char = big(), big()
		}
		emit("reset-pos", common.Hex(src), strconv.Itoa(big()), strconv.Itoa(big()), strconv.Itoa(p.line), strconv.Itoa(p.char))
	}
	// -- server histories
	emptyComp := compField("")
	homes := homesField()
	docTab, err := docTableField()
	if err != nil {
		panic("elvdoc.ExtractAllFromFS: " + err.Error())
	}
	nh := c.Scale(120, 1500)
	for h := 0; h < nh; h++ {
		var ops []hop
		if r.Chance(4, 5) {
			ops = append(ops, hop{kind: "raw", id: true, method: "initialize", pk: "obj"},
				hop{kind: "raw", id: false, method: "initialized", pk: "obj"})
		}
		cur := map[string]string{} // what the generator last sent per URI
		for k := r.Range(8, 45); k > 0; k-- {
			uri := common.Pick(r, uris)
			switch x := r.Intn(100); {
			case x < 22:
				t := randText(r, 10)
				if r.Chance(1, 3) {
					t = randHoverText(r)
				}
				ops = append(ops, hop{kind: "open", id: r.Chance(1, 10), uri: uri, texts: []string{t}})
				cur[uri] = t
			case x < 45:
				nt := 1
				if r.Chance(1, 8) {
					nt = 0
				} else if r.Chance(1, 8) {
					nt = r.Range(2, 3)
				}
				var ts []string
				for j := 0; j < nt; j++ {
					ts = append(ts, randText(r, 10))
				}
				ops = append(ops, hop{kind: "change", id: r.Chance(1, 10), uri: uri, texts: ts})
				if nt > 0 {
					cur[uri] = ts[nt-1]
				}
			case x < 51:
				// several changes in a row, of very different sizes
				var ts []string
				for j := r.Range(2, 6); j > 0; j-- {
					if r.Bool() || j == 1 { // the last text stays short: it may get a completion table
						ts = append(ts, randText(r, 8))
					} else {
						ts = append(ts, strings.Repeat(randText(r, 6)+"\n", r.Range(30, 120)))
					}
				}
				ops = append(ops, hop{kind: "burst", uri: uri, texts: ts})
				cur[uri] = ts[len(ts)-1]
			case x < 64:
				l, ch := randPosition(r, cur[uri])
				ops = append(ops, hop{kind: "hover", id: !r.Chance(1, 10), uri: uri, line: l, char: ch})
			case x < 85:
				l, ch := randPosition(r, cur[uri])
				ops = append(ops, hop{kind: "completion", id: !r.Chance(1, 10), uri: uri, line: l, char: ch})
			default:
				ops = append(ops, hop{kind: "raw", id: r.Bool(), method: common.Pick(r, rawMethods), pk: common.Pick(r, pks)})
			}
		}
		// which URIs are asked for completions later in the history
		emit("reset", emptyComp, homes, docTab)
		for i, o := range ops {
			needComp := false
			for _, later := range ops[i+1:] {
				if later.kind == "completion" && later.uri == o.uri {
					needComp = true
				}
				if later.kind == "raw" && later.method == "textDocument/completion" && o.uri == "" {
					needComp = true // zero-valued params name the URI ""
				}
			}
			docFields := func(t string) []string {
				cf := "-"
				if needComp && len(t) < 200 {
					cf = compField(t)
				}
				return []string{common.Hex(t), printable(t), cf}
			}
			switch o.kind {
			case "open":
				emit(append([]string{"open", idField(o.id), common.Hex(o.uri)}, docFields(o.texts[0])...)...)
			case "change":
				f := []string{"change", idField(o.id), common.Hex(o.uri), strconv.Itoa(len(o.texts))}
				for _, t := range o.texts {
					f = append(f, docFields(t)...)
				}
				emit(f...)
			case "burst":
				f := []string{"burst", common.Hex(o.uri), strconv.Itoa(len(o.texts))}
				for k, t := range o.texts {
					df := docFields(t)
					if k < len(o.texts)-1 {
						df[2] = "-" // only the last text can be asked for completions
					}
					f = append(f, df...)
				}
				emit(f...)
			case "hover", "completion":
				emit(o.kind, idField(o.id), common.Hex(o.uri), strconv.Itoa(o.line), strconv.Itoa(o.char))
			case "raw":
				emit("raw", idField(o.id), o.method, o.pk)
			}
		}
	}
}

// ---------------------------------------------------------------- implementation

func showPos(p golsp.Position) string { return fmt.Sprintf("%d.%d", p.Line, p.Character) }
func showRange(r golsp.Range) string  { return showPos(r.Start) + "-" + showPos(r.End) }

func atoi(s string) int {
	n, err := strconv.Atoi(s)
	if err != nil {
		panic("bad int field " + s)
	}
	return n
}

func impl(sti any, f []string) string {
	st := sti.(*state)
	switch f[0] {
	case "reset-ptab":
		s, maxL, maxC := common.Unhex(f[1]), atoi(f[2]), atoi(f[3])
		var fs, ts []string
		for i := -1; i <= len(s)+1; i++ {
			fs = append(fs, showPos(lsp.LspPositionFromIdx(s, i)))
		}
		for l := -1; l <= maxL; l++ {
			for ch := -1; ch <= maxC; ch++ {
				ts = append(ts, strconv.Itoa(lsp.LspPositionToIdx(s, golsp.Position{Line: l, Character: ch})))
			}
		}
		return "F:" + strings.Join(fs, ",") + " T:" + strings.Join(ts, ",")
	case "reset-pos":
		s := common.Unhex(f[1])
		rg := lsp.LspRangeFromRange(s, diag.Ranging{From: atoi(f[2]), To: atoi(f[3])})
		idx := lsp.LspPositionToIdx(s, golsp.Position{Line: atoi(f[4]), Character: atoi(f[5])})
		return fmt.Sprintf("R:%s T:%d", showRange(rg), idx)
	case "reset":
		st.srv.kill()
		st.srv, st.dead = nil, false
		srv, err := startServer(st.cwd, st.env)
		if err != nil {
			return "START-FAILED " + err.Error()
		}
		st.srv = srv
		return "ready"
	}
	if st.srv == nil || st.dead {
		st.last = obs{}
		return "DEAD"
	}
	var o obs
	if f[0] == "burst" {
		n := atoi(f[2])
		var msgs []map[string]any
		for j := 0; j < n; j++ {
			msgs = append(msgs, map[string]any{"jsonrpc": "2.0", "method": "textDocument/didChange",
				"params": map[string]any{"textDocument": map[string]any{"uri": common.Unhex(f[1]), "version": j + 2},
					"contentChanges": []any{map[string]any{"text": common.Unhex(f[3+3*j])}}}})
		}
		o = st.srv.burst(msgs, n)
	} else {
		msg, wantDiag := message(f)
		o = st.srv.exchange(msg, f[1] != "-", wantDiag)
	}
	st.last = o
	if o.crashed {
		st.dead = true
		if strings.Contains(o.stderr, "panic:") || strings.Contains(o.stderr, "fatal error:") {
			return "PANIC"
		}
		return "EXIT:" + o.exit
	}
	if o.noResponse {
		st.dead = true
		return "NO-RESPONSE"
	}
	if f[0] == "burst" {
		out := "burst " + showDiags(o)
		if len(o.stray) > 0 {
			out += fmt.Sprintf(" STRAY%d", len(o.stray))
		}
		return out
	}
	return showReply(f, o) + " " + showDiags(o)
}

// message builds the JSON-RPC message of a server op, and says whether the
// client should wait for a publishDiagnostics notification.
func message(f []string) (map[string]any, bool) {
	msg := map[string]any{"jsonrpc": "2.0"}
	wantDiag := false
	switch f[0] {
	case "open":
		msg["method"] = "textDocument/didOpen"
		msg["params"] = map[string]any{"textDocument": map[string]any{
			"uri": common.Unhex(f[2]), "languageId": "elvish", "version": 1, "text": common.Unhex(f[3])}}
		wantDiag = true
	case "change":
		n := atoi(f[3])
		changes := []any{}
		for j := 0; j < n; j++ {
			changes = append(changes, map[string]any{"text": common.Unhex(f[4+3*j])})
		}
		msg["method"] = "textDocument/didChange"
		msg["params"] = map[string]any{"textDocument": map[string]any{"uri": common.Unhex(f[2]), "version": 2},
			"contentChanges": changes}
		wantDiag = n > 0
	case "hover", "completion":
		msg["method"] = "textDocument/" + f[0]
		msg["params"] = map[string]any{"textDocument": map[string]any{"uri": common.Unhex(f[2])},
			"position": map[string]any{"line": atoi(f[3]), "character": atoi(f[4])}}
	case "raw":
		msg["method"] = f[2]
		switch f[3] {
		case "absent":
		case "null":
			msg["params"] = nil
		case "obj":
			msg["params"] = map[string]any{}
		case "num":
			msg["params"] = 5
		case "str":
			msg["params"] = "x"
		case "arr":
			msg["params"] = []any{1}
		default:
			panic("bad params kind " + f[3])
		}
		wantDiag = f[2] == "textDocument/didOpen" && (f[3] == "null" || f[3] == "obj")
	default:
		panic("bad op " + f[0])
	}
	return msg, wantDiag
}

func methodOf(f []string) string {
	switch f[0] {
	case "burst":
		return "textDocument/didChange (burst)"
	case "open":
		return "textDocument/didOpen"
	case "change":
		return "textDocument/didChange"
	case "hover", "completion":
		return "textDocument/" + f[0]
	}
	return f[2]
}

type item struct {
	Label    string `json:"label"`
	Kind     int    `json:"kind"`
	TextEdit *struct {
		Range   golsp.Range `json:"range"`
		NewText string      `json:"newText"`
	} `json:"textEdit"`
}

func showReply(f []string, o obs) string {
	out := "none"
	if m := o.reply; m != nil {
		switch {
		case m.Error != nil:
			out = fmt.Sprintf("error:%d", m.Error.Code)
		default:
			res := strings.TrimSpace(string(m.Result))
			method := methodOf(f)
			switch {
			case method == "textDocument/hover" && res == "null":
				out = "result:hover:null"
			case method == "textDocument/hover" && strings.HasPrefix(res, `{"contents"`):
				if md, ok := hoverMarkdown(m.Result); ok {
					out = "result:hover:" + contentID(md)
				} else {
					out = "result:?" + res
				}
			case method == "textDocument/completion" && strings.HasPrefix(res, "["):
				var items []item
				if err := json.Unmarshal(m.Result, &items); err != nil {
					out = "result:?" + res
				} else if len(items) == 0 {
					out = "result:items:0"
				} else {
					out = fmt.Sprintf("result:items:%d:%d:", len(items), items[0].Kind)
					if items[0].TextEdit == nil {
						out += "no-edit"
					} else {
						out += showRange(items[0].TextEdit.Range)
					}
					for _, it := range items {
						if it.Kind != items[0].Kind || it.TextEdit == nil || it.TextEdit.Range != items[0].TextEdit.Range {
							out += ":MIXED"
							break
						}
					}
				}
			case res == "null" || res == "":
				out = "result:null"
			case strings.HasPrefix(res, `{"capabilities"`):
				out = "result:caps"
			default:
				out = "result:?" + res
			}
		}
	}
	if len(o.stray) > 0 {
		out += fmt.Sprintf(":STRAY%d", len(o.stray))
	}
	return out
}

// hoverMarkdown decodes {"contents":{"kind":"markdown","value":…}}.
func hoverMarkdown(raw json.RawMessage) (string, bool) {
	var h struct {
		Contents struct {
			Kind  string `json:"kind"`
			Value string `json:"value"`
		} `json:"contents"`
	}
	if err := json.Unmarshal(raw, &h); err != nil || h.Contents.Kind != "markdown" {
		return "", false
	}
	return h.Contents.Value, true
}

func showDiags(o obs) string {
	if len(o.notifs) == 0 {
		return "nodiag"
	}
	var parts []string
	for _, m := range o.notifs {
		if *m.Method != "textDocument/publishDiagnostics" {
			parts = append(parts, "notif:"+*m.Method)
			continue
		}
		var p golsp.PublishDiagnosticsParams
		if err := json.Unmarshal(m.Params, &p); err != nil {
			parts = append(parts, "diag:?")
			continue
		}
		var rs []string
		for _, d := range p.Diagnostics {
			rs = append(rs, showRange(d.Range)+"/"+msgID(d.Message))
		}
		parts = append(parts, "diag:"+common.Hex(string(p.URI))+":["+strings.Join(rs, ";")+"]")
	}
	return strings.Join(parts, "+")
}

// ---------------------------------------------------------------- oracle

func oracle(sti any, f []string, out string) (string, string) {
	st := sti.(*state)
	switch f[0] {
	case "reset-ptab":
		return oraclePositions(common.Unhex(f[1]), atoi(f[2]), atoi(f[3]), out)
	case "reset-pos":
		if out == "PANIC" || out == "TIMEOUT" {
			return "position-crash", out
		}
		s := common.Unhex(f[1])
		idx := lsp.LspPositionToIdx(s, golsp.Position{Line: atoi(f[4]), Character: atoi(f[5])})
		if !isBoundary(s, idx) {
			return "toidx-not-boundary", fmt.Sprintf("text %q position %s:%s ↦ %d", s, f[4], f[5], idx)
		}
		for _, k := range []int{2, 3} {
			if i := atoi(f[k]); isBoundary(s, i) {
				if c, d := checkOffset(s, i); c != "" {
					return c, d
				}
			}
		}
		return "", ""
	case "reset":
		st.docs = map[string]string{}
		if out != "ready" {
			return "server-start", out
		}
		return "", ""
	}
	if out == "DEAD" {
		return "", "" // reported at the op that killed the server
	}
	hasID := f[0] != "burst" && f[1] != "-"
	if out == "PANIC" || strings.HasPrefix(out, "EXIT:") || out == "NO-RESPONSE" || out == "TIMEOUT" {
		cls := "crash-other"
		switch {
		case out == "NO-RESPONSE" || out == "TIMEOUT":
			cls = "no-response"
		case f[0] == "raw" && f[3] == "absent":
			cls = "crash-no-params"
		case f[0] == "change" && f[3] == "0", f[0] == "raw" && f[2] == "textDocument/didChange":
			cls = "crash-empty-changes"
		}
		d := out + " on " + methodOf(f)
		if st.last.stderr != "" {
			d += ": " + strings.SplitN(st.last.stderr, "\n", 2)[0]
		}
		return cls, d
	}
	o := st.last
	if len(o.stray) > 0 {
		return "stray-response", fmt.Sprintf("%d responses with an id nobody asked with", len(o.stray))
	}
	if hasID && o.reply == nil {
		return "no-response", "request " + methodOf(f) + " got no response"
	}
	if !hasID && o.reply != nil {
		return "notification-answered", methodOf(f)
	}
	if f[0] == "burst" {
		uri := common.Unhex(f[1])
		n := atoi(f[2])
		var texts []string
		for j := 0; j < n; j++ {
			texts = append(texts, common.Unhex(f[3+3*j]))
		}
		st.docs[uri] = texts[n-1]
		return checkBurst(o, uri, texts)
	}
	// which text does the document denote after this message, per the protocol
	var newText *string
	uri := ""
	switch f[0] {
	case "open":
		uri = common.Unhex(f[2])
		t := common.Unhex(f[3])
		newText = &t
	case "change":
		uri = common.Unhex(f[2])
		if n := atoi(f[3]); n > 0 {
			t := common.Unhex(f[4+3*(n-1)]) // full-text changes apply in order: the last one is the document
			newText = &t
		}
	case "raw":
		if f[2] == "textDocument/didOpen" && (f[3] == "null" || f[3] == "obj") {
			t := ""
			newText = &t
		}
	}
	if newText != nil {
		st.docs[uri] = *newText
		if c, d := checkDiagnostics(o, uri, *newText); c != "" {
			if f[0] == "change" && atoi(f[3]) > 1 {
				c = "multi-change-" + c
			}
			return c, d
		}
	} else if len(o.notifs) > 0 {
		return "unexpected-notification", showDiags(o)
	}
	if (f[0] == "hover" || f[0] == "completion") && hasID {
		uri = common.Unhex(f[2])
		text, open := st.docs[uri]
		if open && o.reply.Error != nil {
			return f[0] + "-error-on-open-document", fmt.Sprintf("%d %s", o.reply.Error.Code, o.reply.Error.Message)
		}
		if open && f[0] == "completion" {
			return checkCompletion(o, text, pos{atoi(f[3]), atoi(f[4])})
		}
		if open && f[0] == "hover" {
			return checkHover(o, uri, text, pos{atoi(f[3]), atoi(f[4])})
		}
	}
	return "", ""
}

// checkOffset: the property at one character-boundary offset of s.
func checkOffset(s string, i int) (string, string) {
	want := specPos(s, i)
	got := lsp.LspPositionFromIdx(s, i)
	insideCRLF := i > 0 && i < len(s) && s[i-1] == '\r' && s[i] == '\n'
	afterCRLF := i >= 2 && s[i-2:i] == "\r\n"
	if got.Line != want.line || got.Character != want.char {
		cls := "fromidx-spec"
		if insideCRLF {
			cls = "position-inside-crlf"
		} else if strings.Contains(s[:i], "\r\n") {
			cls = "fromidx-spec-after-crlf"
		}
		return cls, fmt.Sprintf("text %q offset %d: position %s, specified %d.%d", s, i, showPos(got), want.line, want.char)
	}
	back := lsp.LspPositionToIdx(s, got)
	if back != i {
		cls := "roundtrip"
		if afterCRLF {
			cls = "roundtrip-after-crlf"
		} else if insideCRLF {
			cls = "roundtrip-inside-crlf"
		}
		return cls, fmt.Sprintf("text %q offset %d ↦ %s ↦ offset %d", s, i, showPos(got), back)
	}
	return "", ""
}

func oraclePositions(s string, maxL, maxC int, out string) (string, string) {
	if out == "PANIC" || out == "TIMEOUT" {
		return "position-crash", out
	}
	for _, b := range boundaries(s) {
		if c, d := checkOffset(s, b); c != "" {
			return c, d
		}
	}
	for l := -1; l <= maxL; l++ {
		for ch := -1; ch <= maxC; ch++ {
			idx := lsp.LspPositionToIdx(s, golsp.Position{Line: l, Character: ch})
			if !isBoundary(s, idx) {
				return "toidx-not-boundary", fmt.Sprintf("text %q position %d:%d ↦ %d", s, l, ch, idx)
			}
		}
	}
	return "", ""
}

type wantDiag struct {
	rng golsp.Range
	msg string
}

func decodePubs(o obs) ([]golsp.PublishDiagnosticsParams, string, string) {
	var pubs []golsp.PublishDiagnosticsParams
	for _, m := range o.notifs {
		if *m.Method != "textDocument/publishDiagnostics" {
			return nil, "unexpected-notification", *m.Method
		}
		var p golsp.PublishDiagnosticsParams
		if err := json.Unmarshal(m.Params, &p); err != nil {
			return nil, "diagnostics-undecodable", err.Error()
		}
		pubs = append(pubs, p)
	}
	return pubs, "", ""
}

// checkPub: one publishDiagnostics carries exactly the parse errors of text,
// with their ranges converted by the specification.
func checkPub(p golsp.PublishDiagnosticsParams, uri, text string) (string, string) {
	if string(p.URI) != uri {
		return "diagnostics-uri", fmt.Sprintf("got %q want %q", p.URI, uri)
	}
	_, err := parse.Parse(parse.Source{Name: uri, Code: text}, parse.Config{})
	var want []wantDiag
	for _, e := range parse.UnpackErrors(err) {
		r := e.Range()
		if !isBoundary(text, r.From) || !isBoundary(text, r.To) {
			// outside C44: the parser's ranges are C01's subject
			return "", ""
		}
		a, b := specPos(text, r.From), specPos(text, r.To)
		want = append(want, wantDiag{golsp.Range{Start: golsp.Position{Line: a.line, Character: a.char},
			End: golsp.Position{Line: b.line, Character: b.char}}, e.Message})
	}
	if len(want) != len(p.Diagnostics) {
		return "diagnostics-count", fmt.Sprintf("text %q: %d diagnostics for %d parse errors", text, len(p.Diagnostics), len(want))
	}
	for i, d := range p.Diagnostics {
		if d.Range != want[i].rng {
			cls := "diagnostics-range"
			if strings.Contains(text, "\r\n") {
				cls = "diagnostics-range-crlf"
			}
			return cls, fmt.Sprintf("text %q error %d: range %s, specified %s", text, i, showRange(d.Range), showRange(want[i].rng))
		}
		if d.Message != want[i].msg || d.Severity != golsp.DSError || d.Source != "parse" {
			return "diagnostics-content", fmt.Sprintf("text %q error %d: %+v", text, i, d)
		}
	}
	return "", ""
}

// checkDiagnostics: exactly one publishDiagnostics for uri, for text.
func checkDiagnostics(o obs, uri, text string) (string, string) {
	pubs, c, d := decodePubs(o)
	if c != "" {
		return c, d
	}
	if len(pubs) == 0 {
		return "diagnostics-missing", fmt.Sprintf("no publishDiagnostics for %q", uri)
	}
	if len(pubs) > 1 {
		return "diagnostics-duplicated", fmt.Sprintf("%d publishDiagnostics", len(pubs))
	}
	return checkPub(pubs[0], uri, text)
}

// checkBurst: successive full-text changes; the k-th publishDiagnostics the
// client receives must be that of the k-th text (in particular the last one
// received describes the document).
func checkBurst(o obs, uri string, texts []string) (string, string) {
	pubs, c, d := decodePubs(o)
	if c != "" {
		return c, d
	}
	if len(pubs) < len(texts) {
		return "diagnostics-missing", fmt.Sprintf("%d publishDiagnostics for %d changes", len(pubs), len(texts))
	}
	if len(pubs) > len(texts) {
		return "diagnostics-duplicated", fmt.Sprintf("%d publishDiagnostics for %d changes", len(pubs), len(texts))
	}
	firstBad, bc, bd := -1, "", ""
	for i := range texts {
		if c, d := checkPub(pubs[i], uri, texts[i]); c != "" {
			firstBad, bc, bd = i, c, d
			break
		}
	}
	if firstBad < 0 {
		return "", ""
	}
	// a permutation of the right notifications?
	used := make([]bool, len(pubs))
	for _, t := range texts {
		found := false
		for j, p := range pubs {
			if !used[j] {
				if c, _ := checkPub(p, uri, t); c == "" {
					used[j], found = true, true
					break
				}
			}
		}
		if !found {
			return bc, bd
		}
	}
	var ns []string
	for _, p := range pubs {
		ns = append(ns, strconv.Itoa(len(p.Diagnostics)))
	}
	return "diagnostics-out-of-order", fmt.Sprintf("%d changes of %q sent in a row; notification #%d is not for change #%d (diagnostics per notification, in arrival order: %s)",
		len(texts), uri, firstBad+1, firstBad+1, strings.Join(ns, ","))
}

// checkCompletion: when the requested position is exactly the position of a
// boundary offset, the reply must be the completion at that offset with its
// replace range converted by the specification.
func checkCompletion(o obs, text string, p pos) (string, string) {
	dot, ok := specIdx(text, p)
	if !ok {
		return "", ""
	}
	res, err := complete.Complete(complete.CodeBuffer{Content: text, Dot: dot}, genEvaler, complete.Config{})
	var items []item
	if e := json.Unmarshal(o.reply.Result, &items); e != nil {
		return "completion-undecodable", string(o.reply.Result)
	}
	if err != nil {
		if len(items) != 0 {
			return "completion-items", fmt.Sprintf("text %q dot %d: %d items, want none", text, dot, len(items))
		}
		return "", ""
	}
	if len(items) != len(res.Items) {
		cls := "completion-items"
		if strings.Contains(text, "\r\n") {
			cls = "completion-items-crlf"
		}
		return cls, fmt.Sprintf("text %q position %d:%d (offset %d): %d items, want %d", text, p.line, p.char, dot, len(items), len(res.Items))
	}
	a, b := specPos(text, res.Replace.From), specPos(text, res.Replace.To)
	want := golsp.Range{Start: golsp.Position{Line: a.line, Character: a.char}, End: golsp.Position{Line: b.line, Character: b.char}}
	for i, it := range items {
		if it.TextEdit == nil || it.TextEdit.Range != want || it.TextEdit.NewText != res.Items[i].ToInsert {
			cls := "completion-edit"
			if strings.Contains(text, "\r\n") {
				cls = "completion-edit-crlf"
			}
			return cls, fmt.Sprintf("text %q position %d:%d item %d: %+v, want range %s text %q", text, p.line, p.char, i, it.TextEdit, showRange(want), res.Items[i].ToInsert)
		}
	}
	return "", ""
}

// checkHover: when the requested position is exactly the position of a
// boundary offset, the reply shows the documentation of the symbol the offset
// is in: of the variable, if the innermost node there is a variable use with a
// documented name; otherwise of the command, if that node belongs to the head
// word of a command, the word is made of literal pieces only and names a
// documented command; otherwise nothing.
func checkHover(o obs, uri, text string, p pos) (string, string) {
	dot, ok := specIdx(text, p)
	if !ok {
		return "", ""
	}
	tree, _ := parse.Parse(parse.Source{Name: uri, Code: text}, parse.Config{})
	want, why := "", "no symbol at the offset"
	// innermost node containing dot
	var n parse.Node = tree.Root
	inside := true
	for inside && len(parse.Children(n)) > 0 {
		inside = false
		for _, ch := range parse.Children(n) {
			if r := ch.Range(); r.From <= dot && dot < r.To {
				n, inside = ch, true
				break
			}
		}
	}
	if pr, isPrimary := n.(*parse.Primary); inside && isPrimary {
		if pr.Type == parse.Variable {
			if md, err := doc.Source("$" + pr.Value); err == nil {
				want, why = md, "variable $"+pr.Value
			}
		}
		if want == "" {
			if in, ok := parse.Parent(pr).(*parse.Indexing); ok {
				if cn, ok := parse.Parent(in).(*parse.Compound); ok {
					if fn, ok := parse.Parent(cn).(*parse.Form); ok && fn.Head == cn {
						if word, ok := literalPrefix(cn, in.To); ok {
							if md, err := doc.Source(word); err == nil {
								want, why = md, "command "+word
							}
						}
					}
				}
			}
		}
	}
	res := strings.TrimSpace(string(o.reply.Result))
	got := ""
	if res != "null" {
		md, ok := hoverMarkdown(o.reply.Result)
		if !ok {
			return "hover-undecodable", res
		}
		got = md
	}
	if got != want {
		cls := "hover-content"
		if strings.Contains(text, "\r\n") {
			cls = "hover-content-crlf"
		}
		return cls, fmt.Sprintf("text %q position %d:%d (offset %d): shown %s, expected %s (%s)", text, p.line, p.char, dot,
			showDoc(got), showDoc(want), why)
	}
	return "", ""
}

func showDoc(md string) string {
	if md == "" {
		return "nothing"
	}
	first := strings.SplitN(strings.TrimPrefix(md, "```elvish\n"), "\n", 2)[0]
	return fmt.Sprintf("doc %s (%q…)", contentID(md), first)
}

// literalPrefix: the value of the part of a word up to offset upto, when that
// part consists of barewords and quoted strings only (a leading ~ is expanded).
func literalPrefix(cn *parse.Compound, upto int) (string, bool) {
	word, tilde := "", false
	for _, in := range cn.Indexings {
		if len(in.Indices) > 0 {
			return "", false
		}
		if in.To > upto {
			break
		}
		switch in.Head.Type {
		case parse.Tilde:
			tilde = true
		case parse.Bareword, parse.SingleQuoted, parse.DoubleQuoted:
			word += in.Head.Value
		default:
			return "", false
		}
	}
	if tilde {
		user, rest, _ := strings.Cut(word, "/")
		home, err := fsutil.GetHome(user)
		if err != nil {
			return "", false
		}
		if len(user) < len(word) {
			rest = "/" + rest
		}
		word = home + rest
	}
	return word, true
}

// ---------------------------------------------------------------- tags

func textTag(s string) string {
	rest := strings.ReplaceAll(s, "\r\n", "")
	crlf, cr, lf := rest != s, strings.Contains(rest, "\r"), strings.Contains(rest, "\n")
	brk := "one-line"
	switch {
	case crlf && (cr || lf):
		brk = "crlf-mixed"
	case crlf:
		brk = "crlf"
	case cr && lf:
		brk = "cr-and-lf"
	case cr:
		brk = "cr"
	case lf:
		brk = "lf"
	}
	chars := "ascii"
	for _, r := range s {
		if r >= 0x10000 {
			chars = "astral"
		} else if r >= 0x80 && chars == "ascii" {
			chars = "bmp"
		}
	}
	if !utf8.ValidString(s) {
		chars += "+invalid-utf8"
	}
	if brk == "one-line" && chars == "ascii" {
		return ""
	}
	return brk + "/" + chars
}

func tag(f []string, out string) string {
	switch f[0] {
	case "reset-ptab":
		t := textTag(common.Unhex(f[1]))
		if t == "" {
			return ""
		}
		return "ptab:" + t
	case "reset-pos":
		t := textTag(common.Unhex(f[1]))
		if t == "" {
			t = "one-line/ascii"
		}
		return "pos:" + t
	case "reset":
		return ""
	}
	if out == "DEAD" {
		return "after-crash"
	}
	if f[0] == "burst" {
		return "burst-of-" + f[2]
	}
	kind := f[0]
	switch f[0] {
	case "change":
		switch f[3] {
		case "0":
			kind = "change-empty-list"
		case "1":
		default:
			kind = "change-multi"
		}
	case "raw":
		known := false
		for _, m := range []string{"initialize", "initialized", "textDocument/didOpen", "textDocument/didChange",
			"textDocument/hover", "textDocument/completion", "textDocument/didClose", "workspace/didChangeWatchedFiles"} {
			known = known || m == f[2]
		}
		if known {
			kind = "raw-known-" + f[3]
		} else {
			kind = "raw-unknown-method"
		}
	}
	if f[1] == "-" {
		kind += "(notif)"
	}
	res := strings.SplitN(out, " ", 2)[0]
	if strings.HasPrefix(res, "result:items:") && res != "result:items:0" {
		res = "result:items:n"
	}
	if strings.HasPrefix(res, "result:hover:") && res != "result:hover:null" {
		res = "result:hover:doc"
	}
	d := ""
	if strings.Contains(out, " diag:") {
		if strings.Contains(out, ":[]") {
			d = " diag-empty"
		} else {
			d = " diag-errors"
		}
	}
	return kind + " → " + res + d
}
