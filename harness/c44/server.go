package c44

// Client side of a real `elvish -lsp` server process.  The server is the
// harness binary re-executed with VERIF_C44_SERVER=1, which runs
// lsp.Program.Run over the process's stdin/stdout exactly as cmd/elvish does
// (prog.Run with "-lsp").  A separate process is required: a panic in the
// jsonrpc2 reader goroutine cannot be recovered and must not take the harness
// down with it.

import (
	"bufio"
	"bytes"
	"encoding/json"
	"fmt"
	"io"
	"os"
	"os/exec"
	"strconv"
	"strings"
	"sync"
	"time"
)

type rpcError struct {
	Code    int    `json:"code"`
	Message string `json:"message"`
}

// rpcMsg is any message the server sends.
type rpcMsg struct {
	ID     *json.RawMessage `json:"id"`
	Method *string          `json:"method"`
	Params json.RawMessage  `json:"params"`
	Result json.RawMessage  `json:"result"`
	Error  *rpcError        `json:"error"`
}

type lspServer struct {
	cmd    *exec.Cmd
	in     io.WriteCloser
	msgs   chan rpcMsg
	mu     sync.Mutex
	stderr bytes.Buffer
	nextID int
	dead   bool
}

type lockedWriter struct {
	mu *sync.Mutex
	b  *bytes.Buffer
}

func (w lockedWriter) Write(p []byte) (int, error) {
	w.mu.Lock()
	defer w.mu.Unlock()
	return w.b.Write(p)
}

func startServer(cwd string, env []string) (*lspServer, error) {
	exe, err := os.Executable()
	if err != nil {
		return nil, err
	}
	s := &lspServer{msgs: make(chan rpcMsg, 4096), nextID: 1000}
	s.cmd = exec.Command(exe)
	s.cmd.Env = append(append([]string{}, env...), "VERIF_C44_SERVER=1")
	s.cmd.Dir = cwd
	s.cmd.Stderr = lockedWriter{&s.mu, &s.stderr}
	s.in, err = s.cmd.StdinPipe()
	if err != nil {
		return nil, err
	}
	out, err := s.cmd.StdoutPipe()
	if err != nil {
		return nil, err
	}
	if err := s.cmd.Start(); err != nil {
		return nil, err
	}
	go func() {
		defer close(s.msgs)
		r := bufio.NewReaderSize(out, 1<<16)
		for {
			n := -1
			for {
				line, err := r.ReadString('\n')
				if err != nil {
					return
				}
				line = strings.TrimRight(line, "\r\n")
				if line == "" {
					break
				}
				if v, ok := strings.CutPrefix(line, "Content-Length: "); ok {
					n, _ = strconv.Atoi(v)
				}
			}
			if n < 0 {
				return
			}
			body := make([]byte, n)
			if _, err := io.ReadFull(r, body); err != nil {
				return
			}
			var m rpcMsg
			if json.Unmarshal(body, &m) != nil {
				m = rpcMsg{Error: &rpcError{Code: 1, Message: "harness: undecodable message " + string(body)}}
			}
			s.msgs <- m
		}
	}()
	return s, nil
}

func (s *lspServer) write(body []byte) error {
	_, err := fmt.Fprintf(s.in, "Content-Length: %d\r\n\r\n%s", len(body), body)
	return err
}

func (s *lspServer) kill() {
	if s == nil {
		return
	}
	s.in.Close()
	s.cmd.Process.Kill()
	s.cmd.Wait()
	s.dead = true
}

// obs is what the client observed for one message it sent.
type obs struct {
	crashed    bool   // the server process ended
	stderr     string // its stderr, when it ended
	exit       string
	noResponse bool     // nothing arrived in time although the process lives
	reply      *rpcMsg  // the response carrying the message's id
	stray      []rpcMsg // responses carrying any other id (never legitimate)
	notifs     []rpcMsg // notifications from the server (publishDiagnostics)
}

var diagWaits int

// exchange sends one message.  A message with an id is awaited by that id; a
// notification is followed by a sentinel request for a method the server does
// not have — the handler is synchronous, so the sentinel's "method not found"
// reply proves the notification has been handled (and that it was not
// answered).  wantDiag: wait for a publishDiagnostics notification, which the
// server sends from a goroutine.
func (s *lspServer) exchange(msg map[string]any, hasID bool, wantDiag bool) obs {
	var o obs
	s.nextID++
	await := s.nextID
	if hasID {
		msg["id"] = await
	}
	body, err := json.Marshal(msg)
	if err != nil {
		panic(err)
	}
	werr := s.write(body)
	if werr == nil && !hasID {
		sb, _ := json.Marshal(map[string]any{"jsonrpc": "2.0", "id": await, "method": "$/verif-sync"})
		werr = s.write(sb)
	}
	deadline := time.After(20 * time.Second)
	got := false
	for !got {
		select {
		case m, ok := <-s.msgs:
			if !ok {
				s.finish(&o)
				return o
			}
			switch {
			case m.Method != nil:
				o.notifs = append(o.notifs, m)
			case m.ID != nil && string(*m.ID) == strconv.Itoa(await):
				got = true
				if hasID {
					mm := m
					o.reply = &mm
				}
			default:
				o.stray = append(o.stray, m)
			}
		case <-deadline:
			o.noResponse = true
			s.kill()
			return o
		}
	}
	_ = werr
	if wantDiag && len(o.notifs) == 0 {
		wait := 3 * time.Second
		if diagWaits > 10 {
			wait = 200 * time.Millisecond
		}
		select {
		case m, ok := <-s.msgs:
			if !ok {
				s.finish(&o)
				return o
			}
			if m.Method != nil {
				o.notifs = append(o.notifs, m)
			} else {
				o.stray = append(o.stray, m)
			}
		case <-time.After(wait):
			diagWaits++
		}
	}
	// anything else already delivered (never blocks)
	for {
		select {
		case m, ok := <-s.msgs:
			if !ok {
				s.finish(&o)
				return o
			}
			if m.Method != nil {
				o.notifs = append(o.notifs, m)
			} else {
				o.stray = append(o.stray, m)
			}
			continue
		default:
		}
		break
	}
	return o
}

// burst sends several notifications back to back, without waiting in between,
// then the sentinel; it collects the notifications the server sends, in the
// order they arrive, until wantNotifs have come.
func (s *lspServer) burst(msgs []map[string]any, wantNotifs int) obs {
	var o obs
	s.nextID++
	await := s.nextID
	var buf bytes.Buffer
	for _, m := range msgs {
		b, err := json.Marshal(m)
		if err != nil {
			panic(err)
		}
		fmt.Fprintf(&buf, "Content-Length: %d\r\n\r\n%s", len(b), b)
	}
	sb, _ := json.Marshal(map[string]any{"jsonrpc": "2.0", "id": await, "method": "$/verif-sync"})
	fmt.Fprintf(&buf, "Content-Length: %d\r\n\r\n%s", len(sb), sb)
	wdone := make(chan struct{})
	go func() { // the reader below keeps draining, so this cannot deadlock
		s.in.Write(buf.Bytes())
		close(wdone)
	}()
	deadline := time.After(20 * time.Second)
	got := false
	for !got || len(o.notifs) < wantNotifs {
		wait := deadline
		if got {
			w := 3 * time.Second
			if diagWaits > 10 {
				w = 200 * time.Millisecond
			}
			wait = time.After(w)
		}
		select {
		case m, ok := <-s.msgs:
			if !ok {
				s.finish(&o)
				return o
			}
			switch {
			case m.Method != nil:
				o.notifs = append(o.notifs, m)
			case m.ID != nil && string(*m.ID) == strconv.Itoa(await):
				got = true
			default:
				o.stray = append(o.stray, m)
			}
		case <-wait:
			if !got {
				o.noResponse = true
				s.kill()
				return o
			}
			diagWaits++
			return o
		}
	}
	<-wdone
	return o
}

func (s *lspServer) finish(o *obs) {
	s.in.Close()
	err := s.cmd.Wait()
	s.dead = true
	o.crashed = true
	o.exit = "0"
	if err != nil {
		o.exit = err.Error()
	}
	s.mu.Lock()
	o.stderr = s.stderr.String()
	s.mu.Unlock()
}
