package c41

import (
	"fmt"
	"regexp"
	"sort"
	"strconv"
	"strings"
	"unicode/utf8"

	"verifharness/common"
)

// refSplit: the pieces re:split must produce, from the positions re:find reports
// (locs = all matches, in order), by Go's documented rule for Regexp.Split.
func refSplit(src string, locs [][]int, n int, exprEmpty bool) []string {
	if n == 0 {
		return nil
	}
	if !exprEmpty && src == "" {
		return []string{""}
	}
	if n > 0 && len(locs) > n {
		locs = locs[:n]
	}
	var pieces []string
	beg, lastStart := 0, 0
	for _, m := range locs {
		if n > 0 && len(pieces) >= n-1 {
			break
		}
		lastStart = m[0]
		if m[1] != 0 {
			pieces = append(pieces, src[beg:m[0]])
		}
		beg = m[1]
	}
	if lastStart != len(src) {
		pieces = append(pieces, src[beg:])
	}
	return pieces
}

func fnResult(id, x string) (string, string) { // (replacement, error line)
	switch id {
	case "wrap":
		return "<" + x + ">", ""
	case "two":
		return "", "AM|replacement function output|1|1|2"
	case "none":
		return "", "AM|replacement function output|1|1|0"
	case "list":
		return "", "BV|replacement function output|string|list"
	case "num":
		return "", "BV|replacement function output|string|number"
	case "failb":
		if x == "b" {
			return "", "fail"
		}
		return x, ""
	}
	return "", "fail"
}

// contractOK evaluates the engine contract of the Lean model (EngineOk in
// lean/ElvModel/C41/Spec.lean) on a match list Go's engine really returned:
// every match has an even number ≥ 2 of indices, group 0 is a range inside the
// source, every other group is (-1,-1) or a range inside the source, matches are
// ascending, do not overlap, and each ends strictly after the previous one ended.
func contractOK(srcLen int, field string) string {
	if field == "-" {
		return ""
	}
	prevEnd, strictPrev := 0, -1
	for k, ms := range strings.Split(field, ";") {
		m := ints(ms)
		if len(m) < 2 || len(m)%2 != 0 {
			return fmt.Sprintf("match %d has %d indices", k, len(m))
		}
		for i := 0; i < len(m); i += 2 {
			s, e := m[i], m[i+1]
			if i > 0 && s == -1 && e == -1 {
				continue
			}
			if s < 0 || s > e || e > srcLen {
				return fmt.Sprintf("match %d group %d = (%d,%d) outside [0,%d]", k, i/2, s, e, srcLen)
			}
		}
		if m[0] < prevEnd || m[1] <= strictPrev {
			return fmt.Sprintf("match %d = (%d,%d) after a match ending at %d", k, m[0], m[1], prevEnd)
		}
		prevEnd, strictPrev = m[1], m[1]
	}
	return ""
}

// ---- an independent reading of replacement templates --------------------------------------------
//
// The grammar of lean/ElvModel/C41/Template.lean as ONE leftmost-first regular expression:
// "$$", "${name}", "$name" (greedy = longest name), a raw "$", text without "$".  Written from
// the documentation of Regexp.Expand, not from its code.
var tmplTokRe = regexp.MustCompile(`\$\$|\$\{[\p{L}\p{Nd}_]+\}|\$[\p{L}\p{Nd}_]+|\$|[^$]+`)

// refNumber: is the name a group number?  Decimal ASCII digits, no leading zero, at most nine digits.
func refNumber(name string) (int, bool) {
	if len(name) > 9 || (len(name) > 1 && name[0] == '0') {
		return 0, false
	}
	n := 0
	for i := 0; i < len(name); i++ {
		if name[i] < '0' || name[i] > '9' {
			return 0, false
		}
		n = n*10 + int(name[i]-'0')
	}
	return n, true
}

// tmplKinds lists the kinds of tokens of a template (for tags).
func tmplKinds(t string) string {
	seen := map[string]bool{}
	for _, tok := range tmplTokRe.FindAllString(t, -1) {
		switch {
		case tok == "$$":
			seen["dollar"] = true
		case tok == "$":
			seen["raw"] = true
		case tok[0] != '$':
			seen["text"] = true
		default:
			name := strings.TrimSuffix(strings.TrimPrefix(strings.TrimPrefix(tok, "$"), "{"), "}")
			k := "name"
			if _, ok := refNumber(name); ok {
				k = "num"
			}
			if tok[1] == '{' {
				k += "-braced"
			}
			seen[k] = true
		}
	}
	var ks []string
	for k := range seen {
		ks = append(ks, k)
	}
	sort.Strings(ks)
	return strings.Join(ks, ",")
}

// expandByGrammar: the replacement for one match, token by token.
func expandByGrammar(t, src string, m []int, names []string) string {
	var sb strings.Builder
	group := func(k int) (string, bool) {
		if 2*k+1 < len(m) && m[2*k] >= 0 {
			return src[m[2*k]:m[2*k+1]], true
		}
		return "", false
	}
	for _, tok := range tmplTokRe.FindAllString(t, -1) {
		switch {
		case tok == "$$" || tok == "$":
			sb.WriteByte('$')
		case tok[0] != '$':
			sb.WriteString(tok)
		default:
			name := strings.TrimPrefix(tok, "$")
			if name[0] == '{' {
				name = name[1 : len(name)-1]
			}
			if k, ok := refNumber(name); ok {
				g, _ := group(k)
				sb.WriteString(g)
				continue
			}
			for i, ni := range names {
				if ni == name {
					if g, ok := group(i); ok {
						sb.WriteString(g)
						break
					}
				}
			}
		}
	}
	return sb.String()
}

// ---- re:awk, from the positions re:find would report ------------------------------------------------

func awkFlow(cb string, args []string) string { // ok | cont | brk | fail
	switch cb {
	case "put":
		return "ok"
	case "cont":
		return "cont"
	case "mix":
		if len(args) > 1 {
			switch args[1] {
			case "x":
				return "brk"
			case "c":
				return "fail"
			case "a":
				return "cont"
			}
		}
		return "ok"
	}
	return "fail"
}

func oracleAwk(f []string, out string) (string, string) {
	sep, cb := common.Unhex(f[2]), f[3]
	re, err := compileLike(sep, f[1])
	if err != nil {
		if out != "EXC bad-pattern" {
			return fail("re-bad-pattern", "re:awk &sep=%q: %s", sep, out)
		}
		return "", ""
	}
	if f[6] != "-" {
		k := 0
		for _, it := range strings.Split(f[4], "|") {
			if it[0] != 's' {
				continue
			}
			t := naiveTrimRight(naiveTrimLeft(common.Unhex(it[1:]), runeSet(" \t")), runeSet(" \t"))
			if why := contractOK(len(t), strings.Split(f[6], "|")[k]); why != "" {
				return fail("engine-contract", "Go's match list violates the contract assumed by the theorems: %s", why)
			}
			k++
		}
	}
	want := []string{"AWK"}
	end := "OK"
	if f[4] != "-" {
	items:
		for _, it := range strings.Split(f[4], "|") {
			if it[0] != 's' {
				end = "EXC other:input of re:awk must be string"
				break
			}
			line := common.Unhex(it[1:])
			t := naiveTrimRight(naiveTrimLeft(line, runeSet(" \t")), runeSet(" \t"))
			args := append([]string{line}, refSplit(t, re.FindAllStringIndex(t, -1), -1, sep == "")...)
			hs := make([]string, len(args))
			for i, a := range args {
				hs[i] = common.Hex(a)
			}
			want = append(want, "c:"+strings.Join(hs, ","))
			switch awkFlow(cb, args) {
			case "brk":
				break items
			case "fail":
				end = "EXC fail"
				break items
			}
		}
	}
	if w := strings.Join(want, " ") + " " + end; out != w {
		return fail("awk-vs-find", "re:awk%s &sep=%q %s %s: %s; from the find positions: %s", flagOpts(f[1]), sep, cb, f[4], out, w)
	}
	return "", ""
}

func oracleRe(f []string, o outcome, out string) (string, string) {
	u := common.Unhex
	if f[0] == "awk" {
		return oracleAwk(f, out)
	}
	if idx, srcIdx := map[string]int{"find": 6, "resplit": 6, "rematch": 5, "rereplace": 7}[f[0]], map[string]int{"find": 4, "resplit": 4, "rematch": 3, "rereplace": 5}[f[0]]; idx > 0 {
		if why := contractOK(len(u(f[srcIdx])), f[idx]); why != "" {
			return fail("engine-contract", "Go's match list violates the contract assumed by the theorems: %s", why)
		}
	}
	switch f[0] {
	case "quote":
		s := u(f[1])
		q, ok := o.oneStr()
		if !ok {
			return fail("quote-error", "%s", out)
		}
		if !utf8.ValidString(s) {
			return "", "" // Go's regexp rejects patterns that are not UTF-8; outside the law
		}
		re, err := regexp.Compile(`\A(?:` + q + `)\z`)
		if err != nil {
			return fail("quote-not-a-pattern", "re:quote %q = %q does not compile: %v", s, q, err)
		}
		if !re.MatchString(s) {
			return fail("quote-literal", "re:quote %q = %q does not match the text", s, q)
		}
		if re2, err := regexp.Compile(q); err == nil {
			if p, complete := re2.LiteralPrefix(); p != s || !complete {
				return fail("quote-literal", "re:quote %q = %q is not the literal (prefix %q complete %v)", s, q, p, complete)
			}
		}
		var near []string
		near = append(near, s+"a", "a"+s, s+s+"a")
		for i := range s {
			_, n := utf8.DecodeRuneInString(s[i:])
			near = append(near, s[:i]+s[i+n:], s[:i]+"a"+s[i+n:], s[:i]+"\n"+s[i+n:], s[:i]+s[i:i+n]+s[i:])
		}
		for _, t := range near {
			if t != s && re.MatchString(t) {
				return fail("quote-literal", "re:quote %q = %q also matches %q", s, q, t)
			}
		}
	case "find":
		max, _ := strconv.Atoi(f[2])
		pat, src := u(f[3]), u(f[4])
		re, err := compileLike(pat, f[1])
		if err != nil {
			if out != "EXC bad-pattern" {
				return fail("re-bad-pattern", "re:find %q: %s", pat, out)
			}
			return "", ""
		}
		ms := re.FindAllStringSubmatchIndex(src, max)
		want := []string{"OK"}
		for _, m := range ms {
			t := fmt.Sprintf("m:%s,%d,%d", common.Hex(src[m[0]:m[1]]), m[0], m[1])
			for i := 0; i < len(m); i += 2 {
				g := ""
				if m[i] >= 0 {
					g = src[m[i]:m[i+1]]
				}
				t += fmt.Sprintf("[%s,%d,%d]", common.Hex(g), m[i], m[i+1])
			}
			want = append(want, t)
		}
		if out != strings.Join(want, " ") {
			return fail("find-positions", "re:find%s &max=%d %q %q: %s want %s", flagOpts(f[1]), max, pat, src, out, strings.Join(want, " "))
		}
	case "resplit":
		max, _ := strconv.Atoi(f[2])
		pat, src := u(f[3]), u(f[4])
		re, err := compileLike(pat, f[1])
		if err != nil {
			if out != "EXC bad-pattern" {
				return fail("re-bad-pattern", "re:split %q: %s", pat, out)
			}
			return "", ""
		}
		want := refSplit(src, re.FindAllStringIndex(src, -1), max, pat == "")
		got, ok := o.strs()
		if o.kind != "OK" || !ok || strings.Join(got, "\x00") != strings.Join(want, "\x00") || len(got) != len(want) {
			return fail("split-vs-find", "re:split%s &max=%d %q %q = %q; from the find positions: %q", flagOpts(f[1]), max, pat, src, got, want)
		}
	case "rematch":
		pat, src := u(f[2]), u(f[3])
		re, err := compileLike(pat, f[1])
		if err != nil {
			if out != "EXC bad-pattern" {
				return fail("re-bad-pattern", "re:match %q: %s", pat, out)
			}
			return "", ""
		}
		if want := "OK b:" + strconv.FormatBool(len(re.FindAllStringIndex(src, -1)) > 0); out != want {
			return fail("match-vs-find", "re:match %q %q: %s want %s", pat, src, out, want)
		}
	case "rereplace":
		pat, kind, repl, src := u(f[2]), f[3], f[4], u(f[5])
		re, err := compileLike(pat, f[1])
		if err != nil {
			if out != "EXC bad-pattern" {
				return fail("re-bad-pattern", "re:replace %q: %s", pat, out)
			}
			return "", ""
		}
		literal := strings.Contains(f[1], "l")
		wantErr := ""
		switch {
		case literal && kind == "f":
			wantErr = "BV|literal replacement|string|fn"
		case literal && kind == "o":
			wantErr = "BV|literal replacement|string|" + repl
		case kind == "o":
			wantErr = "BV|replacement|string or function|" + repl
		}
		var sb strings.Builder
		if wantErr == "" {
			last := 0
			for _, m := range re.FindAllStringSubmatchIndex(src, -1) {
				sb.WriteString(src[last:m[0]])
				last = m[1]
				switch {
				case kind == "s" && literal:
					sb.WriteString(u(repl))
				case kind == "s":
					sb.Write(re.ExpandString(nil, u(repl), src, m))
				default:
					r, e := fnResult(repl, src[m[0]:m[1]])
					if e != "" && wantErr == "" {
						wantErr = e
					}
					sb.WriteString(r)
				}
			}
			sb.WriteString(src[last:])
		}
		want := "OK " + sTok(sb.String())
		if wantErr != "" {
			want = "EXC " + wantErr
		}
		if out != want {
			return fail("replace-vs-find", "re:replace%s %q %s:%q %q: %s; from the find positions: %s", flagOpts(f[1]), pat, kind, u2(kind, repl), src, out, want)
		}
		if kind == "s" && !literal {
			// the same, with the template read by the grammar instead of by Regexp.Expand
			var sg strings.Builder
			last := 0
			for _, m := range re.FindAllStringSubmatchIndex(src, -1) {
				sg.WriteString(src[last:m[0]])
				last = m[1]
				sg.WriteString(expandByGrammar(u(repl), src, m, re.SubexpNames()))
			}
			sg.WriteString(src[last:])
			if w := "OK " + sTok(sg.String()); out != w {
				return fail("template-reading", "re:replace %q %q %q: %s; by the template grammar: %s", pat, u(repl), src, out, w)
			}
		}
	}
	return "", ""
}

func u2(kind, repl string) string {
	if kind == "s" {
		return common.Unhex(repl)
	}
	return repl
}

// ---- tags -----------------------------------------------------------------------------------

func tag(f []string, out string) string {
	u := common.Unhex
	exc := strings.HasPrefix(out, "EXC ")
	if out == "PANIC" || out == "TIMEOUT" {
		return f[0] + ":" + strings.ToLower(out)
	}
	switch f[0] {
	case "reset":
		if len(f) > 1 {
			return "history:group-start"
		}
		return ""
	case "awk":
		switch {
		case out == "EXC bad-pattern":
			return "awk:bad-pattern"
		case f[4] == "-":
			return "awk:no-input"
		}
		t := "awk:" + f[3]
		switch {
		case strings.HasSuffix(out, "EXC other:input of re:awk must be string"):
			t += "+non-string-input"
		case strings.HasSuffix(out, "EXC fail"):
			t += "+callback-failed"
		case strings.Count(out, " c:") < len(strings.Split(f[4], "|")):
			t += "+break"
		}
		if strings.Contains(out, ",-,") || strings.HasSuffix(strings.TrimSuffix(out, " OK"), ",-") {
			t += "+empty-field"
		}
		if strings.Contains(f[1], "g") || strings.Contains(f[1], "p") {
			t += "+longest"
		}
		return t
	case "split", "splitjoin":
		max, _ := strconv.Atoi(f[1])
		sep, s := u(f[2]), u(f[3])
		t := f[0]
		switch {
		case max == 0:
			return t + ":max-zero"
		case sep == "" && !utf8.ValidString(s):
			t += ":explode-invalid-utf8"
		case sep == "":
			t += ":explode"
		case !strings.Contains(s, sep):
			return t + ":sep-absent"
		case !utf8.ValidString(s) || !utf8.ValidString(sep):
			t += ":invalid-utf8"
		default:
			t += ":sep-present"
		}
		if max > 0 && max <= strings.Count(s, sep) {
			t += "+max-limited"
		}
		return t
	case "join":
		switch {
		case exc:
			return "join:type-error"
		case f[2] == "-":
			return "join:no-input"
		case !strings.Contains(f[2], ","):
			return "join:one"
		}
		return "join:many"
	case "replace":
		max, _ := strconv.Atoi(f[1])
		old, nw, s := u(f[2]), u(f[3]), u(f[4])
		switch {
		case max == 0 || old == nw:
			return "replace:identity"
		case old == "":
			return "replace:empty-old"
		case !strings.Contains(s, old):
			return "replace:absent"
		case max > 0 && max < strings.Count(s, old):
			return "replace:max-limited"
		}
		return "replace:all"
	case "repeat":
		switch {
		case strings.HasPrefix(out, "EXC BV|n|non-negative"):
			return "repeat:negative"
		case strings.HasPrefix(out, "EXC BV|n|small enough for the result"):
			return "repeat:above-cap-rejected"
		case out == "UNCAPPED-NOT-RUN":
			return "repeat:uncapped-not-run"
		case exc:
			return "repeat:overflow-rejected"
		case f[2] == "0" || f[2] == "1" || f[1] == "-":
			return "repeat:trivial-count-or-empty"
		}
		return "repeat:copies"
	case "to-cp", "cp-rt", "to-u8", "u8-rt":
		s := u(f[1])
		switch {
		case s == "":
			return f[0] + ":empty"
		case !utf8.ValidString(s):
			return f[0] + ":invalid-utf8"
		case strings.Contains(s, "�"):
			return f[0] + ":valid-with-U+FFFD"
		case len(s) == utf8.RuneCountInString(s):
			return f[0] + ":ascii"
		}
		return f[0] + ":multibyte"
	case "from-cp", "from-u8":
		switch {
		case strings.HasPrefix(out, "EXC OOR"):
			return f[0] + ":out-of-range"
		case exc && f[0] == "from-cp":
			return "from-cp:surrogate"
		case exc:
			return "from-u8:invalid-sequence"
		case f[1] == "-":
			return f[0] + ":no-args"
		}
		return f[0] + ":ok"
	case "lib":
		return "lib:" + f[1]
	case "quote":
		s := u(f[1])
		switch {
		case !utf8.ValidString(s):
			return "quote:invalid-utf8(not-checked-as-pattern)"
		case out == "OK "+sTok(s):
			return "quote:no-meta"
		}
		return "quote:escaped"
	case "find":
		switch {
		case exc:
			return "find:bad-pattern"
		case out == "OK":
			return "find:no-match"
		}
		t := "find"
		if strings.Contains(out, ",-1,-1]") {
			t += ":unmatched-group"
		} else if strings.Count(strings.SplitN(out, " ", 3)[1], "[") > 1 {
			t += ":groups"
		} else {
			t += ":plain"
		}
		if strings.Contains(out, "m:-,") {
			t += "+empty-match"
		}
		if max, _ := strconv.Atoi(f[2]); max >= 0 && f[6] != "-" && max < len(strings.Split(f[6], ";")) {
			t += "+max-limited"
		}
		if strings.Contains(f[1], "g") {
			t += "+longest"
		}
		return t
	case "resplit":
		switch {
		case exc:
			return "resplit:bad-pattern"
		case f[2] == "0":
			return "resplit:max-zero"
		case f[6] == "-":
			return "resplit:no-match"
		}
		t := "resplit:cuts"
		if strings.HasPrefix(f[6], "0,0") {
			t += "+empty-match-at-0"
		}
		if max, _ := strconv.Atoi(f[2]); max > 0 && max <= len(strings.Split(f[6], ";")) {
			t += "+max-limited"
		}
		return t
	case "rematch":
		if exc {
			return "rematch:bad-pattern"
		}
		return "rematch:" + strings.TrimPrefix(out, "OK b:")
	case "rereplace":
		switch {
		case out == "EXC bad-pattern":
			return "rereplace:bad-pattern"
		case f[3] == "o" || (f[3] == "f" && strings.Contains(f[1], "l")):
			return "rereplace:bad-repl-type"
		case f[7] == "-":
			return "rereplace:no-match"
		case f[3] == "f" && exc:
			return "rereplace:fn-error:" + strings.SplitN(strings.TrimPrefix(out, "EXC "), "|", 2)[0]
		case f[3] == "f":
			return "rereplace:fn"
		case strings.Contains(f[1], "l"):
			return "rereplace:literal"
		}
		return "rereplace:template[" + tmplKinds(u(f[4])) + "]"
	}
	if binOps[f[0]] {
		switch {
		case strings.HasPrefix(out, "OK b:"):
			return f[0] + ":" + out[5:]
		case out == "OK n:-1" || out == "OK n:0":
			return f[0] + ":" + out[5:]
		case strings.HasPrefix(out, "OK n:"):
			return f[0] + ":positive"
		case out == "OK "+sTok(u(f[1])):
			return f[0] + ":unchanged"
		}
		return f[0] + ":trimmed"
	}
	return ""
}
