package c41

import (
	"fmt"
	"math/big"
	"strconv"
	"strings"
	"unicode"
	"unicode/utf8"

	"verifharness/common"
)

// ---- decoding the canonical impl line ------------------------------------------------

type outcome struct {
	kind string   // "OK" | "EXC" | "PANIC" | "TIMEOUT" | "LIB"
	toks []string // OK: value tokens
	exc  string   // EXC: the rest
}

func parseOut(out string) outcome {
	switch {
	case out == "PANIC" || out == "TIMEOUT" || out == "LIB":
		return outcome{kind: out}
	case strings.HasPrefix(out, "EXC "):
		return outcome{kind: "EXC", exc: out[4:]}
	case out == "OK":
		return outcome{kind: "OK"}
	case strings.HasPrefix(out, "OK "):
		return outcome{kind: "OK", toks: strings.Split(out[3:], " ")}
	}
	return outcome{kind: "?"}
}

// strs returns the string values of an OK outcome (ok=false if any token is not a string).
func (o outcome) strs() ([]string, bool) {
	var out []string
	for _, t := range o.toks {
		if !strings.HasPrefix(t, "s:") {
			return nil, false
		}
		out = append(out, common.Unhex(t[2:]))
	}
	return out, true
}

func (o outcome) oneStr() (string, bool) {
	ss, ok := o.strs()
	if !ok || len(ss) != 1 || o.kind != "OK" {
		return "", false
	}
	return ss[0], true
}

// ---- naive reference definitions (independent of the implementation and of the model) ---

func naiveIndex(s, sub string) int {
	for i := 0; i+len(sub) <= len(s); i++ {
		if s[i:i+len(sub)] == sub {
			return i
		}
	}
	return -1
}

func naiveLastIndex(s, sub string) int {
	for i := len(s) - len(sub); i >= 0; i-- {
		if s[i:i+len(sub)] == sub {
			return i
		}
	}
	return -1
}

func runeSet(cutset string) map[rune]bool {
	m := map[rune]bool{}
	for _, r := range cutset {
		m[r] = true
	}
	return m
}

func naiveTrimLeft(s string, set map[rune]bool) string {
	for len(s) > 0 {
		r, n := utf8.DecodeRuneInString(s)
		if !set[r] {
			break
		}
		s = s[n:]
	}
	return s
}

func naiveTrimRight(s string, set map[rune]bool) string {
	for len(s) > 0 {
		r, n := utf8.DecodeLastRuneInString(s)
		if !set[r] {
			break
		}
		s = s[:len(s)-n]
	}
	return s
}

func mapRunes(s string, f func(rune) rune) string {
	var sb strings.Builder
	for _, r := range s {
		sb.WriteRune(f(r))
	}
	return sb.String()
}

func foldEq(a, b rune) bool {
	if a == b {
		return true
	}
	for r := unicode.SimpleFold(a); r != a; r = unicode.SimpleFold(r) {
		if r == b {
			return true
		}
	}
	return false
}

// ---- the oracle ------------------------------------------------------------------------

func fail(class, format string, a ...any) (string, string) {
	return class, fmt.Sprintf(format, a...)
}

func oracle(st *state, f []string, out string) (string, string) {
	u := common.Unhex
	o := parseOut(out)
	if o.kind == "PANIC" || o.kind == "TIMEOUT" {
		if f[0] == "repeat" {
			if hugeRepeat(u(f[1]), f[2]) {
				return fail("repeat-alloc-crash", "str:repeat %q %s (a result that fits in an int but not in memory): %s", u(f[1]), f[2], out)
			}
			return fail("repeat-overflow-crash", "str:repeat %q %s: %s", u(f[1]), f[2], out)
		}
		return fail("crash-"+f[0], "%s", out)
	}
	switch f[0] {
	case "split":
		max, _ := strconv.Atoi(f[1])
		sep, s := u(f[2]), u(f[3])
		parts, ok := o.strs()
		if o.kind != "OK" || !ok {
			return fail("split-error", "unexpected outcome %s", out)
		}
		if max == 0 {
			if len(parts) != 0 {
				return fail("split-max", "max=0 produced %d parts", len(parts))
			}
			return "", ""
		}
		if strings.Join(parts, sep) != s {
			return fail("split-join-roundtrip", "join(split(%q, %q)) = %q", s, sep, strings.Join(parts, sep))
		}
		if max > 0 && len(parts) > max {
			return fail("split-max", "max=%d produced %d parts", max, len(parts))
		}
		for i, p := range parts {
			if i == len(parts)-1 && max > 0 && len(parts) == max {
				continue // the last part may have been cut short by &max
			}
			if sep != "" && naiveIndex(p, sep) >= 0 {
				return fail("split-leftmost", "part %d %q contains the separator %q", i, p, sep)
			}
			if _, n := utf8.DecodeRuneInString(p); sep == "" && (n != len(p) || n == 0) {
				return fail("split-explode", "part %d %q is not one UTF-8 sequence", i, p)
			}
		}
	case "splitjoin":
		max, _ := strconv.Atoi(f[1])
		s := u(f[3])
		got, ok := o.oneStr()
		if !ok {
			return fail("split-error", "unexpected outcome %s", out)
		}
		want := s
		if max == 0 {
			want = ""
		}
		if got != want {
			return fail("split-join-roundtrip", "str:join %q [(str:split &max=%d %q %q)] = %q", u(f[2]), max, u(f[2]), s, got)
		}
	case "join":
		sep := u(f[1])
		var strsIn []string
		bad := ""
		if f[2] != "-" {
			for _, it := range strings.Split(f[2], ",") {
				if it[0] == 's' {
					strsIn = append(strsIn, u(it[1:]))
				} else if bad == "" {
					bad = it[1:]
				}
			}
		}
		if bad != "" {
			if o.kind != "EXC" || !strings.HasPrefix(o.exc, "BV|input to str:join|string|"+bad) {
				return fail("join-type-error", "non-string input of kind %s: %s", bad, out)
			}
			return "", ""
		}
		got, ok := o.oneStr()
		if !ok || got != strings.Join(strsIn, sep) {
			return fail("join-result", "got %s want %q", out, strings.Join(strsIn, sep))
		}
	case "replace":
		max, _ := strconv.Atoi(f[1])
		old, nw, s := u(f[2]), u(f[3]), u(f[4])
		got, ok := o.oneStr()
		if !ok {
			return fail("replace-error", "unexpected outcome %s", out)
		}
		// definition: the first max non-overlapping leftmost occurrences of old are replaced
		var sb strings.Builder
		rest, k := s, 0
		if old != "" {
			for max < 0 || k < max {
				i := naiveIndex(rest, old)
				if i < 0 {
					break
				}
				sb.WriteString(rest[:i] + nw)
				rest = rest[i+len(old):]
				k++
			}
			sb.WriteString(rest)
		} else {
			// empty old: new is inserted before every UTF-8 sequence and at the end, up to max times
			for max < 0 || k < max {
				sb.WriteString(nw)
				k++
				if rest == "" {
					break
				}
				_, n := utf8.DecodeRuneInString(rest)
				sb.WriteString(rest[:n])
				rest = rest[n:]
			}
			sb.WriteString(rest)
		}
		if got != sb.String() {
			return fail("replace-result", "str:replace &max=%d %q %q %q = %q want %q", max, old, nw, s, got, sb.String())
		}
	case "repeat":
		s := u(f[1])
		n, _ := new(big.Int).SetString(f[2], 10)
		prod := new(big.Int).Mul(big.NewInt(int64(len(s))), n)
		switch {
		case n.Sign() < 0:
			if o.kind != "EXC" || !strings.HasPrefix(o.exc, "BV|n|") {
				return fail("repeat-negative", "n=%s: %s", f[2], out)
			}
		case out == "UNCAPPED-NOT-RUN":
			return fail("repeat-alloc-crash", "str:repeat has no result-size cap (str:repeat '~' 9223372036854775807 does not end in the bad-value error); %q × %s was not run", s, f[2])
		case prod.Cmp(big.NewInt(9223372036854775807)) > 0:
			if o.kind != "EXC" || !strings.HasPrefix(o.exc, "BV|n|") {
				return fail("repeat-overflow-crash", "len·n = %s overflows: %s", prod, out)
			}
		case prod.Cmp(big.NewInt(2147483647)) > 0:
			if o.kind != "EXC" || !strings.HasPrefix(o.exc, "BV|n|small enough for the result not to exceed 2147483647 bytes|") {
				return fail("repeat-cap", "len·n = %s exceeds the documented maximum: %s", prod, out)
			}
		default:
			got, ok := o.oneStr()
			if !ok || int64(len(got)) != prod.Int64() {
				return fail("repeat-length", "str:repeat %q %s: %.80s", s, f[2], out)
			}
			for i := 0; i < len(got); i += len(s) {
				if got[i:i+len(s)] != s {
					return fail("repeat-content", "copy at %d differs", i)
				}
			}
		}
	case "to-cp":
		s := u(f[1])
		got, ok := o.strs()
		want := []rune(s)
		if o.kind != "OK" || !ok || len(got) != len(want) {
			return fail("to-codepoints", "%s", out)
		}
		for i, g := range got {
			v, err := strconv.ParseInt(g, 0, 64)
			if err != nil || rune(v) != want[i] {
				return fail("to-codepoints", "output %d = %q want %#x", i, g, want[i])
			}
		}
	case "cp-rt":
		s := u(f[1])
		got, ok := o.oneStr()
		if len(s) == 0 { // no arguments: from-codepoints outputs ""
			if !ok || got != "" {
				return fail("codepoints-roundtrip", "empty string: %s", out)
			}
			return "", ""
		}
		if !ok {
			return fail("codepoints-roundtrip", "%q: %s", s, out)
		}
		if utf8.ValidString(s) && got != s {
			return fail("codepoints-roundtrip", "valid UTF-8 %q came back as %q", s, got)
		}
		if got != string([]rune(s)) {
			return fail("codepoints-roundtrip", "%q came back as %q", s, got)
		}
	case "from-cp":
		ns := ints(f[1])
		want := ""
		for _, n := range ns {
			if n < 0 || n > 0x10ffff {
				if o.kind != "EXC" || !strings.HasPrefix(o.exc, "OOR|codepoint|0|1114111|") {
					return fail("from-codepoints-range", "%d: %s", n, out)
				}
				return "", ""
			}
			if n >= 0xd800 && n <= 0xdfff {
				if o.kind != "EXC" || !strings.HasPrefix(o.exc, "BV|argument to str:from-codepoints|valid Unicode codepoint|") {
					return fail("from-codepoints-surrogate", "%#x: %s", n, out)
				}
				return "", ""
			}
			want += string(rune(n))
		}
		if got, ok := o.oneStr(); !ok || got != want {
			return fail("from-codepoints", "%v: %s want %q", ns, out, want)
		}
	case "to-u8":
		s := u(f[1])
		got, ok := o.strs()
		if o.kind != "OK" || !ok || len(got) != len(s) {
			return fail("to-utf8-bytes", "%s", out)
		}
		for i, g := range got {
			v, err := strconv.ParseInt(g, 0, 64)
			if err != nil || v != int64(s[i]) {
				return fail("to-utf8-bytes", "output %d = %q want %#x", i, g, s[i])
			}
		}
	case "u8-rt":
		s := u(f[1])
		if utf8.ValidString(s) {
			if got, ok := o.oneStr(); !ok || got != s {
				return fail("utf8-bytes-roundtrip", "valid UTF-8 %q: %s", s, out)
			}
		} else if o.kind != "EXC" || !strings.HasPrefix(o.exc, "BV|arguments to str:from-utf8-bytes|valid UTF-8 sequence|") {
			return fail("utf8-bytes-validity", "invalid UTF-8 %q accepted: %s", s, out)
		}
	case "from-u8":
		ns := ints(f[1])
		var bs []byte
		for _, n := range ns {
			if n < 0 || n > 255 {
				if o.kind != "EXC" || o.exc != "OOR|byte|0|255|"+strconv.Itoa(n) {
					return fail("from-utf8-bytes-range", "%d: %s", n, out)
				}
				return "", ""
			}
			bs = append(bs, byte(n))
		}
		if utf8.Valid(bs) {
			if got, ok := o.oneStr(); !ok || got != string(bs) {
				return fail("from-utf8-bytes", "%v: %s", ns, out)
			}
		} else if o.kind != "EXC" || !strings.HasPrefix(o.exc, "BV|arguments to str:from-utf8-bytes|") {
			return fail("utf8-bytes-validity", "invalid sequence %v accepted: %s", ns, out)
		}
	case "lib":
		return oracleLib(st, f)
	case "quote", "find", "resplit", "rematch", "rereplace", "awk":
		return oracleRe(f, o, out)
	case "reset":
		return "", ""
	default:
		if binOps[f[0]] {
			return oracleBin(f, o, out)
		}
	}
	return "", ""
}

func oracleBin(f []string, o outcome, out string) (string, string) {
	a, b := common.Unhex(f[1]), common.Unhex(f[2])
	want := ""
	switch f[0] {
	case "index":
		want = "n:" + strconv.Itoa(naiveIndex(a, b))
	case "last-index":
		want = "n:" + strconv.Itoa(naiveLastIndex(a, b))
	case "contains":
		want = "b:" + strconv.FormatBool(naiveIndex(a, b) >= 0)
	case "has-prefix":
		want = "b:" + strconv.FormatBool(len(a) >= len(b) && a[:len(b)] == b)
	case "has-suffix":
		want = "b:" + strconv.FormatBool(len(a) >= len(b) && a[len(a)-len(b):] == b)
	case "trim-prefix":
		if len(a) >= len(b) && a[:len(b)] == b {
			a = a[len(b):]
		}
		want = sTok(a)
	case "trim-suffix":
		if len(a) >= len(b) && a[len(a)-len(b):] == b {
			a = a[:len(a)-len(b)]
		}
		want = sTok(a)
	case "count":
		n := 0
		if b == "" {
			n = utf8.RuneCountInString(a) + 1
		} else {
			for rest := a; ; n++ {
				i := naiveIndex(rest, b)
				if i < 0 {
					break
				}
				rest = rest[i+len(b):]
			}
		}
		want = "n:" + strconv.Itoa(n)
	case "trim":
		want = sTok(naiveTrimLeft(naiveTrimRight(a, runeSet(b)), runeSet(b)))
	case "trim-left":
		want = sTok(naiveTrimLeft(a, runeSet(b)))
	case "trim-right":
		want = sTok(naiveTrimRight(a, runeSet(b)))
	case "compare":
		c := 0
		for i := 0; ; i++ {
			if i == len(a) || i == len(b) {
				if len(a) < len(b) {
					c = -1
				} else if len(a) > len(b) {
					c = 1
				}
				break
			}
			if a[i] != b[i] {
				c = 1
				if a[i] < b[i] {
					c = -1
				}
				break
			}
		}
		want = "n:" + strconv.Itoa(c)
	}
	if out != "OK "+want {
		return fail(f[0]+"-definition", "str:%s %q %q: %s want %s", f[0], a, b, out, want)
	}
	return "", ""
}

// oracleLib: laws that are properties of Go's strings/unicode packages (the builtins are plain
// re-exports): evaluated on the real builtin through the Evaler, against the rune-wise Unicode
// definitions.  Sampled only (C41 is partial in this respect).
func oracleLib(st *state, f []string) (string, string) {
	u := common.Unhex
	s := u(f[2])
	one := func(code string, vars map[string]any) (string, bool) {
		return parseOut(st.evalLine(code, vars)).oneStr()
	}
	switch f[1] {
	case "to-upper", "to-lower", "to-title":
		fn := map[string]func(rune) rune{"to-upper": unicode.ToUpper, "to-lower": unicode.ToLower, "to-title": unicode.ToTitle}[f[1]]
		got, ok := one("str:"+f[1]+" $s", map[string]any{"s": s})
		if want := mapRunes(s, fn); !ok || got != want {
			return fail("case-mapping", "str:%s %q = %q want %q", f[1], s, got, want)
		}
	case "trim-space":
		got, ok := one("str:trim-space $s", map[string]any{"s": s})
		want := s
		for len(want) > 0 {
			r, n := utf8.DecodeRuneInString(want)
			if !unicode.IsSpace(r) {
				break
			}
			want = want[n:]
		}
		for len(want) > 0 {
			r, n := utf8.DecodeLastRuneInString(want)
			if !unicode.IsSpace(r) {
				break
			}
			want = want[:len(want)-n]
		}
		if !ok || got != want {
			return fail("trim-space", "str:trim-space %q = %q want %q", s, got, want)
		}
	case "fields":
		got, ok := parseOut(st.evalLine("str:fields $s", map[string]any{"s": s})).strs()
		var want []string
		cur := ""
		for i := 0; i < len(s); {
			r, n := utf8.DecodeRuneInString(s[i:])
			if unicode.IsSpace(r) {
				if cur != "" {
					want = append(want, cur)
				}
				cur = ""
			} else {
				cur += s[i : i+n]
			}
			i += n
		}
		if cur != "" {
			want = append(want, cur)
		}
		if !ok || strings.Join(got, "\x00") != strings.Join(want, "\x00") || len(got) != len(want) {
			return fail("fields", "str:fields %q = %q want %q", s, got, want)
		}
	case "equal-fold":
		t := u(f[3])
		out := st.evalLine("str:equal-fold $s $t", map[string]any{"s": s, "t": t})
		rs, rt := []rune(s), []rune(t)
		want := len(rs) == len(rt)
		for i := 0; want && i < len(rs); i++ {
			want = foldEq(rs[i], rt[i])
		}
		if out != "OK b:"+strconv.FormatBool(want) {
			return fail("equal-fold", "str:equal-fold %q %q: %s want %v", s, t, out, want)
		}
	}
	return "", ""
}
