// Package c41: correspondence and oracle for C41 (str: and re: builtins),
// through a real in-process Evaler.
//
// Op lines (tab separated; byte strings hex, "-" = empty):
//
//	split <max> <sep> <s>            str:split &max=<max> $sep $s
//	join <sep> <items>               str:join $sep $items      items: s<hex> | k<kind>, comma separated
//	splitjoin <max> <sep> <s>        str:join $sep [(str:split &max=<max> $sep $s)]
//	replace <max> <old> <new> <s>    str:replace &max=<max> $old $new $s
//	repeat <s> <n>                   str:repeat $s <n>
//	to-cp <s> | from-cp <ints> | cp-rt <s>      to-/from-codepoints and their composition
//	to-u8 <s> | from-u8 <ints> | u8-rt <s>      to-/from-utf8-bytes and their composition
//	index|last-index|has-prefix|has-suffix|trim-prefix|trim-suffix|contains|count|
//	trim|trim-left|trim-right|compare <a> <b>
//	lib <fn> <args…>                 library laws checked by the oracle only (impl line "LIB")
//	quote <s>                        re:quote $s
//	find <flags> <max> <pat> <src> <patok> <matches>
//	resplit <flags> <max> <pat> <src> <patok> <matches>
//	rematch <flags> <pat> <src> <patok> <matches>
//	rereplace <flags> <pat> <kind> <repl> <src> <patok> <matches> <names> <nameRunes>
//
//	awk <flags> <sep> <cb> <items> <patok> <matchlists>
//	                                 re:awk &sep=$sep (&sep-posix/&sep-longest from flags p/g) <callback cb> $items;
//	                                 items: s<hex> | k<kind> separated by "|"; matchlists: for every string item
//	                                 the separator's matches on strings.Trim(item, " \t"), separated by "|"
//	reset [hist]                     a fresh Evaler (start of a history; "hist" marks a history-independence group)
//
// The property is stateful only in this sense: ONE Evaler (and one process) runs all
// ops between two resets, so anything an op leaves behind (a pattern cache, a mutated
// shared *Regexp) is visible to the later ones, while the model side of every op is a
// function of its op line alone (C41_driver_history_independent).
//
// <matches> is Go's own FindAllSubmatchIndex(src, -1) for the pattern compiled
// with the same flags (p = posix, g = longest, l = literal, "_" = none): the
// abstract engine of the Lean model is instantiated by replaying it.
package c41

import (
	"fmt"
	"math/big"
	"regexp"
	"regexp/syntax"
	"strconv"
	"strings"
	"unicode"

	"src.elv.sh/pkg/eval"
	"src.elv.sh/pkg/eval/errs"
	"src.elv.sh/pkg/eval/vals"
	"verifharness/common"
	"verifharness/evalutil"
)

func init() { common.Register("C41", run) }

type state struct {
	ev *eval.Evaler
	// capPresent: str:repeat rejects results above its documented maximum (fixes/C41-repeat-size-cap.patch).
	// Without the cap, ops asking for a huge (non-overflowing) result are NOT run: they would allocate it.
	capPresent bool
}

func newEvaler() *eval.Evaler {
	ev := evalutil.NewEvaler()
	if r := evalutil.Eval(ev, "use str; use re", nil); r.Err != nil {
		panic(r.Err)
	}
	return ev
}

// probeCap runs the one huge str:repeat that cannot allocate anything on any platform
// (makeslice panics before touching memory) and looks at how it ends.
func probeCap(ev *eval.Evaler) (present bool) {
	defer func() {
		if recover() != nil {
			present = false
		}
	}()
	r := evalutil.Eval(ev, "str:repeat '~' 9223372036854775807", nil)
	return r.Err != nil && strings.HasPrefix(fmtErr(r.Err), "EXC BV|n|small enough for the result")
}

func run(c *common.Ctx) error {
	s := &common.Std{
		Rule: "random byte strings over an alphabet of ASCII, 2/3/4-byte UTF-8 sequences, U+FFFD and invalid bytes; separators, " +
			"cutsets, counts (incl. negative, zero, larger than the number of pieces, and products around 2^63/2^64 for repeat), code point " +
			"and byte lists around every range boundary, patterns from a small regex grammar (literals, classes, groups, optional groups, " +
			"alternations where leftmost-first ≠ leftmost-longest, empty matches, anchors, named groups, invalid patterns) × posix/longest, " +
			"replacement templates ($n, ${n}, $name, $$, malformed; random pieces and normal token lists rendered by the grammar) and " +
			"replacement functions (ok, wrong arity, wrong type, failing); re:awk (separators × posix/longest, non-string inputs, callbacks that " +
			"continue/break/fail); history groups (one pattern used by find/split/match/replace/awk with and without &longest/&posix in both " +
			"orders on one Evaler, a fresh Evaler at every reset); " +
			"every op evaluated by a real eval.Evaler; non-trivial = tag non-empty; distinct by op line",
		NewState: func(c *common.Ctx) any {
			st := &state{ev: newEvaler()}
			st.capPresent = probeCap(st.ev)
			return st
		},
		Gen:      gen,
		Impl:     func(st any, f []string) string { return impl(st.(*state), f) },
		Oracle:   func(st any, f []string, out string) (string, string) { return oracle(st.(*state), f, out) },
		Tag:      tag,
	}
	return s.Run(c)
}

// ---- canonical printing -----------------------------------------------------------

func sTok(s string) string { return "s:" + common.Hex(s) }

func fmtVal(v any) string {
	switch v := v.(type) {
	case string:
		return sTok(v)
	case int:
		return "n:" + strconv.Itoa(v)
	case bool:
		if v {
			return "b:true"
		}
		return "b:false"
	}
	if vals.IsFieldMap(v) { // re.matchStruct
		text, _ := vals.Index(v, "text")
		start, _ := vals.Index(v, "start")
		end, _ := vals.Index(v, "end")
		groups, err := vals.Index(v, "groups")
		var sb strings.Builder
		fmt.Fprintf(&sb, "m:%s,%v,%v", common.Hex(text.(string)), start, end)
		if err == nil {
			_ = vals.Iterate(groups, func(g any) bool {
				t, _ := vals.Index(g, "text")
				s, _ := vals.Index(g, "start")
				e, _ := vals.Index(g, "end")
				fmt.Fprintf(&sb, "[%s,%v,%v]", common.Hex(t.(string)), s, e)
				return true
			})
		}
		return sb.String()
	}
	return "?" + vals.Kind(v)
}

func fmtErr(err error) string {
	for {
		var next error
		if exc, ok := err.(eval.Exception); ok {
			next = exc.Reason()
		}
		if next == nil || next == err {
			break
		}
		err = next
	}
	switch e := err.(type) {
	case errs.BadValue:
		return "EXC BV|" + e.What + "|" + e.Valid + "|" + e.Actual
	case *errs.BadValue:
		return "EXC BV|" + e.What + "|" + e.Valid + "|" + e.Actual
	case errs.OutOfRange:
		return "EXC OOR|" + e.What + "|" + e.ValidLow + "|" + e.ValidHigh + "|" + e.Actual
	case errs.ArityMismatch:
		return fmt.Sprintf("EXC AM|%s|%d|%d|%d", e.What, e.ValidLow, e.ValidHigh, e.Actual)
	case *errs.ArityMismatch:
		return fmt.Sprintf("EXC AM|%s|%d|%d|%d", e.What, e.ValidLow, e.ValidHigh, e.Actual)
	case *syntax.Error:
		return "EXC bad-pattern"
	case eval.FailError:
		return "EXC fail"
	}
	return "EXC other:" + strings.ReplaceAll(err.Error(), "\t", " ")
}

func (st *state) evalLine(code string, vars map[string]any) string {
	evalutil.SetVars(st.ev, vars)
	r := evalutil.Eval(st.ev, code, nil)
	if r.Err != nil {
		return fmtErr(r.Err)
	}
	toks := []string{"OK"}
	for _, v := range r.Values {
		toks = append(toks, fmtVal(v))
	}
	return strings.Join(toks, " ")
}

// ---- op decoding --------------------------------------------------------------------

func ints(s string) []int {
	if s == "-" {
		return nil
	}
	var out []int
	for _, p := range strings.Split(s, ",") {
		n, err := strconv.Atoi(p)
		if err != nil {
			panic("bad int " + p)
		}
		out = append(out, n)
	}
	return out
}

func intsField(ns []int) string {
	if len(ns) == 0 {
		return "-"
	}
	ps := make([]string, len(ns))
	for i, n := range ns {
		ps[i] = strconv.Itoa(n)
	}
	return strings.Join(ps, ",")
}

func decodeItems(s string) []any {
	var out []any
	if s == "-" {
		return out
	}
	for _, it := range strings.Split(s, ",") {
		if it[0] == 's' {
			out = append(out, common.Unhex(it[1:]))
			continue
		}
		switch it[1:] {
		case "number":
			out = append(out, 7)
		case "list":
			out = append(out, vals.MakeList("x"))
		case "map":
			out = append(out, vals.EmptyMap)
		case "bool":
			out = append(out, true)
		case "nil":
			out = append(out, nil)
		default:
			panic("bad kind " + it)
		}
	}
	return out
}

func argList(f string) string {
	if f == "-" {
		return ""
	}
	return strings.ReplaceAll(f, ",", " ")
}

func flagOpts(flags string) string {
	o := ""
	if strings.Contains(flags, "p") {
		o += " &posix"
	}
	if strings.Contains(flags, "g") {
		o += " &longest"
	}
	if strings.Contains(flags, "l") {
		o += " &literal"
	}
	return o
}

var replFns = map[string]string{
	"wrap":  "{|x| put '<'$x'>' }",
	"two":   "{|x| put a b }",
	"none":  "{|x| nop }",
	"list":  "{|x| put [x] }",
	"num":   "{|x| put (num 1) }",
	"failb": "{|x| if (eq $x b) { fail boom } else { put $x } }",
	"fail":  "{|x| fail boom }",
}

var otherRepl = map[string]string{"list": "[a]", "number": "(num 1)", "bool": "$true", "map": "[&]"}

var binOps = map[string]bool{"index": true, "last-index": true, "has-prefix": true, "has-suffix": true,
	"trim-prefix": true, "trim-suffix": true, "contains": true, "count": true, "trim": true,
	"trim-left": true, "trim-right": true, "compare": true}

func impl(st *state, f []string) string {
	u := common.Unhex
	switch f[0] {
	case "split":
		return st.evalLine("str:split &max="+f[1]+" $sep $s", map[string]any{"sep": u(f[2]), "s": u(f[3])})
	case "join":
		return st.evalLine("str:join $sep $items", map[string]any{"sep": u(f[1]), "items": vals.MakeList(decodeItems(f[2])...)})
	case "splitjoin":
		return st.evalLine("str:join $sep [(str:split &max="+f[1]+" $sep $s)]", map[string]any{"sep": u(f[2]), "s": u(f[3])})
	case "replace":
		return st.evalLine("str:replace &max="+f[1]+" $old $new $s", map[string]any{"old": u(f[2]), "new": u(f[3]), "s": u(f[4])})
	case "reset":
		st.ev = newEvaler()
		return "RESET"
	case "repeat":
		if !st.capPresent && hugeRepeat(u(f[1]), f[2]) {
			return "UNCAPPED-NOT-RUN"
		}
		return st.evalLine("str:repeat $s "+f[2], map[string]any{"s": u(f[1])})
	case "awk":
		return st.evalAwk(f)
	case "to-cp":
		return st.evalLine("str:to-codepoints $s", map[string]any{"s": u(f[1])})
	case "from-cp":
		return st.evalLine("str:from-codepoints "+argList(f[1]), nil)
	case "cp-rt":
		return st.evalLine("str:from-codepoints (str:to-codepoints $s)", map[string]any{"s": u(f[1])})
	case "to-u8":
		return st.evalLine("str:to-utf8-bytes $s", map[string]any{"s": u(f[1])})
	case "from-u8":
		return st.evalLine("str:from-utf8-bytes "+argList(f[1]), nil)
	case "u8-rt":
		return st.evalLine("str:from-utf8-bytes (str:to-utf8-bytes $s)", map[string]any{"s": u(f[1])})
	case "lib":
		return "LIB"
	case "quote":
		return st.evalLine("re:quote $s", map[string]any{"s": u(f[1])})
	case "find":
		return st.evalLine("re:find"+flagOpts(f[1])+" &max="+f[2]+" $pat $src", map[string]any{"pat": u(f[3]), "src": u(f[4])})
	case "resplit":
		return st.evalLine("re:split"+flagOpts(f[1])+" &max="+f[2]+" $pat $src", map[string]any{"pat": u(f[3]), "src": u(f[4])})
	case "rematch":
		o := ""
		if strings.Contains(f[1], "p") {
			o = " &posix"
		}
		return st.evalLine("re:match"+o+" $pat $src", map[string]any{"pat": u(f[2]), "src": u(f[3])})
	case "rereplace":
		vars := map[string]any{"pat": u(f[2]), "src": u(f[5])}
		var repl string
		switch f[3] {
		case "s":
			vars["repl"] = u(f[4])
			repl = "$repl"
		case "f":
			repl = replFns[f[4]]
		case "o":
			repl = otherRepl[f[4]]
		}
		return st.evalLine("re:replace"+flagOpts(f[1])+" $pat "+repl+" $src", vars)
	}
	if binOps[f[0]] {
		return st.evalLine("str:"+f[0]+" $a $b", map[string]any{"a": u(f[1]), "b": u(f[2])})
	}
	return "bad-op"
}

// hugeRepeat: would str:repeat, without a result-size cap, try to allocate more than 10^6 bytes?
func hugeRepeat(s, n string) bool {
	k, ok := new(big.Int).SetString(n, 10)
	if !ok || k.Sign() < 0 {
		return false
	}
	prod := new(big.Int).Mul(big.NewInt(int64(len(s))), k)
	return prod.Cmp(big.NewInt(1000000)) > 0 && prod.Cmp(big.NewInt(9223372036854775807)) <= 0
}

var awkCbs = map[string]string{
	"put":  "{|@a| put $a }",
	"cont": "{|@a| put $a; continue }",
	"mix":  "{|@a| put $a; if (> (count $a) 1) { if (eq $a[1] x) { break } elif (eq $a[1] c) { fail boom } elif (eq $a[1] a) { continue } } }",
	"fail": "{|@a| put $a; fail boom }",
}

func decodeAwkItems(s string) []any {
	var out []any
	if s == "-" {
		return out
	}
	for _, it := range strings.Split(s, "|") {
		if it[0] == 's' {
			out = append(out, common.Unhex(it[1:]))
		} else {
			out = append(out, decodeItems(it)[0])
		}
	}
	return out
}

// evalAwk prints "AWK c:<args,…> … OK|EXC <err>": the argument list of every callback
// invocation (the callback puts it) and how re:awk ended.
func (st *state) evalAwk(f []string) string {
	o := ""
	if strings.Contains(f[1], "p") {
		o += " &sep-posix"
	}
	if strings.Contains(f[1], "g") {
		o += " &sep-longest"
	}
	evalutil.SetVars(st.ev, map[string]any{"sep": common.Unhex(f[2]), "items": vals.MakeList(decodeAwkItems(f[4])...)})
	r := evalutil.Eval(st.ev, "re:awk &sep=$sep"+o+" "+awkCbs[f[3]]+" $items", nil)
	if r.Err != nil && fmtErr(r.Err) == "EXC bad-pattern" && len(r.Values) == 0 {
		return "EXC bad-pattern"
	}
	toks := []string{"AWK"}
	for _, v := range r.Values {
		var args []string
		if err := vals.Iterate(v, func(x any) bool {
			if s, ok := x.(string); ok {
				args = append(args, common.Hex(s))
			} else {
				args = append(args, "?"+vals.Kind(x))
			}
			return true
		}); err != nil {
			args = append(args, "?"+vals.Kind(v))
		}
		toks = append(toks, "c:"+strings.Join(args, ","))
	}
	if r.Err != nil {
		return strings.Join(toks, " ") + " " + fmtErr(r.Err)
	}
	return strings.Join(toks, " ") + " OK"
}

// negative literal numbers as arguments start with "-": elvish reads "-3" as the string -3,
// which ScanToGo converts to the int -3 (no option parsing for "-3"); fine.

// ---- generation ----------------------------------------------------------------------

var alphabet = []string{"a", "a", "b", "b", "c", ",", ",", ".", " ", "ab", "é", "世", "😀", "\xff", "\xc3", "\x80", "\xef\xbf\xbd", "\xe4\xb8", "A", "1"}

func randStr(r *common.Rand, maxLen int, alpha []string) string {
	var sb strings.Builder
	for k := r.Range(0, maxLen); k > 0; k-- {
		sb.WriteString(common.Pick(r, alpha))
	}
	return sb.String()
}

func randSub(r *common.Rand, s string) string {
	// a substring of s (so that it occurs), or a random short string
	if len(s) > 0 && r.Chance(2, 3) {
		i := r.Range(0, len(s))
		j := r.Range(i, min(len(s), i+3))
		return s[i:j]
	}
	return randStr(r, 2, alphabet)
}

func randMax(r *common.Rand) int {
	switch r.Intn(6) {
	case 0:
		return -1
	case 1:
		return 0
	case 2:
		return 1
	case 3:
		return r.Range(2, 4)
	case 4:
		return r.Range(5, 40)
	}
	return common.Pick(r, []int{-1, -7, 1 << 40, 9223372036854775807, -9223372036854775808})
}

var atoms = []string{"a", "b", "c", ".", "[ab]", "[^a]", "é", `\.`, "(a|b)", "(a)|b", "(x)?", "a*", "a+", "b?", "^", "$",
	`\b`, "(?P<n>a+)", "(?P<w>b)?", "x*", "(|a)", "a|ab", "ab|a", "(a)(b)?", "(a*)(b*)", ",", " +", "世", "(a|ab)(c|bcd)", `\d`, "[[:alpha:]]", "()"}

var badPatterns = []string{"(", "[a", "a**", `\`, ")", "(?P<n>a", "a{2,1}", "\xff", "(?P<n>a)(?P<n>b)"}

func randPattern(r *common.Rand) string {
	if r.Chance(1, 14) {
		return common.Pick(r, badPatterns)
	}
	if r.Chance(1, 25) {
		return ""
	}
	var sb strings.Builder
	for k := r.Range(1, 3); k > 0; k-- {
		sb.WriteString(common.Pick(r, atoms))
	}
	return sb.String()
}

var srcAlphabet = []string{"a", "a", "a", "b", "b", "c", "x", ",", " ", ".", "é", "世", "\xff", "1", "d"}

var templPieces = []string{"$1", "${1}", "$2", "${2}", "$n", "${n}", "${w}", "$$", "$", "x", "${1x}", "$1x", "${", "${1", "$é", "$0",
	"${0}", "$01", "$10", "$123456789", "€", "_", "é", "-", "${n}n", "$n_", "$世", "${}", "\xff", "$3"}

func compileLike(pat, flags string) (*regexp.Regexp, error) {
	var re *regexp.Regexp
	var err error
	if strings.Contains(flags, "p") {
		re, err = regexp.CompilePOSIX(pat)
	} else {
		re, err = regexp.Compile(pat)
	}
	if err == nil && strings.Contains(flags, "g") {
		re.Longest()
	}
	return re, err
}

func matchesField(ms [][]int) string {
	if len(ms) == 0 {
		return "-"
	}
	ps := make([]string, len(ms))
	for i, m := range ms {
		ps[i] = intsField(m)
	}
	return strings.Join(ps, ";")
}

// engineFields returns patok, the full match list, the group names and the name runes of a template.
func engineFields(pat, flags, src string) (patok, matches, names string) {
	re, err := compileLike(pat, flags)
	if err != nil {
		return "0", "-", "-"
	}
	ns := re.SubexpNames()
	hs := make([]string, len(ns))
	for i, n := range ns {
		hs[i] = common.Hex(n)
	}
	return "1", matchesField(re.FindAllSubmatchIndex([]byte(src), -1)), strings.Join(hs, ",")
}

func nameRunes(t string) string {
	seen := map[rune]bool{}
	var out []int
	for _, r := range t {
		if (unicode.IsLetter(r) || unicode.IsDigit(r)) && !seen[r] {
			seen[r] = true
			out = append(out, int(r))
		}
	}
	return intsField(out)
}

func randFlags(r *common.Rand, literalToo bool) string {
	fl := ""
	if r.Chance(1, 4) {
		fl += "p"
	}
	if r.Chance(1, 3) {
		fl += "g"
	}
	if literalToo && r.Chance(1, 4) {
		fl += "l"
	}
	if fl == "" {
		fl = "_"
	}
	return fl
}

// ---- templates from the grammar ------------------------------------------------------------
//
// A template is a list of tokens (lean/ElvModel/C41/Template.lean): text without "$", "$$", a raw
// "$", "$name", "${name}".  genTemplate builds a NORMAL list (NormalToks) by construction and
// renders it; C41_re_replace_template_grammar says what re:replace must do with it.

var tmplNames = []string{"1", "2", "3", "0", "10", "01", "n", "w", "1x", "n_", "é1", "_", "123456789", "1234567890", "世", "9"}

// texts that may follow anything (they start with a byte that is no name rune, not "{" and not "$")
var tmplTexts = []string{"-", " ", "-x", "<", ">", ".1", "}", "-é", "\xff", "-{n}"}

// texts that start with a name rune or "{" (only after "$$", "${name}" or at the start)
var tmplNameTexts = []string{"x", "1", "n", "é", "_", "{", "{1}", "x-"}

func genTemplate(r *common.Rand) string {
	var sb strings.Builder
	prev := "start" // start | lit | dollar | raw | ref | bref
	for k := r.Range(1, 5); k > 0; k-- {
		switch choice := r.Intn(10); {
		case choice < 3 && prev != "lit": // text
			if (prev == "start" || prev == "dollar" || prev == "bref") && r.Chance(1, 2) {
				sb.WriteString(common.Pick(r, tmplNameTexts))
			} else {
				sb.WriteString(common.Pick(r, tmplTexts))
			}
			prev = "lit"
		case choice < 4 && prev != "raw":
			sb.WriteString("$$")
			prev = "dollar"
		case choice < 5 && prev != "raw": // raw "$": must be followed by a text of tmplTexts or the end
			sb.WriteString("$")
			if k > 1 {
				sb.WriteString(common.Pick(r, []string{"-", " ", "}", "<"}))
				k--
				prev = "lit"
			} else {
				prev = "raw"
			}
		case choice < 8 && prev != "raw":
			sb.WriteString("${" + common.Pick(r, tmplNames) + "}")
			prev = "bref"
		case prev != "raw": // "$name": the next token must not continue the name
			sb.WriteString("$" + common.Pick(r, tmplNames))
			if k > 1 && r.Chance(1, 2) {
				sb.WriteString(common.Pick(r, []string{"-", " ", "}", "<", ".1"}))
				k--
				prev = "lit"
			} else {
				prev = "ref"
			}
			// after "ref" only "$…" tokens or a tmplTexts text follow: enforced by the prev checks above
			if prev == "ref" && k > 1 {
				sb.WriteString(common.Pick(r, []string{"$$", "${1}", "${n}", "-"}))
				k--
				prev = "bref"
			}
		}
	}
	return sb.String()
}

// ---- re:awk ------------------------------------------------------------------------------------

var awkSeps = []string{"[ \t]+", " ", " +", ",", "", "a|ab", "(a|ab)(c|bcd)", "x*", ", *", "[", "\\s+", "b?", "q(r|rs)"}

var awkLineAlphabet = []string{"a", "b", "c", "x", " ", " ", "\t", ",", "ab", "abcd", "qrs", "é", "\xff", "y"}

// awkFields returns patok and, for every string item, the separator's matches on the trimmed item.
func awkFields(sep, flags string, items []string) (patok, mss string) {
	re, err := compileLike(sep, flags)
	if err != nil {
		return "0", "-"
	}
	var ps []string
	for _, it := range items {
		if it[0] != 's' {
			continue
		}
		t := strings.Trim(common.Unhex(it[1:]), " \t")
		ps = append(ps, matchesField(re.FindAllSubmatchIndex([]byte(t), -1)))
	}
	if len(ps) == 0 {
		return "1", "-"
	}
	return "1", strings.Join(ps, "|")
}

func genAwk(r *common.Rand, sep, flags string) []string {
	var items []string
	for k := r.Range(0, 5); k > 0; k-- {
		switch {
		case r.Chance(1, 12):
			items = append(items, "k"+common.Pick(r, []string{"number", "list", "map", "bool", "nil"}))
		case r.Chance(1, 8):
			items = append(items, "s"+common.Hex(common.Pick(r, []string{"", " ", "\t ", "a", "x y", " c d", "a  b "})))
		default:
			items = append(items, "s"+common.Hex(randStr(r, 7, awkLineAlphabet)))
		}
	}
	itf := "-"
	if len(items) > 0 {
		itf = strings.Join(items, "|")
	}
	ok, mss := awkFields(sep, flags, items)
	return []string{"awk", flags, common.Hex(sep), common.Pick(r, []string{"put", "put", "mix", "mix", "mix", "cont", "fail"}), itf, ok, mss}
}

// ---- history groups ----------------------------------------------------------------------------

// patterns whose matches depend on the flags (leftmost-first ≠ leftmost-longest, POSIX ≠ Perl)
var histPats = []string{"a|ab", "(a|ab)(c|bcd)", "q(r|rs)", "(a+?)(b*)", "a*?", "x*|xy", "(|a)b?", "a+?", "(a|ab)(b*)", "[ \t]+|,"}

var histAlphabet = []string{"a", "b", "c", "d", "ab", "abcd", "qrs", "q", "x", "xy", " ", ",", "é"}

func gen(c *common.Ctx, emit0 func(...string)) {
	// one Evaler runs everything between two resets; a reset at least every 100 ops keeps replays short
	sinceReset := 0
	emit := func(fields ...string) {
		if sinceReset == 0 {
			emit0("reset")
		}
		sinceReset = (sinceReset + 1) % 100
		emit0(fields...)
	}
	r := c.Rand
	h := common.Hex
	it := strconv.Itoa
	// ---- str:split / join / replace -----------------------------------------------
	n := c.Scale(2500, 60000)
	for i := 0; i < n; i++ {
		s := randStr(r, 12, alphabet)
		sep := randSub(r, s)
		if r.Chance(1, 5) {
			sep = ""
		}
		max := randMax(r)
		emit("split", it(max), h(sep), h(s))
		emit("splitjoin", it(max), h(sep), h(s))
		if i%2 == 0 {
			emit("replace", it(randMax(r)), h(sep), h(randStr(r, 2, alphabet)), h(s))
		}
	}
	// exhaustive small: every s of ≤ 4 symbols over {a , é \xff} × sep ∈ {"", ",", "a", ",a", "\xff"} × max ∈ {-1,0,1,2,3}
	syms := []string{"a", ",", "é", "\xff"}
	var rec func(prefix string, k int)
	rec = func(prefix string, k int) {
		for _, sep := range []string{"", ",", "a", ",a", "\xff", "\xa9"} {
			for _, max := range []int{-1, 0, 1, 2, 3} {
				emit("splitjoin", it(max), h(sep), h(prefix))
				emit("split", it(max), h(sep), h(prefix))
			}
		}
		if k == 0 {
			return
		}
		for _, s := range syms {
			rec(prefix+s, k-1)
		}
	}
	rec("", c.Scale(3, 4))
	n = c.Scale(600, 10000)
	kinds := []string{"number", "list", "map", "bool", "nil"}
	for i := 0; i < n; i++ {
		var items []string
		for k := r.Range(0, 5); k > 0; k-- {
			if r.Chance(1, 8) {
				items = append(items, "k"+common.Pick(r, kinds))
			} else {
				items = append(items, "s"+h(randStr(r, 3, alphabet)))
			}
		}
		f := "-"
		if len(items) > 0 {
			f = strings.Join(items, ",")
		}
		emit("join", h(randStr(r, 2, alphabet)), f)
	}
	// ---- str:repeat -------------------------------------------------------------------
	// DANGER: a huge product below the cap of str:repeat (MaxInt32 bytes) would be allocated.  Only
	// products ≤ 10^6 or products above the cap are generated; the latter are run by impl only if the
	// cap is there (state.capPresent) — otherwise they print UNCAPPED-NOT-RUN.
	emitRepeat := func(s string, n *big.Int) {
		if !n.IsInt64() {
			return
		}
		prod := new(big.Int).Mul(big.NewInt(int64(len(s))), n)
		if n.Sign() >= 0 && prod.Cmp(big.NewInt(1000000)) > 0 && prod.Cmp(big.NewInt(2147483647)) <= 0 {
			return
		}
		emit("repeat", h(s), n.String())
	}
	two63 := new(big.Int).Lsh(big.NewInt(1), 63)
	two64 := new(big.Int).Lsh(big.NewInt(1), 64)
	for _, s := range []string{"", "a", "ab", "abc", "é", "\xff\xfe", "abcd", "-", "0", " ", "abcdefg", "世世世"} {
		for _, k := range []int64{-9223372036854775808, -5, -1, 0, 1, 2, 3, 7, 100, 9223372036854775807} {
			emitRepeat(s, big.NewInt(k))
		}
		if len(s) == 0 {
			continue
		}
		l := big.NewInt(int64(len(s)))
		// products just above the cap (just below is never generated: it would be allocated), and huge
		// products that fit in an int: 2^31 … 2^62, MaxInt64/len
		capQ := new(big.Int).Div(big.NewInt(2147483647), l)
		for d := int64(1); d <= 3; d++ {
			emitRepeat(s, new(big.Int).Add(capQ, big.NewInt(d)))
		}
		for _, sh := range []uint{31, 32, 33, 40, 47, 48, 49, 62} {
			emitRepeat(s, new(big.Int).Div(new(big.Int).Lsh(big.NewInt(1), sh), l))
			emitRepeat(s, new(big.Int).Lsh(big.NewInt(1), sh))
		}
		emitRepeat(s, new(big.Int).Div(big.NewInt(9223372036854775807), l))
		// n around k·2^63/len and k·2^64/len: products just below/above the wrap points
		for k := int64(1); k <= int64(len(s)); k++ {
			for _, base := range []*big.Int{two63, two64} {
				q := new(big.Int).Div(new(big.Int).Mul(base, big.NewInt(k)), l)
				for d := int64(-2); d <= 2; d++ {
					emitRepeat(s, new(big.Int).Add(q, big.NewInt(d)))
				}
			}
		}
	}
	n = c.Scale(300, 5000)
	for i := 0; i < n; i++ {
		s := randStr(r, 4, alphabet)
		var k *big.Int
		if r.Chance(1, 2) {
			k = big.NewInt(int64(r.Range(-3, 60)))
		} else {
			k = new(big.Int).SetUint64(r.U64() >> uint(r.Range(1, 8)))
		}
		emitRepeat(s, k)
	}
	// ---- code points / bytes -------------------------------------------------------------
	n = c.Scale(1500, 30000)
	for i := 0; i < n; i++ {
		s := randStr(r, 8, alphabet)
		emit("to-cp", h(s))
		emit("cp-rt", h(s))
		emit("to-u8", h(s))
		emit("u8-rt", h(s))
	}
	boundary := []int{-9223372036854775808, -1114112, -256, -2, -1, 0, 1, 0x7f, 0x80, 0xff, 0x100, 0x7ff, 0x800, 0xd7ff, 0xd800, 0xdbff, 0xdfff, 0xe000,
		0xfffd, 0xffff, 0x10000, 0x10ffff, 0x110000, 0x7fffffff, 0x80000000, 0xffffffff, 0x100000000, 0x10000d800, 9223372036854775807}
	for _, b := range boundary {
		emit("from-cp", it(b))
		emit("from-cp", "97,"+it(b)+",-1")
		emit("from-u8", it(b))
		emit("from-u8", "195,"+it(b))
	}
	emit("from-cp", "-")
	emit("from-u8", "-")
	n = c.Scale(1500, 30000)
	for i := 0; i < n; i++ {
		var cps, bs []int
		for k := r.Range(0, 5); k > 0; k-- {
			switch r.Intn(8) {
			case 0:
				cps = append(cps, common.Pick(r, boundary))
			case 1:
				cps = append(cps, r.Range(0xd7f0, 0xe010))
			default:
				cps = append(cps, common.Pick(r, []int{0x61, 0xe9, 0x4e16, 0x1f600, 0xfffd, 0x10ffff, 0}))
			}
		}
		if r.Chance(1, 2) {
			for _, b := range []byte(randStr(r, 4, alphabet)) {
				bs = append(bs, int(b))
			}
		}
		for k := r.Range(0, 2); k > 0; k-- {
			if r.Chance(1, 6) {
				bs = append(bs, common.Pick(r, []int{-1, 256, 1000, -9223372036854775808}))
			} else {
				bs = append(bs, r.Range(0, 255))
			}
		}
		emit("from-cp", intsField(cps))
		emit("from-u8", intsField(bs))
	}
	// ---- index, prefix/suffix, trim (modelled) and case/space laws (oracle only) --------------
	n = c.Scale(1500, 30000)
	bins := []string{"index", "last-index", "has-prefix", "has-suffix", "trim-prefix", "trim-suffix", "contains", "count", "trim", "trim-left", "trim-right", "compare"}
	caseAlpha := []string{"a", "B", "ß", "é", "É", "ǅ", "ǆ", "İ", "ı", "σ", "ς", "Σ", "K", "K", "k", "ſ", "s", " ", "\t", " ", " ", "\u0085", "\n", "1", "世", "\xff", "\xc3", "\xef\xbf\xbd", "ᾳ", "ﬁ"}
	for i := 0; i < n; i++ {
		s := randStr(r, 8, alphabet)
		op := bins[i%len(bins)]
		var b string
		switch {
		case strings.HasPrefix(op, "trim") && !strings.HasSuffix(op, "fix"):
			b = randStr(r, 3, alphabet) // cutset
			if r.Chance(1, 2) {
				b += randSub(r, s)
			}
		case op == "has-prefix" || op == "trim-prefix":
			b = randSub(r, s)
			if r.Chance(1, 2) {
				b = s[:r.Range(0, len(s))]
			}
		case op == "has-suffix" || op == "trim-suffix":
			b = randSub(r, s)
			if r.Chance(1, 2) {
				b = s[r.Range(0, len(s)):]
			}
		case op == "compare":
			b = randStr(r, 8, alphabet)
			if r.Chance(1, 3) {
				b = s[:r.Range(0, len(s))] + randStr(r, 1, alphabet)
			}
		default:
			b = randSub(r, s)
		}
		emit(op, h(s), h(b))
		if i%3 == 0 {
			cs := randStr(r, 8, caseAlpha)
			emit("lib", common.Pick(r, []string{"to-upper", "to-lower", "to-title", "trim-space", "fields"}), h(cs))
			cs2 := randStr(r, 4, caseAlpha)
			if r.Chance(1, 2) {
				cs2 = strings.ToUpper(cs)
			}
			emit("lib", "equal-fold", h(cs), h(cs2))
		}
	}
	// ---- re:quote -------------------------------------------------------------------------------
	quoteAlpha := []string{"a", "b", ".", "*", "+", "?", "(", ")", "|", "[", "]", "{", "}", "^", "$", `\`, "é", "世", "-", " ", "\xff", "d", "n", "1"}
	n = c.Scale(1500, 30000)
	for i := 0; i < n; i++ {
		emit("quote", h(randStr(r, 8, quoteAlpha)))
	}
	// ---- re:find / split / match / replace ------------------------------------------------------
	n = c.Scale(8000, 160000)
	for i := 0; i < n; i++ {
		pat := randPattern(r)
		src := randStr(r, 10, srcAlphabet)
		fl := randFlags(r, false)
		ok, ms, names := engineFields(pat, fl, src)
		max := randMax(r)
		switch i % 4 {
		case 0:
			emit("find", fl, it(max), h(pat), h(src), ok, ms)
		case 1:
			emit("resplit", fl, it(max), h(pat), h(src), ok, ms)
		case 2:
			fl2 := "_"
			if strings.Contains(fl, "p") {
				fl2 = "p"
			}
			ok2, ms2, _ := engineFields(pat, fl2, src)
			emit("rematch", fl2, h(pat), h(src), ok2, ms2)
			emit("find", fl, "-1", h(pat), h(src), ok, ms)
			emit("resplit", fl, "-1", h(pat), h(src), ok, ms)
		case 3:
			fl = randFlags(r, true)
			ok, ms, names = engineFields(pat, fl, src)
			switch r.Intn(8) {
			case 0:
				emit("rereplace", fl, h(pat), "o", common.Pick(r, []string{"list", "number", "bool", "map"}), h(src), ok, ms, names, "-")
			case 1, 2:
				emit("rereplace", fl, h(pat), "f", common.Pick(r, []string{"wrap", "wrap", "two", "none", "list", "num", "failb", "fail"}), h(src), ok, ms, names, "-")
			default:
				t := randStr(r, 3, templPieces)
				if r.Chance(1, 2) {
					t = genTemplate(r)
				}
				emit("rereplace", fl, h(pat), "s", h(t), h(src), ok, ms, names, nameRunes(t))
			}
		}
	}
	// ---- re:awk ------------------------------------------------------------------------------------
	n = c.Scale(1500, 30000)
	for i := 0; i < n; i++ {
		emit(genAwk(r, common.Pick(r, awkSeps), randFlags(r, false))...)
	}
	// ---- history groups: one pattern, every flag combination, both orders, all builtins ---------------
	groups := c.Scale(400, 8000)
	c.Extra["history_groups"] = groups
	flagSets := []string{"_", "g", "p", "pg"}
	for g := 0; g < groups; g++ {
		emit0("reset", "hist")
		sinceReset = 1
		pat := common.Pick(r, histPats)
		// a random order of flag sets in which every set occurs, followed by a few random repeats:
		// each pair (A then B) of different sets occurs in both orders over the run
		order := append([]string{}, flagSets...)
		for i := len(order) - 1; i > 0; i-- {
			j := r.Range(0, i)
			order[i], order[j] = order[j], order[i]
		}
		for k := r.Range(0, 3); k > 0; k-- {
			order = append(order, common.Pick(r, flagSets))
		}
		for _, fl := range order {
			src := randStr(r, 6, histAlphabet)
			ok, ms, names := engineFields(pat, fl, src)
			switch r.Intn(6) {
			case 0, 1:
				emit("find", fl, "-1", h(pat), h(src), ok, ms)
			case 2:
				emit("resplit", fl, it(common.Pick(r, []int{-1, -1, 2})), h(pat), h(src), ok, ms)
			case 3:
				fl2 := "_"
				if strings.Contains(fl, "p") {
					fl2 = "p"
				}
				ok2, ms2, _ := engineFields(pat, fl2, src)
				emit("rematch", fl2, h(pat), h(src), ok2, ms2)
				emit("find", fl, "-1", h(pat), h(src), ok, ms)
			case 4:
				if r.Chance(1, 2) {
					emit("rereplace", fl, h(pat), "f", "wrap", h(src), ok, ms, names, "-")
				} else {
					t := common.Pick(r, []string{"<$0>", "[$1|$2]", "${1}-"})
					emit("rereplace", fl, h(pat), "s", h(t), h(src), ok, ms, names, nameRunes(t))
				}
			case 5:
				emit(genAwk(r, pat, fl)...)
			}
		}
	}
}
