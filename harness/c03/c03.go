// Package c03: correspondence and oracle for C03 (quoted strings evaluate back
// to the exact original string).
//
// op: q <hex s> <printable> <cmdmode> <varmode>
//
//	printable  the code points decodable at some byte offset of s for which
//	           unicode.IsPrint holds (comma separated, "-" if none): the value
//	           of the model's IsPrint parameter on everything quote.go and
//	           the parser can ask about
//	cmdmode    fn    the command `<QuoteCommandName s>` is resolved against a
//	                 namespace holding exactly the function s~ (nested
//	                 namespaces for qualified names)
//	           ext   (leading @ or :, no slash) the name is not looked up as a
//	                 function; it must come out as the external command s
//	           skip  s names a special form, or is an @/: name with a slash
//	varmode    plain `$<QuoteVariableName s>` is resolved against a namespace
//	                 holding exactly the variable s
//	           explode  s = @name: the variable `name` holds a list
//	           skip  the qualified name starts with ':' (reserved by the compiler)
//
// result (one line): the five quoted forms, the tree dumps (C01 format) of the
// five parses, and what a real Evaler evaluated.
package c03

import (
	"errors"
	"fmt"
	"os"
	"os/exec"
	"sort"
	"strconv"
	"strings"
	"unicode"
	"unicode/utf8"

	"src.elv.sh/pkg/eval"
	"src.elv.sh/pkg/eval/vals"
	"src.elv.sh/pkg/eval/vars"
	"src.elv.sh/pkg/parse"
	"verifharness/common"
	"verifharness/evalutil"
)

func init() { common.Register("C03", run) }

type state struct {
	ev *eval.Evaler
}

// alphabet: every metacharacter of the grammar, quotes, backslash, tilde,
// bareword punctuation of each context, C0/C1 controls, DEL, U+FFFD, astral,
// unprintable non-ASCII, lone continuation / leader bytes, overlongs,
// surrogates, truncated sequences.
var alphabet = []string{
	"a", "Z", "0", "e", "n", "x", "u", "U", "c", // letters that are also escape letters
	"-", "_", ":", "~", ".", "/", "\\", "@", "%", "+", "!", // bareword in every context
	"=", ",", "<", ">", "*", "^", // bareword in some contexts
	"?", "'", "\"", "$", " ", "\n", "\t", "\r", "[", "]", "(", ")", "{", "}", "|", "&", ";", "#",
	"\x00", "\x07", "\x1b", "\x7f", // C0, table escape, DEL
	"\u0085", "\u00ad", "\u2028", // C1 control, soft hyphen, line separator (unprintable, \u)
	"\u00e9", "\u4e16", "\ufffd", "\U0001F600", // 2-, 3-byte, U+FFFD itself, astral printable
	"\U000E0001", "\U0010FFFF", // astral unprintable (\U)
	"\xff", "\x80", "\xc3", "\xc0\x80", "\xed\xa0\x80", "\xe4\xb8", "\xf0\x9f\x98", // invalid UTF-8
}

var fixedWords = []string{
	"", "~", "~a", "a~", "~/x", "if", "var", "set", "fn", "and", "use", "pragma", "e:ls", "E:PATH", "a:b", "a:", ":a", "a::b",
	"@", "@a", "@a:b", "@/", ":", "::", "a b", "a'b", "a\"b", "a\\b", "'", "''", "\"", "\\", "$a", "a=b", "a,b", "<", "*", "?", "^",
	"&a", "a&", "a[0]", "[", "a{b,c}", "1", "-1", "0x10", "1.5", "nil", "$nil", "true", "put", "echo", "a\nb", "\x1b[0m",
	"\\x41", "\\n", "\\", "\\\"", "x\\", "café", "é", "a\ufffdb", "\xffif", "a\x00b", "\x7f", " ", "\u3000",
	"日本語", "😀😀", "-", "_", "a-b_c:d~", "%", "+", "!", ".", "..", "/", "//", "./a", "/bin/sh",
}

func run(c *common.Ctx) error {
	s := &common.Std{
		Rule: fmt.Sprintf("exhaustive: every string of ≤2 symbols over a %d-symbol alphabet (all grammar metacharacters, quotes, backslash, tilde, "+
			"escape letters, C0/C1/DEL, unprintable and printable non-ASCII incl. U+FFFD and astral, invalid UTF-8: lone continuation/leader bytes, "+
			"overlong, surrogate, truncated) and every single byte 0..255; %d fixed words (special-form names, qualified names, sigils, "+
			"number-like, escape-like); random strings of ≤8 symbols and random byte strings ≤12 B; each string quoted by Quote/QuoteAs/"+
			"QuoteCommandName/QuoteVariableName, parsed by parse.ParseAs in every context and evaluated by a real eval.Evaler "+
			"(put <q>; keys [&<q>=v]; <q> in head position; $<qv>); non-trivial = string non-empty; distinct by op line", len(alphabet), len(fixedWords)),
		ExhaustiveNote: fmt.Sprintf("strings of ≤2 symbols over the %d-symbol alphabet; all 256 single bytes", len(alphabet)),
		NewState: func(c *common.Ctx) any {
			dir, err := os.MkdirTemp("", "c03-path")
			if err != nil {
				panic(err)
			}
			os.Setenv("PATH", dir) // no external command can be found
			return &state{ev: eval.NewEvaler()}
		},
		Gen:    gen,
		Impl:   impl,
		Oracle: oracle,
		Tag:    tag,
	}
	return s.Run(c)
}

func gen(c *common.Ctx, emit func(...string)) {
	seen := map[string]bool{}
	one := func(s string) {
		if seen[s] {
			return
		}
		seen[s] = true
		emit("q", common.Hex(s), Printable(s), cmdMode(s), varMode(s))
	}
	for _, w := range fixedWords {
		one(w)
	}
	one("")
	for _, a := range alphabet {
		one(a)
	}
	for b := 0; b < 256; b++ {
		one(string([]byte{byte(b)}))
	}
	for _, a := range alphabet {
		for _, b := range alphabet {
			one(a + b)
		}
	}
	n := c.Scale(12000, 200000)
	for i := 0; i < n; i++ {
		var sb strings.Builder
		switch c.Rand.Intn(10) {
		case 0: // raw bytes
			for k := c.Rand.Range(1, 12); k > 0; k-- {
				sb.WriteByte(byte(c.Rand.Intn(256)))
			}
		case 1: // a word, mutated
			w := common.Pick(c.Rand, fixedWords)
			p := c.Rand.Range(0, len(w))
			sb.WriteString(w[:p] + common.Pick(c.Rand, alphabet) + w[p:])
		case 2: // mostly bareword characters (so that the bareword branch gets long inputs)
			for k := c.Rand.Range(1, 8); k > 0; k-- {
				sb.WriteString(alphabet[c.Rand.Intn(26)])
			}
			if c.Rand.Chance(1, 3) {
				sb.WriteString(common.Pick(c.Rand, alphabet))
			}
		case 3: // random code points
			for k := c.Rand.Range(1, 4); k > 0; k-- {
				var r rune
				switch c.Rand.Intn(4) {
				case 0:
					r = rune(c.Rand.Intn(0x100))
				case 1:
					r = rune(c.Rand.Intn(0x3000))
				case 2:
					r = rune(c.Rand.Intn(0x10000))
				default:
					r = rune(c.Rand.Intn(0x110000))
				}
				sb.WriteString(string(r)) // surrogates become U+FFFD
			}
		default:
			for k := c.Rand.Range(1, 8); k > 0; k-- {
				sb.WriteString(common.Pick(c.Rand, alphabet))
			}
		}
		one(sb.String())
	}
}

// Printable computes the <printable> field: every code point decodable at
// some byte offset of s that unicode.IsPrint accepts (ASCII included:
// quote.go asks IsPrint about every rune).
func Printable(s string) string {
	set := map[rune]bool{}
	for i := 0; i < len(s); i++ {
		r, _ := utf8.DecodeRuneInString(s[i:])
		if unicode.IsPrint(r) {
			set[r] = true
		}
	}
	if len(set) == 0 {
		return "-"
	}
	var l []int
	for r := range set {
		l = append(l, int(r))
	}
	sort.Ints(l)
	ss := make([]string, len(l))
	for i, x := range l {
		ss[i] = strconv.Itoa(x)
	}
	return strings.Join(ss, ",")
}

func cmdMode(s string) string {
	if eval.IsBuiltinSpecial[s] {
		return "skip"
	}
	if strings.HasPrefix(s, "@") || strings.HasPrefix(s, ":") {
		if strings.Contains(s, "/") {
			return "skip"
		}
		return "ext"
	}
	return "fn"
}

func varMode(s string) string {
	sigil, qname := eval.SplitSigil(s)
	if strings.HasPrefix(qname, ":") {
		return "skip"
	}
	if sigil != "" {
		return "explode"
	}
	return "plain"
}

// ---- running the real code ----------------------------------------------------------

type parsed struct {
	dump string
	errs int
	root parse.Node
}

func parseAs(src string, root parse.Node) parsed {
	err := parse.ParseAs(parse.Source{Name: "c03", Code: src}, root, parse.Config{})
	es := parse.UnpackErrors(err)
	var sb strings.Builder
	sb.WriteString("OK ")
	dump(&sb, src, root)
	sb.WriteString(" E")
	for _, e := range es {
		fmt.Fprintf(&sb, " %d:%d:%s:%s", e.Context.From, e.Context.To, b2s(e.Partial), msgID(e.Message))
	}
	return parsed{sb.String(), len(es), root}
}

// nsFor builds a namespace in which exactly the (possibly qualified) variable
// qname exists, following the compiler's own splitting of qualified names.
func nsFor(qname string, v vars.Var) *eval.Ns {
	first, rest := eval.SplitQName(qname)
	if rest == "" {
		return eval.BuildNs().AddVar(first, v).Ns()
	}
	segs := eval.SplitQNameSegs(rest)
	inner := v
	for i := len(segs) - 1; i >= 0; i-- {
		inner = vars.NewReadOnly(eval.BuildNs().AddVar(segs[i], inner).Ns())
	}
	return eval.BuildNs().AddVar(first, inner).Ns()
}

func evalIn(st *state, code string, global *eval.Ns) evalutil.Result {
	port1, collect1, err := eval.CapturePort()
	if err != nil {
		return evalutil.Result{Err: err}
	}
	cfg := eval.EvalCfg{Ports: []*eval.Port{eval.DummyInputPort, port1, eval.DummyOutputPort}, Global: global}
	err = st.ev.Eval(parse.Source{Name: "[c03]", Code: code}, cfg)
	vs, bs := collect1()
	return evalutil.Result{Values: vs, Bytes: bs, Err: err}
}

func errClass(err error) string {
	if err == nil {
		return "nil"
	}
	if parse.UnpackErrors(err) != nil {
		return "parse-error"
	}
	if eval.UnpackCompilationErrors(err) != nil {
		return "compile-error"
	}
	return "exception"
}

// oneString formats the outcome of an evaluation that should output exactly
// one string value.
func oneString(r evalutil.Result) string {
	if r.Err != nil {
		return "ERR:" + errClass(r.Err)
	}
	if len(r.Values) != 1 {
		return fmt.Sprintf("N%d", len(r.Values))
	}
	s, ok := r.Values[0].(string)
	if !ok {
		return "KIND:" + vals.Kind(r.Values[0])
	}
	return common.Hex(s)
}

func evalArg(st *state, q string) string {
	return oneString(evalIn(st, "put "+q, nil))
}

func evalKey(st *state, q string) string {
	return oneString(evalIn(st, "keys [&"+q+"=v]", nil))
}

// evalCmd runs `<q>` in head position and reports the name of the command
// that the evaluator resolved.
func evalCmd(st *state, s, q, mode string) string {
	switch mode {
	case "fn":
		called := 0
		fn := eval.NewGoFn("c03-probe", func() { called++ })
		r := evalIn(st, q, nsFor(s+eval.FnSuffix, vars.NewReadOnly(fn)))
		if r.Err != nil {
			return "ERR:" + errClass(r.Err)
		}
		if called != 1 {
			return fmt.Sprintf("CALLED%d", called)
		}
		return common.Hex(s)
	case "ext":
		r := evalIn(st, q, eval.BuildNs().Ns())
		var ee *exec.Error
		if r.Err != nil && errors.As(evalutil.Reason(r.Err), &ee) {
			return common.Hex(ee.Name)
		}
		return "ERR:" + errClass(r.Err)
	}
	return "-"
}

const marker = "c03-marker-value"

// outCmd is the command used to output the variable: `put`, unless the
// variable under test shadows it (its top-level name is `put~`).
func outCmd(qname string) string {
	if first, _ := eval.SplitQName(qname); first == "put"+eval.FnSuffix {
		return "use builtin; builtin:put"
	}
	return "put"
}

// evalVar runs `put $<qv>` and reports sigil+name of the variable that was read.
func evalVar(st *state, s, qv, mode string) string {
	switch mode {
	case "plain":
		r := evalIn(st, outCmd(s)+" $"+qv, nsFor(s, vars.FromInit(marker)))
		if o := oneString(r); o != common.Hex(marker) {
			return "BAD:" + o
		}
		return common.Hex(s)
	case "explode":
		r := evalIn(st, outCmd(s[1:])+" $"+qv, nsFor(s[1:], vars.FromInit(vals.MakeList(marker))))
		if o := oneString(r); o != common.Hex(marker) {
			return "BAD:" + o
		}
		return common.Hex(s)
	}
	return "-"
}

type result struct {
	q, c, v, sq, dq string
	ty              parse.PrimaryType
	p0, p2, p3, p1  parsed
	pv              parsed
	arg, key, cmd   string
	vr              string
}

func compute(st *state, f []string) result {
	s := common.Unhex(f[1])
	var r result
	r.q, r.ty = parse.QuoteAs(s, parse.Bareword)
	if q2 := parse.Quote(s); q2 != r.q {
		panic("Quote differs from QuoteAs(s, Bareword)")
	}
	r.c = parse.QuoteCommandName(s)
	r.v = parse.QuoteVariableName(s)
	r.sq, _ = parse.QuoteAs(s, parse.SingleQuoted)
	r.dq, _ = parse.QuoteAs(s, parse.DoubleQuoted)
	r.p0 = parseAs(r.q, &parse.Compound{ExprCtx: parse.NormalExpr})
	r.p2 = parseAs(r.q, &parse.Compound{ExprCtx: parse.LHSExpr})
	r.p3 = parseAs(r.q, &parse.Compound{ExprCtx: parse.BracedElemExpr})
	r.p1 = parseAs(r.c, &parse.Compound{ExprCtx: parse.CmdExpr})
	r.pv = parseAs("$"+r.v, &parse.Primary{})
	r.arg = evalArg(st, r.q)
	r.key = evalKey(st, r.q)
	r.cmd = evalCmd(st, s, r.c, f[3])
	r.vr = evalVar(st, s, r.v, f[4])
	return r
}

func impl(sta any, f []string) string {
	r := compute(sta.(*state), f)
	return fmt.Sprintf("Q %s %d C %s V %s A %s D %s | %s | %s | %s | %s | %s | EV arg=%s key=%s cmd=%s var=%s",
		common.Hex(r.q), int(r.ty), common.Hex(r.c), common.Hex(r.v), common.Hex(r.sq), common.Hex(r.dq),
		r.p0.dump, r.p2.dump, r.p3.dump, r.p1.dump, r.pv.dump, r.arg, r.key, r.cmd, r.vr)
}

// ---- oracle: the property evaluated on the real code -------------------------------------

// wordOf checks that the compound is one word: no errors, the whole text, one
// indexing without indices whose head is a string literal (so no tilde
// node, no wildcard, no variable); returns the literal's value.
func wordOf(src string, p parsed) (string, string) {
	if p.errs != 0 {
		return "", "parse errors: " + p.dump
	}
	cn := p.root.(*parse.Compound)
	if cn.Range().From != 0 || cn.Range().To != len(src) {
		return "", fmt.Sprintf("compound covers [%d,%d) of %d bytes", cn.Range().From, cn.Range().To, len(src))
	}
	if len(cn.Indexings) != 1 {
		return "", fmt.Sprintf("%d indexings", len(cn.Indexings))
	}
	in := cn.Indexings[0]
	if len(in.Indices) != 0 {
		return "", "has indices"
	}
	switch in.Head.Type {
	case parse.Bareword, parse.SingleQuoted, parse.DoubleQuoted:
		return in.Head.Value, ""
	}
	return "", "head type " + in.Head.Type.String()
}

func oracle(sta any, f []string, out string) (string, string) {
	if out == "PANIC" || out == "TIMEOUT" {
		return "crash", out
	}
	st := sta.(*state)
	s := common.Unhex(f[1])
	hs := common.Hex(s)
	r := compute(st, f)
	// (1) general form as an argument and as a map key (and in braces)
	for _, x := range []struct {
		name string
		p    parsed
	}{{"arg", r.p0}, {"key", r.p2}, {"braced", r.p3}} {
		v, why := wordOf(r.q, x.p)
		if why != "" {
			return x.name + "-parse", fmt.Sprintf("Quote(%q)=%q: %s", s, r.q, why)
		}
		if v != s {
			return x.name + "-value", fmt.Sprintf("Quote(%q)=%q parses to the word %q", s, r.q, v)
		}
	}
	// QuoteAs with the other preferences
	for _, q := range []string{r.sq, r.dq} {
		for _, ctx := range []parse.ExprCtx{parse.NormalExpr, parse.LHSExpr, parse.CmdExpr, parse.BracedElemExpr} {
			p := parseAs(q, &parse.Compound{ExprCtx: ctx})
			v, why := wordOf(q, p)
			if why != "" || v != s {
				return "quoteas-parse", fmt.Sprintf("QuoteAs(%q)=%q in context %d: %s value %q", s, q, ctx, why, v)
			}
		}
	}
	if r.arg != hs {
		return "arg-eval", fmt.Sprintf("put %s (from %q) gave %s", r.q, s, r.arg)
	}
	if r.key != hs {
		return "key-eval", fmt.Sprintf("keys [&%s=v] (from %q) gave %s", r.q, s, r.key)
	}
	// the same through whole programs with something after the word
	if o := oneString(evalIn(st, "put "+r.q+" # c", nil)); o != hs {
		return "arg-eval", fmt.Sprintf("put %s # c (from %q) gave %s", r.q, s, o)
	}
	if rr := evalIn(st, "put "+r.q+" "+r.q+"\nput ["+r.q+"]", nil); rr.Err != nil || len(rr.Values) != 3 ||
		rr.Values[0] != any(s) || rr.Values[1] != any(s) || vals.Len(rr.Values[2]) != 1 {
		return "arg-eval", fmt.Sprintf("put %s %s; put [%s] (from %q) gave %v %v", r.q, r.q, r.q, s, rr.Values, rr.Err)
	}
	// (2) command-name form in command position
	v, why := wordOf(r.c, r.p1)
	if why != "" {
		return "cmd-parse", fmt.Sprintf("QuoteCommandName(%q)=%q: %s", s, r.c, why)
	}
	if v != s {
		return "cmd-value", fmt.Sprintf("QuoteCommandName(%q)=%q parses to the word %q", s, r.c, v)
	}
	// as the head of a whole program
	tree, err := parse.Parse(parse.Source{Name: "c03", Code: r.c + " x"}, parse.Config{})
	if err != nil {
		return "cmd-parse", fmt.Sprintf("%q x: %v", r.c, err)
	}
	if len(tree.Root.Pipelines) != 1 || len(tree.Root.Pipelines[0].Forms) != 1 {
		return "cmd-parse", fmt.Sprintf("%q x: not one form", r.c)
	}
	form := tree.Root.Pipelines[0].Forms[0]
	if len(form.Args) != 1 || len(form.Redirs) != 0 || len(form.Opts) != 0 || parse.SourceText(form.Head) != r.c {
		return "cmd-parse", fmt.Sprintf("%q x: head is %q with %d args", r.c, parse.SourceText(form.Head), len(form.Args))
	}
	if f[3] != "skip" && r.cmd != hs {
		return "cmd-eval", fmt.Sprintf("%s in head position (from %q, mode %s) resolved %s", r.c, s, f[3], r.cmd)
	}
	// (3) variable-name form after $
	if r.pv.errs != 0 {
		return "var-parse", fmt.Sprintf("$%s (from %q): %s", r.v, s, r.pv.dump)
	}
	pn := r.pv.root.(*parse.Primary)
	if pn.Type != parse.Variable || pn.Range().From != 0 || pn.Range().To != len(r.v)+1 {
		return "var-parse", fmt.Sprintf("$%s (from %q): type %s range %v", r.v, s, pn.Type, pn.Range())
	}
	if pn.Value != s {
		return "var-name", fmt.Sprintf("$%s (from %q) is a use of the variable %q", r.v, s, pn.Value)
	}
	// as an argument of a whole program
	if cp := parseAs("$"+r.v, &parse.Compound{}); cp.errs != 0 || len(cp.root.(*parse.Compound).Indexings) != 1 ||
		cp.root.(*parse.Compound).Indexings[0].Head.Value != s || cp.root.(*parse.Compound).Indexings[0].Head.Type != parse.Variable {
		return "var-parse", fmt.Sprintf("$%s (from %q) as a compound: %s", r.v, s, cp.dump)
	}
	if f[4] != "skip" && r.vr != hs {
		return "var-eval", fmt.Sprintf("put $%s (from %q, mode %s) gave %s", r.v, s, f[4], r.vr)
	}
	return "", ""
}

// ---- tags ---------------------------------------------------------------------------

func kindOf(q string) string {
	switch {
	case strings.HasPrefix(q, "'"):
		return "single"
	case strings.HasPrefix(q, "\""):
		return "double"
	}
	return "bare"
}

func tag(f []string, out string) string {
	s := common.Unhex(f[1])
	if s == "" {
		return ""
	}
	q := parse.Quote(s)
	t := kindOf(q) + "/" + kindOf(parse.QuoteCommandName(s)) + "/" + kindOf(parse.QuoteVariableName(s))
	if s[0] == '~' {
		t += " tilde-first"
	} else if strings.Contains(s, "~") {
		t += " tilde-inside"
	}
	if strings.HasPrefix(q, "\"") {
		esc := map[string]bool{}
		for i := 1; i < len(q)-1; i++ {
			if q[i] != '\\' {
				esc["lit"] = true
				continue
			}
			i++
			switch q[i] {
			case 'x':
				esc["x"] = true
				i += 2
			case 'u':
				esc["u"] = true
				i += 4
			case 'U':
				esc["U"] = true
				i += 8
			default:
				esc["tab"] = true
			}
		}
		if !utf8.ValidString(s) {
			esc["invalid-utf8"] = true
		}
		if strings.Contains(s, "\ufffd") {
			esc["fffd"] = true
		}
		var ks []string
		for k := range esc {
			ks = append(ks, k)
		}
		sort.Strings(ks)
		t += " esc:" + strings.Join(ks, ",")
	}
	t += " cmd:" + f[3] + " var:" + f[4]
	return t
}

// ---- tree dump (the format of harness/c01) ----------------------------------------------

func b2s(b bool) string {
	if b {
		return "1"
	}
	return "0"
}

func kindName(n parse.Node) string {
	switch n.(type) {
	case *parse.Chunk:
		return "Chunk"
	case *parse.Pipeline:
		return "Pipeline"
	case *parse.Form:
		return "Form"
	case *parse.Redir:
		return "Redir"
	case *parse.Filter:
		return "Filter"
	case *parse.Compound:
		return "Compound"
	case *parse.Indexing:
		return "Indexing"
	case *parse.Array:
		return "Array"
	case *parse.Primary:
		return "Primary"
	case *parse.MapPair:
		return "MapPair"
	case *parse.Sep:
		return "Sep"
	}
	return fmt.Sprintf("%T", n)
}

func sem(n parse.Node) string {
	switch n := n.(type) {
	case *parse.Chunk:
		return fmt.Sprintf("pipelines=%d", len(n.Pipelines))
	case *parse.Pipeline:
		return fmt.Sprintf("bg=%s,forms=%d", b2s(n.Background), len(n.Forms))
	case *parse.Form:
		return fmt.Sprintf("head=%s,args=%d,opts=%d,redirs=%d", b2s(n.Head != nil), len(n.Args), len(n.Opts), len(n.Redirs))
	case *parse.Redir:
		return fmt.Sprintf("mode=%d,fd=%s,left=%s,right=%s", int(n.Mode), b2s(n.RightIsFd), b2s(n.Left != nil), b2s(n.Right != nil))
	case *parse.Filter:
		return fmt.Sprintf("args=%d,opts=%d", len(n.Args), len(n.Opts))
	case *parse.Compound:
		return fmt.Sprintf("ctx=%d,idx=%d", int(n.ExprCtx), len(n.Indexings))
	case *parse.Indexing:
		return fmt.Sprintf("ctx=%d,head=%s,indices=%d", int(n.ExprCtx), b2s(n.Head != nil), len(n.Indices))
	case *parse.Array:
		return fmt.Sprintf("compounds=%d", len(n.Compounds))
	case *parse.Primary:
		return fmt.Sprintf("ctx=%d,type=%d,value=%s,elems=%d,pairs=%d,braced=%d,chunk=%s", int(n.ExprCtx), int(n.Type),
			common.Hex(n.Value), len(n.Elements), len(n.MapPairs), len(n.Braced), b2s(n.Chunk != nil))
	case *parse.MapPair:
		return fmt.Sprintf("key=%s,value=%s", b2s(n.Key != nil), b2s(n.Value != nil))
	case *parse.Sep:
		return "-"
	}
	return "?"
}

func dump(sb *strings.Builder, src string, n parse.Node) {
	r := n.Range()
	text := parse.SourceText(n)
	tcol := common.Hex(text)
	if 0 <= r.From && r.From <= r.To && r.To <= len(src) && src[r.From:r.To] == text {
		tcol = "="
	}
	fmt.Fprintf(sb, "(%s %d %d %s %s", kindName(n), r.From, r.To, tcol, sem(n))
	for _, ch := range parse.Children(n) {
		sb.WriteByte(' ')
		dump(sb, src, ch)
	}
	sb.WriteByte(')')
}

func msgID(m string) string {
	const p = "unexpected rune "
	if strings.HasPrefix(m, p) {
		s, err := strconv.Unquote(m[len(p):])
		if err == nil {
			r, _ := utf8.DecodeRuneInString(s)
			return "U" + strconv.Itoa(int(r))
		}
	}
	return common.Hex(m)
}
