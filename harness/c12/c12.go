// Package c12: correspondence and oracle for C12 (inexact arithmetic follows
// IEEE-754 after the documented conversion).
package c12

import (
	"fmt"
	"math"
	"math/big"
	"os"
	"strings"

	"src.elv.sh/pkg/eval"
	"src.elv.sh/pkg/eval/vars"
	"src.elv.sh/pkg/parse"

	"verifharness/c11"
	"verifharness/common"
)

func init() { common.Register("C12", run) }

// ---------------------------------------------------------------- reference
//
// An independent reading of "the nearest double": finite non-negative doubles
// are ordered like their bit patterns, so the neighbours of |q| are found by
// binary search over patterns with exact rational comparisons, and the nearer
// one is taken (ties to the even pattern).  Neither big.Rat.Float64 nor the
// int→float64 conversion of the compiler is used.

func exactOfBits(p uint64) *big.Rat { // p: a finite, non-negative pattern
	e := int(p >> 52)
	m := new(big.Int).SetUint64(p & (1<<52 - 1))
	if e != 0 {
		m.Add(m, new(big.Int).Lsh(big.NewInt(1), 52))
		m.Lsh(m, uint(e-1))
	}
	return new(big.Rat).SetFrac(m, new(big.Int).Lsh(big.NewInt(1), 1074))
}

const infBits = uint64(0x7ff0000000000000)

var two1024 = new(big.Rat).SetInt(new(big.Int).Lsh(big.NewInt(1), 1024))

func valueOrTop(p uint64) *big.Rat {
	if p >= infBits {
		return two1024 // the value the pattern of +Inf would have as a finite number
	}
	return exactOfBits(p)
}

func nearestDouble(q *big.Rat) float64 {
	if q.Sign() == 0 {
		return 0
	}
	a := new(big.Rat).Abs(q)
	lo, hi := uint64(0), infBits // invariant: value(lo) ≤ a, and (hi == infBits or value(hi) > a)
	if a.Cmp(two1024) >= 0 {
		lo = infBits
	} else {
		for hi-lo > 1 {
			mid := lo + (hi-lo)/2
			if exactOfBits(mid).Cmp(a) <= 0 {
				lo = mid
			} else {
				hi = mid
			}
		}
	}
	res := lo
	if lo < infBits {
		dLo := new(big.Rat).Sub(a, exactOfBits(lo))
		dHi := new(big.Rat).Sub(valueOrTop(lo+1), a)
		switch c := dLo.Cmp(dHi); {
		case c > 0:
			res = lo + 1
		case c == 0 && lo&1 == 1:
			res = lo + 1
		}
	}
	if q.Sign() < 0 {
		res |= 1 << 63
	}
	return math.Float64frombits(res)
}

var (
	bigMinInt = big.NewInt(math.MinInt64)
	bigMaxInt = big.NewInt(math.MaxInt64)
)

// conv is the documented conversion of an argument to float64.
func conv(v any) float64 {
	switch v := v.(type) {
	case float64:
		return v
	case int:
		return nearestDouble(new(big.Rat).SetInt64(int64(v)))
	case *big.Int:
		if v.Cmp(bigMinInt) >= 0 && v.Cmp(bigMaxInt) <= 0 {
			return nearestDouble(new(big.Rat).SetInt(v))
		}
		return math.Inf(v.Sign()) // documented: beyond int64 ⇒ infinity
	case *big.Rat:
		return nearestDouble(v)
	}
	panic("conv")
}

func fbits(f float64) string {
	if math.IsNaN(f) {
		return "f:NaN"
	}
	return fmt.Sprintf("f:%016x", math.Float64bits(f))
}

func toRat(v any) *big.Rat {
	switch v := v.(type) {
	case int:
		return new(big.Rat).SetInt64(int64(v))
	case *big.Int:
		return new(big.Rat).SetInt(v)
	case *big.Rat:
		return new(big.Rat).Set(v)
	}
	panic("toRat: not exact")
}

// integerizer on a float from the exact value: the result is an integer of
// magnitude ≤ |f|+1 below 2^52 (or f itself), hence representable.
func integerizeFloat(cmd string, f float64) float64 {
	if math.IsNaN(f) || math.IsInf(f, 0) || f == 0 {
		return f
	}
	q := exactOfBits(math.Float64bits(f) &^ (1 << 63))
	if f < 0 {
		q.Neg(q)
	}
	if q.IsInt() {
		return f
	}
	fl := new(big.Int).Div(q.Num(), q.Denom()) // q.Denom() > 0: Euclidean = floor
	flr := new(big.Rat).SetInt(fl)
	up := new(big.Rat).Add(flr, big.NewRat(1, 1))
	var res *big.Rat
	switch cmd {
	case "floor":
		res = flr
	case "ceil":
		res = up
	case "trunc":
		if f < 0 {
			res = up
		} else {
			res = flr
		}
	default:
		dLo, dHi := new(big.Rat).Sub(q, flr), new(big.Rat).Sub(up, q)
		switch c := dLo.Cmp(dHi); {
		case c < 0:
			res = flr
		case c > 0:
			res = up
		case cmd == "round":
			if f < 0 {
				res = flr
			} else {
				res = up
			}
		default:
			if fl.Bit(0) == 0 {
				res = flr
			} else {
				res = up
			}
		}
	}
	r := nearestDouble(res)
	if r == 0 && f < 0 {
		r = math.Copysign(0, -1)
	}
	return r
}

// powSpecified: the value of math.Pow(x, y) on the arguments where it is fixed
// by the special-case table of C99 Annex F / Go's documentation, or where the
// mathematical result x^y (y a small integer) is exactly representable — there
// every implementation with an error below one ulp (Go's, libm's) must return
// exactly that double.  Anything else is "not specified" (ok = false) and is
// neither generated nor judged.  The exact cases are computed with big.Rat and
// the nearest-double search, never with math.Pow.
func powSpecified(x, y float64) (want float64, ok bool) {
	isOddInt := func(y float64) bool {
		if math.Abs(y) >= 1<<53 {
			return false
		}
		yi, yf := math.Modf(y)
		return yf == 0 && int64(yi)&1 == 1
	}
	switch {
	case y == 0 || x == 1:
		return 1, true
	case math.IsNaN(x) || math.IsNaN(y):
		return math.NaN(), true
	case y == 1:
		return x, true
	case x == 0:
		switch {
		case y < 0:
			if isOddInt(y) {
				return math.Copysign(math.Inf(1), x), true
			}
			return math.Inf(1), true
		default:
			if isOddInt(y) {
				return x, true
			}
			return 0, true
		}
	case math.IsInf(y, 0):
		switch {
		case x == -1:
			return 1, true
		case (math.Abs(x) < 1) == math.IsInf(y, 1):
			return 0, true
		default:
			return math.Inf(1), true
		}
	case math.IsInf(x, 0):
		if math.IsInf(x, -1) {
			neg := isOddInt(y)
			if y < 0 {
				if neg {
					return math.Copysign(0, -1), true
				}
				return 0, true
			}
			if neg {
				return math.Inf(-1), true
			}
			return math.Inf(1), true
		}
		if y < 0 {
			return 0, true
		}
		return math.Inf(1), true
	}
	// finite non-zero x (≠ 1), finite non-zero y (≠ 1)
	if _, yf := math.Modf(y); yf != 0 {
		if x < 0 {
			return math.NaN(), true
		}
		return 0, false
	}
	if math.Abs(y) >= 1<<63 { // huge even integer: certain overflow / underflow
		switch {
		case x == -1:
			return 1, true
		case (math.Abs(x) < 1) == (y > 0):
			return 0, true
		default:
			return math.Inf(1), true
		}
	}
	if math.Abs(y) > 64 {
		return 0, false
	}
	q := exactOfBits(math.Float64bits(x) &^ (1 << 63))
	if x < 0 {
		q.Neg(q)
	}
	n := int(math.Abs(y))
	if q.Num().BitLen()*n > 4000 || q.Denom().BitLen()*n > 4000 {
		return 0, false
	}
	res := big.NewRat(1, 1)
	for i := 0; i < n; i++ {
		res.Mul(res, q)
	}
	if y < 0 {
		res.Inv(res)
	}
	d := nearestDouble(res)
	bits := math.Float64bits(d) &^ (1 << 63)
	if bits >= infBits || bits < 1<<52 { // keep to normal results: no overflow/underflow questions
		return 0, false
	}
	back := exactOfBits(bits)
	if d < 0 {
		back.Neg(back)
	}
	if back.Cmp(res) != 0 {
		return 0, false // inexact: implementations may differ in the last place
	}
	return d, true
}

// rangeRef: `range` with a float among start/end/step, as documented: the
// arguments are converted to float64, and the outputs are start, start+step,
// (start+step)+step, … (IEEE additions) while below (above) end; the loop also
// stops when adding the step no longer moves the value.  limit bounds the
// count (ok = false beyond it).
func rangeRef(nums []float64, limit int) (outs []float64, exc string, ok bool) {
	start, end := nums[0], nums[1]
	if start <= end {
		step := float64(1)
		if len(nums) == 3 {
			step = nums[2]
			if step <= 0 {
				return nil, "step-positive", true
			}
		}
		for cur := start; cur < end; cur += step {
			if len(outs) >= limit {
				return nil, "", false
			}
			outs = append(outs, cur)
			if cur+step <= cur {
				break
			}
		}
		return outs, "", true
	}
	step := float64(-1)
	if len(nums) == 3 {
		step = nums[2]
		if step >= 0 {
			return nil, "step-negative", true
		}
	}
	for cur := start; cur > end; cur += step {
		if len(outs) >= limit {
			return nil, "", false
		}
		outs = append(outs, cur)
		if cur+step >= cur {
			break
		}
	}
	return outs, "", true
}

const rangeLimit = 48

// rangeNums: the unified float slice of a range call, or nil when no float is involved.
func rangeNums(step any, args []any) []float64 {
	var raw []any
	switch len(args) {
	case 1:
		raw = []any{0, args[0]}
	case 2:
		raw = []any{args[0], args[1]}
	default:
		return nil
	}
	if step != nil {
		raw = append(raw, step)
	}
	hasF := false
	for _, a := range raw {
		if _, ok := a.(float64); ok {
			hasF = true
		}
	}
	if !hasF {
		return nil
	}
	fs := make([]float64, len(raw))
	for i, a := range raw {
		fs[i] = conv(a)
	}
	return fs
}

// ---------------------------------------------------------------- generators

func genFloat(r *common.Rand) float64 {
	switch r.Intn(10) {
	case 0, 1:
		return common.Pick(r, []float64{0, math.Copysign(0, -1), 1, -1, 0.5, -0.5, 1.5, -1.5, 2.5, -2.5,
			math.Inf(1), math.Inf(-1), math.NaN(), math.MaxFloat64, -math.MaxFloat64, 5e-324, -5e-324,
			2.2250738585072014e-308, 2.225073858507201e-308, 9007199254740992, 9007199254740993, 4503599627370496.5,
			4503599627370495.5, 9223372036854775808, -9223372036854775808, 1e19, 0.1, 1e308, 1e-308})
	case 2: // small quarters: integerizer ties
		return float64(r.Range(-40, 40)) / 4
	case 3: // subnormals
		return math.Float64frombits(r.U64()&(1<<52-1) | uint64(r.Intn(2))<<63)
	case 4: // near overflow
		return math.Float64frombits(uint64(0x7fe)<<52 | r.U64()&(1<<52-1) | uint64(r.Intn(2))<<63)
	case 5: // moderate magnitude
		return math.Float64frombits(uint64(r.Range(1000, 1080))<<52 | r.U64()&(1<<52-1) | uint64(r.Intn(2))<<63)
	case 6: // half-integers up to 2^52
		k := uint(r.Range(1, 52))
		n := int64(r.U64()>>(64-k)) | 1
		return float64(n) / 2 * float64(1-2*r.Intn(2))
	default:
		return math.Float64frombits(r.U64())
	}
}

// stressRat: rationals at and next to the rounding boundaries of doubles.
func stressRat(r *common.Rand) *big.Rat {
	var p uint64
	switch r.Intn(6) {
	case 0:
		p = uint64(r.Intn(4)) // 0 and the first subnormals
	case 1:
		p = uint64(1)<<52 - uint64(r.Range(0, 2)) // subnormal/normal border
	case 2:
		p = infBits - 1 - uint64(r.Intn(2)) // largest finite
	case 3:
		p = uint64(r.Range(1075, 1075+70))<<52 | r.U64()&(1<<52-1) // integers around 2^53..2^70
	default:
		p = r.U64() % infBits
	}
	lo, hi := exactOfBits(p), valueOrTop(p+1)
	mid := new(big.Rat).Add(lo, hi)
	mid.Quo(mid, big.NewRat(2, 1))
	gap := new(big.Rat).Sub(hi, lo)
	eps := new(big.Rat).Quo(gap, new(big.Rat).SetInt(new(big.Int).Lsh(big.NewInt(1), uint(r.Range(1, 80)))))
	var q *big.Rat
	switch r.Intn(7) {
	case 0:
		q = mid
	case 1:
		q = new(big.Rat).Add(mid, eps)
	case 2:
		q = new(big.Rat).Sub(mid, eps)
	case 3:
		q = lo
	case 4:
		q = new(big.Rat).Add(lo, eps)
	case 5:
		q = new(big.Rat).Sub(hi, eps)
	default: // a non-dyadic point inside the gap
		q = new(big.Rat).Add(lo, new(big.Rat).Mul(gap, big.NewRat(int64(r.Range(1, 6)), 7)))
	}
	if r.Bool() {
		q.Neg(q)
	}
	return q
}

func genExact(g c11.G, r *common.Rand) any {
	switch r.Intn(6) {
	case 0, 1:
		return c11.Canon(stressRat(r))
	case 2: // big ints around ±2^63 and ±2^1024
		z := new(big.Int).Lsh(big.NewInt(1), common.Pick(r, []uint{53, 62, 63, 64, 1023, 1024}))
		z.Add(z, big.NewInt(int64(r.Range(-3, 3))))
		if r.Bool() {
			z.Neg(z)
		}
		return c11.Canon(z)
	default:
		return g.Exact()
	}
}

func gen(c *common.Ctx, emit func(...string)) {
	r := c.Rand
	g := c11.NewG(r)
	call := func(cmd string, args ...any) {
		f := []string{cmd, "-"}
		for _, a := range args {
			f = append(f, c11.Enc(a))
		}
		emit(f...)
	}
	n := c.Scale(4000, 140000)
	mixed := func(lo, hi int) []any {
		m := r.Range(lo, hi)
		vs := make([]any, m)
		hasF := false
		for j := range vs {
			if r.Chance(1, 2) {
				vs[j] = genFloat(r)
				hasF = true
			} else {
				vs[j] = genExact(g, r)
			}
		}
		if !hasF && m > 0 {
			vs[r.Intn(m)] = genFloat(r)
		}
		return vs
	}
	for i := 0; i < n; i++ {
		for _, cmd := range []string{"+", "-", "*", "/"} {
			call(cmd, mixed(1, 6)...)
		}
		// exact zeros in the mix: the exact-zero rules must not swallow or invent results
		vs := mixed(2, 5)
		vs[r.Intn(len(vs))] = 0
		call("*", vs...)
		call("/", vs...)
		call("+", vs...)
		call("-", vs...)
		call("max", mixed(1, 5)...)
		call("min", mixed(1, 5)...)
	}
	for i := 0; i < n; i++ {
		f := genFloat(r)
		for _, cmd := range []string{"abs", "ceil", "floor", "round", "round-to-even", "trunc"} {
			call(cmd, f)
		}
		call("exact-num", f)
		call("inexact-num", f)
	}
	for i := 0; i < 3*n; i++ {
		v := genExact(g, r)
		call("inexact-num", v)
		if r.Chance(1, 4) {
			call("exact-num", v)
		}
	}
	call("exact-num")
	call("inexact-num", 1, 2)
	genPow(c, g, call)
	genRangeFloat(c, g, emit)
}

var powPool = []float64{0, math.Copysign(0, -1), 1, -1, 0.5, -0.5, 2, -2, 3, -3, 2.5, -2.5, 1.5, 0.75, 10, -10, 7, 1e10,
	math.Inf(1), math.Inf(-1), math.NaN(), math.MaxFloat64, -math.MaxFloat64, 5e-324, -5e-324, 2.2250738585072014e-308,
	9007199254740992, 9007199254740993, 9007199254740991, -9007199254740991, 4503599627370495.5, 9223372036854775808,
	-9223372036854775808, 1.8446744073709552e19, 1e300, 0.9999999999999999, 1.0000000000000002, -0.9999999999999999, 1e-300}

// genPow: float math:pow only where its value is specified (powSpecified).
func genPow(c *common.Ctx, g c11.G, call func(string, ...any)) {
	r := c.Rand
	try := func(b, e any) {
		if _, bf := b.(float64); !bf {
			if _, ef := e.(float64); !ef {
				if _, isRat := e.(*big.Rat); !isRat {
					return // exact base, exact integer exponent: C11's exact branch
				}
			}
		}
		if _, ok := powSpecified(conv(b), conv(e)); ok {
			call("pow", b, e)
		}
	}
	for _, x := range powPool { // the special-case table, exhaustively over the pool
		for _, y := range powPool {
			try(x, y)
		}
	}
	n := c.Scale(3000, 60000)
	for i := 0; i < n; i++ {
		// exact powers: few significant bits, small integer exponent
		bits := r.Range(1, 26)
		m := float64(int64(r.U64()>>(64-uint(bits))) | 1)
		x := math.Ldexp(m, r.Range(-60, 60))
		if r.Bool() {
			x = -x
		}
		ye := r.Range(-6, 53/bits+2)
		if r.Chance(1, 8) {
			x = math.Ldexp(1, r.Range(-300, 300)) * float64(1-2*r.Intn(2)) // powers of two: negative exponents are exact too
			ye = r.Range(-40, 40)
		}
		var b, e any = x, float64(ye)
		switch r.Intn(6) {
		case 0: // exact integer exponent with a float base
			e = ye
		case 1: // exact base with a float exponent
			if q := exactOfBits(math.Float64bits(x) &^ (1 << 63)); true {
				if x < 0 {
					q.Neg(q)
				}
				b = c11.Canon(q)
			}
		case 2: // special × random
			b, e = common.Pick(r, powPool), genFloat(r)
		case 3:
			b, e = genFloat(r), common.Pick(r, powPool)
		case 4: // exact rational (non-integer) exponent: not the exact branch
			b, e = genExact(g, r), c11.Canon(big.NewRat(int64(r.Range(-9, 9)), 2))
		}
		try(b, e)
	}
	call("pow", 2.0)
}

// genRangeFloat: `range` with a float among start/end/&step, bounded output count.
func genRangeFloat(c *common.Ctx, g c11.G, emit func(...string)) {
	r := c.Rand
	callR := func(step any, args ...any) {
		fs := rangeNums(step, args)
		if fs == nil {
			return
		}
		if _, _, ok := rangeRef(fs, rangeLimit); !ok {
			return
		}
		f := []string{"range", "-"}
		if step != nil {
			f[1] = c11.Enc(step)
		}
		for _, a := range args {
			f = append(f, c11.Enc(a))
		}
		emit(f...)
	}
	nice := func() float64 {
		switch r.Intn(6) {
		case 0:
			return float64(r.Range(-40, 40)) / 4
		case 1:
			return float64(r.Range(-30, 30)) / 10 // not dyadic: the additions round
		case 2:
			return math.Ldexp(float64(r.Range(1, 9)), r.Range(50, 60)) * float64(1-2*r.Intn(2)) // a step of 1 is absorbed
		case 3:
			return common.Pick(r, []float64{0, math.Copysign(0, -1), math.Inf(1), math.Inf(-1), math.NaN(), math.MaxFloat64,
				-math.MaxFloat64, 5e-324, 1e308, -1e308, 9007199254740992, -9007199254740992, 0.1, 1e-300})
		default:
			return float64(r.Range(-1000, 1000)) / 8
		}
	}
	exactOr := func(f float64) any { // sometimes an exact argument next to a float one
		if r.Chance(1, 3) && f == math.Trunc(f) && math.Abs(f) < 1e15 {
			return int(f)
		}
		if r.Chance(1, 6) {
			return c11.Canon(big.NewRat(int64(r.Range(-50, 50)), int64(r.Range(1, 7))))
		}
		return f
	}
	n := c.Scale(3000, 60000)
	for i := 0; i < n; i++ {
		start := nice()
		var step float64
		switch r.Intn(5) {
		case 0:
			step = nice()
		case 1:
			step = 0.1 * float64(r.Range(1, 30))
		default:
			step = float64(r.Range(1, 24)) / 8
		}
		if r.Chance(1, 3) {
			step = -step
		}
		end := start + step*(float64(r.Range(0, 40))+float64(r.Range(0, 4))/4)
		if r.Chance(1, 10) {
			end = nice()
		}
		var st any
		if r.Chance(2, 3) {
			st = exactOr(step)
		}
		a, b := exactOr(start), exactOr(end)
		if r.Chance(1, 5) {
			callR(st, b) // one argument: start is the exact 0
		} else {
			callR(st, a, b)
		}
	}
	for _, x := range []float64{math.NaN(), math.Inf(1), math.Inf(-1), 0, 1, 9007199254740992} {
		for _, y := range []float64{math.NaN(), math.Inf(1), math.Inf(-1), 0, 3.5, 9007199254740996} {
			callR(nil, x, y)
			for _, z := range []any{math.NaN(), 0.0, math.Copysign(0, -1), 1e308, -1e308, math.Inf(1), math.Inf(-1), 2, -2, 0.5} {
				callR(z, x, y)
			}
		}
	}
}

// -------------------------------------------------------------------- impl

type state struct {
	*c11.Runner
	rr *rangeRunner
}

// rangeRunner runs float `range` calls with typed arguments in $a0 $a1 $st and
// reads at most rangeLimit+1 outputs: a loop that fails to stop shows up as one
// output too many instead of hanging the run (the abandoned evaluation stays
// blocked on its output port; a fresh Evaler is used from then on).
type rangeRunner struct {
	ev    *eval.Evaler
	slots *[3]any
}

var devNull *os.File

func init() {
	f, err := os.OpenFile(os.DevNull, os.O_RDWR, 0)
	if err != nil {
		panic(err)
	}
	devNull = f
}

func newRangeRunner() *rangeRunner {
	r := &rangeRunner{ev: eval.NewEvaler(), slots: new([3]any)}
	nb := eval.BuildNs()
	nb.AddVar("a0", vars.FromPtr(&r.slots[0]))
	nb.AddVar("a1", vars.FromPtr(&r.slots[1]))
	nb.AddVar("st", vars.FromPtr(&r.slots[2]))
	r.ev.ExtendGlobal(nb)
	return r
}

func (r *rangeRunner) run(step any, args []any) ([]any, string) {
	src := "range"
	if step != nil {
		r.slots[2] = step
		src += " &step=$st"
	}
	for i, a := range args {
		r.slots[i] = a
		src += fmt.Sprintf(" $a%d", i)
	}
	ch := make(chan any)
	errc := make(chan error, 1)
	ev := r.ev
	go func() {
		errc <- ev.Eval(parse.Source{Name: "[vh]", Code: src},
			eval.EvalCfg{Ports: []*eval.Port{eval.DummyInputPort, {Chan: ch, File: devNull}, eval.DummyOutputPort}})
	}()
	var outs []any
	for {
		select {
		case v := <-ch:
			outs = append(outs, v)
			if len(outs) > rangeLimit {
				nr := newRangeRunner()
				r.ev, r.slots = nr.ev, nr.slots
				return outs, ""
			}
		case err := <-errc:
			if err != nil {
				return nil, c11.Classify(err)
			}
			return outs, ""
		}
	}
}

func impl(st any, f []string) string {
	cmd, step, args := c11.ParseOp(f)
	if cmd == "range" && len(args) <= 2 && rangeNums(step, args) != nil {
		outs, exc := st.(*state).rr.run(step, args)
		return c11.Show(outs, exc, false)
	}
	outs, exc := st.(*state).Runner.Run(cmd, step, args, strings.Join(f, "\t"))
	return c11.Show(outs, exc, false)
}

// ------------------------------------------------------------------ oracle

func isExact0(v any) bool { i, ok := v.(int); return ok && i == 0 }

func oracle(_ any, f []string, out string) (string, string) {
	cmd, _, args := c11.ParseOp(f)
	if out == "PANIC" || out == "TIMEOUT" {
		return "crash-" + cmd, out
	}
	if strings.HasPrefix(out, "EXC ARG-MUTATED") {
		return "argument-mutated-" + cmd, "the command changed one of its (immutable) number arguments in place: " + out
	}
	hasFloat, hasInf := false, false
	for _, a := range args {
		if v, ok := a.(float64); ok {
			hasFloat = true
			hasInf = hasInf || math.IsInf(v, 0)
		}
	}
	want := ""
	fs := make([]float64, len(args))
	convAll := func() {
		for i, a := range args {
			fs[i] = conv(a)
		}
	}
	switch cmd {
	case "+":
		if !hasFloat {
			return "", ""
		}
		convAll()
		acc := float64(0)
		for _, x := range fs {
			acc += x
		}
		want = fbits(acc)
	case "*":
		if !hasFloat {
			return "", ""
		}
		for _, a := range args {
			if isExact0(a) && !hasInf {
				return "", "" // exact-zero rule (C11)
			}
		}
		convAll()
		acc := float64(1)
		for _, x := range fs {
			acc *= x
		}
		want = fbits(acc)
	case "-":
		if !hasFloat || len(args) == 0 {
			return "", ""
		}
		convAll()
		if len(fs) == 1 {
			want = fbits(-fs[0])
		} else {
			acc := fs[0]
			for _, x := range fs[1:] {
				acc -= x
			}
			want = fbits(acc)
		}
	case "/":
		if !hasFloat || len(args) == 0 {
			return "", ""
		}
		for _, a := range args[1:] {
			if isExact0(a) {
				return "", "" // division by exact zero (C11)
			}
		}
		if isExact0(args[0]) {
			return "", "" // exact-zero rule (C11)
		}
		convAll()
		if len(fs) == 1 {
			want = fbits(1 / fs[0])
		} else {
			acc := fs[0]
			for _, x := range fs[1:] {
				acc /= x
			}
			want = fbits(acc)
		}
	case "abs", "ceil", "floor", "round", "round-to-even", "trunc":
		if len(args) != 1 || !hasFloat {
			return "", ""
		}
		x := args[0].(float64)
		if cmd == "abs" {
			want = fbits(math.Float64frombits(math.Float64bits(x) &^ (1 << 63)))
		} else {
			want = fbits(integerizeFloat(cmd, x))
		}
	case "inexact-num":
		if len(args) != 1 {
			return "", ""
		}
		want = fbits(conv(args[0]))
	case "exact-num":
		if len(args) != 1 {
			return "", ""
		}
		x, isF := args[0].(float64)
		switch {
		case !isF:
			want = c11.Enc(args[0])
		case math.IsNaN(x) || math.IsInf(x, 0):
			want = "EXC finite-float"
		default:
			q := exactOfBits(math.Float64bits(x) &^ (1 << 63))
			if math.Signbit(x) {
				q.Neg(q)
			}
			want = c11.Enc(c11.Canon(q))
		}
	case "pow":
		if len(args) != 2 {
			return "", ""
		}
		_, bf := args[0].(float64)
		_, ef := args[1].(float64)
		_, er := args[1].(*big.Rat)
		if !bf && !ef && !er {
			return "", "" // exact branch (C11)
		}
		w, ok := powSpecified(conv(args[0]), conv(args[1]))
		if !ok {
			return "", ""
		}
		want = fbits(w)
	case "range":
		_, step, _ := c11.ParseOp(f)
		fs := rangeNums(step, args)
		if fs == nil {
			return "", ""
		}
		outs, exc, ok := rangeRef(fs, rangeLimit)
		if !ok {
			return "", ""
		}
		switch {
		case exc != "":
			want = "EXC " + exc
		case len(outs) == 0:
			want = "-"
		default:
			parts := make([]string, len(outs))
			for i, x := range outs {
				parts[i] = fbits(x)
			}
			want = strings.Join(parts, " ")
		}
	default:
		return "", ""
	}
	if out != want {
		cls := "wrong-ieee-result-" + cmd
		switch cmd {
		case "inexact-num":
			cls = "wrong-conversion-" + kindOf(args[0])
		case "exact-num":
			cls = "wrong-exact-value"
		case "range":
			cls = "wrong-float-range"
		case "+", "-", "*", "/":
			cls = "wrong-ieee-result-" + map[string]string{"+": "add", "-": "sub", "*": "mul", "/": "div"}[cmd]
		}
		return cls, fmt.Sprintf("got %s want %s", out, want)
	}
	return "", ""
}

func kindOf(v any) string {
	switch v.(type) {
	case int:
		return "int"
	case *big.Int:
		return "big"
	case *big.Rat:
		return "rat"
	}
	return "float"
}

func tag(f []string, out string) string {
	cmd := f[0]
	kinds := map[byte]bool{}
	for _, a := range f[2:] {
		kinds[a[0]] = true
	}
	if f[1] != "-" {
		kinds[f[1][0]] = true
	}
	mix := ""
	for _, k := range []byte("ibrf") {
		if kinds[k] {
			mix += string(k)
		}
	}
	shape := ""
	switch {
	case strings.HasPrefix(out, "EXC "):
		shape = "exc-" + out[4:]
	case cmd == "range":
		k := 0
		if out != "-" {
			k = len(strings.Split(out, " "))
		}
		switch {
		case k == 0:
			shape = "empty"
		case k == 1:
			shape = "one"
		case k < 8:
			shape = "few"
		default:
			shape = "many"
		}
		if f[1] != "-" {
			shape += "+step"
		}
	case out == "f:NaN":
		shape = "nan"
	case out == "f:7ff0000000000000" || out == "f:fff0000000000000":
		shape = "inf"
	case out == "f:0000000000000000" || out == "f:8000000000000000":
		shape = "zero"
	case strings.HasPrefix(out, "f:000") || strings.HasPrefix(out, "f:800"):
		shape = "subnormal"
	case strings.HasPrefix(out, "f:"):
		shape = "finite"
	default:
		shape = "exact-" + out[:1]
	}
	return cmd + "(" + mix + "):" + shape
}

func run(c *common.Ctx) error {
	s := &common.Std{
		Rule: "random calls of + - * / math:abs/ceil/floor/round/round-to-even/trunc/min/max exact-num inexact-num, float math:pow (only where its value " +
			"is specified: special-case table, exactly representable integer powers) and float range (bounded count) through a real Evaler with at " +
			"least one float (±0, ±Inf, NaN, subnormals, near overflow, half-integers, random bit patterns) mixed with exact numbers of all three " +
			"representations; conversions stressed with rationals at/next to the midpoints between adjacent doubles (ties), the subnormal border, " +
			"the overflow threshold, and big ints around ±2^63 and ±2^1024; results compared as bit patterns (NaNs collapsed); " +
			"non-trivial = every op (distinct by op line)",
		Gen:      gen,
		NewState: func(*common.Ctx) any { return &state{c11.NewRunner(), newRangeRunner()} },
		Impl:     impl,
		Oracle:   oracle,
		Tag:      tag,
	}
	return s.Run(c)
}
