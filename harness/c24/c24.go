// Package c24: correspondence and oracle for C24 (pkg/store command and
// directory history on a real bbolt file, through store.NewStore).
package c24

import (
	"fmt"
	"math"
	"os"
	"path/filepath"
	"sort"
	"strconv"
	"strings"

	"src.elv.sh/pkg/store"
	"src.elv.sh/pkg/store/storedefs"
	"verifharness/common"
)

func init() { common.Register("C24", run) }

// rawAdder reaches (*dbStore).AddDirRaw, which is exported on the concrete
// type but absent from the DBStore interface.
type rawAdder interface {
	AddDirRaw(d string, score float64) error
}

type state struct {
	root string
	n    int
	path string
	st   store.DBStore
	ref  *refLog
	tag  string
	err  error
}

func (s *state) reset() {
	if s.st != nil {
		s.st.Close()
		os.Remove(s.path)
	}
	s.n++
	s.path = filepath.Join(s.root, fmt.Sprintf("db%d", s.n))
	s.st, s.err = store.NewStore(s.path)
	if s.err != nil {
		panic("cannot open store: " + s.err.Error())
	}
	s.ref = newRefLog()
}

func run(c *common.Ctx) error {
	base := ""
	if fi, err := os.Stat("/dev/shm"); err == nil && fi.IsDir() {
		base = "/dev/shm"
	}
	root, err := os.MkdirTemp(base, "verif-c24-db-")
	if err != nil {
		return err
	}
	defer os.RemoveAll(root)
	st := &state{root: root}
	defer func() {
		if st.st != nil {
			st.st.Close()
		}
	}()
	nh := c.Scale(300, 10000)
	s := &common.Std{
		Rule: fmt.Sprintf("%d random histories of ≤300 ops on a fresh bbolt file each (store.NewStore under /dev/shm): "+
			"add (texts with shared prefixes, empty, binary), del (present/absent/deleted/negative), get, list/next/prev with "+
			"in-range, 0, beyond-last, negative and extreme bounds, next-seq; dir history: adddir/addraw/deldir/dirs with "+
			"blacklists, ties, empty and over-long paths, many long paths (multi-page tree); non-trivial = tagged branch", nh),
		NewState: func(c *common.Ctx) any { st.reset(); return st },
		Gen:      func(c *common.Ctx, emit func(...string)) { gen(c, emit, nh) },
		Impl:     impl,
		Oracle:   oracle,
		Tag:      func(f []string, out string) string { return st.tag },
	}
	return s.Run(c)
}

// ---------------------------------------------------------------- generator

var texts = []string{"", "e", "ec", "echo", "echo a", "echo b", "echo a b", "ls", "ls -l", "l", "cd /tmp", "cd /",
	"\x00", "\x00\x01", "\xff", "\xff\xfe", "é", "éa", "世界", "put 1\nput 2", "a\tb", " ", "  x"}

func randText(r *common.Rand) string {
	switch r.Intn(10) {
	case 0:
		n := r.Intn(6)
		b := make([]byte, n)
		for i := range b {
			b[i] = byte(r.Intn(256))
		}
		return string(b)
	case 1:
		return common.Pick(r, texts) + common.Pick(r, texts)
	case 2:
		return strings.Repeat(common.Pick(r, texts), r.Intn(40))
	}
	return common.Pick(r, texts)
}

func randPrefix(r *common.Rand) string {
	switch r.Intn(8) {
	case 0, 3:
		return ""
	case 4, 5:
		return common.Pick(r, []string{"e", "ec", "echo", "echo ", "l", "ls", "c", "cd /", "\x00", "\xff"})
	case 1:
		b := make([]byte, 1+r.Intn(2))
		for i := range b {
			b[i] = byte(r.Intn(256))
		}
		return string(b)
	case 2:
		t := common.Pick(r, texts)
		return t[:r.Intn(len(t)+1)]
	}
	return common.Pick(r, texts)
}

var extremes = []int{-1, -2, -1 << 63, -1<<63 + 1, math.MaxInt64, math.MaxInt64 - 1, 1 << 62, 1 << 32, -1 << 32, 256, 255, 65536}

// randSeq picks a sequence-number argument around the live range [1,last].
func randSeq(r *common.Rand, last int) int {
	switch r.Intn(12) {
	case 0:
		return 0
	case 1:
		return last + 1
	case 2:
		return last + 1 + r.Intn(5)
	case 3:
		return common.Pick(r, extremes)
	case 4:
		return -r.Intn(4) - 1
	case 5:
		return last
	}
	return r.Range(0, last+1)
}

var dirPaths = []string{"/", "/a", "/b", "/a/b", "/usr/local/bin", "/tmp", "~", "é", "\x00", "\xff\xfe/x", "/a ", " /a"}

var factors = []float64{1, 1, 1, 0.5, 2, 0, 0.1, 3.7, 0.3, 1e-3, 100, -0.5, -1, 1e6}

var rawScores = []float64{0, 10, 5, 5, 9.86, 14.72196, 12345675, 12345665, 10000.125, 10000.375, 9999999.5, 99999995,
	123.456, 1e-3, 1e-9, 1e15, -3.5, -10, 0.5, 1.0000005, 7.0000005e-5, 3.14159265358979, 2.5e-7, 4.9999995}

func bits(f float64) string { return strconv.FormatUint(math.Float64bits(f), 10) }

func randScore(r *common.Rand) float64 {
	if r.Chance(1, 3) {
		// a decimal with up to 9 significant digits and a moderate exponent
		m := float64(r.Intn(1000000000))
		e := r.Range(-12, 6)
		v := m * math.Pow(10, float64(e))
		if v == 0 {
			return 0
		}
		if r.Chance(1, 6) {
			v = -v
		}
		return v
	}
	return common.Pick(r, rawScores)
}

func gen(c *common.Ctx, emit func(...string), nh int) {
	r := c.Rand
	emit("reset")
	emit("consts")
	for h := 0; h < nh; h++ {
		emit("reset")
		kind := r.Intn(10) // 0: dir-heavy with many long paths, 1: delete-heavy, 2: add-heavy, else mixed
		nops := r.Range(1, 299)
		if r.Chance(1, 8) {
			nops = r.Range(1, 12)
		}
		last := 0     // generator's own count of issued numbers (fresh db: 1..last)
		var live []int // numbers believed present
		var paths []string
		pickPath := func() string {
			if len(paths) > 0 && r.Chance(2, 3) {
				return common.Pick(r, paths)
			}
			var p string
			switch {
			case kind == 0 && r.Chance(3, 4):
				p = "/" + strings.Repeat(string(rune('a'+r.Intn(26))), 20+r.Intn(100)) + "/" + strconv.Itoa(r.Intn(1000))
			case r.Chance(1, 30):
				p = ""
			case r.Chance(1, 200):
				p = strings.Repeat("k", 32768+r.Intn(2))
			default:
				p = common.Pick(r, dirPaths)
				if r.Chance(1, 4) {
					p += strconv.Itoa(r.Intn(20))
				}
			}
			paths = append(paths, p)
			return p
		}
		if kind == 0 && r.Chance(1, 2) {
			// a burst of visits to fresh long paths: a directory bucket of several pages
			for k := r.Range(60, 200); k > 0; k-- {
				p := "/" + strings.Repeat(string(rune('a'+r.Intn(26))), 20+r.Intn(100)) + "/" + strconv.Itoa(r.Intn(100000))
				paths = append(paths, p)
				emit("adddir", common.Hex(p), bits(common.Pick(r, factors)))
			}
			nops = r.Range(1, 60)
		}
		for i := 0; i < nops; i++ {
			x := r.Intn(100)
			dirOp := kind == 0 && x < 85 || kind != 0 && x < 12
			if dirOp {
				switch y := r.Intn(20); {
				case y < 9:
					emit("adddir", common.Hex(pickPath()), bits(common.Pick(r, factors)))
				case y < 12:
					emit("addraw", common.Hex(pickPath()), bits(randScore(r)))
				case y < 14:
					emit("deldir", common.Hex(pickPath()))
				default:
					var bl []string
					for k := r.Intn(4); k > 0 && r.Chance(1, 2); k-- {
						bl = append(bl, common.Hex(pickPath()))
					}
					b := "-"
					if len(bl) > 0 {
						b = strings.Join(bl, ",")
					}
					emit("dirs", b)
				}
				continue
			}
			wAdd, wDel := 30, 10
			switch kind {
			case 1:
				wAdd, wDel = 25, 30
			case 2:
				wAdd, wDel = 60, 5
			}
			switch y := r.Intn(100); {
			case y < wAdd:
				emit("add", common.Hex(randText(r)))
				last++
				live = append(live, last)
			case y < wAdd+wDel:
				n := randSeq(r, last)
				if len(live) > 0 && r.Chance(3, 5) {
					k := r.Intn(len(live))
					n = live[k]
					live = append(live[:k], live[k+1:]...)
				}
				emit("del", strconv.Itoa(n))
			case y < wAdd+wDel+10:
				emit("get", strconv.Itoa(randSeq(r, last)))
			case y < wAdd+wDel+22:
				a, b := randSeq(r, last), randSeq(r, last)
				if r.Chance(1, 2) && a > b {
					a, b = b, a
				}
				emit("list", strconv.Itoa(a), strconv.Itoa(b))
			case y < wAdd+wDel+34:
				emit("next", strconv.Itoa(randSeq(r, last)), common.Hex(randPrefix(r)))
			case y < wAdd+wDel+48:
				emit("prev", strconv.Itoa(randSeq(r, last)), common.Hex(randPrefix(r)))
			default:
				emit("nseq")
			}
		}
		// closing observations of every history
		emit("nseq")
		emit("list", "0", "-1")
		emit("dirs", "-")
	}
}

// ------------------------------------------------------------ implementation

func showErr(err error) string {
	switch err.Error() {
	case storedefs.ErrNoMatchingCmd.Error():
		return "ERR nomatch"
	case "key required":
		return "ERR keyrequired"
	case "key too large":
		return "ERR keytoolarge"
	}
	return "ERR other " + err.Error()
}

func showCmd(c storedefs.Cmd) string { return strconv.Itoa(c.Seq) + ":" + common.Hex(c.Text) }

func atoi(s string) int {
	n, err := strconv.Atoi(s)
	if err != nil {
		panic("bad int field " + s)
	}
	return n
}

func fbits(s string) float64 {
	n, err := strconv.ParseUint(s, 10, 64)
	if err != nil {
		panic("bad bits field " + s)
	}
	return math.Float64frombits(n)
}

func parseBlacklist(s string) map[string]struct{} {
	bl := map[string]struct{}{}
	if s != "-" {
		for _, h := range strings.Split(s, ",") {
			bl[common.Unhex(h)] = struct{}{}
		}
	}
	return bl
}

// canonDirs prints a listing with runs of equal scores ordered by path
// (sort.Sort is unstable: the order inside a run is unspecified).
func canonDirs(ds []storedefs.Dir) string {
	ds = append([]storedefs.Dir(nil), ds...)
	for i := 0; i < len(ds); {
		j := i
		for j < len(ds) && ds[j].Score == ds[i].Score {
			j++
		}
		run := ds[i:j]
		sort.Slice(run, func(a, b int) bool { return run[a].Path < run[b].Path })
		i = j
	}
	if len(ds) == 0 {
		return "-"
	}
	out := make([]string, len(ds))
	for i, d := range ds {
		out[i] = common.Hex(d.Path) + ":" + bits(d.Score)
	}
	return strings.Join(out, ",")
}

func impl(sta any, f []string) string {
	s := sta.(*state)
	st := s.st
	switch f[0] {
	case "reset":
		s.reset()
		return "ok"
	case "consts":
		return fmt.Sprintf("%d %d %d", math.Float64bits(store.DirScoreDecay), store.DirScoreIncrement, store.DirScorePrecision)
	case "nseq":
		n, err := st.NextCmdSeq()
		if err != nil {
			return showErr(err)
		}
		return strconv.Itoa(n)
	case "add":
		n, err := st.AddCmd(common.Unhex(f[1]))
		if err != nil {
			return showErr(err)
		}
		return strconv.Itoa(n)
	case "del":
		if err := st.DelCmd(atoi(f[1])); err != nil {
			return showErr(err)
		}
		return "ok"
	case "get":
		t, err := st.Cmd(atoi(f[1]))
		if err != nil {
			return showErr(err)
		}
		return common.Hex(t)
	case "list":
		cmds, err := st.CmdsWithSeq(atoi(f[1]), atoi(f[2]))
		if err != nil {
			return showErr(err)
		}
		if len(cmds) == 0 {
			return "-"
		}
		out := make([]string, len(cmds))
		for i, c := range cmds {
			out[i] = showCmd(c)
		}
		return strings.Join(out, ",")
	case "next":
		c, err := st.NextCmd(atoi(f[1]), common.Unhex(f[2]))
		if err != nil {
			return showErr(err)
		}
		return showCmd(c)
	case "prev":
		c, err := st.PrevCmd(atoi(f[1]), common.Unhex(f[2]))
		if err != nil {
			return showErr(err)
		}
		return showCmd(c)
	case "adddir":
		if err := st.AddDir(common.Unhex(f[1]), fbits(f[2])); err != nil {
			return showErr(err)
		}
		return "ok"
	case "addraw":
		if err := st.(rawAdder).AddDirRaw(common.Unhex(f[1]), fbits(f[2])); err != nil {
			return showErr(err)
		}
		return "ok"
	case "deldir":
		if err := st.DelDir(common.Unhex(f[1])); err != nil {
			return showErr(err)
		}
		return "ok"
	case "dirs":
		ds, err := st.Dirs(parseBlacklist(f[1]))
		if err != nil {
			return showErr(err)
		}
		return canonDirs(ds)
	}
	return "bad-op"
}
