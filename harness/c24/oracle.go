package c24

import (
	"fmt"
	"math"
	"sort"
	"strconv"
	"strings"

	"src.elv.sh/pkg/store"
	"src.elv.sh/pkg/store/storedefs"
	"verifharness/common"
)

// refLog is the oracle's own sequential reference: a log of (number, text)
// in order of insertion and a counter.  It is deliberately independent of the
// Lean model (plain slices, plain integer comparisons).
//
// Sequence-number ARGUMENTS: the store API documents -1 as "no upper bound"
// (pkg/mods/store/store.d.elv, `store:cmds`); the reference therefore reads
// every negative bound as a number above every sequence number (the unsigned
// reading), which is inside the property's "out-of-range bounds".
type refLog struct {
	entries   []storedefs.Cmd
	counter   int
	issued    map[int]bool
	maxIssued int
	dirs      map[string]float64 // last observed directory scores
}

func newRefLog() *refLog { return &refLog{issued: map[int]bool{}, dirs: map[string]float64{}} }

// geBound: seq >= bound, under the unsigned reading of a negative bound.
func geBound(seq, bound int) bool { return bound >= 0 && seq >= bound }

// ltBound: seq < bound.
func ltBound(seq, bound int) bool { return bound < 0 || seq < bound }

func (r *refLog) get(n int) (string, bool) {
	for _, e := range r.entries {
		if e.Seq == n {
			return e.Text, true
		}
	}
	return "", false
}

func negClass(class string, args ...int) string {
	for _, a := range args {
		if a < 0 {
			return class + "-negative-arg"
		}
	}
	return class
}

func snapshot(st store.DBStore) (map[string]float64, error) {
	ds, err := st.Dirs(storedefs.NoBlacklist)
	if err != nil {
		return nil, err
	}
	m := make(map[string]float64, len(ds))
	for _, d := range ds {
		m[d.Path] = d.Score
	}
	return m, nil
}

// approx: got is want up to the 7-significant-digit rounding of the stored
// form, applied at most `steps` times to quantities of size `scale`.
func approx(got, want, scale float64, steps int) bool {
	if got == want {
		return true
	}
	return math.Abs(got-want) <= float64(steps)*5.5e-7*scale
}

func sameDirs(a, b map[string]float64) string {
	if len(a) != len(b) {
		return fmt.Sprintf("%d entries, want %d", len(b), len(a))
	}
	for p, x := range a {
		if y, ok := b[p]; !ok || x != y {
			return fmt.Sprintf("%q: %v, want %v", p, y, x)
		}
	}
	return ""
}

func oracle(sta any, f []string, out string) (string, string) {
	s := sta.(*state)
	r := s.ref
	s.tag = f[0]
	if out == "PANIC" || out == "TIMEOUT" || strings.HasPrefix(out, "ERR other") {
		return "crash", out
	}
	switch f[0] {
	case "reset", "consts":
		s.tag = ""
		return "", ""
	case "nseq":
		if out != strconv.Itoa(r.counter+1) {
			return "nseq", fmt.Sprintf("got %s want %d", out, r.counter+1)
		}
	case "add":
		n, err := strconv.Atoi(out)
		if err != nil {
			return "add-seq", "AddCmd failed: " + out
		}
		text := common.Unhex(f[1])
		// never reused, strictly increasing — checked on what was actually issued
		if r.issued[n] || n <= r.maxIssued {
			return "seq-reused", fmt.Sprintf("AddCmd returned %d, largest issued so far %d", n, r.maxIssued)
		}
		if _, present := r.get(n); present {
			return "seq-reused", fmt.Sprintf("AddCmd returned %d which is in the log", n)
		}
		want := r.counter + 1
		r.issued[n] = true
		r.maxIssued = n
		r.counter = n
		r.entries = append(r.entries, storedefs.Cmd{Text: text, Seq: n})
		switch {
		case text == "":
			s.tag = "add-empty-text"
		case strings.ContainsAny(text, "\x00\xff\n\t"):
			s.tag = "add-binary-text"
		case len(r.entries) < r.counter:
			s.tag = "add-after-deletion"
		}
		if n != want {
			return "add-seq", fmt.Sprintf("AddCmd returned %d, sequential model says %d", n, want)
		}
	case "del":
		n := atoi(f[1])
		s.tag = "del-absent"
		if r.issued[n] {
			s.tag = "del-already-deleted"
		}
		for i, e := range r.entries {
			if e.Seq == n {
				r.entries = append(r.entries[:i:i], r.entries[i+1:]...)
				s.tag = "del-present"
				break
			}
		}
		if n < 0 {
			s.tag = "del-negative"
		}
		if out != "ok" {
			return "del", out
		}
		// the deletion must be visible, and must not touch the counter
		if _, err := s.st.Cmd(n); err == nil {
			return "del", fmt.Sprintf("Cmd(%d) still succeeds after DelCmd", n)
		}
	case "get":
		n := atoi(f[1])
		want := "ERR nomatch"
		s.tag = "get-miss"
		if t, ok := r.get(n); ok {
			want = common.Hex(t)
			s.tag = "get-hit"
		}
		if n < 0 {
			s.tag = "get-negative"
		}
		if out != want {
			return negClass("get", n), fmt.Sprintf("got %s want %s", out, want)
		}
	case "list":
		from, upto := atoi(f[1]), atoi(f[2])
		var want []string
		for _, e := range r.entries {
			if geBound(e.Seq, from) && ltBound(e.Seq, upto) {
				want = append(want, showCmd(e))
			}
		}
		w := "-"
		if len(want) > 0 {
			w = strings.Join(want, ",")
		}
		switch {
		case from < 0 || upto < 0:
			s.tag = "list-negative-bound"
		case len(want) == 0:
			s.tag = "list-empty"
		case len(want) == len(r.entries):
			s.tag = "list-all"
		default:
			s.tag = "list-part"
		}
		// "listings are in sequence order", on the output itself
		if out != "-" {
			prev := math.MinInt64
			for _, it := range strings.Split(out, ",") {
				n, _ := strconv.Atoi(it[:strings.IndexByte(it, ':')])
				if n <= prev {
					return "list-order", fmt.Sprintf("%d after %d", n, prev)
				}
				prev = n
			}
		}
		if out != w {
			return negClass("list", from, upto), fmt.Sprintf("got %s want %s", out, w)
		}
	case "next":
		from, p := atoi(f[1]), common.Unhex(f[2])
		want := "ERR nomatch"
		s.tag = "next-miss"
		for _, e := range r.entries {
			if geBound(e.Seq, from) && strings.HasPrefix(e.Text, p) {
				want = showCmd(e)
				s.tag = "next-hit"
				if e.Seq > from {
					s.tag = "next-hit-later"
				}
				break
			}
		}
		if from < 0 {
			s.tag = "next-negative"
		}
		if out != want {
			return negClass("next", from), fmt.Sprintf("got %s want %s", out, want)
		}
	case "prev":
		upto, p := atoi(f[1]), common.Unhex(f[2])
		want := "ERR nomatch"
		s.tag = "prev-miss"
		if len(r.entries) == 0 {
			s.tag = "prev-empty-log"
		}
		for i := len(r.entries) - 1; i >= 0; i-- {
			e := r.entries[i]
			if ltBound(e.Seq, upto) && strings.HasPrefix(e.Text, p) {
				want = showCmd(e)
				s.tag = "prev-hit"
				if upto < 0 || upto > r.entries[len(r.entries)-1].Seq {
					s.tag = "prev-hit-from-last" // the Seek-nil / Last() branch
				} else if e.Seq < upto-1 {
					s.tag = "prev-hit-earlier"
				}
				break
			}
		}
		if upto < 0 {
			s.tag = "prev-negative"
		}
		if out != want {
			return negClass("prev", upto), fmt.Sprintf("got %s want %s", out, want)
		}
	case "adddir", "addraw", "deldir":
		now, err := snapshot(s.st)
		if err != nil {
			return "crash", err.Error()
		}
		old := r.dirs
		r.dirs = now
		d := common.Unhex(f[1])
		if out != "ok" {
			s.tag = f[0] + "-error"
			// a failed update must leave no trace (bbolt rolls the transaction back)
			if (d != "" && len(d) <= 32768) || (out != "ERR keyrequired" && out != "ERR keytoolarge") {
				return "dir-error", fmt.Sprintf("%s on a %d-byte path: %s", f[0], len(d), out)
			}
			if msg := sameDirs(old, now); msg != "" {
				return "dir-error-effect", msg
			}
			return "", ""
		}
		switch f[0] {
		case "adddir":
			factor := fbits(f[2])
			_, existed := old[d]
			s.tag = "adddir-new"
			if existed {
				s.tag = "adddir-existing"
			}
			if len(old) > 60 {
				s.tag += "-multipage"
			}
			if len(now) != len(old)+map[bool]int{true: 0, false: 1}[existed] {
				return "dir-decay", fmt.Sprintf("%d entries after AddDir, %d before", len(now), len(old))
			}
			for p, x := range old {
				if p == d {
					continue
				}
				y, ok := now[p]
				if !ok || !approx(y, x*store.DirScoreDecay, math.Abs(x), 1) {
					return "dir-decay", fmt.Sprintf("%q: %v after a visit elsewhere, was %v (×%v = %v)", p, y, x, store.DirScoreDecay, x*store.DirScoreDecay)
				}
			}
			x := old[d] // 0 if absent
			want := x*store.DirScoreDecay + store.DirScoreIncrement*factor
			scale := math.Abs(x) + math.Abs(store.DirScoreIncrement*factor)
			if y, ok := now[d]; !ok || !approx(y, want, scale, 2) {
				return "dir-increment", fmt.Sprintf("%q: %v, want %v·%v + %v·%v = %v", d, y, x, store.DirScoreDecay, store.DirScoreIncrement, factor, want)
			}
		case "addraw":
			x := fbits(f[2])
			s.tag = "addraw"
			if y, ok := now[d]; !ok || !approx(y, x, math.Abs(x), 1) {
				return "dir-raw", fmt.Sprintf("%q: %v, want %v", d, y, x)
			}
			delete(old, d)
			cp := map[string]float64{}
			for p, y := range now {
				if p != d {
					cp[p] = y
				}
			}
			if msg := sameDirs(old, cp); msg != "" {
				return "dir-raw", "other entries changed: " + msg
			}
		case "deldir":
			_, existed := old[d]
			s.tag = "deldir-absent"
			if existed {
				s.tag = "deldir-present"
			}
			delete(old, d)
			if msg := sameDirs(old, now); msg != "" {
				return "dir-del", msg
			}
		}
	case "dirs":
		bl := parseBlacklist(f[1])
		type ent struct {
			p string
			x float64
		}
		var got []ent
		if out != "-" {
			for _, it := range strings.Split(out, ",") {
				i := strings.IndexByte(it, ':')
				got = append(got, ent{common.Unhex(it[:i]), fbits(it[i+1:])})
			}
		}
		s.tag = "dirs"
		if len(bl) > 0 {
			s.tag = "dirs-blacklist"
		}
		want := map[string]float64{}
		for p, x := range r.dirs {
			if _, no := bl[p]; !no {
				want[p] = x
			} else {
				s.tag = "dirs-blacklist-hit"
			}
		}
		for i := 1; i < len(got); i++ {
			if got[i-1].x < got[i].x {
				return "dirs-order", fmt.Sprintf("%v before %v", got[i-1].x, got[i].x)
			}
			if got[i-1].x == got[i].x && len(bl) == 0 {
				s.tag = "dirs-ties"
			}
		}
		gm := map[string]float64{}
		for _, e := range got {
			gm[e.p] = e.x
		}
		if len(gm) != len(got) {
			return "dirs-content", "duplicate path in listing"
		}
		if msg := sameDirs(want, gm); msg != "" {
			keys := make([]string, 0, len(want))
			for p := range want {
				keys = append(keys, p)
			}
			sort.Strings(keys)
			return "dirs-content", msg
		}
	}
	return "", ""
}
