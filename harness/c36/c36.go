// Package c36: correspondence and oracle for C36 (the Markdown formatter
// preserves meaning and is idempotent).
package c36

import (
	"encoding/json"
	"fmt"
	"os"
	"path/filepath"
	"regexp"
	"strconv"
	"strings"
	"unicode/utf8"

	"src.elv.sh/pkg/md"
	"src.elv.sh/pkg/wcwidth"
	"verifharness/c35"
	"verifharness/common"
)

func init() { common.Register("C36", run) }

func repoDir() string {
	if r := os.Getenv("VERIF_REPO"); r != "" {
		return r
	}
	return "/repo"
}

type specCase struct {
	Markdown string `json:"markdown"`
}

// supplementalFmtCases of pkg/md/fmt_test.go (test files cannot be imported).
var supplemental = []string{"foo\n01\\. bar", "foo\n001\\) bar", "> foo\n> 01\\. bar", "- foo\n  01\\. bar", "foo\n&#48;1. bar", "aaaa bbbb 01. cc", "aaaa bbbb 001) cc", "foo\n1\\. bar", "foo\n02\\. bar",
	"~~~ ~`\n~~~", "*&#32;x*", "*x&#32;*", "&#65;*!*", "*!*&#65;", "*&#32;*", `\![a](b)`, `[a](b ('"))`,
	`[a](b "\"''()")`, `[a](b '\'""()')`, `[a](b (\(''""))`, `[a](<&NewLine;>)`, "&#32;foo", "foo&#32;",
	// supplementalHTMLTestCases of testutils_test.go
	"# title {#id}", "- ```\n  a\n\n  ```\n", "> <pre>\n\na\n", "- <pre>\n a\n", "> a\n>> b\n", ">> a\n>\n> b\n", "- \n  \na\n", "a\n- -\n", "a\n- 2.\n",
	`a*$*`, `[a](\&gt;)`, `[a](b (\&gt;))`, `[a](http://( "b")`, `[a](b (()))`, `[a](http://b?c&d)`, "![a\\\nb](c.png)\n", "![a <a></a>](b.png)",
	`<http://&gt;>`, `a<`, `a<!--`, "a  \n"}

// fuzzCorpus reads pkg/md/testdata/fuzz/*/* ("go test fuzz v1" files).
func fuzzCorpus() (docs []string, widths []int) {
	files, _ := filepath.Glob(filepath.Join(repoDir(), "pkg", "md", "testdata", "fuzz", "*", "*"))
	for _, f := range files {
		data, err := os.ReadFile(f)
		if err != nil {
			continue
		}
		doc, w, have := "", 0, false
		for _, line := range strings.Split(string(data), "\n") {
			switch {
			case strings.HasPrefix(line, "string(") && strings.HasSuffix(line, ")"):
				if s, err := strconv.Unquote(line[len("string(") : len(line)-1]); err == nil {
					doc, have = s, true
				}
			case strings.HasPrefix(line, "int(") && strings.HasSuffix(line, ")"):
				w, _ = strconv.Atoi(line[len("int(") : len(line)-1])
			}
		}
		if have {
			docs = append(docs, doc)
			widths = append(widths, w)
		}
	}
	return
}

func run(c *common.Ctx) error {
	// pkg/md compiles its regular expressions on the first Render; FmtCodec.Do
	// is called directly below, so make sure that has happened.
	md.RenderString("", &md.HTMLCodec{})
	s := &common.Std{
		Rule: "whole-formatter laws (the repo's own fuzz predicates: render preserved, idempotent, reflow preserves render modulo whitespace, fits width, " +
			"unchanged under fmt; same exclusions) over spec.json, link destinations over {a ( )} in three forms, the supplemental cases, the checked-in fuzz corpus, grammar-generated and mutated " +
			"documents × widths {0,20,51,80,random}; model ops: FmtCodec.Do on a single text node (paragraph, ATX heading), code block, code span and " +
			"reflowed single-text paragraph, diffed against the Lean model of fmt.go's escaping/fence/reflow decisions; non-trivial = formatter ran " +
			"without reporting an unsupported feature; distinct by op line",
		Gen:    gen,
		Impl:   impl,
		Oracle: oracle,
		Tag:    tag,
	}
	return s.Run(c)
}

var escAtoms = []string{"a", "b", "1", "0", " ", " ", "[", "]", "*", "_", "`", "\\", "&", "<", ">", "#", "-", "+", "~", "=", ".", ")", "(", "!", "\"", "'", ";", ":",
	"é", " ", "£", "&amp;", "&#32;", "&#x41;", "&a;", "&#;", "1.", "1)", "10.", "01.", "001)", "&#48;", "- ", "---", "___", "~~~", "##", "# ", "{#i}", " {x}", "http://a", "a@b.c", "</a>", "<!--", "|"}

func gen(c *common.Ctx, emit func(...string)) {
	var spec []specCase
	if data, err := os.ReadFile(filepath.Join(repoDir(), "pkg", "md", "spec", "spec.json")); err == nil {
		json.Unmarshal(data, &spec)
	}
	widths := []int{0, 20, 51, 80}
	for _, tc := range spec {
		for _, w := range widths {
			emit("fmt", strconv.Itoa(w), common.Hex(tc.Markdown))
		}
	}
	for _, d := range supplemental {
		for _, w := range widths {
			emit("fmt", strconv.Itoa(w), common.Hex(d))
		}
	}
	fdocs, fw := fuzzCorpus()
	for i, d := range fdocs {
		emit("fmt", strconv.Itoa(fw[i]), common.Hex(d))
		if fw[i] != 0 {
			emit("fmt", "0", common.Hex(d))
		}
	}
	g := c35.NewG(c.Rand)
	n := c.Scale(5000, 60000)
	for i := 0; i < n; i++ {
		var doc string
		switch c.Rand.Intn(4) {
		case 0:
			doc = g.Mutate(common.Pick(c.Rand, spec).Markdown)
		case 1:
			doc = g.Mutate(g.Doc())
		default:
			doc = g.Doc()
		}
		w := 0
		if c.Rand.Chance(1, 2) {
			w = common.Pick(c.Rand, []int{1, 5, 10, 20, 30, 51, 80, c.Rand.Range(1, 100)})
		}
		emit("fmt", strconv.Itoa(w), common.Hex(doc))
	}
	// link destinations with parentheses: balanced, unbalanced and balanced by
	// count only (")(" ), in the angle-bracket, the escaped and the bare form
	var dests []string
	var drec func(prefix string, k int)
	drec = func(prefix string, k int) {
		if strings.ContainsAny(prefix, "()") {
			dests = append(dests, prefix)
		}
		if k == 0 {
			return
		}
		for _, a := range []string{"a", "(", ")"} {
			drec(prefix+a, k-1)
		}
	}
	drec("", c.Scale(5, 7))
	for i, d := range dests {
		esc := strings.NewReplacer("(", "\\(", ")", "\\)").Replace(d)
		for k, form := range []string{"<" + d + ">", esc, d} {
			doc := "[x](" + form + ")"
			switch (i + k) % 4 {
			case 1:
				doc = "![x](" + form + " \"t\")"
			case 2:
				doc = "a [x](" + form + " (t)) b"
			}
			emit("fmt", strconv.Itoa([]int{0, 40}[(i+k)%2]), common.Hex(doc))
		}
	}
	// raw inline HTML that spans lines, with a continuation line that looks
	// like the start of another block (the continuation is indented by four
	// columns in the source, so it is paragraph text there)
	for i, start := range []string{">", "> c", "- y", "+ y", "* y", "# y", "1. y", "2) y", "===", "---", "~~~", "```", "<div>", "_ _ _", "y"} {
		for k, form := range []string{"<b\n%s>", "<b title=\"x\n%s\">", "<b title='x\n%s z'>", "<!-- x\n%s -->", "<?x\n%s ?>", "<b\nclass=x\n%s>"} {
			for j, wrap := range []string{"a %s c", "> a %s c", "- a %s c", "1. > a %s c"} {
				indent := "    "
				switch j {
				case 1:
					indent = ">     "
				case 2:
					indent = "      "
				case 3:
					indent = "   >     "
				}
				tag := strings.ReplaceAll(fmt.Sprintf(form, start), "\n", "\n"+indent)
				emit("fmt", strconv.Itoa([]int{0, 0, 30}[(i+k+j)%3]), common.Hex(fmt.Sprintf(wrap, tag)))
			}
		}
	}
	// autolinks: URI schemes (mailto: among them, which the formatter also
	// meets as the destination of an e-mail autolink) with text that contains
	// character-reference lookalikes and characters the formatter escapes
	autoAtoms := []string{"a", "x@y.z", "&amp;", "&amp;amp;", "&#32;", "&lt;", "&gt;", "&", ";", "?b=1", "\\", "*", "_", "`", "[", "]", "(", ")", "%20", "é", "\""}
	for i := c.Scale(1500, 20000); i > 0; i-- {
		var sb strings.Builder
		for k := c.Rand.Range(0, 4); k > 0; k-- {
			sb.WriteString(common.Pick(c.Rand, autoAtoms))
		}
		scheme := common.Pick(c.Rand, []string{"mailto:", "mailto:", "MAILTO:", "http://", "a+b.c-d:", "xx:", ""})
		doc := "<" + scheme + sb.String() + ">"
		switch c.Rand.Intn(4) {
		case 0:
			doc = "see " + doc + " and <b@c.d>"
		case 1:
			doc = "- " + doc + "\n"
		}
		emit("fmt", strconv.Itoa(common.Pick(c.Rand, []int{0, 0, 20, 60})), common.Hex(doc))
	}
	// model ops
	small := []string{"a", " ", "*", "_", "-", "#", "1", ".", "&", ";", "<", ">", "~", "+", "`", "\\", "[", ")"}
	var rec func(prefix string, k int)
	rec = func(prefix string, k int) {
		if prefix != "" {
			emit("esc", common.Hex(prefix))
			if k%2 == 0 {
				emit("atx", strconv.Itoa(1+len(prefix)%6), common.Hex(prefix))
			}
		}
		if k == 0 {
			return
		}
		for _, s := range small {
			rec(prefix+s, k-1)
		}
	}
	rec("", c.Scale(3, 4))
	n = c.Scale(4000, 40000)
	for i := 0; i < n; i++ {
		var sb strings.Builder
		for k := c.Rand.Range(1, 8); k > 0; k-- {
			sb.WriteString(common.Pick(c.Rand, escAtoms))
		}
		s := sb.String()
		switch c.Rand.Intn(4) {
		case 0:
			emit("atx", strconv.Itoa(c.Rand.Range(1, 6)), common.Hex(s))
		case 1:
			if isPrintableASCII(s) {
				emit("reflow", strconv.Itoa(common.Pick(c.Rand, []int{1, 3, 5, 8, 10, 12, 20})), common.Hex(s+" "+s))
				continue
			}
			fallthrough
		default:
			emit("esc", common.Hex(s))
		}
	}
	// reflow: word lists with lengths around the width
	n = c.Scale(2000, 20000)
	for i := 0; i < n; i++ {
		var ws []string
		for k := c.Rand.Range(1, 12); k > 0; k-- {
			switch c.Rand.Intn(8) {
			case 0:
				ws = append(ws, common.Pick(c.Rand, []string{"-", "+", "#", "##", "1.", "2)", ">", "~~~", "---", "_", "-a", "1.a", "10.", "*", "&amp;", "<"}))
			default:
				ws = append(ws, strings.Repeat(common.Pick(c.Rand, []string{"a", "b", "x"}), c.Rand.Range(1, 7)))
			}
		}
		sep := " "
		if c.Rand.Chance(1, 5) {
			sep = "  "
		}
		emit("reflow", strconv.Itoa(c.Rand.Range(1, 16)), common.Hex(strings.Join(ws, sep)))
	}
	// code blocks and code spans
	n = c.Scale(2000, 20000)
	codeAtoms := []string{"a", " ", "`", "``", "```", "````", "~", "~~~", "~~~~", "x", "<b>", "&amp;", "\\", "*"}
	for i := 0; i < n; i++ {
		var sb strings.Builder
		for k := c.Rand.Range(1, 6); k > 0; k-- {
			sb.WriteString(common.Pick(c.Rand, codeAtoms))
		}
		if c.Rand.Chance(1, 2) {
			emit("span", common.Hex(sb.String()))
			continue
		}
		info := strings.Trim(common.Pick(c.Rand, []string{"", "", "go", "a b", "`", "~", "~`", "a`b", "&amp;", "a&b", "\\", "x\ny", "&", "~~~", "é"}), " ")
		var lines strings.Builder
		for k := c.Rand.Range(0, 4); k > 0; k-- {
			for j := c.Rand.Range(0, 4); j > 0; j-- {
				lines.WriteString(common.Pick(c.Rand, codeAtoms))
			}
			lines.WriteString("\n")
		}
		emit("fence", common.Hex(info), common.Hex(lines.String()))
	}
}

func isPrintableASCII(s string) bool {
	for i := 0; i < len(s); i++ {
		if s[i] < 0x20 || s[i] > 0x7e {
			return false
		}
	}
	return true
}

func textPara(s string, w int) string {
	c := &md.FmtCodec{Width: w}
	c.Do(md.Op{Type: md.OpParagraph, LineNo: 1, Content: []md.InlineOp{{Type: md.OpText, Text: s}}})
	return c.String()
}

func textHeading(n int, s string) string {
	c := &md.FmtCodec{}
	c.Do(md.Op{Type: md.OpHeading, LineNo: 1, Number: n, Content: []md.InlineOp{{Type: md.OpText, Text: s}}})
	return c.String()
}

func codeSpan(s string) string {
	c := &md.FmtCodec{}
	c.Do(md.Op{Type: md.OpParagraph, LineNo: 1, Content: []md.InlineOp{{Type: md.OpCodeSpan, Text: s}}})
	return c.String()
}

func splitLines(s string) []string {
	if s == "" {
		return nil
	}
	return strings.Split(strings.TrimSuffix(s, "\n"), "\n")
}

func codeBlock(info, lines string) string {
	c := &md.FmtCodec{}
	c.Do(md.Op{Type: md.OpCodeBlock, LineNo: 1, Info: info, Lines: splitLines(lines)})
	return c.String()
}

var escapeHTML = strings.NewReplacer("&", "&amp;", `"`, "&quot;", "<", "&lt;", ">", "&gt;").Replace

func renderHTML(s string) string { return md.RenderString(s, &md.HTMLCodec{}) }

func impl(_ any, f []string) string {
	switch f[0] {
	case "esc":
		s := common.Unhex(f[1])
		out := textPara(s, 0)
		flag := "-"
		if c35.InSubset(out) {
			flag = "0"
			if renderHTML(out) == "<p>"+escapeHTML(s)+"</p>\n" {
				flag = "1"
			}
		}
		return "F " + common.Hex(out) + " sound=" + flag
	case "atx":
		n, _ := strconv.Atoi(f[1])
		return "F " + common.Hex(textHeading(n, common.Unhex(f[2])))
	case "fence":
		return "F " + common.Hex(codeBlock(common.Unhex(f[1]), common.Unhex(f[2])))
	case "span":
		return "F " + common.Hex(codeSpan(common.Unhex(f[1])))
	case "reflow":
		w, _ := strconv.Atoi(f[1])
		return "F " + common.Hex(textPara(common.Unhex(f[2]), w))
	case "fmt":
		w, _ := strconv.Atoi(f[1])
		md.RenderString(common.Unhex(f[2]), &md.FmtCodec{Width: w})
		return "done"
	}
	return "bad-op"
}

// ---- oracle: the repo's fuzz predicates (pkg/md/fmt_test.go) ----

var (
	paragraphRe       = regexp.MustCompile(`(?s)<p>.*?</p>`)
	whitespaceRun     = regexp.MustCompile(`[ \t\n]+`)
	brWithWhitespaces = regexp.MustCompile(`[ \t\n]*<br />[ \t\n]*`)
	markersRegexp     = regexp.MustCompile(`^ *(?:(?:[-*>]|[0-9]{1,9}[.)]) *)*`)
	linkRegexp        = regexp.MustCompile(`\[.*\]\(.*\)`)
	codeSpanRegexp    = regexp.MustCompile("`.*`")
)

func coalesce(h string) string {
	return paragraphRe.ReplaceAllStringFunc(h, func(p string) string {
		body := strings.Trim(p[3:len(p)-4], " \t\n")
		body = whitespaceRun.ReplaceAllLiteralString(body, " ")
		body = brWithWhitespaces.ReplaceAllLiteralString(body, "<br />")
		return "<p>" + body + "</p>"
	})
}

// format returns the formatted text, or skip=true under the repo's exclusions.
func format(original string, w int) (formatted string, skip string) {
	if !utf8.ValidString(original) {
		return "", "invalid-utf8"
	}
	if strings.Contains(original, "\t") {
		return "", "tab"
	}
	codec := &md.FmtCodec{Width: w}
	formatted = md.RenderString(original, codec)
	if codec.Unsupported() != nil {
		return "", "unsupported-emphasis"
	}
	return formatted, ""
}

func fitsWidth(reflowed string, w int) string {
	for _, line := range strings.Split(reflowed, "\n") {
		if wcwidth.Of(line) <= w {
			continue
		}
		content := line[len(markersRegexp.FindString(line)):]
		switch {
		case !strings.Contains(content, " "):
		case strings.Contains(content, "<"):
		case linkRegexp.MatchString(content):
		case codeSpanRegexp.MatchString(content):
		default:
			return line
		}
	}
	return ""
}

func checkLaws(original string, w int) (string, string) {
	formatted, skip := format(original, w)
	if skip != "" {
		return "", ""
	}
	if w <= 0 {
		if a, b := renderHTML(original), renderHTML(formatted); a != b {
			return "fmt-changes-render", fmt.Sprintf("original %q formatted %q: HTML %q vs %q", original, formatted, a, b)
		}
		if again := md.RenderString(formatted, &md.FmtCodec{}); again != formatted {
			return "fmt-not-idempotent", fmt.Sprintf("original %q formatted %q formatted again %q", original, formatted, again)
		}
		return "", ""
	}
	if !strings.Contains(original, "<p>") && !strings.Contains(original, "</p>") {
		if a, b := coalesce(renderHTML(original)), coalesce(renderHTML(formatted)); a != b {
			return "reflow-changes-render", fmt.Sprintf("width %d original %q reflowed %q: HTML %q vs %q", w, original, formatted, a, b)
		}
	}
	if again := md.RenderString(formatted, &md.FmtCodec{}); again != formatted {
		return "reflow-not-stable-under-fmt", fmt.Sprintf("width %d original %q reflowed %q formatted %q", w, original, formatted, again)
	}
	var trace md.TraceCodec
	md.Render(original, &trace)
	for _, op := range trace.Ops() {
		switch op.Type {
		case md.OpHeading, md.OpCodeBlock, md.OpHTMLBlock:
			return "", ""
		}
	}
	if line := fitsWidth(formatted, w); line != "" {
		return "reflow-line-too-wide", fmt.Sprintf("width %d original %q: line %q", w, original, line)
	}
	return "", ""
}

func traceOf(s string) []md.Op {
	var tc md.TraceCodec
	md.Render(s, &tc)
	return tc.Ops()
}

func oneInline(ops []md.Op, typ md.OpType, it md.InlineOpType, text string) bool {
	return len(ops) == 1 && ops[0].Type == typ && len(ops[0].Content) == 1 && ops[0].Content[0].Type == it && ops[0].Content[0].Text == text
}

func oracle(_ any, f []string, out string) (string, string) {
	if out == "PANIC" || out == "TIMEOUT" {
		return "crash-" + f[0], out
	}
	switch f[0] {
	case "fmt":
		w, _ := strconv.Atoi(f[1])
		return checkLaws(common.Unhex(f[2]), w)
	case "esc":
		s := common.Unhex(f[1])
		o := textPara(s, 0)
		if !oneInline(traceOf(o), md.OpParagraph, md.OpText, s) {
			return "escape-unsound", fmt.Sprintf("text %q is written %q, which reads back as %q", s, o, md.RenderString(o, &md.TraceCodec{}))
		}
		if again := md.RenderString(o, &md.FmtCodec{}); again != o {
			return "escape-not-idempotent", fmt.Sprintf("text %q: %q then %q", s, o, again)
		}
	case "atx":
		n, _ := strconv.Atoi(f[1])
		s := common.Unhex(f[2])
		o := textHeading(n, s)
		ops := traceOf(o)
		if !oneInline(ops, md.OpHeading, md.OpText, s) || ops[0].Number != n || ops[0].Info != "" {
			return "heading-escape-unsound", fmt.Sprintf("heading text %q is written %q, which reads back as %q", s, o, md.RenderString(o, &md.TraceCodec{}))
		}
	case "span":
		s := common.Unhex(f[1])
		o := codeSpan(s)
		if !oneInline(traceOf(o), md.OpParagraph, md.OpCodeSpan, s) {
			return "code-span-unsound", fmt.Sprintf("code span %q is written %q, which reads back as %q", s, o, md.RenderString(o, &md.TraceCodec{}))
		}
	case "fence":
		info, lines := common.Unhex(f[1]), splitLines(common.Unhex(f[2]))
		o := codeBlock(info, common.Unhex(f[2]))
		ops := traceOf(o)
		if len(ops) != 1 || ops[0].Type != md.OpCodeBlock || ops[0].Info != info || strings.Join(ops[0].Lines, "\n") != strings.Join(lines, "\n") || len(ops[0].Lines) != len(lines) {
			return "code-fence-unsound", fmt.Sprintf("code block info %q lines %q is written %q, which reads back as %q", info, lines, o, md.RenderString(o, &md.TraceCodec{}))
		}
	case "reflow":
		w, _ := strconv.Atoi(f[1])
		s := common.Unhex(f[2])
		o := textPara(s, w)
		a := coalesce("<p>" + escapeHTML(s) + "</p>\n")
		if b := coalesce(renderHTML(o)); a != b {
			return "reflow-changes-render", fmt.Sprintf("width %d text %q reflowed %q: HTML %q, want %q", w, s, o, b, a)
		}
		if again := md.RenderString(o, &md.FmtCodec{}); again != o {
			return "reflow-not-stable-under-fmt", fmt.Sprintf("width %d text %q reflowed %q formatted %q", w, s, o, again)
		}
		if line := fitsWidth(o, w); line != "" {
			return "reflow-line-too-wide", fmt.Sprintf("width %d text %q: line %q", w, s, line)
		}
	}
	return "", ""
}

func tag(f []string, out string) string {
	switch f[0] {
	case "fmt":
		w, _ := strconv.Atoi(f[1])
		_, skip := format(common.Unhex(f[2]), w)
		if skip != "" {
			return ""
		}
		if w > 0 {
			return "laws:reflow"
		}
		return "laws:plain"
	case "esc":
		if strings.HasSuffix(out, "sound=-") {
			return "esc:outside-reference"
		}
		return "esc"
	}
	return f[0]
}
