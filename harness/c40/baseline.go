package c40

import (
	_ "embed"
	"strings"
)

//go:embed sites.baseline
var baselineText string

// baselineSet is the committed site list (the code the accounting model was
// written against), keyed file:function:kind:ordinal.
func baselineSet() map[string]bool {
	m := map[string]bool{}
	for _, l := range strings.Split(baselineText, "\n") {
		l = strings.TrimSpace(l)
		if l == "" || strings.HasPrefix(l, "#") {
			continue
		}
		m[strings.Fields(l)[0]] = true
	}
	return m
}
