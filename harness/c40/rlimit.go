package c40

import (
	"os"
	"sort"
	"strconv"
	"syscall"
)

// openFdNumbers lists the descriptor numbers open in this process.
func openFdNumbers() []int {
	d, err := os.Open("/proc/self/fd")
	if err != nil {
		return nil
	}
	self := int(d.Fd())
	names, _ := d.Readdirnames(-1)
	d.Close()
	var out []int
	for _, n := range names {
		if v, err := strconv.Atoi(n); err == nil && v != self {
			out = append(out, v)
		}
	}
	sort.Ints(out)
	return out
}

// withFdBudget runs f with the soft RLIMIT_NOFILE lowered so that exactly
// `budget` more descriptors can be opened (the descriptor table is first made
// dense by filling holes with /dev/null handles, since the kernel hands out
// the lowest free number and the limit bounds the number, not the count).
func withFdBudget(budget int, f func()) (ok bool) {
	var old syscall.Rlimit
	if syscall.Getrlimit(syscall.RLIMIT_NOFILE, &old) != nil {
		return false
	}
	var fillers []*os.File
	defer func() {
		for _, x := range fillers {
			x.Close()
		}
	}()
	for {
		nums := openFdNumbers()
		max := -1
		if len(nums) > 0 {
			max = nums[len(nums)-1]
		}
		if len(nums) == max+1 {
			break // dense: 0..max all in use
		}
		x, err := os.Open(os.DevNull)
		if err != nil {
			return false
		}
		fillers = append(fillers, x)
		if len(fillers) > 4096 {
			return false
		}
	}
	nums := openFdNumbers()
	lim := old
	lim.Cur = uint64(len(nums) + budget)
	if lim.Cur > old.Max {
		return false
	}
	if syscall.Setrlimit(syscall.RLIMIT_NOFILE, &lim) != nil {
		return false
	}
	defer syscall.Setrlimit(syscall.RLIMIT_NOFILE, &old)
	f()
	return true
}
