// Package c40: correspondence and oracle for C40 (finished evaluations leave no
// file descriptors or goroutines behind).
//
// Every op is one generated elvish program, evaluated `runs` times on ONE
// in-process Evaler.  Implementation line: the outcome class and what the
// resource-site counters of pkg/eval (build tag verif, hooks/C40-resource-
// counters.patch) recorded for one run — descriptors opened, Close calls on
// owned files, goroutines started — followed by the measured growth of
// /proc/self/fd and runtime.NumGoroutine over all runs.  The Lean driver
// recomputes the same line from the program's op tree with the accounting model.
// The oracle looks at the measurement only.
package c40

import (
	"fmt"
	"os"
	"path/filepath"
	"runtime"
	"runtime/debug"
	"strconv"
	"strings"
	"time"

	"verifharness/common"
)

func init() { common.Register("C40", run) }

type state struct {
	r     *runner
	sites map[string]site
	base  map[string]bool
	// last measurement, shared between Impl and Oracle of the same op
	constructs          map[string]int // programs containing each construct of the op tree
	emfile              map[string]int // outcome classes of the runs under a descriptor budget
	tGC, tProg, tBudget time.Duration
	nProg, hangs        int
	lastOp              string
	last                measurement
}

func run(c *common.Ctx) error {
	dir := filepath.Join(c.Dir, "c40-files")
	r, err := newRunner(dir)
	if err != nil {
		return err
	}
	repo := os.Getenv("VERIF_REPO")
	if repo == "" {
		repo = "/repo"
	}
	ss, err := extractSites(filepath.Join(repo, "pkg", "eval"))
	if err != nil {
		return err
	}
	// the regenerated list, for updating sites.baseline after a reviewed change
	// of the code and of the model (kept with `./check C40 --keep`)
	var sb strings.Builder
	for _, s := range ss {
		sb.WriteString(s.Key + "\n")
	}
	os.WriteFile(filepath.Join(c.Dir, "sites.now"), []byte(sb.String()), 0o644)
	st := &state{r: r, sites: map[string]site{}, base: baselineSet(), constructs: map[string]int{}, emfile: map[string]int{}}
	for _, s := range ss {
		st.sites[s.Key] = s
	}
	debug.SetGCPercent(-1) // see impl: the collector runs between ops only
	runs := c.Scale(12, 50)
	s := &common.Std{
		Rule: fmt.Sprintf("site ops: every os.Pipe/os.Open*/go/Close/Wait site of $VERIF_REPO/pkg/eval/*.go (go/ast, keyed file:function:kind:ordinal); "+
			"prog ops: enumerated small programs (every stage kind at every position of pipelines of ≤3 forms and failing/early-exiting/draining stages at every position of 4, "+
			"every single redirection dst×mode×source, all pairs and triples of open/dup/override/close/failing redirections on fds 1,3,4 alone and on a form that owns pipe ports, "+
			"captures / exception captures / run-parallel / each / peach around failing bodies) + random op trees (pipelines ≤4 forms, ≤3 redirections per form, nesting ≤5) "+
			"+ the same under a descriptor budget (RLIMIT_NOFILE lowered so that the k-th open fails, k=0..9); each program run %d× on one Evaler; "+
			"non-trivial = the program opens a descriptor or starts a goroutine; distinct by op line", runs),
		Timeout: 60 * time.Second,
		Gen: func(c *common.Ctx, emit func(...string)) {
			for _, s := range ss {
				emit("site", s.Key)
			}
			// baseline sites that are no longer in the code
			for k := range st.base {
				if _, ok := st.sites[k]; !ok {
					emit("gone-site", k)
				}
			}
			prog := func(mode string, budget int, ch *chunk) {
				b := "-"
				if budget >= 0 {
					b = strconv.Itoa(budget)
				}
				emit("prog", mode, b, strconv.Itoa(runs), common.Hex(ch.code()), encode(ch))
			}
			// (the witnesses of C40_counterexample are in harness/corpus/C40.txt)
			enumerated(func(ch *chunk) {
				mode := "det"
				if !ch.deterministic() {
					mode = "net"
				}
				prog(mode, -1, ch)
			})
			n := c.Scale(700, 8000)
			for i := 0; i < n; i++ {
				ch, det := randomProgram(c.Rand)
				mode := "det"
				if !det {
					mode = "net"
				}
				prog(mode, -1, ch)
			}
			// descriptor exhaustion in the middle of a pipeline: every budget for
			// pipelines of 2..4 forms whose first form finishes at once / blocks on
			// its output until its reader goes away
			for nf := 2; nf <= 4; nf++ {
				for _, first := range []string{"ok", "gone", "drain"} {
					for b := 0; b <= 2*nf; b++ {
						forms := make([]*form, nf)
						for i := range forms {
							forms[i] = &form{body: leaf("ok")}
						}
						forms[0] = &form{body: leaf(first)}
						prog("net", b, one(forms...))
					}
				}
			}
			// descriptor exhaustion: which open fails depends on the schedule, so
			// only the net effect is compared
			n = c.Scale(250, 2500)
			for i := 0; i < n; i++ {
				ch, _ := randomProgram(c.Rand)
				prog("net", c.Rand.Intn(10), ch)
			}
		},
		NewState: func(c *common.Ctx) any { return st },
		Impl:     impl,
		Oracle:   oracle,
		Tag:      tag,
	}
	c.Extra["timing"] = st
	c.Extra["programs_containing"] = st.constructs
	c.Extra["runs_under_descriptor_budget_by_outcome"] = st.emfile
	err = s.Run(c)
	return err
}

func (st *state) MarshalJSON() ([]byte, error) {
	return []byte(fmt.Sprintf(`{"gc_s":%.1f,"programs_s":%.1f,"budget_programs_s":%.1f}`,
		st.tGC.Seconds(), st.tProg.Seconds(), st.tBudget.Seconds())), nil
}

// constructsOf names the constructs of an encoded op tree (for the evidence:
// which branches of the model the generated programs reach).
func constructsOf(tree string) map[string]bool {
	out := map[string]bool{}
	toks := strings.Fields(tree)
	opened := false // a redirection of the current form opened a file
	for i, t := range toks {
		switch t {
		case "F":
			opened = false
		case "R":
			// R dst mode src…
			if i+3 < len(toks) {
				src := toks[i+3]
				out["redir:"+src] = true
				if toks[i+1] != "-" {
					out["redir:explicit-fd"] = true
				}
				failing := src == "file0" || src == "bad"
				if failing && opened {
					out["redir:fails-after-an-earlier-one-opened-a-file"] = true
				}
				if src == "file1" {
					opened = true
				}
			}
		case "P":
			if i+3 < len(toks) {
				if toks[i+2] != "-" {
					out["pipeline:os.Pipe-fails"] = true
				}
				out["pipeline:"+toks[i+3]+"-forms"] = true
			}
		case "exc", "gone", "cancel", "sleep", "drain", "ob", "ov", "blk", "ecap", "peach", "par", "each":
			out["op:"+t] = true
		case "cap":
			if i > 0 && (toks[i-1] == "r" || toks[i-1] == "w" || toks[i-1] == "a" || toks[i-1] == "rw") {
				out["redir:cap"] = true
			} else {
				out["op:cap"] = true
			}
		}
	}
	return out
}

// flushFinalizers collects garbage and waits until the finalizers queued by
// that collection have run (a leaked *os.File is closed by its finalizer; this
// must not happen in the middle of a later program's measurement).
func flushFinalizers() {
	runtime.GC()
	done := make(chan struct{})
	sentinel := new([16]byte)
	runtime.SetFinalizer(sentinel, func(*[16]byte) { close(done) })
	sentinel = nil
	runtime.GC()
	select {
	case <-done:
	case <-time.After(200 * time.Millisecond):
	}
}

// A program that has not returned after hangAfter is a hang (programs take
// milliseconds); after maxHangs of them the remaining programs are skipped.
const (
	hangAfter = 10 * time.Second
	maxHangs  = 3
)

type witness struct {
	budget int
	c      *chunk
}

// witnesses are the programs of C40_counterexample (ElvProofs/C40.lean): a
// pipeline of three forms whose second os.Pipe fails.  They are replayed from
// harness/corpus/C40.txt, which was written from this list.
func witnesses() []witness {
	nop3 := one(&form{body: leaf("ok")}, &form{body: leaf("ok")}, &form{body: leaf("ok")})
	nop3.ps[0].failAt = 1
	blocked := one(&form{body: leaf("gone")}, &form{body: leaf("ok")}, &form{body: leaf("ok")})
	blocked.ps[0].failAt = 1
	nop4 := one(&form{body: leaf("ok")}, &form{body: leaf("ok")}, &form{body: leaf("ok")}, &form{body: leaf("ok")})
	nop4.ps[0].failAt = 2
	return []witness{{2, nop3}, {2, blocked}, {4, nop4}}
}

func impl(sta any, f []string) string {
	st := sta.(*state)
	switch f[0] {
	case "site":
		if _, ok := st.sites[f[1]]; ok {
			return "covered"
		}
		return "absent"
	case "gone-site":
		return "absent"
	case "prog":
		runs, _ := strconv.Atoi(f[3])
		st.r.budget = -1
		if f[2] != "-" {
			st.r.budget, _ = strconv.Atoi(f[2])
		}
		// a leaked *os.File would be closed by its finalizer at the next GC:
		// the collector is off while programs are measured and runs between
		// ops only (every 64th)
		t0 := time.Now()
		if st.nProg%64 == 0 {
			flushFinalizers()
		}
		st.nProg++
		t1 := time.Now()
		if st.hangs >= maxHangs {
			// every hang leaves an evaluation running in the background; after a
			// few of them the measurements are no longer meaningful
			st.lastOp = ""
			return "SKIPPED-after-hangs"
		}
		mch := make(chan measurement, 1)
		code := common.Unhex(f[4])
		go func() { mch <- st.r.measure(code, runs) }()
		var m measurement
		select {
		case m = <-mch:
		case <-time.After(hangAfter):
			st.hangs++
			st.lastOp = ""
			return "TIMEOUT"
		}
		st.tGC += t1.Sub(t0)
		if f[2] != "-" {
			st.tBudget += time.Since(t1)
		} else {
			st.tProg += time.Since(t1)
		}
		st.lastOp, st.last = strings.Join(f, "\t"), m
		for k := range constructsOf(f[5]) {
			st.constructs[k]++
		}
		if f[2] != "-" {
			for k, v := range m.outcomes {
				st.emfile[k] += v
			}
		}
		net := fmt.Sprintf("%d %d", m.fdGrowth, m.goGrowth)
		if f[1] != "det" {
			return "* * * * " + net
		}
		if !m.stable {
			return fmt.Sprintf("UNSTABLE %v %d %d %d %s", m.outcomes, m.opened, m.closes, m.spawns, net)
		}
		return fmt.Sprintf("%s %d %d %d %s", m.outcome, m.opened, m.closes, m.spawns, net)
	}
	return "bad-op"
}

// oracle: C40 evaluated on the real code — after the evaluations returned, the
// process has as many descriptors and goroutines as before; and the code has no
// resource site the accounting model does not know.
func oracle(sta any, f []string, out string) (string, string) {
	st := sta.(*state)
	switch f[0] {
	case "site":
		s := st.sites[f[1]]
		if !st.base[f[1]] {
			if s.isAcquire() {
				return "new-resource-site", fmt.Sprintf("%s at %s is not in the baseline harness/c40/sites.baseline: the accounting model does not cover it", f[1], s.Pos)
			}
			return "new-release-site", fmt.Sprintf("%s at %s is not in the baseline harness/c40/sites.baseline", f[1], s.Pos)
		}
		return "", ""
	case "gone-site":
		return "resource-site-removed", fmt.Sprintf("%s is in the baseline but no longer in pkg/eval: the accounting model describes code that is gone", f[1])
	case "prog":
		if out == "PANIC" {
			return "crash", "the evaluation panicked: " + common.Unhex(f[4])
		}
		if out == "TIMEOUT" {
			return "hang", "the evaluation did not return: " + common.Unhex(f[4])
		}
		if st.lastOp != strings.Join(f, "\t") {
			return "", ""
		}
		m := st.last
		prog := common.Unhex(f[4])
		if f[2] != "-" {
			prog += "   [descriptor budget " + f[2] + "]"
		}
		if m.outcomes["parse"] > 0 || m.outcomes["nobudget"] > 0 {
			return "bad-program", fmt.Sprintf("%v: %s", m.outcomes, prog)
		}
		if m.fdGrowth > 0 {
			return "fd-leak", fmt.Sprintf("%d descriptors (and %d goroutines) more after %s runs of: %s  [outcomes %v]", m.fdGrowth, m.goGrowth, f[3], prog, m.outcomes)
		}
		if m.goGrowth > 0 {
			return "goroutine-leak", fmt.Sprintf("%d goroutines more after %s runs of: %s  [outcomes %v]", m.goGrowth, f[3], prog, m.outcomes)
		}
		if m.fdGrowth < 0 {
			return "closed-foreign-fd", fmt.Sprintf("%d descriptors fewer after %s runs of: %s", -m.fdGrowth, f[3], prog)
		}
		if _, err := st.r.obj.Stat(); err != nil {
			return "closed-foreign-fd", "the harness's file object was closed by: " + prog
		}
	}
	return "", ""
}

func tag(f []string, out string) string {
	switch f[0] {
	case "site", "gone-site":
		return "site"
	}
	if f[0] != "prog" {
		return ""
	}
	t := f[1]
	if f[2] != "-" {
		t = "emfile"
	}
	fs := strings.Fields(out)
	if len(fs) < 6 {
		return t + "/" + out
	}
	if t == "det" {
		if fs[1] == "0" && fs[3] == "0" {
			return "" // opens nothing, starts nothing
		}
		return "det/" + fs[0]
	}
	return t
}
