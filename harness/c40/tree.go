package c40

import (
	"fmt"
	"strings"
)

// The op tree of lean/ElvModel/C40/Resources.lean, with what is needed to
// render it as an elvish program.  enc() is the prefix encoding the Lean driver
// decodes (see ElvModel/C40/Driver.lean); code() is the program.

type chunk struct{ ps []*pipeline }

type pipeline struct {
	failAt int // -1: every os.Pipe succeeds
	forms  []*form
}

type form struct {
	redirs []*redir
	body   *op
}

type redir struct {
	dst  int    // -1: default destination of the mode
	mode string // r w a rw
	src  *src
}

type src struct {
	kind   string // file0 file1 fd close bad obj cap
	n      int    // fd
	c      *chunk // cap
	pipeOk bool   // cap
	ok     bool   // cap: the open succeeds
	file   int    // which scratch file (rendering only)
}

type op struct {
	kind    string // ok exc gone cancel sleep drain ob ov blk cap ecap peach par each
	text    string // rendering of a leaf (ok / exc / gone)
	c       *chunk
	cs      []*chunk
	via     bool // peach: items come from the input pipe
	pipeOk  bool // cap
	items   int  // peach / each: number of items (all run the same body cs[0])
	mayFail bool // peach: the callback may raise (later items are then skipped, or not)
}

func b2s(b bool) string {
	if b {
		return "1"
	}
	return "0"
}

func (c *chunk) enc(sb *strings.Builder) {
	fmt.Fprintf(sb, "C %d ", len(c.ps))
	for _, p := range c.ps {
		p.enc(sb)
	}
}

func (p *pipeline) enc(sb *strings.Builder) {
	fa := "-"
	if p.failAt >= 0 {
		fa = fmt.Sprint(p.failAt)
	}
	fmt.Fprintf(sb, "P 0 %s %d ", fa, len(p.forms))
	for _, f := range p.forms {
		f.enc(sb)
	}
}

func (f *form) enc(sb *strings.Builder) {
	fmt.Fprintf(sb, "F %d ", len(f.redirs))
	for _, r := range f.redirs {
		r.enc(sb)
	}
	f.body.enc(sb)
}

func (r *redir) enc(sb *strings.Builder) {
	d := "-"
	if r.dst >= 0 {
		d = fmt.Sprint(r.dst)
	}
	fmt.Fprintf(sb, "R %s %s ", d, r.mode)
	switch r.src.kind {
	case "fd":
		fmt.Fprintf(sb, "fd %d ", r.src.n)
	case "cap":
		fmt.Fprintf(sb, "cap %s ", b2s(r.src.pipeOk))
		r.src.c.enc(sb)
		fmt.Fprintf(sb, "%s ", b2s(r.src.ok))
	default:
		sb.WriteString(r.src.kind + " ")
	}
}

func (o *op) enc(sb *strings.Builder) {
	switch o.kind {
	case "blk":
		sb.WriteString("blk ")
		o.c.enc(sb)
	case "cap":
		fmt.Fprintf(sb, "cap %s ", b2s(o.pipeOk))
		o.c.enc(sb)
	case "ecap":
		sb.WriteString("ecap ")
		o.c.enc(sb)
	case "peach":
		fmt.Fprintf(sb, "peach %s %d ", b2s(o.via), o.items)
		for i := 0; i < o.items; i++ {
			o.cs[0].enc(sb)
		}
	case "each":
		fmt.Fprintf(sb, "each %d ", o.items)
		for i := 0; i < o.items; i++ {
			o.cs[0].enc(sb)
		}
	case "par":
		fmt.Fprintf(sb, "par %d ", len(o.cs))
		for _, c := range o.cs {
			c.enc(sb)
		}
	default:
		sb.WriteString(o.kind + " ")
	}
}

func encode(c *chunk) string {
	var sb strings.Builder
	c.enc(&sb)
	return strings.TrimSpace(sb.String())
}

// ---- rendering ------------------------------------------------------------------

func (c *chunk) code() string {
	parts := make([]string, len(c.ps))
	for i, p := range c.ps {
		parts[i] = p.code()
	}
	return strings.Join(parts, "; ")
}

func (p *pipeline) code() string {
	parts := make([]string, len(p.forms))
	for i, f := range p.forms {
		parts[i] = f.code()
	}
	return strings.Join(parts, " | ")
}

func (f *form) code() string {
	s := f.body.code()
	for _, r := range f.redirs {
		s += " " + r.code()
	}
	return s
}

func (r *redir) code() string {
	sign := map[string]string{"r": "<", "w": ">", "a": ">>", "rw": "<>"}[r.mode]
	s := ""
	if r.dst >= 0 {
		s = fmt.Sprint(r.dst)
	}
	s += sign
	switch r.src.kind {
	case "file1":
		if r.mode == "r" {
			return s + " $c40d/empty"
		}
		return s + fmt.Sprintf(" $c40d/f%d", r.src.file)
	case "file0":
		return s + " $c40d/nodir/x"
	case "fd":
		return s + fmt.Sprintf("&%d", r.src.n)
	case "close":
		return s + "&-"
	case "bad":
		return s + "&zz"
	case "obj":
		return s + " $c40f"
	case "cap":
		path := fmt.Sprintf("$c40d/f%d", r.src.file)
		if r.mode == "r" {
			path = "$c40d/empty"
		}
		if !r.src.ok {
			path = "$c40d/nodir/x"
		}
		body := r.src.c.code()
		if body != "" {
			body += "; "
		}
		return s + " (" + body + "put " + path + ")"
	}
	return s + " ?"
}

func itemList(n int) string {
	xs := make([]string, n)
	for i := range xs {
		xs[i] = fmt.Sprintf("i%d", i)
	}
	return strings.Join(xs, " ")
}

func (o *op) code() string {
	switch o.kind {
	case "ok", "exc", "gone":
		return o.text
	case "cancel":
		return "c40-cancel"
	case "sleep":
		return "sleep 0.002"
	case "drain":
		return "each $nop~"
	case "ob":
		return "only-bytes"
	case "ov":
		return "only-values"
	case "blk":
		return "{ " + o.c.code() + " }"
	case "cap":
		return "nop (" + o.c.code() + ")"
	case "ecap":
		return "nop ?(" + o.c.code() + ")"
	case "peach":
		if o.via {
			return "peach {|_| " + o.cs[0].code() + " }"
		}
		return "peach {|_| " + o.cs[0].code() + " } [" + itemList(o.items) + "]"
	case "each":
		return "each {|_| " + o.cs[0].code() + " } [" + itemList(o.items) + "]"
	case "par":
		parts := make([]string, len(o.cs))
		for i, c := range o.cs {
			parts[i] = "{ " + c.code() + " }"
		}
		return "run-parallel " + strings.Join(parts, " ")
	}
	return "nop"
}

// ---- static facts used by the generator ------------------------------------

// readsStdin: does running the chunk read the frame's port 0?
func (c *chunk) readsStdin() bool {
	for _, p := range c.ps {
		if len(p.forms) > 0 && p.forms[0].readsStdin() {
			return true
		}
	}
	return false
}

func (f *form) readsStdin() bool {
	for _, r := range f.redirs {
		if r.src.kind == "cap" && r.src.c.readsStdin() {
			return true
		}
	}
	return f.body.readsStdin()
}

func (o *op) readsStdin() bool {
	switch o.kind {
	case "drain", "ob", "ov":
		return true
	case "peach":
		return o.via
	case "blk", "cap", "ecap":
		return o.c.readsStdin()
	case "par", "each":
		for _, c := range o.cs {
			if c.readsStdin() {
				return true
			}
		}
	}
	return false
}

// walk visits every op of the tree with the nesting context: conc is true
// inside something that runs concurrently with a sibling (a pipeline of ≥ 2
// forms, peach, run-parallel).
func (c *chunk) walk(conc, inPeach bool, visit func(o *op, conc, inPeach bool)) {
	for _, p := range c.ps {
		cc := conc || len(p.forms) > 1
		for _, f := range p.forms {
			for _, r := range f.redirs {
				if r.src.kind == "cap" {
					r.src.c.walk(cc, inPeach, visit)
				}
			}
			f.body.walk(cc, inPeach, visit)
		}
	}
}

func (o *op) walk(conc, inPeach bool, visit func(o *op, conc, inPeach bool)) {
	visit(o, conc, inPeach)
	switch o.kind {
	case "blk", "cap", "ecap":
		o.c.walk(conc, inPeach, visit)
	case "peach":
		o.cs[0].walk(true, true, visit)
	case "par":
		for _, c := range o.cs {
			c.walk(conc || len(o.cs) > 1, inPeach, visit)
		}
	case "each":
		o.cs[0].walk(conc, inPeach, visit)
	}
}

// deterministic: the counters of the program do not depend on the schedule.
// Not so when the interrupt is raised while something else runs concurrently,
// or when a peach callback fails (later items are then skipped, or not).
func (c *chunk) deterministic() bool {
	det := true
	hasCancel, hasPeach := false, false
	c.walk(false, false, func(o *op, conc, inPeach bool) {
		switch o.kind {
		case "cancel":
			hasCancel = true
			if conc {
				det = false
			}
		case "peach":
			hasPeach = true
			if o.mayFail {
				det = false
			}
		}
	})
	if hasCancel && hasPeach {
		det = false
	}
	return det
}
