package c40

import (
	"fmt"
	"go/ast"
	"go/parser"
	"go/token"
	"os"
	"path/filepath"
	"sort"
	"strings"
)

// A resource site of pkg/eval: a call that opens a descriptor, a go statement,
// or a Close/Wait call that releases/joins one.  Sites are keyed by
// file:function:kind:ordinal (ordinal = position among the sites of the same
// kind in the same function, in source order), never by line number.
type site struct {
	Key  string
	Kind string // os.Pipe os.OpenFile os.Open os.Create os.NewFile os.StartProcess go Close Wait
	Pos  string // file:line, for messages only
}

// isAcquire: a site that creates a descriptor or a goroutine.
func (s site) isAcquire() bool { return s.Kind != "Close" && s.Kind != "Wait" }

// extractSites parses every non-test, non-hook Go file of dir.
func extractSites(dir string) ([]site, error) {
	ents, err := os.ReadDir(dir)
	if err != nil {
		return nil, err
	}
	var out []site
	fset := token.NewFileSet()
	for _, e := range ents {
		name := e.Name()
		if e.IsDir() || !strings.HasSuffix(name, ".go") || strings.HasSuffix(name, "_test.go") ||
			strings.HasSuffix(name, "_verif.go") || strings.HasSuffix(name, "_noverif.go") {
			continue
		}
		f, err := parser.ParseFile(fset, filepath.Join(dir, name), nil, parser.SkipObjectResolution)
		if err != nil {
			return nil, err
		}
		for _, d := range f.Decls {
			switch d := d.(type) {
			case *ast.FuncDecl:
				fn := d.Name.Name
				if d.Recv != nil && len(d.Recv.List) > 0 {
					fn = recvName(d.Recv.List[0].Type) + "." + fn
				}
				out = append(out, sitesIn(fset, name, fn, d)...)
			case *ast.GenDecl:
				// package-level initialisers (var x = f())
				out = append(out, sitesIn(fset, name, "(package)", d)...)
			}
		}
	}
	sort.Slice(out, func(i, j int) bool { return out[i].Key < out[j].Key })
	return out, nil
}

func recvName(e ast.Expr) string {
	switch e := e.(type) {
	case *ast.StarExpr:
		return recvName(e.X)
	case *ast.Ident:
		return e.Name
	case *ast.IndexExpr:
		return recvName(e.X)
	}
	return "?"
}

func sitesIn(fset *token.FileSet, file, fn string, n ast.Node) []site {
	counts := map[string]int{}
	var out []site
	add := func(kind string, pos token.Pos) {
		k := counts[kind]
		counts[kind]++
		p := fset.Position(pos)
		out = append(out, site{Key: fmt.Sprintf("%s:%s:%s:%d", file, fn, kind, k), Kind: kind,
			Pos: fmt.Sprintf("%s:%d", file, p.Line)})
	}
	ast.Inspect(n, func(n ast.Node) bool {
		switch n := n.(type) {
		case *ast.GoStmt:
			add("go", n.Pos())
		case *ast.CallExpr:
			sel, ok := n.Fun.(*ast.SelectorExpr)
			if !ok {
				return true
			}
			if x, ok := sel.X.(*ast.Ident); ok && x.Name == "os" {
				switch sel.Sel.Name {
				case "Pipe", "OpenFile", "Open", "Create", "NewFile", "StartProcess", "CreateTemp":
					add("os."+sel.Sel.Name, n.Pos())
				}
				return true
			}
			if len(n.Args) == 0 && (sel.Sel.Name == "Close" || sel.Sel.Name == "Wait") {
				add(sel.Sel.Name, n.Pos())
			}
		}
		return true
	})
	return out
}
