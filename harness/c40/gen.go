package c40

import (
	"fmt"

	"verifharness/common"
)

// gctx is what the generator knows about the frame a piece of code will run
// in; it keeps generated programs inside the property's quantifier (they
// return) and, where claimed, schedule-independent.
type gctx struct {
	depth    int
	outPlain bool // port 1 takes bytes and values and has a reader that never goes away
	stdinOK  bool // port 0 reaches EOF / a closed channel by itself
	goneOK   bool // port 1 is a pipeline pipe whose reader never reads: `range 100000` ends with reader-gone
	noFail   bool // nothing here may raise (callback of a peach whose counters must not depend on the schedule)
	noCancel bool // no c40-cancel / sleep here
}

type gen struct {
	r        *common.Rand
	files    int
	hasPeach bool
}

func (g *gen) file() int { g.files++; return g.files % 6 }

func (g *gen) leafOK(cx gctx) *op {
	text := "nop"
	if cx.outPlain {
		text = common.Pick(g.r, []string{"nop", "echo x", "put x", "put a b"})
	}
	return &op{kind: "ok", text: text}
}

func (g *gen) chunk(cx gctx, maxP int) *chunk {
	n := 1
	switch {
	case maxP <= 1:
	case g.r.Chance(1, 12):
		n = 0
	case g.r.Chance(1, 3):
		n = 2
	case g.r.Chance(1, 8):
		n = 3
	}
	c := &chunk{}
	for i := 0; i < n; i++ {
		c.ps = append(c.ps, g.pipeline(cx))
	}
	return c
}

func (g *gen) pipeline(cx gctx) *pipeline {
	n := 1
	if cx.depth < 4 {
		switch x := g.r.Intn(10); {
		case x < 4:
			n = 1
		case x < 7:
			n = 2
		case x < 9:
			n = 3
		default:
			n = 4
		}
	}
	p := &pipeline{failAt: -1}
	// peach fed by the pipe: `put i0 … | peach {…}` as the first two forms
	if n >= 2 && cx.depth < 3 && g.r.Chance(1, 8) {
		k := g.r.Range(0, 3)
		feeder := &form{body: &op{kind: "ok", text: "put " + itemList(k)}}
		if k == 0 {
			feeder.body.text = "nop"
		}
		forms := []*form{feeder, {body: g.peach(cx.sub(n == 2), true, k)}}
		for i := 2; i < n; i++ {
			c2 := cx.sub(i == n-1)
			c2.stdinOK = true
			forms = append(forms, g.form(c2))
		}
		p.forms = forms
		return p
	}
	forms := make([]*form, n)
	// right to left: whether a form may end with reader-gone depends on its successor
	for i := n - 1; i >= 0; i-- {
		c2 := cx
		c2.depth++
		if i < n-1 {
			c2.outPlain = false
			c2.goneOK = !forms[i+1].readsStdin() && !cx.noFail
		}
		if i > 0 {
			c2.stdinOK = true
		}
		if n > 1 {
			// a concurrent sibling exists: the interrupt would make the counters schedule-dependent;
			// allowed, the program is then compared on its net effect only
		}
		forms[i] = g.form(c2)
	}
	p.forms = forms
	return p
}

// sub is the context of a non-first form of a pipeline.
func (cx gctx) sub(last bool) gctx {
	c2 := cx
	c2.depth++
	c2.stdinOK = true
	if !last {
		c2.outPlain = false
		c2.goneOK = false
	}
	return c2
}

func (g *gen) form(cx gctx) *form {
	f := &form{}
	nr := 0
	if g.r.Chance(2, 5) {
		nr = g.r.Range(1, 3)
	}
	for i := 0; i < nr; i++ {
		rd := g.redir(cx)
		f.redirs = append(f.redirs, rd)
		dst := rd.dst
		if dst < 0 {
			dst = map[string]int{"r": 0}[rd.mode]
			if rd.mode != "r" {
				dst = 1
			}
		}
		if dst == 1 {
			cx.outPlain = false
			cx.goneOK = false
		}
		if dst == 0 {
			cx.stdinOK = rd.mode == "r" && (rd.src.kind == "file1" || rd.src.kind == "obj" || (rd.src.kind == "cap" && rd.src.ok))
		}
	}
	f.body = g.body(cx)
	return f
}

func (g *gen) redir(cx gctx) *redir {
	rd := &redir{dst: -1}
	if g.r.Chance(1, 2) {
		rd.dst = common.Pick(g.r, []int{0, 1, 1, 2, 3, 3, 4, 5})
	}
	rd.mode = common.Pick(g.r, []string{"r", "w", "w", "w", "a", "rw"})
	kinds := []string{"file1", "file1", "file1", "fd", "fd", "close", "obj", "cap"}
	if !cx.noFail {
		kinds = append(kinds, "file0", "bad")
	}
	k := common.Pick(g.r, kinds)
	if cx.depth >= 4 && k == "cap" {
		k = "file1"
	}
	s := &src{kind: k, file: g.file()}
	switch k {
	case "fd", "close", "bad":
		if rd.mode == "a" || rd.mode == "rw" {
			rd.mode = "w"
		}
	}
	switch k {
	case "fd":
		if cx.noFail {
			s.n = g.r.Intn(3)
		} else {
			s.n = common.Pick(g.r, []int{0, 1, 2, 2, 3, 3, 4, 7})
		}
	case "cap":
		c2 := cx
		c2.depth += 2
		c2.outPlain = false // the capture must yield exactly the file name
		c2.goneOK = false
		s.pipeOk = true
		s.ok = cx.noFail || g.r.Chance(4, 5)
		s.c = g.chunk(c2, 2)
	}
	rd.src = s
	return rd
}

func (g *gen) peach(cx gctx, via bool, items int) *op {
	g.hasPeach = true
	c2 := cx
	c2.depth += 2
	c2.stdinOK = true // DummyInputPort
	c2.goneOK = false
	c2.outPlain = false // callbacks share port 1; keep them quiet
	if g.r.Chance(3, 4) {
		c2.noFail = true
		c2.noCancel = true
	}
	return &op{kind: "peach", via: via, items: items, mayFail: !c2.noFail, cs: []*chunk{g.chunk(c2, 2)}}
}

func (g *gen) body(cx gctx) *op {
	type choice struct {
		w int
		f func() *op
	}
	deep := cx.depth >= 5
	sub := func() gctx { c2 := cx; c2.depth += 2; return c2 }
	cs := []choice{
		{6, func() *op { return g.leafOK(cx) }},
	}
	if !cx.noFail {
		cs = append(cs, choice{3, func() *op { return &op{kind: "exc", text: "fail x"} }})
	}
	if cx.goneOK {
		cs = append(cs, choice{3, func() *op { return &op{kind: "gone", text: "range 100000"} }})
	}
	if !cx.noCancel && !cx.noFail {
		cs = append(cs, choice{1, func() *op { return &op{kind: "cancel"} }},
			choice{1, func() *op { return &op{kind: "sleep"} }})
	}
	if cx.stdinOK {
		cs = append(cs, choice{3, func() *op { return &op{kind: "drain"} }},
			choice{1, func() *op { return &op{kind: "ob"} }},
			choice{1, func() *op { return &op{kind: "ov"} }})
	}
	if !deep {
		cs = append(cs,
			choice{3, func() *op { return &op{kind: "blk", c: g.chunk(sub(), 3)} }},
			choice{4, func() *op {
				c2 := sub()
				c2.outPlain, c2.goneOK = true, false
				return &op{kind: "cap", pipeOk: true, c: g.chunk(c2, 3)}
			}},
			choice{2, func() *op { return &op{kind: "ecap", c: g.chunk(sub(), 2)} }},
			choice{2, func() *op { return g.peach(cx, false, g.r.Range(0, 3)) }},
			choice{2, func() *op {
				k := g.r.Range(1, 3)
				o := &op{kind: "par"}
				for i := 0; i < k; i++ {
					c2 := sub()
					if k > 1 {
						c2.outPlain = false
					}
					o.cs = append(o.cs, g.chunk(c2, 2))
				}
				return o
			}},
			choice{1, func() *op {
				return &op{kind: "each", items: g.r.Range(0, 3), cs: []*chunk{g.chunk(sub(), 2)}}
			}},
		)
	}
	total := 0
	for _, c := range cs {
		total += c.w
	}
	x := g.r.Intn(total)
	for _, c := range cs {
		if x < c.w {
			return c.f()
		}
		x -= c.w
	}
	return g.leafOK(cx)
}

// program generates one random program and says whether its counters are
// schedule-independent.
func randomProgram(r *common.Rand) (c *chunk, det bool) {
	g := &gen{r: r}
	cx := gctx{outPlain: true, stdinOK: true}
	c = g.chunk(cx, 3)
	det = c.deterministic()
	return
}

// ---- enumerated shapes -----------------------------------------------------------

func leaf(kind string) *op {
	switch kind {
	case "exc":
		return &op{kind: "exc", text: "fail x"}
	case "gone":
		return &op{kind: "gone", text: "range 100000"}
	case "ok":
		return &op{kind: "ok", text: "nop"}
	}
	return &op{kind: kind}
}

func one(fs ...*form) *chunk { return &chunk{ps: []*pipeline{{failAt: -1, forms: fs}}} }

// enumerated yields the small systematic programs: every position of a failing
// / early-exiting / input-consuming stage in pipelines of 1..4 forms, every
// single redirection and every pair on fds {1,3}, captures and parallel forms
// around failing bodies.
func enumerated(emit func(c *chunk)) {
	// pipelines: each stage ∈ {ok, exc, drain, capture, gone (if the next does not read)}
	kinds := []string{"ok", "exc", "drain", "cap", "gone", "ov"}
	var rec func(n int, acc []string)
	rec = func(n int, acc []string) {
		if n == 0 {
			forms := make([]*form, len(acc))
			for i, k := range acc {
				switch k {
				case "cap":
					forms[i] = &form{body: &op{kind: "cap", pipeOk: true, c: one(&form{body: leaf("exc")})}}
				case "gone":
					if i == len(acc)-1 || acc[i+1] == "drain" || acc[i+1] == "ov" {
						return
					}
					forms[i] = &form{body: leaf("gone")}
				default:
					forms[i] = &form{body: leaf(k)}
				}
			}
			emit(one(forms...))
			return
		}
		for _, k := range kinds {
			rec(n-1, append(append([]string{}, acc...), k))
		}
	}
	for n := 1; n <= 3; n++ {
		rec(n, nil)
	}
	for _, k := range []string{"exc", "gone", "drain"} {
		for pos := 0; pos < 4; pos++ {
			acc := []string{"ok", "ok", "ok", "ok"}
			acc[pos] = k
			if k == "gone" && pos == 3 {
				continue
			}
			forms := make([]*form, 4)
			for i, kk := range acc {
				forms[i] = &form{body: leaf(kk)}
			}
			emit(one(forms...))
		}
	}
	// single redirections
	srcs := []*src{{kind: "file1"}, {kind: "file0"}, {kind: "fd", n: 1}, {kind: "fd", n: 2}, {kind: "fd", n: 3},
		{kind: "close"}, {kind: "bad"}, {kind: "obj"},
		{kind: "cap", pipeOk: true, ok: true, c: one(&form{body: leaf("ok")})},
		{kind: "cap", pipeOk: true, ok: true, c: one(&form{body: leaf("exc")})},
		{kind: "cap", pipeOk: true, ok: false, c: one(&form{body: leaf("ok")})}}
	for _, dst := range []int{-1, 1, 2, 3} {
		for _, mode := range []string{"w", "a", "rw", "r"} {
			for _, s := range srcs {
				if (s.kind == "fd" || s.kind == "close" || s.kind == "bad") && (mode == "a" || mode == "rw") {
					continue
				}
				for _, b := range []string{"ok", "exc"} {
					s2 := *s
					s2.file = 1
					emit(one(&form{redirs: []*redir{{dst: dst, mode: mode, src: &s2}}, body: leaf(b)}))
				}
			}
		}
	}
	// pairs and triples of redirections on fds {1,3,4}: open → dup → override / close / fail
	steps := []*redir{
		{dst: 1, mode: "w", src: &src{kind: "file1", file: 1}},
		{dst: 3, mode: "w", src: &src{kind: "file1", file: 2}},
		{dst: 4, mode: "w", src: &src{kind: "fd", n: 3}},
		{dst: 3, mode: "w", src: &src{kind: "fd", n: 1}},
		{dst: 1, mode: "w", src: &src{kind: "fd", n: 3}},
		{dst: 3, mode: "w", src: &src{kind: "fd", n: 3}},
		{dst: 3, mode: "w", src: &src{kind: "close"}},
		{dst: 1, mode: "w", src: &src{kind: "close"}},
		{dst: 3, mode: "w", src: &src{kind: "file0"}},
		{dst: 1, mode: "w", src: &src{kind: "bad"}},
		{dst: 3, mode: "w", src: &src{kind: "fd", n: 7}},
	}
	for _, a := range steps {
		for _, b := range steps {
			emit(one(&form{redirs: []*redir{a, b}, body: leaf("ok")}))
			for _, c := range steps {
				emit(one(&form{redirs: []*redir{a, b, c}, body: leaf("ok")}))
			}
		}
	}
	// the same pairs on a form in the middle of a pipeline (it owns pipe ports)
	for _, a := range steps {
		for _, b := range steps {
			emit(one(&form{body: leaf("ok")}, &form{redirs: []*redir{a, b}, body: leaf("ok")}, &form{body: leaf("ok")}))
		}
	}
	// redirecting the pipe ports themselves
	pipeSteps := []*redir{
		{dst: 0, mode: "r", src: &src{kind: "file1", file: 1}},
		{dst: 0, mode: "r", src: &src{kind: "close"}},
		{dst: 1, mode: "w", src: &src{kind: "file1", file: 1}},
		{dst: 1, mode: "w", src: &src{kind: "close"}},
		{dst: 1, mode: "w", src: &src{kind: "fd", n: 2}},
		{dst: 3, mode: "w", src: &src{kind: "fd", n: 1}},
		{dst: 3, mode: "r", src: &src{kind: "fd", n: 0}},
		{dst: 1, mode: "w", src: &src{kind: "file0"}},
		{dst: 0, mode: "r", src: &src{kind: "file0"}},
	}
	for _, a := range pipeSteps {
		emit(one(&form{body: leaf("ok")}, &form{redirs: []*redir{a}, body: leaf("ok")}, &form{body: leaf("ok")}))
		for _, b := range pipeSteps {
			emit(one(&form{body: leaf("ok")}, &form{redirs: []*redir{a, b}, body: leaf("ok")}, &form{body: leaf("ok")}))
		}
	}
	// captures, exception captures, parallel forms around failing bodies
	inner := []*chunk{
		one(&form{body: leaf("ok")}),
		one(&form{body: leaf("exc")}),
		one(&form{body: leaf("ok")}, &form{body: leaf("exc")}),
		one(&form{body: leaf("exc")}, &form{body: leaf("drain")}),
		one(&form{redirs: []*redir{{dst: -1, mode: "w", src: &src{kind: "file1", file: 1}}}, body: leaf("exc")}),
		one(&form{redirs: []*redir{{dst: -1, mode: "w", src: &src{kind: "file1", file: 1}}, {dst: 2, mode: "w", src: &src{kind: "file0"}}}, body: leaf("ok")}),
		one(&form{body: &op{kind: "cap", pipeOk: true, c: one(&form{body: leaf("exc")})}}),
		{ps: []*pipeline{{failAt: -1, forms: []*form{{body: leaf("cancel")}}}, {failAt: -1, forms: []*form{{body: leaf("ok")}, {body: leaf("ok")}}}}},
		{ps: []*pipeline{{failAt: -1, forms: []*form{{body: leaf("cancel")}}}, {failAt: -1, forms: []*form{{body: leaf("sleep")}}}}},
		{ps: []*pipeline{{failAt: -1, forms: []*form{{body: leaf("sleep")}}}, {failAt: -1, forms: []*form{{body: leaf("cancel")}}}}},
	}
	for _, c := range inner {
		emit(one(&form{body: &op{kind: "cap", pipeOk: true, c: c}}))
		emit(one(&form{body: &op{kind: "ecap", c: c}}))
		emit(one(&form{body: &op{kind: "blk", c: c}}))
		emit(one(&form{body: &op{kind: "blk", c: c}}, &form{body: leaf("ok")}))
		emit(one(&form{body: leaf("ok")}, &form{body: &op{kind: "cap", pipeOk: true, c: c}}))
		emit(one(&form{body: &op{kind: "par", cs: []*chunk{c, c}}}))
		emit(one(&form{body: &op{kind: "each", items: 2, cs: []*chunk{c}}}))
		emit(one(&form{redirs: []*redir{{dst: -1, mode: "w", src: &src{kind: "cap", pipeOk: true, ok: true, c: c, file: 3}}}, body: leaf("ok")}))
		emit(one(&form{redirs: []*redir{{dst: 3, mode: "w", src: &src{kind: "file1", file: 2}},
			{dst: -1, mode: "w", src: &src{kind: "cap", pipeOk: true, ok: true, c: c, file: 3}}}, body: leaf("ok")}))
		for _, inC := range inner {
			emit(one(&form{body: &op{kind: "par", cs: []*chunk{c, inC}}}))
		}
	}
	for k := 0; k <= 3; k++ {
		ok := one(&form{body: &op{kind: "cap", pipeOk: true, c: one(&form{body: leaf("ok")})}})
		emit(one(&form{body: &op{kind: "peach", items: k, cs: []*chunk{ok}}}))
		feeder := &form{body: &op{kind: "ok", text: "put " + itemList(k)}}
		if k == 0 {
			feeder.body.text = "nop"
		}
		emit(one(feeder, &form{body: &op{kind: "peach", via: true, items: k, cs: []*chunk{ok}}}))
		emit(one(feeder, &form{body: &op{kind: "peach", via: true, items: k, cs: []*chunk{ok}}}, &form{body: leaf("ok")}))
	}
}

func describe(c *chunk) string { return fmt.Sprintf("%s", c.code()) }
