package c40

import (
	"context"
	"errors"
	"os"
	"path/filepath"
	"runtime"
	"sync"
	"time"

	"src.elv.sh/pkg/eval"
	"src.elv.sh/pkg/eval/vars"
	"src.elv.sh/pkg/mods"
	"src.elv.sh/pkg/parse"
)

// runner owns ONE in-process Evaler on which every program is evaluated.
type runner struct {
	ev  *eval.Evaler
	dir string     // scratch directory for redirection targets
	obj *os.File   // a file object the harness owns ($c40f); never closed by programs
	out *eval.Port // stdout and stderr of every evaluation: /dev/null opened for writing, values discarded

	budget int // ≥0: descriptors the evaluation may open before EMFILE; <0: unlimited

	mu     sync.Mutex
	cancel context.CancelFunc // cancels the Interrupts context of the evaluation in flight
}

func newRunner(dir string) (*runner, error) {
	r := &runner{dir: dir, budget: -1}
	if err := os.MkdirAll(dir, 0o755); err != nil {
		return nil, err
	}
	obj, err := os.OpenFile(filepath.Join(dir, "obj"), os.O_RDWR|os.O_CREATE|os.O_TRUNC, 0o644)
	if err != nil {
		return nil, err
	}
	if err := os.WriteFile(filepath.Join(dir, "empty"), nil, 0o644); err != nil {
		return nil, err
	}
	r.obj = obj
	null, err := os.OpenFile(os.DevNull, os.O_WRONLY, 0)
	if err != nil {
		return nil, err
	}
	// (eval.DummyOutputPort's file is /dev/null opened read-only: echo to it fails)
	r.out = &eval.Port{File: null, Chan: eval.BlackholeChan}
	ev := eval.NewEvaler()
	mods.AddTo(ev)
	ev.ExtendBuiltin(eval.BuildNs().AddGoFns(map[string]any{
		// the harness "interrupt": cancels the context the evaluation listens on
		"c40-cancel": func() {
			r.mu.Lock()
			c := r.cancel
			r.mu.Unlock()
			if c != nil {
				c()
			}
		},
	}))
	ev.ExtendGlobal(eval.BuildNs().
		AddVar("c40d", vars.NewReadOnly(dir)).
		AddVar("c40f", vars.NewReadOnly(obj)))
	r.ev = ev
	return r, nil
}

// evalOnce evaluates code once; the outcome class is ok | exc | int | parse.
func (r *runner) evalOnce(code string) string {
	ctx, cancel := context.WithCancel(context.Background())
	r.mu.Lock()
	r.cancel = cancel
	r.mu.Unlock()
	defer cancel()
	cfg := eval.EvalCfg{
		Ports:      []*eval.Port{eval.DummyInputPort, r.out, r.out},
		Interrupts: ctx,
	}
	var err error
	run := func() { err = r.ev.Eval(parse.Source{Name: "[c40]", Code: code}, cfg) }
	if r.budget >= 0 {
		if !withFdBudget(r.budget, run) {
			return "nobudget"
		}
	} else {
		run()
	}
	return classify(err)
}

func classify(err error) string {
	if err == nil {
		return "ok"
	}
	var exc eval.Exception
	if errors.As(err, &exc) {
		if hasInterrupted(exc.Reason()) {
			return "int"
		}
		return "exc"
	}
	return "parse"
}

func hasInterrupted(e error) bool {
	if e == eval.ErrInterrupted {
		return true
	}
	if pe, ok := e.(eval.PipelineError); ok {
		for _, x := range pe.Errors {
			if x != nil && hasInterrupted(x.Reason()) {
				return true
			}
		}
	}
	return false
}

// countFds returns the number of open descriptors of this process.
func countFds() int {
	d, err := os.Open("/proc/self/fd")
	if err != nil {
		return -1
	}
	names, _ := d.Readdirnames(-1)
	d.Close()
	return len(names) - 1 // the directory handle itself
}

// settle polls until the goroutine count is ≤ want or the deadline passes, and
// returns the last count.
func settleGoroutines(want int, max time.Duration) int {
	deadline := time.Now().Add(max)
	n := runtime.NumGoroutine()
	for n > want && time.Now().Before(deadline) {
		runtime.Gosched()
		time.Sleep(200 * time.Microsecond)
		n = runtime.NumGoroutine()
	}
	return n
}

// stableGoroutines polls until the goroutine count has been the same for a few
// consecutive samples (goroutines of the previous evaluation that have passed
// their last synchronisation point but not yet returned), or max has passed.
func stableGoroutines(max time.Duration) int {
	deadline := time.Now().Add(max)
	n, same := runtime.NumGoroutine(), 0
	for same < 4 && time.Now().Before(deadline) {
		runtime.Gosched()
		time.Sleep(50 * time.Microsecond)
		if m := runtime.NumGoroutine(); m == n {
			same++
		} else {
			// only a decrease is settling; an increase would be someone else's goroutine
			n, same = m, 0
		}
	}
	return n
}

// measurement of one program run n times.
type measurement struct {
	outcome                string // outcome class of the last run
	outcomes               map[string]int
	fdGrowth, goGrowth     int
	opened, closes, spawns int64 // hook counters of the LAST run
	stable                 bool  // hook counters identical in every run
}

func (r *runner) measure(code string, n int) measurement {
	m := measurement{outcomes: map[string]int{}, stable: true}
	// warm-up run: lazily initialised runtime state (epoll, timers) must not
	// be mistaken for a leak
	r.evalOnce(code)
	g0 := stableGoroutines(20 * time.Millisecond)
	f0 := countFds()
	for i := 0; i < n; i++ {
		eval.VerifResReset()
		out := r.evalOnce(code)
		o, c, s := eval.VerifResGet()
		if i > 0 && (o != m.opened || c != m.closes || s != m.spawns || out != m.outcome) {
			m.stable = false
		}
		m.opened, m.closes, m.spawns, m.outcome = o, c, s, out
		m.outcomes[out]++
	}
	g1 := settleGoroutines(g0, 200*time.Millisecond)
	f1 := countFds()
	m.fdGrowth, m.goGrowth = f1-f0, g1-g0
	if m.goGrowth < 0 {
		// a goroutine of an earlier evaluation (past its last synchronisation
		// point when the baseline was taken) returned meanwhile: not a leak
		m.goGrowth = 0
	}
	return m
}
