// Package c20: trace refinement, correspondence and oracle for C20
// (peach / each / run-parallel in pkg/eval/builtin_fn_flow.go).
//
// Each op runs the REAL builtin once on a fresh Evaler, under a perturbed
// schedule, with callbacks that go through a harness builtin (-vcb) which
// counts starts and concurrency, writes the callback's outputs and ends the
// callback as the op's cbspec says.  The real code (built with -tags verif,
// hooks/C20-peach-trace.patch) logs its atomic protocol steps; the log becomes
// the last field of the op line, which the Lean driver replays with the model's
// step function.  The oracle evaluates C20's statement on what was observed.
package c20

import (
	"context"
	"fmt"
	"reflect"
	"runtime"
	"sort"
	"strconv"
	"strings"
	"sync"
	"sync/atomic"
	"time"

	"src.elv.sh/pkg/eval"
	"src.elv.sh/pkg/parse"
	"verifharness/common"
)

func init() { common.Register("C20", run) }

const rule = "peach: random input count (0..12 mostly, up to 500), bound 1..8 or +inf, per-input callback outcome " +
	"(ok/continue/break/fail), 0..3 outputs, seeded delays; input as list or pipeline; GOMAXPROCS 1..16 and " +
	"Gosched/sleep injected at hook points; every case run several times with different schedules. " +
	"each: the same callback tables run through the real `each`. rp: run-parallel over 0..8 functions. " +
	"non-trivial = at least two inputs/functions; distinct by op spec (schedule seed included)"

func run(c *common.Ctx) error {
	if IsChild("C20") {
		return ServeChild(ExecOp)
	}
	specs, err := GatherSpecs(c, func(emit func(...string)) { gen(c, emit) }, StripTrace)
	if err != nil {
		return err
	}
	results, err := RunIsolated(c, specs, 30*time.Second, func(spec, how, msg string) OpResult {
		cls := "crash"
		if how == "TIMEOUT" {
			cls = "hang"
		}
		return OpResult{Op: spec + "\t-", Impl: how, Class: cls, Detail: msg, Tag: "crash"}
	})
	if err != nil {
		return err
	}
	return WriteRun(c, results, rule)
}

// StripTrace removes the recorded trace from a stored op line.
func StripTrace(op string) string {
	f := strings.Split(op, "\t")
	switch f[0] {
	case "peach", "rp":
		if len(f) >= 6 {
			f = f[:5]
		}
	}
	return strings.Join(f, "\t")
}

// ---------------------------------------------------------------- generator

var outcomes = []byte{'k', 'c', 'b', 'e'}

// cbspec draws a callback table: most callbacks succeed; pBad/100 of them
// break or fail.
func cbspec(r *common.Rand, n, pBad int) string {
	if n == 0 {
		return "-"
	}
	var sb strings.Builder
	for i := 0; i < n; i++ {
		if i > 0 {
			sb.WriteByte(',')
		}
		o := byte('k')
		switch x := r.Intn(100); {
		case x < pBad/2:
			o = 'b'
		case x < pBad:
			o = 'e'
		case x < pBad+10:
			o = 'c'
		}
		sb.WriteByte(o)
		sb.WriteString(strconv.Itoa(r.Intn(4)))
	}
	return sb.String()
}

// sched draws a schedule: GOMAXPROCS (changed only every few dozen ops, since
// resizing the scheduler costs milliseconds), perturbation seed and rate, and
// how the inputs are supplied.
var schedCount, schedProcs int

func sched(r *common.Rand, inputMode string) string {
	procs := []int{1, 1, 2, 2, 3, 4, 4, 8, 16}
	if schedCount%40 == 0 {
		schedProcs = common.Pick(r, procs)
	}
	schedCount++
	return fmt.Sprintf("%d:%d:%d:%s", schedProcs, r.Intn(1<<30), common.Pick(r, []int{0, 2, 4, 16}), inputMode)
}

func gen(c *common.Ctx, emit func(...string)) {
	r := c.Rand
	bounds := []string{"1", "1", "1", "2", "2", "3", "4", "8", "inf"}
	// small exhaustive family: every outcome table of length ≤ 3 over {k,b,e}, bound 1 and 2
	tables := []string{"-"}
	for n := 1; n <= 3; n++ {
		var rec func(prefix []string)
		rec = func(prefix []string) {
			if len(prefix) == n {
				tables = append(tables, strings.Join(prefix, ","))
				return
			}
			for _, o := range []string{"k1", "b1", "e1"} {
				rec(append(append([]string{}, prefix...), o))
			}
		}
		rec(nil)
	}
	for _, t := range tables {
		n := 0
		if t != "-" {
			n = strings.Count(t, ",") + 1
		}
		emit("each", strconv.Itoa(n), t)
		for _, k := range []string{"1", "2"} {
			emit("peach", k, strconv.Itoa(n), t, sched(r, "l"))
			if n >= 1 && n <= 2 {
				emit("peach", k, strconv.Itoa(n), t, sched(r, "ld"))
			}
			if n >= 2 && strings.ContainsAny(t, "be") {
				// targeted schedule: hold every worker after its Done / Release
				emit("peach", k, strconv.Itoa(n), t, sched(r, "l")+":h600")
			}
		}
	}
	cases := c.Scale(900, 6000)
	for i := 0; i < cases; i++ {
		n := r.Range(0, 12)
		if r.Chance(1, 12) {
			n = r.Range(13, 500)
		}
		pBad := common.Pick(r, []int{0, 0, 10, 30, 60})
		if n > 40 {
			pBad = common.Pick(r, []int{0, 2})
		}
		t := cbspec(r, n, pBad)
		k := common.Pick(r, bounds)
		reps := c.Scale(3, 6)
		for j := 0; j < reps; j++ {
			sc := sched(r, common.Pick(r, []string{"l", "p", "l", "p", "ld", "pd"}))
			if k != "inf" && n >= 2 && n <= 12 && pBad > 0 && r.Chance(1, 4) {
				sc += ":h" + strconv.Itoa(common.Pick(r, []int{300, 800, 2000}))
			}
			emit("peach", k, strconv.Itoa(n), t, sc)
		}
		if k == "1" || r.Chance(1, 4) {
			emit("each", strconv.Itoa(n), t)
		}
	}
	for i := 0; i < c.Scale(300, 2000); i++ {
		n := r.Range(0, 8)
		emit("rp", strconv.Itoa(n), cbspec(r, n, 40), sched(r, "l"))
	}
}

// ---------------------------------------------------------------- real run

// recorder is the shared state of the -vcb builtin during one op.
type recorder struct {
	mu        sync.Mutex
	outcome   []byte
	nouts     []int
	seed      uint64
	rate      int
	started   []int
	finished  int
	running   int
	maxRun    int
	afterBad  []int // callbacks started after a callback had ended with break/failure
	badEnded  bool
	perturbN  atomic.Uint64
	unknownCb int
	hold      time.Duration
	holdMu    sync.Mutex
	armed     map[int64]bool // goroutines to be held at their next hook point
	holds     int            // how many times a goroutine was held
}

// enabling reports whether the hook label announces an action that lets
// another goroutine proceed (the hooks log such actions BEFORE performing them).
func enabling(label string) bool {
	switch label {
	case "peach.release", "peach.done", "peach.frel", "rp.done":
		return true
	}
	return false
}

func goID() int64 {
	var buf [64]byte
	n := runtime.Stack(buf[:], false)
	var id int64
	for _, c := range buf[len("goroutine "):n] {
		if c < '0' || c > '9' {
			break
		}
		id = id*10 + int64(c-'0')
	}
	return id
}

// hook is the perturbation installed at every hook point of pkg/eval.  In
// hold mode the yield sits between an enabling action and whatever the same
// goroutine does next — e.g. between a worker's Release and a (misplaced)
// update of the "broken" flag or of err, or between Done and a late merge of
// the exception.  In the code as it is a worker's only step after Done is
// Release and it has none after Release, so holding changes nothing but timing.
func (r *recorder) hook(label string) {
	if r.hold > 0 {
		g := goID()
		r.holdMu.Lock()
		was := r.armed[g]
		if enabling(label) {
			if r.armed == nil {
				r.armed = map[int64]bool{}
			}
			r.armed[g] = true
		} else if was {
			delete(r.armed, g)
		}
		if was {
			r.holds++
		}
		r.holdMu.Unlock()
		if was {
			time.Sleep(r.hold)
		}
	}
	r.pause(uint64(len(label)))
}

func mix(z uint64) uint64 {
	z += 0x9E3779B97F4A7C15
	z = (z ^ (z >> 30)) * 0xBF58476D1CE4E5B9
	z = (z ^ (z >> 27)) * 0x94D049BB133111EB
	return z ^ (z >> 31)
}

// pause perturbs the schedule at a hook point or inside a callback.
func (r *recorder) pause(salt uint64) {
	if r.rate == 0 {
		return
	}
	x := mix(r.seed ^ mix(salt^r.perturbN.Add(1)))
	switch x % uint64(r.rate*8) {
	case 0, 1:
		runtime.Gosched()
	case 2:
		runtime.Gosched()
		runtime.Gosched()
	case 3, 4:
		spin(time.Duration(1+x>>40%30) * time.Microsecond)
	case 5:
		if x>>20%8 == 0 { // a real sleep costs ≥ 0.5 ms on some kernels: keep it rare
			time.Sleep(time.Duration(1+x>>40%40) * time.Microsecond)
		}
	}
}

// spin busy-waits (time.Sleep has a granularity of ~0.5 ms here).
func spin(d time.Duration) {
	t := time.Now()
	for time.Since(t) < d {
	}
}

func (r *recorder) vcb(fm *eval.Frame, x int) error {
	r.mu.Lock()
	if x < 0 || x >= len(r.outcome) {
		r.unknownCb++
		r.mu.Unlock()
		return nil
	}
	r.started = append(r.started, x)
	if r.badEnded {
		r.afterBad = append(r.afterBad, x)
	}
	r.running++
	if r.running > r.maxRun {
		r.maxRun = r.running
	}
	r.mu.Unlock()
	// a callback-specific delay so that callbacks overlap and finish out of order
	switch d := mix(r.seed^uint64(x)*0x9E37) % 16; {
	case d < 4:
		runtime.Gosched()
	case d < 9:
		spin(time.Duration(2+d*7) * time.Microsecond)
	case d == 9 && len(r.outcome) <= 16:
		time.Sleep(time.Duration(5+d*30) * time.Microsecond)
	}
	out := fm.ValueOutput()
	for j := 0; j < r.nouts[x]; j++ {
		eval.VerifTrace(fm, "cb.out", x, j)
		out.Put(fmt.Sprintf("%d:%d", x, j))
		r.pause(uint64(x))
	}
	r.mu.Lock()
	r.running--
	r.finished++
	o := r.outcome[x]
	if o == 'b' || o == 'e' {
		r.badEnded = true
	}
	r.mu.Unlock()
	switch o {
	case 'c':
		return eval.Continue
	case 'b':
		return eval.Break
	case 'e':
		return eval.FailError{Content: "e" + strconv.Itoa(x)}
	}
	return nil
}

func parseCbspec(s string) (outcome []byte, nouts []int, err error) {
	if s == "-" {
		return nil, nil, nil
	}
	for _, t := range strings.Split(s, ",") {
		if len(t) < 2 || !strings.ContainsRune("kcbe", rune(t[0])) {
			return nil, nil, fmt.Errorf("bad cbspec token %q", t)
		}
		m, e := strconv.Atoi(t[1:])
		if e != nil {
			return nil, nil, e
		}
		outcome = append(outcome, t[0])
		nouts = append(nouts, m)
	}
	return
}

type schedSpec struct {
	procs int
	seed  uint64
	rate  int
	input string
	// hold > 0: a goroutine that has announced an enabling action (a
	// worker's Release or Done, the feeder's own Release) is put to sleep
	// for this long at its NEXT hook point, so that whatever it enabled (the
	// feeder blocked in Acquire / Wait) runs ahead of anything the goroutine
	// still does afterwards (optional 5th field "h<µs>").
	hold time.Duration
}

func parseSched(s string) schedSpec {
	p := strings.Split(s, ":")
	sp := schedSpec{procs: 2, rate: 0, input: "l"}
	if len(p) == 4 || len(p) == 5 {
		sp.procs, _ = strconv.Atoi(p[0])
		sd, _ := strconv.ParseUint(p[1], 10, 64)
		sp.seed = sd
		sp.rate, _ = strconv.Atoi(p[2])
		sp.input = p[3]
		if len(p) == 5 && strings.HasPrefix(p[4], "h") {
			us, _ := strconv.Atoi(p[4][1:])
			if us > 20000 {
				us = 20000
			}
			sp.hold = time.Duration(us) * time.Microsecond
		}
	}
	if sp.procs < 1 {
		sp.procs = 1
	}
	return sp
}

// Observed is what a real run showed.
type Observed struct {
	Outs      []string // values that arrived on the output port, in arrival order
	Err       error
	Events    []eval.VerifEvent
	Rec       *recorder
	Leftover  int // goroutines still alive after the settle loop, relative to before
	Panicked  string
	EndedInMs int64
}

// Settle waits until the goroutine count is back to base (bounded).
func Settle(base int) int {
	deadline := time.Now().Add(2 * time.Second)
	for {
		n := runtime.NumGoroutine()
		if n <= base || time.Now().After(deadline) {
			return n - base
		}
		runtime.Gosched()
		time.Sleep(200 * time.Microsecond)
	}
}

// RunProgram evaluates code on a fresh Evaler with -vcb bound to rec, under
// the given schedule, with tracing on.  ctx may be nil.
func RunProgram(code string, rec *recorder, sp schedSpec, ctx context.Context,
	extra map[string]any, labels ...string) (obs Observed) {
	if runtime.GOMAXPROCS(0) != sp.procs {
		runtime.GOMAXPROCS(sp.procs)
	}
	ev := eval.NewEvaler()
	fns := map[string]any{"-vcb": rec.vcb}
	for k, v := range extra {
		fns[k] = v
	}
	ev.ExtendBuiltin(eval.BuildNs().AddGoFns(fns))
	port, collect, err := eval.CapturePort()
	if err != nil {
		obs.Panicked = "capture port: " + err.Error()
		return
	}
	base := runtime.NumGoroutine()
	pf := func(label string) { rec.hook(label) }
	eval.VerifPerturb.Store(&pf)
	eval.VerifTraceStart(labels...)
	t0 := time.Now()
	func() {
		defer func() {
			if r := recover(); r != nil {
				obs.Panicked = fmt.Sprint(r)
			}
		}()
		obs.Err = ev.Eval(parse.Source{Name: "[verif]", Code: code},
			eval.EvalCfg{Ports: []*eval.Port{nil, port, nil}, Interrupts: ctx})
	}()
	obs.EndedInMs = time.Since(t0).Milliseconds()
	vals, _ := collect()
	obs.Leftover = Settle(base - 2) // the capture port's two reader goroutines are gone after collect
	all := eval.VerifTraceStop()
	eval.VerifPerturb.Store(nil)
	for _, e := range all {
		if e.Ev == ev || e.Ev == nil {
			obs.Events = append(obs.Events, e)
		}
	}
	for _, v := range vals {
		obs.Outs = append(obs.Outs, fmt.Sprint(v))
	}
	obs.Rec = rec
	return
}

// Leaves flattens the exception returned by an evaluation into its leaf
// reasons (errutil.multiError and PipelineError are composite).
func Leaves(err error) []error {
	if err == nil {
		return nil
	}
	reason := eval.Reason(err)
	if reason == nil {
		return nil
	}
	if pe, ok := reason.(eval.PipelineError); ok {
		var out []error
		for _, e := range pe.Errors {
			out = append(out, Leaves(e)...)
		}
		return out
	}
	if v := reflect.ValueOf(reason); v.Kind() == reflect.Slice && v.Type().Elem().Kind() == reflect.Interface {
		var out []error
		for i := 0; i < v.Len(); i++ {
			if e, ok := v.Index(i).Interface().(error); ok {
				out = append(out, Leaves(e)...)
			}
		}
		return out
	}
	return []error{reason}
}

// errTokens maps the leaves to canonical tokens: e<i> for a callback failure,
// b / c for break / continue, the message otherwise.
func errTokens(err error) []string {
	var out []string
	for _, l := range Leaves(err) {
		switch {
		case l == eval.Break:
			out = append(out, "b")
		case l == eval.Continue:
			out = append(out, "c")
		default:
			if fe, ok := l.(eval.FailError); ok {
				out = append(out, fmt.Sprint(fe.Content))
			} else {
				out = append(out, "other:"+l.Error())
			}
		}
	}
	sort.Slice(out, func(i, j int) bool { return tokLess(out[i], out[j]) })
	return out
}

// tokLess: b < c < e<i> (by i) < anything else.
func tokLess(a, b string) bool {
	rank := func(t string) (int, int) {
		switch {
		case t == "b":
			return 0, 0
		case t == "c":
			return 1, 0
		case strings.HasPrefix(t, "e"):
			if n, err := strconv.Atoi(t[1:]); err == nil {
				return 2, n
			}
		}
		return 3, 0
	}
	ra, na := rank(a)
	rb, nb := rank(b)
	if ra != rb {
		return ra < rb
	}
	if na != nb {
		return na < nb
	}
	return a < b
}

// errIdx prints callback failures e<i> as bare indices (the model's format).
func errIdx(err error) string {
	toks := errTokens(err)
	for i, t := range toks {
		if strings.HasPrefix(t, "e") {
			if _, e := strconv.Atoi(t[1:]); e == nil {
				toks[i] = t[1:]
			}
		}
	}
	return join(toks)
}

func join(xs []string) string {
	if len(xs) == 0 {
		return "-"
	}
	return strings.Join(xs, ",")
}

func ints(xs []int) string {
	s := make([]string, len(xs))
	for i, x := range xs {
		s[i] = strconv.Itoa(x)
	}
	return join(s)
}

// pairLess orders "i:j" tokens numerically.
func pairLess(a, b string) bool {
	pa, pb := strings.SplitN(a, ":", 2), strings.SplitN(b, ":", 2)
	if len(pa) == 2 && len(pb) == 2 {
		a0, _ := strconv.Atoi(pa[0])
		b0, _ := strconv.Atoi(pb[0])
		if a0 != b0 {
			return a0 < b0
		}
		a1, _ := strconv.Atoi(pa[1])
		b1, _ := strconv.Atoi(pb[1])
		return a1 < b1
	}
	return a < b
}

// PeachTokens turns the logged events of ONE peach call (the first one begun
// in the log) into the model's label tokens.  Worker ids are renumbered to the
// index of the input they were created for (order of chk1 events).
func PeachTokens(events []eval.VerifEvent) []string {
	var toks []string
	tid := int64(-1)
	idx := map[int64]int{}
	for _, e := range events {
		if e.Label == "cb.out" {
			toks = append(toks, fmt.Sprintf("o%d:%d", e.Args[0], e.Args[1]))
			continue
		}
		if e.Label == "cancel" {
			toks = append(toks, "x")
			continue
		}
		if !strings.HasPrefix(e.Label, "peach.") {
			continue
		}
		if e.Label == "peach.begin" {
			if tid < 0 {
				tid = e.Args[0]
			}
			continue
		}
		if len(e.Args) == 0 || e.Args[0] != tid {
			continue
		}
		w := func() int { return idx[e.Args[1]] }
		switch e.Label {
		case "peach.chk1":
			idx[e.Args[1]] = len(idx)
			toks = append(toks, "c"+strconv.FormatInt(e.Args[2], 10))
		case "peach.acqok":
			toks = append(toks, "ao")
		case "peach.acqerr":
			toks = append(toks, "ae")
		case "peach.chk2":
			toks = append(toks, "d"+strconv.FormatInt(e.Args[2], 10))
		case "peach.frel":
			toks = append(toks, "fr")
		case "peach.spawn":
			toks = append(toks, "sp")
		case "peach.eof":
			toks = append(toks, "eof")
		case "peach.ret":
			toks = append(toks, "wr")
		case "peach.start":
			toks = append(toks, fmt.Sprintf("s%d", w()))
		case "peach.finish":
			toks = append(toks, fmt.Sprintf("f%d:%c", w(), "kcbe"[e.Args[2]]))
		case "peach.mark":
			toks = append(toks, fmt.Sprintf("m%d", w()))
		case "peach.done":
			toks = append(toks, fmt.Sprintf("dn%d", w()))
		case "peach.release":
			toks = append(toks, fmt.Sprintf("r%d", w()))
		default:
			toks = append(toks, "?"+e.Label)
		}
	}
	return toks
}

func rpTokens(events []eval.VerifEvent) []string {
	var toks []string
	for _, e := range events {
		switch e.Label {
		case "rp.spawn":
			toks = append(toks, fmt.Sprintf("sp%d", e.Args[1]))
		case "rp.start":
			toks = append(toks, fmt.Sprintf("s%d", e.Args[1]))
		case "rp.finish":
			toks = append(toks, fmt.Sprintf("f%d:%c", e.Args[1], "kcbe"[e.Args[2]]))
		case "rp.done":
			toks = append(toks, fmt.Sprintf("dn%d", e.Args[1]))
		case "rp.ret":
			toks = append(toks, "wr")
		}
	}
	return toks
}

func inputList(n int) string {
	var sb strings.Builder
	for i := 0; i < n; i++ {
		sb.WriteString(strconv.Itoa(i))
		sb.WriteByte(' ')
	}
	return sb.String()
}

func peachProgram(k string, n int, input string) string {
	opt := ""
	if k != "inf" {
		opt = "&num-workers=" + k + " "
	} else if n%2 == 1 {
		opt = "&num-workers=+inf "
	}
	// input mode "ld" / "pd": the callback is the builtin itself, not a closure
	// around it - what it returns is then a plain Go error, not an exception
	cb := "{|x| -vcb $x }"
	if strings.HasSuffix(input, "d") {
		cb = "$-vcb~"
	}
	if strings.HasPrefix(input, "p") {
		return fmt.Sprintf("put %s| peach %s%s", inputList(n), opt, cb)
	}
	return fmt.Sprintf("peach %s%s [%s]", opt, cb, inputList(n))
}

func eachProgram(n int) string {
	return fmt.Sprintf("each {|x| -vcb $x } [%s]", inputList(n))
}

// expectedOuts is the multiset of values the started callbacks write.
func expectedOuts(rec *recorder, started []int) []string {
	var out []string
	for _, x := range started {
		for j := 0; j < rec.nouts[x]; j++ {
			out = append(out, fmt.Sprintf("%d:%d", x, j))
		}
	}
	sort.Slice(out, func(i, j int) bool { return pairLess(out[i], out[j]) })
	return out
}

func sortedInts(xs []int) []int {
	ys := append([]int(nil), xs...)
	sort.Ints(ys)
	return ys
}

func newRecorder(cb string, sp schedSpec) (*recorder, error) {
	o, m, err := parseCbspec(cb)
	if err != nil {
		return nil, err
	}
	return &recorder{outcome: o, nouts: m, seed: sp.seed, rate: sp.rate, hold: sp.hold}, nil
}

// ExecOp runs one op spec on the real code (called in the child process).
func ExecOp(spec string) OpResult {
	f := strings.Split(spec, "\t")
	switch {
	case f[0] == "peach" && len(f) == 5:
		return execPeach(f)
	case f[0] == "each" && len(f) == 3:
		return execEach(f)
	case f[0] == "rp" && len(f) == 4:
		return execRp(f)
	}
	return OpResult{Op: spec, Impl: "bad-op", Class: "bad-op", Detail: spec}
}

func obsLine(started []int, outs []string, err error, ordered bool) string {
	so := append([]string(nil), outs...)
	sort.Slice(so, func(i, j int) bool { return pairLess(so[i], so[j]) })
	oo := "-"
	if ordered {
		oo = join(outs)
	}
	return fmt.Sprintf("st=%s outs=%s err=%s oo=%s", ints(sortedInts(started)), join(so),
		errIdx(err), oo)
}

func execPeach(f []string) OpResult {
	k, cb, sp := f[1], f[3], parseSched(f[4])
	n, _ := strconv.Atoi(f[2])
	rec, err := newRecorder(cb, sp)
	if err != nil || len(rec.outcome) != n {
		return OpResult{Op: strings.Join(f, "\t") + "\t-", Impl: "bad-op", Class: "bad-op", Detail: "cbspec"}
	}
	obs := RunProgram(peachProgram(k, n, sp.input), rec, sp, nil, nil, "peach.", "cb.")
	toks := PeachTokens(obs.Events)
	res := OpResult{Op: strings.Join(f, "\t") + "\t" + join2(toks), Events: len(toks)}
	if obs.Panicked != "" {
		res.Impl, res.Class, res.Detail, res.Tag = "PANIC", "crash", obs.Panicked, "crash"
		return res
	}
	res.Impl = "ok " + obsLine(rec.started, obs.Outs, obs.Err, k == "1")
	res.Class, res.Detail = peachOracle(k, n, rec, obs, sp)
	res.Tag = peachTag(k, n, rec, toks)
	return res
}

func join2(toks []string) string {
	if len(toks) == 0 {
		return "-"
	}
	return strings.Join(toks, " ")
}

func peachTag(k string, n int, rec *recorder, toks []string) string {
	if n < 2 {
		return ""
	}
	tag := "k=" + k
	if k != "1" && k != "inf" {
		tag = "k=2..8"
	}
	bad := false
	for _, x := range rec.started {
		if rec.outcome[x] == 'b' || rec.outcome[x] == 'e' {
			bad = true
		}
	}
	if bad {
		tag += ",bad"
	}
	if rec.holds > 0 {
		tag += ",held"
	}
	for _, t := range toks {
		if t == "d1" {
			return tag + ",recheck-hit"
		}
	}
	for _, t := range toks {
		if t == "c1" {
			return tag + ",skip"
		}
	}
	return tag
}

// peachOracle evaluates C20's statement for peach on what the real run showed.
func peachOracle(k string, n int, rec *recorder, obs Observed, sp schedSpec) (string, string) {
	started := rec.started
	seen := map[int]int{}
	for _, x := range started {
		seen[x]++
		if seen[x] > 1 {
			return "callback-started-twice", fmt.Sprintf("input %d started %d times", x, seen[x])
		}
	}
	if rec.unknownCb > 0 {
		return "callback-for-unknown-input", fmt.Sprint(rec.unknownCb)
	}
	bad := false
	for _, x := range started {
		if rec.outcome[x] == 'b' || rec.outcome[x] == 'e' {
			bad = true
		}
	}
	if !bad && len(started) != n {
		return "input-skipped-without-break-or-failure", fmt.Sprintf("%d of %d inputs started", len(started), n)
	}
	if k != "inf" {
		kk, _ := strconv.Atoi(k)
		if rec.maxRun > kk {
			return "worker-bound-exceeded", fmt.Sprintf("%d callbacks ran at once with &num-workers=%s", rec.maxRun, k)
		}
	}
	got := append([]string(nil), obs.Outs...)
	sort.Slice(got, func(i, j int) bool { return pairLess(got[i], got[j]) })
	if want := expectedOuts(rec, sortedInts(started)); join(got) != join(want) {
		return "outputs-not-union-of-callback-outputs", fmt.Sprintf("got %s want %s", join(got), join(want))
	}
	if rec.running != 0 || rec.finished != len(started) {
		return "returned-before-callbacks-finished", fmt.Sprintf("%d started, %d finished, %d running at return",
			len(started), rec.finished, rec.running)
	}
	var wantErr []string
	for _, x := range sortedInts(started) {
		if rec.outcome[x] == 'e' {
			wantErr = append(wantErr, "e"+strconv.Itoa(x))
		}
	}
	if gotErr := errTokens(obs.Err); join(gotErr) != join(wantErr) {
		return "callback-exception-not-reported", fmt.Sprintf("returned %s, callbacks raised %s", join(gotErr), join(wantErr))
	}
	if k == "1" {
		// documented: with one worker peach behaves exactly like each
		if len(rec.afterBad) > 0 {
			return "one-worker-started-callback-after-break-or-failure",
				fmt.Sprintf("callback(s) %s started after a callback had broken/failed (start order %s)", ints(rec.afterBad), ints(started))
		}
		rec2, _ := newRecorder(cbString(rec), sp)
		obs2 := RunProgram(eachProgram(n), rec2, schedSpec{procs: sp.procs, input: "l"}, nil, nil, "cb.")
		a := obsLine(started, obs.Outs, obs.Err, true) + " order=" + ints(started)
		b := obsLine(rec2.started, obs2.Outs, obs2.Err, true) + " order=" + ints(rec2.started)
		if a != b {
			return "one-worker-differs-from-each", fmt.Sprintf("peach: %s | each: %s", a, b)
		}
	}
	return "", ""
}

func cbString(rec *recorder) string {
	if len(rec.outcome) == 0 {
		return "-"
	}
	p := make([]string, len(rec.outcome))
	for i := range rec.outcome {
		p[i] = string(rec.outcome[i]) + strconv.Itoa(rec.nouts[i])
	}
	return strings.Join(p, ",")
}

func execEach(f []string) OpResult {
	n, _ := strconv.Atoi(f[1])
	sp := schedSpec{procs: 2, input: "l"}
	rec, err := newRecorder(f[2], sp)
	if err != nil || len(rec.outcome) != n {
		return OpResult{Op: strings.Join(f, "\t"), Impl: "bad-op", Class: "bad-op", Detail: "cbspec"}
	}
	obs := RunProgram(eachProgram(n), rec, sp, nil, nil, "cb.")
	res := OpResult{Op: strings.Join(f, "\t")}
	if obs.Panicked != "" {
		res.Impl, res.Class, res.Detail = "PANIC", "crash", obs.Panicked
		return res
	}
	res.Impl = fmt.Sprintf("st=%s oo=%s err=%s", ints(rec.started), join(obs.Outs),
		errIdx(obs.Err))
	if n >= 2 {
		res.Tag = "each"
	}
	// each itself: sequential, stops at the first bad outcome
	if rec.maxRun > 1 {
		res.Class, res.Detail = "each-not-sequential", fmt.Sprint(rec.maxRun)
	}
	if len(rec.afterBad) > 0 {
		res.Class, res.Detail = "each-continued-after-break-or-failure", ints(rec.afterBad)
	}
	return res
}

func execRp(f []string) OpResult {
	n, _ := strconv.Atoi(f[1])
	sp := parseSched(f[3])
	rec, err := newRecorder(f[2], sp)
	if err != nil || len(rec.outcome) != n {
		return OpResult{Op: strings.Join(f, "\t") + "\t-", Impl: "bad-op", Class: "bad-op", Detail: "cbspec"}
	}
	var sb strings.Builder
	sb.WriteString("run-parallel")
	for i := 0; i < n; i++ {
		fmt.Fprintf(&sb, " { -vcb %d }", i)
	}
	obs := RunProgram(sb.String(), rec, sp, nil, nil, "rp.", "cb.")
	toks := rpTokens(obs.Events)
	res := OpResult{Op: strings.Join(f, "\t") + "\t" + join2(toks), Events: len(toks)}
	if obs.Panicked != "" {
		res.Impl, res.Class, res.Detail, res.Tag = "PANIC", "crash", obs.Panicked, "crash"
		return res
	}
	// canonical result: the exceptions the call reported — b / c for flow
	// exceptions, e<i> for the failure of function i (in that order).
	got := errTokens(obs.Err)
	var wantTok []string
	for _, o := range []byte{'b', 'c', 'e'} {
		for i := 0; i < n; i++ {
			if rec.outcome[i] == o {
				if o == 'e' {
					wantTok = append(wantTok, "e"+strconv.Itoa(i))
				} else {
					wantTok = append(wantTok, string(o))
				}
			}
		}
	}
	res.Impl = "ok res=" + join(got)
	if n >= 2 {
		res.Tag = "rp"
	}
	seen := map[int]int{}
	for _, x := range rec.started {
		seen[x]++
	}
	for i := 0; i < n; i++ {
		if seen[i] != 1 {
			res.Class, res.Detail = "rp-function-not-run-exactly-once", fmt.Sprintf("function %d ran %d times", i, seen[i])
			return res
		}
	}
	if rec.running != 0 || rec.finished != n {
		res.Class, res.Detail = "rp-returned-before-functions-finished", fmt.Sprint(rec.finished, "/", n)
		return res
	}
	if join(got) != join(wantTok) {
		res.Class, res.Detail = "rp-exception-not-reported", fmt.Sprintf("returned %s, functions raised %s", join(got), join(wantTok))
	}
	return res
}
