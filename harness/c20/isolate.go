package c20

// Crash containment for schedule-dependent properties (used by C20 and C19).
//
// The real code runs callbacks on goroutines the harness does not own, so a Go
// panic there (e.g. "semaphore: released more than held") cannot be recovered
// and would take the whole harness down.  Ops are therefore executed in a child
// process (this same binary, re-invoked with VERIF_HARNESS_CHILD=<prop>); when
// the child dies the parent records the op in flight as PANIC with the panic
// message and restarts the child for the remaining ops.

import (
	"bufio"
	"encoding/json"
	"fmt"
	"io"
	"os"
	"os/exec"
	"path/filepath"
	"sort"
	"strings"
	"sync"
	"time"

	"verifharness/common"
)

// OpResult is what one op produced on the real code.
type OpResult struct {
	Op     string `json:"op"`     // op line written to ops.txt (spec + recorded trace)
	Impl   string `json:"impl"`   // canonical line the Lean driver must reproduce
	Class  string `json:"class"`  // oracle failure class ("" = property held)
	Detail string `json:"detail"` // oracle detail
	Tag    string `json:"tag"`    // branch tag for the evidence histogram
	Events int    `json:"events"` // trace events validated by the model for this op
}

const childEnv = "VERIF_HARNESS_CHILD"

// IsChild reports whether this process is the op-executing child of prop.
func IsChild(prop string) bool { return os.Getenv(childEnv) == prop }

// ServeChild reads spec lines from stdin and answers one JSON line each.
func ServeChild(execOp func(spec string) OpResult) error {
	in := bufio.NewReaderSize(os.Stdin, 1<<20)
	out := bufio.NewWriter(os.Stdout)
	for {
		line, err := in.ReadString('\n')
		line = strings.TrimRight(line, "\n")
		if line != "" {
			res := execOp(line)
			b, _ := json.Marshal(res)
			out.Write(b)
			out.WriteByte('\n')
			out.Flush()
		}
		if err != nil {
			return nil
		}
	}
}

type child struct {
	cmd    *exec.Cmd
	stdin  io.WriteCloser
	stdout *bufio.Reader
	errBuf *tailBuf
}

type tailBuf struct {
	mu sync.Mutex
	b  []byte
}

func (t *tailBuf) Write(p []byte) (int, error) {
	t.mu.Lock()
	t.b = append(t.b, p...)
	if len(t.b) > 1<<16 {
		t.b = t.b[len(t.b)-1<<15:]
	}
	t.mu.Unlock()
	return len(p), nil
}

func (t *tailBuf) String() string { t.mu.Lock(); defer t.mu.Unlock(); return string(t.b) }

func startChild(c *common.Ctx) (*child, error) {
	cmd := exec.Command(os.Args[0], "-prop", c.Prop, "-seed", fmt.Sprint(c.Seed), "-tier", c.Tier, "-dir", c.Dir)
	cmd.Env = append(os.Environ(), childEnv+"="+c.Prop)
	stdin, err := cmd.StdinPipe()
	if err != nil {
		return nil, err
	}
	stdout, err := cmd.StdoutPipe()
	if err != nil {
		return nil, err
	}
	eb := &tailBuf{}
	cmd.Stderr = eb
	if err := cmd.Start(); err != nil {
		return nil, err
	}
	return &child{cmd, stdin, bufio.NewReaderSize(stdout, 1<<20), eb}, nil
}

func (ch *child) kill() {
	ch.stdin.Close()
	ch.cmd.Process.Kill()
	ch.cmd.Wait()
}

// panicLine extracts the Go panic / fatal error message from a stderr tail.
func panicLine(stderr string) string {
	for _, l := range strings.Split(stderr, "\n") {
		if strings.HasPrefix(l, "panic: ") || strings.HasPrefix(l, "fatal error: ") {
			return l
		}
	}
	s := strings.TrimSpace(stderr)
	if len(s) > 200 {
		s = s[len(s)-200:]
	}
	return strings.ReplaceAll(s, "\n", " | ")
}

// RunIsolated executes every spec in a child process.  crashed(spec, how, msg)
// builds the result for an op whose execution killed (how = "PANIC") or hung
// (how = "TIMEOUT") the child.
func RunIsolated(c *common.Ctx, specs []string, timeout time.Duration,
	crashed func(spec, how, msg string) OpResult) ([]OpResult, error) {
	var results []OpResult
	var ch *child
	defer func() {
		if ch != nil {
			ch.kill()
		}
	}()
	for _, spec := range specs {
		if ch == nil {
			var err error
			if ch, err = startChild(c); err != nil {
				return nil, err
			}
		}
		if _, err := io.WriteString(ch.stdin, spec+"\n"); err != nil {
			ch.kill()
			ch = nil
			results = append(results, crashed(spec, "PANIC", "child not accepting ops: "+err.Error()))
			continue
		}
		type rd struct {
			line string
			err  error
		}
		rc := make(chan rd, 1)
		go func(r *bufio.Reader) {
			l, err := r.ReadString('\n')
			rc <- rd{l, err}
		}(ch.stdout)
		select {
		case r := <-rc:
			var res OpResult
			if r.err != nil || json.Unmarshal([]byte(r.line), &res) != nil {
				ch.cmd.Wait()
				msg := panicLine(ch.errBuf.String())
				ch.kill()
				ch = nil
				results = append(results, crashed(spec, "PANIC", msg))
				continue
			}
			results = append(results, res)
		case <-time.After(timeout):
			ch.kill()
			ch = nil
			results = append(results, crashed(spec, "TIMEOUT", "no answer within "+timeout.String()))
		}
	}
	return results, nil
}

// GatherSpecs collects the op specs of a run like common.Std.Run does
// (replay file, or corpus followed by generated ops).  strip removes the
// recorded part (trace) of a stored op line so that the op is executed afresh.
func GatherSpecs(c *common.Ctx, gen func(emit func(fields ...string)), strip func(op string) string) ([]string, error) {
	var specs []string
	add := func(path string) error {
		data, err := os.ReadFile(path)
		if err != nil {
			return err
		}
		for _, l := range strings.Split(string(data), "\n") {
			if l != "" && !strings.HasPrefix(l, "#") {
				specs = append(specs, strip(l))
			}
		}
		return nil
	}
	if c.OpsIn != "" {
		return specs, add(c.OpsIn)
	}
	if c.Corpus != "" {
		if err := add(c.Corpus); err != nil {
			return nil, err
		}
	}
	gen(func(fields ...string) {
		for _, f := range fields {
			if f == "" || strings.ContainsAny(f, "\t\n") {
				panic(fmt.Sprintf("bad op field %q", f))
			}
		}
		specs = append(specs, strings.Join(fields, "\t"))
	})
	return specs, nil
}

// WriteRun writes ops.txt, impl.out, oracle.out and stats.json from results.
func WriteRun(c *common.Ctx, results []OpResult, rule string) error {
	var ops, impl, ora strings.Builder
	stats := common.Stats{Rule: rule, Tags: map[string]int{}}
	distinct := map[string]bool{}
	events := 0
	for i, r := range results {
		ops.WriteString(r.Op + "\n")
		impl.WriteString(strings.ReplaceAll(r.Impl, "\n", "\\n") + "\n")
		if r.Class != "" {
			fmt.Fprintf(&ora, "%d\t%s\t%s\n", i, r.Class, strings.ReplaceAll(r.Detail, "\n", "\\n"))
			stats.OracleFailures++
		}
		if r.Tag != "" {
			stats.Tags[r.Tag]++
			distinct[specKey(r.Op)] = true
		} else {
			stats.Tags["(trivial)"]++
		}
		events += r.Events
		if len(stats.Samples) < 6 && i%17 == 0 {
			s := r.Op
			if len(s) > 160 {
				s = s[:160] + "…"
			}
			stats.Samples = append(stats.Samples, s+"  =>  "+r.Impl)
		}
	}
	stats.Evaluations = len(results)
	stats.DistinctNontrivial = len(distinct)
	if c.Extra == nil {
		c.Extra = map[string]any{}
	}
	c.Extra["traces_validated_against_impl"] = len(results)
	c.Extra["trace_events"] = events
	stats.Extra = c.Extra
	for name, data := range map[string]string{"ops.txt": ops.String(), "impl.out": impl.String(), "oracle.out": ora.String()} {
		if err := os.WriteFile(filepath.Join(c.Dir, name), []byte(data), 0o644); err != nil {
			return err
		}
	}
	return common.WriteStats(c, &stats)
}

// specKey drops the recorded trace (last field) for the distinct count.
func specKey(op string) string {
	f := strings.Split(op, "\t")
	if len(f) > 3 {
		f = f[:len(f)-1]
	}
	return strings.Join(f, "\t")
}

// SortedKeys is a small helper for canonical output.
func SortedKeys(m map[string]int) []string {
	var ks []string
	for k := range m {
		ks = append(ks, k)
	}
	sort.Strings(ks)
	return ks
}
