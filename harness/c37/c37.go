// Package c37: correspondence and oracle for C37 (diag.NewContext).
package c37

import (
	"fmt"
	"strconv"
	"strings"

	"src.elv.sh/pkg/diag"
	"verifharness/common"
)

func init() { common.Register("C37", run) }

func run(c *common.Ctx) error {
	depth := c.Scale(6, 7)
	s := &common.Std{
		Rule: fmt.Sprintf("exhaustive: every source of ≤%d symbols over {a, é (2 bytes), \\n} × every byte range 0≤from≤to≤len, "+
			"plus out-of-range ranges and random longer multi-line sources; plus end-to-end ops: every diag.Context of the parse errors, "+
			"compilation errors and exception tracebacks that generated failing elvish programs really produce (via eval.Evaler.Eval); "+
			"non-trivial = range non-empty or source has a newline; distinct by op line", depth),
		ExhaustiveNote: fmt.Sprintf("sources ≤%d symbols × all in-range byte ranges", depth),
		Exhaustive:     false,
		Gen: func(c *common.Ctx, emit func(...string)) {
			syms := []string{"a", "é", "\n"}
			var rec func(prefix string, n int)
			rec = func(prefix string, n int) {
				for f := 0; f <= len(prefix); f++ {
					for t := f; t <= len(prefix); t++ {
						emit("ctx", common.Hex(prefix), strconv.Itoa(f), strconv.Itoa(t))
					}
				}
				if n == 0 {
					return
				}
				for _, s := range syms {
					rec(prefix+s, n-1)
				}
			}
			rec("", depth)
			// out-of-range ranges: the precondition of the property is violated,
			// both sides must agree on the partial operation (Go panic).
			for _, src := range []string{"", "a", "a\nb"} {
				for _, ft := range [][2]int{{-1, 0}, {0, len(src) + 1}, {1, 0}, {len(src) + 1, len(src) + 1}, {-2, -1}} {
					emit("ctx", common.Hex(src), strconv.Itoa(ft[0]), strconv.Itoa(ft[1]))
				}
			}
			// random longer sources
			alphabet := []string{"a", "b", " ", "é", "世", "😀", "\n", "\n", "\r", "\t"}
			n := c.Scale(4000, 200000)
			for i := 0; i < n; i++ {
				var sb strings.Builder
				for k := c.Rand.Range(0, 40); k > 0; k-- {
					sb.WriteString(common.Pick(c.Rand, alphabet))
				}
				src := sb.String()
				f := c.Rand.Range(0, len(src))
				t := c.Rand.Range(f, len(src))
				emit("ctx", common.Hex(src), strconv.Itoa(f), strconv.Itoa(t))
			}
			// end-to-end: contexts of real parse / compilation errors and tracebacks
			genE2E(c, emit)
		},
		Impl:   impl,
		Oracle: oracle,
		Tag: func(f []string, out string) string {
			if f[0] == "e2e" {
				return tagE2E(f, out)
			}
			src := common.Unhex(f[1])
			if out == "PANIC" {
				return "out-of-range"
			}
			switch {
			case f[2] == f[3] && !strings.Contains(src, "\n"):
				return ""
			case f[2] == f[3]:
				return "empty-range"
			}
			from, _ := strconv.Atoi(f[2])
			to, _ := strconv.Atoi(f[3])
			body := src[from:to]
			switch {
			case body == "\n":
				return "only-newline"
			case strings.HasSuffix(body, "\n"):
				return "ends-in-newline"
			case strings.Contains(body, "\n"):
				return "multi-line"
			}
			return "single-line"
		},
	}
	return s.Run(c)
}

func parseOp(f []string) (src string, from, to int) {
	src = common.Unhex(f[1])
	from, _ = strconv.Atoi(f[2])
	to, _ = strconv.Atoi(f[3])
	return
}

func impl(_ any, f []string) string {
	if f[0] == "e2e" {
		return implE2E(f)
	}
	src, from, to := parseOp(f)
	return format(diag.NewContext("n", src, diag.Ranging{From: from, To: to}))
}

// format prints a Context canonically (name "n" assumed).
func format(c *diag.Context) string {
	return fmt.Sprintf("%d %d %d %d %s %s %s %s", c.StartLine, c.StartCol, c.EndLine, c.EndCol,
		common.Hex(c.Body), common.Hex(c.Head), common.Hex(c.Tail), descOf(c))
}

// descOf returns what describeRange produced, without the "<name>:" prefix.
func descOf(c *diag.Context) string {
	// describeRange is unexported: take it from Show's first line.
	show := c.Show("")
	desc := show
	if i := strings.IndexAny(show, "\n"); i >= 0 && c.StartLine != c.EndLine {
		desc = show[:i]
		desc = strings.TrimSuffix(desc, ":")
	} else if c.StartLine == c.EndLine {
		// "<range>: <text>": the range has no space and no "\x1b"
		desc = show[:strings.Index(show, ": ")]
	}
	return strings.TrimPrefix(desc, c.Name+":")
}

// lineCol returns the 1-based line of byte offset off and the offset of that
// line's first byte, by direct scanning (independent of the implementation).
func lineCol(src string, off int) (line, lineStart int) {
	line = 1
	for i := 0; i < off; i++ {
		if src[i] == '\n' {
			line++
			lineStart = i + 1
		}
	}
	return
}

// oracle evaluates C37's statement directly.
func oracle(_ any, f []string, out string) (string, string) {
	if f[0] == "e2e" {
		return oracleE2E(f, out)
	}
	src, from, to := parseOp(f)
	if from < 0 || to < from || to > len(src) {
		return "", "" // outside the property's quantifier
	}
	if out == "PANIC" || out == "TIMEOUT" {
		return "crash-in-range", out
	}
	return checkCtx(src, diag.NewContext("n", src, diag.Ranging{From: from, To: to}))
}

// checkCtx evaluates C37's statement on a Context whose range lies in src.
func checkCtx(src string, c *diag.Context) (string, string) {
	from, to := c.From, c.To
	// start: identifies the first byte of the range
	l, ls := lineCol(src, from)
	if c.StartLine != l || c.StartCol != from-ls+1 {
		return "start-position", fmt.Sprintf("got %d:%d want %d:%d", c.StartLine, c.StartCol, l, from-ls+1)
	}
	// end: last byte, not counting one trailing newline; empty ⇒ endCol = startCol-1
	to2 := to
	if to > from && src[to-1] == '\n' {
		to2 = to - 1
	}
	// Uniform reading (DESIGN §8 C37): the position (line L, column c) denotes
	// byte offset lineStart(L)+c-1; the end position must denote byte to2-1, on
	// the line reached after the newlines of src[:to2].  This covers the
	// ordinary case, the empty case (endCol = startCol-1) and a range whose last
	// counted byte is itself a newline (endCol = 0 on the following line).
	wantEndLine, els := lineCol(src, to2)
	wantEndCol := to2 - els
	if c.EndLine != wantEndLine || c.EndCol != wantEndCol {
		return "end-position", fmt.Sprintf("got %d:%d want %d:%d", c.EndLine, c.EndCol, wantEndLine, wantEndCol)
	}
	// head/body/tail: the text of the lines containing the range
	_, firstLS := lineCol(src, from)
	lastLE := to2
	if !(to > from && src[to-1] == '\n') {
		for lastLE < len(src) && src[lastLE] != '\n' {
			lastLE++
		}
	}
	if c.Head+c.Body+c.Tail != src[firstLS:lastLE] || strings.Contains(c.Head, "\n") || strings.Contains(c.Tail, "\n") {
		return "context-text", fmt.Sprintf("head+body+tail=%q want %q", c.Head+c.Body+c.Tail, src[firstLS:lastLE])
	}
	// the reported description: one position iff the adjusted range is empty,
	// l:c-c on one line, l:c-l:c otherwise, with the positions derived above
	var wantDesc string
	switch {
	case to2 == from:
		wantDesc = fmt.Sprintf("%d:%d", l, from-ls+1)
	case wantEndLine == l:
		wantDesc = fmt.Sprintf("%d:%d-%d", l, from-ls+1, wantEndCol)
	default:
		wantDesc = fmt.Sprintf("%d:%d-%d:%d", l, from-ls+1, wantEndLine, wantEndCol)
	}
	if got := descOf(c); got != wantDesc {
		return "range-description", fmt.Sprintf("got %q want %q", got, wantDesc)
	}
	return "", ""
}
