package c37

// End-to-end stream: "This holds for parse errors, compilation errors and
// exception stack traces."  Small failing elvish programs are generated, the
// REAL errors are obtained in-process through (*eval.Evaler).Eval (which runs
// parse.Parse, the compiler and the evaluator), and every diag.Context found in
// a parse error, a compilation error or an exception's stack trace becomes one
// op
//
//	e2e <hex src> <from> <to> <kind>
//
// whose impl output is that real Context (re-obtained by re-running the
// program, so that replays are self-contained) and which the Lean model
// recomputes from src/from/to alone.

import (
	"fmt"
	"os"
	"strconv"
	"strings"
	"sync"

	"src.elv.sh/pkg/diag"
	"src.elv.sh/pkg/eval"
	"src.elv.sh/pkg/parse"
	"verifharness/common"
)

const srcName = "n"

type foundCtx struct {
	kind string // parse | compile | exception
	ctx  *diag.Context
}

var (
	lastMu   sync.Mutex
	lastSrc  string
	lastCtxs []foundCtx
	lastOK   bool
	isolate  sync.Once
)

// contextsOf runs the program and returns every Context the resulting error
// carries for this source, in a deterministic order.
func contextsOf(src string) []foundCtx {
	lastMu.Lock()
	if lastOK && lastSrc == src {
		r := lastCtxs
		lastMu.Unlock()
		return r
	}
	lastMu.Unlock()
	// Generated (and randomly damaged) programs must not depend on or touch the
	// environment: no external command can be found (a damaged builtin name such
	// as `ar`/`tr` is then just a "command not found" exception), and the
	// catalogue contains no redirection and no wildcard.
	isolate.Do(func() { os.Setenv("PATH", "/nonexistent-verif-path") })
	ev := eval.NewEvaler()
	err := ev.Eval(parse.Source{Name: srcName, Code: src}, eval.EvalCfg{})
	var out []foundCtx
	add := func(kind string, c *diag.Context) {
		// Contexts of other sources (e.g. code run by `eval`) are about another
		// text; the property is per source.
		if c != nil && c.Name == srcName {
			out = append(out, foundCtx{kind, c})
		}
	}
	for _, pe := range parse.UnpackErrors(err) {
		add("parse", &pe.Context)
	}
	for _, ce := range eval.UnpackCompilationErrors(err) {
		add("compile", &ce.Context)
	}
	var walk func(e error, depth int)
	walk = func(e error, depth int) {
		if e == nil || depth > 8 {
			return
		}
		switch e := e.(type) {
		case eval.Exception:
			for st := e.StackTrace(); st != nil; st = st.Next {
				add("exception", st.Head)
			}
			walk(e.Reason(), depth+1)
		case eval.PipelineError:
			for _, x := range e.Errors {
				walk(x, depth+1)
			}
		}
	}
	walk(err, 0)
	lastMu.Lock()
	lastSrc, lastCtxs, lastOK = src, out, true
	lastMu.Unlock()
	return out
}

func parseE2E(f []string) (src string, from, to int, kind string) {
	src = common.Unhex(f[1])
	from, _ = strconv.Atoi(f[2])
	to, _ = strconv.Atoi(f[3])
	kind = f[4]
	return
}

func findE2E(f []string) (string, *diag.Context) {
	src, from, to, kind := parseE2E(f)
	for _, fc := range contextsOf(src) {
		if fc.kind == kind && fc.ctx.From == from && fc.ctx.To == to {
			return src, fc.ctx
		}
	}
	return src, nil
}

func implE2E(f []string) string {
	_, c := findE2E(f)
	if c == nil {
		return "NOCTX"
	}
	return format(c)
}

func oracleE2E(f []string, out string) (string, string) {
	if out == "PANIC" || out == "TIMEOUT" {
		return "e2e-crash", out
	}
	src, c := findE2E(f)
	if c == nil {
		return "e2e-context-not-reproducible", "no " + f[4] + " context with this range on re-run"
	}
	if c.From < 0 || c.To < c.From || c.To > len(src) {
		return "e2e-range-outside-source", fmt.Sprintf("range %d-%d, source length %d", c.From, c.To, len(src))
	}
	class, detail := checkCtx(src, c)
	if class != "" {
		return "e2e-" + class, f[4] + ": " + detail
	}
	return "", ""
}

func tagE2E(f []string, out string) string {
	t := "e2e-" + f[4]
	if out == "NOCTX" || out == "PANIC" {
		return t + "-" + strings.ToLower(out)
	}
	src, from, to, _ := parseE2E(f)
	if from >= 0 && from <= to && to <= len(src) {
		body := src[from:to]
		switch {
		case from == to:
			t += "-empty"
		case strings.Contains(strings.TrimSuffix(body, "\n"), "\n"):
			t += "-multiline"
		case strings.HasSuffix(body, "\n"):
			t += "-ends-in-newline"
		}
	}
	return t
}

// ---- program generator ----

var fillers = []string{
	"", "", "# comment é世", "nop a b", "nop [a b c]", "nop 'é世 😀'", "echo hi", "var v = x",
	"nop [&k=v]", "  ", "nop a; nop b", "nop (put a)",
}

// single-line commands that raise an exception when run
var failing1 = []string{
	"fail oops", "+ 1 a", "put [a b][5]", "nop (fail 世)", "put (put [a][2])", "var q = (fail é)",
	"each {|x| fail $x } [a]", "{ fail a } | { fail b }", "kind-of (fail x)", "put a | fail b",
	"nop é; fail 世界", "/ 1 0", "put [&a=b][c]", "var a b = 1", "nop ?(fail in) (fail out)",
	"try { fail a } catch e { fail b }", "put $nil[x]", "eval 'fail inner'", "if (fail c) { }",
	"range 2 | each {|i| + $i x }",
}

// multi-line commands that raise an exception (the failing form spans lines)
var failingN = []string{
	"fail (\n  put x\n)", "put [\n a\n b\n][7]", "+ 1 ^\n a", "nop (\n  fail é\n)\n",
	"put [\n  &a=b\n][\n c\n]", "each {|x|\n  fail $x\n} [\n a\n]", "{ fail a\n} | {\n fail b }",
	"if (eq a a) {\n  fail yes\n}", "var a b = (\n  put 1\n)",
}

var compileBad = []string{
	"echo $undef", "set nosuch = 1", "nop $x~", "var x = $y", "del nosuch", "fn", "if a", "try { }",
	"for x", "nop $e:", "use", "var 'a b", "echo $undef1 $undef2", "nop {\n  put $inner-undef\n}",
	"set a b = 1", "var a = $a", "nop $é世", "while", "tmp nosuch = 1", "and $u", "fn f {|a| put $b }",
	"put $x[\n 1\n]",
}

var parseBad = []string{
	"echo (", "echo [", "echo {", "echo 'abc", "echo \"abc", "echo $", "put a)", "put ]", "echo a |",
	"put [a &]", "a = ", "put {|a", "echo $a[", "put (\n a\n", "echo \"\\q\"", "put [&a=]]",
	"put a &&", "put {a,", "nop é(", "put 世)", "echo $é{", "nop [\n a\n", "}",
	"echo 'x\n\n", "put \"é\n世",
}

func indent(s, pre string) string {
	lines := strings.Split(s, "\n")
	for i, l := range lines {
		if l != "" {
			lines[i] = pre + l
		}
	}
	return strings.Join(lines, "\n")
}

func genProgram(r *common.Rand) (string, string) {
	var lines []string
	fill := func(n int) {
		for ; n > 0; n-- {
			lines = append(lines, common.Pick(r, fillers))
		}
	}
	culprit := func(kind string) string {
		switch kind {
		case "parse":
			return common.Pick(r, parseBad)
		case "compile":
			return common.Pick(r, compileBad)
		}
		if r.Chance(1, 3) {
			return common.Pick(r, failingN)
		}
		return common.Pick(r, failing1)
	}
	kind := common.Pick(r, []string{"parse", "compile", "exception", "exception"})
	fill(r.Range(0, 3))
	nfn := r.Range(0, 3)
	last := ""
	for k := 0; k < nfn; k++ {
		name := fmt.Sprintf("f%d", k)
		var body []string
		for j := r.Range(0, 2); j > 0; j-- {
			body = append(body, common.Pick(r, fillers))
		}
		switch {
		case k == 0 || r.Chance(1, 4):
			body = append(body, culprit(kind))
		case r.Chance(1, 3):
			body = append(body, "nop (\n  "+last+" a\n)")
		default:
			body = append(body, last+" a b")
		}
		for j := r.Range(0, 1); j > 0; j-- {
			body = append(body, common.Pick(r, fillers))
		}
		lines = append(lines, "fn "+name+" {|@a|", indent(strings.Join(body, "\n"), common.Pick(r, []string{"  ", "\t", ""})), "}")
		fill(r.Range(0, 2))
		last = name
	}
	switch {
	case last == "":
		lines = append(lines, culprit(kind))
	case r.Chance(1, 4):
		lines = append(lines, "if (eq a a) {\n  "+last+" x\n}")
	case r.Chance(1, 4):
		lines = append(lines, "put 1 | each {|_|\n "+last+" é }")
	default:
		lines = append(lines, last+" x y")
	}
	if r.Chance(1, 3) { // a second defect
		lines = append(lines, culprit(kind))
	}
	fill(r.Range(0, 2))
	src := strings.Join(lines, "\n")
	switch r.Intn(4) {
	case 0:
		src += "\n"
	case 1:
		src = strings.ReplaceAll(src, "\n", "\r\n")
	}
	return src, kind
}

// mutate damages a program at a random byte: deletes it or inserts a
// syntactically significant character (a source of parse errors at arbitrary
// positions, including inside multibyte characters).
func mutate(r *common.Rand, src string) string {
	if len(src) == 0 {
		return "("
	}
	i := r.Intn(len(src))
	if r.Bool() {
		return src[:i] + src[i+1:]
	}
	return src[:i] + common.Pick(r, []string{"(", ")", "{", "}", "[", "]", "'", "\"", "$", "|", "&", ";", "\n", "\xff"}) + src[i:]
}

func genE2E(c *common.Ctx, emit func(...string)) {
	seen := map[string]bool{}
	emitAll := func(src string) {
		var cs []foundCtx
		if out, _ := common.Guard(20e9, func() string { cs = contextsOf(src); return "" }); out != "" {
			// a crash/hang of elvish itself on this program is not C37's subject
			c.Extra["e2e_program_"+strings.ToLower(out)] = common.Hex(src)
			return
		}
		for _, fc := range cs {
			key := fmt.Sprintf("%s\t%d\t%d\t%s", src, fc.ctx.From, fc.ctx.To, fc.kind)
			if seen[key] {
				continue
			}
			seen[key] = true
			emit("e2e", common.Hex(src), strconv.Itoa(fc.ctx.From), strconv.Itoa(fc.ctx.To), fc.kind)
		}
	}
	// every catalogue entry alone, bare and surrounded by other lines
	for _, list := range [][]string{failing1, failingN, compileBad, parseBad} {
		for _, s := range list {
			emitAll(s)
			emitAll("nop é\n\n" + s + "\nnop z\n")
		}
	}
	n := c.Scale(700, 20000)
	for i := 0; i < n; i++ {
		src, _ := genProgram(c.Rand)
		emitAll(src)
		if c.Rand.Chance(1, 3) {
			emitAll(mutate(c.Rand, src))
		}
	}
}
