// Package c13: correspondence and oracle for C13 (indexing and slicing of
// lists and strings, assoc / element assignment).
//
// Ops (tab separated; byte strings hex-encoded):
//
//	cvt <n> <raw>                 vals.ConvertListIndex(raw, n)
//	li  <n> <raw>                 vals.Index([0 1 … n-1], raw)
//	la  <n> <raw>                 vals.Assoc([0 1 … n-1], raw, 999)
//	si  <hex s> <raw>             vals.Index(s, raw)
//	sa  <hex s> <raw> <hex v|~>   vals.Assoc(s, raw, v)        (~ = v is not a string)
//	eli/ela/esi/esa               the same through elvish source code evaluated
//	                              in-process: `put $x[idx]`, `set x[idx] = v`
//
// raw = i:<decimal> (Go int) | s:<hex> (string) | o:<kind>[:<text>] (any other
// dynamic type: f float64, b *big.Int, r *big.Rat, list, map, nil, bool).
package c13

import (
	"fmt"
	"math"
	"math/big"
	"regexp"
	"strconv"
	"strings"
	"unicode/utf8"

	"src.elv.sh/pkg/eval"
	"src.elv.sh/pkg/eval/errs"
	"src.elv.sh/pkg/eval/vals"
	"src.elv.sh/pkg/eval/vars"
	"src.elv.sh/pkg/parse"
	"verifharness/common"
)

func init() { common.Register("C13", run) }

// ---------------------------------------------------------------------------
// decoding of op fields

func decodeRaw(f string) any {
	switch {
	case strings.HasPrefix(f, "i:"):
		i, err := strconv.ParseInt(f[2:], 10, 64)
		if err != nil {
			panic("bad raw int " + f)
		}
		return int(i)
	case strings.HasPrefix(f, "s:"):
		return common.Unhex(f[2:])
	case strings.HasPrefix(f, "o:"):
		k := f[2:]
		arg := ""
		if j := strings.IndexByte(k, ':'); j >= 0 {
			k, arg = k[:j], k[j+1:]
		}
		switch k {
		case "f":
			switch arg {
			case "nan":
				return math.NaN()
			case "inf":
				return math.Inf(1)
			}
			x, err := strconv.ParseFloat(arg, 64)
			if err != nil {
				panic("bad raw float " + f)
			}
			return x
		case "b":
			z, ok := new(big.Int).SetString(arg, 10)
			if !ok {
				panic("bad raw bigint " + f)
			}
			return z
		case "r":
			z, ok := new(big.Rat).SetString(arg)
			if !ok {
				panic("bad raw bigrat " + f)
			}
			return z
		case "list":
			return vals.MakeList("0")
		case "map":
			return vals.MakeMap("0", "1")
		case "nil":
			return nil
		case "bool":
			return true
		}
	}
	panic("bad raw field " + f)
}

func mkList(n int) vals.List {
	l := vals.EmptyList
	for i := 0; i < n; i++ {
		l = l.Conj(i)
	}
	return l
}

func showList(l vals.List) string {
	if l.Len() == 0 {
		return "list -"
	}
	var sb strings.Builder
	sb.WriteString("list ")
	first := true
	for it := l.Iterator(); it.HasElem(); it.Next() {
		if !first {
			sb.WriteByte(',')
		}
		first = false
		fmt.Fprint(&sb, it.Elem())
	}
	return sb.String()
}

func showErr(err error) string {
	if exc, ok := err.(eval.Exception); ok {
		err = exc.Reason()
	}
	if e, ok := err.(errs.OutOfRange); ok {
		return fmt.Sprintf("exc oor|%s|%s|%s|%s", e.What, e.ValidLow, e.ValidHigh, common.Hex(e.Actual))
	}
	switch err.Error() {
	case "index must be integer":
		return "exc must-be-integer"
	case "index not at rune boundary":
		return "exc not-at-rune-boundary"
	case "assoc with slice not yet supported":
		return "exc assoc-with-slice"
	case "replacement must be string":
		return "exc replacement-must-be-string"
	}
	return "exc OTHER " + strings.ReplaceAll(err.Error(), "\t", " ")
}

func showVal(v any) string {
	switch v := v.(type) {
	case nil:
		return "nil"
	case int:
		return fmt.Sprintf("elem %d", v)
	case string:
		return "str " + common.Hex(v)
	case vals.List:
		if v == nil {
			return "nil"
		}
		return showList(v)
	}
	return fmt.Sprintf("OTHER %T", v)
}

// ---------------------------------------------------------------------------
// the implementation side

type state struct {
	ev         *eval.Evaler
	xv, iv, vv vars.Var
}

func newState(*common.Ctx) any {
	st := &state{ev: eval.NewEvaler(), xv: vars.FromInit(""), iv: vars.FromInit(""), vv: vars.FromInit("")}
	st.ev.ExtendGlobal(eval.BuildNs().AddVar("x", st.xv).AddVar("i", st.iv).AddVar("v", st.vv))
	return st
}

var plainIndex = regexp.MustCompile(`^[-+.=0-9]+$`)

// indexSource renders the index as elvish source where that is natural
// (number-like barewords, `(num …)` for typed numbers); anything else is
// passed through the variable $i.
func (st *state) indexSource(rawField string, raw any) string {
	switch r := raw.(type) {
	case string:
		if plainIndex.MatchString(r) {
			return r
		}
		if r != "" && utf8.ValidString(r) && !strings.ContainsAny(r, "\x00\r\n") && len(rawField)%3 == 0 {
			return parse.Quote(r)
		}
	case int:
		return "(num " + strconv.Itoa(r) + ")"
	case *big.Int:
		return "(num " + r.String() + ")"
	}
	st.iv.Set(raw)
	return "$i"
}

func (st *state) evalCode(code string) (vs []any, err error) {
	port, collect, perr := eval.CapturePort()
	if perr != nil {
		panic(perr)
	}
	err = st.ev.Eval(parse.Source{Name: "[c13]", Code: code},
		eval.EvalCfg{Ports: []*eval.Port{nil, port, nil}})
	vs, _ = collect()
	return vs, err
}

func impl(sta any, f []string) string {
	st := sta.(*state)
	raw := decodeRaw(f[2])
	switch f[0] {
	case "cvt":
		n, err := strconv.Atoi(f[1])
		if err != nil {
			panic("bad n")
		}
		ix, cerr := vals.ConvertListIndex(raw, n)
		if cerr != nil {
			return showErr(cerr)
		}
		b := 0
		if ix.Slice {
			b = 1
		}
		return fmt.Sprintf("ok %d %d %d", b, ix.Lower, ix.Upper)
	case "li", "la", "eli", "ela":
		n, err := strconv.Atoi(f[1])
		if err != nil {
			panic("bad n")
		}
		l := mkList(n)
		var v any
		var ierr error
		switch f[0] {
		case "li":
			v, ierr = vals.Index(l, raw)
		case "la":
			v, ierr = vals.Assoc(l, raw, 999)
		case "eli":
			st.xv.Set(l)
			var vs []any
			vs, ierr = st.evalCode("put $x[" + st.indexSource(f[2], raw) + "]")
			if ierr == nil {
				if len(vs) != 1 {
					return fmt.Sprintf("OTHER %d values", len(vs))
				}
				v = vs[0]
			}
		case "ela":
			st.xv.Set(l)
			_, ierr = st.evalCode("set x[" + st.indexSource(f[2], raw) + "] = (num 999)")
			v = st.xv.Get()
		}
		if ierr != nil {
			return showErr(ierr)
		}
		return showVal(v)
	case "si", "sa", "esi", "esa":
		s := common.Unhex(f[1])
		var v any
		var ierr error
		var repl any = 1.5
		if len(f) > 3 && f[3] != "~" {
			repl = common.Unhex(f[3])
		}
		switch f[0] {
		case "si":
			v, ierr = vals.Index(s, raw)
		case "sa":
			v, ierr = vals.Assoc(s, raw, repl)
		case "esi":
			st.xv.Set(s)
			var vs []any
			vs, ierr = st.evalCode("put $x[" + st.indexSource(f[2], raw) + "]")
			if ierr == nil {
				if len(vs) != 1 {
					return fmt.Sprintf("OTHER %d values", len(vs))
				}
				v = vs[0]
			}
		case "esa":
			st.xv.Set(s)
			st.vv.Set(repl)
			_, ierr = st.evalCode("set x[" + st.indexSource(f[2], raw) + "] = $v")
			v = st.xv.Get()
		}
		if ierr != nil {
			return showErr(ierr)
		}
		return showVal(v)
	}
	panic("bad op " + f[0])
}

// ---------------------------------------------------------------------------
// the reference, written from website/ref/language.md (List, String) and the
// doc of `assoc` — independent of the implementation and of the Lean model.
//
//   - an index is a decimal integer, optionally signed; a slice is `a..b` or
//     `a..=b` with either integer omitted;
//   - a non-negative integer counts from the front, a negative one from the back;
//   - element index i is valid iff its position p satisfies 0 ≤ p < n;
//   - slice a..b selects positions [pa, pb); a defaults to 0, b to n; a..=b
//     additionally includes position pb, i.e. selects [pa, pb+1); it is valid
//     iff 0 ≤ lo ≤ hi ≤ n;
//   - typed integers behave like their decimal strings; any other value is
//     not an index;
//   - strings: the same with n = number of bytes; an element index must be
//     where a code point starts and yields that code point; a slice must
//     begin and end at code point boundaries.  Unspecified for strings that
//     are not valid UTF-8.
//   - assoc on a list replaces exactly the addressed element; a slice is not
//     supported.
var (
	reInt   = regexp.MustCompile(`^[+-]?[0-9]+$`)
	reSlice = regexp.MustCompile(`^([+-]?[0-9]+)?\.\.(=)?([+-]?[0-9]+)?$`)
)

type refIndex struct {
	valid  bool
	slice  bool
	lo, hi int // element: lo; slice: [lo, hi)
}

func bigOf(s string) *big.Int {
	z, ok := new(big.Int).SetString(s, 10)
	if !ok {
		panic("oracle: not an integer: " + s)
	}
	return z
}

func refPos(i *big.Int, n int) *big.Int {
	if i.Sign() >= 0 {
		return i
	}
	return new(big.Int).Add(i, big.NewInt(int64(n)))
}

func ref(raw any, n int) refIndex {
	bn := big.NewInt(int64(n))
	elem := func(i *big.Int) refIndex {
		p := refPos(i, n)
		if p.Sign() >= 0 && p.Cmp(bn) < 0 {
			return refIndex{valid: true, lo: int(p.Int64())}
		}
		return refIndex{}
	}
	switch r := raw.(type) {
	case int:
		return elem(big.NewInt(int64(r)))
	case string:
		if reInt.MatchString(r) {
			return elem(bigOf(r))
		}
		m := reSlice.FindStringSubmatch(r)
		if m == nil {
			return refIndex{}
		}
		lo, hi := big.NewInt(0), bn
		if m[1] != "" {
			lo = refPos(bigOf(m[1]), n)
		}
		if m[3] != "" {
			hi = refPos(bigOf(m[3]), n)
			if m[2] == "=" {
				hi = new(big.Int).Add(hi, big.NewInt(1))
			}
		}
		if lo.Sign() >= 0 && lo.Cmp(hi) <= 0 && hi.Cmp(bn) <= 0 {
			return refIndex{valid: true, slice: true, lo: int(lo.Int64()), hi: int(hi.Int64())}
		}
		return refIndex{}
	}
	return refIndex{}
}

// isBoundary: a code point boundary of a valid UTF-8 string.
func isBoundary(s string, i int) bool {
	return i == len(s) || utf8.RuneStart(s[i])
}

func isExc(out string) bool { return strings.HasPrefix(out, "exc ") }

func oracle(sta any, f []string, out string) (string, string) {
	if out == "PANIC" || out == "TIMEOUT" {
		return "crash", out
	}
	if strings.Contains(out, "OTHER") {
		return "unexpected-result", out
	}
	raw := decodeRaw(f[2])
	switch f[0] {
	case "cvt":
		n, _ := strconv.Atoi(f[1])
		r := ref(raw, n)
		if !r.valid {
			if !isExc(out) {
				return "accepts-ruled-out-index", out
			}
			return "", ""
		}
		if isExc(out) {
			return "rejects-valid-index", out
		}
		var b, lo, hi int
		fmt.Sscanf(out, "ok %d %d %d", &b, &lo, &hi)
		if (b == 1) != r.slice || lo != r.lo || (r.slice && hi != r.hi) {
			return "wrong-bounds", fmt.Sprintf("got %s want slice=%v [%d,%d)", out, r.slice, r.lo, r.hi)
		}
	case "li", "eli":
		n, _ := strconv.Atoi(f[1])
		r := ref(raw, n)
		if !r.valid {
			if !isExc(out) {
				return "accepts-ruled-out-index", out
			}
			return "", ""
		}
		if isExc(out) {
			return "rejects-valid-index", out
		}
		want := fmt.Sprintf("elem %d", r.lo)
		if r.slice {
			want = refList(r.lo, r.hi, -1)
		}
		if out != want {
			return "wrong-list-element", fmt.Sprintf("got %s want %s", out, want)
		}
	case "la", "ela":
		n, _ := strconv.Atoi(f[1])
		r := ref(raw, n)
		if !r.valid || r.slice {
			if !isExc(out) {
				return "assoc-accepts-ruled-out-index", out
			}
			return "", ""
		}
		if isExc(out) {
			return "assoc-rejects-valid-index", out
		}
		if want := refList(0, n, r.lo); out != want {
			return "assoc-wrong-list", fmt.Sprintf("got %s want %s", out, want)
		}
	case "si", "esi", "sa", "esa":
		s := common.Unhex(f[1])
		if !utf8.ValidString(s) {
			return "", "" // unspecified by the reference (only crash-freedom, above)
		}
		fffd := ""
		if strings.Contains(s, "�") {
			fffd = "-fffd"
		}
		r := ref(raw, len(s))
		assoc := f[0] == "sa" || f[0] == "esa"
		ok := r.valid
		if ok && r.slice {
			ok = isBoundary(s, r.lo) && isBoundary(s, r.hi)
		} else if ok {
			ok = isBoundary(s, r.lo)
			_, size := utf8.DecodeRuneInString(s[r.lo:])
			r.hi = r.lo + size
		}
		if assoc && f[3] == "~" {
			ok = false
		}
		if !ok {
			if !isExc(out) {
				return "string-accepts-ruled-out-index" + fffd, out
			}
			return "", ""
		}
		if isExc(out) {
			return "string-rejects-valid-index" + fffd, out
		}
		want := s[r.lo:r.hi]
		if assoc {
			want = s[:r.lo] + common.Unhex(f[3]) + s[r.hi:]
		}
		if out != "str "+common.Hex(want) {
			return "wrong-string-part" + fffd, fmt.Sprintf("got %s want str %s", out, common.Hex(want))
		}
	}
	return "", ""
}

// refList renders [lo, hi) of [0 1 …] with position repl (if ≥ 0) replaced by 999.
func refList(lo, hi, repl int) string {
	if lo >= hi {
		return "list -"
	}
	parts := make([]string, 0, hi-lo)
	for k := lo; k < hi; k++ {
		if k == repl {
			parts = append(parts, "999")
		} else {
			parts = append(parts, strconv.Itoa(k))
		}
	}
	return "list " + strings.Join(parts, ",")
}

// ---------------------------------------------------------------------------
// generation

func rawStr(s string) string { return "s:" + common.Hex(s) }
func rawInt(i int) string    { return "i:" + strconv.Itoa(i) }

// indexForms calls g with every index string whose bounds are taken from
// bounds (as text), in every form of the reference.
func indexForms(bounds []string, g func(idx string)) {
	for _, a := range bounds {
		g(a)
	}
	withEmpty := append([]string{""}, bounds...)
	for _, a := range withEmpty {
		for _, b := range withEmpty {
			g(a + ".." + b)
			g(a + "..=" + b)
		}
	}
}

func decimals(lo, hi int) []string {
	var r []string
	for i := lo; i <= hi; i++ {
		r = append(r, strconv.Itoa(i))
	}
	return r
}

var otherRaws = []string{"o:f:0", "o:f:1", "o:f:-1", "o:f:1.5", "o:f:nan", "o:f:inf",
	"o:b:9223372036854775808", "o:b:-9223372036854775809", "o:b:100000000000000000000",
	"o:r:1/2", "o:r:3/2", "o:list", "o:map", "o:nil", "o:bool"}

var hugeBounds = []string{
	"9223372036854775806", "9223372036854775807", "9223372036854775808", "9223372036854775809",
	"-9223372036854775807", "-9223372036854775808", "-9223372036854775809", "-9223372036854775810",
	"18446744073709551614", "18446744073709551615", "18446744073709551616", "18446744073709551617",
	"-18446744073709551615", "-18446744073709551616",
	"99999999999999999999", "100000000000000000000", "-99999999999999999999", "+99999999999999999999",
	"1000000000000000000", "999999999999999999", "-1000000000000000000", // 19 and 18 digits (fast/slow path edge)
	"0000000000000000000000001", "-0000000000000000000000002", "+0000000000000000000",
	"99999999999999999999x", "-99999999999999999999x", "18446744073709551616.", "1844674407370955161x", "184467440737095516150x",
	"4294967296", "-4294967296", "2147483648",
}

var textVariants = []string{"+0", "+1", "+2", "-0", "00", "01", "007", "-01", "+-1", "--1", "-+1", "+", "-", " 1", "1 ", "1_0", "0x1", "0b1", "0o1", "1e0", "1.0", "1.", ".1", "１", "٣", "a", "=", "1=", ":", "1:3:2", "\xff", "1\x00"}

var garbageAlphabet = []string{"0", "1", "2", "9", "-", "-", "+", ".", ".", ".", "=", " ", "a", ":", "_", "x", "e", "\xff", "٣"}

var strAlphabet = []string{"a", "é", "世", "😀", "�", "\xff", "\x80", "\xe4", "\xf0\x9f"}
var strValidAlphabet = []string{"a", "é", "世", "😀", "�"}

// mix64 is the splitmix64 finaliser.  common.NewRand(seed) starts at
// seed*gamma+c and steps by gamma, so seeds k and k+1 yield the same stream
// shifted by one draw; hashing the seed first makes different VERIF_SEEDs
// produce unrelated streams (still fully determined by the seed).
func mix64(z uint64) uint64 {
	z = (z ^ (z >> 30)) * 0xBF58476D1CE4E5B9
	z = (z ^ (z >> 27)) * 0x94D049BB133111EB
	return z ^ (z >> 31)
}

func run(c *common.Ctx) error {
	c.Rand = common.NewRand(mix64(c.Seed + 0x13))
	maxN := c.Scale(12, 40)
	s := &common.Std{
		Rule: fmt.Sprintf("exhaustive: every list length n ≤ %d × every index string with decimal bounds in [-n-2, n+2] in every form "+
			"(i, a..b, a.., ..b, .., a..=b, ..=b, a..=, ..=) through ConvertListIndex, Index and Assoc, × typed ints in the same range; "+
			"floats, big ints, rationals, other types; textual variants (+k, leading zeros, -0, spaces, hex, underscores, non-ASCII digits); "+
			"18–25 digit and overflowing bounds in every form against small and huge n; random garbage strings; "+
			"strings of ≤2 symbols over {a, é, 世, 😀, U+FFFD, \\xff, \\x80, \\xe4, \\xf0\\x9f} × every index form over [-n-2, n+2], "+
			"valid strings of 3 symbols × all in-range forms, random longer strings; a sample re-run through elvish source code "+
			"(`put $x[idx]`, `set x[idx] = v`); non-trivial = everything except non-number index types; distinct by op line", maxN),
		ExhaustiveNote: fmt.Sprintf("n ≤ %d × all index forms with bounds in [-n-2, n+2]; strings ≤ 2 symbols over a 9-symbol alphabet × all forms", maxN),
		Exhaustive:     false,
		NewState:       newState,
		Gen:            gen,
		Impl:           impl,
		Oracle:         oracle,
		Tag:            tag,
	}
	return s.Run(c)
}

func gen(c *common.Ctx, emit func(...string)) {
	maxN := c.Scale(12, 40)
	evalOne := c.Scale(40, 40) // 1 in evalOne list/string ops is also run through elvish code
	listOp := func(n int, raw string) {
		sn := strconv.Itoa(n)
		emit("cvt", sn, raw)
		emit("li", sn, raw)
		emit("la", sn, raw)
		if c.Rand.Intn(evalOne) == 0 {
			emit("eli", sn, raw)
		}
		if c.Rand.Intn(evalOne*2) == 0 {
			emit("ela", sn, raw)
		}
	}
	strOp := func(s string, raw string) {
		hs := common.Hex(s)
		emit("si", hs, raw)
		if c.Rand.Intn(6) == 0 {
			repl := common.Pick(c.Rand, []string{"", "Z", "世", "\xff", "~"})
			hv := repl
			if repl != "~" {
				hv = common.Hex(repl)
			}
			emit("sa", hs, raw, hv)
			if c.Rand.Intn(evalOne/4) == 0 {
				emit("esa", hs, raw, hv)
			}
		}
		if c.Rand.Intn(evalOne) == 0 {
			emit("esi", hs, raw)
		}
	}
	// 1. lists: exhaustive small domain
	for n := 0; n <= maxN; n++ {
		indexForms(decimals(-n-2, n+2), func(idx string) { listOp(n, rawStr(idx)) })
		for i := -n - 2; i <= n+2; i++ {
			listOp(n, rawInt(i))
		}
		for _, i := range []int{math.MaxInt64, math.MinInt64, math.MaxInt64 - 1, math.MinInt64 + 1, 1 << 31, -(1 << 31), 1 << 32, 1 << 62} {
			listOp(n, rawInt(i))
		}
		for _, o := range otherRaws {
			listOp(n, o)
		}
	}
	// 2. textual variants and huge bounds, every form, small n
	for _, n := range []int{0, 1, 3} {
		indexForms(append(append([]string{"1"}, textVariants...), hugeBounds...), func(idx string) { listOp(n, rawStr(idx)) })
	}
	// huge n through ConvertListIndex only (no list is built)
	for _, n := range []int{1 << 31, 1 << 62, math.MaxInt64 - 1} {
		sn := strconv.Itoa(n)
		var bs []string
		for _, d := range []int{-2, -1, 0, 1, 2} {
			bs = append(bs, strconv.Itoa(n+d-1), strconv.Itoa(-n+d+1)) // stays inside int64
		}
		bs = append(bs, "0", "-1", "1")
		indexForms(append(bs, hugeBounds[:14]...), func(idx string) { emit("cvt", sn, rawStr(idx)) })
		for _, i := range []int{0, -1, n - 1, n, -n, -n - 1, math.MaxInt64, math.MinInt64} {
			emit("cvt", sn, rawInt(i))
		}
	}
	// 3. random garbage index strings
	for k := c.Scale(20000, 400000); k > 0; k-- {
		var sb strings.Builder
		for j := c.Rand.Range(0, 8); j > 0; j-- {
			sb.WriteString(common.Pick(c.Rand, garbageAlphabet))
		}
		listOp(c.Rand.Range(0, 5), rawStr(sb.String()))
	}
	// 4. strings: every string of ≤ 2 symbols × every form; typed ints; other types
	var strs2 []string
	strs2 = append(strs2, "")
	for _, a := range strAlphabet {
		strs2 = append(strs2, a)
		for _, b := range strAlphabet {
			strs2 = append(strs2, a+b)
		}
	}
	for _, s := range strs2 {
		n := len(s)
		indexForms(decimals(-n-2, n+2), func(idx string) { strOp(s, rawStr(idx)) })
		for i := -n - 2; i <= n+2; i++ {
			strOp(s, rawInt(i))
		}
		for _, o := range otherRaws[:4] {
			strOp(s, o)
		}
	}
	// valid strings of 3 symbols (thorough: 4) × all forms with in-range bounds
	var rec func(p string, k int)
	rec = func(p string, k int) {
		if k == 0 {
			n := len(p)
			indexForms(decimals(-n, n), func(idx string) {
				if c.Thorough() || c.Rand.Intn(4) == 0 {
					strOp(p, rawStr(idx))
				}
			})
			for i := -n - 1; i <= n+1; i++ {
				strOp(p, rawInt(i))
			}
			return
		}
		for _, a := range strValidAlphabet {
			rec(p+a, k-1)
		}
	}
	rec("", 3)
	// random longer strings, mostly valid, indices mostly in range
	for k := c.Scale(30000, 600000); k > 0; k-- {
		var sb strings.Builder
		alpha := strValidAlphabet
		if c.Rand.Intn(4) == 0 {
			alpha = strAlphabet
		}
		for j := c.Rand.Range(1, 10); j > 0; j-- {
			sb.WriteString(common.Pick(c.Rand, alpha))
		}
		s := sb.String()
		n := len(s)
		b := func() string {
			switch c.Rand.Intn(8) {
			case 0:
				return ""
			case 1:
				return common.Pick(c.Rand, hugeBounds)
			}
			return strconv.Itoa(c.Rand.Range(-n-1, n+1))
		}
		switch c.Rand.Intn(5) {
		case 0:
			strOp(s, rawInt(c.Rand.Range(-n-1, n+1)))
		case 1:
			strOp(s, rawStr(strconv.Itoa(c.Rand.Range(-n-1, n+1))))
		case 2:
			strOp(s, rawStr(b()+".."+b()))
		case 3:
			strOp(s, rawStr(b()+"..="+b()))
		default:
			var g strings.Builder
			for j := c.Rand.Range(0, 6); j > 0; j-- {
				g.WriteString(common.Pick(c.Rand, garbageAlphabet))
			}
			strOp(s, rawStr(g.String()))
		}
	}
}

// ---------------------------------------------------------------------------
// tags: which branch an op exercised

func tag(f []string, out string) string {
	kind := f[0]
	form := "other-type"
	switch {
	case strings.HasPrefix(f[2], "i:"):
		form = "int"
		if strings.HasPrefix(f[2], "i:-") {
			form = "negint"
		}
	case strings.HasPrefix(f[2], "s:"):
		idx := common.Unhex(f[2][2:])
		m := reSlice.FindStringSubmatch(idx)
		switch {
		case reInt.MatchString(idx):
			form = "num"
			if len(idx) >= 19 {
				form = "num-19+digits"
			}
		case m != nil:
			form = "slice"
			if m[2] == "=" {
				form = "slice="
			}
			if m[1] == "" || m[3] == "" {
				form += "-omit"
			}
			if m[2] == "=" && m[3] == "-1" {
				form = "slice=-1"
			}
			if len(m[1]) >= 19 || len(m[3]) >= 19 {
				form = "slice-19+digits"
			}
		case strings.Contains(idx, ".."):
			form = "bad-slice"
		default:
			form = "garbage"
		}
	}
	res := "ok"
	switch {
	case out == "PANIC":
		res = "PANIC"
	case strings.HasPrefix(out, "exc oor|negative slice"):
		res = "oor-negupper"
	case strings.HasPrefix(out, "exc oor|slice"):
		res = "oor-upper"
	case strings.HasPrefix(out, "exc oor|negative"):
		res = "oor-neg"
	case strings.HasPrefix(out, "exc oor|"):
		res = "oor-pos"
	case strings.HasPrefix(out, "exc "):
		res = strings.TrimPrefix(out, "exc ")
	case out == "list -" || out == "str -":
		res = "ok-empty"
	}
	group := kind
	switch kind {
	case "li", "la":
		group = "list-" + kind
	case "si", "sa":
		s := common.Unhex(f[1])
		group = "str-" + kind
		switch {
		case !utf8.ValidString(s):
			group += "+invalid"
		case strings.Contains(s, "�"):
			group += "+fffd"
		}
	case "eli", "ela", "esi", "esa":
		// through elvish code: coarse tags (the fine ones are on the direct ops)
		if strings.HasPrefix(res, "oor-") {
			res = "oor"
		}
		form = strings.TrimSuffix(form, "-omit")
		return "eval-" + kind + ":" + form + ":" + res
	}
	if form == "other-type" {
		return ""
	}
	return group + ":" + form + ":" + res
}
