// Package c33: correspondence and oracle for C33 (ui.Text operations, styledown).
package c33

import (
	"encoding/json"
	"fmt"
	"os"
	"path/filepath"
	"reflect"
	"strconv"
	"strings"
	"unicode/utf8"

	"src.elv.sh/pkg/ui"
	"src.elv.sh/pkg/ui/styledown"
	"src.elv.sh/pkg/wcwidth"
	"verifharness/common"
)

func init() { common.Register("C33", run) }

// ---- encoding ---------------------------------------------------------------

func showColor(c ui.Color) string {
	if c == nil {
		return "d"
	}
	s := c.String()
	names := []string{"black", "red", "green", "yellow", "blue", "magenta", "cyan", "white"}
	for i, n := range names {
		if s == n {
			return "a" + strconv.Itoa(i)
		}
		if s == "bright-"+n {
			return "b" + strconv.Itoa(i)
		}
	}
	if strings.HasPrefix(s, "color") {
		return "x" + s[5:]
	}
	if strings.HasPrefix(s, "#") && len(s) == 7 {
		r, _ := strconv.ParseUint(s[1:3], 16, 8)
		g, _ := strconv.ParseUint(s[3:5], 16, 8)
		b, _ := strconv.ParseUint(s[5:7], 16, 8)
		return fmt.Sprintf("r%d.%d.%d", r, g, b)
	}
	return "?" + s
}

var ansi = []ui.Color{ui.Black, ui.Red, ui.Green, ui.Yellow, ui.Blue, ui.Magenta, ui.Cyan, ui.White}
var bright = []ui.Color{ui.BrightBlack, ui.BrightRed, ui.BrightGreen, ui.BrightYellow, ui.BrightBlue, ui.BrightMagenta, ui.BrightCyan, ui.BrightWhite}

func parseColor(s string) ui.Color {
	switch s[0] {
	case 'd':
		return nil
	case 'a':
		n, _ := strconv.Atoi(s[1:])
		return ansi[n]
	case 'b':
		n, _ := strconv.Atoi(s[1:])
		return bright[n]
	case 'x':
		n, _ := strconv.Atoi(s[1:])
		return ui.XTerm256Color(uint8(n))
	case 'r':
		p := strings.Split(s[1:], ".")
		r, _ := strconv.Atoi(p[0])
		g, _ := strconv.Atoi(p[1])
		b, _ := strconv.Atoi(p[2])
		return ui.TrueColor(uint8(r), uint8(g), uint8(b))
	}
	panic("bad color " + s)
}

func showStyle(s ui.Style) string {
	bits := 0
	for i, b := range []bool{s.Bold, s.Dim, s.Italic, s.Underlined, s.Blink, s.Inverse} {
		if b {
			bits |= 1 << i
		}
	}
	return fmt.Sprintf("%s/%s/%d", showColor(s.Fg), showColor(s.Bg), bits)
}

func parseStyle(s string) ui.Style {
	p := strings.Split(s, "/")
	bits, _ := strconv.Atoi(p[2])
	return ui.Style{Fg: parseColor(p[0]), Bg: parseColor(p[1]), Bold: bits&1 != 0, Dim: bits&2 != 0, Italic: bits&4 != 0,
		Underlined: bits&8 != 0, Blink: bits&16 != 0, Inverse: bits&32 != 0}
}

func showSegment(s *ui.Segment) string { return showStyle(s.Style) + ":" + common.Hex(s.Text) }

func parseSegment(s string) *ui.Segment {
	p := strings.Split(s, ":")
	return &ui.Segment{Style: parseStyle(p[0]), Text: common.Unhex(p[1])}
}

// showText distinguishes nil from a non-nil empty slice: the doc comment of
// ui.Text promises nil for an empty text, and the model has only one empty text.
func showText(t ui.Text) string {
	if t == nil {
		return "."
	}
	if len(t) == 0 {
		return "EMPTY-NON-NIL"
	}
	ss := make([]string, len(t))
	for i, s := range t {
		ss[i] = showSegment(s)
	}
	return strings.Join(ss, ",")
}

func parseText(s string) ui.Text {
	if s == "." {
		return nil
	}
	var t ui.Text
	for _, x := range strings.Split(s, ",") {
		t = append(t, parseSegment(x))
	}
	return t
}

func showTexts(ts []ui.Text) string {
	ss := make([]string, len(ts))
	for i, t := range ts {
		ss[i] = showText(t)
	}
	return strings.Join(ss, "|")
}

var fieldOn = []ui.Styling{ui.Bold, ui.Dim, ui.Italic, ui.Underlined, ui.Blink, ui.Inverse}
var fieldOff = []ui.Styling{ui.NoBold, ui.NoDim, ui.NoItalic, ui.NoUnderlined, ui.NoBlink, ui.NoInverse}
var fieldTog = []ui.Styling{ui.ToggleBold, ui.ToggleDim, ui.ToggleItalic, ui.ToggleUnderlined, ui.ToggleBlink, ui.ToggleInverse}

func parseStylings(s string) []ui.Styling {
	if s == "-" {
		return nil
	}
	var ts []ui.Styling
	for _, x := range strings.Split(s, "+") {
		switch {
		case x == "reset":
			ts = append(ts, ui.Reset)
		case strings.HasPrefix(x, "fg="):
			ts = append(ts, ui.Fg(parseColor(x[3:])))
		case strings.HasPrefix(x, "bg="):
			ts = append(ts, ui.Bg(parseColor(x[3:])))
		case strings.HasPrefix(x, "on"):
			n, _ := strconv.Atoi(x[2:])
			ts = append(ts, fieldOn[n])
		case strings.HasPrefix(x, "off"):
			n, _ := strconv.Atoi(x[3:])
			ts = append(ts, fieldOff[n])
		case strings.HasPrefix(x, "tog"):
			n, _ := strconv.Atoi(x[3:])
			ts = append(ts, fieldTog[n])
		}
	}
	// half of the time exercise Stylings(...) (jointStyling) instead of the variadic list
	if len(ts) > 1 && len(s)%2 == 0 {
		return []ui.Styling{ui.Stylings(ts...)}
	}
	return ts
}

// ---- generation ---------------------------------------------------------------

var pieces = []string{"a", "b", "c", " ", "x", "世", "界", "😀", "é", "\n", "\n", "́", "\t", "Ａ", "~"}
var badPieces = []string{"\xff", "\xe4", "\xe4\xb8", "\xb8\x96", "\x96", "\xf0\x9f"}

func genString(r *common.Rand, maxPieces int, invalid bool) string {
	var sb strings.Builder
	for k := r.Range(0, maxPieces); k > 0; k-- {
		if invalid && r.Chance(1, 6) {
			sb.WriteString(common.Pick(r, badPieces))
		} else {
			sb.WriteString(common.Pick(r, pieces))
		}
	}
	return sb.String()
}

var colors = []string{"d", "d", "d", "a1", "a2", "b4", "x200", "r1.2.3"}

func genStyle(r *common.Rand) string {
	bits := 0
	if r.Chance(1, 3) {
		bits = []int{1, 8, 32, 9, 2, 4, 16, 63}[r.Intn(8)]
	}
	bg := "d"
	if r.Chance(1, 5) {
		bg = common.Pick(r, colors)
	}
	return fmt.Sprintf("%s/%s/%d", common.Pick(r, colors), bg, bits)
}

// genText: raw=false gives a text in normal form (built by hand, not by the code under test).
func genText(r *common.Rand, maxSegs int, raw, invalid bool) string {
	var segs []string
	prev := ""
	for k := r.Range(0, maxSegs); k > 0; k-- {
		st := genStyle(r)
		s := genString(r, 5, invalid)
		if !raw {
			if s == "" {
				s = common.Pick(r, pieces)
			}
			for st == prev {
				st = genStyle(r)
			}
		} else if r.Chance(1, 4) && prev != "" {
			st = prev
		}
		prev = st
		segs = append(segs, st+":"+common.Hex(s))
	}
	if len(segs) == 0 {
		return "."
	}
	return strings.Join(segs, ",")
}

func genStylings(r *common.Rand) string {
	if r.Chance(1, 8) {
		return "-"
	}
	var ts []string
	for k := r.Range(1, 3); k > 0; k-- {
		switch r.Intn(6) {
		case 0:
			ts = append(ts, "reset")
		case 1:
			ts = append(ts, "fg="+common.Pick(r, colors))
		case 2:
			ts = append(ts, "bg="+common.Pick(r, colors))
		case 3:
			ts = append(ts, "on"+strconv.Itoa(r.Intn(6)))
		case 4:
			ts = append(ts, "off"+strconv.Itoa(r.Intn(6)))
		case 5:
			ts = append(ts, "tog"+strconv.Itoa(r.Intn(6)))
		}
	}
	return strings.Join(ts, "+")
}

func gen(c *common.Ctx, emit func(...string)) {
	r := c.Rand
	n := c.Scale(2500, 100000)
	text := func() string { return genText(r, 5, r.Chance(1, 4), r.Chance(1, 4)) }
	for i := 0; i < n; i++ {
		// histories over named values (history.go): operands are re-used and every value is re-observed
		genHistory(r, emit)
		emit("reset") // the stateless ops below; replays are cut here
		emit("T", common.Hex(genString(r, 4, true)), genStylings(r))
		var ts []string
		for k := r.Range(0, 4); k > 0; k-- {
			ts = append(ts, text())
		}
		if len(ts) == 0 {
			ts = []string{"."}
		}
		emit("concat", strings.Join(ts, "|"))
		// partition: mostly increasing in-range indices, sometimes arbitrary
		t := text()
		total := len(plain(parseText(t)))
		var idx []string
		last := 0
		for k := r.Range(0, 3); k > 0; k-- {
			x := r.Range(last, total)
			if r.Chance(1, 10) {
				x = r.Range(-2, total+3)
			}
			idx = append(idx, strconv.Itoa(x))
			if x > last {
				last = x
			}
		}
		is := "-"
		if len(idx) > 0 {
			is = strings.Join(idx, ",")
		}
		emit("partition", t, is)
		rn := '\n'
		if r.Chance(1, 3) {
			rn = common.Pick(r, []rune{'a', '世', ' ', -1, 0xd800, 0x110000, 0xfffd, 'é'})
		}
		emit("split", text(), strconv.Itoa(int(rn)))
		emit("trimw", text(), strconv.Itoa(r.Range(-1, 12)))
		emit("styletext", text(), genStylings(r))
		emit("clone", text())
		seg := genStyle(r) + ":" + common.Hex(genString(r, 3, true))
		switch r.Intn(3) {
		case 0:
			emit("segconcat", seg, "s", common.Hex(genString(r, 3, true)))
			emit("textconcat", text(), "s", common.Hex(genString(r, 3, true)))
		case 1:
			emit("segconcat", seg, "g", genStyle(r)+":"+common.Hex(genString(r, 3, true)))
			emit("textconcat", text(), "g", genStyle(r)+":"+common.Hex(genString(r, 3, true)))
		case 2:
			emit("segconcat", seg, "t", text())
			emit("textconcat", text(), "t", text())
		}
		emit("rsegconcat", seg, common.Hex(genString(r, 3, true)))
		emit("rtextconcat", text(), common.Hex(genString(r, 3, true)))
		// styledown round trip: styles the chosen definitions can express
		sdText, sdDef := genSdText(r), common.Pick(r, sdDefs)
		emit("sd", sdText, common.Hex(sdDef), sdTable(sdDef))
		// Render on markup that Derender did not produce: mutated Derender output and hand-made stanzas
		var markup string
		if src, err := styledown.Derender(parseText(sdText), sdDef); err == nil && r.Intn(3) > 0 {
			markup = mutateMarkup(r, src)
		} else {
			markup = common.Pick(r, sdMarkups)
		}
		emit("sdren", common.Hex(markup), sdTable(markup))
	}
	for _, m := range sdMarkups {
		emit("sdren", common.Hex(m), sdTable(m))
	}
}

// sdMarkups: hand-made Styledown sources around the error branches of Render.
var sdMarkups = []string{
	"", "\n", "a", "a\n", "a\n \n", "a\n*\n", "a\nx\n", "ab\n*\n", "a\n \n\nno-eol\n", "a\n \nno-eol\n",
	"a\n \n\nno-eol", "a\n \n\n\nno-eol\n\n", "世\n**\n", "世\n* \n", "世\n*\n", "世\n世\n", "a世\n 世\n", "世a\n世 \n",
	"a\nR\n\nR red\n", "a\nR\n\nR red\nR green\n", "a\nR\n\nR  bold   red \n", "a\nR\n\nRR red\n", "a\nR\n\nR nosuchstyle\n",
	"a\nR\n\nR\n", "a\n世\n\n世 red\n", "a\n*\n\n* red\n", "a\n \n\n  red\n", "á\n \n", "a\t\n \n", "\xff\n \n",
	"a\n\xff\n", "foo\n***\nbar\n###\n", "foo\n***\n\nbar\n###\n", "\n\n\n\n", "\n\n\nno-eol\n", "a\n \n\nno-eol\nno-eol\n",
	"ab\n *\n\nno-eol\n", "a\n_\nb\n#\n", "no-eol\nxxxxxx\n", "a\n \n\n\u00a0R red\n", "a\nR\n\nR\u00a0red\n", "a\nR\n\nR\tred\n",
	// the style line runs out under a double-width character (unfixed: slice beyond the rune slice, panics when the capacity is exhausted)
	strings.Repeat("a", 63) + "世\n" + strings.Repeat(" ", 63) + "世\n",
	strings.Repeat("a", 31) + "世\n" + strings.Repeat(" ", 31) + "世\n",
}

func mutateMarkup(r *common.Rand, src string) string {
	rs := []rune(src)
	pieces := []string{"a", " ", "*", "#", "_", "R", "世", "\n", "\n", "no-eol", "́", "\n\n", "R red\n", "x"}
	for k := r.Range(0, 2); k > 0 && len(rs) > 0; k-- {
		i := r.Intn(len(rs))
		switch r.Intn(3) {
		case 0:
			rs = append(rs[:i:i], rs[i+1:]...)
		case 1:
			rs = append(rs[:i:i], append([]rune(common.Pick(r, pieces)), rs[i:]...)...)
		default:
			rs = append(rs[:i:i], append([]rune(common.Pick(r, pieces)), rs[i+1:]...)...)
		}
	}
	return string(rs)
}

// sdParseDef repeats parseStyleCharDef of pkg/ui/styledown except for the width
// check (which the model performs): strings.Fields, DecodeRuneInString,
// string(r) == fields[0], ui.ParseStyling; the styling is reduced to
// ApplyStyling(Style{}, styling), the only way Render and Derender use it.
func sdParseDef(line string) (rune, ui.Style, bool) {
	fields := strings.Fields(line)
	if len(fields) < 2 {
		return 0, ui.Style{}, false
	}
	r, _ := utf8.DecodeRuneInString(fields[0])
	if string(r) != fields[0] {
		return 0, ui.Style{}, false
	}
	styling := ui.ParseStyling(strings.Join(fields[1:], " "))
	if styling == nil {
		return 0, ui.Style{}, false
	}
	return r, ui.ApplyStyling(ui.Style{}, styling), true
}

// sdTable: the parse of every line of s as a style character definition, for the model.
func sdTable(s string) string {
	var entries []string
	seen := map[string]bool{}
	for _, line := range strings.Split(s, "\n") {
		if line == "" || seen[line] {
			continue
		}
		seen[line] = true
		if r, st, ok := sdParseDef(line); ok {
			entries = append(entries, fmt.Sprintf("%s=%d=%s", common.Hex(line), r, showStyle(st)))
		}
	}
	if len(entries) == 0 {
		return "-"
	}
	return strings.Join(entries, ";")
}

func showErrText(t ui.Text, err error) string {
	if err != nil {
		return "err"
	}
	return showText(t)
}

var sdDefs = []string{"", "", "R red\nG green", "R red\nG green\nB bold blue\nU underlined inverse", "r fg-red\n世 green"}
var sdStyles = []string{"d/d/0", "d/d/0", "d/d/1", "d/d/8", "d/d/32", "a1/d/0", "a2/d/0", "a4/d/1", "d/d/40", "d/a3/0"}

func genSdText(r *common.Rand) string {
	var segs []string
	prev := ""
	for k := r.Range(0, 4); k > 0; k-- {
		st := common.Pick(r, sdStyles)
		for st == prev {
			st = common.Pick(r, sdStyles)
		}
		prev = st
		var sb strings.Builder
		for j := r.Range(1, 5); j > 0; j-- {
			switch x := r.Intn(30); {
			case x < 1:
				sb.WriteString("́") // zero width
			case x < 2:
				sb.WriteString("\t")
			case x < 3:
				sb.WriteString(common.Pick(r, badPieces))
			default:
				sb.WriteString(common.Pick(r, []string{"a", "b", " ", "世", "😀", "é", "\n", "\n", "#", "*", "_", "R", "no-eol"}))
			}
		}
		segs = append(segs, st+":"+common.Hex(sb.String()))
	}
	if len(segs) == 0 {
		return "."
	}
	return strings.Join(segs, ",")
}

// ---- implementation ------------------------------------------------------------

func atoi(s string) int { n, _ := strconv.Atoi(s); return n }

func parseRhs(kind, arg string) any {
	switch kind {
	case "s":
		return common.Unhex(arg)
	case "g":
		return parseSegment(arg)
	}
	return parseText(arg)
}

func eval(f []string) (one ui.Text, many []ui.Text, isMany bool) {
	switch f[0] {
	case "T":
		return ui.T(common.Unhex(f[1]), parseStylings(f[2])...), nil, false
	case "concat":
		var ts []ui.Text
		for _, x := range strings.Split(f[1], "|") {
			ts = append(ts, parseText(x))
		}
		return ui.Concat(ts...), nil, false
	case "partition":
		var idx []int
		if f[2] != "-" {
			for _, x := range strings.Split(f[2], ",") {
				idx = append(idx, atoi(x))
			}
		}
		return nil, parseText(f[1]).Partition(idx...), true
	case "split":
		return nil, parseText(f[1]).SplitByRune(rune(atoi(f[2]))), true
	case "trimw":
		return parseText(f[1]).TrimWcwidth(atoi(f[2])), nil, false
	case "styletext":
		return ui.StyleText(parseText(f[1]), parseStylings(f[2])...), nil, false
	case "clone":
		return parseText(f[1]).Clone(), nil, false
	case "segconcat":
		v, err := parseSegment(f[1]).Concat(parseRhs(f[2], f[3]))
		if err != nil {
			panic(err)
		}
		return v.(ui.Text), nil, false
	case "rsegconcat":
		v, err := parseSegment(f[1]).RConcat(common.Unhex(f[2]))
		if err != nil {
			panic(err)
		}
		return v.(ui.Text), nil, false
	case "textconcat":
		v, err := parseText(f[1]).Concat(parseRhs(f[2], f[3]))
		if err != nil {
			panic(err)
		}
		return v.(ui.Text), nil, false
	case "rtextconcat":
		v, err := parseText(f[1]).RConcat(common.Unhex(f[2]))
		if err != nil {
			panic(err)
		}
		return v.(ui.Text), nil, false
	}
	panic("unknown op " + f[0])
}

func impl(st any, f []string) string {
	switch f[0] {
	case "reset":
		if h, ok := st.(*hist); ok {
			h.reset()
		}
		return "ok"
	case "h":
		return st.(*hist).step(f[1:])
	case "sd":
		src, err := styledown.Derender(parseText(f[1]), common.Unhex(f[2]))
		if err != nil {
			return "der=err"
		}
		return "der=" + common.Hex(src) + " ren=" + showErrText(styledown.Render(src))
	case "sdren":
		return showErrText(styledown.Render(common.Unhex(f[1])))
	}
	one, many, isMany := eval(f)
	if isMany {
		if many == nil {
			return "none"
		}
		return showTexts(many)
	}
	return showText(one)
}

// ---- oracle ----------------------------------------------------------------------

func plain(t ui.Text) string {
	var sb strings.Builder
	for _, s := range t {
		sb.WriteString(s.Text)
	}
	return sb.String()
}

type sb struct {
	st ui.Style
	b  byte
}

func styledBytes(t ui.Text) []sb {
	var out []sb
	for _, s := range t {
		for i := 0; i < len(s.Text); i++ {
			out = append(out, sb{s.Style, s.Text[i]})
		}
	}
	return out
}

func sameBytes(a, b []sb) bool {
	if len(a) != len(b) {
		return false
	}
	for i := range a {
		if a[i] != b[i] {
			return false
		}
	}
	return true
}

// normal is the normal form of the doc comment of ui.Text; "" if t is normal.
func normal(t ui.Text) string {
	if len(t) == 0 {
		if t != nil {
			return "empty-text-not-nil"
		}
		return ""
	}
	for i, s := range t {
		if s.Text == "" {
			return "empty-segment"
		}
		if i > 0 && t[i-1].Style == s.Style {
			return "adjacent-equal-styles"
		}
	}
	return ""
}

func allNormal(ts ...ui.Text) bool {
	for _, t := range ts {
		if normal(t) != "" {
			return false
		}
	}
	return true
}

func hasZeroWidth(s string) bool {
	for _, r := range s {
		if wcwidth.OfRune(r) == 0 && r != '\n' {
			return true
		}
	}
	return false
}

func oracle(st any, f []string, out string) (string, string) {
	switch f[0] {
	case "reset":
		return "", ""
	case "h":
		return st.(*hist).oracle(f[1:], out)
	}
	if out == "PANIC" || out == "TIMEOUT" {
		return f[0] + "-crash", out
	}
	op := f[0]
	switch op {
	case "sd":
		return sdOracle(f)
	case "T":
		res, _, _ := eval(f)
		if p := normal(res); p != "" {
			return "T-" + p, showText(res)
		}
		if plain(res) != common.Unhex(f[1]) {
			return "T-content", showText(res)
		}
	case "concat", "segconcat", "rsegconcat", "textconcat", "rtextconcat":
		res, _, _ := eval(f)
		var ins []ui.Text
		switch op {
		case "concat":
			for _, x := range strings.Split(f[1], "|") {
				ins = append(ins, parseText(x))
			}
		case "segconcat":
			ins = []ui.Text{ui.TextFromSegment(parseSegment(f[1])), rhsText(f[2], f[3])}
		case "rsegconcat":
			ins = []ui.Text{ui.T(common.Unhex(f[2])), ui.TextFromSegment(parseSegment(f[1]))}
		case "textconcat":
			ins = []ui.Text{parseText(f[1]), rhsText(f[2], f[3])}
		case "rtextconcat":
			ins = []ui.Text{ui.T(common.Unhex(f[2])), parseText(f[1])}
		}
		var want []sb
		for _, t := range ins {
			want = append(want, styledBytes(t)...)
		}
		if !sameBytes(styledBytes(res), want) {
			return op + "-content", showText(res)
		}
		if allNormal(ins...) {
			if p := normal(res); p != "" {
				return op + "-" + p, showText(res)
			}
		}
	case "partition":
		_, parts, _ := eval(f)
		t := parseText(f[1])
		var got []sb
		for _, p := range parts {
			got = append(got, styledBytes(p)...)
		}
		if !sameBytes(got, styledBytes(t)) {
			return "partition-content", showTexts(parts)
		}
		// sizes, for increasing indices within the text
		if f[2] != "-" {
			idx := strings.Split(f[2], ",")
			ok, last := true, 0
			for _, x := range idx {
				if atoi(x) < last || atoi(x) > len(plain(t)) {
					ok = false
				}
				last = atoi(x)
			}
			if ok {
				last = 0
				for i, x := range idx {
					if len(plain(parts[i])) != atoi(x)-last {
						return "partition-sizes", showTexts(parts)
					}
					last = atoi(x)
				}
			}
		}
		if normal(t) == "" {
			for _, p := range parts {
				if q := normal(p); q != "" {
					return "partition-" + q, showTexts(parts)
				}
			}
		}
	case "split":
		_, parts, _ := eval(f)
		t := parseText(f[1])
		if len(t) == 0 {
			if parts != nil {
				return "split-empty", showTexts(parts)
			}
			return "", ""
		}
		sep := string(rune(atoi(f[2])))
		var ps []string
		for _, p := range parts {
			if q := normal(p); q != "" {
				return "split-" + q, showTexts(parts)
			}
			ps = append(ps, plain(p))
		}
		if strings.Join(ps, sep) != plain(t) {
			return "split-content", showTexts(parts)
		}
		want := 1
		for _, s := range t {
			want += strings.Count(s.Text, sep)
		}
		if len(parts) != want {
			return "split-count", fmt.Sprintf("%d parts, want %d", len(parts), want)
		}
	case "trimw":
		res, _, _ := eval(f)
		t := parseText(f[1])
		w := atoi(f[2])
		if q := normal(res); q != "" {
			return "trimw-" + q, showText(res)
		}
		got, all := styledBytes(res), styledBytes(t)
		if len(got) > len(all) || !sameBytes(got, all[:len(got)]) {
			return "trimw-not-a-prefix", showText(res)
		}
		if utf8.ValidString(plain(t)) || true {
			valid := true
			for _, s := range t {
				if !utf8.ValidString(s.Text) {
					valid = false
				}
			}
			if valid && plain(res) != wcwidth.Trim(plain(t), w) {
				return "trimw-not-longest-prefix", fmt.Sprintf("got %q want %q", plain(res), wcwidth.Trim(plain(t), w))
			}
		}
	case "styletext":
		res, _, _ := eval(f)
		t := parseText(f[1])
		if plain(res) != plain(t) {
			return "styletext-content", showText(res)
		}
		if normal(t) == "" {
			if q := normal(res); q != "" {
				if q == "adjacent-equal-styles" {
					// the styling maps the different styles of two neighbours to one style
					return "styletext-merges-neighbour-styles", showText(res)
				}
				return "styletext-" + q, showText(res)
			}
		}
	case "clone":
		res, _, _ := eval(f)
		t := parseText(f[1])
		if !sameBytes(styledBytes(res), styledBytes(t)) || len(res) != len(t) {
			return "clone-content", showText(res)
		}
		if normal(t) == "" {
			if q := normal(res); q != "" {
				return "clone-" + q, showText(res)
			}
		}
	}
	return "", ""
}

func rhsText(kind, arg string) ui.Text {
	switch kind {
	case "s":
		return ui.T(common.Unhex(arg))
	case "g":
		return ui.TextFromSegment(parseSegment(arg))
	}
	return parseText(arg)
}

func hasStyledNewline(t ui.Text) bool {
	for _, s := range t {
		if s.Style != (ui.Style{}) && strings.Contains(s.Text, "\n") {
			return true
		}
	}
	return false
}

func sdOracle(f []string) (string, string) {
	t := parseText(f[1])
	defs := common.Unhex(f[2])
	src, err := styledown.Derender(t, defs)
	if err != nil {
		return "", "" // a style without a character: Derender refuses, nothing to parse back
	}
	back, err := styledown.Render(src)
	if err == nil && reflect.DeepEqual(back, t) {
		return "", ""
	}
	detail := fmt.Sprintf("Derender=%q Render err=%v back=%s", src, err, showText(back))
	switch {
	case !utf8.ValidString(plain(t)):
		return "styledown-invalid-utf8", detail
	case hasZeroWidth(plain(t)):
		return "styledown-zero-width-char", detail
	case hasStyledNewline(t):
		return "styledown-styled-newline", detail
	}
	return "styledown-roundtrip", detail
}

func tag(f []string, out string) string {
	if out == "PANIC" || out == "TIMEOUT" || strings.Contains(out, "EMPTY-NON-NIL") {
		return f[0] + ":" + strings.ToLower(strings.SplitN(out, ",", 2)[0])
	}
	switch f[0] {
	case "reset":
		return ""
	case "h":
		t := "h:" + f[1]
		if curHist != nil && curHist.reused {
			t += ":operand-used-before"
		}
		return t
	case "T":
		if out == "." {
			return ""
		}
		return "T"
	case "sdren":
		if out == "err" {
			return "sdren:err"
		}
		return "sdren:ok"
	case "sd":
		t := parseText(f[1])
		if _, err := styledown.Derender(t, common.Unhex(f[2])); err != nil {
			return "sd:derender-refuses"
		}
		if strings.HasSuffix(plain(t), "\n") {
			return "sd:eol"
		}
		return "sd:no-eol"
	case "split":
		if out == "none" {
			return "split:nil"
		}
		return fmt.Sprintf("split:%d-parts", min(strings.Count(out, "|")+1, 4))
	case "trimw":
		switch {
		case out == ".":
			return "trimw:empty"
		case out == f[1]:
			return "trimw:whole"
		}
		return "trimw:cut"
	case "styletext":
		if normal(parseText(f[1])) == "" && normal(parseText(out)) != "" {
			return "styletext:loses-normal-form"
		}
		return "styletext"
	case "partition":
		return fmt.Sprintf("partition:%d", strings.Count(out, "|")+1)
	}
	if out == "." {
		return f[0] + ":nil"
	}
	return f[0]
}

// curHist is the state of the run, for tag (which does not get the state).
var curHist *hist

func run(c *common.Ctx) error {
	curHist = newHist()
	s := &common.Std{
		NewState: func(*common.Ctx) any { return curHist },
		Rule: "random styled texts (0–5 segments; styles from a small palette of colours/attributes so equal neighbours occur; " +
			"text from ASCII, wide CJK/emoji, combining marks, newlines, tabs, invalid UTF-8; 3/4 in normal form, 1/4 raw with empty segments " +
			"and equal neighbours) × every ui.Text operation with random arguments; styledown Derender→Render on texts over the styles " +
			"the chosen definitions express; histories (reset + h lines): 4-13 operations over NAMED values kept as the real Go values " +
			"(operands re-used, parts/sub-slices/builder results fed to later operations), every value re-observed after every step; " +
			"non-trivial = all but T(\"\") and reset; distinct by op line",
		Gen:    gen,
		Impl:   impl,
		Oracle: oracle,
		Tag:    tag,
	}
	if err := s.Run(c); err != nil {
		return err
	}
	// the totals of the old-value oracle go into the evidence (stats.json is written by Run)
	p := filepath.Join(c.Dir, "stats.json")
	var stats map[string]any
	if b, err := os.ReadFile(p); err == nil && json.Unmarshal(b, &stats) == nil {
		extra, _ := stats["extra"].(map[string]any)
		if extra == nil {
			extra = map[string]any{}
		}
		extra["histories"] = curHist.nHist
		extra["history_steps"] = curHist.nSteps
		extra["history_steps_with_an_operand_used_before"] = curHist.nReused
		extra["old_values_reobserved"] = curHist.nObserved
		stats["extra"] = extra
		if b, err := json.MarshalIndent(stats, "", " "); err == nil {
			os.WriteFile(p, b, 0o644)
		}
	}
	return nil
}
