package c33

// Histories over named values: the OLD-VALUE ORACLE of C33.
//
// A history is `reset` followed by `h <op> <fields…>` lines.  Every value an
// operation returns is kept - the real Go value, with its backing array and its
// *Segment pointers - in a register file, and later operations of the same
// history take their operands from there (`$i` = value number i, `$i.j` =
// segment j of value i, the pointer `$t[j]` gives).  When a value is made its
// content is snapshotted (a deep copy in the form of the canonical string); after
// EVERY step every value made so far is observed again and compared with its
// snapshot: class `operand-mutated`.  The result of a step is also compared with
// the same operation run on fresh copies of the operands' snapshots (class
// `result-depends-on-history`), and the clauses of the stateless oracle (normal
// form, content laws) are evaluated for it.
//
// The Lean model (ElvModel/C33/History.lean) gives the history value semantics;
// Go slice aliasing cannot be expressed there, so the immutability of the Go
// values is what this file samples.

import (
	"fmt"
	"strconv"
	"strings"

	"src.elv.sh/pkg/ui"
	"verifharness/common"
)

type hist struct {
	vals   []ui.Text
	snaps  []string // canonical string of vals[i] when it was made
	madeBy []string // the op line that made vals[i]
	uses   []int    // how often vals[i] has been an operand so far
	seen   []string // what vals[i] looked like when it was last observed (a change is reported once)
	tb     *ui.TextBuilder
	// snapshots of the texts written to tb since it was last empty
	tbWritten []string
	// about the last step
	reused bool // an operand had been an operand of an earlier step
	steps  int
	// totals, for the evidence
	nHist, nSteps, nReused, nObserved int
}

func newHist() *hist { return &hist{tb: new(ui.TextBuilder)} }

func (h *hist) reset() {
	h.vals, h.snaps, h.madeBy, h.uses, h.seen, h.tbWritten = nil, nil, nil, nil, nil, nil
	h.tb = new(ui.TextBuilder)
	h.steps = 0
}

func isRef(s string) bool { return strings.HasPrefix(s, "$") }

func (h *hist) use(i int) {
	if h.uses[i] > 0 {
		h.reused = true
	}
	h.uses[i]++
}

// ref resolves a text operand to the LIVE Go value.
func (h *hist) ref(s string) ui.Text {
	if isRef(s) {
		i := atoi(s[1:])
		h.use(i)
		return h.vals[i]
	}
	return parseText(s)
}

func (h *hist) segRef(s string) *ui.Segment {
	if isRef(s) {
		p := strings.Split(s[1:], ".")
		i := atoi(p[0])
		h.use(i)
		return h.vals[i][atoi(p[1])]
	}
	return parseSegment(s)
}

func (h *hist) rhs(kind, arg string) any {
	switch kind {
	case "s":
		return common.Unhex(arg)
	case "g":
		return h.segRef(arg)
	}
	return h.ref(arg)
}

func (h *hist) push(line string, ts ...ui.Text) {
	for _, t := range ts {
		h.vals = append(h.vals, t)
		h.snaps = append(h.snaps, showText(t))
		h.madeBy = append(h.madeBy, line)
		h.uses = append(h.uses, 0)
		h.seen = append(h.seen, showText(t))
	}
}

func mustText(v any, err error) ui.Text {
	if err != nil {
		panic(err)
	}
	return v.(ui.Text)
}

// step runs one history op (f without the leading "h") on the live values.
func (h *hist) step(f []string) string {
	h.reused = false
	h.steps++
	h.nSteps++
	if h.steps == 1 {
		h.nHist++
	}
	line := strings.Join(f, " ")
	one := func(t ui.Text) string { h.push(line, t); return showText(t) }
	many := func(ts []ui.Text) string {
		if ts == nil {
			return "none"
		}
		h.push(line, ts...)
		return showTexts(ts)
	}
	switch f[0] {
	case "lit":
		return one(parseText(f[1]))
	case "concat":
		var ts []ui.Text
		for _, x := range strings.Split(f[1], "|") {
			ts = append(ts, h.ref(x))
		}
		return one(ui.Concat(ts...))
	case "partition":
		var idx []int
		if f[2] != "-" {
			for _, x := range strings.Split(f[2], ",") {
				idx = append(idx, atoi(x))
			}
		}
		return many(h.ref(f[1]).Partition(idx...))
	case "split":
		return many(h.ref(f[1]).SplitByRune(rune(atoi(f[2]))))
	case "trimw":
		return one(h.ref(f[1]).TrimWcwidth(atoi(f[2])))
	case "styletext":
		return one(ui.StyleText(h.ref(f[1]), parseStylings(f[2])...))
	case "clone":
		return one(h.ref(f[1]).Clone())
	case "sub":
		v, err := h.ref(f[1]).Index(f[2] + ".." + f[3])
		if err != nil {
			return "err"
		}
		return one(v.(ui.Text))
	case "textconcat":
		t := h.ref(f[1])
		return one(mustText(t.Concat(h.rhs(f[2], f[3]))))
	case "rtextconcat":
		return one(mustText(h.ref(f[1]).RConcat(common.Unhex(f[2]))))
	case "segconcat":
		s := h.segRef(f[1])
		return one(mustText(s.Concat(h.rhs(f[2], f[3]))))
	case "rsegconcat":
		return one(mustText(h.segRef(f[1]).RConcat(common.Unhex(f[2]))))
	case "tbwrite":
		t := h.ref(f[1])
		h.tbWritten = append(h.tbWritten, h.literalText(f[1]))
		h.tb.WriteText(t)
		return "ok"
	case "tbtext":
		return one(h.tb.Text())
	case "tbreset":
		h.tb.Reset()
		h.tbWritten = nil
		return "ok"
	}
	panic("unknown history op " + f[0])
}

// ---- literal form of an op: operands replaced by their snapshots ----------------

func snapText(s string) string {
	if s == "EMPTY-NON-NIL" {
		return "."
	}
	return s
}

func (h *hist) literalText(s string) string {
	if isRef(s) {
		return snapText(h.snaps[atoi(s[1:])])
	}
	return s
}

func (h *hist) literalSeg(s string) string {
	if isRef(s) {
		p := strings.Split(s[1:], ".")
		return strings.Split(h.snaps[atoi(p[0])], ",")[atoi(p[1])]
	}
	return s
}

// literal gives the stateless op line of the same operation ("" ops have none).
func (h *hist) literal(f []string) []string {
	g := append([]string(nil), f...)
	switch f[0] {
	case "concat":
		xs := strings.Split(f[1], "|")
		for i := range xs {
			xs[i] = h.literalText(xs[i])
		}
		g[1] = strings.Join(xs, "|")
	case "partition", "split", "trimw", "styletext", "clone", "rtextconcat":
		g[1] = h.literalText(f[1])
	case "textconcat", "segconcat":
		if f[0] == "textconcat" {
			g[1] = h.literalText(f[1])
		} else {
			g[1] = h.literalSeg(f[1])
		}
		switch f[2] {
		case "g":
			g[3] = h.literalSeg(f[3])
		case "t":
			g[3] = h.literalText(f[3])
		}
	case "rsegconcat":
		g[1] = h.literalSeg(f[1])
	default:
		return nil
	}
	return g
}

// ---- oracle --------------------------------------------------------------------

// observe compares every value made so far with its snapshot.
func (h *hist) observe(f []string) (string, string) {
	var changed []string
	for i, t := range h.vals {
		h.nObserved++
		if now := showText(t); now != h.seen[i] {
			h.seen[i] = now
			changed = append(changed, fmt.Sprintf("value $%d (made by `%s`) was %s and is %s", i, h.madeBy[i], h.snaps[i], now))
		}
	}
	if len(changed) > 0 {
		return "operand-mutated", fmt.Sprintf("%s after step %d `%s`", strings.Join(changed, "; "), h.steps, strings.Join(f, " "))
	}
	return "", ""
}

func (h *hist) oracle(f []string, out string) (string, string) {
	if out == "PANIC" || out == "TIMEOUT" {
		return "h-" + f[0] + "-crash", out
	}
	if h.reused {
		h.nReused++
	}
	// 1. no value that exists has changed (this step's operands included)
	if c, d := h.observe(f); c != "" {
		return c, d
	}
	// 2. the builder holds what was written to it
	wantTb := "."
	if len(h.tbWritten) > 0 {
		wantTb = impl(nil, []string{"concat", strings.Join(h.tbWritten, "|")})
	}
	if got := showText(h.tb.Text()); got != wantTb {
		return "builder-changed", fmt.Sprintf("Text() is %s, the texts written give %s after `%s`", got, wantTb, strings.Join(f, " "))
	}
	// 3. the result is a function of the operands' values, and satisfies the property's clauses
	if g := h.literal(f); g != nil {
		want := impl(nil, g)
		if out != want {
			return "result-depends-on-history", fmt.Sprintf("`%s` gave %s; on fresh copies of the operands (%s) it gives %s",
				strings.Join(f, " "), out, strings.Join(g, " "), want)
		}
		return oracle(nil, g, out)
	}
	switch f[0] {
	case "sub":
		if out == "err" {
			return "", ""
		}
		segs := strings.Split(h.literalText(f[1]), ",")
		lo, hi := atoi(f[2]), atoi(f[3])
		if h.literalText(f[1]) == "." || lo > hi || hi > len(segs) {
			return "sub-content", out
		}
		if want := strings.Join(segs[lo:hi], ","); out != want && !(lo == hi && out == "EMPTY-NON-NIL") {
			return "sub-content", fmt.Sprintf("got %s want %s", out, want)
		}
	case "tbtext":
		if out != wantTb {
			return "builder-text", fmt.Sprintf("got %s want %s", out, wantTb)
		}
		if len(h.tbWritten) > 0 {
			return oracle(nil, []string{"concat", strings.Join(h.tbWritten, "|")}, out)
		}
	case "tbwrite", "tbreset":
		if out != "ok" {
			return "builder-op", out
		}
	}
	return "", ""
}

// ---- generation ----------------------------------------------------------------

// few styles and short pieces, so that equal neighbouring styles across operands
// (the merges of the builder) are frequent
var hStyles = []string{"d/d/0", "a1/d/0", "a4/d/0", "d/d/1", "a2/d/0"}
var hPieces = []string{"a", "b", "c", "xy", "世", "\n", " ", "é"}

func lastStyle(t ui.Text) string {
	if len(t) == 0 {
		return ""
	}
	return showStyle(t[len(t)-1].Style)
}

type hgen struct {
	r    *common.Rand
	h    *hist // shadow run, to know how many values exist and what they look like
	emit func(...string)
}

func (g *hgen) do(f ...string) {
	g.emit(append([]string{"h"}, f...)...)
	func() {
		defer func() { recover() }()
		g.h.step(f)
	}()
}

// text makes a literal; first != "" forces the style of the first segment.
func (g *hgen) text(minSegs, maxSegs int, first string) string {
	r := g.r
	if r.Chance(1, 12) {
		return genText(r, 4, r.Chance(1, 3), r.Chance(1, 4))
	}
	var segs []string
	prev := ""
	for k := r.Range(minSegs, maxSegs); k > 0; k-- {
		st := common.Pick(r, hStyles)
		if prev == "" && first != "" {
			st = first
		}
		for st == prev {
			st = common.Pick(r, hStyles)
		}
		prev = st
		var sb strings.Builder
		for j := r.Range(1, 3); j > 0; j-- {
			sb.WriteString(common.Pick(r, hPieces))
		}
		segs = append(segs, st+":"+common.Hex(sb.String()))
	}
	if len(segs) == 0 {
		return "."
	}
	return strings.Join(segs, ",")
}

// reg picks a value: recent ones and ones already used are preferred.
func (g *hgen) reg() (int, bool) {
	n := len(g.h.vals)
	if n == 0 {
		return 0, false
	}
	r := g.r
	switch r.Intn(4) {
	case 0:
		return n - 1 - r.Intn(min(n, 3)), true
	case 1:
		var used []int
		for i, u := range g.h.uses {
			if u > 0 {
				used = append(used, i)
			}
		}
		if len(used) > 0 {
			return common.Pick(r, used), true
		}
	}
	return r.Intn(n), true
}

// operand: an existing value, or (rarely, or when there is none) a literal.
func (g *hgen) operand() string {
	if i, ok := g.reg(); ok && !g.r.Chance(1, 8) {
		return "$" + strconv.Itoa(i)
	}
	return g.text(0, 3, "")
}

// follower: an operand whose first style is the last style of value i, and which
// goes on with another style - what makes the builder merge across the border
// and flush afterwards.
func (g *hgen) follower(i int) string {
	for j, t := range g.h.vals {
		if j != i && len(t) >= 2 && showStyle(t[0].Style) == lastStyle(g.h.vals[i]) && g.r.Chance(1, 2) {
			return "$" + strconv.Itoa(j)
		}
	}
	return g.text(2, 3, lastStyle(g.h.vals[i]))
}

// otherStyle: a style different from st (a segment that cannot be merged into a text ending in st).
func (g *hgen) otherStyle(st string) string {
	x := common.Pick(g.r, hStyles)
	for x == st {
		x = common.Pick(g.r, hStyles)
	}
	return x
}

func (g *hgen) segOperand() string {
	if i, ok := g.reg(); ok && len(g.h.vals[i]) > 0 && !g.r.Chance(1, 4) {
		return fmt.Sprintf("$%d.%d", i, g.r.Intn(len(g.h.vals[i])))
	}
	return common.Pick(g.r, hStyles) + ":" + common.Hex(genString(g.r, 2, false))
}

func (g *hgen) rhsOperand() (string, string) {
	switch g.r.Intn(4) {
	case 0:
		return "s", common.Hex(genString(g.r, 2, false))
	case 1:
		return "g", g.segOperand()
	}
	return "t", g.operand()
}

func (g *hgen) indices(t ui.Text) string {
	total := len(plain(t))
	var idx []string
	last := 0
	for k := g.r.Range(1, 3); k > 0; k-- {
		x := g.r.Range(last, total)
		if g.r.Chance(1, 12) {
			x = g.r.Range(-1, total+2)
		}
		idx = append(idx, strconv.Itoa(x))
		if x > last {
			last = x
		}
	}
	return strings.Join(idx, ",")
}

func (g *hgen) randomOp() {
	r := g.r
	n := len(g.h.vals)
	ref := func(i int) string { return "$" + strconv.Itoa(i) }
	switch x := r.Intn(100); {
	case x < 6 || n == 0:
		g.do("lit", g.text(1, 4, ""))
	case x < 22:
		xs := []string{g.operand()}
		for k := r.Range(0, 2); k > 0; k-- {
			xs = append(xs, g.operand())
		}
		g.do("concat", strings.Join(xs, "|"))
	case x < 34:
		// a value followed by something that merges with its end and goes on
		i, _ := g.reg()
		xs := []string{ref(i), g.follower(i)}
		if r.Chance(1, 3) {
			xs = append(xs, g.operand())
		}
		if r.Chance(1, 2) {
			g.do("concat", strings.Join(xs, "|"))
		} else {
			g.do("textconcat", xs[0], "t", xs[1])
		}
	case x < 44:
		k, a := g.rhsOperand()
		g.do("textconcat", g.operand(), k, a)
	case x < 54:
		i, _ := g.reg()
		g.do("partition", ref(i), g.indices(g.h.vals[i]))
	case x < 59:
		rn := '\n'
		if r.Chance(1, 3) {
			rn = common.Pick(r, []rune{'a', '世', ' ', 'x'})
		}
		g.do("split", g.operand(), strconv.Itoa(int(rn)))
	case x < 64:
		g.do("trimw", g.operand(), strconv.Itoa(r.Range(0, 6)))
	case x < 69:
		g.do("styletext", g.operand(), genStylings(r))
	case x < 72:
		g.do("clone", g.operand())
	case x < 80:
		i, _ := g.reg()
		if m := len(g.h.vals[i]); m > 0 {
			lo := r.Intn(m)
			g.do("sub", ref(i), strconv.Itoa(lo), strconv.Itoa(r.Range(lo+1, m)))
		} else {
			g.do("clone", ref(i))
		}
	case x < 84:
		k, a := g.rhsOperand()
		g.do("segconcat", g.segOperand(), k, a)
	case x < 86:
		g.do("rsegconcat", g.segOperand(), common.Hex(genString(r, 2, false)))
	case x < 88:
		g.do("rtextconcat", g.operand(), common.Hex(genString(r, 2, false)))
	case x < 95:
		g.do("tbwrite", g.operand())
	case x < 99:
		g.do("tbtext")
	default:
		g.do("tbreset")
	}
}

// genHistory emits one history: a scenario that re-uses operands on purpose,
// followed by random steps over everything made so far.
func genHistory(r *common.Rand, emit func(...string)) {
	emit("reset")
	g := &hgen{r: r, h: newHist(), emit: emit}
	ref := func(i int) string { return "$" + strconv.Itoa(i) }
	parts := func(from int) string {
		var xs []string
		for i := from; i < len(g.h.vals); i++ {
			xs = append(xs, ref(i))
		}
		return strings.Join(xs, "|")
	}
	switch r.Intn(8) {
	case 0: // partitions concatenate back - every time
		g.do("lit", g.text(2, 4, ""))
		g.do("partition", "$0", g.indices(g.h.vals[0]))
		ps := parts(1)
		g.do("concat", ps)
		g.do("concat", ps)
	case 1: // the same concatenation twice; the operands in another order
		g.do("lit", g.text(1, 3, ""))
		g.do("lit", g.text(2, 3, lastStyle(g.h.vals[0])))
		if r.Bool() {
			g.do("concat", "$0|$1")
			g.do("concat", "$0|$1")
		} else {
			g.do("textconcat", "$0", "t", "$1")
			g.do("textconcat", "$0", "t", "$1")
		}
		g.do("concat", "$1|$0|$1")
	case 2: // a sub-slice of a value as the first operand
		g.do("lit", g.text(2, 4, ""))
		m := len(g.h.vals[0])
		if m >= 2 {
			hi := r.Range(1, m-1)
			g.do("sub", "$0", "0", strconv.Itoa(hi))
			g.do("textconcat", "$1", "g", g.otherStyle(lastStyle(g.h.vals[1]))+":"+common.Hex(common.Pick(r, hPieces)))
			k, a := g.rhsOperand()
			g.do("textconcat", "$1", k, a)
			g.do("concat", "$1|"+g.follower(1))
		}
	case 3: // the builder read between writes
		for k := r.Range(2, 4); k > 0; k-- {
			if n := len(g.h.vals); n > 0 && r.Bool() {
				g.do("tbwrite", g.follower(n-1))
			} else {
				g.do("tbwrite", g.text(1, 3, ""))
			}
			g.do("tbtext")
		}
	case 4: // lines put together again
		g.do("lit", g.text(2, 4, ""))
		g.do("split", "$0", "10")
		if n := len(g.h.vals); n > 2 {
			g.do("concat", ref(1)+"|d/d/0:0a|"+ref(2))
			g.do("concat", parts(1))
		}
	case 5: // t = t + x, again and again, and the old values stay
		g.do("lit", g.text(1, 2, ""))
		for k := r.Range(2, 4); k > 0; k-- {
			n := len(g.h.vals)
			g.do("textconcat", ref(n-1), "t", g.follower(n-1))
		}
		g.do("concat", "$0|"+g.follower(0))
	case 6: // several things appended to the same made value (which may have spare capacity)
		g.do("lit", g.text(1, 3, ""))
		g.do("concat", "$0|"+g.follower(0))
		for k := r.Range(2, 3); k > 0; k-- {
			if r.Chance(2, 3) {
				g.do("textconcat", "$1", "g", g.otherStyle(lastStyle(g.h.vals[1]))+":"+common.Hex(common.Pick(r, hPieces)))
			} else {
				kind, a := g.rhsOperand()
				g.do("textconcat", "$1", kind, a)
			}
		}
	}
	for k := r.Range(3, 8); k > 0; k-- {
		g.randomOp()
	}
}
