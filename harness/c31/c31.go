//go:build unix

// Package c31: correspondence and oracle for C31 (pkg/cli/term readEvent /
// readRune behind a fake byte source).
package c31

import (
	"fmt"
	"io"
	"sort"
	"strconv"
	"strings"
	"time"
	"unicode"
	"unicode/utf8"

	"src.elv.sh/pkg/cli/term"
	"src.elv.sh/pkg/ui"
	"verifharness/common"
)

func init() { common.Register("C31", run) }

// gap is the stream item "no byte arrives within the per-byte timeout".
const gap = -1

// source is the fake terminal: a list of bytes and gaps.  A timed read
// (timeout >= 0) at a gap consumes it and reports the reader's timeout error;
// an untimed read waits through gaps.  At the end of the list every read
// reports io.EOF.  Every timeout passed in is logged.
type source struct {
	items []int
	pos   int
	log   []time.Duration
}

func (s *source) ReadByteWithTimeout(timeout time.Duration) (byte, error) {
	s.log = append(s.log, timeout)
	for s.pos < len(s.items) {
		it := s.items[s.pos]
		s.pos++
		if it != gap {
			return byte(it), nil
		}
		if timeout >= 0 {
			return 0, term.VerifErrTimeout()
		}
	}
	return 0, io.EOF
}

func encodeItems(items []int) string {
	if len(items) == 0 {
		return "-"
	}
	var sb strings.Builder
	for _, it := range items {
		if it == gap {
			sb.WriteString("TT")
		} else {
			fmt.Fprintf(&sb, "%02x", it)
		}
	}
	return sb.String()
}

func decodeItems(s string) []int {
	if s == "-" {
		return nil
	}
	var items []int
	for i := 0; i+1 < len(s); i += 2 {
		if s[i:i+2] == "TT" {
			items = append(items, gap)
			continue
		}
		v, err := strconv.ParseUint(s[i:i+2], 16, 8)
		if err != nil {
			panic("bad items field: " + s)
		}
		items = append(items, int(v))
	}
	return items
}

func bytesOf(s string) []int {
	items := make([]int, len(s))
	for i := 0; i < len(s); i++ {
		items[i] = int(s[i])
	}
	return items
}

// call is the observation of one ReadEvent / ReadRawEvent call.
type call struct {
	ev       term.Event
	err      error
	consumed int
	log      []time.Duration
}

// decodeStream is the reader loop of pkg/cli/app.go over the fake source:
// one call after another until the stream is used up.
func decodeStream(items []int, raw bool) (calls []call, stuck bool) {
	src := &source{items: items}
	rd := term.VerifNewReader(src)
	for src.pos < len(items) {
		before := src.pos
		src.log = nil
		var ev term.Event
		var err error
		if raw {
			ev, err = rd.ReadRawEvent()
		} else {
			ev, err = rd.ReadEvent()
		}
		calls = append(calls, call{ev, err, src.pos - before, src.log})
		if src.pos == before {
			return calls, true
		}
	}
	return calls, false
}

func b01(b bool) string {
	if b {
		return "1"
	}
	return "0"
}

func showCall(c call, raw bool) string {
	var o string
	switch {
	case c.err != nil:
		if msg, seq, ok := term.VerifSeqError(c.err); ok {
			o = "E:seq:" + strings.ReplaceAll(msg, " ", "_") + ":" + common.Hex(seq)
		} else if c.err == term.VerifErrTimeout() {
			o = "E:timeout"
		} else if c.err == io.EOF {
			o = "E:eof"
		} else {
			o = "E:other"
		}
		// ReadRawEvent returns K(badRune) along with the error; ReadEvent returns nil.
	case c.ev == nil:
		o = "NIL"
	default:
		switch e := c.ev.(type) {
		case term.KeyEvent:
			o = fmt.Sprintf("K%d,%d", e.Rune, e.Mod)
		case term.MouseEvent:
			o = fmt.Sprintf("M%d,%d,%s,%d,%d", e.Line, e.Col, b01(e.Down), e.Button, e.Mod)
		case term.CursorPosition:
			o = fmt.Sprintf("C%d,%d", e.Line, e.Col)
		case term.PasteSetting:
			o = "P" + b01(bool(e))
		default:
			o = fmt.Sprintf("UNKNOWN-%T", c.ev)
		}
	}
	var lg strings.Builder
	ks, us := term.VerifTimeouts()
	for _, d := range c.log {
		switch {
		case d < 0:
			lg.WriteByte('u')
		case d == ks || d == us:
			lg.WriteByte('t')
		default:
			fmt.Fprintf(&lg, "(%d)", int64(d))
		}
	}
	return fmt.Sprintf("%s/%d/%s", o, c.consumed, lg.String())
}

func impl(_ any, f []string) string {
	switch f[0] {
	case "ev", "raw":
		raw := f[0] == "raw"
		calls, stuck := decodeStream(decodeItems(f[1]), raw)
		if len(calls) == 0 {
			return "-"
		}
		parts := make([]string, len(calls))
		for i, c := range calls {
			parts[i] = showCall(c, raw)
		}
		out := strings.Join(parts, " ")
		if stuck {
			out += " STUCK"
		}
		return out
	case "tbl":
		g3, byLast, tilde, tilde27 := term.VerifKeyTables()
		switch f[1] {
		case "g3Seq":
			return showKeyTable(g3)
		case "csiSeqByLast":
			return showKeyTable(byLast)
		case "csiSeqTilde":
			return showRuneTable(tilde)
		case "csiSeqTilde27":
			return showRuneTable(tilde27)
		}
	}
	return "bad-op"
}

func showKeyTable(m map[rune]ui.Key) string {
	var ks []int
	for k := range m {
		ks = append(ks, int(k))
	}
	sort.Ints(ks)
	parts := make([]string, len(ks))
	for i, k := range ks {
		v := m[rune(k)]
		parts[i] = fmt.Sprintf("%d:%d:%d", k, v.Rune, v.Mod)
	}
	return strings.Join(parts, ",")
}

func showRuneTable(m map[int]rune) string {
	var ks []int
	for k := range m {
		ks = append(ks, k)
	}
	sort.Ints(ks)
	parts := make([]string, len(ks))
	for i, k := range ks {
		parts[i] = fmt.Sprintf("%d:%d", k, m[k])
	}
	return strings.Join(parts, ",")
}

// maxSeqTimeout is the bound the property refers to ("its timeout"): the
// documented 10ms per byte inside a sequence.
const maxSeqTimeout = 10 * time.Millisecond

// plainText reports whether the stream is printable-text-like in the sense
// of C31: valid UTF-8, every code point >= 0x20 and != 0x7f (so no ESC and no
// control byte), gaps only between characters and not at the very end.  It
// returns the characters.
func plainText(items []int) ([]rune, bool) {
	var rs []rune
	i := 0
	for i < len(items) {
		if items[i] == gap {
			i++
			if i == len(items) {
				return nil, false // trailing gap: the untimed read ends in EOF
			}
			continue
		}
		var buf [4]byte
		n := 0
		for n < 4 && i+n < len(items) && items[i+n] != gap {
			buf[n] = byte(items[i+n])
			n++
		}
		r, size := utf8.DecodeRune(buf[:n])
		if r == utf8.RuneError && size <= 1 {
			return nil, false
		}
		if r < 0x20 || r == 0x7f {
			return nil, false
		}
		rs = append(rs, r)
		i += size
	}
	return rs, len(rs) > 0
}

// oracle evaluates C31's statement directly on the real reader.
func oracle(_ any, f []string, out string) (string, string) {
	if f[0] != "ev" && f[0] != "raw" {
		return "", ""
	}
	if out == "PANIC" {
		return "crash", "the reader panicked"
	}
	if out == "TIMEOUT" {
		return "hang", "the reader did not return"
	}
	raw := f[0] == "raw"
	items := decodeItems(f[1])
	calls, stuck := decodeStream(items, raw)
	if stuck {
		return "no-progress", fmt.Sprintf("call #%d returned without consuming input", len(calls))
	}
	total := 0
	for i, c := range calls {
		// keeps producing events or errors
		if c.err == nil && c.ev == nil {
			return "no-result", fmt.Sprintf("call #%d returned neither an event nor an error", i+1)
		}
		if c.consumed < 1 {
			return "no-progress", fmt.Sprintf("call #%d consumed nothing", i+1)
		}
		total += c.consumed
		// no sequence can block past its timeout: only the first read of a call
		// may be untimed; every later one is bounded by the per-byte timeout
		if len(c.log) == 0 {
			return "no-read", fmt.Sprintf("call #%d did not read", i+1)
		}
		for j, d := range c.log[1:] {
			if d < 0 || d > maxSeqTimeout {
				return "unbounded-read-in-sequence", fmt.Sprintf("call #%d read #%d passed timeout %v", i+1, j+2, d)
			}
		}
		// finitely many reads: each read consumes an item, or is the last of the call
		if len(c.log) > c.consumed+1 {
			return "read-count", fmt.Sprintf("call #%d made %d reads for %d items", i+1, len(c.log), c.consumed)
		}
	}
	if total != len(items) {
		return "stream-not-consumed", fmt.Sprintf("%d of %d items", total, len(items))
	}
	// lossless for plain text
	if rs, ok := plainText(items); ok {
		if len(calls) != len(rs) {
			return "plain-text-event-count", fmt.Sprintf("%d events for %d characters", len(calls), len(rs))
		}
		for i, c := range calls {
			k, isKey := c.ev.(term.KeyEvent)
			if c.err != nil || !isKey || k.Rune != rs[i] || k.Mod != 0 {
				return "plain-text-lost", fmt.Sprintf("character #%d %q decoded as %s", i+1, rs[i], showCall(c, raw))
			}
		}
	}
	return "", ""
}

// ---- generation ---------------------------------------------------------------

var smallAlphabet = []int{0x1b, '[', 'O', '<', 'M', ';', '~', '0', '1', '2', '5', '9', 'A', 'R', 'm',
	0x7f, 0x80, 0xc3, 0xa9, 0xe4, 0xf0, gap}

func runeItems(r rune) []int { return bytesOf(string(r)) }

// printable picks a random plain character: mostly printable ones, sometimes
// any scalar value that is not a control character (the reader does not
// consult any Unicode table, and the oracle's notion of plain text is "scalar
// value >= 0x20 other than DEL").
func printable(r *common.Rand) rune {
	if r.Chance(1, 10) {
		if r.Bool() {
			return common.Pick(r, []rune{0x80, 0x9f, 0xa0, 0x7ff, 0x800, 0x7fff, 0x8000, 0xd7ff, 0xe000, 0xffff, 0x10000, 0x3ffff, 0x40000,
				0xfffff, 0x100000, 0x10fffe, 0x10ffff})
		}
		for {
			c := rune(r.Range(0x80, 0x10ffff))
			if utf8.ValidRune(c) {
				return c
			}
		}
	}
	for {
		var c rune
		switch r.Intn(8) {
		case 0, 1, 2:
			c = rune(r.Range(0x20, 0x7e))
		case 3:
			c = rune(r.Range(0xa0, 0x7ff))
		case 4:
			c = rune(r.Range(0x800, 0xffff))
		case 5:
			c = rune(r.Range(0x10000, 0x10ffff))
		case 6:
			c = common.Pick(r, []rune{'é', 'ß', 'λ', '你', '好', 'こ', '😀', '𐌰', '€', '[', 'O', 'M', '~', ';', '0', 0xa0, 0x7ff, 0x800, 0xffff, 0x10000, 0xd7ff, 0xe000, 0xfffd})
		default:
			c = rune(r.Range(0x20, 0x2fff))
		}
		if c != 0xfffd && !unicode.IsPrint(c) {
			continue
		}
		if !utf8.ValidRune(c) {
			continue
		}
		return c
	}
}

var knownSeqs = []string{
	"\033[A", "\033[1;5A", "\033[1;16H", "\033[1;17A", "\033[2A", "\033[Z", "\033[1;2Z",
	"\033[3~", "\033[3;5~", "\033[15~", "\033[16~", "\033[24;8~", "\033[27;5;9~", "\033[27;2;13~", "\033[27;5;64~", "\033[28;5;9~",
	"\033[3$", "\033[3^", "\033[3@", "\033[3;2$", "\033[200~", "\033[201~", "\033[202~", "\033[<200~", "\033[200;1~",
	"\033[12;34R", "\033[12R", "\033[1;2;3R", "\033[<12;34R", "\033[R",
	"\033[<0;3;4M", "\033[<0;3;4m", "\033[<35;1;1M", "\033[<28;10;20m", "\033[<0;3M", "\033[0;3;4M", "\033[<;;M", "\033[<M",
	"\033[M !!", "\033[M#!!", "\033[M<ab", "\033[M\x1f\x20\x21", "\033[Mé你😀", "\033[M !", "\033[M",
	"\033OA", "\033OP", "\033Oa", "\033OM", "\033Ox", "\033O", "\033\033OA", "\033\033[A", "\033\033[1;5A", "\033\033", "\033\033a", "\033\033O", "\033\033[",
	"\033a", "\033\x01", "\033\x7f", "\033\t", "\033é", "\033", "\x00", "\x01", "\x1d", "\x1e", "\x1f", "\t", "\n", "\r", "\x7f",
	"\033[;A", "\033[;;A", "\033[1;A", "\033[;5A", "\033[1;0A", "\033[01;05A", "\033[0A", "\033[?1;2c", "\033[1;2", "\033[1;", "\033[<",
}

// randomStream builds a biased stream: known sequences, their truncations,
// digit runs (including ones long enough to wrap a 64-bit int), separators,
// raw bytes, text and gaps.
func randomStream(r *common.Rand, maxTok int) []int {
	var items []int
	for k := r.Range(1, maxTok); k > 0; k-- {
		switch r.Intn(16) {
		case 0, 1, 2:
			items = append(items, bytesOf(common.Pick(r, knownSeqs))...)
		case 3:
			s := common.Pick(r, knownSeqs)
			items = append(items, bytesOf(s[:r.Intn(len(s)+1)])...)
		case 4:
			items = append(items, 0x1b, '[')
		case 5:
			for n := r.Range(1, 4); n > 0; n-- {
				items = append(items, '0'+r.Intn(10))
			}
		case 6:
			// long number: 17..23 digits reach and pass 2^63
			if r.Chance(1, 2) {
				items = append(items, bytesOf(common.Pick(r, []string{"9223372036854775807", "9223372036854775808", "18446744073709551615",
					"18446744073709551616", "18446744073709551617", "9223372036854775812", "36893488147419103232", "9223372036854775809"}))...)
			} else {
				for n := r.Range(17, 23); n > 0; n-- {
					items = append(items, '0'+r.Intn(10))
				}
			}
		case 7:
			items = append(items, ';')
		case 8:
			items = append(items, int(common.Pick(r, []byte("~ARMmZHPabcd$^@<O[ x"))))
		case 9:
			items = append(items, r.Intn(256))
		case 10:
			items = append(items, int(common.Pick(r, []byte{0x80, 0xbf, 0xc0, 0xc2, 0xc3, 0xdf, 0xe0, 0xe4, 0xed, 0xef, 0xf0, 0xf4, 0xf5, 0xf8, 0xff, 0xa9, 0x9f})))
		case 11:
			items = append(items, runeItems(printable(r))...)
		case 12, 13:
			items = append(items, gap)
		case 14:
			items = append(items, 0x1b)
		default:
			items = append(items, bytesOf(common.Pick(r, []string{"200", "201", "27", "1", "5", "16", "17", "24", "32", "35"}))...)
		}
	}
	return items
}

func run(c *common.Ctx) error {
	depth := c.Scale(4, 5)
	s := &common.Std{
		Rule: fmt.Sprintf("exhaustive: every item string of length ≤%d over {ESC [ O < M ; ~ 0 1 2 5 9 A R m 7f 80 c3 a9 e4 f0 gap} "+
			"(at the largest length only first symbols that do not complete a key by themselves: quick = length 4 with ESC, ≥0x80 or gap first; thorough = all of length 4, length 5 with ESC or gap first); "+
			"every byte in every table position (b, ESC b, ESC O b, ESC [ b, ESC [ 1;5 b, ESC [ < b, doubled ESC), every number 0..300 with ~ $ ^ @ and every "+
			"modifier -1..20, X10/SGR mouse over all button bytes; random biased streams with gaps; random printable UTF-8 text with gaps between and inside "+
			"characters; the same through ReadRawEvent; the four key tables dumped; non-trivial = anything but a single plain key; distinct by op line", depth),
		ExhaustiveNote: fmt.Sprintf("item strings ≤%d over a 22-symbol alphabet (largest length restricted to first symbols that do not complete a key by themselves); all bytes in each key-table position; numbers 0..300", depth),
		Gen: func(c *common.Ctx, emit func(...string)) {
			ev := func(items []int) { emit("ev", encodeItems(items)) }
			for _, t := range []string{"g3Seq", "csiSeqByLast", "csiSeqTilde", "csiSeqTilde27"} {
				emit("tbl", t)
			}
			// exhaustive small strings, shortest first (so that the first failure reported is a smallest one)
			var rec func(prefix []int, n int)
			rec = func(prefix []int, n int) {
				if n == 0 {
					ev(prefix)
					return
				}
				for _, a := range smallAlphabet {
					rec(append(prefix[:len(prefix):len(prefix)], a), n-1)
				}
			}
			for l := 0; l <= depth; l++ {
				if l == 4 && !c.Thorough() || l == 5 {
					// A first symbol that is a complete key by itself ends the first call at
					// once and leaves a shorter string, all of which are enumerated already;
					// at the largest length only the other first symbols are enumerated
					// (length 5: only ESC and gap — a UTF-8 leader takes at most 3 more bytes).
					for _, a := range smallAlphabet {
						if a == 0x1b || a == gap || a >= 0x80 && l == 4 {
							rec([]int{a}, l-1)
						}
					}
					continue
				}
				rec(nil, l)
			}
			// every byte in every table position
			for b := 0; b < 256; b++ {
				for _, pre := range []string{"", "\033", "\033\033", "\033O", "\033\033O", "\033[", "\033\033[", "\033[1;5", "\033[1;", "\033[<", "\033[5", "\033[<1;2;3", "\033[1;2"} {
					ev(append(bytesOf(pre), b))
				}
				// X10 mouse with b in each of the three positions (as a rune)
				for pos := 0; pos < 3; pos++ {
					its := bytesOf("\033[M")
					for q := 0; q < 3; q++ {
						if q == pos {
							its = append(its, runeItems(rune(b))...)
						} else {
							its = append(its, '!')
						}
					}
					ev(its)
				}
				// every leader followed by continuation-like bytes
				ev([]int{b, 0x80, 0xbf, 0x80, 'x'})
				ev([]int{b, 'a', 'b', 'c', 'd'})
				ev([]int{b, 0xa9, gap, 0xa9})
				// the same as the last rune of a CSI / G3 sequence: the rune (possibly
				// above U+10FFFF or a surrogate) ends up in the seqError text via string(r)
				ev([]int{0x1b, '[', b, 0xbf, 0xbf, 0xbf})
				ev([]int{0x1b, 'O', b, 0xa0, 0x80, 0x80})
				ev([]int{0x1b, '[', '1', b, 0x90, 0x80, 0x80})
			}
			for n := 0; n <= 300; n++ {
				ns := strconv.Itoa(n)
				for _, last := range []string{"~", "$", "^", "@"} {
					ev(bytesOf("\033[" + ns + last))
				}
				ev(bytesOf("\033[" + ns + ";5~"))
				ev(bytesOf("\033[27;5;" + ns + "~"))
				ev(bytesOf("\033[27;" + ns + ";9~"))
				ev(bytesOf("\033[<" + ns + ";7;9M"))
				ev(bytesOf("\033[<" + ns + ";7;9m"))
				ev(bytesOf("\033[" + ns + ";" + ns + "R"))
			}
			for m := -1; m <= 20; m++ {
				ms := strconv.Itoa(m)
				ev(bytesOf("\033[1;" + ms + "A"))
				ev(bytesOf("\033[3;" + ms + "~"))
				ev(bytesOf("\033[27;" + ms + ";13~"))
				ev(bytesOf("\033\033[1;" + ms + "A"))
			}
			for _, sq := range knownSeqs {
				ev(bytesOf(sq))
				// a gap at every position
				for i := 0; i <= len(sq); i++ {
					its := append(append(bytesOf(sq[:i]), gap), bytesOf(sq[i:])...)
					ev(its)
				}
			}
			// numbers around the 64-bit boundary
			for _, ns := range []string{"9223372036854775807", "9223372036854775808", "9223372036854775809", "18446744073709551615", "18446744073709551616",
				"18446744073709551617", "18446744073709551816", "18446744073709551817", "18446744073709551643", "9223372036854775812", "99999999999999999999999"} {
				for _, tmpl := range []string{"\033[%s~", "\033[1;%sA", "\033[<%s;1;1M", "\033[%s;%sR", "\033[27;%s;9~", "\033[27;5;%s~", "\033[%s"} {
					ev(bytesOf(strings.ReplaceAll(tmpl, "%s", ns)))
				}
			}
			// random biased streams
			n := c.Scale(20000, 400000)
			for i := 0; i < n; i++ {
				its := randomStream(c.Rand, 12)
				if i%5 == 4 {
					emit("raw", encodeItems(its))
				} else {
					ev(its)
				}
			}
			// random printable text: plain, with gaps between characters, with a gap inside a character
			n = c.Scale(8000, 150000)
			for i := 0; i < n; i++ {
				var its []int
				mode := i % 4
				for k := c.Rand.Range(1, 12); k > 0; k-- {
					ch := runeItems(printable(c.Rand))
					if mode >= 1 && c.Rand.Chance(1, 3) {
						for g := c.Rand.Range(1, 2); g > 0; g-- {
							its = append(its, gap)
						}
					}
					if mode == 3 && len(ch) > 1 && c.Rand.Chance(1, 3) {
						cut := c.Rand.Range(1, len(ch)-1)
						ch = append(append(append([]int{}, ch[:cut]...), gap), ch[cut:]...)
					}
					its = append(its, ch...)
				}
				if mode == 2 {
					emit("raw", encodeItems(its))
				} else {
					ev(its)
				}
			}
		},
		Timeout: 3 * time.Second,
		Impl:    impl,
		Oracle:  oracle,
		Tag:     tag,
	}
	return s.Run(c)
}

// tag names the rarest kind of outcome in the line.
func tag(f []string, out string) string {
	if f[0] == "tbl" {
		return "table:" + f[1]
	}
	if out == "PANIC" || out == "TIMEOUT" {
		return out
	}
	pre := ""
	if f[0] == "raw" {
		pre = "raw:"
	}
	best, bestRank := "", -1
	consider := func(t string, rank int) {
		if rank > bestRank {
			best, bestRank = t, rank
		}
	}
	for _, p := range strings.Fields(out) {
		o := p
		if i := strings.IndexByte(p, '/'); i >= 0 {
			o = p[:i]
		}
		switch {
		case strings.HasPrefix(o, "E:seq:"):
			msg := strings.SplitN(o, ":", 4)[2]
			consider("err:"+msg, 50)
		case o == "E:timeout":
			consider("err:utf8-timeout", 45)
		case o == "E:eof":
			consider("err:eof", 20)
		case strings.HasPrefix(o, "M"):
			if strings.Contains(o, ",-") || strings.HasPrefix(o, "M-") {
				consider("mouse-negative-field", 62)
			} else {
				consider("mouse", 40)
			}
		case strings.HasPrefix(o, "C"):
			if strings.Contains(o, "-") {
				consider("cursor-wrapped-number", 61)
			} else {
				consider("cursor-position", 41)
			}
		case strings.HasPrefix(o, "P"):
			consider("paste", 42)
		case strings.HasPrefix(o, "K"):
			var r, m int
			fmt.Sscanf(o, "K%d,%d", &r, &m)
			switch {
			case r < 0 && m != 0:
				consider("function-key-modified", 31)
			case r < 0:
				consider("function-key", 30)
			case m&int(ui.Alt) != 0:
				consider("alt-key", 12)
			case m != 0:
				consider("ctrl-key", 11)
			case r >= 0x80:
				consider("text-non-ascii", 5)
			case r < 0x20 || r == 0x7f:
				consider("control-as-key", 6)
			default:
				if len(strings.Fields(out)) > 1 {
					consider("text", 1)
				}
			}
		default:
			if o == "-" {
				consider("empty-stream", 2)
			} else {
				consider("other:"+o, 70)
			}
		}
	}
	if best == "" {
		return ""
	}
	return pre + best
}
