// Package c23: correspondence and oracle for C23 (wildcard expansion).
//
// Every op carries a complete directory tree, so a single op line replays on
// its own.  The tree is materialised in a scratch directory (removed when the
// next tree replaces it), the real code runs with that tree as working
// directory, and the Lean model gets the same tree as data.  Absolute paths
// use the placeholder root /c23-abs-root in op lines and outputs; the harness
// substitutes the real scratch path on the way in and out.
package c23

import (
	"fmt"
	"os"
	"path/filepath"
	"sort"
	"strconv"
	"strings"
	"sync/atomic"
	"syscall"
	"time"
	"unicode"
	"unicode/utf8"

	"src.elv.sh/pkg/eval"
	"src.elv.sh/pkg/glob"
	"verifharness/common"
	"verifharness/evalutil"
)

func init() { common.Register("C23", run) }

const opBudget = 3 * time.Second

const absPH = "/c23-abs-root"
const absName = "c23-abs-root"

// ---- data ------------------------------------------------------------------------

type entry struct {
	path   string // relative to the model root T, e.g. "r/a/b"
	kind   byte   // f d l o
	target string // symlink target (absolute ones start with absPH)
}

type matcher struct {
	k        byte // s (set) r (range) c (class)
	set      string
	from, to rune
	incl     bool
	class    string
	sat      string // class: the runes of the universe it accepts
}

type seg struct {
	k      byte // L S W
	lit    string
	wt     byte // q s d
	hidden bool
	ms     []matcher
}

var classFns = map[string]func(rune) bool{
	"control": unicode.IsControl, "digit": unicode.IsDigit, "graphic": unicode.IsGraphic,
	"letter": unicode.IsLetter, "lower": unicode.IsLower, "mark": unicode.IsMark,
	"number": unicode.IsNumber, "print": unicode.IsPrint, "punct": unicode.IsPunct,
	"space": unicode.IsSpace, "symbol": unicode.IsSymbol, "title": unicode.IsTitle,
	"upper": unicode.IsUpper,
}
var classNames = []string{"control", "digit", "graphic", "letter", "lower", "mark", "number", "print", "punct", "space", "symbol", "title", "upper"}

func (m matcher) fn() func(rune) bool {
	switch m.k {
	case 's':
		return func(r rune) bool { return strings.ContainsRune(m.set, r) }
	case 'r':
		if m.incl {
			return func(r rune) bool { return m.from <= r && r <= m.to }
		}
		return func(r rune) bool { return m.from <= r && r < m.to }
	default:
		return classFns[m.class]
	}
}

func (s seg) accepts(r rune) bool {
	if len(s.ms) == 0 {
		return true
	}
	for _, m := range s.ms {
		if m.fn()(r) {
			return true
		}
	}
	return false
}

func encMatcher(m matcher) string {
	switch m.k {
	case 's':
		return "s" + common.Hex(m.set)
	case 'r':
		i := "0"
		if m.incl {
			i = "1"
		}
		return fmt.Sprintf("r%d.%d.%s", m.from, m.to, i)
	default:
		return "c" + m.class + "." + common.Hex(m.sat)
	}
}

func encSegs(segs []seg) string {
	if len(segs) == 0 {
		return "-"
	}
	var parts []string
	for _, s := range segs {
		switch s.k {
		case 'L':
			parts = append(parts, "L"+common.Hex(s.lit))
		case 'S':
			parts = append(parts, "S")
		default:
			h := "0"
			if s.hidden {
				h = "1"
			}
			p := "W" + string(s.wt) + h
			for _, m := range s.ms {
				p += ":" + encMatcher(m)
			}
			parts = append(parts, p)
		}
	}
	return strings.Join(parts, ",")
}

func decSegs(s string) []seg {
	if s == "-" {
		return nil
	}
	var out []seg
	for _, p := range strings.Split(s, ",") {
		switch p[0] {
		case 'L':
			out = append(out, seg{k: 'L', lit: common.Unhex(p[1:])})
		case 'S':
			out = append(out, seg{k: 'S'})
		case 'W':
			sg := seg{k: 'W', wt: p[1], hidden: p[2] == '1'}
			if len(p) > 3 {
				for _, ms := range strings.Split(p[4:], ":") {
					var m matcher
					m.k = ms[0]
					switch m.k {
					case 's':
						m.set = common.Unhex(ms[1:])
					case 'r':
						f := strings.Split(ms[1:], ".")
						a, _ := strconv.Atoi(f[0])
						b, _ := strconv.Atoi(f[1])
						m.from, m.to, m.incl = rune(a), rune(b), f[2] == "1"
					case 'c':
						f := strings.SplitN(ms[1:], ".", 2)
						m.class, m.sat = f[0], common.Unhex(f[1])
					}
					sg.ms = append(sg.ms, m)
				}
			}
			out = append(out, sg)
		}
	}
	return out
}

func encTree(es []entry) string {
	if len(es) == 0 {
		return "-"
	}
	var parts []string
	for _, e := range es {
		p := string(e.kind) + common.Hex(e.path)
		if e.kind == 'l' {
			p += "=" + common.Hex(e.target)
		}
		parts = append(parts, p)
	}
	return strings.Join(parts, ";")
}

func decTree(s string) []entry {
	if s == "-" {
		return nil
	}
	var out []entry
	for _, p := range strings.Split(s, ";") {
		e := entry{kind: p[0]}
		rest := p[1:]
		if e.kind == 'l' {
			f := strings.SplitN(rest, "=", 2)
			e.path, e.target = common.Unhex(f[0]), common.Unhex(f[1])
		} else {
			e.path = common.Unhex(rest)
		}
		out = append(out, e)
	}
	return out
}

// ---- state: the materialised tree ---------------------------------------------------

type state struct {
	base string // where trees are made
	cur  string // tree field currently on disk
	root string // its real path (T)
	n    int
	ev   *eval.Evaler
	wd   string
	// an op that never returned (the framework gave up on it) cannot be stopped;
	// after a few of them the remaining ops are skipped so that the run ends and
	// the hung inputs are reported
	inflight atomic.Bool
	hung     int
}

func newState(c *common.Ctx) any {
	base := c.Dir
	if base == "" {
		base, _ = os.MkdirTemp("", "c23-")
	}
	base, _ = filepath.Abs(base)
	wd, _ := os.Getwd()
	return &state{base: base, ev: evalutil.NewEvaler(), wd: wd}
}

func (st *state) materialise(tree string) {
	if st.cur == tree && st.root != "" {
		return
	}
	if st.root != "" {
		os.RemoveAll(st.root)
	}
	st.n++
	st.root = filepath.Join(st.base, fmt.Sprintf("c23t%d", st.n))
	st.cur = tree
	must(os.MkdirAll(st.root, 0o755))
	for _, e := range decTree(tree) {
		p := st.root + "/" + e.path
		switch e.kind {
		case 'd':
			must(os.MkdirAll(p, 0o755))
		case 'f':
			must(os.WriteFile(p, nil, 0o644))
		case 'l':
			t := e.target
			if strings.HasPrefix(t, absPH) {
				t = st.root + t[len(absPH):]
			}
			must(os.Symlink(t, p))
		case 'o':
			must(syscall.Mkfifo(p, 0o644))
		}
	}
}

func must(err error) {
	if err != nil {
		panic("c23 harness: " + err.Error())
	}
}

// realSegs replaces the placeholder absolute prefix by the real scratch path.
func realSegs(segs []seg, root string) []seg {
	if len(segs) >= 2 && segs[0].k == 'S' && segs[1].k == 'L' && segs[1].lit == absName {
		var out []seg
		for _, c := range strings.Split(strings.TrimPrefix(root, "/"), "/") {
			out = append(out, seg{k: 'S'}, seg{k: 'L', lit: c})
		}
		return append(out, segs[2:]...)
	}
	return segs
}

func (st *state) unreal(p string) string {
	if strings.HasPrefix(p, st.root) {
		return absPH + p[len(st.root):]
	}
	return p
}

// ---- the real code -------------------------------------------------------------------

func toGlobSegs(segs []seg) []glob.Segment {
	var out []glob.Segment
	for _, s := range segs {
		switch s.k {
		case 'L':
			out = append(out, glob.Literal{Data: s.lit})
		case 'S':
			out = append(out, glob.Slash{})
		default:
			w := glob.Wild{MatchHidden: s.hidden}
			switch s.wt {
			case 'q':
				w.Type = glob.Question
			case 's':
				w.Type = glob.Star
			default:
				w.Type = glob.StarStar
			}
			for _, m := range s.ms {
				w.Matchers = append(w.Matchers, m.fn())
			}
			out = append(out, w)
		}
	}
	return out
}

func showGlobSegs(segs []glob.Segment) string {
	if len(segs) == 0 {
		return "-"
	}
	var parts []string
	for _, s := range segs {
		switch s := s.(type) {
		case glob.Literal:
			parts = append(parts, "L"+common.Hex(s.Data))
		case glob.Slash:
			parts = append(parts, "S")
		case glob.Wild:
			parts = append(parts, string("QAD"[s.Type]))
		}
	}
	return strings.Join(parts, ",")
}

func kindOf(m os.FileMode) byte {
	switch {
	case m.IsDir():
		return 'd'
	case m.IsRegular():
		return 'f'
	case m&os.ModeSymlink != 0:
		return 'l'
	}
	return 'o'
}

func quoteElv(s string) string { return quoteElv2(s, false) }

// quoteElv2: forceDQ avoids 'a”b' (one string with a quote) for adjacent literals.
func quoteElv2(s string, forceDQ bool) string {
	plain := utf8.ValidString(s) && !forceDQ
	for _, r := range s {
		if r < 0x20 || r == 0x7f {
			plain = false
		}
	}
	if plain {
		return "'" + strings.ReplaceAll(s, "'", "''") + "'"
	}
	var sb strings.Builder
	sb.WriteByte('"')
	for i := 0; i < len(s); i++ {
		b := s[i]
		switch {
		case b == '"' || b == '\\':
			sb.WriteByte('\\')
			sb.WriteByte(b)
		case b < 0x20 || b >= 0x7f:
			fmt.Fprintf(&sb, "\\x%02x", b)
		default:
			sb.WriteByte(b)
		}
	}
	sb.WriteByte('"')
	return sb.String()
}

type mods struct {
	nomatchOK bool
	typ       string
	buts      []string
}

func encMods(m mods) string {
	n := "0"
	if m.nomatchOK {
		n = "1"
	}
	t := m.typ
	if t == "" {
		t = "-"
	}
	b := "-"
	if len(m.buts) > 0 {
		var hs []string
		for _, x := range m.buts {
			hs = append(hs, common.Hex(x))
		}
		b = strings.Join(hs, "+")
	}
	return n + "." + t + "." + b
}

func decMods(s string) mods {
	f := strings.Split(s, ".")
	m := mods{nomatchOK: f[0] == "1"}
	if f[1] != "-" {
		m.typ = f[1]
	}
	if f[2] != "-" {
		for _, h := range strings.Split(f[2], "+") {
			m.buts = append(m.buts, common.Unhex(h))
		}
	}
	return m
}

// elvCode renders the pattern as an elvish wildcard expression.  The global
// modifiers go after the wildcard number `at` (counted among the wildcards).
func elvCode(segs []seg, m mods, at int, root string) string {
	var sb strings.Builder
	sb.WriteString("put ")
	wi := 0
	prevBareStar, prevSQ := false, false
	for _, s := range segs {
		switch s.k {
		case 'L':
			q := quoteElv2(s.lit, prevSQ)
			sb.WriteString(q)
			prevBareStar, prevSQ = false, q[0] == '\''
			continue
		case 'S':
			sb.WriteString("/")
			prevBareStar = false
		default:
			if prevBareStar && s.wt != 'q' {
				sb.WriteString("''")
			}
			switch s.wt {
			case 'q':
				sb.WriteString("?")
			case 's':
				sb.WriteString("*")
			default:
				sb.WriteString("**")
			}
			nm := 0
			if s.hidden {
				sb.WriteString("[match-hidden]")
				nm++
			}
			for _, mt := range s.ms {
				nm++
				switch mt.k {
				case 's':
					sb.WriteString("[" + quoteElv("set:"+mt.set) + "]")
				case 'r':
					sep := "~"
					if mt.incl {
						sep = "-"
					}
					sb.WriteString("[" + quoteElv("range:"+string(mt.from)+sep+string(mt.to)) + "]")
				default:
					sb.WriteString("[" + mt.class + "]")
				}
			}
			if wi == at {
				if m.nomatchOK {
					sb.WriteString("[nomatch-ok]")
					nm++
				}
				if m.typ != "" {
					sb.WriteString("[type:" + m.typ + "]")
					nm++
				}
				for _, b := range m.buts {
					if strings.HasPrefix(b, absPH) {
						b = root + b[len(absPH):]
					}
					sb.WriteString("[" + quoteElv("but:"+b) + "]")
					nm++
				}
			}
			wi++
			prevBareStar = nm == 0 && s.wt != 'q'
		}
		prevSQ = false
	}
	return sb.String()
}

func nWild(segs []seg) int {
	n := 0
	for _, s := range segs {
		if s.k == 'W' {
			n++
		}
	}
	return n
}

func (st *state) inTree(cwd string, f func() string) string {
	must(os.Chdir(st.root + "/" + cwd))
	defer os.Chdir(st.wd)
	return f()
}

func impl(sti any, f []string) string {
	st := sti.(*state)
	if st.inflight.Load() {
		st.hung++
	}
	if st.hung >= 3 {
		return "SKIPPED: earlier expansions did not terminate"
	}
	st.inflight.Store(true)
	out := impl1(st, f)
	st.inflight.Store(false)
	if out == "TIMEOUT" {
		st.hung++
	}
	return out
}

func impl1(st *state, f []string) string {
	switch f[0] {
	case "parse":
		return showGlobSegs(glob.Parse(common.Unhex(f[1])).Segments)
	case "glob":
		mode, tree, cwd, pat := f[1], f[2], common.Unhex(f[4]), f[5]
		st.materialise(tree)
		return st.inTree(cwd, func() string {
			var outs []string
			// a runaway expansion (e.g. one that follows link loops) is cut off here
			// rather than by the framework's per-op timeout, which cannot stop it
			deadline, timedOut := time.Now().Add(opBudget), false
			cb := func(pi glob.PathInfo) bool {
				if len(outs)%64 == 0 && time.Now().After(deadline) {
					timedOut = true
					return false
				}
				outs = append(outs, common.Hex(st.unreal(pi.Path))+":"+string(kindOf(pi.Info.Mode())))
				return true
			}
			switch mode {
			case "P":
				s := common.Unhex(pat[1:])
				if strings.HasPrefix(s, absPH) {
					s = st.root + s[len(absPH):]
				}
				glob.Glob(s, cb)
			case "G":
				glob.Pattern{Segments: toGlobSegs(realSegs(decSegs(pat), st.root))}.Glob(cb)
			case "E":
				segs := decSegs(pat)
				m := decMods(f[6])
				at := 0
				if n := nWild(segs); n > 0 {
					at = (len(pat) + len(f[6])) % n // deterministic choice of the carrier wildcard
				}
				res := evalutil.EvalTimeout(st.ev, elvCode(realSegs(segs, st.root), m, at, st.root), opBudget)
				if res.Err != nil {
					if evalutil.Reason(res.Err) == eval.ErrInterrupted {
						return "TIMEOUT"
					}
					if evalutil.Reason(res.Err) == eval.ErrWildcardNoMatch {
						return "EXC nomatch"
					}
					return "EXC other: " + res.Err.Error()
				}
				var ps []string
				for _, v := range res.Values {
					s, ok := v.(string)
					if !ok {
						return fmt.Sprintf("EXC non-string output %T", v)
					}
					ps = append(ps, common.Hex(st.unreal(s)))
				}
				if len(ps) == 0 {
					return "OK -"
				}
				return "OK " + strings.Join(ps, ",")
			}
			if timedOut {
				return "TIMEOUT"
			}
			if len(outs) == 0 {
				return "-"
			}
			return strings.Join(outs, ",")
		})
	}
	return "bad-op"
}

// ---- the oracle: the documented rules, evaluated independently ----------------------

// refParse is an independent reading of the pattern syntax: `?`, runs of `*`
// (one = `*`, more = `**`), runs of `/`, `\x` = literal x, everything else literal.
func refParse(s string) []seg {
	s = string([]rune(s)) // invalid bytes are read as U+FFFD
	var out []seg
	i := 0
	for i < len(s) {
		switch s[i] {
		case '?':
			out = append(out, seg{k: 'W', wt: 'q'})
			i++
		case '*':
			j := i
			for j < len(s) && s[j] == '*' {
				j++
			}
			if j-i == 1 {
				out = append(out, seg{k: 'W', wt: 's'})
			} else {
				out = append(out, seg{k: 'W', wt: 'd'})
			}
			i = j
		case '/':
			for i < len(s) && s[i] == '/' {
				i++
			}
			out = append(out, seg{k: 'S'})
		default:
			var lit []byte
			for i < len(s) && s[i] != '?' && s[i] != '*' && s[i] != '/' {
				if s[i] == '\\' {
					i++
					if i >= len(s) {
						break
					}
				}
				_, n := utf8.DecodeRuneInString(s[i:])
				lit = append(lit, s[i:i+n]...)
				i += n
			}
			out = append(out, seg{k: 'L', lit: string(lit)})
		}
	}
	return out
}

// matchComp: does comp (no slashes) match name entirely (full), and at which
// `**` can name end so that the `**` goes on into the next path component.
func matchComp(comp []seg, name string) (full bool, cross []int) {
	if len(name) > 0 && name[0] == '.' && len(comp) > 0 && comp[0].k == 'W' && !comp[0].hidden {
		return false, nil
	}
	seen := map[[2]int]bool{}
	crossSet := map[int]bool{}
	var m func(i, pos int)
	m = func(i, pos int) {
		if seen[[2]int{i, pos}] {
			return
		}
		seen[[2]int{i, pos}] = true
		if i == len(comp) {
			if pos == len(name) {
				full = true
			}
			return
		}
		s := comp[i]
		switch {
		case s.k == 'L':
			if strings.HasPrefix(name[pos:], s.lit) {
				m(i+1, pos+len(s.lit))
			}
		case s.wt == 'q':
			if pos < len(name) {
				r, n := utf8.DecodeRuneInString(name[pos:])
				if r != '/' && s.accepts(r) {
					m(i+1, pos+n)
				}
			}
		default:
			m(i+1, pos)
			if pos < len(name) {
				r, n := utf8.DecodeRuneInString(name[pos:])
				if r != '/' && s.accepts(r) {
					m(i, pos+n)
				}
			} else if s.wt == 'd' {
				crossSet[i] = true
			}
		}
	}
	m(0, 0)
	for k := range crossSet {
		cross = append(cross, k)
	}
	sort.Ints(cross)
	return
}

func lexists(p string) bool {
	_, err := os.Lstat(p)
	return err == nil
}

func refExpand(segs []seg, dir string, out map[string]bool, depth int) {
	if depth > 64 {
		panic("refExpand: too deep")
	}
	if len(segs) == 0 {
		if dir != "" && lexists(dir) {
			out[dir] = true
		}
		return
	}
	i := 0
	for i < len(segs) && segs[i].k != 'S' {
		i++
	}
	comp, hasSlash := segs[:i], i < len(segs)
	var after []seg
	if hasSlash {
		after = segs[i+1:]
	}
	if len(comp) == 1 && comp[0].k == 'L' {
		// a literal component is followed as a path (also . and .. and symbolic links)
		if hasSlash {
			d := dir + comp[0].lit + "/"
			if fi, err := os.Lstat(d); err == nil && fi.IsDir() {
				refExpand(after, d, out, depth+1)
			}
		} else if lexists(dir + comp[0].lit) {
			out[dir+comp[0].lit] = true
		}
		return
	}
	rd := dir
	if rd == "" {
		rd = "."
	}
	ents, err := os.ReadDir(rd)
	if err != nil {
		return
	}
	for _, e := range ents {
		name := e.Name()
		full, cross := matchComp(comp, name)
		if full {
			if hasSlash {
				if e.IsDir() { // wildcards descend into real directories only
					refExpand(after, dir+name+"/", out, depth+1)
				}
			} else if lexists(dir + name) {
				out[dir+name] = true
			}
		}
		for _, k := range cross {
			if e.IsDir() {
				rest := append([]seg{}, comp[k:]...)
				if hasSlash {
					rest = append(rest, seg{k: 'S'})
					rest = append(rest, after...)
				}
				refExpand(rest, dir+name+"/", out, depth+1)
			}
		}
	}
}

// greedyClass: a matcher-restricted * or ** that has an earlier * or ** in the
// same path element (the class of the recorded finding).
func restrictedStarAfterStar(segs []seg) bool {
	star := false
	for _, s := range segs {
		switch {
		case s.k == 'S':
			star = false
		case s.k == 'W' && s.wt != 'q':
			if star && len(s.ms) > 0 {
				return true
			}
			star = true
		}
	}
	return false
}

// invalidLiteralAfterStar: a literal that is not valid UTF-8 with an earlier * or
// ** in the same path element (matching leaves the rune grid; second finding).
func invalidLiteralAfterStar(segs []seg) bool {
	star := false
	for _, s := range segs {
		switch {
		case s.k == 'S':
			star = false
		case s.k == 'W' && s.wt != 'q':
			star = true
		case s.k == 'L' && star && !utf8.ValidString(s.lit):
			return true
		}
	}
	return false
}

func wellFormed(segs []seg) bool {
	for i, s := range segs {
		if s.k == 'L' && (s.lit == "" || strings.Contains(s.lit, "/")) {
			return false
		}
		if s.k == 'S' && i > 0 && segs[i-1].k == 'S' {
			return false
		}
	}
	return true
}

func oracle(sti any, f []string, out string) (string, string) {
	st := sti.(*state)
	if out == "PANIC" || out == "TIMEOUT" {
		return "crash", out
	}
	if strings.HasPrefix(out, "SKIPPED") {
		return "", ""
	}
	switch f[0] {
	case "parse":
		src := common.Unhex(f[1])
		if strings.HasSuffix(src, "\\") && !strings.HasSuffix(src, "\\\\") {
			// a trailing lone backslash is not pattern syntax; only totality is required
			return "", ""
		}
		if want := encPlain(refParse(src)); want != out {
			return "parse", fmt.Sprintf("Parse(%q) = %s, want %s", src, out, want)
		}
		// C23_parse_print on the real segments: valid UTF-8 without escapes prints back as
		// the string with runs of / and of two or more * squeezed
		if utf8.ValidString(src) && !strings.Contains(src, "\\") {
			if got, want := printPlain(out), squeezeRuns(src); got != want {
				return "parse-print", fmt.Sprintf("Parse(%q) prints back as %q, want %q", src, got, want)
			}
		}
		return "", ""
	case "glob":
		mode, tree, cwd, pat := f[1], f[2], common.Unhex(f[4]), f[5]
		var segs []seg
		if mode == "P" {
			segs = refParse(common.Unhex(pat[1:]))
		} else {
			segs = decSegs(pat)
		}
		if !wellFormed(segs) {
			return "", "" // outside the property's patterns (empty literal, slash inside a literal, // from concatenation)
		}
		st.materialise(tree)
		var class, detail string
		st.inTree(cwd, func() string {
			class, detail = st.judge(mode, segs, decMods(f[6]), out)
			return ""
		})
		return class, detail
	}
	return "", ""
}

// printPlain writes segments in showGlobSegs form back as a pattern string.
func printPlain(enc string) string {
	if enc == "-" {
		return ""
	}
	var sb strings.Builder
	for _, p := range strings.Split(enc, ",") {
		switch p[0] {
		case 'L':
			sb.WriteString(common.Unhex(p[1:]))
		case 'S':
			sb.WriteByte('/')
		case 'Q':
			sb.WriteByte('?')
		case 'A':
			sb.WriteByte('*')
		case 'D':
			sb.WriteString("**")
		}
	}
	return sb.String()
}

// squeezeRuns: every run of '/' becomes one, every run of two or more '*' becomes "**".
func squeezeRuns(s string) string {
	var sb strings.Builder
	for i := 0; i < len(s); {
		j := i
		for j < len(s) && s[j] == s[i] {
			j++
		}
		switch {
		case s[i] == '/':
			sb.WriteByte('/')
		case s[i] == '*' && j-i >= 2:
			sb.WriteString("**")
		default:
			sb.WriteString(s[i:j])
		}
		i = j
	}
	return sb.String()
}

func encPlain(segs []seg) string {
	if len(segs) == 0 {
		return "-"
	}
	var parts []string
	for _, s := range segs {
		switch {
		case s.k == 'L':
			parts = append(parts, "L"+common.Hex(s.lit))
		case s.k == 'S':
			parts = append(parts, "S")
		case s.wt == 'q':
			parts = append(parts, "Q")
		case s.wt == 's':
			parts = append(parts, "A")
		default:
			parts = append(parts, "D")
		}
	}
	return strings.Join(parts, ",")
}

func (st *state) judge(mode string, segs []seg, m mods, out string) (string, string) {
	real := realSegs(segs, st.root)
	want := map[string]bool{}
	dir := ""
	rs := real
	if len(rs) > 0 && rs[0].k == 'S' {
		dir, rs = "/", rs[1:]
	}
	refExpand(rs, dir, want, 0)
	// what the implementation reported
	var got []string
	gotKind := map[string]byte{}
	if mode == "E" {
		if strings.HasPrefix(out, "EXC other") || strings.HasPrefix(out, "EXC non-string") {
			return "unexpected-exception", out
		}
		// expected after but: and type:
		exp := map[string]bool{}
		for p := range want {
			up := st.unreal(p)
			skip := false
			for _, b := range m.buts {
				if b == up {
					skip = true
				}
			}
			if skip {
				continue
			}
			fi, err := os.Lstat(p)
			if err != nil {
				continue
			}
			switch m.typ {
			case "dir":
				if !fi.IsDir() {
					continue
				}
			case "regular":
				// "Symbolic links are considered to be regular files."
				if !(fi.Mode().IsRegular() || fi.Mode()&os.ModeSymlink != 0) {
					continue
				}
			}
			exp[p] = true
		}
		if out == "EXC nomatch" {
			if m.nomatchOK {
				return "nomatch-ok-ignored", "exception despite nomatch-ok"
			}
			if len(exp) > 0 {
				return st.missingClass(segs, m, exp, nil), fmt.Sprintf("no-match exception, but %d paths match, e.g. %q", len(exp), anyKey(st, exp))
			}
			return "", ""
		}
		if !strings.HasPrefix(out, "OK ") {
			return "unexpected-output", out
		}
		if out != "OK -" {
			for _, h := range strings.Split(out[3:], ",") {
				got = append(got, common.Unhex(h))
			}
		}
		if len(got) == 0 && !m.nomatchOK {
			return "nomatch-no-exception", "empty expansion without nomatch-ok raised no exception"
		}
		want = exp
	} else if out != "-" {
		for _, h := range strings.Split(out, ",") {
			f := strings.SplitN(h, ":", 2)
			p := common.Unhex(f[0])
			got = append(got, p)
			gotKind[p] = f[1][0]
		}
	}
	seen := map[string]bool{}
	for _, p := range got {
		if seen[p] {
			return "duplicate-path", fmt.Sprintf("%q reported more than once", p)
		}
		seen[p] = true
	}
	wantU := map[string]bool{}
	for p := range want {
		wantU[st.unreal(p)] = true
	}
	for _, p := range got {
		if !wantU[p] {
			if mode == "E" && m.typ != "" {
				return "type-filter", fmt.Sprintf("%q reported but is excluded by type:%s (or does not match)", p, m.typ)
			}
			return "extra-path", fmt.Sprintf("%q reported but does not match", p)
		}
	}
	for p := range wantU {
		if !seen[p] {
			return st.missingClass(segs, m, want, seen), fmt.Sprintf("%q matches but is not reported", p)
		}
	}
	for p, k := range gotKind {
		rp := p
		if strings.HasPrefix(p, absPH) {
			rp = st.root + p[len(absPH):]
		}
		if fi, err := os.Lstat(rp); err != nil || kindOf(fi.Mode()) != k {
			return "wrong-info", fmt.Sprintf("%q reported with kind %c", p, k)
		}
	}
	return "", ""
}

func anyKey(st *state, m map[string]bool) string {
	var ks []string
	for k := range m {
		ks = append(ks, st.unreal(k))
	}
	sort.Strings(ks)
	return ks[0]
}

// missingClass names why a matching path can be missing.  The real matcher is
// asked again without the modifiers: if it reports the path, the path was lost
// in doGlob's filters (a symbolic link under type:regular is its own class);
// otherwise in matching, where the recorded finding's class applies if the
// pattern is in it.
func (st *state) missingClass(segs []seg, m mods, want map[string]bool, seen map[string]bool) string {
	matched := map[string]bool{}
	glob.Pattern{Segments: toGlobSegs(realSegs(segs, st.root))}.Glob(func(pi glob.PathInfo) bool {
		matched[pi.Path] = true
		return true
	})
	for p := range want {
		if seen[st.unreal(p)] || matched[p] {
			continue
		}
		if restrictedStarAfterStar(segs) {
			return "restricted-star-after-star"
		}
		if invalidLiteralAfterStar(segs) {
			return "invalid-utf8-literal-after-star"
		}
		return "missing-path"
	}
	if m.typ == "regular" {
		onlyLinks := true
		for p := range want {
			if seen[st.unreal(p)] {
				continue
			}
			if fi, err := os.Lstat(p); err != nil || fi.Mode()&os.ModeSymlink == 0 {
				onlyLinks = false
			}
		}
		if onlyLinks {
			return "type-regular-symlink"
		}
	}
	return "filter-dropped-path"
}

// ---- generation ------------------------------------------------------------------------

var namePool = []string{
	"a", "b", "ab", "ba", "x", "xaxb", "xb", "axb", "a.b", ".a", ".b", "..a", ".ab", "a b", " a", "é", "世", "aé", "世a",
	"*", "a*", "?", "[a]", "a\\b", "a.go", "b.go", "foo.cc", ".x.conf", "ax.conf", "-", "~", "~a", "a\xffb", "\xe4\xb8",
	"A", "1", "a1", "b2", " ", "a'b", "a\"b", "...", "a.", "😀", "#a", "$a",
}

func randName(r *common.Rand) string {
	if r.Chance(3, 5) {
		return common.Pick(r, namePool)
	}
	alpha := []string{"a", "b", "x", ".", "é", "a", "b"}
	var sb strings.Builder
	for k := r.Range(1, 4); k > 0; k-- {
		sb.WriteString(common.Pick(r, alpha))
	}
	s := sb.String()
	if s == "." || s == ".." {
		return "a"
	}
	return s
}

type gtree struct {
	es   []entry
	dirs []string // paths of real directories, incl. "r"
}

func genTree(r *common.Rand) *gtree {
	t := &gtree{}
	t.es = append(t.es, entry{path: "r", kind: 'd'})
	t.dirs = append(t.dirs, "r")
	maxDepth := r.Range(1, 4)
	var links []string
	var build func(dir string, depth int)
	build = func(dir string, depth int) {
		n := r.Range(0, 5)
		if depth == 0 {
			n = r.Range(1, 7)
		}
		used := map[string]bool{}
		for i := 0; i < n; i++ {
			name := randName(r)
			if used[name] {
				continue
			}
			used[name] = true
			p := dir + "/" + name
			switch x := r.Intn(100); {
			case x < 38 && depth < maxDepth:
				t.es = append(t.es, entry{path: p, kind: 'd'})
				t.dirs = append(t.dirs, p)
				build(p, depth+1)
			case x < 78:
				t.es = append(t.es, entry{path: p, kind: 'f'})
			case x < 96:
				links = append(links, p)
			default:
				t.es = append(t.es, entry{path: p, kind: 'o'})
			}
		}
	}
	build("r", 0)
	// symbolic links, with targets chosen among what exists
	all := append([]entry{}, t.es...)
	for _, lp := range links {
		parent := lp[:strings.LastIndex(lp, "/")]
		var tgt string
		switch x := r.Intn(100); {
		case x < 55: // relative path to an existing entry (or another link)
			var cand string
			if r.Chance(1, 4) && len(links) > 1 {
				cand = common.Pick(r, links)
			} else {
				cand = common.Pick(r, all).path
			}
			tgt = relPath(parent, cand)
		case x < 70: // absolute
			tgt = absPH + "/" + common.Pick(r, all).path
		case x < 80:
			tgt = "nonexistent"
		case x < 86:
			tgt = lp[strings.LastIndex(lp, "/")+1:] // itself: a loop
		case x < 92:
			tgt = "."
		default:
			tgt = ".."
		}
		if r.Chance(1, 12) {
			tgt += "/"
		}
		t.es = append(t.es, entry{path: lp, kind: 'l', target: tgt})
	}
	sort.Slice(t.es, func(i, j int) bool { return t.es[i].path < t.es[j].path })
	return t
}

func relPath(fromDir, to string) string {
	a, b := strings.Split(fromDir, "/"), strings.Split(to, "/")
	i := 0
	for i < len(a) && i < len(b) && a[i] == b[i] {
		i++
	}
	var parts []string
	for k := i; k < len(a); k++ {
		parts = append(parts, "..")
	}
	parts = append(parts, b[i:]...)
	if len(parts) == 0 {
		return "."
	}
	return strings.Join(parts, "/")
}

func base(p string) string { return p[strings.LastIndex(p, "/")+1:] }
func depthOf(p string) int { return strings.Count(p, "/") } // "r" = 0

// universe: every rune the matcher can meet in a name of the tree
func universe(t *gtree) []rune {
	set := map[rune]bool{}
	for _, e := range t.es {
		n := base(e.path)
		for i := 0; i < len(n); i++ {
			r, _ := utf8.DecodeRuneInString(n[i:])
			set[r] = true
		}
	}
	var rs []rune
	for r := range set {
		rs = append(rs, r)
	}
	sort.Slice(rs, func(i, j int) bool { return rs[i] < rs[j] })
	return rs
}

func genMatchers(r *common.Rand, swallowed []rune, univ []rune, allowClass bool) []matcher {
	var ms []matcher
	for k := r.Range(1, 2); k > 0; k-- {
		switch x := r.Intn(10); {
		case x < 6:
			var set []rune
			if r.Chance(4, 5) {
				set = append(set, swallowed...)
			}
			for j := r.Range(0, 2); j > 0; j-- {
				set = append(set, common.Pick(r, univ))
			}
			if len(set) == 0 {
				set = []rune{'a'}
			}
			ms = append(ms, matcher{k: 's', set: string(set)})
		case x < 8 || !allowClass:
			a, b := common.Pick(r, univ), common.Pick(r, univ)
			if a > b {
				a, b = b, a
			}
			if !utf8.ValidRune(a) || !utf8.ValidRune(b) {
				a, b = 'a', 'c'
			}
			ms = append(ms, matcher{k: 'r', from: a, to: b, incl: r.Bool()})
		default:
			c := common.Pick(r, classNames)
			var sat []rune
			for _, u := range univ {
				if classFns[c](u) {
					sat = append(sat, u)
				}
			}
			ms = append(ms, matcher{k: 'c', class: c, sat: string(sat)})
		}
	}
	return ms
}

// wildFromName turns a name into a pattern element that (usually) matches it.
func wildFromName(r *common.Rand, name string, univ []rune) []seg {
	var out []seg
	var lit []byte
	flush := func() {
		if len(lit) > 0 {
			out = append(out, seg{k: 'L', lit: string(lit)})
			lit = nil
		}
	}
	i := 0
	for i < len(name) {
		rn, n := utf8.DecodeRuneInString(name[i:])
		switch x := r.Intn(100); {
		case x < 50:
			lit = append(lit, name[i:i+n]...)
			if r.Chance(1, 10) {
				flush() // adjacent literals
			}
			i += n
		case x < 65:
			flush()
			s := seg{k: 'W', wt: 'q'}
			if r.Chance(1, 4) {
				s.ms = genMatchers(r, []rune{rn}, univ, true)
			}
			out = append(out, s)
			i += n
		default:
			flush()
			s := seg{k: 'W', wt: 's'}
			if x >= 90 {
				s.wt = 'd'
			}
			var sw []rune
			for k := r.Range(0, 3); k > 0 && i < len(name); k-- {
				rn, n = utf8.DecodeRuneInString(name[i:])
				sw = append(sw, rn)
				i += n
			}
			if r.Chance(3, 10) {
				s.ms = genMatchers(r, sw, univ, true)
			}
			out = append(out, s)
		}
	}
	flush()
	if r.Chance(1, 6) {
		s := seg{k: 'W', wt: 's'}
		if r.Chance(1, 3) {
			s.wt = 'd'
		}
		if r.Chance(1, 4) {
			s.ms = genMatchers(r, nil, univ, true)
		}
		pos := r.Intn(len(out) + 1)
		out = append(out[:pos], append([]seg{s}, out[pos:]...)...)
	}
	for k := range out {
		if out[k].k == 'W' {
			if r.Chance(1, 5) || (k == 0 && strings.HasPrefix(name, ".") && r.Chance(3, 5)) {
				out[k].hidden = true
			}
		}
	}
	return out
}

func genPattern(r *common.Rand, t *gtree, cwd string, univ []rune) []seg {
	var segs []seg
	if r.Chance(1, 8) { // absolute
		segs = append(segs, seg{k: 'S'}, seg{k: 'L', lit: absName}, seg{k: 'S'})
		for _, c := range strings.Split(cwd, "/") {
			segs = append(segs, seg{k: 'L', lit: c}, seg{k: 'S'})
		}
	}
	linkNames := map[string]bool{}
	for _, e := range t.es {
		if e.kind == 'l' {
			linkNames[base(e.path)] = true
		}
	}
	level := depthOf(cwd)
	minDepth := level
	// cur follows one concrete walk through the real tree ("" = lost), so that
	// most patterns match something.
	cur := cwd
	kindAt := map[string]byte{}
	for _, e := range t.es {
		kindAt[e.path] = e.kind
	}
	wantDir := false
	pick := func() string {
		var cands, dirs []string
		for _, e := range t.es {
			if cur != "" && strings.HasPrefix(e.path, cur+"/") && depthOf(e.path) == depthOf(cur)+1 {
				cands = append(cands, base(e.path))
				if e.kind == 'd' {
					dirs = append(dirs, base(e.path))
				}
			}
		}
		if wantDir && len(dirs) > 0 && r.Chance(4, 5) {
			cands = dirs
		}
		if len(cands) == 0 || r.Chance(1, 8) {
			cur = ""
			if len(t.es) > 1 {
				return base(t.es[1+r.Intn(len(t.es)-1)].path)
			}
			return "a"
		}
		n := common.Pick(r, cands)
		if kindAt[cur+"/"+n] == 'd' {
			cur = cur + "/" + n
		} else {
			cur = ""
		}
		return n
	}
	ncomp := r.Range(1, 4)
	hasChildren := func() bool {
		for _, e := range t.es {
			if cur != "" && strings.HasPrefix(e.path, cur+"/") {
				return true
			}
		}
		return false
	}
	for i := 0; i < ncomp; i++ {
		var comp []seg
		wantDir = i < ncomp-1
		if i > 0 {
			if !hasChildren() && r.Chance(5, 6) {
				break // nothing below: a longer pattern would rarely match
			}
			segs = append(segs, seg{k: 'S'})
		}
		switch x := r.Intn(100); {
		case x < 14: // existing name, literally
			n := pick()
			comp = []seg{{k: 'L', lit: n}}
			if linkNames[n] {
				minDepth = -1
			} else {
				minDepth++
			}
			level++
		case x < 19:
			if minDepth >= 0 && r.Bool() {
				comp = []seg{{k: 'L', lit: ".."}}
				minDepth--
				level--
				if cur != "" && strings.Contains(cur, "/") {
					cur = cur[:strings.LastIndex(cur, "/")]
				} else {
					cur = ""
				}
			} else {
				comp = []seg{{k: 'L', lit: "."}}
			}
		case x < 22:
			comp = []seg{{k: 'L', lit: "nonexistent"}}
			minDepth++
			level++
			cur = ""
		case x < 40: // a bare wildcard
			s := seg{k: 'W', wt: "sdq"[r.Intn(3)], hidden: r.Chance(1, 3)}
			if r.Chance(1, 5) {
				s.ms = genMatchers(r, nil, univ, true)
			}
			comp = []seg{s}
			if r.Chance(1, 4) {
				comp = append(comp, seg{k: 'L', lit: pick()})
				if r.Chance(1, 2) {
					comp = append(comp, seg{k: 'W', wt: "sd"[r.Intn(2)]})
				}
			} else if s.wt != 'd' || r.Bool() {
				pick() // the walk goes on through some child
			}
			minDepth++
			level++
		default:
			comp = wildFromName(r, pick(), univ)
			minDepth++
			level++
		}
		segs = append(segs, comp...)
	}
	if r.Chance(1, 7) {
		segs = append(segs, seg{k: 'S'})
	}
	return segs
}

func mergeLeadingLiterals(segs []seg) []seg {
	var out []seg
	i := 0
	for ; i < len(segs) && segs[i].k != 'W'; i++ {
		if n := len(out); n > 0 && out[n-1].k == 'L' && segs[i].k == 'L' {
			out[n-1].lit += segs[i].lit
		} else {
			out = append(out, segs[i])
		}
	}
	return append(out, segs[i:]...)
}

func stripMatchers(segs []seg) []seg {
	out := make([]seg, len(segs))
	for i, s := range segs {
		s.ms, s.hidden = nil, false
		out[i] = s
	}
	return out
}

// renderPattern writes the pattern in glob.Parse syntax (ok=false if it cannot be written).
func renderPattern(segs []seg) (string, bool) {
	var sb strings.Builder
	prev := byte(0)
	for _, s := range segs {
		switch s.k {
		case 'L':
			if !utf8.ValidString(s.lit) || prev == 'L' {
				return "", false
			}
			for _, r := range s.lit {
				if r == '*' || r == '?' || r == '\\' {
					sb.WriteByte('\\')
				}
				sb.WriteRune(r)
			}
		case 'S':
			if prev == 'S' {
				return "", false
			}
			sb.WriteByte('/')
		default:
			if prev == '*' && s.wt != 'q' {
				return "", false
			}
			switch s.wt {
			case 'q':
				sb.WriteByte('?')
			case 's':
				sb.WriteByte('*')
			default:
				sb.WriteString("**")
			}
		}
		prev = s.k
		if s.k == 'W' && s.wt != 'q' {
			prev = '*'
		}
	}
	return sb.String(), true
}

func features(mode string, segs []seg, m mods, out string) string {
	nss, hidden, restricted, q, star := 0, false, false, false, false
	dotdot, trailing, abs := false, false, false
	relink := false // a literal component `up` or `..` after a `**`: the walk re-descends (depth = pattern × tree)
	for i, s := range segs {
		if s.k == 'L' && (s.lit == "up" || s.lit == "..") && nss > 0 {
			relink = true
		}
		switch {
		case s.k == 'W':
			if s.wt == 'd' {
				nss++
			}
			if s.wt == 'q' {
				q = true
			}
			if s.wt == 's' {
				star = true
			}
			hidden = hidden || s.hidden
			restricted = restricted || len(s.ms) > 0
		case s.k == 'L' && (s.lit == ".." || s.lit == "."):
			dotdot = true
		case s.k == 'L' && s.lit == absName && i == 1:
			abs = true
		case s.k == 'S' && i == len(segs)-1:
			trailing = true
		}
	}
	empty := out == "-" || out == "OK -"
	switch {
	case out == "EXC nomatch":
		return mode + ":nomatch-exception"
	case mode == "E" && empty:
		return mode + ":nomatch-ok-empty"
	case restrictedStarAfterStar(segs):
		return mode + ":restricted-star-after-star"
	case invalidLiteralAfterStar(segs):
		return mode + ":invalid-utf8-literal-after-star"
	case nss >= 2 && relink:
		return mode + ":starstar-again-after-link-or-dotdot"
	case nss >= 2:
		return mode + ":several-starstar"
	case len(m.buts) > 0:
		return mode + ":but"
	case m.typ != "":
		return mode + ":type-" + m.typ
	case dotdot:
		return mode + ":dot-or-dotdot"
	case abs:
		return mode + ":absolute"
	case trailing:
		return mode + ":trailing-slash"
	case nss == 1:
		return mode + ":starstar"
	case restricted:
		return mode + ":restricted"
	case hidden:
		return mode + ":match-hidden"
	case empty:
		return mode + ":no-result"
	case q:
		return mode + ":question"
	case star:
		return mode + ":star"
	}
	return mode + ":literal-only"
}

func run(c *common.Ctx) error {
	s := &common.Std{
		Rule: "random trees (depth ≤4; names with dots, leading dots, spaces, unicode, invalid UTF-8, glob metacharacters; files, directories, fifos, " +
			"symbolic links to files/directories/nothing/themselves, relative and absolute) × random patterns derived from their names " +
			"(?, *, **, several **, matcher-restricted wildcards, match-hidden, literal ., .., links, trailing slash, absolute) through glob.Pattern.Glob (G), " +
			"glob.Glob on the pattern string (P) and elvish wildcard expressions with nomatch-ok/but:/type: (E); plus a flat directory with every name " +
			"over {a,b,.} × every slash-free pattern of bounded length over {a,b,.,?,?[set:a],*,*[set:b],*[match-hidden],**}; plus glob.Parse on short strings; " +
			"plus chains of 3–9 directories with a link back up × `**/up/` or `**/../` repeated 1–3 times (recursion depth = pattern length × tree depth). " +
			"non-trivial = everything except parse ops of ≤1 byte; distinct by op line",
		ExhaustiveNote: "element matching: all names over {a,b,.} of length ≤4 × all slash-free patterns of ≤3 (quick) / ≤4 (thorough) segments; glob.Parse: all strings of ≤4 symbols over {a,*,?,/,\\}",
		NewState:       newState,
		Timeout:        8 * time.Second,
		Gen:            gen,
		Impl:           impl,
		Oracle:         oracle,
		Tag: func(f []string, out string) string {
			switch f[0] {
			case "parse":
				if len(f[1]) <= 2 {
					return ""
				}
				if strings.Contains(common.Unhex(f[1]), "\\") {
					return "parse:escape"
				}
				return "parse"
			case "glob":
				var segs []seg
				if f[1] == "P" {
					segs = refParse(common.Unhex(f[5][1:]))
				} else {
					segs = decSegs(f[5])
				}
				return features(f[1], segs, decMods(f[6]), out)
			}
			return ""
		},
	}
	return s.Run(c)
}

func gen(c *common.Ctx, emit func(...string)) {
	r := c.Rand
	absHex := common.Hex(absPH)
	// 1. glob.Parse
	syms := []string{"a", "*", "?", "/", "\\"}
	var rec func(p string, n int)
	rec = func(p string, n int) {
		emit("parse", common.Hex(p))
		if n == 0 {
			return
		}
		for _, s := range syms {
			rec(p+s, n-1)
		}
	}
	rec("", 4)
	alpha := []string{"a", "b", "*", "*", "?", "/", "\\", "é", "\xff", ".", "世", "\xe4\xb8", "[", "~"}
	for i := c.Scale(1500, 60000); i > 0; i-- {
		var sb strings.Builder
		for k := r.Range(0, 10); k > 0; k-- {
			sb.WriteString(common.Pick(r, alpha))
		}
		emit("parse", common.Hex(sb.String()))
	}
	// 2. element matching, exhaustively on a small domain
	flat := &gtree{es: []entry{{path: "r", kind: 'd'}}}
	var names func(p string, n int)
	names = func(p string, n int) {
		if p != "" && p != "." && p != ".." {
			flat.es = append(flat.es, entry{path: "r/" + p, kind: 'f'})
		}
		if n == 0 {
			return
		}
		for _, s := range []string{"a", "b", "."} {
			names(p+s, n-1)
		}
	}
	names("", 4)
	sort.Slice(flat.es, func(i, j int) bool { return flat.es[i].path < flat.es[j].path })
	flatTree := encTree(flat.es)
	atoms := []seg{
		{k: 'L', lit: "a"}, {k: 'L', lit: "b"}, {k: 'L', lit: "."},
		{k: 'W', wt: 'q'}, {k: 'W', wt: 'q', ms: []matcher{{k: 's', set: "a"}}},
		{k: 'W', wt: 's'}, {k: 'W', wt: 's', ms: []matcher{{k: 's', set: "b"}}},
		{k: 'W', wt: 's', hidden: true}, {k: 'W', wt: 'd'},
	}
	var pats func(p []seg, n int)
	pats = func(p []seg, n int) {
		if len(p) > 0 {
			emit("glob", "G", flatTree, absHex, common.Hex("r"), encSegs(p), "0.-.-")
		}
		if n == 0 {
			return
		}
		for _, a := range atoms {
			pats(append(append([]seg{}, p...), a), n-1)
		}
	}
	pats(nil, c.Scale(3, 4))
	// 3. random trees × random patterns
	ntrees := c.Scale(1500, 40000)
	for i := 0; i < ntrees; i++ {
		t := genTree(r)
		tree := encTree(t.es)
		univ := universe(t)
		if len(univ) == 0 {
			univ = []rune{'a'}
		}
		for j := 0; j < 20; j++ {
			cwd := "r"
			if r.Chance(1, 6) {
				cwd = common.Pick(r, t.dirs)
			}
			segs := genPattern(r, t, cwd, univ)
			mode := "G"
			switch x := r.Intn(100); {
			case x < 40 && nWild(segs) > 0:
				mode = "E"
			case x < 55:
				mode = "P"
			}
			m := mods{}
			pat := ""
			switch mode {
			case "P":
				s, ok := renderPattern(stripMatchers(segs))
				if !ok {
					mode, pat = "G", encSegs(segs)
				} else {
					pat = "P" + common.Hex(s)
				}
			case "E":
				// strings before the first wildcard are concatenated before they meet it
				segs = mergeLeadingLiterals(segs)
				m.nomatchOK = r.Chance(3, 10)
				switch x := r.Intn(100); {
				case x < 15:
					m.typ = "dir"
				case x < 30:
					m.typ = "regular"
				}
				for k := 0; k < 2; k++ {
					if r.Chance(1, 6) && len(t.es) > 1 {
						e := t.es[1+r.Intn(len(t.es)-1)].path
						b := strings.TrimPrefix(e, cwd+"/")
						if len(segs) > 1 && segs[0].k == 'S' {
							b = absPH + "/" + e
						}
						if r.Chance(1, 8) {
							b += "/"
						}
						m.buts = append(m.buts, b)
					}
				}
				pat = encSegs(segs)
			default:
				pat = encSegs(segs)
			}
			emit("glob", mode, tree, absHex, common.Hex(cwd), pat, encMods(m))
		}
	}
	// 4. deep chains with a link back up: the recursion depth of glob is pattern length × tree depth
	// (C23_glob_fuel_sufficient; the round-1 driver fuel was additive and too small for these)
	for i := c.Scale(12, 200); i > 0; i-- {
		d := r.Range(3, 9)
		t := &gtree{es: []entry{{path: "r", kind: 'd'}}}
		p := "r"
		for j := 0; j < d; j++ {
			p += "/" + common.Pick(r, []string{"a", "b"})
			t.es = append(t.es, entry{path: p, kind: 'd'})
		}
		up := r.Range(1, d)
		target := strings.TrimSuffix(strings.Repeat("../", up), "/")
		if r.Chance(1, 4) {
			target = absPH + "/r"
		}
		t.es = append(t.es, entry{path: p + "/up", kind: 'l', target: target})
		var segs []seg
		for k := r.Range(1, 3); k > 0; k-- {
			segs = append(segs, seg{k: 'W', wt: 'd'}, seg{k: 'S'})
			if r.Chance(1, 3) {
				// one level only: `**/` is at least one level below the working directory, so the
				// walk stays inside the tree (the generator must never leave it)
				segs = append(segs, seg{k: 'L', lit: ".."}, seg{k: 'S'})
			} else {
				segs = append(segs, seg{k: 'L', lit: "up"}, seg{k: 'S'})
			}
		}
		segs = append(segs, common.Pick(r, []seg{{k: 'W', wt: 'd'}, {k: 'W', wt: 's'}, {k: 'L', lit: "a"}}))
		mode, pat := common.Pick(r, []string{"G", "E", "P"}), encSegs(segs)
		if mode == "P" {
			if str, ok := renderPattern(segs); ok {
				pat = "P" + common.Hex(str)
			} else {
				mode = "G"
			}
		}
		emit("glob", mode, encTree(t.es), absHex, common.Hex("r"), pat, "0.-.-")
	}
}
