package c02

import (
	"os"
	"path/filepath"
	"strconv"
	"strings"
	"unicode/utf8"

	"src.elv.sh/pkg/parse"
	"verifharness/common"
)

// ---- grammar-directed generator of (mostly) VALID programs ---------------------------
//
// Every production below is meant to yield text the parser accepts; the real
// parser is the judge (isValid) and decides which ops fall under the prefix
// claim.  A small rate of deliberately invalid pieces keeps the other two
// clauses of the property (flag ⇔ position, Enter ⇔ flag) exercised on
// programs with ordinary errors.

type g struct {
	r   *common.Rand
	bad bool // allow deliberately invalid pieces
}

func (g *g) pick(xs ...string) string { return xs[g.r.Intn(len(xs))] }

var words = []string{"a", "b", "echo", "put", "x", "foo", "a.b", "/usr/bin", "+", "%", "!", "@", "a=b", "1", "23", "-", "_x", "k:v", "é", "世界", "😀",
	"a~", "a,b", "\\", "a\\b", "if", "xéy", "<", ">", "*", "^", "a^", "<>", "e:ls", "--long", "-s"}

func (g *g) inlineWS() string {
	switch g.r.Intn(14) {
	case 0:
		return "\t"
	case 1:
		return "  "
	case 2:
		return " # cé \n" // comment runs to the end of the line: only where a newline may follow
	case 3:
		return " ^\n"
	case 4:
		return "^\r\n "
	case 5:
		return " ^\r"
	case 6:
		return " ^\n  ^\n "
	}
	return " "
}

// inline whitespace that cannot contain a newline terminating a comment
func (g *g) sp() string {
	switch g.r.Intn(10) {
	case 0:
		return "\t"
	case 1:
		return "  "
	case 2:
		return " ^\n"
	case 3:
		return "^\r\n "
	case 4:
		return " ^\r "
	}
	return " "
}

func (g *g) optSp() string {
	if g.r.Chance(1, 2) {
		return ""
	}
	return g.sp()
}

func (g *g) wsnl() string {
	switch g.r.Intn(9) {
	case 0:
		return "\n"
	case 1:
		return " \n "
	case 2:
		return "\r\n"
	case 3:
		return " "
	case 4:
		return "# x\n"
	case 5:
		return " # 世 ' \" ( [ {\n  "
	}
	return g.sp()
}

func (g *g) wsnlOpt() string {
	if g.r.Chance(3, 4) {
		return ""
	}
	return g.wsnl()
}

func (g *g) seps() string {
	var sb strings.Builder
	for k := g.r.Intn(3); k > 0; k-- {
		sb.WriteString(g.pick("\n", ";", "\r", " ", "\t", "# cmt\n", "\r\n", "; ", " ^\n", "#\n"))
	}
	return sb.String()
}

func (g *g) chunk(d int) string {
	var sb strings.Builder
	sb.WriteString(g.seps())
	n := g.r.Intn(3)
	if d <= 0 {
		n = g.r.Intn(2)
	}
	for i := 0; i < n; i++ {
		sb.WriteString(g.pipeline(d))
		sb.WriteString(g.pick("\n", ";", "\r\n", " ;", "\n\n", " # c\n", "\r"))
		sb.WriteString(g.seps())
	}
	if g.r.Chance(2, 3) {
		sb.WriteString(g.pipeline(d))
		sb.WriteString(g.optSp())
		if g.r.Chance(1, 12) {
			sb.WriteString("# trailing comment")
		}
	}
	return sb.String()
}

func (g *g) pipeline(d int) string {
	var sb strings.Builder
	sb.WriteString(g.form(d))
	for g.r.Chance(1, 4) {
		sb.WriteString(g.optSp())
		sb.WriteString("|")
		sb.WriteString(g.wsnlOpt())
		sb.WriteString(g.form(d))
	}
	if g.r.Chance(1, 8) {
		sb.WriteString(g.optSp() + "&" + g.optSp())
	}
	return sb.String()
}

func (g *g) form(d int) string {
	var sb strings.Builder
	sb.WriteString(g.compound(d, 1))
	for k := g.r.Intn(4); k > 0; k-- {
		sb.WriteString(g.sp())
		switch g.r.Intn(8) {
		case 0:
			sb.WriteString("&" + g.compound(d-1, 2) + "=" + g.wsnlOpt() + g.compound(d-1, 0))
		case 1:
			sb.WriteString("&" + g.compound(d-1, 2))
		case 2, 3:
			sb.WriteString(g.redir(d))
		default:
			sb.WriteString(g.compound(d-1, 0))
		}
	}
	return sb.String()
}

func (g *g) redir(d int) string {
	left := ""
	if g.r.Chance(1, 2) {
		left = g.pick("2", "1", "0", "$fd", "'2'", "a", "~", "(x)")
	}
	sign := g.pick("<", ">", ">>", "<>", ">", "<")
	if g.bad && g.r.Chance(1, 8) {
		sign = g.pick("><", "<<", ">>>")
	}
	if g.r.Chance(1, 3) {
		return left + sign + g.optSp() + "&" + g.pick("-", "1", "2", "stderr", "$fd")
	}
	right := g.compound(d-1, 0)
	if g.bad && g.r.Chance(1, 8) {
		right = ""
	}
	return left + sign + g.optSp() + right
}

func (g *g) compound(d, ctx int) string {
	var sb strings.Builder
	if g.r.Chance(1, 12) {
		sb.WriteString("~")
	}
	n := 1
	if g.r.Chance(1, 4) {
		n += g.r.Intn(3)
	}
	for i := 0; i < n; i++ {
		sb.WriteString(g.indexing(d, ctx))
	}
	return sb.String()
}

func (g *g) indexing(d, ctx int) string {
	s := g.primary(d, ctx)
	for d > 0 && g.r.Chance(1, 6) {
		s += "[" + g.array(d-1) + "]"
	}
	return s
}

func (g *g) array(d int) string {
	var sb strings.Builder
	sb.WriteString(g.wsnlOpt())
	for k := g.r.Intn(3); k > 0; k-- {
		sb.WriteString(g.compound(d, 0))
		sb.WriteString(g.wsnl())
	}
	return sb.String()
}

func (g *g) bare(ctx int) string {
	w := g.pick(words...)
	switch ctx {
	case 0, 2, 3: // <>*^ are not bareword characters outside command position
		if strings.ContainsAny(w, "<>*^") {
			return "w"
		}
	}
	if ctx == 2 && strings.Contains(w, "=") {
		return "k"
	}
	if ctx == 3 && strings.Contains(w, ",") {
		return "e"
	}
	if ctx == 1 && strings.ContainsAny(w, "<>") { // a command name made of redirection signs
		return "c"
	}
	return w
}

func (g *g) sq() string {
	return "'" + g.pick("", "a", "it''s", "é 世", "a\nb", "$x", "\\", "\"", "''", "# no comment", "a ^\n b", "(", "{ |x|", "''''") + "'"
}

func (g *g) dq() string {
	var sb strings.Builder
	sb.WriteString("\"")
	for k := g.r.Intn(4); k > 0; k-- {
		sb.WriteString(g.pick("a", "é", " ", "\\n", "\\t", "\\\\", "\\\"", "\\e", "\\a", "\\x41", "\\xff", "\\u00e9", "\\u4e16", "\\U0001F600", "\\U00110000",
			// valid code points whose first seven hex digits spell a surrogate
			"\\U000D8000", "\\U000DBFFF", "\\U000DC000", "\\U000DFFFF", "\\U0010FFFF", "\\uFFFF",
			"\\UFFFFFFFF", "\\uD800", "\\c?", "\\cA", "\\^[", "\\c_", "\\101", "\\377", "\\000", "\\141", "'", "$", "\n", "世", "#", "^\n", "😀", "\\^@", "\\c\\"))
	}
	if g.bad && g.r.Chance(1, 6) {
		sb.WriteString(g.pick("\\400", "\\777", "\\q", "\\xg1", "\\c!", "\\u12x4", "\\18"))
	}
	sb.WriteString("\"")
	return sb.String()
}

func (g *g) primary(d, ctx int) string {
	k := g.r.Intn(20)
	if d <= 0 && k >= 12 {
		k = g.r.Intn(12)
	}
	switch k {
	case 0, 1, 2, 3, 4:
		return g.bare(ctx)
	case 5:
		return g.sq()
	case 6:
		return g.dq()
	case 7:
		return "$" + g.pick("x", "@args", "a:b", "é", "-", "_", "x~", "1", "世界", "pwd", "e:HOME", "@", "@é")
	case 8:
		return "$" + g.pick(g.sq(), g.dq())
	case 9:
		if ctx == 1 {
			return g.pick("?", "??")
		}
		return g.pick("*", "**", "?", "??", "***", "*?")
	case 10:
		return g.bare(ctx)
	case 11:
		return g.pick("[]", "[&]", "[ ]", "[& ]", "{}", "()", "?()", "[\n]", "( )", "{ }", "{\n}")
	case 12:
		return "(" + g.chunk(d-1) + ")"
	case 13:
		return "?(" + g.chunk(d-1) + ")"
	case 14: // list
		var sb strings.Builder
		sb.WriteString("[" + g.wsnlOpt())
		for k := g.r.Intn(3); k > 0; k-- {
			sb.WriteString(g.compound(d-1, 0) + g.wsnl())
		}
		sb.WriteString("]")
		return sb.String()
	case 15: // map
		var sb strings.Builder
		sb.WriteString("[" + g.wsnlOpt())
		for k := 1 + g.r.Intn(2); k > 0; k-- {
			sb.WriteString("&" + g.compound(d-1, 2) + "=" + g.wsnlOpt() + g.compound(d-1, 0) + g.wsnl())
		}
		if g.bad && g.r.Chance(1, 4) {
			sb.WriteString(g.compound(d-1, 0)) // both elements and pairs
		}
		sb.WriteString("]")
		return sb.String()
	case 16, 17: // lambda
		var sb strings.Builder
		sb.WriteString("{")
		if g.r.Chance(1, 2) {
			sb.WriteString(g.pick(" ", "\n", "", " \n"))
			sb.WriteString("|" + g.wsnlOpt())
			for k := g.r.Intn(3); k > 0; k-- {
				if g.r.Chance(1, 4) {
					sb.WriteString("&" + g.bare(2) + "=" + g.compound(d-1, 0) + " ")
				} else {
					sb.WriteString(g.pick("a", "x", "@rest", "é") + g.pick(" ", " ", "\n"))
				}
			}
			sb.WriteString("|")
		} else {
			sb.WriteString(g.pick(" ", "\n", "\t", ";", "\r\n"))
		}
		sb.WriteString(g.chunk(d-1) + "}")
		return sb.String()
	case 18: // braced
		var sb strings.Builder
		sb.WriteString("{" + g.compound(d-1, 3))
		for k := g.r.Intn(3); k > 0; k-- {
			sb.WriteString(g.pick(",", " ", ", ", " ,", "\n", ",,", " , ", ",\n"))
			sb.WriteString(g.compound(d-1, 3))
		}
		sb.WriteString("}")
		return sb.String()
	}
	return g.pick("[&k=v]", "[a b]", "{a,b}", "{ }", "(a)", "a[0]", "$x[a][b]", "[&a=[&b=c]]", "{|x| put $x }", "?(fail)", "x[0][1..2]")
}

// ---- judging validity ------------------------------------------------------------------

func parseErrs(code string) []*parse.Error {
	_, err := parse.Parse(parse.Source{Name: "c02", Code: code}, parse.Config{})
	return parse.UnpackErrors(err)
}

// isValid: what the property calls a syntactically valid program (and what
// FuzzPartialError keeps): valid UTF-8 and no parse error.
func isValid(code string) bool {
	return utf8.ValidString(code) && len(parseErrs(code)) == 0
}

// ---- op emission -------------------------------------------------------------------------

var meta = []string{"'", "\"", "$", "*", "?", "(", ")", "[", "]", "{", "}", "|", "&", "<", ">", ";", "\n", "\r", " ", "\t", "#", "^", "~", "=", ",", "\\", "@", ":",
	"?(", "$'", "$\"", "\\c", "\\x", "\\u", "\\U", "\\1", "^\n", "^\r", "a", "0", "7", "8", "f", "é", "世"}

// corpusSources reads the parser-test sources (parse_test.go table and fuzz
// seeds) from C01's corpus file.
func corpusSources() []string {
	root := os.Getenv("VERIF_ROOT")
	if root == "" {
		return nil
	}
	data, err := os.ReadFile(filepath.Join(root, "harness", "corpus", "C01.txt"))
	if err != nil {
		return nil
	}
	var out []string
	seen := map[string]bool{}
	for _, l := range strings.Split(string(data), "\n") {
		f := strings.Split(l, "\t")
		if len(f) >= 4 && f[0] == "parse" && !seen[f[3]] {
			seen[f[3]] = true
			out = append(out, common.Unhex(f[3]))
		}
	}
	return out
}

// hand-written valid programs covering every construct, multi-line
var handWritten = []string{
	"echo 'a b' \"c\\td\" # comment\nput $x[0] | each {|v| echo $v } &",
	"if (eq $a b) {\n  echo yes\n} else {\n  echo no\n}",
	"var m = [&k=v &'k 2'=[a b c] &\"x\"=(put 1)]",
	"echo a ^\n  b ^\r\n  c",
	"put {a,b}{1,2} ?(fail x) ~/bin ~user/x *.go **/x?",
	"fn f {|a b @rest &opt=default| put $a }\nf 1 2 3 &opt=x",
	"cat <in >out 2>&1 3>&- 4<>rw >>log",
	"echo \"\\x41\\u00e9\\U0001F600\\101\\cA\\^?\\e\\\\\"",
	"echo 'it''s' $'quoted var' $\"dq var\" $@args $e:HOME",
	"put [\n  a\n  b # c\n  c\n] [&\n  k=\n    v\n]",
	"a;b\nc\r\nd | e |\n f",
	"x = 世界 é😀 $é",
	"{ echo in-block }; { |x|\n put $x\n} 1",
	"put (put ?(put [({ put a })]))",
	"echo &k=v &flag a > &2",
}

func gen(c *common.Ctx, emit func(...string)) {
	seenProg := map[string]bool{}
	nValid, nInvalid := 0, 0
	// program emits `full` and the prefix ops of one program.
	// every: emit every k in [0,len] (byte positions, mid-rune cuts included
	// for the tie); otherwise only rune boundaries.
	program := func(src string, allBytes bool) {
		if seenProg[src] {
			return
		}
		seenProg[src] = true
		pr := Printable(src)
		h := common.Hex(src)
		emit("full", h, pr)
		valid := isValid(src)
		if valid {
			nValid++
		} else {
			nInvalid++
		}
		for k := 0; k <= len(src); k++ {
			boundary := k == len(src) || utf8.RuneStart(src[k])
			if !boundary && !allBytes {
				continue
			}
			emit("pfx", h, strconv.Itoa(k), pr)
		}
	}

	for _, s := range handWritten {
		program(s, true)
	}
	for _, s := range corpusSources() {
		program(s, true)
	}

	// 1. exhaustive small valid programs: all strings of ≤ 3 symbols over the
	// metacharacter alphabet that the parser accepts (and, for the tie, every
	// string of ≤ 2 symbols, valid or not)
	for _, a := range meta {
		program(a, true)
		for _, b := range meta {
			program(a+b, true)
		}
	}
	core := []string{"'", "\"", "$", "?", "(", ")", "[", "]", "{", "}", "|", "&", ">", ";", "\n", " ", "#", "^", "~", "=", ",", "\\", "a", "é", "\\c", "\\x4", "?(", "^\n"}
	if !c.Thorough() {
		core = core[:23]
	}
	for _, a := range core {
		for _, b := range core {
			for _, d := range core {
				if s := a + b + d; isValid(s) {
					program(s, false)
				}
			}
		}
	}

	// 2. grammar-directed programs
	gg := &g{r: c.Rand}
	n := c.Scale(1800, 25000)
	maxLen := c.Scale(72, 120)
	for i := 0; i < n; i++ {
		d := c.Rand.Intn(5)
		if c.Rand.Chance(1, 10) {
			d = 6
		}
		gg.bad = c.Rand.Chance(1, 12)
		src := gg.chunk(d)
		for tries := 0; len(src) > maxLen && tries < 4; tries++ {
			src = gg.chunk(d - 1)
		}
		if len(src) > maxLen || src == "" {
			continue
		}
		program(src, c.Rand.Chance(1, 10))
	}

	// 3. "valid programs found by fuzzing": random strings over a
	// metacharacter-heavy alphabet, kept when the real parser accepts them
	alpha := append(append([]string{}, meta...), "a", "b", "x", " ", " ", "\n", "😀", "1", "''", "\"\"", "()", "[]", "{}", "{ }", "'", "'", "\"", "\"")
	n = c.Scale(30000, 300000)
	kept := 0
	for i := 0; i < n; i++ {
		var sb strings.Builder
		for k := c.Rand.Range(2, c.Scale(12, 24)); k > 0; k-- {
			sb.WriteString(common.Pick(c.Rand, alpha))
		}
		src := sb.String()
		if isValid(src) {
			kept++
			program(src, false)
		} else if c.Rand.Chance(1, 60) {
			program(src, false) // a few invalid ones: clauses 2 and 3 hold for every input
		}
	}

	// 4. smart-enter on buffers with the dot anywhere (the newline goes to the
	// dot, the decision looks at the whole content)
	enter := func(code string, dot int) {
		emit("enter", common.Hex(code), strconv.Itoa(dot), Printable(code))
	}
	samples := append([]string{"", "put [", "put []", "echo 'a", "echo \"a\\", "a |", "a ^", "{ |x|", "a # c", "é [", ")", "a )", "put [\n", "x >"}, handWritten...)
	for _, s := range samples {
		for dot := 0; dot <= len(s); dot++ {
			enter(s, dot)
		}
	}
	n = c.Scale(600, 20000)
	for i := 0; i < n; i++ {
		gg.bad = c.Rand.Chance(1, 6)
		src := gg.chunk(c.Rand.Intn(4))
		if len(src) > maxLen {
			src = src[:maxLen]
		}
		cut := c.Rand.Range(0, len(src))
		if c.Rand.Chance(1, 3) {
			cut = len(src)
		}
		code := src[:cut]
		enter(code, c.Rand.Range(0, len(code)))
	}
	c.Extra["programs_valid"] = nValid
	c.Extra["programs_invalid"] = nInvalid
	c.Extra["fuzz_valid_kept"] = kept
}
