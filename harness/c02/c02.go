// Package c02: correspondence and oracle for C02 (errors in prefixes of valid
// programs are partial; a partial error starts at the end of the input; Enter
// inserts a newline exactly then).
//
// ops
//
//	full  <hex src> <printable>          → OK V<0|1> E <errors…>
//	pfx   <hex src> <k> <printable>      → OK E <errors of src[:k]…> C<isSyntaxComplete> <enter>
//	enter <hex code> <dot> <printable>   → <enter>
//
// <enter> is what the real smartEnter did to a code area holding the buffer
// ({src[:k], dot k} for pfx): `NL <hex content> <dot>` (newline inserted, code
// not submitted) or `COMMIT` (buffer unchanged, App.CommitCode called).
// <printable>: see c01.Printable.  Errors are from:to:partial:message as in C01.
package c02

import (
	"fmt"
	"sort"
	"strconv"
	"strings"
	"unicode"
	"unicode/utf8"

	"src.elv.sh/pkg/cli/clitest"
	"src.elv.sh/pkg/cli/tk"
	"src.elv.sh/pkg/edit"
	"src.elv.sh/pkg/eval"
	"src.elv.sh/pkg/parse"
	"verifharness/common"
)

func init() { common.Register("C02", run) }

// Printable computes the <printable> field for a source: the non-ASCII code
// points decodable at some byte offset of src for which unicode.IsPrint holds.
func Printable(src string) string {
	set := map[rune]bool{}
	for i := 0; i < len(src); i++ {
		r, _ := utf8.DecodeRuneInString(src[i:])
		if r >= 0x80 && unicode.IsPrint(r) {
			set[r] = true
		}
	}
	if len(set) == 0 {
		return "-"
	}
	var l []int
	for r := range set {
		l = append(l, int(r))
	}
	sort.Ints(l)
	ss := make([]string, len(l))
	for i, x := range l {
		ss[i] = strconv.Itoa(x)
	}
	return strings.Join(ss, ",")
}

type state struct {
	ed *edit.Editor
}

func newState(*common.Ctx) any {
	ev := eval.NewEvaler()
	tty, _ := clitest.NewFakeTTY()
	ed := edit.NewEditor(tty, ev, nil)
	ev.ExtendBuiltin(eval.BuildNs().AddNs("edit", ed))
	return &state{ed: ed}
}

func b2s(b bool) string {
	if b {
		return "1"
	}
	return "0"
}

func msgID(m string) string {
	const p = "unexpected rune "
	if strings.HasPrefix(m, p) {
		s, err := strconv.Unquote(m[len(p):])
		if err == nil {
			r, _ := utf8.DecodeRuneInString(s)
			return "U" + strconv.Itoa(int(r))
		}
	}
	return common.Hex(m)
}

func errsCol(errs []*parse.Error) string {
	var sb strings.Builder
	for _, e := range errs {
		fmt.Fprintf(&sb, " %d:%d:%s:%s", e.Context.From, e.Context.To, b2s(e.Partial), msgID(e.Message))
	}
	return sb.String()
}

// enter runs the real smartEnter.
func (st *state) enter(code string, dot int) (after tk.CodeBuffer, committed bool) {
	return edit.VerifSmartEnter(st.ed, tk.CodeBuffer{Content: code, Dot: dot})
}

func enterCol(before tk.CodeBuffer, after tk.CodeBuffer, committed bool) string {
	switch {
	case committed && after == before:
		return "COMMIT"
	case !committed && after != before:
		return fmt.Sprintf("NL %s %d", common.Hex(after.Content), after.Dot)
	case committed:
		return fmt.Sprintf("COMMIT-AND-CHANGED %s %d", common.Hex(after.Content), after.Dot)
	}
	return "NOTHING"
}

func opPrefix(f []string) (src string, k int, prefix string) {
	src = common.Unhex(f[1])
	k, _ = strconv.Atoi(f[2])
	return src, k, src[:k]
}

func impl(sta any, f []string) string {
	st := sta.(*state)
	switch f[0] {
	case "full":
		errs := parseErrs(common.Unhex(f[1]))
		return "OK V" + b2s(len(errs) == 0) + " E" + errsCol(errs)
	case "pfx":
		_, k, p := opPrefix(f)
		errs := parseErrs(p)
		before := tk.CodeBuffer{Content: p, Dot: k}
		after, committed := st.enter(p, k)
		return "OK E" + errsCol(errs) + " C" + b2s(edit.VerifIsSyntaxComplete(p)) + " " + enterCol(before, after, committed)
	case "enter":
		code := common.Unhex(f[1])
		dot, _ := strconv.Atoi(f[2])
		after, committed := st.enter(code, dot)
		return enterCol(tk.CodeBuffer{Content: code, Dot: dot}, after, committed)
	}
	return "bad-op"
}

// ---- oracle: the property evaluated on the real code -------------------------------------

// short names of the parse error messages, for classes and tags
var msgSlug = map[string]string{
	"should be form": "form",
	"bad redir sign, should be '<', '>', '>>' or '<>'": "redir-sign",
	"should be a composite term representing fd":       "fd",
	"should be a composite term representing filename": "filename",
	"should be spaced":                                                      "array",
	"string not terminated":                                                 "string-unterminated",
	"invalid escape sequence":                                               "escape",
	"invalid escape sequence, should be octal digit":                        "escape-oct",
	"invalid octal escape sequence, should be below 256":                    "escape-oct-overflow",
	"invalid escape sequence, should be hex digit":                          "escape-hex",
	"invalid control sequence, should be a codepoint between 0x3F and 0x5F": "escape-control",
	"should be single-quoted string, double-quoted string or bareword":      "primary",
	"should be variable name":                                               "variable-name",
	"should be ']'":                                                         "rbracket",
	"should be '}'":                                                         "rbrace",
	"should be ',' or '}'":                                                  "braced-sep-or-rbrace",
	"should be ')'":                                                         "rparen",
	"should be compound":                                                    "compound",
	"should be '|'":                                                         "pipe",
	"cannot contain both list elements and map pairs":                       "elements-and-pairs",
	"should be newline":                                                     "continuation-newline",
}

func slug(m string) string {
	if s, ok := msgSlug[m]; ok {
		return s
	}
	if strings.HasPrefix(m, "unexpected rune ") {
		return "unexpected-rune"
	}
	return "other"
}

// checkEnter evaluates clause 3 (and the link between isSyntaxComplete and
// the Partial flag) for code with the dot at dot.
func (st *state) checkEnter(code string, dot int, errs []*parse.Error) (string, string) {
	hasPartial := false
	for _, e := range errs {
		if e.Partial {
			hasPartial = true
		}
	}
	if complete := edit.VerifIsSyntaxComplete(code); complete == hasPartial {
		return "enter-criterion-differs-from-partial-flag", fmt.Sprintf("isSyntaxComplete(%q) = %v but a partial error exists = %v", code, complete, hasPartial)
	}
	after, committed := st.enter(code, dot)
	if hasPartial {
		if committed {
			return "enter-submits-code-with-partial-error", fmt.Sprintf("Enter on %q submitted the code; errors:%s", code, errsCol(errs))
		}
		// "inserts a newline": exactly one more byte, a newline (where it goes is
		// the correspondence's business: InsertAtDot puts it at the dot)
		if len(after.Content) != len(code)+1 || strings.Count(after.Content, "\n") != strings.Count(code, "\n")+1 {
			return "enter-no-newline-inserted", fmt.Sprintf("Enter on %q (dot %d) left %q (dot %d)", code, dot, after.Content, after.Dot)
		}
	} else {
		if !committed {
			return "enter-does-not-submit-complete-code", fmt.Sprintf("Enter on %q did not submit; buffer %q", code, after.Content)
		}
		if after.Content != code || after.Dot != dot {
			return "enter-changes-complete-code", fmt.Sprintf("Enter on %q left %q", code, after.Content)
		}
	}
	return "", ""
}

func oracle(sta any, f []string, out string) (string, string) {
	st := sta.(*state)
	if out == "PANIC" || out == "TIMEOUT" {
		return "crash", out
	}
	switch f[0] {
	case "full":
		return "", ""
	case "enter":
		code := common.Unhex(f[1])
		dot, _ := strconv.Atoi(f[2])
		return st.checkEnter(code, dot, parseErrs(code))
	}
	src, k, p := opPrefix(f)
	errs := parseErrs(p)
	// clause 2: an error is marked partial iff it starts at the very end of the input
	for _, e := range errs {
		if e.Partial && e.Context.From != len(p) {
			return "partial-error-not-at-end", fmt.Sprintf("%q: partial error at %d-%d of %d: %s", p, e.Context.From, e.Context.To, len(p), e.Message)
		}
		if !e.Partial && e.Context.From == len(p) {
			return "error-at-end-not-partial", fmt.Sprintf("%q: error at the end (%d) is not partial: %s", p, len(p), e.Message)
		}
	}
	// clause 1: proper rune-boundary prefix of a valid program ⇒ clean or only partial errors
	if 0 < k && k < len(src) && utf8.RuneStart(src[k]) && isValid(src) {
		for _, e := range errs {
			if !e.Partial {
				return "prefix-of-valid-program-has-nonpartial-error:" + slug(e.Message),
					fmt.Sprintf("prefix %q of valid %q: %d-%d %s", p, src, e.Context.From, e.Context.To, e.Message)
			}
		}
	}
	// clause 3: Enter
	return st.checkEnter(p, k, errs)
}

// ---- tags ---------------------------------------------------------------------------------

type features struct{ counts map[string]int }

// cutContext names the lexical/syntactic place of the cut k in a valid
// program, from the real tree: the innermost node strictly containing k.
func cutContext(src string, k int) string {
	tree, _ := parse.Parse(parse.Source{Name: "c02", Code: src}, parse.Config{})
	var inner parse.Node = tree.Root
	for {
		var next parse.Node
		for _, ch := range parse.Children(inner) {
			r := ch.Range()
			if r.From < k && k < r.To {
				next = ch
			}
		}
		if next == nil {
			break
		}
		inner = next
	}
	switch n := inner.(type) {
	case *parse.Primary:
		text := parse.SourceText(n)
		switch n.Type {
		case parse.SingleQuoted:
			return "in-single-quoted"
		case parse.DoubleQuoted:
			// inside an escape?
			off := k - n.Range().From
			if i := strings.LastIndex(text[:off], "\\"); i >= 0 && off-i <= 9 {
				esc := text[i:off]
				if len(esc) == 1 || strings.ContainsAny(esc[1:2], "cxuU^01234567") && escOpen(text[i:], off-i) {
					return "in-double-quoted-escape"
				}
			}
			return "in-double-quoted"
		case parse.Variable:
			if strings.HasPrefix(text, "$'") || strings.HasPrefix(text, "$\"") {
				return "in-quoted-variable"
			}
			return "in-variable"
		case parse.Bareword:
			return "in-bareword"
		case parse.Wildcard:
			return "in-wildcard"
		case parse.Lambda:
			return "in-lambda"
		case parse.List, parse.Map:
			return "in-list-or-map"
		case parse.Braced:
			return "in-braced"
		case parse.OutputCapture, parse.ExceptionCapture:
			return "in-capture"
		}
		return "in-primary"
	case *parse.Sep:
		text := parse.SourceText(n)
		off := k - n.Range().From
		if i := strings.LastIndexAny(text[:off], "#\n"); i >= 0 && text[i] == '#' {
			return "in-comment"
		}
		if text[off-1] == '^' || (off >= 2 && text[off-2:off] == "^\r") {
			return "in-continuation"
		}
		return "in-separator"
	case *parse.Chunk:
		return "between-pipelines"
	case *parse.Pipeline:
		return "between-forms"
	case *parse.Form:
		return "between-arguments"
	case *parse.Redir:
		return "in-redir"
	case *parse.MapPair:
		return "in-map-pair"
	case *parse.Indexing:
		return "in-indexing"
	case *parse.Array:
		return "in-index-array"
	case *parse.Compound:
		return "between-compound-parts"
	}
	return "elsewhere"
}

// escOpen reports whether the escape starting esc[0]=='\\' is still open
// after n bytes.
func escOpen(esc string, n int) bool {
	if n <= 1 {
		return true
	}
	total := 2
	switch esc[1] {
	case 'c', '^':
		total = 3
	case 'x':
		total = 4
	case 'u':
		total = 6
	case 'U':
		total = 10
	case '0', '1', '2', '3', '4', '5', '6', '7':
		total = 4
	}
	return n < total
}

func tagOf(ft *features) func(f []string, out string) string {
	return func(f []string, out string) string {
		if out == "PANIC" || out == "TIMEOUT" {
			return "crash"
		}
		switch f[0] {
		case "full":
			if strings.HasPrefix(out, "OK V1") {
				return "program-valid"
			}
			return "program-invalid"
		case "enter":
			if out == "COMMIT" {
				return "enter-commit"
			}
			return "enter-newline"
		}
		src, k, p := opPrefix(f)
		errs := parseErrs(p)
		valid := isValid(src)
		boundary := k == len(src) || utf8.RuneStart(src[k])
		var t string
		switch {
		case k == 0:
			return "" // the empty prefix
		case k == len(src):
			t = "whole"
		case !boundary:
			t = "mid-rune-cut"
		case valid:
			t = "proper-prefix-of-valid"
		default:
			t = "proper-prefix-of-invalid"
		}
		np, nn := 0, 0
		for _, e := range errs {
			if e.Partial {
				np++
				ft.counts["partial-error:"+slug(e.Message)]++
			} else {
				nn++
				ft.counts["nonpartial-error:"+slug(e.Message)]++
			}
		}
		switch {
		case np == 0 && nn == 0:
			t += "/clean"
		case nn == 0:
			t += "/partial-only"
		case np == 0:
			t += "/nonpartial-only"
		default:
			t += "/partial-and-nonpartial"
		}
		if valid && boundary && k < len(src) {
			cc := cutContext(src, k)
			ft.counts["cut:"+cc]++
			if np > 0 {
				ft.counts["cut-with-partial-error:"+cc]++
			}
		}
		if strings.Contains(out, " NL ") {
			ft.counts["prefix-enter-newline"]++
		} else {
			ft.counts["prefix-enter-commit"]++
		}
		return t
	}
}

func run(c *common.Ctx) error {
	ft := &features{counts: map[string]int{}}
	s := &common.Std{
		Rule: "programs: hand-written multi-line programs, the parser-test table and fuzz seeds (C01 corpus), every string of ≤2 symbols over a metacharacter alphabet and every VALID string of 3 symbols, " +
			"grammar-directed programs (all node kinds, nesting ≤ 6, quotes/escapes/comments/continuations, multi-line; the real parser judges validity), random metacharacter strings kept when valid; " +
			"for each program one `full` op and one `pfx` op per rune-boundary cut 0..len (every byte cut for a tenth of them); plus smart-enter on buffers with the dot anywhere. " +
			"Non-trivial = non-empty prefix; distinct by op line",
		ExhaustiveNote: "all strings of ≤2 symbols and all valid strings of 3 symbols over the core alphabet × all their prefixes",
		Gen:            gen,
		NewState:       newState,
		Impl:           impl,
		Oracle:         oracle,
		Tag:            tagOf(ft),
	}
	c.Extra["feature_counts"] = ft.counts
	return s.Run(c)
}
