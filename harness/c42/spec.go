package c42

// A specification-level interpreter of the "Redirection" section of the
// language reference (website/ref/language.md) and of the statement of C42,
// written independently of the Lean model and of the implementation's
// ownership bookkeeping:
//
//   - redirections are applied left to right to a table fd ↦ target;
//   - `<`, `>`, `>>`, `<>` open the named file for reading / writing with
//     truncation / appending / reading and writing without truncation;
//   - `n>&m` makes n refer to what m refers to at that moment (and keeps
//     doing so whatever happens to m afterwards); `n>&-` closes n;
//   - value output to a port made by a file redirection or closed raises
//     "port does not support value output";
//   - an fd that is negative, beyond the bound, or (as a source) not open
//     raises an exception; nothing crashes;
//   - when the form has finished every file it opened is closed and no
//     other file is.

import (
	"fmt"
	"strconv"
	"strings"

	"verifharness/common"
)

const fdBound = 1023 // ports above it may be refused
const fdSane = 5000  // ports above it must be refused

// open file description
type ofd struct {
	name         string // name in the table dump
	path         string
	pos          int
	rd, wr, app  bool
	dir          bool
	openedByForm bool
}

type target struct {
	f    *ofd   // nil: no file (closed port)
	ch   string // nil | closed | c1 | c2 | pipe
	kind int    // 0 inherited, 1 file redirection, 2 closed
}

type spec struct {
	ctx     string
	objs    map[string]*string // regular files and pipes by path; nil = absent
	table   map[int]*target
	o1v     []string
	o2v     []string
	implExc string
	upT     *target // the input pipe port
	// the one file object and the two ends of the one pipe the harness provides
	fo, pr, pw *ofd
	// the form duplicated a port and later redirected the duplicate's source
	dupThenOverride bool
}

func str(s string) *string { return &s }

func newSpec(ctx, files, implExc string) *spec {
	s := &spec{ctx: ctx, objs: map[string]*string{}, table: map[int]*target{}, implExc: implExc}
	for _, e := range strings.Split(files, ",") {
		nc := strings.SplitN(e, ":", 2)
		if nc[1] != "~" {
			s.objs[nc[0]] = str(common.Unhex(nc[1]))
		}
	}
	s.objs["o"] = str("OOOO")
	s.objs["in0"] = str("IN0\n")
	s.objs["|o1"], s.objs["|o2"], s.objs["|pp"] = str(""), str(""), str("PP\n")
	s.objs["|up"], s.objs["|dn"] = str("UP\n"), str("")
	s.fo = &ofd{name: "fo", path: "o", rd: true, wr: true}
	s.pr = &ofd{name: "pr", path: "|pp", rd: true}
	s.pw = &ofd{name: "pw", path: "|pp", wr: true, app: true}
	s.table[0] = &target{f: &ofd{name: "in0", path: "in0", rd: true}, ch: "closed"}
	s.table[1] = &target{f: &ofd{name: "o1", path: "|o1", wr: true, app: true}, ch: "c1"}
	s.table[2] = &target{f: &ofd{name: "o2", path: "|o2", wr: true, app: true}, ch: "c2"}
	if strings.Contains(ctx, "i") {
		s.table[0] = &target{f: &ofd{name: "up", path: "|up", rd: true}, ch: "pipe"}
		s.upT = s.table[0]
	}
	if strings.Contains(ctx, "o") {
		s.table[1] = &target{f: &ofd{name: "dn", path: "|dn", wr: true, app: true}, ch: "pipe"}
	}
	return s
}

// evalFd: the fd an expression denotes.  tok "_" is the default destination.
func (s *spec) evalFd(tok string, closeOK bool, mode string) (n int64, isClose bool, exc string) {
	if tok == "_" {
		if mode == "r" {
			return 0, false, ""
		}
		return 1, false, ""
	}
	bad := "badval-dst"
	if closeOK {
		bad = "badval-srcfd"
	}
	p := strings.Split(tok, ":")
	switch p[0] {
	case "E":
		return 0, false, "fail"
	case "M":
		return 0, false, "arity"
	case "O":
		return 0, false, bad
	case "I":
		n, _ = strconv.ParseInt(p[1], 10, 64)
	case "S":
		switch p[1] {
		case "stdin":
			return 0, false, ""
		case "stdout":
			return 1, false, ""
		case "stderr":
			return 2, false, ""
		}
		v, err := strconv.ParseInt(p[1], 0, 0) // the spec's "a number"
		if err != nil {
			if p[1] == "-" && closeOK {
				return 0, true, ""
			}
			return 0, false, bad
		}
		n = v
	}
	inv := fmt.Sprintf("invalid-fd,%d", n)
	if n < 0 || n > fdSane {
		return n, false, inv
	}
	if n > fdBound && s.implExc == inv {
		return n, false, inv // refusing a port number in (fdBound, fdSane] is allowed, not required
	}
	return n, false, ""
}

func (s *spec) open(path, mode string) (*ofd, string) {
	if strings.Contains(path, "/") {
		return nil, "open-enoent"
	}
	if path == "d" {
		if mode != "r" {
			return nil, "open-eisdir"
		}
		return &ofd{name: "d", path: "d", rd: true, dir: true, openedByForm: true}, ""
	}
	cur := s.objs[path]
	switch mode {
	case "r":
		if cur == nil {
			return nil, "open-enoent"
		}
		return &ofd{name: path, path: path, rd: true, openedByForm: true}, ""
	case "w":
		s.objs[path] = str("")
		return &ofd{name: path, path: path, wr: true, openedByForm: true}, ""
	case "a":
		if cur == nil {
			s.objs[path] = str("")
		}
		return &ofd{name: path, path: path, wr: true, app: true, openedByForm: true}, ""
	default: // rw
		if cur == nil {
			s.objs[path] = str("")
		}
		return &ofd{name: path, path: path, rd: true, wr: true, openedByForm: true}, ""
	}
}

func fileTarget(mode string, f *ofd) *target {
	if mode == "r" {
		return &target{f: f, ch: "closed", kind: 1}
	}
	return &target{f: f, ch: "nil", kind: 1}
}

// redirs applies redirections left to right; returns "ok" or the class of
// the exception of the first one that fails.
func (s *spec) redirs(rs []string) string {
	for _, rd := range rs {
		p := strings.Split(rd, "|")
		mode := p[1]
		d, _, exc := s.evalFd(p[0], false, mode)
		if exc != "" {
			return exc
		}
		dst := int(d)
		src := p[2]
		var nt *target
		switch {
		case src[0] == '&':
			n, isClose, exc := s.evalFd(src[1:], true, mode)
			if exc != "" {
				return exc
			}
			if isClose {
				nt = &target{ch: "nil", kind: 2}
			} else {
				t := s.table[int(n)]
				if t == nil {
					return fmt.Sprintf("invalid-fd,%d", n)
				}
				nt = t
			}
		case strings.HasPrefix(src, "f:"):
			f, exc := s.open(src[2:], mode)
			if exc != "" {
				return exc
			}
			nt = fileTarget(mode, f)
		case src == "F":
			nt = fileTarget(mode, s.theFo())
		case strings.HasPrefix(src, "P:"):
			switch {
			case mode == "r" && strings.Contains(src[2:], "r"):
				nt = fileTarget(mode, s.thePipe("pr"))
			case mode == "r":
				return "badmap-r"
			case mode == "w" && strings.Contains(src[2:], "w"):
				nt = fileTarget(mode, s.thePipe("pw"))
			case mode == "w":
				return "badmap-w"
			default:
				return "map-mode"
			}
		case src == "X":
			return "badval-src"
		case strings.HasPrefix(src, "M:"):
			return "arity"
		case src == "E":
			return "fail"
		}
		if old := s.table[dst]; old != nil && old != nt {
			for k, t := range s.table {
				if k != dst && t == old && (old.f != nil && (old.f.openedByForm || old.f.name == "up" || old.f.name == "dn")) {
					s.dupThenOverride = true
				}
			}
		}
		s.table[dst] = nt
	}
	return "ok"
}

func (s *spec) theFo() *ofd { return s.fo }
func (s *spec) thePipe(end string) *ofd {
	if end == "pr" {
		return s.pr
	}
	return s.pw
}

func (s *spec) write(t *target, d string) string {
	f := t.f
	if f == nil {
		return "w-invalid"
	}
	if !f.wr {
		return "w-ebadf"
	}
	cur := *s.objs[f.path]
	if f.app {
		cur += d
	} else {
		for len(cur) < f.pos {
			cur += "\x00"
		}
		end := f.pos + len(d)
		tail := ""
		if end < len(cur) {
			tail = cur[end:]
		}
		cur = cur[:f.pos] + d + tail
		f.pos = end
	}
	s.objs[f.path] = &cur
	return "ok"
}

func (s *spec) read(t *target) string {
	f := t.f
	desc := map[string]string{"nil": "vnil", "closed": "vclosed"}[t.ch]
	if desc == "" {
		desc = "vlive"
	}
	switch {
	case f == nil:
		return "r-invalid/" + desc
	case !f.rd:
		return "r-ebadf/" + desc
	case f.dir:
		return "r-eisdir/" + desc
	}
	cur := *s.objs[f.path]
	data := ""
	if f.pos < len(cur) {
		data = cur[f.pos:]
		f.pos = len(cur)
	}
	return "r" + common.Hex(data) + "/" + desc
}

func actionFd(a string) (kind byte, fd int, text string) {
	p := strings.Split(a, ":")
	kind = a[0]
	fd = -1
	if p[1] != "_" {
		fd, _ = strconv.Atoi(p[1])
	}
	if len(p) > 2 {
		text = common.Unhex(p[2])
	}
	return
}

func (s *spec) action(a string) string {
	kind, fd, text := actionFd(a)
	if fd < 0 {
		fd = 1
		if kind == 'r' {
			fd = 0
		}
	}
	t := s.table[fd]
	if t == nil {
		if kind == 'd' {
			return "noport"
		}
		return fmt.Sprintf("invalid-fd,%d", fd)
	}
	switch kind {
	case 'e':
		return s.write(t, text+"\n")
	case 'd':
		return s.write(t, text)
	case 'r':
		return s.read(t)
	default: // put
		switch {
		case t.kind != 0, t.ch == "closed", t.ch == "nil":
			return "no-value-output"
		case t == s.upT:
			// the reading end of the form's input pipe is an input-only port
			// too, wherever it has been duplicated to
			return "no-value-output"
		case t.ch == "c1":
			s.o1v = append(s.o1v, text)
		case t.ch == "c2":
			s.o2v = append(s.o2v, text)
		case t.f != nil && t.f.name == "dn":
			s.o1v = append(s.o1v, text)
		}
		return "ok"
	}
}

func (s *spec) tableDump() string {
	max := -1
	for k := range s.table {
		if k > max {
			max = k
		}
	}
	if max < 0 {
		return "-"
	}
	var es []string
	for i := 0; i <= max; i++ {
		t := s.table[i]
		if t == nil {
			es = append(es, "_")
			continue
		}
		fileS := "nil"
		if t.f != nil {
			k := 0
			for j := 0; j <= max; j++ {
				if s.table[j] != nil && s.table[j].f == t.f {
					k = j
					break
				}
			}
			fileS = fmt.Sprintf("%s@%d", t.f.name, k)
		}
		k := 0
		for j := 0; j <= max; j++ {
			if s.table[j] == t {
				k = j
				break
			}
		}
		es = append(es, fmt.Sprintf("%s.%s.%d", fileS, t.ch, k))
	}
	return strings.Join(es, ",")
}

func hexVals(vs []string) string {
	if len(vs) == 0 {
		return "-"
	}
	var hs []string
	for _, v := range vs {
		hs = append(hs, common.Hex(v))
	}
	return strings.Join(hs, ",")
}

// expected computes, field by field, what the property requires of the op.
func expected(f []string, implExc string) map[string]string {
	s := newSpec(f[1], f[2], implExc)
	e := map[string]string{}
	e["exc"] = s.redirs(splitList(f[3]))
	e["acts"], e["tbl"] = "-", "-"
	if e["exc"] == "ok" {
		e["tbl"] = s.tableDump()
		var rs []string
		for _, a := range splitList(f[4]) {
			rs = append(rs, s.action(a))
		}
		if len(rs) > 0 {
			e["acts"] = strings.Join(rs, ",")
		}
	}
	o1 := "|o1"
	if strings.Contains(f[1], "o") {
		o1 = "|dn"
	}
	e["o1"] = common.Hex(*s.objs[o1]) + "/" + hexVals(s.o1v)
	e["o2"] = common.Hex(*s.objs["|o2"]) + "/" + hexVals(s.o2v)
	c := func(n string) string {
		if s.objs[n] == nil {
			return "~"
		}
		return common.Hex(*s.objs[n])
	}
	e["files"] = fmt.Sprintf("a:%s,b:%s,c:%s,o:%s", c("a"), c("b"), c("c"), c("o"))
	pp := *s.objs["|pp"]
	e["pp"] = common.Hex(pp[s.thePipe("pr").pos:])
	e["open"] = "111111"
	e["leak"] = "0"
	return e
}

// oracle: does the real code's observable behaviour on this op satisfy C42?
func oracle(st *state, f []string, out string) (string, string) {
	if f[0] != "run" {
		return "", ""
	}
	if out == "PANIC" || out == "TIMEOUT" {
		cls := "crash-other"
		neg, huge := false, false
		for _, rd := range splitList(f[3]) {
			p := strings.Split(rd, "|")
			for _, t := range []string{p[0], strings.TrimPrefix(p[2], "&")} {
				q := strings.Split(t, ":")
				if (q[0] == "S" && len(q) == 3 && q[2] != "x") || q[0] == "I" {
					n, _ := strconv.ParseInt(q[len(q)-1], 10, 64)
					if n < 0 {
						neg = true
					}
					if n > fdSane {
						huge = true
					}
				}
			}
		}
		msg := st.lastCrash
		switch {
		case out == "TIMEOUT":
			cls = "hang"
		case neg:
			cls = "crash-negative-fd"
		case huge:
			cls = "crash-huge-fd"
		case strings.Contains(msg, "send on closed channel"):
			cls = "crash-value-output"
		case strings.Contains(f[1], "i") && (strings.Contains(msg, "nil pointer") || strings.Contains(msg, "close of closed channel")):
			cls = "crash-pipe-input-redirected"
		case strings.Contains(msg, "index out of range"):
			cls = "crash-index-out-of-range"
		case strings.Contains(msg, "out of memory"):
			cls = "crash-out-of-memory"
		}
		return cls, out + ": " + st.lastCrash
	}
	exp := expected(f, field(out, "exc"))
	for _, k := range []string{"exc", "tbl", "acts", "o1", "o2", "files", "pp", "open", "leak"} {
		got := field(out, k)
		if got == exp[k] {
			continue
		}
		detail := fmt.Sprintf("%s: got %s want %s", k, got, exp[k])
		switch k {
		case "exc":
			if strings.HasPrefix(exp[k], "invalid-fd") {
				return "invalid-fd-not-rejected", detail
			}
			return "redirection-exception", detail
		case "tbl":
			return "port-table", detail
		case "acts":
			g, w := strings.Split(got, ","), strings.Split(exp[k], ",")
			as := splitList(f[4])
			for i := range w {
				if i >= len(g) || g[i] == w[i] {
					continue
				}
				switch {
				case strings.HasSuffix(g[i], "-closed") || strings.Contains(g[i], "-closed/"):
					return "port-on-closed-file", detail
				case i < len(as) && as[i][0] == 'p':
					return "value-output", detail
				}
				break
			}
			return "bytes-action", detail
		case "o1", "o2", "files", "pp":
			return "bytes-misrouted", detail
		case "open":
			return "closed-foreign-file", detail
		case "leak":
			return "fd-leak", detail
		}
	}
	return "", ""
}
