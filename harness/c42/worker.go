package c42

// The worker: a child process (this same binary, started with C42_WORKER=1)
// that executes ops against the real elvish code, one per line.  Running the
// real code in a child keeps the harness alive when the code under check
// panics on another goroutine or tries to allocate an absurd port table
// (RLIMIT_AS bounds the damage).

import (
	"bufio"
	"errors"
	"fmt"
	"io"
	"io/fs"
	"os"
	"path/filepath"
	"runtime"
	"runtime/debug"
	"strconv"
	"strings"
	"sync"
	"syscall"
	"time"

	"src.elv.sh/pkg/eval"
	"src.elv.sh/pkg/eval/errs"
	"src.elv.sh/pkg/eval/vals"
	"src.elv.sh/pkg/eval/vars"
	"src.elv.sh/pkg/parse"
	"verifharness/common"
)

func init() {
	if os.Getenv("C42_WORKER") != "" {
		workerMain()
		os.Exit(0)
	}
}

type worker struct {
	dir string
	ev  *eval.Evaler

	// per-op resources, visible to the builtins
	in0, fo, pr, pw *os.File
	o1, o2          *eval.Port
	ppRW, ppR, ppW  any
	foVal           any

	// what the builtins recorded
	probeArgs []any
	probeRan  bool
	table     string
	reads     []string
	downBytes []byte
	downVals  []any
	downWG    sync.WaitGroup
}

func workerMain() {
	// Bound the address space: an unbounded port table must kill this child, not the machine.
	lim := syscall.Rlimit{Cur: 6 << 30, Max: 6 << 30}
	syscall.Setrlimit(syscall.RLIMIT_AS, &lim)
	debug.SetGCPercent(-1) // no finalizer closes a leaked file behind our back while an op runs
	dir, err := os.MkdirTemp("", "c42-")
	if err != nil {
		fmt.Println("FATAL", err)
		return
	}
	defer os.RemoveAll(dir)
	w := &worker{dir: dir}
	os.Mkdir(filepath.Join(dir, "d"), 0o755)
	w.ev = eval.NewEvaler()
	w.ev.ExtendBuiltin(eval.BuildNs().
		AddVar("fo", vars.FromPtr(&w.foVal)).
		AddVar("pp", vars.FromPtr(&w.ppRW)).
		AddVar("ppr", vars.FromPtr(&w.ppR)).
		AddVar("ppw", vars.FromPtr(&w.ppW)).
		AddGoFns(map[string]any{
			"c42probe": w.probe,
			"c42w":     w.directWrite,
			"c42read":  w.read,
			"c42up":    w.up,
			"c42down":  w.down,
		}))
	// warm up lazily created runtime descriptors (epoll, …) before counting fds
	w.execOp(strings.Split("run\tio\ta:~,b:~,c:~\t_|w|f:a\te:_:78;r:_", "\t"))
	in := bufio.NewReaderSize(os.Stdin, 1<<16)
	out := bufio.NewWriter(os.Stdout)
	n := 0
	for {
		line, err := in.ReadString('\n')
		if line == "" && err != nil {
			break
		}
		line = strings.TrimRight(line, "\n")
		res := func() (res string) {
			defer func() {
				if r := recover(); r != nil {
					fmt.Fprintln(os.Stderr, "panic:", r)
					res = "PANIC"
				}
			}()
			return w.execOp(strings.Split(line, "\t"))
		}()
		fmt.Fprintln(out, res)
		out.Flush()
		if res == "PANIC" {
			// resources of the aborted op may be left behind: start afresh
			os.RemoveAll(dir)
			os.Exit(0)
		}
		n++
		if n%100 == 0 {
			runtime.GC()
		}
	}
}

func countFDs() int {
	es, err := os.ReadDir("/proc/self/fd")
	if err != nil {
		return -1
	}
	return len(es)
}

func (w *worker) path(name string) string { return filepath.Join(w.dir, name) }

// fdValSrc renders an FdVal field as elvish source.
func fdValSrc(s string) string {
	p := strings.Split(s, ":")
	switch p[0] {
	case "S":
		return p[1]
	case "I":
		return "(num " + p[1] + ")"
	case "O":
		return "[]"
	case "M":
		if p[1] == "0" {
			return "(nop)"
		}
		return "(put" + strings.Repeat(" 1", atoi(p[1])) + ")"
	case "E":
		return "(fail foo)"
	}
	panic("bad FdVal " + s)
}

func atoi(s string) int { n, _ := strconv.Atoi(s); return n }

var modeSign = map[string]string{"r": "<", "w": ">", "rw": "<>", "a": ">>"}

func (w *worker) redirSrc(r string) string {
	p := strings.Split(r, "|")
	var sb strings.Builder
	if p[0] != "_" {
		sb.WriteString(fdValSrc(p[0]))
	}
	sb.WriteString(modeSign[p[1]])
	s := p[2]
	switch {
	case s[0] == '&':
		sb.WriteString("&" + fdValSrc(s[1:]))
	case strings.HasPrefix(s, "f:"):
		sb.WriteString(parse.Quote(w.path(s[2:])))
	case s == "F":
		sb.WriteString("$fo")
	case s == "P:rw":
		sb.WriteString("$pp")
	case s == "P:r":
		sb.WriteString("$ppr")
	case s == "P:w":
		sb.WriteString("$ppw")
	case s == "P:0":
		sb.WriteString("[&]")
	case s == "X":
		sb.WriteString("[]")
	case strings.HasPrefix(s, "M:"):
		sb.WriteString(fdValSrc(s))
	case s == "E":
		sb.WriteString("(fail foo)")
	default:
		panic("bad src " + s)
	}
	return sb.String()
}

func actionSrc(a string) string {
	p := strings.Split(a, ":")
	redir := func(sign, n string) string {
		if n == "_" {
			return ""
		}
		return " " + sign + "&" + n
	}
	switch p[0] {
	case "e":
		return "?(echo " + parse.Quote(common.Unhex(p[2])) + redir(">", p[1]) + ")"
	case "p":
		return "?(put " + parse.Quote(common.Unhex(p[2])) + redir(">", p[1]) + ")"
	case "d":
		return "?(c42w " + p[1] + " " + parse.Quote(common.Unhex(p[2])) + ")"
	case "r":
		return "?(c42read" + redir("<", p[1]) + ")"
	}
	panic("bad action " + a)
}

func splitList(s string) []string {
	if s == "-" {
		return nil
	}
	return strings.Split(s, ";")
}

// Source builds the elvish program of an op.
func (w *worker) source(f []string) string {
	var sb strings.Builder
	if strings.Contains(f[1], "i") {
		sb.WriteString("c42up | ")
	}
	sb.WriteString("c42probe")
	for _, a := range splitList(f[4]) {
		sb.WriteString(" " + actionSrc(a))
	}
	for _, r := range splitList(f[3]) {
		sb.WriteString(" " + w.redirSrc(r))
	}
	if strings.Contains(f[1], "o") {
		sb.WriteString(" | c42down")
	}
	return sb.String()
}

func isOpen(f *os.File) bool {
	_, err := f.Stat()
	return err == nil
}

func (w *worker) execOp(f []string) string {
	if len(f) != 5 || f[0] != "run" {
		return "bad-op"
	}
	before := countFDs()
	// files
	for _, e := range strings.Split(f[2], ",") {
		nc := strings.SplitN(e, ":", 2)
		os.Remove(w.path(nc[0]))
		if nc[1] != "~" {
			os.WriteFile(w.path(nc[0]), []byte(common.Unhex(nc[1])), 0o644)
		}
	}
	os.WriteFile(w.path("o"), []byte("OOOO"), 0o644)
	os.WriteFile(w.path("in0"), []byte("IN0\n"), 0o644)
	w.in0, _ = os.Open(w.path("in0"))
	w.fo, _ = os.OpenFile(w.path("o"), os.O_RDWR, 0)
	w.pr, w.pw, _ = os.Pipe()
	w.pw.WriteString("PP\n")
	w.foVal = w.fo
	w.ppRW = vals.MakeMap("r", w.pr, "w", w.pw)
	w.ppR = vals.MakeMap("r", w.pr)
	w.ppW = vals.MakeMap("w", w.pw)
	// capture ports without collector goroutines: a pipe and a buffered channel, drained after the form
	mkCapture := func() (*eval.Port, func() ([]any, []byte)) {
		r, wr, _ := os.Pipe()
		ch := make(chan any, 256)
		return &eval.Port{File: wr, Chan: ch}, func() ([]any, []byte) {
			wr.Close()
			b, _ := io.ReadAll(r)
			r.Close()
			close(ch)
			var vs []any
			for v := range ch {
				vs = append(vs, v)
			}
			return vs, b
		}
	}
	var get1, get2 func() ([]any, []byte)
	w.o1, get1 = mkCapture()
	w.o2, get2 = mkCapture()
	o1File, o2File := w.o1.File, w.o2.File
	w.probeArgs, w.table, w.reads, w.downBytes, w.downVals = nil, "-", nil, nil, nil
	w.probeRan = false

	src := w.source(f)
	err := w.ev.Eval(parse.Source{Name: "[c42]", Code: src},
		eval.EvalCfg{Ports: []*eval.Port{{File: w.in0, Chan: eval.ClosedChan}, w.o1, w.o2}})
	w.downWG.Wait()
	// which of the files the form does not own are still open
	var bits strings.Builder
	for _, fl := range []*os.File{w.in0, o1File, o2File, w.fo, w.pr, w.pw} {
		if isOpen(fl) {
			bits.WriteByte('1')
		} else {
			bits.WriteByte('0')
		}
	}
	v1, b1 := get1() // closes the write ends, waits for the collectors
	v2, b2 := get2()
	w.pw.Close()
	pp := "X"
	if isOpen(w.pr) {
		rest, _ := io.ReadAll(w.pr)
		pp = common.Hex(string(rest))
	}
	w.pr.Close()
	w.in0.Close()
	w.fo.Close()
	if strings.Contains(f[1], "o") {
		v1, b1 = w.downVals, w.downBytes
	}
	content := func(name string) string {
		b, err := os.ReadFile(w.path(name))
		if err != nil {
			return "~"
		}
		return common.Hex(string(b))
	}
	// action results
	acts := "-"
	if w.probeRan {
		var rs []string
		ri := 0
		for i, a := range splitList(f[4]) {
			if i >= len(w.probeArgs) {
				rs = append(rs, "missing")
				continue
			}
			c := "ok"
			if e, ok := w.probeArgs[i].(error); ok {
				c = classify(e)
			}
			if a[0] == 'r' && c == "ok" {
				if ri < len(w.reads) {
					c = w.reads[ri]
					ri++
				} else {
					c = "noread"
				}
			}
			rs = append(rs, c)
		}
		if len(rs) > 0 {
			acts = strings.Join(rs, ",")
		}
	}
	files := fmt.Sprintf("a:%s,b:%s,c:%s,o:%s", content("a"), content("b"), content("c"), content("o"))
	for _, n := range []string{"a", "b", "c", "o", "in0"} {
		os.Remove(w.path(n))
	}
	after := countFDs()
	return fmt.Sprintf("exc=%s acts=%s tbl=%s o1=%s/%s o2=%s/%s files=%s pp=%s open=%s leak=%d",
		classify(err), acts, w.table, common.Hex(string(b1)), valsHex(v1), common.Hex(string(b2)), valsHex(v2),
		files, pp, bits.String(), after-before)
}

func valsHex(vs []any) string {
	if len(vs) == 0 {
		return "-"
	}
	var ss []string
	for _, v := range vs {
		ss = append(ss, common.Hex(vals.ToString(v)))
	}
	return strings.Join(ss, ",")
}

// classify maps an error of the real code to the small enum of the model.
func classify(err error) string {
	if err == nil {
		return "ok"
	}
	if exc, ok := err.(eval.Exception); ok {
		r := exc.Reason()
		if r == nil {
			return "ok"
		}
		err = r
	}
	switch e := err.(type) {
	case eval.InvalidFD:
		return fmt.Sprintf("invalid-fd,%d", e.FD)
	case errs.BadValue:
		switch {
		case e.What == "redirection destination":
			return "badval-dst"
		case e.What == "redirection source" && strings.HasPrefix(e.Valid, "fd name"):
			return "badval-srcfd"
		case e.What == "redirection source":
			return "badval-src"
		case e.What == "map for input redirection":
			return "badmap-r"
		case e.What == "map for output redirection":
			return "badmap-w"
		}
		return "badval-other:" + e.What
	case errs.ArityMismatch:
		return "arity"
	case eval.FailError:
		return "fail"
	case eval.PipelineError:
		return "pipeline-error"
	}
	if ce, ok := err.(classErr); ok {
		return string(ce)
	}
	if err == eval.ErrPortDoesNotSupportValueOutput {
		return "no-value-output"
	}
	if c := ioClass("w", err); c != "" {
		return c
	}
	msg := err.Error()
	switch {
	case strings.HasPrefix(msg, "failed to open file") && strings.Contains(msg, "no such file"):
		return "open-enoent"
	case strings.HasPrefix(msg, "failed to open file") && strings.Contains(msg, "is a directory"):
		return "open-eisdir"
	case msg == "can only use < or > with maps":
		return "map-mode"
	}
	return "other:" + strings.ReplaceAll(msg, " ", "_")
}

// classErr is an error of a harness builtin that already carries its class.
type classErr string

func (e classErr) Error() string { return string(e) }

func ioClass(prefix string, err error) string {
	switch {
	case errors.Is(err, os.ErrClosed):
		return prefix + "-closed"
	case errors.Is(err, syscall.EBADF):
		return prefix + "-ebadf"
	case errors.Is(err, syscall.EISDIR):
		return prefix + "-eisdir"
	case errors.Is(err, os.ErrInvalid):
		return prefix + "-invalid"
	}
	var pe *fs.PathError
	if errors.As(err, &pe) {
		return prefix + "-other:" + strings.ReplaceAll(pe.Err.Error(), " ", "_")
	}
	return ""
}

// ---- builtins -------------------------------------------------------------

func (w *worker) fileName(f *os.File) string {
	switch f {
	case nil:
		return "nil"
	case w.in0:
		return "in0"
	case w.o1.File:
		return "o1"
	case w.o2.File:
		return "o2"
	case w.fo:
		return "fo"
	case w.pr:
		return "pr"
	case w.pw:
		return "pw"
	}
	switch f.Name() {
	case "|0":
		return "up"
	case "|1":
		return "dn"
	}
	n := f.Name()
	if strings.HasPrefix(n, w.dir+"/") {
		return n[len(w.dir)+1:]
	}
	return "?" + n
}

func (w *worker) chanName(c chan any) string {
	switch c {
	case nil:
		return "nil"
	case eval.ClosedChan:
		return "closed"
	case w.o1.Chan:
		return "c1"
	case w.o2.Chan:
		return "c2"
	}
	return "pipe"
}

const tableScan = 5000

// probe is the head of the form under test: it records the exceptions of the
// actions (its arguments) and the port table it runs with.
func (w *worker) probe(fm *eval.Frame, args ...any) {
	w.probeArgs = append([]any{}, args...)
	w.probeRan = true
	var ports []*eval.Port
	last := -1
	for i := 0; i < tableScan; i++ {
		p := fm.Port(i)
		ports = append(ports, p)
		if p != nil {
			last = i
		}
	}
	ports = ports[:last+1]
	var es []string
	for _, p := range ports {
		if p == nil {
			es = append(es, "_")
			continue
		}
		fileS := "nil"
		if p.File != nil {
			k := 0
			for j, q := range ports {
				if q != nil && q.File == p.File {
					k = j
					break
				}
			}
			fileS = fmt.Sprintf("%s@%d", w.fileName(p.File), k)
		}
		k := 0
		for j, q := range ports {
			if q == p {
				k = j
				break
			}
		}
		es = append(es, fmt.Sprintf("%s.%s.%d", fileS, w.chanName(p.Chan), k))
	}
	w.table = "-"
	if len(es) > 0 {
		w.table = strings.Join(es, ",")
	}
}

// directWrite writes to the file of port n directly, like an external command would.
func (w *worker) directWrite(fm *eval.Frame, n int, text string) error {
	p := fm.Port(n)
	if p == nil {
		return classErr("noport")
	}
	_, err := p.File.WriteString(text)
	if err != nil {
		if c := ioClass("w", err); c != "" {
			return classErr(c)
		}
	}
	return err
}

// read reads the byte input to its end and describes the value channel.
func (w *worker) read(fm *eval.Frame) {
	f := fm.InputFile()
	var desc string
	switch fm.InputChan() {
	case nil:
		desc = "vnil"
	case eval.ClosedChan:
		desc = "vclosed"
	default:
		desc = "vlive"
	}
	var data []byte
	var err error
	if f == nil {
		err = os.ErrInvalid
	} else {
		if f == w.pr {
			// the write end stays open in the harness: what is there is all there will be
			f.SetReadDeadline(time.Now().Add(15 * time.Millisecond))
		} else {
			f.SetReadDeadline(time.Now().Add(5 * time.Second))
		}
		data, err = io.ReadAll(f)
		f.SetReadDeadline(time.Time{})
		if errors.Is(err, os.ErrDeadlineExceeded) {
			err = nil
		}
	}
	if err != nil {
		c := ioClass("r", err)
		if c == "" {
			c = "r-other:" + strings.ReplaceAll(err.Error(), " ", "_")
		}
		w.reads = append(w.reads, c+"/"+desc)
		return
	}
	w.reads = append(w.reads, "r"+common.Hex(string(data))+"/"+desc)
}

// up is the upstream form of the pipeline contexts.
func (w *worker) up(fm *eval.Frame) error {
	_, err := fm.ByteOutput().WriteString("UP\n")
	return err
}

// down is the downstream form: it drains both bands of its input.
func (w *worker) down(fm *eval.Frame) {
	w.downWG.Add(1)
	defer w.downWG.Done()
	var wg sync.WaitGroup
	wg.Add(1)
	go func() {
		defer wg.Done()
		for v := range fm.InputChan() {
			w.downVals = append(w.downVals, v)
		}
	}()
	w.downBytes, _ = io.ReadAll(fm.InputFile())
	wg.Wait()
}
