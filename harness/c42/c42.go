// Package c42: correspondence and oracle for C42 (redirections route bytes
// and values exactly as specified).
//
// Every op is one generated form `c42probe ACTIONS… REDIRS…`, optionally in a
// pipeline position, executed by the real interpreter in a child process (see
// worker.go).  The oracle is an independent, specification-level interpreter
// of the redirection section of the language reference (spec.go).
package c42

import (
	"bufio"
	"fmt"
	"io"
	"os"
	"os/exec"
	"path/filepath"
	"strconv"
	"strings"
	"time"

	"verifharness/common"
)

func init() { common.Register("C42", run) }

// ---- worker management (parent side) ---------------------------------------

type child struct {
	cmd    *exec.Cmd
	in     io.WriteCloser
	out    *bufio.Reader
	errBuf *tailBuf
}

type tailBuf struct{ b []byte }

func (t *tailBuf) Write(p []byte) (int, error) {
	t.b = append(t.b, p...)
	if len(t.b) > 1<<14 {
		t.b = t.b[len(t.b)-1<<13:]
	}
	return len(p), nil
}

type state struct {
	c         *child
	lastCrash string
	crashes   int
}

func (s *state) spawn() error {
	cmd := exec.Command(os.Args[0])
	cmd.Env = append(os.Environ(), "C42_WORKER=1", "GOMEMLIMIT=2GiB", "GOTRACEBACK=single")
	in, err := cmd.StdinPipe()
	if err != nil {
		return err
	}
	out, err := cmd.StdoutPipe()
	if err != nil {
		return err
	}
	eb := &tailBuf{}
	cmd.Stderr = eb
	if err := cmd.Start(); err != nil {
		return err
	}
	s.c = &child{cmd, in, bufio.NewReaderSize(out, 1<<16), eb}
	return nil
}

func (s *state) kill() {
	if s.c != nil {
		s.c.in.Close()
		s.c.cmd.Process.Kill()
		s.c.cmd.Wait()
		s.c = nil
	}
}

// exec runs one op in the worker.  A worker that dies is a crash of the
// interpreter ("PANIC"); one that does not answer is "TIMEOUT".
func (s *state) exec(op string) string {
	if s.c == nil {
		if err := s.spawn(); err != nil {
			return "SPAWN-FAILED " + err.Error()
		}
	}
	c := s.c
	if _, err := io.WriteString(c.in, op+"\n"); err != nil {
		s.kill()
		return "PANIC"
	}
	type res struct {
		line string
		err  error
	}
	ch := make(chan res, 1)
	go func() {
		l, err := c.out.ReadString('\n')
		ch <- res{l, err}
	}()
	select {
	case r := <-ch:
		line := strings.TrimRight(r.line, "\n")
		if r.err != nil || line == "PANIC" {
			// died (panic on another goroutine, fatal error) or reported a recovered panic
			c.in.Close()
			c.cmd.Wait()
			s.lastCrash = crashSummary(string(c.errBuf.b))
			s.crashes++
			s.c = nil
			return "PANIC"
		}
		return line
	case <-time.After(15 * time.Second):
		s.lastCrash = "no answer in 15s"
		s.kill()
		return "TIMEOUT"
	}
}

func crashSummary(stderr string) string {
	for _, l := range strings.Split(stderr, "\n") {
		if strings.HasPrefix(l, "panic:") || strings.HasPrefix(l, "fatal error:") || strings.HasPrefix(l, "runtime:") {
			return l
		}
	}
	if len(stderr) > 200 {
		stderr = stderr[:200]
	}
	return strings.ReplaceAll(stderr, "\n", " | ")
}

// ---- generator ------------------------------------------------------------------

func sTok(text string) string {
	n, err := strconv.ParseInt(text, 0, 0)
	if err != nil {
		return "S:" + text + ":x"
	}
	return fmt.Sprintf("S:%s:%d", text, n)
}

var hugeFds = []string{"2147483648", "1099511627776", "100000000000", "4611686018427387904", "9223372036854775807"}

func genDst(r *common.Rand, clean bool) string {
	k := r.Intn(100)
	if clean && k >= 76 {
		k = r.Intn(76)
	}
	switch {
	case k < 28:
		return "_"
	case k < 62:
		return sTok(strconv.Itoa(r.Intn(7)))
	case k < 70:
		return sTok(common.Pick(r, []string{"stdin", "stdout", "stderr"}))
	case k < 73:
		return sTok(common.Pick(r, []string{"0x3", "+4", "1_0", "007", "0b101", "0o6", "1022", "1023"}))
	case k < 76:
		return fmt.Sprintf("I:%d", r.Range(0, 8))
	case k < 82:
		return sTok(strconv.Itoa(-1 - r.Intn(3)))
	case k < 87:
		return sTok(common.Pick(r, []string{"abc", "-", "1.5", "9223372036854775808", "08", "-0", "stdio"}))
	case k < 89:
		return fmt.Sprintf("I:%d", r.Range(-3, -1))
	case k < 94:
		return common.Pick(r, []string{"O", "M:0", "M:2", "E"})
	case k < 98:
		return sTok(common.Pick(r, []string{"1024", "1025", "4000", "-1024"}))
	default:
		return sTok(common.Pick(r, hugeFds))
	}
}

// genSrc: open lists the fds known to be open at this point of the form.
func genSrc(r *common.Rand, clean bool, open []string) string {
	k := r.Intn(100)
	if clean && k >= 80 {
		k = r.Intn(80)
	}
	switch {
	case k < 40:
		return "f:" + common.Pick(r, []string{"a", "b", "c"})
	case k < 46:
		return "F"
	case k < 50:
		return "P:rw"
	case k < 70:
		return "&" + sTok(common.Pick(r, open))
	case k < 76:
		return "&" + sTok("-")
	case k < 78:
		return "&" + sTok(common.Pick(r, []string{"stdin", "stdout", "stderr"}))
	case k < 80:
		return "&" + common.Pick(r, []string{sTok("0x2"), "I:1", sTok("+1")})
	case k < 84:
		return "f:" + common.Pick(r, []string{"d", "n/x"})
	case k < 87:
		return "P:" + common.Pick(r, []string{"r", "w", "0"})
	case k < 91:
		return "&" + sTok(strconv.Itoa(r.Intn(10)))
	case k < 94:
		return "&" + sTok(strconv.Itoa(-1-r.Intn(3)))
	case k < 96:
		return "&" + common.Pick(r, []string{sTok("abc"), "I:-1", "O", "M:0", "M:2", "E", sTok("1024"), sTok("2147483648")})
	case k < 97:
		return "X"
	case k < 99:
		return common.Pick(r, []string{"M:0", "M:2"})
	default:
		return "E"
	}
}

var modes = []string{"r", "w", "rw", "a"}

func genFiles(r *common.Rand) string {
	var es []string
	for _, n := range []string{"a", "b", "c"} {
		c := common.Pick(r, []string{"~", "-", common.Hex(strings.ToUpper(n) + strings.ToUpper(n) + strings.ToUpper(n) + "\n"), common.Hex(strings.Repeat(strings.ToUpper(n), 9))})
		es = append(es, n+":"+c)
	}
	return strings.Join(es, ",")
}

// fds the redirections mention, for aiming the actions
func mentioned(redirs []string) []string {
	out := []string{"_", "0", "1", "2", "3"}
	for _, rd := range redirs {
		p := strings.Split(rd, "|")
		for _, t := range []string{p[0], strings.TrimPrefix(p[2], "&")} {
			q := strings.Split(t, ":")
			if (q[0] == "S" && len(q) == 3 && q[2] != "x") || q[0] == "I" {
				if n, err := strconv.Atoi(q[len(q)-1]); err == nil && n >= 0 && n < 20 {
					out = append(out, strconv.Itoa(n), strconv.Itoa(n))
				}
			}
		}
	}
	return out
}

func genActions(r *common.Rand, redirs []string, n int) []string {
	fds := mentioned(redirs)
	var as []string
	for i := 0; i < n; i++ {
		fd := common.Pick(r, fds)
		text := common.Hex(common.Pick(r, []string{"x", "yy", "zzz", "w1", "q"}) + strconv.Itoa(i))
		switch k := r.Intn(10); {
		case k < 4:
			as = append(as, "e:"+fd+":"+text)
		case k < 7:
			as = append(as, "p:"+fd+":"+text)
		case k < 8:
			if fd == "_" {
				fd = "1"
			}
			as = append(as, "d:"+fd+":"+text)
		default:
			as = append(as, "r:"+fd)
		}
	}
	return as
}

func joinList(xs []string) string {
	if len(xs) == 0 {
		return "-"
	}
	return strings.Join(xs, ";")
}

func gen(c *common.Ctx, emit func(...string)) {
	r := c.Rand
	out := func(ctx, files string, redirs, actions []string) {
		emit("run", ctx, files, joinList(redirs), joinList(actions))
	}
	std := "a:~,b:" + common.Hex("BBB\n") + ",c:" + common.Hex("CCCCCCCCC")
	// 1. every single redirection over a small alphabet, with a fixed body
	dsts := []string{"_", sTok("0"), sTok("1"), sTok("2"), sTok("3"), sTok("5"), sTok("-1"), sTok("stdin"), sTok("stderr"), sTok("-"), sTok("abc")}
	srcs := []string{"f:a", "f:b", "f:c", "f:n/x", "f:d", "F", "P:rw", "P:0", "&" + sTok("0"), "&" + sTok("1"), "&" + sTok("2"), "&" + sTok("3"),
		"&" + sTok("-"), "&" + sTok("-1"), "&" + sTok("-2"), "&" + sTok("stdout"), "X"}
	for _, d := range dsts {
		for _, m := range modes {
			for _, s := range srcs {
				fd := "_"
				if q := strings.Split(d, ":"); q[0] == "S" && q[2] != "x" && q[2][0] != '-' {
					fd = q[2]
				} else if d == "_" && m == "r" {
					fd = "0"
				}
				acts := []string{"e:" + fd + ":" + common.Hex("x1"), "p:" + fd + ":" + common.Hex("v1"), "e:" + fd + ":" + common.Hex("x2"), "r:" + fd, "e:_:" + common.Hex("o")}
				out("p", std, []string{d + "|" + m + "|" + s}, acts)
			}
		}
	}
	// 2. every pair of file/dup/close redirections over fds {1,3,4}, to reach every override/duplicate interleaving
	small := []string{}
	for _, d := range []string{"1", "3", "4"} {
		for _, s := range []string{"w|f:a", "a|f:b", "rw|f:c", "w|&" + sTok("1"), "w|&" + sTok("3"), "w|&" + sTok("4"), "w|&" + sTok("-")} {
			small = append(small, sTok(d)+"|"+s)
		}
	}
	body := []string{"e:1:" + common.Hex("p"), "e:3:" + common.Hex("q"), "e:4:" + common.Hex("r"), "p:3:" + common.Hex("v"), "e:1:" + common.Hex("s")}
	for _, r1 := range small {
		for _, r2 := range small {
			out("p", std, []string{r1, r2}, body)
		}
	}
	// open a file, duplicate it, then anything: the duplicate must survive whatever happens to its source
	for _, r1 := range small {
		p1 := strings.Split(r1, "|")
		if !strings.HasPrefix(p1[2], "f:") {
			continue
		}
		for _, d2 := range []string{"1", "3", "4"} {
			if sTok(d2) == p1[0] {
				continue
			}
			for _, r3 := range small {
				out("p", std, []string{r1, sTok(d2) + "|w|&" + p1[0], r3}, body)
			}
		}
	}
	if c.Thorough() {
		for _, r1 := range small {
			for _, r2 := range small {
				for _, r3 := range small {
					out("p", std, []string{r1, r2, r3}, body)
				}
			}
		}
	}
	// 3. pipeline positions × what is done to the pipe ports
	for _, ctx := range []string{"i", "o", "io"} {
		for _, rs := range [][]string{
			{"_|r|f:b"}, {"_|w|f:a"}, {sTok("3") + "|r|&" + sTok("0"), "_|r|f:b"}, {sTok("3") + "|w|&" + sTok("1"), "_|w|f:a"},
			{"_|r|&" + sTok("-")}, {"_|w|&" + sTok("-")}, {sTok("0") + "|r|&" + sTok("0")}, {sTok("1") + "|w|&" + sTok("1")},
			{sTok("5") + "|w|f:c"}, {"_|r|&" + sTok("7")}, {"_|w|f:n/x"}, {"_|r|f:b", "_|r|f:c"}, {"_|r|F"},
		} {
			// `put >&0` / `put >&3`: value output into the form's own input pipe (or a duplicate of it) must raise
			out(ctx, std, rs, []string{"r:_", "e:_:" + common.Hex("x"), "p:_:" + common.Hex("v"), "p:0:" + common.Hex("w"), "r:3", "e:3:" + common.Hex("y"), "p:3:" + common.Hex("z")})
		}
	}
	// 4. fd values at and beyond every bound, as destination and as source
	for _, t := range append([]string{"-9223372036854775808", "-2147483649", "-1024", "-2", "-1", "-0", "0", "1022", "1023", "1024", "1025", "4000",
		"4294967296", "0x7fffffff", "9223372036854775808", "-9223372036854775809"}, hugeFds...) {
		for _, m := range []string{"r", "w"} {
			out("p", std, []string{sTok(t) + "|" + m + "|f:a"}, []string{"e:_:" + common.Hex("x")})
			out("p", std, []string{"_|" + m + "|&" + sTok(t)}, []string{"e:_:" + common.Hex("x")})
			out("p", std, []string{sTok("3") + "|w|f:b", sTok(t) + "|" + m + "|&" + sTok("3")}, []string{"e:_:" + common.Hex("x")})
		}
		if n, err := strconv.ParseInt(t, 0, 0); err == nil {
			out("p", std, []string{fmt.Sprintf("I:%d|w|f:a", n)}, []string{"e:_:" + common.Hex("x")})
			out("o", std, []string{sTok(t) + "|w|f:a"}, []string{"e:_:" + common.Hex("x")})
		}
	}
	// 5. random forms with 1..4 redirections
	n := c.Scale(2000, 60000)
	for i := 0; i < n; i++ {
		ctx := "p"
		switch k := r.Intn(100); {
		case k < 7:
			ctx = "i"
		case k < 14:
			ctx = "o"
		case k < 18:
			ctx = "io"
		}
		var redirs []string
		clean := r.Chance(3, 5)
		open := []string{"0", "1", "2"}
		for k := r.Range(1, 4); k > 0; k-- {
			d, m := genDst(r, clean), common.Pick(r, modes)
			if clean && r.Chance(1, 2) {
				m = common.Pick(r, []string{"w", "w", "a", "rw"}) // a map source only works with < and >
			}
			src := genSrc(r, clean, open)
			if clean && strings.HasPrefix(src, "P:") {
				m = common.Pick(r, []string{"r", "w"})
			}
			redirs = append(redirs, d+"|"+m+"|"+src)
			if q := strings.Split(d, ":"); len(q) > 1 && (q[0] == "S" || q[0] == "I") && q[len(q)-1] != "x" {
				open = append(open, q[len(q)-1], q[len(q)-1])
			}
		}
		out(ctx, genFiles(r), redirs, genActions(r, redirs, r.Range(1, 6)))
	}
}

// ---- run ------------------------------------------------------------------------

func run(c *common.Ctx) error {
	// the children's private directories go into the run's scratch directory, which the
	// check removes: a child that is killed cannot remove its own
	if c.Dir != "" {
		tmp := filepath.Join(c.Dir, "tmp")
		os.MkdirAll(tmp, 0o755)
		os.Setenv("TMPDIR", tmp)
	}
	st := &state{}
	defer st.kill()
	s := &common.Std{
		Rule: "forms `c42probe ACTIONS REDIRS` in plain / pipe-input / pipe-output position: every single redirection over an 11×4×17 alphabet, " +
			"every pair (thorough: triple) of file/dup/close redirections over fds {1,3,4}, fd values at every bound (−2^63 … 2^63−1, names, bases, non-numbers, " +
			"non-strings, arity errors) as destination and source, and random forms with 1..4 redirections over fds {−3..9, 1022..1025, 4000, 2^31, 2^40, 2^62, 2^63−1, names, '-'} " +
			"and files a, b, c (absent/empty/short/long), a directory, a path without parent, a file object, a pipe map; actions echo/put/direct write/read on chosen fds. " +
			"Executed by the real interpreter in a child process; file contents, outputs, per-action results, exception classes, the port table, open state of foreign files " +
			"and the fd count are compared. Non-trivial = not a lone plain `>file`/`<file`; distinct by op line",
		ExhaustiveNote: "single redirections: 11 destinations × 4 operators × 17 sources; pairs over {1,3,4}×7 sources (thorough: triples)",
		Gen:            gen,
		NewState:       func(*common.Ctx) any { return st },
		Impl:           func(_ any, f []string) string { return st.exec(strings.Join(f, "\t")) },
		Oracle:         func(_ any, f []string, out string) (string, string) { return oracle(st, f, out) },
		Tag:            tag,
		Timeout:        40 * time.Second,
	}
	return s.Run(c)
}

// ---- tags -------------------------------------------------------------------------

func tag(f []string, out string) string {
	if f[0] != "run" {
		return ""
	}
	redirs := splitList(f[3])
	ctx := f[1]
	pre := ""
	if ctx != "p" {
		pre = "pipe-" + ctx + ":"
	}
	if out == "PANIC" || out == "TIMEOUT" {
		return pre + "crash"
	}
	exc := field(out, "exc")
	if exc != "ok" {
		if i := strings.IndexByte(exc, ','); i >= 0 {
			n, _ := strconv.ParseInt(exc[i+1:], 10, 64)
			switch {
			case n < 0:
				return pre + "exc:invalid-fd-negative"
			case n > 5000:
				return pre + "exc:invalid-fd-huge"
			case n > 1023:
				return pre + "exc:invalid-fd-beyond-bound"
			}
			return pre + "exc:invalid-fd-unopened"
		}
		return pre + "exc:" + exc
	}
	// successful redirections: name the most intricate feature
	dsts := map[string]int{}
	feat := map[string]bool{}
	s := newSpec(ctx, f[2], "")
	for _, rd := range redirs {
		p := strings.Split(rd, "|")
		d, _, _ := s.evalFd(p[0], false, p[1])
		src := p[2]
		if strings.HasPrefix(src, "&") {
			n, cl, _ := s.evalFd(src[1:], true, p[1])
			switch {
			case cl:
				feat["close"] = true
			case n == d:
				feat["self-dup"] = true
			default:
				feat["dup"] = true
				if _, later := dsts[fmt.Sprint(n)]; later {
					feat["dup-of-redirected"] = true
				}
			}
		} else {
			feat[map[string]string{"r": "read", "w": "write", "rw": "readwrite", "a": "append"}[p[1]]] = true
			switch {
			case src == "F":
				feat["file-object"] = true
			case strings.HasPrefix(src, "P"):
				feat["pipe-map"] = true
			}
		}
		if d > 2 {
			feat["new-fd"] = true
		}
		dsts[fmt.Sprint(d)]++
		if dsts[fmt.Sprint(d)] > 1 {
			feat["override"] = true
		}
		s.redirs([]string{rd})
	}
	if s.dupThenOverride {
		feat["dup-then-source-overridden"] = true
	}
	for _, k := range []string{"dup-then-source-overridden", "self-dup", "override", "dup-of-redirected", "close", "dup", "pipe-map", "file-object", "readwrite", "append", "new-fd", "read", "write"} {
		if feat[k] {
			if (k == "read" || k == "write") && len(redirs) == 1 && ctx == "p" {
				return "" // a lone plain file redirection is the trivial case
			}
			return pre + k
		}
	}
	return pre + "other"
}

// field extracts `key=value` from an output line.
func field(line, key string) string {
	for _, p := range strings.Split(line, " ") {
		if strings.HasPrefix(p, key+"=") {
			return p[len(key)+1:]
		}
	}
	return ""
}
