package c11

import (
	"fmt"
	"math"
	"math/big"
	"strings"

	"verifharness/common"
)

func init() { common.Register("C11", run) }

// ---------------------------------------------------------------- generators

func bi(s string) *big.Int {
	z, ok := new(big.Int).SetString(s, 0)
	if !ok {
		panic(s)
	}
	return z
}

func pow2(k uint) *big.Int { return new(big.Int).Lsh(big.NewInt(1), k) }

// G holds the value pools.
type G struct{ r *common.Rand }

func (g G) randBits(bits int) *big.Int {
	z := new(big.Int)
	for i := 0; i < (bits+63)/64; i++ {
		z.Lsh(z, 64)
		z.Or(z, new(big.Int).SetUint64(g.r.U64()))
	}
	z.Rsh(z, uint(z.BitLen()-bits))
	return z
}

// Int: an integer (as *big.Int, canonicalised later) biased to 0, ±1 and the
// ±2^63 boundaries.
func (g G) Int() *big.Int {
	var z *big.Int
	switch g.r.Intn(12) {
	case 0:
		z = big.NewInt(0)
	case 1:
		z = big.NewInt(int64(g.r.Range(-2, 2)))
	case 2, 3:
		z = big.NewInt(int64(g.r.Range(-30, 30)))
	case 4: // around ±2^63
		z = pow2(63)
		z.Add(z, big.NewInt(int64(g.r.Range(-3, 3))))
		if g.r.Bool() {
			z.Neg(z)
		}
	case 5: // around ±2^64, ±2^62, ±2^32, ±2^31
		z = pow2(common.Pick(g.r, []uint{31, 32, 62, 64, 65}))
		z.Add(z, big.NewInt(int64(g.r.Range(-2, 2))))
		if g.r.Bool() {
			z.Neg(z)
		}
	case 6, 7: // random int64
		z = big.NewInt(int64(g.r.U64()))
	case 8: // random medium
		z = big.NewInt(int64(g.r.U64() >> uint(g.r.Range(20, 56))))
		if g.r.Bool() {
			z.Neg(z)
		}
	default: // genuinely big
		z = g.randBits(g.r.Range(64, 140))
		if g.r.Bool() {
			z.Neg(z)
		}
	}
	return z
}

// Rat: a rational, sometimes integral, sometimes a half-integer (rounding ties).
func (g G) Rat() *big.Rat {
	switch g.r.Intn(8) {
	case 0: // half-integers incl. big ones
		n := g.Int()
		n.Lsh(n, 1)
		n.Add(n, big.NewInt(1))
		return new(big.Rat).SetFrac(n, big.NewInt(2))
	case 1, 2: // small
		return big.NewRat(int64(g.r.Range(-40, 40)), int64(g.r.Range(1, 12)))
	case 3: // integer / small
		return new(big.Rat).SetFrac(g.Int(), big.NewInt(int64(g.r.Range(1, 7))))
	case 4: // just off a half
		n := g.Int()
		d := big.NewInt(int64(g.r.Range(3, 1000)) * 2)
		n.Mul(n, d)
		n.Add(n, new(big.Int).Rsh(d, 1))
		n.Add(n, big.NewInt(int64(g.r.Range(-1, 1))))
		return new(big.Rat).SetFrac(n, d)
	default:
		d := g.Int()
		if d.Sign() == 0 {
			d = big.NewInt(3)
		}
		return new(big.Rat).SetFrac(g.Int(), d)
	}
}

// Exact: any exact number in canonical representation.
func (g G) Exact() any {
	if g.r.Chance(2, 5) {
		return Canon(g.Rat())
	}
	return Canon(g.Int())
}

var specialFloats = []float64{0, math.Copysign(0, -1), 1, -1, 1.5, -2.5, 0.5, 1e308, -1e308, 5e-324,
	math.Inf(1), math.Inf(-1), math.NaN(), 9007199254740992, 9223372036854775808, 1e19}

func (g G) Float() float64 {
	if g.r.Chance(1, 2) {
		return common.Pick(g.r, specialFloats)
	}
	if g.r.Chance(1, 3) {
		return float64(g.r.Range(-50, 50)) / 4
	}
	return math.Float64frombits(g.r.U64())
}

func encAll(vs []any) []string {
	out := make([]string, len(vs))
	for i, v := range vs {
		out[i] = Enc(v)
	}
	return out
}

func gen(c *common.Ctx, emit func(...string)) {
	g := G{c.Rand}
	r := c.Rand
	call := func(cmd string, step any, args ...any) {
		st := "-"
		if step != nil {
			st = Enc(step)
		}
		emit(append([]string{cmd, st}, encAll(args)...)...)
	}
	exacts := func(n int) []any {
		vs := make([]any, n)
		for i := range vs {
			vs[i] = g.Exact()
		}
		return vs
	}
	n := c.Scale(3000, 100000)

	// --- + - * : 0..6 exact args, plus lists built to land on/near a boundary
	for i := 0; i < n; i++ {
		for _, cmd := range []string{"+", "-", "*"} {
			call(cmd, nil, exacts(r.Range(0, 6))...)
		}
		// sums/differences that cancel back into (or just out of) the int range
		t := g.Int()
		a := g.Exact()
		rest := new(big.Rat).Sub(new(big.Rat).SetInt(t), toRat(a))
		call("+", nil, a, Canon(rest))
		call("-", nil, Canon(new(big.Rat).Add(toRat(a), new(big.Rat).SetInt(t))), a)
		// products that are integral / on the boundary
		p, q := int64(r.Range(1, 9)), int64(r.Range(1, 9))
		call("*", nil, Canon(big.NewRat(p, q)), Canon(big.NewRat(q*int64(r.Range(-3, 3)), p)), g.Exact())
		k := uint(r.Range(0, 63))
		x, y := pow2(k), pow2(63-k)
		if r.Bool() {
			x.Neg(x)
		}
		call("*", nil, Canon(x), Canon(y))
	}
	// --- exact-zero rules of * and / with inexact arguments
	for i := 0; i < n; i++ {
		m := r.Range(1, 5)
		vs := make([]any, m)
		for j := range vs {
			switch r.Intn(4) {
			case 0:
				vs[j] = 0
			case 1:
				vs[j] = g.Exact()
			default:
				vs[j] = g.Float()
			}
		}
		call("*", nil, vs...)
		call("/", nil, vs...)
		vs2 := append([]any{0}, vs...)
		call("/", nil, vs2...)
	}
	// --- / : 1..5 exact args; zero divisors at every position
	for i := 0; i < n; i++ {
		vs := exacts(r.Range(1, 5))
		call("/", nil, vs...)
		if r.Chance(1, 4) {
			vs[r.Intn(len(vs))] = 0
			call("/", nil, vs...)
		}
		// integral quotients
		d := g.Int()
		if d.Sign() != 0 {
			qv := g.Int()
			call("/", nil, Canon(new(big.Int).Mul(d, qv)), Canon(d))
		}
	}
	call("/", nil, 0)
	// --- %
	for i := 0; i < n; i++ {
		call("%", nil, Canon(g.Int()), Canon(g.Int()))
		if r.Chance(1, 5) {
			call("%", nil, g.Exact(), g.Exact())
		}
		if r.Chance(1, 10) {
			call("%", nil, Canon(g.Int()), g.Float())
			call("%", nil, Canon(g.Int()))
			call("%", nil, 1, 2, 3)
		}
	}
	for _, a := range []int{math.MinInt64, math.MaxInt64, -1, 0, 1, 7, -7} {
		for _, b := range []int{math.MinInt64, math.MaxInt64, -1, 0, 1, 2, -2} {
			call("%", nil, a, b)
		}
	}
	// --- range: bounded output count
	for i := 0; i < n; i++ {
		genRange(g, call)
	}
	call("range", nil)
	call("range", nil, 1, 2, 3)
	// --- integerizers and abs
	for i := 0; i < n; i++ {
		v := g.Exact()
		for _, cmd := range []string{"abs", "ceil", "floor", "round", "round-to-even", "trunc"} {
			if cmd == "abs" || r.Chance(1, 2) {
				call(cmd, nil, v)
			}
		}
	}
	call("abs", nil)
	call("floor", nil, 1, 2)
	// --- min max
	for i := 0; i < n; i++ {
		vs := exacts(r.Range(0, 6))
		call("max", nil, vs...)
		call("min", nil, vs...)
		// near ties: same value in different magnitudes
		if len(vs) > 0 {
			w := toRat(vs[0])
			vs2 := append([]any{Canon(new(big.Rat).Add(w, big.NewRat(1, int64(r.Range(1, 5)))))}, vs...)
			call("max", nil, vs2...)
			call("min", nil, vs2...)
		}
	}
	// --- pow: |exp| ≤ 200 unless the base is 0 or ±1 (huge exponents do not terminate otherwise)
	for i := 0; i < n; i++ {
		var base any
		switch r.Intn(6) {
		case 0:
			base = r.Range(-1, 1)
		case 1:
			base = r.Range(-12, 12)
		case 2:
			base = Canon(big.NewRat(int64(r.Range(-9, 9)), int64(r.Range(1, 9))))
		default:
			base = g.Exact()
		}
		var e any
		switch r.Intn(5) {
		case 0:
			e = r.Range(-2, 2)
		case 1, 2:
			e = r.Range(-8, 8)
		default:
			e = r.Range(-200, 200)
		}
		if toRat(base).Num().BitLen() > 80 || toRat(base).Denom().BitLen() > 80 {
			e = r.Range(-40, 40)
		}
		call("pow", nil, base, e)
		if r.Chance(1, 8) {
			big1 := Canon(g.Int())
			call("pow", nil, r.Range(-1, 1), big1) // huge exponents: only bases 0, ±1
			call("pow", nil, 0, e)
		}
	}
	call("pow", nil, 2)
}

func toRat(v any) *big.Rat {
	switch v := v.(type) {
	case int:
		return new(big.Rat).SetInt64(int64(v))
	case *big.Int:
		return new(big.Rat).SetInt(v)
	case *big.Rat:
		return new(big.Rat).Set(v)
	}
	panic("toRat: not exact")
}

func genRange(g G, call func(string, any, ...any)) {
	r := g.r
	count := int64(r.Range(0, 40))
	var start, step *big.Rat
	kind := r.Intn(5)
	switch kind {
	case 0: // small ints
		start = big.NewRat(int64(r.Range(-20, 20)), 1)
		step = big.NewRat(int64(r.Range(1, 5)), 1)
	case 1: // near the top/bottom of int64: the wrap guards
		step = big.NewRat(int64(r.Range(1, 9)), 1)
		if r.Chance(1, 3) {
			step = new(big.Rat).SetInt(new(big.Int).Rsh(pow2(63), uint(r.Range(1, 4))))
		}
		off := new(big.Rat).Mul(step, big.NewRat(int64(r.Range(0, 20)), 1))
		start = new(big.Rat).Sub(new(big.Rat).SetInt(bigMaxInt), off)
		start.Add(start, big.NewRat(int64(r.Range(-3, 0)), 1))
	case 2: // crossing into big ints
		start = new(big.Rat).SetInt(new(big.Int).Add(pow2(63), big.NewInt(int64(r.Range(-30, 5)))))
		step = big.NewRat(int64(r.Range(1, 4)), 1)
	case 3: // rationals
		start = g.Rat()
		step = big.NewRat(int64(r.Range(1, 7)), int64(r.Range(1, 7)))
	default: // anything integral
		start = new(big.Rat).SetInt(g.Int())
		step = new(big.Rat).SetInt(g.Int())
		step.Abs(step)
		if step.Sign() == 0 {
			step.SetInt64(1)
		}
	}
	// end = start + count*step - frac*step
	end := new(big.Rat).Mul(step, big.NewRat(count, 1))
	if count > 0 && r.Bool() {
		end.Sub(end, new(big.Rat).Mul(step, big.NewRat(int64(r.Range(0, 3)), 4)))
	}
	end.Add(end, start)
	if kind == 1 && end.Cmp(new(big.Rat).SetInt(bigMaxInt)) > 0 && r.Chance(2, 3) {
		end.SetInt(bigMaxInt) // all-int call whose progression leaves int64
	}
	if r.Bool() { // descending mirror
		start.Neg(start)
		end.Neg(end)
		step.Neg(step)
		if kind == 1 && end.Cmp(new(big.Rat).SetInt(bigMinInt)) < 0 {
			end.SetInt(bigMinInt)
		}
	}
	var st any
	isUnit := step.Cmp(big.NewRat(1, 1)) == 0 || step.Cmp(big.NewRat(-1, 1)) == 0
	switch {
	case isUnit && r.Bool():
		st = nil
	case r.Chance(1, 12):
		st = Canon(new(big.Rat).Neg(step)) // wrong sign
	case r.Chance(1, 20):
		st = 0
	default:
		st = Canon(step)
	}
	if start.Sign() == 0 && r.Bool() && st == nil {
		call("range", st, Canon(end))
		return
	}
	call("range", st, Canon(start), Canon(end))
}

// -------------------------------------------------------------------- impl

func impl(st any, f []string) string {
	cmd, step, args := ParseOp(f)
	outs, exc := st.(*Runner).Run(cmd, step, args, strings.Join(f, "\t"))
	return Show(outs, exc, true)
}

// ------------------------------------------------------------------ oracle
//
// The property evaluated directly, with math/big rationals as the reference
// arithmetic and no use of elvish's own number code.

type expect struct {
	vals []*big.Rat
	exc  string // expected exception class ("" = none)
}

func isExactV(v any) bool { _, f := v.(float64); return !f }

func isIntV(v any) bool {
	switch v.(type) {
	case int, *big.Int:
		return true
	}
	return false
}

func isZeroV(v any) bool { return isExactV(v) && toRat(v).Sign() == 0 }

func ratOf(n int64) *big.Rat { return new(big.Rat).SetInt64(n) }

// nearestInt returns the integer chosen by pick among ⌊q⌋ and ⌊q⌋+1.
func floorOf(q *big.Rat) *big.Int {
	// largest n with n ≤ q: start from the truncated quotient and adjust
	n := new(big.Int).Quo(q.Num(), q.Denom())
	for new(big.Rat).SetInt(n).Cmp(q) > 0 {
		n.Sub(n, big.NewInt(1))
	}
	for new(big.Rat).SetInt(new(big.Int).Add(n, big.NewInt(1))).Cmp(q) <= 0 {
		n.Add(n, big.NewInt(1))
	}
	return n
}

func integerizeOracle(cmd string, q *big.Rat) *big.Rat {
	fl := floorOf(q)
	flr := new(big.Rat).SetInt(fl)
	if flr.Cmp(q) == 0 {
		return flr
	}
	up := new(big.Rat).Add(flr, ratOf(1))
	switch cmd {
	case "floor":
		return flr
	case "ceil":
		return up
	case "trunc":
		if q.Sign() < 0 {
			return up
		}
		return flr
	}
	// round / round-to-even: compare distance to the two neighbours
	dLo := new(big.Rat).Sub(q, flr)
	dHi := new(big.Rat).Sub(up, q)
	switch c := dLo.Cmp(dHi); {
	case c < 0:
		return flr
	case c > 0:
		return up
	}
	if cmd == "round" { // ties away from zero
		if q.Sign() < 0 {
			return flr
		}
		return up
	}
	if fl.Bit(0) == 0 { // ties to even
		return flr
	}
	return up
}

func powOracle(base *big.Rat, e *big.Int) (*big.Rat, string) {
	if e.Sign() < 0 {
		if base.Sign() == 0 {
			return nil, "div0"
		}
		base = new(big.Rat).Inv(base)
		e = new(big.Int).Neg(e)
	}
	one := ratOf(1)
	switch {
	case e.Sign() == 0:
		return one, ""
	case base.Sign() == 0:
		return new(big.Rat), ""
	case base.Cmp(one) == 0:
		return one, ""
	case base.Cmp(ratOf(-1)) == 0:
		if e.Bit(0) == 0 {
			return one, ""
		}
		return ratOf(-1), ""
	}
	if !e.IsInt64() || e.Int64() > 100000 {
		return nil, "skip"
	}
	acc := ratOf(1)
	for i := int64(0); i < e.Int64(); i++ { // plain repeated multiplication
		acc.Mul(acc, base)
	}
	return acc, ""
}

// expected computes what the property demands for exact arguments; ok=false
// means the op is outside the property (nothing to check).
func expected(cmd string, step any, args []any) (exp expect, ok bool) {
	rs := make([]*big.Rat, len(args))
	for i, a := range args {
		rs[i] = toRat(a)
	}
	one := func(q *big.Rat) (expect, bool) { return expect{vals: []*big.Rat{q}}, true }
	exc := func(c string) (expect, bool) { return expect{exc: c}, true }
	switch cmd {
	case "+":
		acc := new(big.Rat)
		for _, q := range rs {
			acc.Add(acc, q)
		}
		return one(acc)
	case "*":
		acc := ratOf(1)
		for _, q := range rs {
			acc.Mul(acc, q)
		}
		return one(acc)
	case "-":
		if len(rs) == 0 {
			return exc("arity")
		}
		if len(rs) == 1 {
			return one(new(big.Rat).Neg(rs[0]))
		}
		acc := new(big.Rat).Set(rs[0])
		for _, q := range rs[1:] {
			acc.Sub(acc, q)
		}
		return one(acc)
	case "/":
		if len(rs) == 0 {
			return expect{}, false
		}
		if len(rs) == 1 { // reciprocal: / x ≡ / 1 x
			rs = append([]*big.Rat{ratOf(1)}, rs...)
		}
		acc := new(big.Rat).Set(rs[0])
		for _, q := range rs[1:] {
			if q.Sign() == 0 {
				return exc("div0")
			}
			acc.Quo(acc, q)
		}
		return one(acc)
	case "%":
		if len(args) != 2 {
			return exc("arity")
		}
		if !isIntV(args[0]) || !isIntV(args[1]) {
			return exc("exact-int")
		}
		if rs[1].Sign() == 0 {
			return exc("div0")
		}
		// the remainder with the sign of the dividend: a - b*trunc(a/b)
		a, b := rs[0].Num(), rs[1].Num()
		qa := new(big.Int).Quo(new(big.Int).Abs(a), new(big.Int).Abs(b)) // ⌊|a|/|b|⌋
		rem := new(big.Int).Sub(new(big.Int).Abs(a), new(big.Int).Mul(qa, new(big.Int).Abs(b)))
		if a.Sign() < 0 {
			rem.Neg(rem)
		}
		return one(new(big.Rat).SetInt(rem))
	case "range":
		var start, end *big.Rat
		switch len(rs) {
		case 1:
			start, end = new(big.Rat), rs[0]
		case 2:
			start, end = rs[0], rs[1]
		default:
			return exc("arity")
		}
		up := start.Cmp(end) <= 0
		var st *big.Rat
		if step != nil {
			st = toRat(step)
			if up && st.Sign() <= 0 {
				return exc("step-positive")
			}
			if !up && st.Sign() >= 0 {
				return exc("step-negative")
			}
		} else if up {
			st = ratOf(1)
		} else {
			st = ratOf(-1)
		}
		var out []*big.Rat
		for k := int64(0); k < 5000; k++ {
			cur := new(big.Rat).Add(start, new(big.Rat).Mul(ratOf(k), st))
			if up && cur.Cmp(end) >= 0 || !up && cur.Cmp(end) <= 0 {
				return expect{vals: out}, true
			}
			out = append(out, cur)
		}
		return expect{}, false
	case "abs":
		if len(rs) != 1 {
			return exc("arity")
		}
		return one(new(big.Rat).Abs(rs[0]))
	case "ceil", "floor", "round", "round-to-even", "trunc":
		if len(rs) != 1 {
			return exc("arity")
		}
		return one(integerizeOracle(cmd, rs[0]))
	case "max", "min":
		if len(rs) == 0 {
			return exc("arity")
		}
		m := rs[0]
		for _, q := range rs[1:] {
			if cmd == "max" && q.Cmp(m) > 0 || cmd == "min" && q.Cmp(m) < 0 {
				m = q
			}
		}
		return one(m)
	case "pow":
		if len(rs) != 2 {
			return exc("arity")
		}
		if !isIntV(args[1]) {
			return expect{}, false // non-integer exponent: inexact result, not C11
		}
		v, e := powOracle(rs[0], rs[1].Num())
		if e == "skip" {
			return expect{}, false
		}
		if e != "" {
			return exc(e)
		}
		return one(v)
	}
	return expect{}, false
}

// canonicalOut checks that an output token is the canonical representation
// of the exact value want.
func canonicalOut(tok string, want *big.Rat) string {
	if len(tok) < 3 {
		return "unparsable output " + tok
	}
	if tok[0] == 'f' || tok[0] == '?' {
		return "inexact or non-number output " + tok + " for exact arguments"
	}
	got := toRat(Dec(tok))
	if got.Cmp(want) != 0 {
		return fmt.Sprintf("value %s, mathematically %s", tok, want.RatString())
	}
	var kind byte
	switch {
	case !want.IsInt():
		kind = 'r'
	case want.Num().Cmp(bigMinInt) >= 0 && want.Num().Cmp(bigMaxInt) <= 0:
		kind = 'i'
	default:
		kind = 'b'
	}
	if tok[0] != kind {
		return fmt.Sprintf("non-canonical representation %s (want kind %c)", tok, kind)
	}
	return ""
}

func oracle(_ any, f []string, out string) (string, string) {
	cmd, step, args := ParseOp(f)
	if out == "PANIC" || out == "TIMEOUT" {
		return "crash-" + slug(cmd), out
	}
	if strings.HasPrefix(out, "EXC ARG-MUTATED") {
		return "argument-mutated-" + slug(cmd), "the command changed one of its (immutable) number arguments in place: " + out
	}
	allExact := step == nil || isExactV(step)
	for _, a := range args {
		allExact = allExact && isExactV(a)
	}
	if cmd == "%" && len(args) == 2 && (!isIntV(args[0]) || !isIntV(args[1])) {
		if out != "EXC exact-int" {
			return "missing-exception-rem-exact-int", "want exception exact-int, got " + out
		}
		return "", ""
	}
	if !allExact {
		// only the documented exact-zero rules are C11's business
		switch cmd {
		case "*":
			has0, hasInf := false, false
			for _, a := range args {
				if v, ok := a.(int); ok && v == 0 {
					has0 = true
				}
				if v, ok := a.(float64); ok && math.IsInf(v, 0) {
					hasInf = true
				}
			}
			if has0 && !hasInf && out != "i:0" {
				return "mul-exact-zero-rule", "want exact 0, got " + out
			}
		case "/":
			if len(args) < 2 {
				return "", ""
			}
			for _, a := range args[1:] {
				if v, ok := a.(int); ok && v == 0 {
					if out != "EXC div0" {
						return "div-by-exact-zero", "want divide-by-zero exception, got " + out
					}
					return "", ""
				}
			}
			if v, ok := args[0].(int); ok && v == 0 && out != "i:0" {
				return "div-exact-zero-rule", "want exact 0, got " + out
			}
		}
		return "", ""
	}
	exp, ok := expected(cmd, step, args)
	if !ok {
		return "", ""
	}
	if exp.exc != "" {
		if out != "EXC "+exp.exc {
			return "missing-exception-" + slug(cmd) + "-" + exp.exc, "want exception " + exp.exc + ", got " + out
		}
		return "", ""
	}
	if strings.HasPrefix(out, "EXC") {
		return "spurious-exception-" + slug(cmd), out
	}
	var toks []string
	if out != "-" {
		toks = strings.Split(out, " ")
	}
	if len(toks) != len(exp.vals) {
		return "wrong-output-count-" + slug(cmd), fmt.Sprintf("got %d outputs, want %d", len(toks), len(exp.vals))
	}
	for i, tok := range toks {
		if msg := canonicalOut(tok, exp.vals[i]); msg != "" {
			cls := "wrong-value-"
			if strings.HasPrefix(msg, "non-canonical") {
				cls = "non-canonical-"
			}
			return cls + slug(cmd), fmt.Sprintf("output %d: %s", i, msg)
		}
	}
	return "", ""
}

func slug(cmd string) string {
	switch cmd {
	case "+":
		return "add"
	case "-":
		return "sub"
	case "*":
		return "mul"
	case "/":
		return "div"
	case "%":
		return "rem"
	}
	return cmd
}

func tag(f []string, out string) string {
	cmd := slug(f[0])
	inexact := false
	for _, a := range f[1:] {
		if strings.HasPrefix(a, "f:") {
			inexact = true
		}
	}
	shape := ""
	switch {
	case out == "-":
		shape = "empty"
	case strings.HasPrefix(out, "EXC "):
		shape = "exc-" + out[4:]
	case out == "PANIC" || out == "TIMEOUT":
		shape = strings.ToLower(out)
	default:
		toks := strings.Split(out, " ")
		kinds := map[byte]bool{}
		for _, t := range toks {
			kinds[t[0]] = true
		}
		for _, k := range []byte("ibrf") {
			if kinds[k] {
				shape += map[byte]string{'i': "int", 'b': "big", 'r': "rat", 'f': "float"}[k]
			}
		}
		if cmd == "range" && f[1] != "-" && kinds['i'] && !kinds['b'] {
			// did the int loop stop on its wrap guard?
			last := toRat(Dec(toks[len(toks)-1]))
			next := new(big.Rat).Add(last, toRat(Dec(f[1])))
			allInt := true
			for _, a := range f[2:] {
				allInt = allInt && strings.HasPrefix(a, "i:")
			}
			if allInt && strings.HasPrefix(f[1], "i:") &&
				(next.Num().Cmp(bigMaxInt) > 0 || next.Num().Cmp(bigMinInt) < 0) {
				shape += "-wrapguard"
			}
		}
	}
	if inexact {
		shape += "+inexact-args"
	}
	return cmd + ":" + shape
}

func run(c *common.Ctx) error {
	s := &common.Std{
		Rule: "random calls of + - * / % range and math:abs/ceil/floor/round/round-to-even/trunc/min/max/pow through a real Evaler " +
			"(arguments passed as typed numbers or as strings to parse, chosen per argument); exact operands from pools biased to 0, ±1, ±2^63, " +
			"±2^64, random int64, 64–140 bit integers, rationals incl. integral ones and half-integers; lists constructed to cancel onto the " +
			"int/big boundary; * and / also with inexact operands for the exact-zero rules; non-trivial = every op (distinct by op line)",
		Gen:      gen,
		NewState: func(*common.Ctx) any { return NewRunner() },
		Impl:     impl,
		Oracle:   oracle,
		Tag:      tag,
	}
	return s.Run(c)
}

// NewG exposes the exact-number pools to package c12.
func NewG(r *common.Rand) G { return G{r} }
