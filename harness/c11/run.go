// Package c11: correspondence and oracle for C11 (exact arithmetic is exact
// and canonical).  The helpers in this file (number codec, in-process runner)
// are shared with package c12.
package c11

import (
	"errors"
	"fmt"
	"hash/fnv"
	"math"
	"math/big"
	"os"
	"strconv"
	"strings"

	"src.elv.sh/pkg/eval"
	"src.elv.sh/pkg/eval/errs"
	"src.elv.sh/pkg/eval/vars"
	mathmod "src.elv.sh/pkg/mods/math"
	"src.elv.sh/pkg/parse"
)

// Enc encodes a Go number value (int, *big.Int, *big.Rat, float64) for the op
// line: i:<dec> b:<dec> r:<num>/<den> f:<16 hex digits of the bit pattern>.
func Enc(v any) string {
	switch v := v.(type) {
	case int:
		return "i:" + strconv.Itoa(v)
	case *big.Int:
		return "b:" + v.String()
	case *big.Rat:
		return "r:" + v.Num().String() + "/" + v.Denom().String()
	case float64:
		return fmt.Sprintf("f:%016x", math.Float64bits(v))
	}
	return fmt.Sprintf("?%T", v)
}

// EncOut encodes an output value.  exactOnly prints every float as "f:?"
// (C11); otherwise floats print their bit pattern with all NaNs collapsed.
func EncOut(v any, exactOnly bool) string {
	if f, ok := v.(float64); ok {
		if exactOnly {
			return "f:?"
		}
		if math.IsNaN(f) {
			return "f:NaN"
		}
	}
	return Enc(v)
}

// Dec decodes Enc.
func Dec(s string) any {
	if len(s) < 3 || s[1] != ':' {
		panic("bad number field " + s)
	}
	body := s[2:]
	switch s[0] {
	case 'i':
		n, err := strconv.Atoi(body)
		if err != nil {
			panic("bad int field " + s)
		}
		return n
	case 'b':
		z, ok := new(big.Int).SetString(body, 10)
		if !ok {
			panic("bad big field " + s)
		}
		return z
	case 'r':
		parts := strings.Split(body, "/")
		if len(parts) != 2 {
			panic("bad rat field " + s)
		}
		n, ok1 := new(big.Int).SetString(parts[0], 10)
		d, ok2 := new(big.Int).SetString(parts[1], 10)
		if !ok1 || !ok2 || d.Sign() == 0 {
			panic("bad rat field " + s)
		}
		// NOT normalised to int: the field says which Go representation to pass.
		return new(big.Rat).SetFrac(n, d)
	case 'f':
		if body == "NaN" {
			return math.NaN()
		}
		u, err := strconv.ParseUint(body, 16, 64)
		if err != nil {
			panic("bad float field " + s)
		}
		return math.Float64frombits(u)
	}
	panic("bad number field " + s)
}

// Runner evaluates numeric commands through a real Evaler.
type Runner struct {
	ev    *eval.Evaler
	slots [10]any
}

// NewRunner makes an Evaler with the math module, `use math` done, and the
// variables $a0..$a8 and $st bound to slots the runner assigns before each call.
func NewRunner() *Runner {
	r := &Runner{ev: eval.NewEvaler()}
	r.ev.AddModule("math", mathmod.Ns)
	nb := eval.BuildNs()
	for i := 0; i < 9; i++ {
		nb.AddVar("a"+strconv.Itoa(i), vars.FromPtr(&r.slots[i]))
	}
	nb.AddVar("st", vars.FromPtr(&r.slots[9]))
	r.ev.ExtendGlobal(nb)
	if err := r.eval("use math", nil); err != nil {
		panic(err)
	}
	return r
}

var devNull *os.File

func init() {
	f, err := os.OpenFile(os.DevNull, os.O_RDWR, 0)
	if err != nil {
		panic(err)
	}
	devNull = f
}

func (r *Runner) eval(src string, sink func(any)) error {
	ch := make(chan any, 64)
	done := make(chan struct{})
	go func() {
		for v := range ch {
			if sink != nil {
				sink(v)
			}
		}
		close(done)
	}()
	port := &eval.Port{Chan: ch, File: devNull}
	defer func() {
		// also on panic: stop the collector
		close(ch)
		<-done
	}()
	return r.ev.Eval(parse.Source{Name: "[vh]", Code: src},
		eval.EvalCfg{Ports: []*eval.Port{eval.DummyInputPort, port, eval.DummyOutputPort}})
}

var mathCmds = map[string]bool{"abs": true, "ceil": true, "floor": true, "round": true,
	"round-to-even": true, "trunc": true, "max": true, "min": true, "pow": true}

// literal spells v as an elvish word that parses to exactly v, or "" if v can
// only be passed as a typed value.  variant picks among equivalent spellings
// (hex integers, underscores, unreduced fractions) so ParseNum's
// normalisation is exercised.
func literal(v any, variant uint32) string {
	switch v := v.(type) {
	case int:
		switch variant % 4 {
		case 1:
			if v >= 0 {
				return "0x" + strconv.FormatInt(int64(v), 16)
			}
		case 2:
			if v >= 1000 {
				s := strconv.Itoa(v)
				return s[:len(s)-3] + "_" + s[len(s)-3:]
			}
		}
		return strconv.Itoa(v)
	case *big.Int:
		if variant%4 == 1 && v.Sign() > 0 {
			return "0x" + v.Text(16)
		}
		return v.String()
	case *big.Rat:
		if v.IsInt() {
			return "" // a *big.Rat holding an integer cannot be written
		}
		n, d := new(big.Int).Set(v.Num()), new(big.Int).Set(v.Denom())
		if k := int64(variant % 4); k >= 2 {
			n.Mul(n, big.NewInt(k))
			d.Mul(d, big.NewInt(k))
		}
		return n.String() + "/" + d.String()
	case float64:
		if math.IsNaN(v) {
			if math.Float64bits(v) == math.Float64bits(math.NaN()) {
				return "NaN"
			}
			return ""
		}
		if math.IsInf(v, 1) {
			return "+Inf"
		}
		if math.IsInf(v, -1) {
			return "-Inf"
		}
		return strconv.FormatFloat(v, 'e', -1, 64)
	}
	return ""
}

// Run executes `cmd args…` (with &step= for range when step != nil).  key
// seeds the deterministic choice between passing each argument as a typed
// value (variable) or as a string the command has to parse.
// It returns the outputs, or the exception class.
func (r *Runner) Run(cmd string, step any, args []any, key string) (outs []any, exc string) {
	h := fnv.New32a()
	h.Write([]byte(key))
	bits := h.Sum32()
	var sb strings.Builder
	if mathCmds[cmd] {
		sb.WriteString("math:")
	}
	sb.WriteString(cmd)
	word := func(slot int, name string, v any) {
		bits = bits*1664525 + 1013904223
		lit := ""
		if (bits>>16)&1 == 1 {
			lit = literal(v, bits>>20)
		}
		if lit != "" {
			sb.WriteString(lit)
			return
		}
		// typed value; ints/bigs/rats must be canonical to be legal elvish values
		r.slots[slot] = v
		sb.WriteString("$" + name)
	}
	for i := range r.slots {
		r.slots[i] = nil
	}
	if step != nil {
		sb.WriteString(" &step=")
		word(9, "st", step)
	}
	// Arguments that are equal big values sometimes share ONE Go pointer (as
	// `$x $x` does in real code), and every typed argument is snapshotted so
	// that an in-place update of an argument by the callee is observed: elvish
	// numbers are immutable values.
	shared := make([]any, len(args))
	for i, a := range args {
		shared[i] = a
		for j := 0; j < i; j++ {
			if (bits>>(uint(i+j)%13))&1 == 1 && sameBig(args[j], a) {
				shared[i] = shared[j]
				break
			}
		}
	}
	for i, a := range shared {
		sb.WriteString(" ")
		word(i, "a"+strconv.Itoa(i), a)
	}
	var snap [10]string
	for i, v := range r.slots {
		if v != nil {
			snap[i] = showNum(v)
		}
	}
	err := r.eval(sb.String(), func(v any) { outs = append(outs, v) })
	for i, v := range r.slots {
		if v != nil && showNum(v) != snap[i] {
			return nil, "ARG-MUTATED:slot" + strconv.Itoa(i) + ":" + snap[i] + "->" + showNum(v)
		}
	}
	if err != nil {
		return nil, Classify(err)
	}
	return outs, ""
}

// sameBig reports whether a and b are big values (pointers) with equal contents.
func sameBig(a, b any) bool {
	switch x := a.(type) {
	case *big.Int:
		y, ok := b.(*big.Int)
		return ok && x.Cmp(y) == 0
	case *big.Rat:
		y, ok := b.(*big.Rat)
		return ok && x.Cmp(y) == 0
	}
	return false
}

func showNum(v any) string {
	switch x := v.(type) {
	case *big.Int:
		return "I" + x.String()
	case *big.Rat:
		return "R" + x.String()
	case float64:
		return "F" + strconv.FormatUint(math.Float64bits(x), 16)
	}
	return fmt.Sprint(v)
}

// Classify maps an evaluation error to a small enum.
func Classify(err error) string {
	var exc eval.Exception
	if errors.As(err, &exc) {
		switch r := exc.Reason().(type) {
		case errs.BadValue:
			switch {
			case r.What == "divisor":
				return "div0"
			case r.Valid == "exact integer":
				return "exact-int"
			case r.What == "step" && r.Valid == "positive":
				return "step-positive"
			case r.What == "step" && r.Valid == "negative":
				return "step-negative"
			case r.Valid == "finite float":
				return "finite-float"
			}
			return "badvalue:" + r.What
		case errs.ArityMismatch:
			return "arity"
		}
		return "other:" + strings.ReplaceAll(exc.Reason().Error(), " ", "_")
	}
	return "other:" + strings.ReplaceAll(fmt.Sprintf("%T", err), " ", "_")
}

// Show renders a call result as the canonical output line.
func Show(outs []any, exc string, exactOnly bool) string {
	if exc != "" {
		return "EXC " + exc
	}
	if len(outs) == 0 {
		return "-"
	}
	parts := make([]string, len(outs))
	for i, v := range outs {
		parts[i] = EncOut(v, exactOnly)
	}
	return strings.Join(parts, " ")
}

// ParseOp splits an op line's fields: cmd, step ("-" = none), args.
func ParseOp(f []string) (cmd string, step any, args []any) {
	cmd = f[0]
	if f[1] != "-" {
		step = Dec(f[1])
	}
	for _, a := range f[2:] {
		args = append(args, Dec(a))
	}
	return
}

var (
	bigMinInt = big.NewInt(math.MinInt64)
	bigMaxInt = big.NewInt(math.MaxInt64)
)

// Canon converts an exact value to elvish's canonical Go representation (the
// only values a user can construct), written independently of vals.Normalize*;
// floats pass through.
func Canon(v any) any {
	switch v := v.(type) {
	case *big.Int:
		if v.Cmp(bigMinInt) >= 0 && v.Cmp(bigMaxInt) <= 0 {
			return int(v.Int64())
		}
		return v
	case *big.Rat:
		if v.Denom().Cmp(big.NewInt(1)) == 0 {
			return Canon(new(big.Int).Set(v.Num()))
		}
		return v
	}
	return v
}
