// Package c00 ties the shared Lean UTF-8 prelude (ElvModel/Go/Utf8.lean) to
// Go's unicode/utf8.  Not a property of its own.
package c00

import (
	"fmt"
	"strconv"
	"strings"
	"unicode/utf8"

	"verifharness/common"
)

func init() { common.Register("C00", run) }

var alphabet = []string{"a", "\x7f", "\x80", "\xbf", "\xc0", "\xc2", "\xdf", "\xe0", "\xa0", "\x9f", "\xed", "\xef", "\xf0", "\x90", "\x8f", "\xf4", "\xf5", "\xff", "é", "世", "😀", "�"}

func run(c *common.Ctx) error {
	s := &common.Std{
		Rule: "all byte strings of length ≤3 over a 22-symbol alphabet of boundary bytes and characters, random longer strings, rune values around every encoding boundary; non-trivial = contains a byte ≥ 0x80",
		Gen: func(c *common.Ctx, emit func(...string)) {
			var rec func(p string, n int)
			rec = func(p string, n int) {
				for _, op := range []string{"dec", "declast", "valid"} {
					emit(op, common.Hex(p))
				}
				if n == 0 {
					return
				}
				for _, a := range alphabet {
					rec(p+a, n-1)
				}
			}
			rec("", 3)
			for i := 0; i < c.Scale(5000, 200000); i++ {
				var sb strings.Builder
				for k := c.Rand.Range(1, 9); k > 0; k-- {
					sb.WriteString(common.Pick(c.Rand, alphabet))
				}
				emit(common.Pick(c.Rand, []string{"dec", "declast", "valid"}), common.Hex(sb.String()))
			}
			for _, b := range []int{0, 0x7f, 0x80, 0x7ff, 0x800, 0xd7ff, 0xd800, 0xdfff, 0xe000, 0xfffd, 0xffff, 0x10000, 0x10ffff, 0x110000, 0x7fffffff} {
				for d := -2; d <= 2; d++ {
					if b+d >= 0 {
						emit("enc", strconv.Itoa(b+d))
					}
				}
			}
			for i := 0; i < c.Scale(3000, 100000); i++ {
				emit("enc", strconv.Itoa(c.Rand.Intn(0x111000)))
			}
		},
		Impl: func(_ any, f []string) string {
			switch f[0] {
			case "dec":
				r, n := utf8.DecodeRuneInString(common.Unhex(f[1]))
				return fmt.Sprintf("%d %d", r, n)
			case "declast":
				r, n := utf8.DecodeLastRuneInString(common.Unhex(f[1]))
				return fmt.Sprintf("%d %d", r, n)
			case "enc":
				r, _ := strconv.Atoi(f[1])
				l := utf8.RuneLen(rune(r))
				ls := "none"
				if l >= 0 {
					ls = fmt.Sprintf("(some %d)", l)
				}
				return common.Hex(string(rune(r))) + " " + ls
			case "valid":
				s := common.Unhex(f[1])
				var rs []string
				for _, r := range s {
					rs = append(rs, strconv.Itoa(int(r)))
				}
				return fmt.Sprintf("%v [%s]", utf8.ValidString(s), strings.Join(rs, ", "))
			}
			return "bad-op"
		},
		Tag: func(f []string, out string) string {
			if f[0] == "enc" {
				return "enc"
			}
			for _, b := range []byte(common.Unhex(f[1])) {
				if b >= 0x80 {
					return f[0]
				}
			}
			return ""
		},
	}
	return s.Run(c)
}
