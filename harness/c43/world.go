package c43

// A "world": a directory tree with hostile file names plus the global
// variables of the Evaler that completion runs against.  The world is
// described by a text blob that travels (hex-encoded) in every op line, so an
// op is self-contained: the implementation side re-creates the tree from the
// description whenever the current one differs.
//
//	R/c    the working directory
//	R/h    $HOME
//	R/bin  $PATH
//
// R is an absolute path that differs between runs; everything that leaves the
// harness has R replaced by the placeholder "/R" (canon).

import (
	"fmt"
	"os"
	"path/filepath"
	"sort"
	"strings"

	"src.elv.sh/pkg/eval"
	"src.elv.sh/pkg/eval/vals"
	"verifharness/common"
	"verifharness/evalutil"
)

type entry struct {
	path   string // relative to R
	kind   byte   // f file, x executable file, d directory, l symlink
	target string // for l
}

type wvar struct {
	name string
	kind byte // S string, M map (string keys + one number key), L list, N number
	vals []string
}

type world struct {
	entries []entry
	vars    []wvar
}

const placeholder = "/R"

// encode gives the canonical description.
func (w *world) encode() string {
	var sb strings.Builder
	for _, e := range w.entries {
		fmt.Fprintf(&sb, "e:%c:%s:%s;", e.kind, common.Hex(e.path), common.Hex(e.target))
	}
	for _, v := range w.vars {
		hs := make([]string, len(v.vals))
		for i, s := range v.vals {
			hs[i] = common.Hex(s)
		}
		fmt.Fprintf(&sb, "v:%c:%s:%s;", v.kind, common.Hex(v.name), strings.Join(hs, ","))
	}
	return sb.String()
}

func decodeWorld(desc string) *world {
	w := &world{}
	for _, line := range strings.Split(desc, ";") {
		f := strings.Split(line, ":")
		switch {
		case len(f) == 4 && f[0] == "e":
			w.entries = append(w.entries, entry{common.Unhex(f[2]), f[1][0], common.Unhex(f[3])})
		case len(f) == 4 && f[0] == "v":
			v := wvar{name: common.Unhex(f[2]), kind: f[1][0]}
			if f[3] != "" {
				for _, h := range strings.Split(f[3], ",") {
					v.vals = append(v.vals, common.Unhex(h))
				}
			}
			w.vars = append(w.vars, v)
		}
	}
	return w
}

// live is the materialised world.
type live struct {
	desc string
	root string
	ev   *eval.Evaler
}

var (
	base    string // R
	current *live
)

func safePath(p string) bool {
	for _, c := range p {
		if !(c >= 'a' && c <= 'z' || c >= 'A' && c <= 'Z' || c >= '0' && c <= '9' || c == '/' || c == '-' || c == '_' || c == '.') {
			return false
		}
	}
	return strings.HasPrefix(p, "/") && !strings.Contains(p, placeholder+"/")
}

// setBase picks R (once per process) and fixes the process environment.
func setBase(scratch string) {
	if base != "" {
		return
	}
	b := filepath.Join(scratch, "w")
	if abs, err := filepath.Abs(b); err == nil {
		b = abs
	}
	if scratch == "" || !safePath(b) {
		d, err := os.MkdirTemp("", "vhc43")
		if err != nil {
			panic(err)
		}
		b = filepath.Join(d, "w")
	}
	base = b
	os.Clearenv()
	os.Setenv("HOME", base+"/h")
	os.Setenv("PATH", base+"/bin")
	os.Setenv("VH_PLAIN", "1")
	os.Setenv("VH_HOSTILE", "a b")
}

// materialise makes desc the current world.
func materialise(desc string) *live {
	if current != nil && current.desc == desc {
		return current
	}
	if base == "" {
		setBase("")
	}
	w := decodeWorld(desc)
	os.Chdir("/")
	os.RemoveAll(base)
	for _, d := range []string{"c", "h", "bin"} {
		if err := os.MkdirAll(filepath.Join(base, d), 0o755); err != nil {
			panic(err)
		}
	}
	for _, e := range w.entries {
		p := base + "/" + e.path
		var err error
		switch e.kind {
		case 'd':
			err = os.MkdirAll(p, 0o755)
		case 'f':
			err = os.WriteFile(p, nil, 0o644)
		case 'x':
			err = os.WriteFile(p, []byte("#!/bin/sh\n"), 0o755)
		case 'l':
			err = os.Symlink(e.target, p)
		}
		if err != nil {
			panic(fmt.Sprintf("world: %q: %v", p, err))
		}
	}
	if err := os.Chdir(base + "/c"); err != nil {
		panic(err)
	}
	ev := evalutil.NewEvaler()
	kv := map[string]any{}
	for _, v := range w.vars {
		switch v.kind {
		case 'S':
			s := ""
			if len(v.vals) > 0 {
				s = v.vals[0]
			}
			kv[v.name] = strings.ReplaceAll(s, placeholder, base)
		case 'M':
			m := vals.EmptyMap
			for _, k := range v.vals {
				m = m.Assoc(k, "v")
			}
			m = m.Assoc(1.5, "num")
			kv[v.name] = m
		case 'L':
			var l []any
			for _, s := range v.vals {
				l = append(l, s)
			}
			kv[v.name] = vals.MakeList(l...)
		case 'N':
			kv[v.name] = 42
		}
	}
	evalutil.SetVars(ev, kv)
	current = &live{desc: desc, root: base, ev: ev}
	return current
}

// canon replaces R by the placeholder.
func canon(s string) string { return strings.ReplaceAll(s, base, placeholder) }

// ---- generation ---------------------------------------------------------------

var namePool = []string{
	"foo", "fob", "fo o", "f'q", "f\"q", "f$d", "f*s", "f?s", "f\nl", "fü", "f\xffx", "f\\b", "~til", "~", "-dash", "--long=1",
	".hid", ".h x", "..", "...", "f;x", "f|x", "f#x", "#hash", "f&", "&amp", "f(x)", "f[x]", "f{x}", "f=x", "f,x", "f<x", "f>x",
	"f^x", "f%x", "f!x", "f@x", "@at", "f+x", "f:x", "e:x", "日本", "f\x7f", "f\tx", "f​x", "f�x", "\xc3", "é", " lead",
	"trail ", "''", "\"", "'", "f\rx", "f\x1bx", "😀", "f x", "a~b", "$x", "$", "*", "f\u0085x", "f\xc3", "\xa9x", "bar", "baz",
	"Foo", "fooo", "foo.txt", "foo bar baz", "1", "-", "%", "\\", "a\\'b", "x y'z\"w",
}

var nameSyms = []string{"a", "b", "f", "o", " ", "'", "\"", "$", "*", "~", "-", ".", "#", "\n", "é", "\xff", "\\", ";", "|", "&",
	"(", ")", "[", "]", "{", "}", "=", ",", "<", ">", "^", "?", "%", "!", "@", "+", ":", "\t", "​", "�", "😀", "\x01", "\x7f"}

func randName(r *common.Rand) string {
	if r.Chance(7, 10) {
		return common.Pick(r, namePool)
	}
	var sb strings.Builder
	for n := r.Range(1, 5); n > 0; n-- {
		sb.WriteString(common.Pick(r, nameSyms))
	}
	s := sb.String()
	if s == "." || s == ".." || strings.ContainsAny(s, "/\x00") {
		return "f" + s
	}
	return s
}

// fillDir adds n entries with distinct names under rel.
func (w *world) fillDir(r *common.Rand, rel string, n int, depth int) {
	seen := map[string]bool{}
	for _, e := range w.entries {
		if filepath.Dir(e.path) == rel {
			seen[filepath.Base(e.path)] = true
		}
	}
	var dirs, files []string
	for i := 0; i < n; i++ {
		name := randName(r)
		if name == ".." || name == "." || seen[name] || len(name) > 200 {
			continue
		}
		seen[name] = true
		p := rel + "/" + name
		switch k := r.Intn(10); {
		case k < 4:
			w.entries = append(w.entries, entry{p, 'f', ""})
			files = append(files, name)
		case k < 6:
			w.entries = append(w.entries, entry{p, 'x', ""})
			files = append(files, name)
		case k < 8:
			w.entries = append(w.entries, entry{p, 'd', ""})
			dirs = append(dirs, name)
			if depth > 0 {
				w.fillDir(r, p, r.Range(0, 4), depth-1)
			}
		default:
			// symlink to a directory, to a file, or dangling
			switch {
			case len(dirs) > 0 && r.Chance(1, 2):
				w.entries = append(w.entries, entry{p, 'l', common.Pick(r, dirs)})
			case len(files) > 0 && r.Chance(1, 2):
				w.entries = append(w.entries, entry{p, 'l', common.Pick(r, files)})
			default:
				w.entries = append(w.entries, entry{p, 'l', "no-such-target"})
			}
		}
	}
}

func genWorld(r *common.Rand) *world {
	w := &world{}
	// fixed skeleton so that the code templates can refer to it
	w.entries = append(w.entries,
		entry{"c/sub", 'd', ""}, entry{"c/~", 'd', ""}, entry{"c/d r", 'd', ""},
		entry{"c/lnk", 'l', "sub"}, entry{"bin/xcmd", 'x', ""}, entry{"bin/x cmd", 'x', ""}, entry{"bin/x'q", 'x', ""},
		entry{"bin/notexec", 'f', ""})
	w.fillDir(r, "c", r.Range(4, 14), 1)
	w.fillDir(r, "c/sub", r.Range(0, 6), 0)
	w.fillDir(r, "c/~", r.Range(0, 4), 0)
	w.fillDir(r, "c/d r", r.Range(0, 3), 0)
	w.fillDir(r, "h", r.Range(0, 6), 0)
	// variables
	names := w.names("c")
	pick := func() string {
		if len(names) == 0 {
			return "fo"
		}
		n := common.Pick(r, names)
		return n[:r.Range(0, len(n))]
	}
	var keys []string
	for i := r.Range(0, 6); i > 0; i-- {
		keys = append(keys, randName(r))
	}
	if r.Chance(1, 3) {
		keys = append(keys, "")
	}
	w.vars = []wvar{
		{"x", 'S', []string{pick()}},
		{"d", 'S', []string{common.Pick(r, []string{"sub", "sub/", "d r", "~", "lnk", "nodir"})}},
		{"abs", 'S', []string{placeholder + "/c"}},
		{"hx", 'S', []string{randName(r)}},
		{"m", 'M', keys},
		{"li", 'L', []string{"a", "b"}},
		{"nu", 'N', nil},
		{"a b", 'S', []string{"quoted-name"}},
	}
	return w
}

// names lists the entry names directly under rel.
func (w *world) names(rel string) []string {
	var out []string
	for _, e := range w.entries {
		if filepath.Dir(e.path) == rel {
			out = append(out, filepath.Base(e.path))
		}
	}
	sort.Strings(out)
	return out
}

func (w *world) varVals(name string) []string {
	for _, v := range w.vars {
		if v.name == name {
			return v.vals
		}
	}
	return nil
}
