// Package c43: correspondence and oracle for C43 (completion inserts text that
// evaluates to the chosen candidate).
//
// op: c <hex code> <dot> <printable> <vars> <homes> <dirs> <arggen> <names> <world>
//
// (see lean/ElvModel/C43/Driver.lean for the fields; <world> describes the
// directory tree and the interpreter's variables and is only read by the
// implementation side, which re-creates the tree when it changes).  Absolute
// paths are written with the placeholder /R for the root of the world.
//
// result: OK <name> <from> <to> <hexinsert:hexshow,…|-> | NOCOMP | PANIC | TIMEOUT
package c43

import (
	"fmt"
	"os"
	"strconv"
	"strings"

	"src.elv.sh/pkg/edit/complete"
	"src.elv.sh/pkg/ui"
	"verifharness/common"
)

func init() { common.Register("C43", run) }

// opKind is "c" (the model of the tree with the C43 fixes) or, for
// development against the unchanged tree, "u" (C43_UNFIXED=1).
var opKind = "c"

func run(c *common.Ctx) error {
	if os.Getenv("C43_UNFIXED") == "1" {
		opKind = "u"
	}
	emitCorpus := os.Getenv("C43_EMIT_CORPUS") == "1"
	setBase(c.Dir)
	s := &common.Std{
		Rule: "random worlds (directory trees with hostile names: spaces, quotes, $ * ? # ; | & brackets, newlines, tabs, controls, " +
			"unicode, invalid UTF-8, leading - ~ . ; files, executables, directories, symlinks to directories/files/nothing; an Evaler with " +
			"string/map/list variables) × code buffers from templates for argument / redirection / command / index / variable / set-tmp-del " +
			"positions with a partial word (prefix of an existing name or not) typed bare, single- or double-quoted (open or closed), split, " +
			"behind ./ sub/ ~/ $var/ absolute and literal-tilde directory spellings, with random tails, comments and cursor positions; " +
			"custom ArgGenerator candidates (hostile strings); byte-level mutations of those buffers; every buffer of ≤2 symbols over a " +
			"16-symbol alphabet at every cursor position. non-trivial = completion offered at least one candidate; distinct by op line",
		ExhaustiveNote: "buffers of ≤2 symbols over {l,f,space,',\",$,~,/,.,>,[,(,#,|,{,newline} × every cursor position (one world)",
		Gen: func(c *common.Ctx, emit func(...string)) {
			if emitCorpus {
				genWitnesses(emit)
				return
			}
			gen(c, emit)
		},
		Impl:    impl,
		Oracle:  oracle,
		Tag:     tag,
		Timeout: 30e9,
	}
	return s.Run(c)
}

func gen(c *common.Ctx, emit func(...string)) {
	r := c.Rand
	nWorlds := c.Scale(40, 600)
	perWorld := c.Scale(200, 300)
	for wi := 0; wi < nWorlds; wi++ {
		w := genWorld(r)
		lv := materialise(w.encode())
		g := &genCtx{r: r, w: w}
		for k := 0; k < perWorld; k++ {
			g.ag = nil
			if r.Chance(1, 5) {
				g.ag = []string{}
				seen := map[string]bool{}
				for n := r.Range(0, 7); n > 0; n-- {
					s := randName(r)
					if r.Chance(1, 6) {
						s = common.Pick(r, []string{"", "a/b", "~/x", "/", "sub/"}) + s
					}
					if seen[s] {
						continue // equal stems that cook differently would make the unstable sort visible
					}
					seen[s] = true
					if r.Chance(1, 6) {
						g.ag = append(g.ag, "C/"+common.Hex(s)+"/"+common.Hex(common.Pick(r, []string{"", " "})))
					} else {
						g.ag = append(g.ag, "P/"+common.Hex(s))
					}
				}
			}
			code, dot := g.genCode()
			if r.Chance(1, 8) {
				code = mutate(r, code)
				dot = r.Range(0, len(code))
			}
			if r.Chance(1, 200) {
				dot = common.Pick(r, []int{-1, len(code) + 1, len(code) + 7})
			}
			emit(makeOp(r, lv, opKind, code, dot, g.ag)...)
		}
		if wi == 0 {
			syms := []string{"l", "f", " ", "'", "\"", "$", "~", "/", ".", ">", "[", "(", "#", "|", "{", "\n"}
			var codes []string
			codes = append(codes, "")
			for _, a := range syms {
				codes = append(codes, a)
				for _, b := range syms {
					codes = append(codes, a+b)
				}
			}
			for _, code := range codes {
				for dot := 0; dot <= len(code); dot++ {
					emit(makeOp(r, lv, opKind, code, dot, nil)...)
				}
			}
		}
	}
}

// witnesses are the inputs of the counterexample theorems and of the defects
// fixed by fixes/C43-*.patch (harness/corpus/C43.txt is produced from them with
// C43_EMIT_CORPUS=1).
var witnesses = []struct {
	code string
	dot  int
}{
	{"ls # c ", 7},          // insertion point in a comment
	{"ls #", 4},             //
	{"ls ^", 4},             // after a ^ without its newline
	{"ls ~", 4},             // tilde leaf: quoting style
	{"cat > $x", 8},         // variable leaf: quoting style
	{"put $'E:HOM", 11},     // variable written quoted: range
	{"put $'\xff\xff:", 10}, // … with invalid UTF-8: from > to on the unchanged tree
	{"echo (ls)", 9},        // closing parenthesis
	{"put $m[a]", 9},        // closing bracket
	{"ls a &", 6},           // background sign
	{";x", 1},               // new word glued to the following text (finding)
	{"ls  sub", 3},          //
	{"put $e:", 7},          // quoted variable candidate after a prefix (finding)
	{"{|~/>", 5},            // word glued to preceding text after a syntax error (finding)
	{"ls fo", 5},            // plain cases
	{"ls 'fo", 6},
	{"ls \"fo", 6},
	{"ls ~/", 5},
	{"ls '~/", 6},
	{"put $m[", 7},
}

func genWitnesses(emit func(...string)) {
	w := &world{}
	w.entries = []entry{
		{"c/sub", 'd', ""}, {"c/~", 'd', ""}, {"c/~/tfile", 'f', ""}, {"c/lnk", 'l', "sub"}, {"c/foo", 'f', ""}, {"c/fo o", 'f', ""},
		{"c/f\nl", 'f', ""}, {"c/.hid", 'f', ""}, {"c/sub/in ner", 'x', ""}, {"h/hfile", 'f', ""}, {"h/h dir", 'd', ""},
		{"bin/xcmd", 'x', ""}, {"bin/x cmd", 'x', ""},
	}
	w.vars = []wvar{{"x", 'S', []string{"fo"}}, {"m", 'M', []string{"k 1", "k2", "a'b"}}, {"a b", 'S', []string{"v"}}}
	lv := materialise(w.encode())
	r := common.NewRand(43)
	for _, wt := range witnesses {
		emit(makeOp(r, lv, "c", wt.code, wt.dot, nil)...)
	}
}

// uncanon maps canonical code and cursor back to the real root.
func uncanon(ccode string, cdot int) (string, int) {
	code := strings.ReplaceAll(ccode, placeholder, base)
	dot := cdot
	if cdot >= 0 && cdot <= len(ccode) {
		dot = len(strings.ReplaceAll(ccode[:cdot], placeholder, base))
	} else if cdot > len(ccode) {
		dot = len(code) + (cdot - len(ccode))
	}
	return code, dot
}

type op struct {
	lv   *live
	code string
	dot  int
	cfg  complete.Config
}

func parseOp(f []string) op {
	lv := materialise(f[9])
	cdot, _ := strconv.Atoi(f[2])
	code, dot := uncanon(common.Unhex(f[1]), cdot)
	var ag []string
	switch {
	case f[7] == "D":
	case f[7] == "L":
		ag = []string{}
	default:
		ag = strings.Split(strings.TrimPrefix(f[7], "L:"), ",")
	}
	cfg := complete.Config{}
	if ag != nil {
		cfg.ArgGenerator = argGenFor(ag, nil)
	}
	return op{lv, code, dot, cfg}
}

func showText(t ui.Text) string {
	var sb strings.Builder
	for _, seg := range t {
		sb.WriteString(seg.Text)
	}
	return sb.String()
}

func impl(_ any, f []string) string {
	o := parseOp(f)
	res, err := complete.Complete(complete.CodeBuffer{Content: o.code, Dot: o.dot}, o.lv.ev, o.cfg)
	if err != nil {
		return "NOCOMP"
	}
	cpos := func(p int) int {
		if p < 0 || p > len(o.code) {
			return p
		}
		return len(canon(o.code[:p]))
	}
	items := make([]string, len(res.Items))
	for i, it := range res.Items {
		items[i] = common.Hex(canon(it.ToInsert)) + ":" + common.Hex(canon(showText(it.ToShow)))
	}
	return fmt.Sprintf("OK %s %d %d %s", res.Name, cpos(res.Replace.From), cpos(res.Replace.To), joinOrDash(items, ","))
}

func tag(f []string, out string) string {
	if !strings.HasPrefix(out, "OK ") {
		return "(" + out + ")"
	}
	p := strings.Split(out, " ")
	name := p[1]
	t := name
	if p[2] == p[3] {
		t += "/new"
	} else {
		code := common.Unhex(f[1])
		from, _ := strconv.Atoi(p[2])
		if from >= 0 && from < len(code) {
			switch code[from] {
			case '\'':
				t += "/single"
			case '"':
				t += "/double"
			case '~':
				t += "/tilde"
			case '$':
				t += "/dollar"
			default:
				t += "/bare"
			}
		}
	}
	if p[4] == "-" {
		return "" // offered nothing: trivial
	}
	if f[7] != "D" {
		t += "/custom"
	}
	// does a candidate need quotes the user had not started?
	dq, sq := false, false
	for _, it := range strings.Split(p[4], ",") {
		ins := common.Unhex(strings.SplitN(it, ":", 2)[0])
		if ins == "" {
			continue
		}
		switch ins[0] {
		case '\'':
			sq = true
		case '"':
			dq = true
		}
	}
	if sq && !strings.Contains(t, "/single") {
		t += "+sq"
	}
	if dq && !strings.Contains(t, "/double") {
		t += "+dq"
	}
	return t
}
