package c43

// The oracle: C43's statement evaluated on the real code, independently of
// the Lean model.
//
//  1. the replaced range lies within the buffer;
//  2. for every candidate, in the buffer after substitution the word at the
//     start of the range evaluates (real Evaler, `put <word>`; and the static
//     evaluator in place) to the candidate's value (its ToShow text); for
//     variable candidates: the variable primary there names ns + candidate;
//  3. quoting matches the style the user had started;
//  4. file name candidates are exactly the directory entries that start with
//     the typed prefix (with the dot-file rule), each once.

import (
	"fmt"
	"os"
	"path/filepath"
	"sort"
	"strconv"
	"strings"
	"unicode"
	"unicode/utf8"

	"src.elv.sh/pkg/edit/complete"
	"src.elv.sh/pkg/eval"
	"src.elv.sh/pkg/fsutil"
	"src.elv.sh/pkg/parse"
	"src.elv.sh/pkg/parse/np"
	"verifharness/evalutil"
)

const maxItemsChecked = 60

func parseTree(code string) parse.Tree {
	tree, _ := parse.Parse(parse.Source{Name: "[oracle]", Code: code}, parse.Config{})
	return tree
}

// compoundAt finds the Compound node that starts at pos (the outermost one
// that does, below any node starting earlier).
func compoundAt(root parse.Node, pos int) *parse.Compound {
	var found *parse.Compound
	var rec func(n parse.Node)
	rec = func(n parse.Node) {
		if found != nil {
			return
		}
		if c, ok := n.(*parse.Compound); ok && c.Range().From == pos && c.Range().To > pos {
			found = c
			return
		}
		for _, ch := range parse.Children(n) {
			r := ch.Range()
			if r.From <= pos && pos < r.To {
				rec(ch)
			}
		}
	}
	rec(root)
	return found
}

func variableAt(root parse.Node, pos int) *parse.Primary {
	var found *parse.Primary
	walk(root, func(n parse.Node) {
		if p, ok := n.(*parse.Primary); ok && p.Type == parse.Variable && p.Range().From <= pos && pos <= p.Range().To {
			if found == nil || p.Range().From >= found.Range().From {
				found = p
			}
		}
	})
	return found
}

// strictBare: can s be written as a bareword in every expression context?
// Decided with the real parser: in each context s must parse as exactly one
// bareword primary with value s.
func strictBare(s string) bool {
	if s == "" {
		return false
	}
	for _, ctx := range []parse.ExprCtx{parse.NormalExpr, parse.CmdExpr, parse.LHSExpr, parse.BracedElemExpr} {
		cn := &parse.Compound{ExprCtx: ctx}
		err := parse.ParseAs(parse.Source{Name: "b", Code: s}, cn, parse.Config{})
		if err != nil || len(cn.Indexings) != 1 || len(cn.Indexings[0].Indices) != 0 {
			return false
		}
		h := cn.Indexings[0].Head
		if h.Type != parse.Bareword || h.Value != s || cn.Range().To != len(s) {
			return false
		}
	}
	return true
}

// unprintable: does s need double quotes (a rune that is not printable, or
// not valid UTF-8 / U+FFFD)?
func unprintable(s string) bool {
	for _, r := range s {
		if r == utf8.RuneError || !unicode.IsPrint(r) {
			return true
		}
	}
	return false
}

func typeName(t parse.PrimaryType) string {
	switch t {
	case parse.Bareword:
		return "bareword"
	case parse.SingleQuoted:
		return "single-quoted"
	case parse.DoubleQuoted:
		return "double-quoted"
	}
	return fmt.Sprintf("type%d", int(t))
}

func oracle(_ any, f []string, out string) (string, string) {
	if !strings.HasPrefix(out, "OK ") {
		return "", ""
	}
	o := parseOp(f)
	ev := o.lv.ev
	code, dot := o.code, o.dot
	// which raw candidates are inserted unquoted (noQuoteItem: variable names)
	noQuote := map[string]bool{}
	cfg := o.cfg
	cfg.Filterer = func(ctxName, seed string, items []complete.RawItem) []complete.RawItem {
		for _, it := range items {
			switch it.(type) {
			case complete.PlainItem, complete.ComplexItem:
			default:
				noQuote[it.String()] = true
			}
		}
		return complete.FilterPrefix(ctxName, seed, items)
	}
	res, err := complete.Complete(complete.CodeBuffer{Content: code, Dot: dot}, ev, cfg)
	if err != nil {
		return "", ""
	}
	from, to := res.Replace.From, res.Replace.To
	// 1. range
	if !(0 <= from && from <= to && to <= len(code)) {
		return "range-outside-buffer", fmt.Sprintf("code %q dot %d: range [%d,%d) len %d", code, dot, from, to, len(code))
	}
	if len(res.Items) == 0 {
		return "", ""
	}
	tree0 := parseTree(code)
	path0 := np.FindLeft(tree0.Root, dot)
	var leaf parse.Node
	if len(path0) > 0 {
		leaf = path0[0]
	}
	// the style the user had started
	started := parse.Bareword
	nonQuoteLeaf := false
	inComment := false
	switch n := leaf.(type) {
	case *parse.Primary:
		switch n.Type {
		case parse.SingleQuoted, parse.DoubleQuoted:
			started = n.Type
		case parse.Bareword:
		default:
			nonQuoteLeaf = true
		}
	case *parse.Sep:
		text := parse.SourceText(n)
		if i := strings.LastIndexAny(text, "\r\n"); i >= 0 {
			text = text[i+1:]
		}
		inComment = strings.Contains(text, "#") || strings.HasSuffix(parse.SourceText(n), "^")
	}

	items := res.Items
	if len(items) > maxItemsChecked {
		// first, last and an even spread
		var sel []int
		for i := 0; i < maxItemsChecked; i++ {
			sel = append(sel, i*(len(items)-1)/(maxItemsChecked-1))
		}
		sub := make([]struct{}, 0)
		_ = sub
		picked := items[:0:0]
		for _, i := range sel {
			picked = append(picked, items[i])
		}
		items = picked
	}

	if res.Name == "variable" {
		v0, _ := leaf.(*parse.Primary)
		if v0 == nil {
			return "variable-context-without-variable", fmt.Sprintf("code %q dot %d", code, dot)
		}
		sigil, qname := eval.SplitSigil(v0.Value)
		ns, _ := eval.SplitIncompleteQNameNs(qname)
		for _, it := range items {
			nb := code[:from] + it.ToInsert + code[to:]
			// the candidate's name: what `$<ToInsert>` denotes
			cand := &parse.Primary{}
			parse.ParseAs(parse.Source{Name: "v", Code: "$" + it.ToInsert}, cand, parse.Config{})
			want := sigil + ns + cand.Value
			v1 := variableAt(parseTree(nb).Root, from)
			if v1 == nil || v1.Value != want || v1.Range().To != from+len(it.ToInsert) {
				got := "<no variable>"
				if v1 != nil {
					got = fmt.Sprintf("$%s ending at %d", strconv.Quote(v1.Value), v1.Range().To)
				}
				cls := "variable-name-mismatch"
				if parse.SourceText(v0) != "$"+v0.Value {
					cls = "variable-quoted-name-range"
				} else if sigil+ns != "" && (strings.HasPrefix(it.ToInsert, "'") || strings.HasPrefix(it.ToInsert, "\"")) {
					cls = "variable-quoted-candidate-after-prefix"
				}
				return cls, fmt.Sprintf("code %q dot %d: range [%d,%d) candidate %q gives %q where the variable is %s, want $%s ending at %d",
					code, dot, from, to, it.ToInsert, nb, got, strconv.Quote(want), from+len(it.ToInsert))
			}
		}
		return "", ""
	}

	// 2. every candidate evaluates to its value in place
	type cand struct {
		stem, ins, nb, word string
	}
	var cands []cand
	for _, it := range items {
		stem := showText(it.ToShow)
		nb := code[:from] + it.ToInsert + code[to:]
		if inComment {
			return "insertion-in-comment", fmt.Sprintf("code %q dot %d: range [%d,%d) lies in a comment; candidate %q gives %q",
				code, dot, from, to, it.ToInsert, nb)
		}
		t1 := parseTree(nb)
		cn := compoundAt(t1.Root, from)
		if cn == nil {
			// a syntax error before the word: the original word began a new node only
			// through error recovery, the inserted text continues the text before it
			if errBefore(code, from) && wordStraddles(t1.Root, from) {
				return "word-glued-to-preceding-text-after-syntax-error", fmt.Sprintf(
					"code %q dot %d (parse error before %d): candidate %q (%q) gives %q, where the inserted text continues the word before it",
					code, dot, from, stem, it.ToInsert, nb)
			}
			return "word-not-found", fmt.Sprintf("code %q dot %d: candidate %q (%q) gives %q: no word starts at %d", code, dot, stem, it.ToInsert, nb, from)
		}
		end := cn.Range().To
		insEnd := from + len(it.ToInsert)
		if end > insEnd && from == to {
			return "new-word-glued-to-following-text", fmt.Sprintf("code %q dot %d: candidate %q (%q) inserted at %d gives %q: the word there is %q",
				code, dot, stem, it.ToInsert, from, nb, nb[from:end])
		}
		if end > insEnd || (nb[end:insEnd] != "" && nb[end:insEnd] != " ") {
			return "word-extent", fmt.Sprintf("code %q dot %d: candidate %q (%q) gives %q: the word at %d ends at %d, the insertion at %d",
				code, dot, stem, it.ToInsert, nb, from, end, insEnd)
		}
		// in place, by the static evaluator
		v, ok := ev.PurelyEvalCompound(cn)
		if noQuote[it.ToInsert] && stem == it.ToInsert {
			// a variable name offered as an argument of set / tmp / del, already
			// in source form: its value is what that source text denotes
			alone := &parse.Compound{}
			parse.ParseAs(parse.Source{Name: "n", Code: it.ToInsert}, alone, parse.Config{})
			want, wok := ev.PurelyEvalCompound(alone)
			if !ok || !wok || v != want {
				return "name-argument-mismatch", fmt.Sprintf("code %q dot %d: name candidate %q gives %q: the word %q statically evaluates to %q (ok=%v), alone to %q",
					code, dot, it.ToInsert, nb, nb[from:end], v, ok, want)
			}
			continue
		}
		if !ok || v != stem {
			return "value-mismatch", fmt.Sprintf("code %q dot %d: candidate %q (%q) gives %q: the word %q statically evaluates to %q (ok=%v)",
				code, dot, stem, it.ToInsert, nb, nb[from:end], v, ok)
		}
		// 3. style
		if len(cn.Indexings) != 1 || cn.Indexings[0].Head == nil {
			return "word-not-single-primary", fmt.Sprintf("code %q dot %d: candidate %q gives word %q", code, dot, stem, nb[from:end])
		}
		got := cn.Indexings[0].Head.Type
		var want parse.PrimaryType
		switch {
		case started == parse.DoubleQuoted || unprintable(stem):
			want = parse.DoubleQuoted
		case started == parse.SingleQuoted || !strictBare(stem):
			want = parse.SingleQuoted
		default:
			want = parse.Bareword
		}
		if got != want {
			cls := "style-mismatch"
			if nonQuoteLeaf {
				cls = "style-nonquote-leaf-quoted"
			}
			return cls, fmt.Sprintf("code %q dot %d: the user started %s (leaf %s); candidate %q inserted as %q (%s), want %s",
				code, dot, typeName(started), leafDesc(leaf), stem, it.ToInsert, typeName(got), typeName(want))
		}
		cands = append(cands, cand{stem, it.ToInsert, nb, nb[from:end]})
	}
	// by the real Evaler: put <word> … (one evaluation for all candidates, then one by one on a mismatch)
	if len(cands) > 0 {
		var sb strings.Builder
		sb.WriteString("put")
		for _, c := range cands {
			sb.WriteString(" " + c.word)
		}
		r := evalutil.EvalTimeout(ev, sb.String(), 10e9)
		good := r.Err == nil && len(r.Values) == len(cands)
		if good {
			for i, c := range cands {
				if s, ok := r.Values[i].(string); !ok || s != c.stem {
					good = false
				}
			}
		}
		if !good {
			for _, c := range cands {
				r := evalutil.EvalTimeout(ev, "put "+c.word, 10e9)
				if r.Err != nil || len(r.Values) != 1 || r.Values[0] != any(c.stem) {
					return "evaluated-value-mismatch", fmt.Sprintf("code %q dot %d: candidate %q inserted as %q: `put %s` gives %v (err %v)",
						code, dot, c.stem, c.ins, c.word, r.Values, r.Err)
				}
			}
			return "evaluated-value-mismatch", fmt.Sprintf("code %q dot %d: `%s` gives %v (err %v)", code, dot, sb.String(), r.Values, r.Err)
		}
	}

	// 4. file names
	if cls, detail := checkFileNames(o, res, path0, f); cls != "" {
		return cls, detail
	}
	return "", ""
}

// errBefore: does the buffer have a parse error that starts at or before pos?
func errBefore(code string, pos int) bool {
	_, err := parse.Parse(parse.Source{Name: "[oracle]", Code: code}, parse.Config{})
	for _, e := range parse.UnpackErrors(err) {
		if e.Context.From <= pos {
			return true
		}
	}
	return false
}

// wordStraddles: is pos strictly inside a Compound node?
func wordStraddles(root parse.Node, pos int) bool {
	found := false
	walk(root, func(n parse.Node) {
		if c, ok := n.(*parse.Compound); ok && c.Range().From < pos && pos < c.Range().To {
			found = true
		}
	})
	return found
}

func leafDesc(n parse.Node) string {
	switch n := n.(type) {
	case *parse.Primary:
		return fmt.Sprintf("primary type %d %q", int(n.Type), parse.SourceText(n))
	case nil:
		return "none"
	}
	return fmt.Sprintf("%T %q", n, parse.SourceText(n))
}

// checkFileNames: when the candidates are file names, they are exactly the
// entries of the directory the typed prefix points into that start with the
// typed file-name prefix and have the same hiddenness, each once, directories
// (and links to directories) with a trailing slash.
func checkFileNames(o op, res *complete.Result, path0 np.Path, f []string) (string, string) {
	ev := o.lv.ev
	// the typed prefix: the word up to the end of the part under the cursor
	typed := ""
	execOrDir := false
	switch res.Name {
	case "redir":
	case "argument":
		if f[7] != "D" {
			return "", ""
		}
		// set / tmp / del complete variable names
		for _, n := range path0 {
			if fn, ok := n.(*parse.Form); ok {
				if fn.Head != nil {
					if h, _ := ev.PurelyEvalCompound(fn.Head); h == "set" || h == "tmp" || h == "del" {
						return "", ""
					}
				}
				break
			}
		}
	case "command":
		execOrDir = true
	default:
		return "", ""
	}
	if len(path0) >= 3 {
		if _, ok := path0[0].(*parse.Primary); ok {
			in, ok1 := path0[1].(*parse.Indexing)
			cn, ok2 := path0[2].(*parse.Compound)
			if ok1 && ok2 {
				typed, _ = ev.PurelyEvalPartialCompound(cn, in.To)
			}
		}
	}
	if res.Name == "command" && !(typed == ".." || strings.Contains(typed, "/")) {
		return "", "" // command names, not files
	}
	dir, prefix := filepath.Split(typed)
	dirToRead := dir
	if dirToRead == "" {
		dirToRead = "."
	}
	var want []string
	if ents, err := os.ReadDir(dirToRead); err == nil {
		for _, e := range ents {
			name := e.Name()
			if !strings.HasPrefix(name, prefix) || strings.HasPrefix(name, ".") != strings.HasPrefix(prefix, ".") {
				continue
			}
			full := dir + name
			st, err := os.Stat(full) // follows links
			isDir := err == nil && st.IsDir()
			if execOrDir {
				lst, err := os.Lstat(full)
				if err != nil || !(isDirNoFollow(lst) || fsutil.IsExecutable(lst)) {
					continue
				}
			}
			if isDir {
				full += "/"
			}
			want = append(want, full)
		}
	}
	sort.Strings(want)
	var got []string
	for _, it := range res.Items {
		got = append(got, showText(it.ToShow))
	}
	if strings.Join(got, "\x00") != strings.Join(want, "\x00") {
		return "filenames-mismatch", fmt.Sprintf("code %q dot %d: typed prefix %q: offered %q, the directory has %q", o.code, o.dot, typed, got, want)
	}
	return "", ""
}

func isDirNoFollow(st os.FileInfo) bool { return st.IsDir() }
